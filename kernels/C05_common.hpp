// shared by C05_slice.cpp / C05_view.cpp: the run-time slice encoding (list of either<int, either<array<int,3>, ellipsis>>)
#pragma once
#include "common.hpp"
#include "nmtools/array/index/slice.hpp"
using nm::None; using nm::Ellipsis;
using d_inner_t = nmtools_either<nmtools_array<int,3>, nm::ellipsis_t>;
using d_slice_t = nmtools_either<int, d_inner_t>;
template <typename L> static inline void mk_dslices(L& sl, const int* kinds, const int* p, size_t ns){
  for (size_t i=0;i<ns;i++){
    if (kinds[i]==0) sl.push_back(d_slice_t{p[3*i]});
    else if (kinds[i]==1) sl.push_back(d_slice_t{d_inner_t{nmtools_array<int,3>{p[3*i],p[3*i+1],p[3*i+2]}}});
    else sl.push_back(d_slice_t{d_inner_t{Ellipsis}});
  }
}
using d_sv_t = utl::static_vector<d_slice_t,4>;
