// C07 (a): wiring of element-wise views per arity. Real code: view::unary_ufunc / broadcast_binary_ufunc / ufunc_t::operator(),
// scalar operands (broadcast_to of a num), view::where (ternary), view::clip (composition less/where/greater/where), view::outer + index::outer
#include "common.hpp"
#include "nmtools/array/view/ufuncs/negative.hpp"
#include "nmtools/array/view/ufuncs/invert.hpp"
#include "nmtools/array/view/ufuncs/subtract.hpp"
#include "nmtools/array/view/ufuncs/clip.hpp"
#include "nmtools/array/view/where.hpp"
#include "nmtools/array/view/transpose.hpp"
namespace view = nm::view;
using a3_t = hyb_t<unsigned,64,3>;
using a2_t = hyb_t<unsigned,16,2>;
using a1_t = hyb_t<unsigned,4,1>;

// unary: negative / invert (bitwise not) of a 3-d hybrid array of unsigned
KERNEL int K(k_negative3)(const size_t* shape, const unsigned* data, const size_t* idx, size_t nidx, size_t* oshape, size_t* odim, unsigned* out){
  a3_t a; if (!mk3(a,shape,data)) return -1;
  return observe(view::negative(a), idx, nidx, oshape, odim, out);
}
KERNEL int K(k_invert3)(const size_t* shape, const unsigned* data, const size_t* idx, size_t nidx, size_t* oshape, size_t* odim, unsigned* out){
  a3_t a; if (!mk3(a,shape,data)) return -1;
  return observe(view::invert(a), idx, nidx, oshape, odim, out);
}
// binary, non-commutative: 2-d (op) 1-d and 1-d (op) 2-d (rank extension of the LEFT operand)
KERNEL int K(k_sub_21)(const size_t* sa, const unsigned* da, const size_t* sb, const unsigned* db, const size_t* idx, size_t nidx, size_t* oshape, size_t* odim, unsigned* out){
  a2_t a; a1_t b; if (!mk2(a,sa,da) || !mk1(b,sb,db)) return -1;
  return observe(view::subtract(a,b), idx, nidx, oshape, odim, out);
}
KERNEL int K(k_sub_12)(const size_t* sa, const unsigned* da, const size_t* sb, const unsigned* db, const size_t* idx, size_t nidx, size_t* oshape, size_t* odim, unsigned* out){
  a1_t a; a2_t b; if (!mk1(a,sa,da) || !mk2(b,sb,db)) return -1;
  return observe(view::subtract(a,b), idx, nidx, oshape, odim, out);
}
// 2-d (op) 2-d: size-1 axes stretched on either side
KERNEL int K(k_sub_22)(const size_t* sa, const unsigned* da, const size_t* sb, const unsigned* db, const size_t* idx, size_t nidx, size_t* oshape, size_t* odim, unsigned* out){
  a2_t a; a2_t b; if (!mk2(a,sa,da) || !mk2(b,sb,db)) return -1;
  return observe(view::subtract(a,b), idx, nidx, oshape, odim, out);
}
// 3-d (op) 2-d
KERNEL int K(k_sub_32)(const size_t* sa, const unsigned* da, const size_t* sb, const unsigned* db, const size_t* idx, size_t nidx, size_t* oshape, size_t* odim, unsigned* out){
  a3_t a; a2_t b; if (!mk3(a,sa,da) || !mk2(b,sb,db)) return -1;
  return observe(view::subtract(a,b), idx, nidx, oshape, odim, out);
}
// a VIEW as operand: transpose(a) (op) 1-d, and unary negative of transpose(a)
KERNEL int K(k_sub_t21)(const size_t* sa, const unsigned* da, const size_t* sb, const unsigned* db, const size_t* idx, size_t nidx, size_t* oshape, size_t* odim, unsigned* out){
  a2_t a; a1_t b; if (!mk2(a,sa,da) || !mk1(b,sb,db)) return -1;
  return observe(view::subtract(view::transpose(a),b), idx, nidx, oshape, odim, out);
}
KERNEL int K(k_neg_t2)(const size_t* sa, const unsigned* da, const size_t* idx, size_t nidx, size_t* oshape, size_t* odim, unsigned* out){
  a2_t a; if (!mk2(a,sa,da)) return -1;
  return observe(view::negative(view::transpose(a)), idx, nidx, oshape, odim, out);
}
// mixed element types under broadcasting: uint8 2-d (op) unsigned 1-d -> unsigned
KERNEL int K(k_sub_u8_21)(const size_t* sa, const unsigned char* da, const size_t* sb, const unsigned* db, const size_t* idx, size_t nidx, size_t* oshape, size_t* odim, unsigned* out){
  hyb_t<unsigned char,16,2> a; a1_t b; if (!mk2(a,sa,da) || !mk1(b,sb,db)) return -1;
  return observe(view::subtract(a,b), idx, nidx, oshape, odim, out);
}
// scalar operand on the right / on the left
KERNEL int K(k_sub_2s)(const size_t* sa, const unsigned* da, unsigned s, const size_t* idx, size_t nidx, size_t* oshape, size_t* odim, unsigned* out){
  a2_t a; if (!mk2(a,sa,da)) return -1;
  return observe(view::subtract(a,s), idx, nidx, oshape, odim, out);
}
KERNEL int K(k_sub_s2)(unsigned s, const size_t* sa, const unsigned* da, const size_t* idx, size_t nidx, size_t* oshape, size_t* odim, unsigned* out){
  a2_t a; if (!mk2(a,sa,da)) return -1;
  return observe(view::subtract(s,a), idx, nidx, oshape, odim, out);
}
// both operands scalar: scalar_ufunc_t (a num, no shape)
KERNEL unsigned K(k_sub_ss)(unsigned s, unsigned t){
  auto v = view::subtract(s,t);
  return (unsigned)v;
}
// ternary: where(condition 2-d, x 1-d, y scalar) and where(condition 1-d, x 2-d, y 2-d)
KERNEL int K(k_where_21s)(const size_t* sc, const unsigned* dc, const size_t* sx, const unsigned* dx, unsigned y, const size_t* idx, size_t nidx, size_t* oshape, size_t* odim, unsigned* out){
  a2_t c; a1_t x; if (!mk2(c,sc,dc) || !mk1(x,sx,dx)) return -1;
  return observe(view::where(c,x,y), idx, nidx, oshape, odim, out);
}
KERNEL int K(k_where_122)(const size_t* sc, const unsigned* dc, const size_t* sx, const unsigned* dx, const size_t* sy, const unsigned* dy, const size_t* idx, size_t nidx, size_t* oshape, size_t* odim, unsigned* out){
  a1_t c; a2_t x; a2_t y; if (!mk1(c,sc,dc) || !mk2(x,sx,dx) || !mk2(y,sy,dy)) return -1;
  return observe(view::where(c,x,y), idx, nidx, oshape, odim, out);
}
// mixed element types: condition unsigned[n], x int[n], y a long SCALAR -> NumPy/C element type long, value c ? (long)x : y
KERNEL int K(k_where_mixed)(const size_t* sc, const unsigned* dc, const int* dx, long y, const size_t* idx, size_t nidx, size_t* oshape, size_t* odim, long* out){
  a1_t c; hyb_t<int,4,1> x; if (!mk1(c,sc,dc) || !mk1(x,sc,dx)) return -1;
  return observe(view::where(c,x,y), idx, nidx, oshape, odim, out);
}
// mixed element types with THREE ARRAY operands (no scalar: not the pending finding): the element type is the common type of x's and y's elements
KERNEL int K(k_where_mixed_xy)(const size_t* sc, const unsigned* dc, const int* dx, const long* dy, const size_t* idx, size_t nidx, size_t* oshape, size_t* odim, long* out){
  a1_t c; hyb_t<int,4,1> x; hyb_t<long,4,1> y; if (!mk1(c,sc,dc) || !mk1(x,sc,dx) || !mk1(y,sc,dy)) return -1;
  auto v = view::where(c,x,y);
  static_assert(sizeof(meta::get_element_type_t<decltype(v)>) >= 1);
  *out = 0; int r = observe(v, idx, nidx, oshape, odim, out);
  return r == 1 ? (int)(10 + sizeof(meta::get_element_type_t<decltype(v)>)) : r;   // 10 + size of the declared element type
}
KERNEL int K(k_where_mixed_yx)(const size_t* sc, const unsigned* dc, const long* dx, const int* dy, const size_t* idx, size_t nidx, size_t* oshape, size_t* odim, long* out){
  a1_t c; hyb_t<long,4,1> x; hyb_t<int,4,1> y; if (!mk1(c,sc,dc) || !mk1(x,sc,dx) || !mk1(y,sc,dy)) return -1;
  auto v = view::where(c,x,y);
  *out = 0; int r = observe(v, idx, nidx, oshape, odim, out);
  return r == 1 ? (int)(10 + sizeof(meta::get_element_type_t<decltype(v)>)) : r;
}
// view::clip(array, amin, amax) does not compile for hybrid or fixed operands (view::where is handed a maybe-typed condition; the repo's own
// clip tests are disabled in tests/*/CMakeLists.txt), and the n-ary view::ufunc(op, a, b, c) fails its n_args static_assert for array operands.
// What is instantiable is the ternary functor on three scalars (scalar_ufunc_t with three operands):
KERNEL unsigned K(k_clip_sss)(unsigned t, unsigned lo, unsigned hi){
  auto v = view::ufunc(view::clip_t{}, t, lo, hi);
  return (unsigned)v;
}
// outer: shape(a)+shape(b), element (i,j) = a[i]-b[j]
KERNEL int K(k_outer_sub_21)(const size_t* sa, const unsigned* da, const size_t* sb, const unsigned* db, const size_t* idx, size_t nidx, size_t* oshape, size_t* odim, unsigned* out){
  a2_t a; a1_t b; if (!mk2(a,sa,da) || !mk1(b,sb,db)) return -1;
  return observe(view::outer_subtract(a,b), idx, nidx, oshape, odim, out);
}
KERNEL int K(k_outer_sub_12)(const size_t* sa, const unsigned* da, const size_t* sb, const unsigned* db, const size_t* idx, size_t nidx, size_t* oshape, size_t* odim, unsigned* out){
  a1_t a; a2_t b; if (!mk1(a,sa,da) || !mk2(b,sb,db)) return -1;
  return observe(view::outer_subtract(a,b), idx, nidx, oshape, odim, out);
}
