// C04 index level: the index maps behind the views, on bounded run-time shapes (static_vector<size_t,4>: the dimension itself is a run-time value)
#include "common.hpp"
#include "nmtools/array/index/tile.hpp"
#include "nmtools/array/index/repeat.hpp"
#include "nmtools/array/index/roll.hpp"
#include "nmtools/array/index/pad.hpp"
#include "nmtools/array/index/take.hpp"
#include "nmtools/array/index/concatenate.hpp"
#include "nmtools/array/index/resize.hpp"
using sv4 = utl::static_vector<size_t,4>;
#define SV(p,n) mk_sv<size_t,4>(p,n)
KERNEL size_t K(k_ix_shape_tile)(const size_t* shape, size_t dim, const size_t* reps, size_t nr, size_t* out){ return put(ix::shape_tile(SV(shape,dim), SV(reps,nr)), out); }
KERNEL size_t K(k_ix_tile)(const size_t* shape, size_t dim, const size_t* reps, size_t nr, const size_t* idx, size_t ni, size_t* out){ return put(ix::tile(SV(shape,dim), SV(reps,nr), SV(idx,ni)), out); }
KERNEL size_t K(k_ix_shape_repeat)(const size_t* shape, size_t dim, size_t repeats, size_t axis, size_t* out){ return put(ix::shape_repeat(SV(shape,dim), repeats, axis), out); }
KERNEL size_t K(k_ix_repeat)(const size_t* shape, size_t dim, const size_t* idx, size_t repeats, size_t axis, size_t* out){ return put(ix::repeat(SV(shape,dim), SV(idx,dim), repeats, axis), out); }
KERNEL int K(k_ix_shape_roll)(const size_t* shape, size_t dim, int shift, int axis, size_t* out, size_t* nout){ auto r = ix::shape_roll(SV(shape,dim), shift, axis); if (!nm::has_value(r)) return 0; *nout = put(nm::unwrap(r), out); return 1; }
KERNEL size_t K(k_ix_roll)(const size_t* shape, size_t dim, const size_t* idx, int shift, size_t axis, size_t* out){ return put(ix::roll(SV(shape,dim), SV(idx,dim), shift, axis), out); }
// pad widths: [before_0..before_{d-1}, after_0..after_{d-1}] as a bounded list of 2*dim entries
KERNEL int K(k_ix_shape_pad)(const size_t* shape, size_t dim, const size_t* w, size_t nw, size_t* out, size_t* nout){ auto r = ix::shape_pad(SV(shape,dim), mk_sv<size_t,8>(w,nw)); if (!nm::has_value(r)) return 0; *nout = put(nm::unwrap(r), out); return 1; }
KERNEL int K(k_ix_pad)(const size_t* idx, const size_t* shape, const size_t* dshape, size_t dim, const size_t* w, size_t* out, size_t* nout){
  auto r = ix::pad(SV(idx,dim), SV(shape,dim), SV(dshape,dim), mk_sv<size_t,8>(w,2*dim)); if (!nm::has_value(r)) return 0; *nout = put(nm::unwrap(r), out); return 1; }
KERNEL size_t K(k_ix_shape_take)(const size_t* shape, size_t dim, const size_t* ind, size_t ni, size_t axis, size_t* out){ return put(ix::shape_take(SV(shape,dim), SV(ind,ni), axis), out); }
KERNEL size_t K(k_ix_take)(const size_t* idx, const size_t* shape, size_t dim, const size_t* ind, size_t ni, size_t axis, size_t* out){ return put(ix::take(SV(idx,dim), SV(shape,dim), SV(ind,ni), axis), out); }
KERNEL int K(k_ix_shape_concatenate)(const size_t* a, const size_t* b, size_t dim, size_t axis, size_t* out, size_t* nout){ auto [ok, s] = ix::shape_concatenate(SV(a,dim), SV(b,dim), axis); *nout = put(s, out); return ok; }
KERNEL int K(k_ix_concatenate)(const size_t* a, const size_t* b, size_t dim, const size_t* idx, size_t axis, size_t* ai, size_t* bi){
  auto [af, bf, x, y] = ix::concatenate(SV(a,dim), SV(b,dim), SV(idx,dim), axis); put(x, ai); put(y, bi); return (af ? 1 : 0) | (bf ? 2 : 0); }
KERNEL int K(k_ix_shape_resize)(const size_t* shape, size_t dim, const size_t* dst, size_t nd, size_t* out, size_t* nout){ auto r = ix::shape_resize(SV(shape,dim), SV(dst,nd)); if (!nm::has_value(r)) return 0; *nout = put(nm::unwrap(r), out); return 1; }
KERNEL size_t K(k_ix_resize)(const size_t* idx, const size_t* shape, const size_t* dst, size_t dim, size_t* out){ return put(ix::resize(SV(idx,dim), SV(shape,dim), SV(dst,dim)), out); }
