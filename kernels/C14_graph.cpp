// C14, compute graph: fn::get_compute_graph(view) for an enumerated list of view types over aliased leaves. The graph is a function of TYPES (node ids are
// compile-time ids, leaves carry their alias id), so these kernels take no data: they write the node ids, the edge list and the ids of the sub-views.
// out: nodes[0..*nn), edges[2*k], edges[2*k+1] = (from, to) for k < *ne; ids[] = ids of the program's views in the order documented per kernel.
#include "common.hpp"
#include "nmtools/array/functional/functor.hpp"
#include "nmtools/array/functional/compute_graph.hpp"
#include "nmtools/array/functional/ufuncs/add.hpp"
#include "nmtools/array/functional/ufuncs/subtract.hpp"
#include "nmtools/array/functional/ufuncs/multiply.hpp"
#include "nmtools/array/functional/ufuncs/tanh.hpp"
#include "nmtools/array/functional/ufuncs/exp.hpp"
#include "nmtools/array/functional/transpose.hpp"
#include "nmtools/array/functional/sum.hpp"
#include "nmtools/array/view/alias.hpp"
namespace view = nm::view; namespace fn = nm::functional;
using namespace nm::literals;
template <typename G> static inline void collect(const G& graph, long* nodes, size_t* nn, long* edges, size_t* ne){
  auto out_edges = graph.out_edges(); constexpr auto N = meta::len_v<decltype(out_edges)>; *ne = N;
  meta::template_for<N>([&](auto i){ auto e = nm::at(out_edges, i); edges[2*decltype(i)::value] = (long)nm::get<0>(e); edges[2*decltype(i)::value + 1] = (long)nm::get<1>(e); });
  auto ids = graph.nodes(); constexpr auto M = meta::len_v<decltype(ids)>; *nn = M;
  meta::template_for<M>([&](auto i){ nodes[decltype(i)::value] = (long)nm::at(ids, i); });
}
#define SIGG long* nodes, size_t* nn, long* edges, size_t* ne, long* ids
#define ID(v) ((long)decltype(v)::id_type::value)
#define GRAPH(y) auto mg = fn::get_compute_graph(y); if (!nm::has_value(mg)) return 0; collect(nm::unwrap(mg), nodes, nn, edges, ne); return 1;
static float xa[3] = {0.f, .5f, 1.f}; static float ya[3] = {1.f, 2.f, 3.f}; static float m23[2][3] = {{1,2,3},{4,5,6}};
// chain exp(tanh(x)): ids = {tanh, exp}
KERNEL int K(k_g_chain)(SIGG){ auto x = view::alias(xa, 0_ct); auto t = view::tanh(x); auto y = view::exp(t); ids[0] = ID(t); ids[1] = ID(y); GRAPH(y) }
// diamond add(tanh(x), exp(x)): ids = {tanh, exp, add}
KERNEL int K(k_g_diamond)(SIGG){ auto x = view::alias(xa, 0_ct); auto l = view::tanh(x); auto r = view::exp(x); auto y = view::add(l, r); ids[0] = ID(l); ids[1] = ID(r); ids[2] = ID(y); GRAPH(y) }
// shared leaf used in a sub-view and directly: multiply(tanh(x), x): ids = {tanh, multiply}
KERNEL int K(k_g_shared)(SIGG){ auto x = view::alias(xa, 0_ct); auto t = view::tanh(x); auto y = view::multiply(t, x); ids[0] = ID(t); ids[1] = ID(y); GRAPH(y) }
// mirrored: multiply(x, tanh(x))
KERNEL int K(k_g_shared2)(SIGG){ auto x = view::alias(xa, 0_ct); auto t = view::tanh(x); auto y = view::multiply(x, t); ids[0] = ID(t); ids[1] = ID(y); GRAPH(y) }
// two leaves: subtract(add(x, y), y): ids = {add, subtract}; leaves 0 and 1
KERNEL int K(k_g_two)(SIGG){ auto x = view::alias(xa, 0_ct); auto z = view::alias(ya, 1_ct); auto a = view::add(x, z); auto y = view::subtract(a, z); ids[0] = ID(a); ids[1] = ID(y); GRAPH(y) }
// depth 3 over two leaves with both shared: multiply(add(x,z), subtract(x,z)): ids = {add, subtract, multiply}
KERNEL int K(k_g_two_diamond)(SIGG){ auto x = view::alias(xa, 0_ct); auto z = view::alias(ya, 1_ct); auto a = view::add(x, z); auto s = view::subtract(x, z); auto y = view::multiply(a, s);
  ids[0] = ID(a); ids[1] = ID(s); ids[2] = ID(y); GRAPH(y) }
