// C08: reductions and accumulations. Real code: view::reduce dispatch (ufunc.hpp), reduce_t::operator() / operator num, reducer_t,
// index::remove_dims, index::reduction_slices, accumulate_t::operator(); element type unsigned (wrap-around defined), op subtract (non-commutative) and add.
#include "common.hpp"
#include "nmtools/array/view/ufuncs/subtract.hpp"
#include "nmtools/array/view/ufuncs/add.hpp"
#include "nmtools/array/view/ufuncs/multiply.hpp"
namespace view = nm::view;
using a3_t = hyb_t<unsigned,27,3>;
using sub_t = view::subtract_t<>;

// observe for results that may be an either (run-time keepdims) of two view kinds, or a num (axis=None, keepdims false)
template <typename V, typename T> static inline int observe_any(const V& v, const size_t* idx, size_t nidx, size_t* oshape, size_t* odim, T* out){
  if constexpr (meta::is_either_v<V>) {
    using L = meta::get_either_left_t<V>; using R = meta::get_either_right_t<V>;
    if (auto l = nm::get_if<L>(&v)) return observe_any(*l, idx, nidx, oshape, odim, out);
    else return observe_any(*nm::get_if<R>(&v), idx, nidx, oshape, odim, out);
  } else if constexpr (meta::is_num_v<V>) {
    *odim = 0; *out = (T)static_cast<meta::get_element_type_t<V>>(v); return nidx == 0 ? 1 : 2;
  } else return observe(v, idx, nidx, oshape, odim, out);
}
#define SIG const size_t* shape, const unsigned* data
#define OUTS const size_t* idx, size_t nidx, size_t* oshape, size_t* odim, unsigned* out
#define MK a3_t a; if (!mk3(a,shape,data)) return -1
#define OBS_ANY(v) return observe_any(v, idx, nidx, oshape, odim, out)
// single run-time axis (possibly negative)
KERNEL int K(k_rsub_axis)(SIG, int axis, OUTS){ MK; OBS_ANY(view::reduce_subtract(a, axis)); }
KERNEL int K(k_rsub_axis_init)(SIG, int axis, unsigned init, OUTS){ MK; OBS_ANY(view::reduce_subtract(a, axis, nm::None, init)); }
KERNEL int K(k_rsub_axis_keep_ct)(SIG, int axis, OUTS){ MK; OBS_ANY(view::reduce_subtract(a, axis, nm::None, nm::None, nm::True)); }
KERNEL int K(k_rsub_axis_keep_rt)(SIG, int axis, int keepdims, OUTS){ MK; OBS_ANY(view::reduce_subtract(a, axis, nm::None, nm::None, (bool)keepdims)); }
KERNEL int K(k_rsub_axis_init_keep_rt)(SIG, int axis, unsigned init, int keepdims, OUTS){ MK; OBS_ANY(view::reduce_subtract(a, axis, nm::None, init, (bool)keepdims)); }
KERNEL int K(k_radd_axis)(SIG, int axis, OUTS){ MK; OBS_ANY(view::reduce_add(a, axis)); }
// several run-time axes given as an array (view::reduce directly: reduce_subtract static_asserts a single axis)
KERNEL int K(k_rsub_axes2)(SIG, const int* axes, OUTS){ MK; OBS_ANY(view::reduce(sub_t{}, a, mk_arr<int,2>(axes))); }
KERNEL int K(k_rsub_axes2_init_keep_rt)(SIG, const int* axes, unsigned init, int keepdims, OUTS){ MK; OBS_ANY(view::reduce(sub_t{}, a, mk_arr<int,2>(axes), nm::None, init, (bool)keepdims)); }
KERNEL int K(k_rsub_axes3_keep_ct)(SIG, const int* axes, OUTS){ MK; OBS_ANY(view::reduce(sub_t{}, a, mk_arr<int,3>(axes), nm::None, nm::None, nm::True)); }
KERNEL int K(k_radd_axes2)(SIG, const int* axes, OUTS){ MK; OBS_ANY(view::reduce_add(a, mk_arr<int,2>(axes))); }
// axis = None
KERNEL int K(k_rsub_none)(SIG, OUTS){ MK; OBS_ANY(view::reduce(sub_t{}, a, nm::None)); }
KERNEL int K(k_rsub_none_init)(SIG, unsigned init, OUTS){ MK; OBS_ANY(view::reduce(sub_t{}, a, nm::None, nm::None, init)); }
KERNEL int K(k_rsub_none_keep_ct)(SIG, OUTS){ MK; OBS_ANY(view::reduce(sub_t{}, a, nm::None, nm::None, nm::None, nm::True)); }
KERNEL int K(k_rsub_none_keep_rt)(SIG, int keepdims, OUTS){ MK; OBS_ANY(view::reduce(sub_t{}, a, nm::None, nm::None, nm::None, (bool)keepdims)); }
// accumulate
KERNEL int K(k_asub_axis)(SIG, int axis, OUTS){ MK; OBS_ANY(view::accumulate_subtract(a, axis)); }

// explicitly named axes that reduce the array to a number (reduce_t::operator num_type, the scalar evaluation site), without / with initial
KERNEL int K(k_rsub_axes3)(SIG, const int* axes, OUTS){ MK; OBS_ANY(view::reduce(sub_t{}, a, mk_arr<int,3>(axes))); }
KERNEL int K(k_rsub_axes3_init)(SIG, const int* axes, unsigned init, OUTS){ MK; OBS_ANY(view::reduce(sub_t{}, a, mk_arr<int,3>(axes), nm::None, init)); }
// result dtype: 8-bit source elements folded in a 32-bit accumulator (dtype = uint32); the fold must not be narrowed to the source type between steps
using a3b_t = hyb_t<unsigned char,27,3>;
#define SIGB const size_t* shape, const unsigned char* data
#define MKB a3b_t a; if (!mk3(a,shape,data)) return -1
KERNEL int K(k_radd_axis_dtype)(SIGB, int axis, OUTS){ MKB; OBS_ANY(view::reduce_add(a, axis, nm::uint32)); }
KERNEL int K(k_radd_axis_dtype_init)(SIGB, int axis, unsigned init, OUTS){ MKB; OBS_ANY(view::reduce_add(a, axis, nm::uint32, init)); }
KERNEL int K(k_radd_none_dtype)(SIGB, OUTS){ MKB; OBS_ANY(view::reduce_add(a, nm::None, nm::uint32)); }
KERNEL int K(k_aadd_axis_dtype)(SIGB, int axis, OUTS){ MKB; OBS_ANY(view::accumulate_add(a, axis, nm::uint32)); }
// narrowing dtype: 32-bit source elements, dtype = uint8: every partial result is an 8-bit value
KERNEL int K(k_radd_axis_dtype8)(SIG, int axis, const size_t* idx, size_t nidx, size_t* oshape, size_t* odim, unsigned char* out){ MK; OBS_ANY(view::reduce_add(a, axis, nm::uint8)); }
KERNEL int K(k_aadd_axis_dtype8)(SIG, int axis, const size_t* idx, size_t nidx, size_t* oshape, size_t* odim, unsigned char* out){ MK; OBS_ANY(view::accumulate_add(a, axis, nm::uint8)); }
// axis None with dtype, initial and keepdims together (the None specialisation of reduce_t has its own copies of the fold)
KERNEL int K(k_radd_none_dtype_init_keep)(SIGB, unsigned init, OUTS){ MKB; OBS_ANY(view::reduce_add(a, nm::None, nm::uint32, init, nm::True)); }
KERNEL int K(k_radd_none_dtype_init)(SIGB, unsigned init, OUTS){ MKB; OBS_ANY(view::reduce_add(a, nm::None, nm::uint32, init)); }
KERNEL int K(k_radd_none_dtype_keep)(SIGB, OUTS){ MKB; OBS_ANY(view::reduce_add(a, nm::None, nm::uint32, nm::None, nm::True)); }
KERNEL int K(k_radd_axis_dtype_init_keep)(SIGB, int axis, unsigned init, OUTS){ MKB; OBS_ANY(view::reduce_add(a, axis, nm::uint32, init, nm::True)); }
