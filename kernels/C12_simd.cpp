// C12: SIMD evaluation vs default scalar evaluation of the SAME nmtools call (differential kernels).
// One source, compiled once per SIMD context and part: -DC12_CTX=<n> -DC12_PART=<1 element-wise | 2 outer | 3 reductions | 4 tight buffers> -DKSUFFIX=_<ctx>
// (+ the -m flag the context needs); the parts are separate TUs only to keep each translated C file small.
// Every k_<op>_<f|d>_simd<sfx> kernel has a twin k_<op>_<f|d>_ref<sfx> that makes the identical call without a context.
// Real code: array::evaluator_t<view, simd_base_t<tag>>::eval_unary / eval_binary (eval/simd/evaluator/ufunc.hpp),
// index::binary_2d_simd_enumerator (eval/simd/index/ufunc.hpp), simd_op_t of x86_sse.hpp / x86_avx.hpp / vector_extension.hpp / simde_avx512.
#include <cstddef>
static inline void fill_n(double* d, const double* s, size_t n);   // seen by common.hpp's fill<>() template (two-phase lookup)
#include "common.hpp"
#if C12_CTX == 1
#include "nmtools/array/eval/simd/x86_avx.hpp"
#define CTX na::simd::x86_AVX
#elif C12_CTX == 2
#include "nmtools/array/eval/simd/x86_sse.hpp"
#define CTX na::simd::x86_SSE
#elif C12_CTX == 3
#include "nmtools/array/eval/simd/vector_128.hpp"
#define CTX na::simd::vector_128
#elif C12_CTX == 4
#include "nmtools/array/eval/simd/vector_256.hpp"
#define CTX na::simd::vector_256
#elif C12_CTX == 5
#include "nmtools/array/eval/simd/vector_512.hpp"
#define CTX na::simd::vector_512
#elif C12_CTX == 6
#include "nmtools/array/eval/simd/simde_avx512.hpp"
#define CTX na::simd::simde_AVX512
#else
#error "C12_CTX"
#endif
#include "nmtools/array/array/ufuncs/sqrt.hpp"
#include "nmtools/array/array/ufuncs/ceil.hpp"
#include "nmtools/array/array/ufuncs/floor.hpp"
#include "nmtools/array/array/ufuncs/add.hpp"
#include "nmtools/array/array/ufuncs/subtract.hpp"
#include "nmtools/array/array/ufuncs/multiply.hpp"
#include "nmtools/array/array/ufuncs/divide.hpp"
#include "nmtools/array/array/activations/relu.hpp"
#include "nmtools/array/array/activations/relu6.hpp"
#include "nmtools/array/array/activations/hardtanh.hpp"
#include "nmtools/array/array/activations/hardshrink.hpp"
#include "nmtools/array/array/activations/hardswish.hpp"
#include "nmtools/array/array/activations/leaky_relu.hpp"
#include "nmtools/array/array/activations/prelu.hpp"
#include "nmtools/array/array/activations/softshrink.hpp"
#include "nmtools/array/array/activations/softsign.hpp"

#define CAP1 72    // 1-d operands: up to 4*16+1 elements (512-bit float)
#define CAP2 160   // 2-d operands / results
KERNEL void K(k_fill_f64)(double* dst, const double* src, size_t n){ for (size_t i=0;i<n;i++) dst[i]=src[i]; }
static inline void fill_n(double* d, const double* s, size_t n){ K(k_fill_f64)(d,s,n); }
KERNEL void K(k_emit_f32)(float* dst, const float* src, size_t n){ for (size_t i=0;i<n;i++) dst[i]=src[i]; }
KERNEL void K(k_emit_f64)(double* dst, const double* src, size_t n){ for (size_t i=0;i<n;i++) dst[i]=src[i]; }
static inline void emit_n(float* d, const float* s, size_t n){ K(k_emit_f32)(d,s,n); }
static inline void emit_n(double* d, const double* s, size_t n){ K(k_emit_f64)(d,s,n); }
// copy the evaluated result (shape + flat buffer) to the out-parameters; returns the element count
template <typename R, typename T> static inline size_t emit(const R& r, T* out, size_t* oshape, size_t* odim){
  *odim = put(nm::shape(r), oshape);
  size_t m = nm::size(r); emit_n(out, nm::data(r), m); return m; }
template <typename MR, typename T> static inline size_t emit_maybe(const MR& mr, T* out, size_t* oshape, size_t* odim){
  if (!nm::has_value(mr)) return (size_t)-2;
  return emit(nm::unwrap(mr), out, oshape, odim); }

template <typename T> using v1_t = hyb_t<T,CAP1,1>;
template <typename T> using v2_t = hyb_t<T,CAP2,2>;

#if C12_PART == 1
// ---- unary element-wise: eval_unary (packed loop + scalar tail)
#define UNARY_T(op, T, tn, PARAMS, ARGS) \
KERNEL size_t K(k_##op##_##tn##_simd)(const T* in, size_t n PARAMS, T* out, size_t* oshape, size_t* odim){ v1_t<T> a; if(!a.resize(n)) return (size_t)-1; fill_n(&a.data_[0],in,n); \
  return emit_maybe(na::op(a ARGS, CTX), out, oshape, odim); } \
KERNEL size_t K(k_##op##_##tn##_ref)(const T* in, size_t n PARAMS, T* out, size_t* oshape, size_t* odim){ v1_t<T> a; if(!a.resize(n)) return (size_t)-1; fill_n(&a.data_[0],in,n); \
  return emit_maybe(na::op(a ARGS), out, oshape, odim); }
#define COMMA ,
#define UNARY0(op) UNARY_T(op,float,f,,) UNARY_T(op,double,d,,)
#define UNARY1(op) UNARY_T(op,float,f,COMMA float p0,COMMA p0) UNARY_T(op,double,d,COMMA double p0,COMMA p0)
#define UNARY2(op) UNARY_T(op,float,f,COMMA float p0 COMMA float p1,COMMA p0 COMMA p1) UNARY_T(op,double,d,COMMA double p0 COMMA double p1,COMMA p0 COMMA p1)
UNARY0(relu) UNARY0(relu6) UNARY0(sqrt) UNARY0(ceil) UNARY0(floor) UNARY0(softsign)
UNARY1(leaky_relu) UNARY1(prelu)
UNARY2(hardtanh)
#if C12_CTX != 6   // simde_avx512/ufunc.hpp uses simde_kxor_mask16/8 for these three, which the installed SIMDe does not provide (compile error)
UNARY0(hardswish) UNARY1(softshrink) UNARY1(hardshrink)
#endif

// ---- binary element-wise on same-shape 1-d operands: eval_binary SAME_SHAPE
// (the result type is requested as a hybrid array through the public output-type argument: the default result of a broadcasting
//  ufunc is a std::vector-backed array, which costs 100x in the solver; measured 151 s vs ~2 s for n = 9)
#define BINARY_T(op, T, tn) \
KERNEL size_t K(k_##op##_##tn##_simd)(const T* x, const T* y, size_t n, T* out, size_t* oshape, size_t* odim){ v1_t<T> a,b; if(!a.resize(n)||!b.resize(n)) return (size_t)-1; \
  fill_n(&a.data_[0],x,n); fill_n(&b.data_[0],y,n); return emit_maybe(na::op(a,b,CTX,meta::as_value_v<v1_t<T>>), out, oshape, odim); } \
KERNEL size_t K(k_##op##_##tn##_ref)(const T* x, const T* y, size_t n, T* out, size_t* oshape, size_t* odim){ v1_t<T> a,b; if(!a.resize(n)||!b.resize(n)) return (size_t)-1; \
  fill_n(&a.data_[0],x,n); fill_n(&b.data_[0],y,n); return emit_maybe(na::op(a,b,nm::None,meta::as_value_v<v1_t<T>>), out, oshape, odim); }
#define BINARY(op) BINARY_T(op,float,f) BINARY_T(op,double,d)
BINARY(add) BINARY(subtract) BINARY(multiply) BINARY(divide)

// ---- binary element-wise on 2-d operands of run-time shapes (same shape or broadcast): eval_binary SAME_SHAPE / BROADCASTED_2D
#define BINARY2_T(op, T, tn) \
KERNEL size_t K(k_##op##2_##tn##_simd)(const size_t* xs, const T* x, const size_t* ys, const T* y, T* out, size_t* oshape, size_t* odim){ v2_t<T> a,b; if(!mk2(a,xs,x)||!mk2(b,ys,y)) return (size_t)-1; \
  return emit_maybe(na::op(a,b,CTX,meta::as_value_v<v2_t<T>>), out, oshape, odim); } \
KERNEL size_t K(k_##op##2_##tn##_ref)(const size_t* xs, const T* x, const size_t* ys, const T* y, T* out, size_t* oshape, size_t* odim){ v2_t<T> a,b; if(!mk2(a,xs,x)||!mk2(b,ys,y)) return (size_t)-1; \
  return emit_maybe(na::op(a,b,nm::None,meta::as_value_v<v2_t<T>>), out, oshape, odim); }
#define BINARY2(op) BINARY2_T(op,float,f) BINARY2_T(op,double,d)
BINARY2(add) BINARY2(subtract) BINARY2(multiply) BINARY2(divide)

#endif
// (binary 2-d (r,c) with 1-d (c,) under a SIMD context does not compile for fixed-dim operands: eval_binary calls utils::isequal on a
//  2-entry and a 1-entry std::array shape, which is a static_assert failure; the pattern is therefore outside what can be evaluated)

template <typename T> using v3_t = hyb_t<T,CAP2,3>;
#if C12_PART == 2
// ---- outer: eval_outer (lhs element broadcast with set1, rhs packed + padded tail); 1-d x 1-d -> (n,m) and 2-d x 1-d -> (r,c,m)
#define OUTER_T(op, T, tn) \
KERNEL size_t K(k_outer_##op##_##tn##_simd)(const T* x, size_t n, const T* y, size_t m, T* out, size_t* oshape, size_t* odim){ v1_t<T> a,b; if(!a.resize(n)||!b.resize(m)) return (size_t)-1; \
  fill_n(&a.data_[0],x,n); fill_n(&b.data_[0],y,m); return emit_maybe(na::op.outer(a,b,nm::None,CTX,meta::as_value_v<v2_t<T>>), out, oshape, odim); } \
KERNEL size_t K(k_outer_##op##_##tn##_ref)(const T* x, size_t n, const T* y, size_t m, T* out, size_t* oshape, size_t* odim){ v1_t<T> a,b; if(!a.resize(n)||!b.resize(m)) return (size_t)-1; \
  fill_n(&a.data_[0],x,n); fill_n(&b.data_[0],y,m); return emit_maybe(na::op.outer(a,b,nm::None,nm::None,meta::as_value_v<v2_t<T>>), out, oshape, odim); } \
KERNEL size_t K(k_outer2_##op##_##tn##_simd)(const size_t* xs, const T* x, const T* y, size_t m, T* out, size_t* oshape, size_t* odim){ v2_t<T> a; v1_t<T> b; if(!mk2(a,xs,x)||!b.resize(m)) return (size_t)-1; \
  fill_n(&b.data_[0],y,m); return emit_maybe(na::op.outer(a,b,nm::None,CTX,meta::as_value_v<v3_t<T>>), out, oshape, odim); } \
KERNEL size_t K(k_outer2_##op##_##tn##_ref)(const size_t* xs, const T* x, const T* y, size_t m, T* out, size_t* oshape, size_t* odim){ v2_t<T> a; v1_t<T> b; if(!mk2(a,xs,x)||!b.resize(m)) return (size_t)-1; \
  fill_n(&b.data_[0],y,m); return emit_maybe(na::op.outer(a,b,nm::None,nm::None,meta::as_value_v<v3_t<T>>), out, oshape, odim); }
#define OUTER(op) OUTER_T(op,float,f) OUTER_T(op,double,d)
OUTER(add) OUTER(subtract) OUTER(multiply)   // array::divide has no outer form

#endif
#if C12_PART == 3
// ---- reductions: eval_reduction (full / vertical / horizontal with identity padding); axis is a run-time index, keepdims a compile-time flag
#define REDUCE2_T(op, T, tn, kd, KD, R) \
KERNEL size_t K(k_reduce2_##op##_##kd##_##tn##_simd)(const size_t* xs, const T* x, int axis, T* out, size_t* oshape, size_t* odim){ v2_t<T> a; if(!mk2(a,xs,x)) return (size_t)-1; \
  return emit_maybe(na::op.reduce(a,axis,nm::None,nm::None,KD,CTX,meta::as_value_v<R>), out, oshape, odim); } \
KERNEL size_t K(k_reduce2_##op##_##kd##_##tn##_ref)(const size_t* xs, const T* x, int axis, T* out, size_t* oshape, size_t* odim){ v2_t<T> a; if(!mk2(a,xs,x)) return (size_t)-1; \
  return emit_maybe(na::op.reduce(a,axis,nm::None,nm::None,KD,nm::None,meta::as_value_v<R>), out, oshape, odim); }
#define REDUCE3_T(op, T, tn, kd, KD, R) \
KERNEL size_t K(k_reduce3_##op##_##kd##_##tn##_simd)(const size_t* xs, const T* x, int axis, T* out, size_t* oshape, size_t* odim){ v3_t<T> a; if(!mk3(a,xs,x)) return (size_t)-1; \
  return emit_maybe(na::op.reduce(a,axis,nm::None,nm::None,KD,CTX,meta::as_value_v<R>), out, oshape, odim); } \
KERNEL size_t K(k_reduce3_##op##_##kd##_##tn##_ref)(const size_t* xs, const T* x, int axis, T* out, size_t* oshape, size_t* odim){ v3_t<T> a; if(!mk3(a,xs,x)) return (size_t)-1; \
  return emit_maybe(na::op.reduce(a,axis,nm::None,nm::None,KD,nm::None,meta::as_value_v<R>), out, oshape, odim); }
// axis = None: everything is reduced; keepdims=True gives shape (1,1), keepdims=False a scalar
#define REDUCEALL_T(op, T, tn) \
KERNEL size_t K(k_reduceall_##op##_kd_##tn##_simd)(const size_t* xs, const T* x, T* out, size_t* oshape, size_t* odim){ v2_t<T> a; if(!mk2(a,xs,x)) return (size_t)-1; \
  return emit_maybe(na::op.reduce(a,nm::None,nm::None,nm::None,nm::True,CTX,meta::as_value_v<v2_t<T>>), out, oshape, odim); } \
KERNEL size_t K(k_reduceall_##op##_kd_##tn##_ref)(const size_t* xs, const T* x, T* out, size_t* oshape, size_t* odim){ v2_t<T> a; if(!mk2(a,xs,x)) return (size_t)-1; \
  return emit_maybe(na::op.reduce(a,nm::None,nm::None,nm::None,nm::True,nm::None,meta::as_value_v<v2_t<T>>), out, oshape, odim); } \
KERNEL size_t K(k_reduceall_##op##_nk_##tn##_simd)(const size_t* xs, const T* x, T* out){ v2_t<T> a; if(!mk2(a,xs,x)) return (size_t)-1; \
  *out = na::op.reduce(a,nm::None,nm::None,nm::None,nm::False,CTX); return 1; } \
KERNEL size_t K(k_reduceall_##op##_nk_##tn##_ref)(const size_t* xs, const T* x, T* out){ v2_t<T> a; if(!mk2(a,xs,x)) return (size_t)-1; \
  *out = na::op.reduce(a,nm::None,nm::None,nm::None,nm::False); return 1; }
#define REDUCE(op, T, tn) REDUCE2_T(op,T,tn,kd,nm::True,v2_t<T>) REDUCE2_T(op,T,tn,nk,nm::False,v1_t<T>) REDUCE3_T(op,T,tn,kd,nm::True,v3_t<T>) REDUCE3_T(op,T,tn,nk,nm::False,v2_t<T>) REDUCEALL_T(op,T,tn)
REDUCE(add,float,f) REDUCE(multiply,float,f) REDUCE(add,double,d)
#endif
#if C12_PART == 4
// ---- tight buffers: operands are std::array<T,N> objects of EXACTLY N cells (N a compile-time constant, one kernel per listed N), the result
//      is whatever the evaluator returns for them, so that CBMC's object bounds decide that no packed load/store or tail access touches a cell
//      outside [0,N) (the hybrid buffers above have spare capacity behind the logical size, which hides a small over-read)
template <size_t N, typename T> static inline nmtools_array<T,N> mk_fix(const T* p){ nmtools_array<T,N> a{}; fill_n(&a[0], p, N); return a; }
#define TIGHT(N) \
KERNEL size_t K(k_tight_relu_##N##_f_simd)(const float* in, float* out, size_t* oshape, size_t* odim){ auto a = mk_fix<N>(in); return emit_maybe(na::relu(a,CTX), out, oshape, odim); } \
KERNEL size_t K(k_tight_relu_##N##_f_ref)(const float* in, float* out, size_t* oshape, size_t* odim){ auto a = mk_fix<N>(in); return emit_maybe(na::relu(a), out, oshape, odim); } \
KERNEL size_t K(k_tight_add_##N##_f_simd)(const float* x, const float* y, float* out, size_t* oshape, size_t* odim){ auto a = mk_fix<N>(x); auto b = mk_fix<N>(y); return emit_maybe(na::add(a,b,CTX), out, oshape, odim); } \
KERNEL size_t K(k_tight_add_##N##_f_ref)(const float* x, const float* y, float* out, size_t* oshape, size_t* odim){ auto a = mk_fix<N>(x); auto b = mk_fix<N>(y); return emit_maybe(na::add(a,b), out, oshape, odim); }
TIGHT(3) TIGHT(5) TIGHT(7) TIGHT(9) TIGHT(11) TIGHT(17) TIGHT(19) TIGHT(35)
#endif
