// C16: outer, vecdot, trace, dot, inner, kron, tensordot on hybrid uint8 operands of fixed dim. One routine per build (-DR_<NAME>), so
// that every routine is its own translation unit. Kernels only marshal; a 0-d (scalar) result is reported with odim = 0.
#include "common.hpp"
#if defined(R_OUTER)
#include "nmtools/array/view/outer.hpp"
#elif defined(R_VECDOT)
#include "nmtools/array/view/vecdot.hpp"
#elif defined(R_TRACE)
#include "nmtools/array/view/trace.hpp"
#elif defined(R_DOT)
#include "nmtools/array/view/dot.hpp"
#elif defined(R_INNER)
#include "nmtools/array/view/inner.hpp"
#elif defined(R_KRON)
#include "nmtools/array/view/kron.hpp"
#elif defined(R_TENSORDOT)
#include "nmtools/array/view/tensordot.hpp"
#endif
namespace view = nm::view;
typedef unsigned char u8;
template <size_t D> using h_t = hyb_t<u8,16,D>;
template <typename A> static inline bool mkd(A& a, const size_t* s, const u8* d){
  constexpr size_t D = meta::len_v<decltype(a.shape_)>;
  if constexpr (D==1) return mk1(a,s,d); else if constexpr (D==2) return mk2(a,s,d); else if constexpr (D==3) return mk3(a,s,d); else return mk4(a,s,d);
}
// like observe(), but a num (0-d) result is reported with *odim = 0
template <typename V> static inline int observe0(const V& mv, const size_t* idx, size_t nidx, size_t* oshape, size_t* odim, u8* out){
  if (!nm::has_value(mv)) return 0;
  const auto& v = nm::unwrap(mv);
  using v_t = meta::remove_cvref_t<decltype(v)>;
  if constexpr (meta::is_num_v<v_t>) { *odim = 0; if (nidx != 0) return 2; *out = (u8)v; return 1; }
  else return observe(mv, idx, nidx, oshape, odim, out);
}
#define SIG2 const size_t* sa, const u8* da, const size_t* sb, const u8* db, const size_t* idx, size_t nidx, size_t* oshape, size_t* odim, u8* out
#define SIG1 const size_t* sa, const u8* da, const size_t* idx, size_t nidx, size_t* oshape, size_t* odim, u8* out
#define BIN(NAME,DA,DB,EXPR) KERNEL int K(k_##NAME##_##DA##DB)(SIG2){ h_t<DA> a; h_t<DB> b; if (!mkd(a,sa,da) || !mkd(b,sb,db)) return -1; \
  return observe0(EXPR, idx, nidx, oshape, odim, out); }
#if defined(R_OUTER)
BIN(outer,1,1,view::outer(a,b)) BIN(outer,2,1,view::outer(a,b)) BIN(outer,1,2,view::outer(a,b))
#elif defined(R_VECDOT)
BIN(vecdot,1,1,view::vecdot(a,b)) BIN(vecdot,2,2,view::vecdot(a,b)) BIN(vecdot,2,1,view::vecdot(a,b)) BIN(vecdot,1,2,view::vecdot(a,b))
#elif defined(R_TRACE)
KERNEL int K(k_trace_2)(SIG1){ h_t<2> a; if (!mkd(a,sa,da)) return -1; return observe0(view::trace(a), idx, nidx, oshape, odim, out); }
// trace with a run-time offset (diagonals above and below the main one)
KERNEL int K(k_trace_2o)(const size_t* sa, const u8* da, int offset, const size_t* idx, size_t nidx, size_t* oshape, size_t* odim, u8* out){ h_t<2> a; if (!mkd(a,sa,da)) return -1; return observe0(view::trace(a, offset), idx, nidx, oshape, odim, out); }
KERNEL int K(k_trace_3)(SIG1){ h_t<3> a; if (!mkd(a,sa,da)) return -1; return observe0(view::trace(a), idx, nidx, oshape, odim, out); }
#elif defined(R_DOT)
BIN(dot,1,1,view::dot(a,b)) BIN(dot,2,2,view::dot(a,b)) BIN(dot,2,1,view::dot(a,b)) BIN(dot,1,2,view::dot(a,b)) BIN(dot,1,3,view::dot(a,b)) BIN(dot,2,3,view::dot(a,b)) BIN(dot,3,2,view::dot(a,b))
#elif defined(R_INNER)
BIN(inner,1,1,view::inner(a,b)) BIN(inner,2,2,view::inner(a,b)) BIN(inner,2,1,view::inner(a,b)) BIN(inner,1,2,view::inner(a,b))
#elif defined(R_KRON)
BIN(kron,1,1,view::kron(a,b)) BIN(kron,2,2,view::kron(a,b))
#elif defined(R_TENSORDOT)
BIN(tensordot1,2,2,view::tensordot(a,b,meta::ct_v<1>)) BIN(tensordot2,2,2,view::tensordot(a,b)) BIN(tensordot1,1,1,view::tensordot(a,b,meta::ct_v<1>))
#endif

// operands of DIFFERENT element types (uint8 and uint16 = 256 + byte), 1-d x 1-d: *esz = sizeof(element type of the view), element reported as unsigned
template <typename V> static inline int observe0w(const V& mv, const size_t* idx, size_t nidx, size_t* oshape, size_t* odim, unsigned* out, size_t* esz){
  if (!nm::has_value(mv)) return 0; const auto& v = nm::unwrap(mv); using v_t = meta::remove_cvref_t<decltype(v)>; *esz = sizeof(meta::get_element_type_t<v_t>);
  if constexpr (meta::is_num_v<v_t>) { *odim = 0; if (nidx != 0) return 2; *out = (unsigned)v; return 1; } else return observe(mv, idx, nidx, oshape, odim, out); }
static inline bool mk1w(hyb_t<unsigned short,16,1>& b, const size_t* s, const u8* d){ if (!b.resize(s[0])) return false; for (size_t i = 0; i < s[0] && i < 16; i++) b.data_[i] = (unsigned short)(256 + d[i]); return true; }
#define SIGW const size_t* sa, const u8* da, const size_t* sb, const u8* db, const size_t* idx, size_t nidx, size_t* oshape, size_t* odim, unsigned* out, size_t* esz
#define BINW(NAME,EXPR) KERNEL int K(k_##NAME##_mix_nw)(SIGW){ h_t<1> a; hyb_t<unsigned short,16,1> b; if (!mkd(a,sa,da) || !mk1w(b,sb,db)) return -1; return observe0w(EXPR, idx, nidx, oshape, odim, out, esz); } \
  KERNEL int K(k_##NAME##_mix_wn)(SIGW){ hyb_t<unsigned short,16,1> a; h_t<1> b; if (!mk1w(a,sa,da) || !mkd(b,sb,db)) return -1; return observe0w(EXPR, idx, nidx, oshape, odim, out, esz); }
#if defined(R_OUTER)
BINW(outer, view::outer(a,b))
#elif defined(R_VECDOT)
BINW(vecdot, view::vecdot(a,b))
#elif defined(R_DOT)
BINW(dot, view::dot(a,b))
#elif defined(R_INNER)
BINW(inner, view::inner(a,b))
#elif defined(R_KRON)
BINW(kron, view::kron(a,b))
#elif defined(R_TENSORDOT)
BINW(tensordot, view::tensordot(a,b,meta::ct_v<1>))
#endif
