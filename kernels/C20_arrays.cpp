// C20: array objects keep their invariants under resize / write / copy / assign / cast, and mutable views write through.
// Real code: array/ndarray/ndarray.hpp (ndarray_t::resize), base_ndarray.hpp (offset functors), hybrid.hpp, dynamic.hpp, fixed.hpp,
// utility/cast.hpp, array/view/mutable_{flatten,reshape,slice,ref}.hpp. Kernels interpret a history chosen by the harness on two live
// objects of the real class and copy out dim / shape / strides / buffer length / buffer contents / offsets. No array logic lives here.
#include "common.hpp"
#include "nmtools/array/ndarray.hpp"
#include "nmtools/array/ndarray/fixed.hpp"
#include "nmtools/array/ndarray/hybrid.hpp"
#include "nmtools/array/ndarray/dynamic.hpp"
#include "nmtools/utility/cast.hpp"
#include "nmtools/array/view/mutable_flatten.hpp"
#include "nmtools/array/view/mutable_reshape.hpp"
#include "nmtools/array/view/mutable_slice.hpp"
#include "nmtools/array/view/mutable_ref.hpp"
namespace view = nm::view;
#define CAPN 8
using sv3 = utl::static_vector<size_t,3>;
using sv4 = utl::static_vector<size_t,4>;

// generic ndarray_t kinds
using A_row  = na::ndarray_t<utl::static_vector<unsigned,CAPN>, std::array<size_t,2>>;                   // bounded buffer, fixed dim 2
using A_col  = na::column_major_ndarray_t<utl::static_vector<unsigned,CAPN>, std::array<size_t,2>>;
using B_row  = na::ndarray_t<utl::static_vector<unsigned,CAPN>, utl::static_vector<size_t,3>>;            // bounded buffer, bounded dim <= 3
using B_col  = na::column_major_ndarray_t<utl::static_vector<unsigned,CAPN>, utl::static_vector<size_t,3>>;
using C_row  = na::ndarray_t<std::vector<unsigned>, std::vector<size_t>>;                                 // dynamic buffer, dynamic dim
using C_col  = na::column_major_ndarray_t<std::vector<unsigned>, std::vector<size_t>>;
using B4_row = na::ndarray_t<utl::static_vector<unsigned,4>, utl::static_vector<size_t,3>>;                 // small capacity 4, bounded dim <= 3
using B4_col = na::column_major_ndarray_t<utl::static_vector<unsigned,4>, utl::static_vector<size_t,3>>;
using C4_row = na::ndarray_t<std::vector<unsigned>, std::vector<size_t>>;
using A3_row = na::ndarray_t<utl::static_vector<unsigned,CAPN>, std::array<size_t,3>>;                    // bounded buffer, fixed dim 3
using F_row  = na::ndarray_t<std::array<unsigned,4>, utl::static_vector<size_t,3>>;                         // FIXED buffer of 4 cells, bounded dim <= 3: only shapes with exactly 4 elements fit
using F_col  = na::column_major_ndarray_t<std::array<unsigned,4>, utl::static_vector<size_t,3>>;

// observe one ndarray_t object: dim, shape, strides(), logical buffer length, buffer contents
template <typename A>
static inline void observe_nd(const A& a, size_t* odim, size_t* oshape, size_t* ostrides, size_t* olen, unsigned* odata){
  *odim = put(nm::shape(a), oshape);
  put(a.strides(), ostrides);
  *olen = nm::len(a.data_);
  for (size_t i = 0; i < (size_t)nm::len(a.data_) && i < CAPN; i++) odata[i] = nm::at(a.data_, i);
}
// op: 0 rets[s] = x[t].resize(shape of sdim[s] extents)   1 x[t](index) = v   2 x[t] = x[1-t]   3 { A c(x[1-t]); x[t] = c; }   4 x[t] = x[t]
// after the history: both objects are observed; for object 0 the offsets and elements of two probe indices are reported
template <typename A>
static inline void hist_nd(const unsigned char* ops, const unsigned char* tgt, const size_t* sdim, const size_t* sh, const size_t* widx, const unsigned* v, size_t k,
                           int* rets, size_t* odim, size_t* oshape, size_t* ostrides, size_t* olen, unsigned* odata,
                           const size_t* p1, const size_t* p2, size_t* ooff, unsigned* oval)
{
  A x0, x1; A* const x[2] = { &x0, &x1 };
  for (size_t s = 0; s < k; s++) {
    A& me = (tgt[s] & 1) ? x1 : x0; A& other = (tgt[s] & 1) ? x0 : x1;
    switch (ops[s]) {
      case 0: rets[s] = me.resize(mk_sv<size_t,4>(sh + 4*s, sdim[s])) ? 1 : 0; break;
      case 1: me(mk_sv<size_t,3>(widx + 3*s, nm::len(nm::shape(me)))) = v[s]; break;
      case 2: me = other; break;
      case 3: { A c(other); me = c; } break;
      default: me = me; break;
    }
  }
  for (int t = 0; t < 2; t++) observe_nd(*x[t], odim + t, oshape + 3*t, ostrides + 3*t, olen + t, odata + CAPN*t);
  const A& c0 = x0;
  auto i1 = mk_sv<size_t,3>(p1, nm::len(nm::shape(c0))); auto i2 = mk_sv<size_t,3>(p2, nm::len(nm::shape(c0)));
  ooff[0] = c0.offset(i1); ooff[1] = c0.offset(i2);
  oval[0] = c0(i1); oval[1] = c0(i2);
}
#define HIST_ND(name, A) KERNEL void K(name)(const unsigned char* ops, const unsigned char* tgt, const size_t* sdim, const size_t* sh, const size_t* widx, const unsigned* v, size_t k, \
    int* rets, size_t* odim, size_t* oshape, size_t* ostrides, size_t* olen, unsigned* odata, const size_t* p1, const size_t* p2, size_t* ooff, unsigned* oval){ \
  hist_nd<A>(ops, tgt, sdim, sh, widx, v, k, rets, odim, oshape, ostrides, olen, odata, p1, p2, ooff, oval); }
HIST_ND(k_hist_A_row, A_row)
HIST_ND(k_hist_A_col, A_col)
HIST_ND(k_hist_B_row, B_row)
HIST_ND(k_hist_B_col, B_col)
HIST_ND(k_hist_C_row, C_row)
HIST_ND(k_hist_C_col, C_col)
HIST_ND(k_hist_A3_row, A3_row)
HIST_ND(k_hist_B4_row, B4_row)
HIST_ND(k_hist_B4_col, B4_col)
HIST_ND(k_hist_F_row, F_row)
HIST_ND(k_hist_F_col, F_col)

// ---------------------------------------------------------------- legacy classes
// hybrid_ndarray<unsigned,8,2>: op 0 resize(a,b)  1 x[t](i,j) = v  2 assign other  3 copy-construct+assign  4 self-assign
KERNEL void K(k_hist_hybrid2)(const unsigned char* ops, const unsigned char* tgt, const size_t* sh, const size_t* widx, const unsigned* v, size_t k,
                              int* rets, size_t* oshape, size_t* ostrides, unsigned* oelems /* 2 x 4x4 grid, row-major in the index */, size_t maxe){
  using H = na::hybrid_ndarray<unsigned,CAPN,2>;
  H x0, x1; H* const x[2] = { &x0, &x1 };
  for (size_t s = 0; s < k; s++) {
    H& me = (tgt[s] & 1) ? x1 : x0; H& other = (tgt[s] & 1) ? x0 : x1;
    switch (ops[s]) {
      case 0: rets[s] = me.resize(sh[4*s], sh[4*s+1]) ? 1 : 0; break;
      case 1: me(widx[3*s], widx[3*s+1]) = v[s]; break;
      case 2: me = other; break;
      case 3: { H c(other); me = c; } break;
      default: me = me; break;
    }
  }
  for (int t = 0; t < 2; t++) {
    put(x[t]->shape(), oshape + 2*t); put(x[t]->strides(), ostrides + 2*t);
    auto s = x[t]->shape();
    const size_t s0 = nm::at(s,0), s1 = nm::at(s,1);
    for (size_t i = 0; i < 4; i++) for (size_t j = 0; j < 4; j++) if (i < s0 && j < s1 && i < maxe && j < maxe) oelems[16*t + 4*i + j] = (*x[t])(i,j);   // constant trip counts, guarded
  }
}
// dynamic_ndarray<unsigned>: op 0 resize(shape of sdim extents)  1 x[t](i,j,..) = v via at  2 assign other  3 copy-construct+assign  4 self-assign
KERNEL void K(k_hist_dynamic)(const unsigned char* ops, const unsigned char* tgt, const size_t* sdim, const size_t* sh, const size_t* wpos, const unsigned* v, size_t k,
                              size_t* odim, size_t* oshape, size_t* ostrides, size_t* olen, unsigned* odata){
  using D = na::dynamic_ndarray<unsigned>;
  D x0, x1; D* const x[2] = { &x0, &x1 };
  for (size_t s = 0; s < k; s++) {
    D& me = (tgt[s] & 1) ? x1 : x0; D& other = (tgt[s] & 1) ? x0 : x1;
    switch (ops[s]) {
      case 0: me.resize(mk_sv<size_t,4>(sh + 4*s, sdim[s])); break;
      case 1: me.data[wpos[s]] = v[s]; break;
      case 2: me = other; break;
      case 3: { D c(other); me = c; } break;
      default: me = me; break;
    }
  }
  for (int t = 0; t < 2; t++) {
    odim[t] = put(x[t]->shape(), oshape + 3*t); put(x[t]->strides(), ostrides + 3*t);
    olen[t] = x[t]->data.size();
    for (size_t i = 0; i < x[t]->data.size() && i < CAPN; i++) odata[CAPN*t + i] = x[t]->data[i];
  }
}
// dynamic_ndarray = generic ndarray (hybrid source): operator=(const ndarray_t&)
KERNEL int K(k_dynamic_assign_from)(const size_t* dshape, const size_t* sshape, const unsigned* sdata, size_t* odim, size_t* oshape, size_t* olen, unsigned* odata){
  na::dynamic_ndarray<unsigned> d; d.resize(dshape[0], dshape[1]);
  hyb_t<unsigned,CAPN,2> s; if (!mk2(s, sshape, sdata)) return -1;
  d = s;
  *odim = put(d.shape(), oshape); *olen = d.data.size();
  for (size_t i = 0; i < d.data.size() && i < CAPN; i++) odata[i] = d.data[i];
  return 1;
}
// the same through the other two resize overloads of dynamic_ndarray: a generic index array (std::array / static_vector) and the std::vector shape_type
#define DYN_ASSIGN(NAME, SHAPE_EXPR) KERNEL int K(k_dynamic_assign_from_##NAME)(const size_t* dshape, const size_t* sshape, const unsigned* sdata, size_t* odim, size_t* oshape, size_t* olen, unsigned* odata){ \
  na::dynamic_ndarray<unsigned> d; d.resize(SHAPE_EXPR); \
  hyb_t<unsigned,CAPN,2> s; if (!mk2(s, sshape, sdata)) return -1; \
  d = s; \
  *odim = put(d.shape(), oshape); *olen = d.data.size(); \
  for (size_t i = 0; i < d.data.size() && i < CAPN; i++) odata[i] = d.data[i]; \
  return 1; }
DYN_ASSIGN(arr, (mk_arr<size_t,2>(dshape)))
DYN_ASSIGN(sv, (mk_sv<size_t,4>(dshape, 2)))
DYN_ASSIGN(vec, (std::vector<size_t>{dshape[0], dshape[1]}))
// fixed_ndarray<unsigned,2,3>: op 0 x[t](i,j) = v  1 assign other  2 copy-construct+assign  3 self-assign
KERNEL void K(k_hist_fixed23)(const unsigned char* ops, const unsigned char* tgt, const size_t* widx, const unsigned* v, size_t k, const unsigned* init, size_t* oshape, size_t* ostrides, unsigned* oelems){
  using F = na::fixed_ndarray<unsigned,2,3>;
  F x0, x1; F* const x[2] = { &x0, &x1 };
  for (int t = 0; t < 2; t++) for (size_t i = 0; i < 2; i++) for (size_t j = 0; j < 3; j++) (*x[t])(i,j) = init[6*t + 3*i + j];
  for (size_t s = 0; s < k; s++) {
    F& me = (tgt[s] & 1) ? x1 : x0; F& other = (tgt[s] & 1) ? x0 : x1;
    switch (ops[s]) {
      case 0: me(widx[3*s], widx[3*s+1]) = v[s]; break;
      case 1: me = other; break;
      case 2: { F c(other); me = c; } break;
      default: me = me; break;
    }
  }
  put(x[0]->shape(), oshape); put(x[0]->strides(), ostrides);
  for (int t = 0; t < 2; t++) for (size_t i = 0; i < 2; i++) for (size_t j = 0; j < 3; j++) oelems[6*t + 3*i + j] = (*x[t])(i,j);
}

// ---------------------------------------------------------------- cast
using src2_t = hyb_t<unsigned,CAPN,2>;
template <typename R, typename T> static inline int observe_cast(const R& r, size_t* odim, size_t* oshape, T* odata, const size_t* shape){
  *odim = put(nm::shape(r), oshape);
  const size_t s0 = shape[0], s1 = shape[1];
  for (size_t i = 0; i < 4; i++) for (size_t j = 0; j < 4; j++) if (i < s0 && j < s1) odata[i*s1+j] = (T)r(i,j);      // constant trip counts (extents <= 4), guarded
  return 1;
}
KERNEL int K(k_cast_u8)(const size_t* shape, const unsigned* data, size_t* odim, size_t* oshape, unsigned char* odata){
  src2_t a; if (!mk2(a,shape,data)) return -1;
  auto r = nm::cast<unsigned char>(a);
  return observe_cast(r, odim, oshape, odata, shape);
}
KERNEL int K(k_cast_i64)(const size_t* shape, const int* data, size_t* odim, size_t* oshape, size_t* odata){
  hyb_t<int,CAPN,2> a; if (!mk2(a,shape,data)) return -1;
  auto r = nm::cast<long>(a);
  return observe_cast(r, odim, oshape, odata, shape);
}
KERNEL int K(k_cast_f32)(const size_t* shape, const unsigned* data, size_t* odim, size_t* oshape, float* odata){
  src2_t a; if (!mk2(a,shape,data)) return -1;
  auto r = nm::cast<float>(a);
  return observe_cast(r, odim, oshape, odata, shape);
}
KERNEL int K(k_cast_kind_dynamic)(const size_t* shape, const unsigned* data, size_t* odim, size_t* oshape, unsigned* odata){
  src2_t a; if (!mk2(a,shape,data)) return -1;
  auto r = nm::cast(a, na::kind::dynamic);
  return observe_cast(r, odim, oshape, odata, shape);
}
KERNEL int K(k_cast_fixed_to_hybrid)(const unsigned* data, size_t* odim, size_t* oshape, unsigned* odata){
  na::fixed_ndarray<unsigned,2,3> a; for (size_t i=0;i<2;i++) for (size_t j=0;j<3;j++) a(i,j) = data[i*3+j];
  auto r = nm::cast(a, na::kind::hybrid);
  size_t shape[2] = {2,3};
  return observe_cast(r, odim, oshape, odata, shape);
}
KERNEL int K(k_cast_fixed_to_dynamic)(const unsigned* data, size_t* odim, size_t* oshape, unsigned* odata){
  na::fixed_ndarray<unsigned,2,3> a; for (size_t i=0;i<2;i++) for (size_t j=0;j<3;j++) a(i,j) = data[i*3+j];
  auto r = nm::cast(a, na::kind::dynamic);
  size_t shape[2] = {2,3};
  return observe_cast(r, odim, oshape, odata, shape);
}
// cast to an explicitly named destination type (bounded-dim, bounded buffer)
KERNEL int K(k_cast_to_B)(const size_t* shape, const unsigned* data, size_t* odim, size_t* oshape, unsigned* odata){
  src2_t a; if (!mk2(a,shape,data)) return -1;
  auto r = nm::cast(a, meta::as_value_v<B_row>);
  return observe_cast(r, odim, oshape, odata, shape);
}

// ---------------------------------------------------------------- mutable views: write val at a view index, report the whole source buffer and the view's own read-back
using m3_t = hyb_t<unsigned,12,3>;
using m2_t = hyb_t<unsigned,12,2>;
KERNEL int K(k_mut_flatten)(const size_t* shape, unsigned* data, size_t g, unsigned val, unsigned* readback, size_t* vlen){
  m3_t a; if (!mk3(a,shape,data)) return -1;
  auto f = nm::unwrap(view::mutable_flatten(a));
  *vlen = nm::len(f);
  f(g) = val; *readback = f(g);
  fill_n(data, &a.data_[0], nm::size(a));
  return 1;
}
KERNEL int K(k_mut_reshape)(const size_t* shape, unsigned* data, const size_t* newshape, const size_t* idx, unsigned val, unsigned* readback, size_t* oshape){
  m3_t a; if (!mk3(a,shape,data)) return -1;
  auto mv = view::mutable_reshape(a, mk_arr<size_t,2>(newshape));
  if (!nm::has_value(mv)) return 0;
  auto r = nm::unwrap(mv);
  put(nm::shape(r), oshape);
  r(idx[0], idx[1]) = val; *readback = r(idx[0], idx[1]);
  fill_n(data, &a.data_[0], nm::size(a));
  return 1;
}
KERNEL int K(k_mut_ref)(const size_t* shape, unsigned* data, const size_t* idx, unsigned val, unsigned* readback){
  m3_t a; if (!mk3(a,shape,data)) return -1;
  auto r = view::mutable_ref(a);
  r(idx[0], idx[1], idx[2]) = val; *readback = r(idx[0], idx[1], idx[2]);
  fill_n(data, &a.data_[0], nm::size(a));
  return 1;
}
KERNEL int K(k_mut_slice)(const size_t* shape, unsigned* data, const int* sl0, const int* sl1, const size_t* idx, unsigned val, unsigned* readback, size_t* oshape){
  m2_t a; if (!mk2(a,shape,data)) return -1;
  auto s = nm::unwrap(view::mutable_slice(a, nmtools_tuple{sl0[0],sl0[1],sl0[2]}, nmtools_tuple{sl1[0],sl1[1],sl1[2]}));
  put(nm::shape(s), oshape);
  s(idx[0], idx[1]) = val; *readback = s(idx[0], idx[1]);
  fill_n(data, &a.data_[0], nm::size(a));
  return 1;
}
// the same through a dynamic (std::vector) source
KERNEL int K(k_mut_flatten_dyn)(const size_t* shape, unsigned* data, size_t g, unsigned val, unsigned* readback){
  C_row a; if (!a.resize(shape[0],shape[1])) return -1; fill(a, data);
  auto f = nm::unwrap(view::mutable_flatten(a));
  f(g) = val; *readback = f(g);
  fill_n(data, &a.data_[0], nm::size(a));
  return 1;
}
