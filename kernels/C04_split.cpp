// C04: split. Real code: view::detail::split_args (slice arguments of every piece), view::split (tuple of slice views for a compile-time number of sections)
#include "C04_k.hpp"
#include "nmtools/array/view/split.hpp"
#include <utility>
// slice arguments of piece `piece` for a run-time number of equal sections / a run-time list of cut positions: out[axis*2 + {0,1}] = start, stop; returns the number of pieces
#define SPLIT_ARGS(D) KERNEL size_t K(k_split_args##D)(const size_t* shape, size_t sections, int axis, size_t piece, size_t* out){ \
  auto args = view::detail::split_args(mk_arr<size_t,D>(shape), sections, axis); size_t n = nm::len(args); if (piece >= n) return n; \
  for (size_t j=0;j<D;j++){ out[j*2] = nm::at(nm::at(nm::at(args,piece),j),0); out[j*2+1] = nm::at(nm::at(nm::at(args,piece),j),1); } return n; } \
  KERNEL size_t K(k_split_args_at##D)(const size_t* shape, const size_t* at, size_t nat, int axis, size_t piece, size_t* out){ \
  auto args = view::detail::split_args(mk_arr<size_t,D>(shape), mk_sv<size_t,3>(at,nat), axis); size_t n = nm::len(args); if (piece >= n) return n; \
  for (size_t j=0;j<D;j++){ out[j*2] = nm::at(nm::at(nm::at(args,piece),j),0); out[j*2+1] = nm::at(nm::at(nm::at(args,piece),j),1); } return n; }
FOR_DIMS(SPLIT_ARGS)
// view::split with a compile-time number of sections N and a run-time axis; the observed piece is selected by a run-time number
template <size_t N, size_t D, size_t... I> static inline int split_obs(const src_t<D>& a, int axis, size_t piece, ARGS_OUT, std::index_sequence<I...>){
  auto pieces = view::split(a, meta::ct_v<N>, axis);
  int r = -2;
  ((piece == I ? (r = OBSV(nm::get<I>(pieces)), 0) : 0), ...);
  return r;
}
#define SPLIT(D,N) KERNEL int K(k_split##D##_##N)(ARGS_IN, int axis, size_t piece, ARGS_OUT){ MK(D); return split_obs<N,D>(a, axis, piece, idx, nidx, oshape, odim, out, std::make_index_sequence<N>{}); }
SPLIT(1,1) SPLIT(1,2) SPLIT(1,3) SPLIT(2,1) SPLIT(2,2) SPLIT(2,3) SPLIT(3,1) SPLIT(3,2) SPLIT(3,3)
