// C04: expand / resize / compress / diagflat / where. Real code: index::shape_expand/expand, shape_resize/resize, shape_compress/compress, diagflat + the view front ends
#include "C04_k.hpp"
#include "nmtools/array/view/expand.hpp"
#include "nmtools/array/view/resize.hpp"
#include "nmtools/array/view/compress.hpp"
#include "nmtools/array/view/diagflat.hpp"
#include "nmtools/array/view/where.hpp"
// expand: run-time axis, spacing and fill value
#define EXPAND(D) KERNEL int K(k_expand##D)(ARGS_IN, int axis, size_t spacing, unsigned fill, ARGS_OUT){ MK(D); return OBSV(view::expand(a, axis, spacing, fill)); }
FOR_DIMS4(EXPAND)
// resize to a run-time destination shape of the same dimension
#define RESIZE(D) KERNEL int K(k_resize##D)(ARGS_IN, const size_t* dst, ARGS_OUT){ MK(D); return OBSV(view::resize(a, mk_arr<size_t,D>(dst))); }
FOR_DIMS4(RESIZE)
// compress: run-time condition list of 1..4 entries, run-time axis / axis=None
#define COMPRESS(D) KERNEL int K(k_compress##D)(ARGS_IN, const int* cond, size_t nc, int axis, ARGS_OUT){ MK(D); return OBSV(view::compress(mk_sv<int,4>(cond,nc), a, axis)); } \
  KERNEL int K(k_compress_flat##D)(ARGS_IN, const int* cond, size_t nc, ARGS_OUT){ MK(D); return OBSV(view::compress(mk_sv<int,4>(cond,nc), a, nm::None)); }
FOR_DIMS4(COMPRESS)
#define DIAGFLAT(D) KERNEL int K(k_diagflat##D)(ARGS_IN, int k, ARGS_OUT){ MK(D); return OBSV(view::diagflat(a, k)); }
FOR_DIMS4(DIAGFLAT)
// where(condition, x, y) on three arrays of one shape
#define WHERE(D) KERNEL int K(k_where##D)(const size_t* shape, const unsigned* cond, const unsigned* x, const unsigned* y, ARGS_OUT){ \
  src_t<D> c, a, b; if (!mk##D(c,shape,cond) || !mk##D(a,shape,x) || !mk##D(b,shape,y)) return -1; return OBSV(view::where(c, a, b)); }
FOR_DIMS4(WHERE)

// diagflat of a FIXED-size source with the diagonal given as a compile-time constant (the shape n+|k| is then computed in the type system)
#define DIAGFLAT_CT(NAME, KV) KERNEL int K(k_diagflat_ct_##NAME)(const unsigned* data, const size_t* idx, size_t nidx, size_t* oshape, size_t* odim, unsigned* out){ \
  unsigned a[3] = {data[0], data[1], data[2]}; return OBSV(view::diagflat(a, meta::ct_v<KV>)); }
DIAGFLAT_CT(m2, -2) DIAGFLAT_CT(m1, -1) DIAGFLAT_CT(0, 0) DIAGFLAT_CT(p1, 1) DIAGFLAT_CT(p2, 2)
