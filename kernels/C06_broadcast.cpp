// C06: broadcasting at the index level. Real code: index::broadcast_shape (binary, maybe-propagating, variadic fold),
// index::shape_broadcast_to (+ free axes), index::origin_axes, index::broadcast_to. Kernels only marshal.
#include "common.hpp"
#include "nmtools/array/index/broadcast_shape.hpp"
#include "nmtools/array/index/broadcast_to.hpp"
using sv4_t = utl::static_vector<size_t,4>;
using nm::None;

template <typename R> static inline int put_maybe(const R& r, size_t* out, size_t* nout){
  if (!nm::has_value(r)) return 0;
  *nout = put(nm::unwrap(r), out); return 1; }

// ---- binary broadcast_shape, container kinds: bounded static_vector, std::vector, mixed pairs ----
KERNEL int K(k_bs_sv_sv)(const size_t* a, size_t na, const size_t* b, size_t nb, size_t* out, size_t* nout){
  return put_maybe(ix::broadcast_shape(mk_sv<size_t,4>(a,na), mk_sv<size_t,4>(b,nb)), out, nout); }
KERNEL int K(k_bs_vec_vec)(const size_t* a, size_t na, const size_t* b, size_t nb, size_t* out, size_t* nout){
  return put_maybe(ix::broadcast_shape(mk_vec(a,na), mk_vec(b,nb)), out, nout); }
KERNEL int K(k_bs_sv_vec)(const size_t* a, size_t na, const size_t* b, size_t nb, size_t* out, size_t* nout){
  return put_maybe(ix::broadcast_shape(mk_sv<size_t,4>(a,na), mk_vec(b,nb)), out, nout); }
KERNEL int K(k_bs_vec_sv)(const size_t* a, size_t na, const size_t* b, size_t nb, size_t* out, size_t* nout){
  return put_maybe(ix::broadcast_shape(mk_vec(a,na), mk_sv<size_t,4>(b,nb)), out, nout); }
// fixed-dim std::array pairs: every (DA,DB) in 1..4 x 1..4 is its own instantiation
#define BS_ARR(DA, DB) \
KERNEL int K(k_bs_arr##DA##_arr##DB)(const size_t* a, size_t, const size_t* b, size_t, size_t* out, size_t* nout){ \
  return put_maybe(ix::broadcast_shape(mk_arr<size_t,DA>(a), mk_arr<size_t,DB>(b)), out, nout); }
BS_ARR(1,1) BS_ARR(1,2) BS_ARR(1,3) BS_ARR(1,4)
BS_ARR(2,1) BS_ARR(2,2) BS_ARR(2,3) BS_ARR(2,4)
BS_ARR(3,1) BS_ARR(3,2) BS_ARR(3,3) BS_ARR(3,4)
BS_ARR(4,1) BS_ARR(4,2) BS_ARR(4,3) BS_ARR(4,4)
// fixed with bounded / dynamic (either order)
#define BS_ARR_DYN(DA) \
KERNEL int K(k_bs_arr##DA##_sv)(const size_t* a, size_t, const size_t* b, size_t nb, size_t* out, size_t* nout){ \
  return put_maybe(ix::broadcast_shape(mk_arr<size_t,DA>(a), mk_sv<size_t,4>(b,nb)), out, nout); } \
KERNEL int K(k_bs_sv_arr##DA)(const size_t* a, size_t na, const size_t* b, size_t, size_t* out, size_t* nout){ \
  return put_maybe(ix::broadcast_shape(mk_sv<size_t,4>(a,na), mk_arr<size_t,DA>(b)), out, nout); } \
KERNEL int K(k_bs_arr##DA##_vec)(const size_t* a, size_t, const size_t* b, size_t nb, size_t* out, size_t* nout){ \
  return put_maybe(ix::broadcast_shape(mk_arr<size_t,DA>(a), mk_vec(b,nb)), out, nout); } \
KERNEL int K(k_bs_vec_arr##DA)(const size_t* a, size_t na, const size_t* b, size_t, size_t* out, size_t* nout){ \
  return put_maybe(ix::broadcast_shape(mk_vec(a,na), mk_arr<size_t,DA>(b)), out, nout); }
BS_ARR_DYN(1) BS_ARR_DYN(2) BS_ARR_DYN(3) BS_ARR_DYN(4)
// None (the shape of a number) with a shape
KERNEL int K(k_bs_none_sv)(const size_t*, size_t, const size_t* b, size_t nb, size_t* out, size_t* nout){
  return put_maybe(ix::broadcast_shape(None, mk_sv<size_t,4>(b,nb)), out, nout); }
KERNEL int K(k_bs_sv_none)(const size_t* a, size_t na, const size_t*, size_t, size_t* out, size_t* nout){
  return put_maybe(ix::broadcast_shape(mk_sv<size_t,4>(a,na), None), out, nout); }

// ---- three shapes: the variadic fold, and both groupings through the maybe-propagating binary overload ----
#define BS3(NAME, MKA, MKB, MKC) \
KERNEL int K(k_bs3_##NAME)(const size_t* a, size_t na, const size_t* b, size_t nb, const size_t* c, size_t nc, size_t* out, size_t* nout){ \
  return put_maybe(ix::broadcast_shape(MKA, MKB, MKC), out, nout); } \
KERNEL int K(k_bs3l_##NAME)(const size_t* a, size_t na, const size_t* b, size_t nb, const size_t* c, size_t nc, size_t* out, size_t* nout){ \
  return put_maybe(ix::broadcast_shape(ix::broadcast_shape(MKA, MKB), MKC), out, nout); } \
KERNEL int K(k_bs3r_##NAME)(const size_t* a, size_t na, const size_t* b, size_t nb, const size_t* c, size_t nc, size_t* out, size_t* nout){ \
  return put_maybe(ix::broadcast_shape(MKA, ix::broadcast_shape(MKB, MKC)), out, nout); }
#define SV(x) mk_sv<size_t,4>(x, n##x)
#define VEC(x) mk_vec(x, n##x)
BS3(sv, SV(a), SV(b), SV(c))
BS3(vec, VEC(a), VEC(b), VEC(c))
BS3(mixed, SV(a), (mk_arr<size_t,2>(b)), VEC(c))
BS3(arr, (mk_arr<size_t,3>(a)), (mk_arr<size_t,1>(b)), (mk_arr<size_t,2>(c)))
KERNEL int K(k_bs4_sv)(const size_t* a, size_t na, const size_t* b, size_t nb, const size_t* c, size_t nc, const size_t* d, size_t nd, size_t* out, size_t* nout){
  return put_maybe(ix::broadcast_shape(SV(a), SV(b), SV(c), SV(d)), out, nout); }

// ---- shape_broadcast_to: result shape + free-axes flags ----
template <typename R> static inline int put_bto(const R& r, size_t* out, size_t* nout, unsigned char* free_){
  if (!nm::has_value(r)) return 0;
  const auto& t = nm::unwrap(r);
  *nout = put(nm::get<0>(t), out);
  const auto& f = nm::get<1>(t); size_t nf = nm::len(f); for (size_t i=0;i<nf;i++) free_[i] = nm::at(f,i) ? 1 : 0;
  return nf == *nout ? 1 : 2; }
KERNEL int K(k_sbt_sv_sv)(const size_t* a, size_t na, const size_t* b, size_t nb, size_t* out, size_t* nout, unsigned char* free_){
  return put_bto(ix::shape_broadcast_to(SV(a), SV(b)), out, nout, free_); }
KERNEL int K(k_sbt_vec_vec)(const size_t* a, size_t na, const size_t* b, size_t nb, size_t* out, size_t* nout, unsigned char* free_){
  return put_bto(ix::shape_broadcast_to(VEC(a), VEC(b)), out, nout, free_); }
KERNEL int K(k_sbt_sv_vec)(const size_t* a, size_t na, const size_t* b, size_t nb, size_t* out, size_t* nout, unsigned char* free_){
  return put_bto(ix::shape_broadcast_to(SV(a), VEC(b)), out, nout, free_); }
#define SBT_ARR(DA, DB) \
KERNEL int K(k_sbt_arr##DA##_arr##DB)(const size_t* a, size_t, const size_t* b, size_t, size_t* out, size_t* nout, unsigned char* free_){ \
  return put_bto(ix::shape_broadcast_to(mk_arr<size_t,DA>(a), mk_arr<size_t,DB>(b)), out, nout, free_); }
SBT_ARR(1,1) SBT_ARR(1,3) SBT_ARR(2,2) SBT_ARR(2,3) SBT_ARR(3,3) SBT_ARR(3,2) SBT_ARR(2,4) SBT_ARR(4,4)
KERNEL int K(k_sbt_arr2_sv)(const size_t* a, size_t, const size_t* b, size_t nb, size_t* out, size_t* nout, unsigned char* free_){
  return put_bto(ix::shape_broadcast_to(mk_arr<size_t,2>(a), SV(b)), out, nout, free_); }
KERNEL int K(k_sbt_sv_arr3)(const size_t* a, size_t na, const size_t* b, size_t, size_t* out, size_t* nout, unsigned char* free_){
  return put_bto(ix::shape_broadcast_to(SV(a), mk_arr<size_t,3>(b)), out, nout, free_); }

// ---- index::broadcast_to: destination index -> source index, with the origin axes computed as view::broadcast_to does ----
#define IBT(NAME, MKA, MKB, MKI) \
KERNEL int K(k_ibt_##NAME)(const size_t* a, size_t na, const size_t* b, size_t nb, const size_t* idx, size_t* out, size_t* nout){ \
  auto src = MKA; auto dst = MKB; \
  auto so = ix::origin_axes(ix::shape_broadcast_to(src, dst)); \
  if (!nm::has_value(so)) return 0; \
  auto origin = nm::get<1>(nm::unwrap(so)); \
  auto r = ix::broadcast_to(MKI, src, dst, origin); \
  *nout = put(nm::unwrap(r), out); return 1; }
IBT(sv, SV(a), SV(b), (mk_sv<size_t,4>(idx, nb)))
IBT(vec, VEC(a), VEC(b), (mk_vec(idx, nb)))
IBT(arr2_arr3, (mk_arr<size_t,2>(a)), (mk_arr<size_t,3>(b)), (mk_arr<size_t,3>(idx)))
IBT(arr3_arr3, (mk_arr<size_t,3>(a)), (mk_arr<size_t,3>(b)), (mk_arr<size_t,3>(idx)))
IBT(arr1_arr4, (mk_arr<size_t,1>(a)), (mk_arr<size_t,4>(b)), (mk_arr<size_t,4>(idx)))

// ---- mixed kinds named by the property: compile-time constant shape with a run-time one, clipped-integer shape with a fixed one ----
using namespace nm::literals;
KERNEL int K(k_bs_ct213_sv)(const size_t*, size_t, const size_t* b, size_t nb, size_t* out, size_t* nout){
  return put_maybe(ix::broadcast_shape(nmtools_tuple{2_ct,1_ct,3_ct}, mk_sv<size_t,4>(b,nb)), out, nout); }
KERNEL int K(k_bs_sv_ct213)(const size_t* a, size_t na, const size_t*, size_t, size_t* out, size_t* nout){
  return put_maybe(ix::broadcast_shape(mk_sv<size_t,4>(a,na), nmtools_tuple{2_ct,1_ct,3_ct}), out, nout); }
KERNEL int K(k_bs_ct2323_sv)(const size_t*, size_t, const size_t* b, size_t nb, size_t* out, size_t* nout){
  return put_maybe(ix::broadcast_shape(nmtools_tuple{2_ct,3_ct,2_ct,3_ct}, mk_sv<size_t,4>(b,nb)), out, nout); }
KERNEL int K(k_bs_ct213_arr2)(const size_t*, size_t, const size_t* b, size_t, size_t* out, size_t* nout){
  return put_maybe(ix::broadcast_shape(nmtools_tuple{2_ct,1_ct,3_ct}, mk_arr<size_t,2>(b)), out, nout); }
using cl4_t = nm::clipped_size_t<4>;
KERNEL int K(k_bs_cl2_arr3)(const size_t* a, size_t, const size_t* b, size_t, size_t* out, size_t* nout){
  nmtools_array<cl4_t,2> ca{cl4_t(a[0]), cl4_t(a[1])};
  return put_maybe(ix::broadcast_shape(ca, mk_arr<size_t,3>(b)), out, nout); }
KERNEL int K(k_bs_arr3_cl2)(const size_t* a, size_t, const size_t* b, size_t, size_t* out, size_t* nout){
  nmtools_array<cl4_t,2> cb{cl4_t(b[0]), cl4_t(b[1])};
  return put_maybe(ix::broadcast_shape(mk_arr<size_t,3>(a), cb), out, nout); }

// ---- larger dims: static_vector<size_t,8> ----
KERNEL int K(k_bs_sv8_sv8)(const size_t* a, size_t na, const size_t* b, size_t nb, size_t* out, size_t* nout){
  return put_maybe(ix::broadcast_shape(mk_sv<size_t,8>(a,na), mk_sv<size_t,8>(b,nb)), out, nout); }
BS3(sv8, (mk_sv<size_t,8>(a,na)), (mk_sv<size_t,8>(b,nb)), (mk_sv<size_t,8>(c,nc)))
