// C05: slicing. Real code: index::shape_slice / index::slice (packed, compile-time slice kinds),
// index::shape_dynamic_slice / index::dynamic_slice (run-time kinds), index::apply_shape_slice / apply_slice,
// view::slice / view::apply_slice. Kernels only marshal: every (start,stop,step) None/int pattern is its own instantiation.
#include "common.hpp"
#include "nmtools/array/index/slice.hpp"
#include "nmtools/array/view/slice.hpp"
namespace view = nm::view;
using nm::None; using nm::Ellipsis;
using sh1_t = std::array<size_t,1>; using sh2_t = std::array<size_t,2>; using sh3_t = std::array<size_t,3>;

// ---- one axis, packed: the 8 three-part patterns and the 4 two-part patterns (n = None, i = int) ----
#define PAT1(NAME, ...) \
KERNEL size_t K(k_shape1_##NAME)(size_t n, int start, int stop, int step){ \
  sh1_t shape{n}; auto r = ix::shape_slice(shape, nmtools_tuple{__VA_ARGS__}); return nm::at(r,0); } \
KERNEL size_t K(k_index1_##NAME)(size_t n, int start, int stop, int step, size_t k){ \
  sh1_t shape{n}; sh1_t idx{k}; auto r = ix::slice(idx, shape, nmtools_tuple{__VA_ARGS__}); return nm::at(r,0); }
PAT1(nnn, None, None, None)
PAT1(inn, start, None, None)
PAT1(nin, None, stop, None)
PAT1(iin, start, stop, None)
PAT1(nni, None, None, step)
PAT1(ini, start, None, step)
PAT1(nii, None, stop, step)
PAT1(iii, start, stop, step)
PAT1(nn, None, None)
PAT1(in, start, None)
PAT1(ni, None, stop)
PAT1(ii, start, stop)

// the same through the tuple dispatchers apply_shape_slice / apply_slice (what view::slice calls)
KERNEL size_t K(k_apply_shape1_iii)(size_t n, int start, int stop, int step){
  sh1_t shape{n}; auto r = ix::apply_shape_slice(shape, nmtools_tuple<nmtools_tuple<int,int,int>>{nmtools_tuple{start,stop,step}}); return nm::at(r,0); }
KERNEL size_t K(k_apply_index1_iii)(size_t n, int start, int stop, int step, size_t k){
  sh1_t shape{n}; sh1_t idx{k}; auto r = ix::apply_slice(idx, shape, nmtools_tuple<nmtools_tuple<int,int,int>>{nmtools_tuple{start,stop,step}}); return nm::at(r,0); }

// shape container kinds other than std::array (pattern iii): bounded static_vector and std::vector
KERNEL size_t K(k_shape1_iii_sv)(size_t n, int start, int stop, int step){
  auto shape = mk_sv<size_t,4>(&n,1); auto r = ix::shape_slice(shape, nmtools_tuple{start,stop,step}); return nm::len(r)==1 ? (size_t)nm::at(r,0) : (size_t)-1; }
KERNEL size_t K(k_index1_iii_sv)(size_t n, int start, int stop, int step, size_t k){
  auto shape = mk_sv<size_t,4>(&n,1); auto idx = mk_sv<size_t,4>(&k,1); auto r = ix::slice(idx, shape, nmtools_tuple{start,stop,step}); return nm::len(r)==1 ? (size_t)nm::at(r,0) : (size_t)-1; }
KERNEL size_t K(k_shape1_iii_vec)(size_t n, int start, int stop, int step){
  auto shape = mk_vec(&n,1); auto r = ix::shape_slice(shape, nmtools_tuple{start,stop,step}); return nm::len(r)==1 ? (size_t)nm::at(r,0) : (size_t)-1; }
KERNEL size_t K(k_index1_iii_vec)(size_t n, int start, int stop, int step, size_t k){
  auto shape = mk_vec(&n,1); auto idx = mk_vec(&k,1); auto r = ix::slice(idx, shape, nmtools_tuple{start,stop,step}); return nm::len(r)==1 ? (size_t)nm::at(r,0) : (size_t)-1; }

// ---- one axis, dynamic encodings ----
// list of array<int,3> / array<int,2>
KERNEL size_t K(k_dshape1_a3)(size_t n, int start, int stop, int step){
  sh1_t shape{n}; using s_t = nmtools_array<int,3>; nmtools_list<s_t> sl; sl.push_back(s_t{start,stop,step});
  auto r = ix::shape_dynamic_slice(shape, sl); return nm::len(r)==1 ? (size_t)nm::at(r,0) : (size_t)-1; }
KERNEL size_t K(k_dindex1_a3)(size_t n, int start, int stop, int step, size_t k){
  sh1_t shape{n}; sh1_t idx{k}; using s_t = nmtools_array<int,3>; nmtools_list<s_t> sl; sl.push_back(s_t{start,stop,step});
  auto r = ix::dynamic_slice(idx, shape, sl); return nm::at(r,0); }
KERNEL size_t K(k_dshape1_a2)(size_t n, int start, int stop, int){
  sh1_t shape{n}; using s_t = nmtools_array<int,2>; nmtools_list<s_t> sl; sl.push_back(s_t{start,stop});
  auto r = ix::shape_dynamic_slice(shape, sl); return nm::len(r)==1 ? (size_t)nm::at(r,0) : (size_t)-1; }
KERNEL size_t K(k_dindex1_a2)(size_t n, int start, int stop, int, size_t k){
  sh1_t shape{n}; sh1_t idx{k}; using s_t = nmtools_array<int,2>; nmtools_list<s_t> sl; sl.push_back(s_t{start,stop});
  auto r = ix::dynamic_slice(idx, shape, sl); return nm::at(r,0); }
// bounded list (static_vector) of array<int,3>
KERNEL size_t K(k_dshape1_a3_sv)(size_t n, int start, int stop, int step){
  sh1_t shape{n}; using s_t = nmtools_array<int,3>; utl::static_vector<s_t,3> sl; sl.resize(1); sl[0] = s_t{start,stop,step};
  auto r = ix::shape_dynamic_slice(shape, sl); return nm::len(r)==1 ? (size_t)nm::at(r,0) : (size_t)-1; }
// list of tuples with None parts (same type for every axis)
#define DPAT1(NAME, ...) \
KERNEL size_t K(k_dshape1_##NAME)(size_t n, int start, int stop, int step){ \
  sh1_t shape{n}; using s_t = decltype(nmtools_tuple{__VA_ARGS__}); nmtools_list<s_t> sl; sl.push_back(s_t{__VA_ARGS__}); \
  auto r = ix::shape_dynamic_slice(shape, sl); return nm::len(r)==1 ? (size_t)nm::at(r,0) : (size_t)-1; } \
KERNEL size_t K(k_dindex1_##NAME)(size_t n, int start, int stop, int step, size_t k){ \
  sh1_t shape{n}; sh1_t idx{k}; using s_t = decltype(nmtools_tuple{__VA_ARGS__}); nmtools_list<s_t> sl; sl.push_back(s_t{__VA_ARGS__}); \
  auto r = ix::dynamic_slice(idx, shape, sl); return nm::at(r,0); }
DPAT1(nnn, None, None, None)
DPAT1(inn, start, None, None)
DPAT1(nin, None, stop, None)
DPAT1(iin, start, stop, None)
DPAT1(nni, None, None, step)
DPAT1(ini, start, None, step)
DPAT1(nii, None, stop, step)
DPAT1(iii, start, stop, step)
DPAT1(ni, None, stop)

// ---- 2 and 3 axes, packed: families of integers (i), full slices (s = tuple{int,int,int}) and one ellipsis (e) ----
// p holds one (start,stop,step) triple per item; an integer item uses the first entry of its triple
#define S(j) nmtools_tuple{p[3*(j)],p[3*(j)+1],p[3*(j)+2]}
#define I(j) p[3*(j)]
#define E Ellipsis
#define FAMS(NAME, DIM, ...) \
KERNEL size_t K(k_fshape##DIM##_##NAME)(const size_t* shape, const int* p, size_t* out){ \
  auto sh = mk_arr<size_t,DIM>(shape); auto r = ix::shape_slice(sh, __VA_ARGS__); return put(r,out); }
#define FAM(NAME, DIM, ODIM, ...) FAMS(NAME, DIM, __VA_ARGS__) \
KERNEL size_t K(k_findex##DIM##_##NAME)(const size_t* shape, const int* p, const size_t* idx, size_t* out){ \
  auto sh = mk_arr<size_t,DIM>(shape); auto r = ix::slice(mk_arr<size_t,ODIM>(idx), sh, __VA_ARGS__); return put(r,out); }
FAM(e,   2, 2, E)
FAM(es,  2, 2, E, S(1))
FAM(se,  2, 2, S(0), E)
FAM(ei,  2, 1, E, I(1))
FAM(ie,  2, 1, I(0), E)
FAM(is,  2, 1, I(0), S(1))
FAM(si,  2, 1, S(0), I(1))
FAM(ss,  2, 2, S(0), S(1))
FAM(ses, 2, 2, S(0), E, S(2))
FAMS(ii, 2, I(0), I(1))
FAM(e,   3, 3, E)
FAM(se,  3, 3, S(0), E)
FAM(es,  3, 3, E, S(1))
FAM(ses, 3, 3, S(0), E, S(2))
FAM(ie,  3, 2, I(0), E)
FAM(ei,  3, 2, E, I(1))
FAM(ies, 3, 2, I(0), E, S(2))
FAM(sei, 3, 2, S(0), E, I(2))
FAM(iei, 3, 1, I(0), E, I(2))
FAM(ess, 3, 3, E, S(1), S(2))
FAM(sse, 3, 3, S(0), S(1), E)
FAM(sis, 3, 2, S(0), I(1), S(2))
FAM(isi, 3, 1, I(0), S(1), I(2))
FAM(iis, 3, 1, I(0), I(1), S(2))
FAM(sss, 3, 3, S(0), S(1), S(2))
FAM(sess,3, 3, S(0), E, S(2), S(3))
#undef S
#undef I
#undef E

// ---- 2 and 3 axes, dynamic: ONE instantiation per dim; the kind of every item is a run-time value (0 int, 1 array<int,3>, 2 ellipsis) ----
using d_inner_t = nmtools_either<nmtools_array<int,3>, nm::ellipsis_t>;
using d_slice_t = nmtools_either<int, d_inner_t>;
template <typename L> static inline void mk_dslices(L& sl, const int* kinds, const int* p, size_t ns){
  for (size_t i=0;i<ns;i++){
    if (kinds[i]==0) sl.push_back(d_slice_t{p[3*i]});
    else if (kinds[i]==1) sl.push_back(d_slice_t{d_inner_t{nmtools_array<int,3>{p[3*i],p[3*i+1],p[3*i+2]}}});
    else sl.push_back(d_slice_t{d_inner_t{Ellipsis}});
  }
}
#define DYN(DIM, SFX, LIST) \
KERNEL size_t K(k_dynshape##DIM##SFX)(const size_t* shape, const int* kinds, const int* p, size_t ns, size_t* out){ \
  auto sh = mk_arr<size_t,DIM>(shape); LIST sl; mk_dslices(sl,kinds,p,ns); \
  auto r = ix::shape_dynamic_slice(sh, sl); return put(r,out); } \
KERNEL size_t K(k_dynindex##DIM##SFX)(const size_t* shape, const int* kinds, const int* p, size_t ns, const size_t* idx, size_t nidx, size_t* out){ \
  auto sh = mk_arr<size_t,DIM>(shape); LIST sl; mk_dslices(sl,kinds,p,ns); \
  auto r = ix::dynamic_slice(mk_sv<size_t,4>(idx,nidx), sh, sl); return put(r,out); }
using d_sv_t = utl::static_vector<d_slice_t,4>;
DYN(2,,nmtools_list<d_slice_t>)
DYN(3,,nmtools_list<d_slice_t>)
DYN(2,_sv,d_sv_t)
DYN(3,_sv,d_sv_t)
