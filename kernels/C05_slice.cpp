// C05: slicing. Real code: index::shape_slice / index::slice (packed, compile-time slice kinds),
// index::shape_dynamic_slice / index::dynamic_slice (run-time kinds), index::apply_shape_slice / apply_slice,
// view::slice / view::apply_slice. Kernels only marshal: every (start,stop,step) None/int pattern is its own instantiation.
#include "common.hpp"
#include "nmtools/array/index/slice.hpp"
#include "C05_common.hpp"
using sh1_t = std::array<size_t,1>; using sh2_t = std::array<size_t,2>; using sh3_t = std::array<size_t,3>;

// ---- one axis, packed: the 8 three-part patterns and the 4 two-part patterns (n = None, i = int) ----
#define PAT1(NAME, ...) \
KERNEL size_t K(k_shape1_##NAME)(size_t n, int start, int stop, int step){ \
  sh1_t shape{n}; auto r = ix::shape_slice(shape, nmtools_tuple{__VA_ARGS__}); return nm::at(r,0); } \
KERNEL size_t K(k_index1_##NAME)(size_t n, int start, int stop, int step, size_t k){ \
  sh1_t shape{n}; sh1_t idx{k}; auto r = ix::slice(idx, shape, nmtools_tuple{__VA_ARGS__}); return nm::at(r,0); }
PAT1(nnn, None, None, None)
PAT1(inn, start, None, None)
PAT1(nin, None, stop, None)
PAT1(iin, start, stop, None)
PAT1(nni, None, None, step)
PAT1(ini, start, None, step)
PAT1(nii, None, stop, step)
PAT1(iii, start, stop, step)
PAT1(nn, None, None)
PAT1(in, start, None)
PAT1(ni, None, stop)
PAT1(ii, start, stop)
// other part types: the constant Last (= ct<-1>) as stop, unsigned (size_t) parts
PAT1(iL, start, nm::Last)
PAT1(nL, None, nm::Last)
PAT1(uuu, (size_t)(unsigned)start, (size_t)(unsigned)stop, (size_t)(unsigned)step)
PAT1(uun, (size_t)(unsigned)start, (size_t)(unsigned)stop, None)

// the same through the tuple dispatchers apply_shape_slice / apply_slice (what view::slice calls)
KERNEL size_t K(k_apply_shape1_iii)(size_t n, int start, int stop, int step){
  sh1_t shape{n}; auto r = ix::apply_shape_slice(shape, nmtools_tuple<nmtools_tuple<int,int,int>>{nmtools_tuple{start,stop,step}}); return nm::at(r,0); }
KERNEL size_t K(k_apply_index1_iii)(size_t n, int start, int stop, int step, size_t k){
  sh1_t shape{n}; sh1_t idx{k}; auto r = ix::apply_slice(idx, shape, nmtools_tuple<nmtools_tuple<int,int,int>>{nmtools_tuple{start,stop,step}}); return nm::at(r,0); }

// shape container kinds other than std::array (pattern iii): bounded static_vector and std::vector
KERNEL size_t K(k_shape1_iii_sv)(size_t n, int start, int stop, int step){
  auto shape = mk_sv<size_t,4>(&n,1); auto r = ix::shape_slice(shape, nmtools_tuple{start,stop,step}); return nm::len(r)==1 ? (size_t)nm::at(r,0) : (size_t)-1; }
KERNEL size_t K(k_index1_iii_sv)(size_t n, int start, int stop, int step, size_t k){
  auto shape = mk_sv<size_t,4>(&n,1); auto idx = mk_sv<size_t,4>(&k,1); auto r = ix::slice(idx, shape, nmtools_tuple{start,stop,step}); return nm::len(r)==1 ? (size_t)nm::at(r,0) : (size_t)-1; }
KERNEL size_t K(k_shape1_iii_vec)(size_t n, int start, int stop, int step){
  auto shape = mk_vec(&n,1); auto r = ix::shape_slice(shape, nmtools_tuple{start,stop,step}); return nm::len(r)==1 ? (size_t)nm::at(r,0) : (size_t)-1; }
KERNEL size_t K(k_index1_iii_vec)(size_t n, int start, int stop, int step, size_t k){
  auto shape = mk_vec(&n,1); auto idx = mk_vec(&k,1); auto r = ix::slice(idx, shape, nmtools_tuple{start,stop,step}); return nm::len(r)==1 ? (size_t)nm::at(r,0) : (size_t)-1; }

// ---- one axis, dynamic encodings ----
// list of array<int,3> / array<int,2>
KERNEL size_t K(k_dshape1_a3)(size_t n, int start, int stop, int step){
  sh1_t shape{n}; using s_t = nmtools_array<int,3>; nmtools_list<s_t> sl; sl.push_back(s_t{start,stop,step});
  auto r = ix::shape_dynamic_slice(shape, sl); return nm::len(r)==1 ? (size_t)nm::at(r,0) : (size_t)-1; }
KERNEL size_t K(k_dindex1_a3)(size_t n, int start, int stop, int step, size_t k){
  sh1_t shape{n}; sh1_t idx{k}; using s_t = nmtools_array<int,3>; nmtools_list<s_t> sl; sl.push_back(s_t{start,stop,step});
  auto r = ix::dynamic_slice(idx, shape, sl); return nm::at(r,0); }
KERNEL size_t K(k_dshape1_a2)(size_t n, int start, int stop, int){
  sh1_t shape{n}; using s_t = nmtools_array<int,2>; nmtools_list<s_t> sl; sl.push_back(s_t{start,stop});
  auto r = ix::shape_dynamic_slice(shape, sl); return nm::len(r)==1 ? (size_t)nm::at(r,0) : (size_t)-1; }
KERNEL size_t K(k_dindex1_a2)(size_t n, int start, int stop, int, size_t k){
  sh1_t shape{n}; sh1_t idx{k}; using s_t = nmtools_array<int,2>; nmtools_list<s_t> sl; sl.push_back(s_t{start,stop});
  auto r = ix::dynamic_slice(idx, shape, sl); return nm::at(r,0); }
// bounded list (static_vector) of array<int,3>
KERNEL size_t K(k_dshape1_a3_sv)(size_t n, int start, int stop, int step){
  sh1_t shape{n}; using s_t = nmtools_array<int,3>; utl::static_vector<s_t,3> sl; sl.resize(1); sl[0] = s_t{start,stop,step};
  auto r = ix::shape_dynamic_slice(shape, sl); return nm::len(r)==1 ? (size_t)nm::at(r,0) : (size_t)-1; }
// list of tuples with None parts (same type for every axis)
#define DPAT1(NAME, ...) \
KERNEL size_t K(k_dshape1_##NAME)(size_t n, int start, int stop, int step){ \
  sh1_t shape{n}; using s_t = decltype(nmtools_tuple{__VA_ARGS__}); nmtools_list<s_t> sl; sl.push_back(s_t{__VA_ARGS__}); \
  auto r = ix::shape_dynamic_slice(shape, sl); return nm::len(r)==1 ? (size_t)nm::at(r,0) : (size_t)-1; } \
KERNEL size_t K(k_dindex1_##NAME)(size_t n, int start, int stop, int step, size_t k){ \
  sh1_t shape{n}; sh1_t idx{k}; using s_t = decltype(nmtools_tuple{__VA_ARGS__}); nmtools_list<s_t> sl; sl.push_back(s_t{__VA_ARGS__}); \
  auto r = ix::dynamic_slice(idx, shape, sl); return nm::at(r,0); }
DPAT1(nnn, None, None, None)
DPAT1(inn, start, None, None)
DPAT1(nin, None, stop, None)
DPAT1(iin, start, stop, None)
DPAT1(nni, None, None, step)
DPAT1(ini, start, None, step)
DPAT1(nii, None, stop, step)
DPAT1(iii, start, stop, step)
DPAT1(ni, None, stop)

