// C04: generators. Real code: view::eye/identity/tri (index::eye/tri), view::full/zeros/ones(_like), view::arange (index::arange_shape)
#include "C04_k.hpp"
#include "nmtools/array/view/eye.hpp"
#include "nmtools/array/view/identity.hpp"
#include "nmtools/array/view/tri.hpp"
#include "nmtools/array/view/full.hpp"
#include "nmtools/array/view/zeros.hpp"
#include "nmtools/array/view/ones.hpp"
#include "nmtools/array/view/full_like.hpp"
#include "nmtools/array/view/zeros_like.hpp"
#include "nmtools/array/view/ones_like.hpp"
#include "nmtools/array/view/arange.hpp"
#define GEN_OUT const size_t* idx, size_t nidx, size_t* oshape, size_t* odim, unsigned* out
KERNEL int K(k_eye)(size_t n, size_t m, int k, GEN_OUT){ return OBSV(view::eye(n, m, k, nm::dtype_t<unsigned>{})); }
KERNEL int K(k_eye_square)(size_t n, int k, GEN_OUT){ return OBSV(view::eye(n, nm::None, k, nm::dtype_t<unsigned>{})); }
KERNEL int K(k_identity)(size_t n, GEN_OUT){ return OBSV(view::identity(n, nm::dtype_t<unsigned>{})); }
KERNEL int K(k_tri)(size_t n, size_t m, int k, GEN_OUT){ return OBSV(view::tri(n, m, k, nm::dtype_t<unsigned>{})); }
KERNEL int K(k_tri_square)(size_t n, int k, GEN_OUT){ return OBSV(view::tri(n, nm::None, k, nm::dtype_t<unsigned>{})); }
// full / zeros / ones on a bounded run-time shape of 1..4 entries
KERNEL int K(k_full)(const size_t* shape, size_t dim, unsigned value, GEN_OUT){ return OBSV(view::full(mk_sv<size_t,4>(shape,dim), value)); }
KERNEL int K(k_zeros)(const size_t* shape, size_t dim, GEN_OUT){ return OBSV(view::zeros(mk_sv<size_t,4>(shape,dim), nm::dtype_t<unsigned>{})); }
KERNEL int K(k_ones)(const size_t* shape, size_t dim, GEN_OUT){ return OBSV(view::ones(mk_sv<size_t,4>(shape,dim), nm::dtype_t<unsigned>{})); }
#define LIKE(D) KERNEL int K(k_full_like##D)(ARGS_IN, unsigned value, ARGS_OUT){ MK(D); return OBSV(view::full_like(a, value)); } \
  KERNEL int K(k_zeros_like##D)(ARGS_IN, ARGS_OUT){ MK(D); return OBSV(view::zeros_like(a)); } \
  KERNEL int K(k_ones_like##D)(ARGS_IN, ARGS_OUT){ MK(D); return OBSV(view::ones_like(a)); }
FOR_DIMS4(LIKE)
// arange on integer grids: (start, stop, step), (start, stop), (stop); the view is indexed with a scalar
template <typename V> static inline int observe_1d(const V& v, size_t i, size_t* oshape, size_t* odim, int* out){
  *odim = put(nm::shape(v), oshape); *out = (int)v(i); return 1; }
KERNEL int K(k_arange3)(int start, int stop, int step, size_t i, size_t* oshape, size_t* odim, int* out){ return observe_1d(view::arange(start, stop, step, nm::dtype_t<int>{}), i, oshape, odim, out); }
KERNEL int K(k_arange2)(int start, int stop, size_t i, size_t* oshape, size_t* odim, int* out){ return observe_1d(view::arange(start, stop, nm::dtype_t<int>{}), i, oshape, odim, out); }
KERNEL int K(k_arange1)(int stop, size_t i, size_t* oshape, size_t* odim, int* out){ return observe_1d(view::arange(stop, nm::dtype_t<int>{}), i, oshape, odim, out); }

// full_like without dtype: the result has the element type of the PROTOTYPE array and the fill value is converted to it (np.full_like(a, v) == full(a.shape, v, a.dtype))
KERNEL int K(k_full_like_u8)(const size_t* shape, const unsigned char* data, unsigned value, const size_t* idx, size_t nidx, size_t* oshape, size_t* odim, unsigned* out, size_t* esz){
  hyb_t<unsigned char,16,2> a; if (!mk2(a,shape,data)) return -1; auto v = view::full_like(a, value);
  *esz = sizeof(meta::get_element_type_t<meta::remove_cvref_t<decltype(nm::unwrap(v))>>); return OBSV(v); }
// with an explicit dtype the requested type wins
KERNEL int K(k_full_like_u8_dtype)(const size_t* shape, const unsigned char* data, unsigned value, const size_t* idx, size_t nidx, size_t* oshape, size_t* odim, unsigned* out, size_t* esz){
  hyb_t<unsigned char,16,2> a; if (!mk2(a,shape,data)) return -1; auto v = view::full_like(a, value, nm::uint32);
  *esz = sizeof(meta::get_element_type_t<meta::remove_cvref_t<decltype(nm::unwrap(v))>>); return OBSV(v); }
