// C15 (view level): pipelines of depth 1..3 in which a stage with run-time-checked arguments may fail. Kernels only build the
// pipeline from the flat parameters and report has_value / shape / one element through observe().
#include "common.hpp"
#include "nmtools/array/eval.hpp"
#include "nmtools/array/view/reshape.hpp"
#include "nmtools/array/view/transpose.hpp"
#include "nmtools/array/view/moveaxis.hpp"
#include "nmtools/array/view/swapaxes.hpp"
#include "nmtools/array/view/expand_dims.hpp"
#include "nmtools/array/view/flip.hpp"
#include "nmtools/array/view/flatten.hpp"
#include "nmtools/array/view/broadcast_to.hpp"
#include "nmtools/array/view/concatenate.hpp"
#include "nmtools/array/view/roll.hpp"
#include "nmtools/array/view/pad.hpp"
#include "nmtools/array/view/matmul.hpp"
#include "nmtools/array/view/sum.hpp"
#include "nmtools/array/view/ufuncs/add.hpp"
namespace view = nm::view;
using a2_t = hyb_t<unsigned,16,2>;
#define SRC const size_t* shape, const unsigned* data
#define OBSV const size_t* idx, size_t nidx, size_t* oshape, size_t* odim, unsigned* out
#define MK a2_t a; if (!mk2(a,shape,data)) return -1

// depth 1: reshape with any target
KERNEL int K(k_v_reshape)(SRC, const int* dst, size_t nd, OBSV){ MK;
  return observe(view::reshape(a, mk_sv<int,4>(dst,nd)), idx, nidx, oshape, odim, out); }
// depth 2: reshape (may fail) -> transpose
KERNEL int K(k_v_reshape_transpose)(SRC, const int* dst, size_t nd, OBSV){ MK;
  return observe(view::transpose(view::reshape(a, mk_sv<int,4>(dst,nd))), idx, nidx, oshape, odim, out); }
// depth 3: reshape (may fail) -> transpose -> flatten
KERNEL int K(k_v_reshape_transpose_flatten)(SRC, const int* dst, size_t nd, OBSV){ MK;
  return observe(view::flatten(view::transpose(view::reshape(a, mk_sv<int,4>(dst,nd)))), idx, nidx, oshape, odim, out); }
// depth 2, binary: add(reshape(a, s), b): the reshape may fail and the broadcast of the two operands may fail
KERNEL int K(k_v_reshape_add)(SRC, const int* dst, size_t nd, const size_t* bshape, const unsigned* bdata, OBSV){ MK;
  a2_t b; if (!mk2(b,bshape,bdata)) return -1;
  if (nd != 2) return -1;        // fixed-length target array<int,2>: a bounded-vector target makes this pipeline cost > 5 GB per query
  return observe(view::add(view::reshape(a, mk_arr<int,2>(dst)), b), idx, nidx, oshape, odim, out); }
// depth 2: broadcast_to (may fail) -> transpose, then reduced: sum over axis 0
KERNEL int K(k_v_broadcast_transpose_sum)(SRC, const size_t* target, size_t nt, OBSV){ MK;
  if (nt != 3) return -1;        // fixed-length target array<size_t,3> (see above)
  return observe(view::sum(view::transpose(view::broadcast_to(a, mk_arr<size_t,3>(target))), 0), idx, nidx, oshape, odim, out); }
// evaluation of a maybe view: eval(transpose(reshape(a, s))); the target has fixed length 2 (array<int,2>) so that the evaluated
// result is a hybrid array (a bounded-vector target makes eval return a heap-backed dynamic_ndarray: 8 GB without a verdict)
KERNEL int K(k_v_reshape_transpose_eval)(SRC, const int* dst, size_t nd, const size_t* idx, size_t nidx, size_t* oshape, size_t* odim, unsigned* out){ MK;
  if (nd != 2) return -1;
  auto me = na::eval(view::transpose(view::reshape(a, mk_arr<int,2>(dst))));
  if (!nm::has_value(me)) return 0;
  const auto& e = nm::unwrap(me);
  *odim = put(nm::shape(e), oshape);
  if (nidx != *odim) return 2;
  *out = (unsigned)nm::apply_at(e, mk_sv<size_t,8>(idx,nidx));
  return 1; }
// matmul (contraction mismatch -> Nothing) -> transpose; shape only when the index has the wrong length
KERNEL int K(k_v_matmul_transpose)(SRC, const size_t* bshape, const unsigned* bdata, OBSV){ MK;
  a2_t b; if (!mk2(b,bshape,bdata)) return -1;
  return observe(view::transpose(view::matmul(a,b)), idx, nidx, oshape, odim, out); }
// moveaxis with any axes: moveaxis_to_transpose's Nothing must reach the result
KERNEL int K(k_v_moveaxis)(SRC, int src, int dst, OBSV){ MK;
  return observe(view::moveaxis(a, src, dst), idx, nidx, oshape, odim, out); }
// single-stage views whose axis arguments are run-time values
KERNEL int K(k_v_transpose_axes)(SRC, const int* axes, OBSV){ MK;
  return observe(view::transpose(a, mk_arr<int,2>(axes)), idx, nidx, oshape, odim, out); }
KERNEL int K(k_v_swapaxes)(SRC, int ax1, int ax2, OBSV){ MK;
  return observe(view::swapaxes(a, ax1, ax2), idx, nidx, oshape, odim, out); }
KERNEL int K(k_v_expand_dims)(SRC, int axis, OBSV){ MK;
  return observe(view::expand_dims(a, axis), idx, nidx, oshape, odim, out); }
KERNEL int K(k_v_flip)(SRC, int axis, OBSV){ MK;
  return observe(view::flip(a, axis), idx, nidx, oshape, odim, out); }
KERNEL int K(k_v_sum)(SRC, int axis, OBSV){ MK;
  return observe(view::sum(a, axis), idx, nidx, oshape, odim, out); }
KERNEL int K(k_v_concatenate)(SRC, const size_t* bshape, const unsigned* bdata, int axis, OBSV){ MK;
  a2_t b; if (!mk2(b,bshape,bdata)) return -1;
  return observe(view::concatenate(a, b, axis), idx, nidx, oshape, odim, out); }
// depth 1: broadcast_to with any target (bounded vector of run-time length)
KERNEL int K(k_v_broadcast_to)(SRC, const size_t* target, size_t nt, OBSV){ MK;
  return observe(view::broadcast_to(a, mk_sv<size_t,4>(target,nt)), idx, nidx, oshape, odim, out); }
// roll with a run-time shift and axis
KERNEL int K(k_v_roll)(SRC, int shift, int axis, OBSV){ MK;
  return observe(view::roll(a, shift, axis), idx, nidx, oshape, odim, out); }
// depth 2: pad with a run-time list of widths (may have the wrong length) -> transpose
KERNEL int K(k_v_pad_transpose)(SRC, const size_t* pw, size_t npw, unsigned value, OBSV){ MK;
  return observe(view::transpose(view::pad(a, mk_sv<size_t,8>(pw,npw), value)), idx, nidx, oshape, odim, out); }
