// C18: utils::isequal / utils::isclose as comparison oracles. Real code: include/nmtools/utility/isequal.hpp, isclose.hpp.
// The same source is built twice: -DNDEBUG (what the test-suite runs) and asserts on (-DKSUFFIX=_dbg).
// Kernels only marshal: build the operands from flat parameters, call isequal/isclose in the stated order, return the bool.
#include "common.hpp"
#include "nmtools/array/ndarray.hpp"
#include "nmtools/array/ndarray/fixed.hpp"
#include "nmtools/utility/isequal.hpp"
#include "nmtools/utility/isclose.hpp"
#include "nmtools/utl.hpp"
#include <optional>
#include <variant>
namespace utils = nm::utils;

// bounded vector whose cells beyond the logical length hold caller-chosen ("stale") values: all N cells are written,
// then the vector is shrunk to n. A comparison that reads beyond the logical extent becomes visible in its result.
template <typename T, size_t N> static inline utl::static_vector<T,N> mk_sv_stale(const T* p, size_t n){
  utl::static_vector<T,N> s; s.resize(N); for (size_t i=0;i<N;i++) s[i]=p[i]; s.resize(n); return s; }

using sv4 = utl::static_vector<size_t,4>;
using vec = std::vector<size_t>;
template <size_t N> using arr = std::array<size_t,N>;

// ---------------------------------------------------------------- index arrays
// order: 0 = f(a,b), 1 = f(b,a)
KERNEL int K(k_eq_sv_sv)(const size_t* a, size_t na, const size_t* b, size_t nb, int order){
  auto x = mk_sv_stale<size_t,4>(a,na); auto y = mk_sv_stale<size_t,4>(b,nb);
  return order ? utils::isequal(y,x) : utils::isequal(x,y);
}
KERNEL int K(k_eq_vec_vec)(const size_t* a, size_t na, const size_t* b, size_t nb, int order){
  auto x = mk_vec(a,na); auto y = mk_vec(b,nb);
  return order ? utils::isequal(y,x) : utils::isequal(x,y);
}
KERNEL int K(k_eq_vec_sv)(const size_t* a, size_t na, const size_t* b, size_t nb, int order){
  auto x = mk_vec(a,na); auto y = mk_sv_stale<size_t,4>(b,nb);
  return order ? utils::isequal(y,x) : utils::isequal(x,y);
}
// std::array<size_t,N> (fixed length N) against a bounded / dynamic vector of run-time length
#define EQ_ARR(N) \
KERNEL int K(k_eq_arr##N##_sv)(const size_t* a, const size_t* b, size_t nb, int order){ \
  auto x = mk_arr<size_t,N>(a); auto y = mk_sv_stale<size_t,4>(b,nb); \
  return order ? utils::isequal(y,x) : utils::isequal(x,y); } \
KERNEL int K(k_eq_arr##N##_vec)(const size_t* a, const size_t* b, size_t nb, int order){ \
  auto x = mk_arr<size_t,N>(a); auto y = mk_vec(b,nb); \
  return order ? utils::isequal(y,x) : utils::isequal(x,y); } \
KERNEL int K(k_eq_arr##N##_arr##N)(const size_t* a, const size_t* b, int order){ \
  auto x = mk_arr<size_t,N>(a); auto y = mk_arr<size_t,N>(b); \
  return order ? utils::isequal(y,x) : utils::isequal(x,y); }
EQ_ARR(1) EQ_ARR(2) EQ_ARR(3) EQ_ARR(4)
// mixed element types: signed int against size_t (promote_index_t decides the comparison type)
KERNEL int K(k_eq_svi_sv)(const int* a, size_t na, const size_t* b, size_t nb, int order){
  auto x = mk_sv_stale<int,4>(a,na); auto y = mk_sv_stale<size_t,4>(b,nb);
  return order ? utils::isequal(y,x) : utils::isequal(x,y);
}

// ---------------------------------------------------------------- scalars
KERNEL int K(k_eq_num)(size_t a, size_t b, int order){ return order ? utils::isequal(b,a) : utils::isequal(a,b); }
KERNEL int K(k_eq_num_i_u)(int a, unsigned b, int order){ return order ? utils::isequal(b,a) : utils::isequal(a,b); }
KERNEL int K(k_close_f32)(float a, float b, float eps, int order){ return order ? utils::isclose(b,a,eps) : utils::isclose(a,b,eps); }
KERNEL int K(k_close_f64)(double a, double b, double eps, int order){ return order ? utils::isclose(b,a,eps) : utils::isclose(a,b,eps); }
KERNEL int K(k_close_f32_f64)(float a, double b, double eps, int order){ return order ? utils::isclose(b,a,eps) : utils::isclose(a,b,eps); }
KERNEL int K(k_close_u32)(unsigned a, unsigned b, double eps, int order){ return order ? utils::isclose(b,a,eps) : utils::isclose(a,b,eps); }
KERNEL int K(k_close_i32)(int a, int b, double eps, int order){ return order ? utils::isclose(b,a,eps) : utils::isclose(a,b,eps); }

// ---------------------------------------------------------------- ndarrays
using h1_t = hyb_t<unsigned,9,1>;  using h2_t = hyb_t<unsigned,9,2>;  using h3_t = hyb_t<unsigned,9,3>;
using f23_t = na::fixed_ndarray<unsigned,2,3>;
using d_t  = na::ndarray_t<std::vector<unsigned>, std::vector<size_t>>;         // dynamic buffer, dynamic dim
using b_t  = na::ndarray_t<utl::static_vector<unsigned,9>, utl::static_vector<size_t,3>>;   // bounded buffer, bounded dim
using hf2_t = hyb_t<float,9,2>; using hf1_t = hyb_t<float,9,1>;
using bf_t  = na::ndarray_t<utl::static_vector<float,9>, utl::static_vector<size_t,3>>;

template <typename A, typename T> static inline bool mkd(A& a, const size_t* s, size_t dim, const T* d){
  return a.resize(mk_sv<size_t,3>(s,dim)) && (nm::size(a) == 0 || fill(a,d)); }   // an empty array has no first cell to take the address of

#define ORD(f, x, y, ...) (order ? f(y, x __VA_ARGS__) : f(x, y __VA_ARGS__))
KERNEL int K(k_eq_h2_h2)(const size_t* sa, const unsigned* da, const size_t* sb, const unsigned* db, int order){
  h2_t a, b; if (!mk2(a,sa,da) || !mk2(b,sb,db)) return -1;
  return ORD(utils::isequal, a, b);
}
// fixed-dim operands of different dim
KERNEL int K(k_eq_h2_h1)(const size_t* sa, const unsigned* da, const size_t* sb, const unsigned* db, int order){
  h2_t a; h1_t b; if (!mk2(a,sa,da) || !mk1(b,sb,db)) return -1;
  return ORD(utils::isequal, a, b);
}
KERNEL int K(k_eq_h2_h3)(const size_t* sa, const unsigned* da, const size_t* sb, const unsigned* db, int order){
  h2_t a; h3_t b; if (!mk2(a,sa,da) || !mk3(b,sb,db)) return -1;
  return ORD(utils::isequal, a, b);
}
KERNEL int K(k_eq_f23_h2)(const unsigned* da, const size_t* sb, const unsigned* db, int order){
  f23_t a; for (size_t i=0;i<2;i++) for (size_t j=0;j<3;j++) a(i,j) = da[i*3+j];
  h2_t b; if (!mk2(b,sb,db)) return -1;
  return ORD(utils::isequal, a, b);
}
// bounded buffer + bounded run-time dim on both sides: dim 1..3 symbolic
KERNEL int K(k_eq_b_b)(const size_t* sa, size_t dima, const unsigned* da, const size_t* sb, size_t dimb, const unsigned* db, int order){
  b_t a, b; if (!mkd(a,sa,dima,da) || !mkd(b,sb,dimb,db)) return -1;
  return ORD(utils::isequal, a, b);
}
// std::vector buffer + std::vector shape on both sides
KERNEL int K(k_eq_d_d)(const size_t* sa, size_t dima, const unsigned* da, const size_t* sb, size_t dimb, const unsigned* db, int order){
  d_t a, b; if (!mkd(a,sa,dima,da) || !mkd(b,sb,dimb,db)) return -1;
  return ORD(utils::isequal, a, b);
}
KERNEL int K(k_eq_d_h2)(const size_t* sa, size_t dima, const unsigned* da, const size_t* sb, const unsigned* db, int order){
  d_t a; h2_t b; if (!mkd(a,sa,dima,da) || !mk2(b,sb,db)) return -1;
  return ORD(utils::isequal, a, b);
}
// isclose on float arrays
#define EPS , eps
KERNEL int K(k_close_h2_h2)(const size_t* sa, const float* da, const size_t* sb, const float* db, float eps, int order){
  hf2_t a, b; if (!mk2(a,sa,da) || !mk2(b,sb,db)) return -1;
  return ORD(utils::isclose, a, b, EPS);
}
KERNEL int K(k_close_b_b)(const size_t* sa, size_t dima, const float* da, const size_t* sb, size_t dimb, const float* db, float eps, int order){
  bf_t a, b; if (!mkd(a,sa,dima,da) || !mkd(b,sb,dimb,db)) return -1;
  return ORD(utils::isclose, a, b, EPS);
}

// ---------------------------------------------------------------- maybe / Nothing
using msv_t = nmtools_maybe<sv4>;
static inline msv_t mk_msv(int has, const size_t* p, size_t n){ if (has) return msv_t{mk_sv_stale<size_t,4>(p,n)}; return msv_t{meta::Nothing}; }
KERNEL int K(k_eq_maybe_maybe)(int ha, const size_t* a, size_t na, int hb, const size_t* b, size_t nb, int order){
  auto x = mk_msv(ha,a,na); auto y = mk_msv(hb,b,nb);
  return ORD(utils::isequal, x, y);
}
KERNEL int K(k_eq_maybe_value)(int ha, const size_t* a, size_t na, const size_t* b, size_t nb, int order){
  auto x = mk_msv(ha,a,na); auto y = mk_sv_stale<size_t,4>(b,nb);
  return ORD(utils::isequal, x, y);
}
KERNEL int K(k_eq_maybe_nothing)(int ha, const size_t* a, size_t na, int order){
  auto x = mk_msv(ha,a,na);
  return order ? utils::isequal(meta::Nothing, x) : utils::isequal(x, meta::Nothing);
}
KERNEL int K(k_eq_none_none)(void){ return utils::isequal(nm::None, nm::None); }
using mf_t = nmtools_maybe<float>;
KERNEL int K(k_close_maybe_maybe)(int ha, float a, int hb, float b, float eps, int order){
  mf_t x = ha ? mf_t{a} : mf_t{meta::Nothing}; mf_t y = hb ? mf_t{b} : mf_t{meta::Nothing};
  return ORD(utils::isclose, x, y, EPS);
}
KERNEL int K(k_close_maybe_value)(int ha, float a, float b, float eps, int order){
  mf_t x = ha ? mf_t{a} : mf_t{meta::Nothing};
  return ORD(utils::isclose, x, b, EPS);
}
// utl flavour of maybe (the STL-free build's optional)
using umsv_t = utl::maybe<sv4>;
KERNEL int K(k_eq_umaybe_umaybe)(int ha, const size_t* a, size_t na, int hb, const size_t* b, size_t nb, int order){
  umsv_t x = ha ? umsv_t{mk_sv_stale<size_t,4>(a,na)} : umsv_t{}; umsv_t y = hb ? umsv_t{mk_sv_stale<size_t,4>(b,nb)} : umsv_t{};
  return ORD(utils::isequal, x, y);
}

// ---------------------------------------------------------------- either: left = scalar, right = index array
using e_t = nmtools_either<size_t, sv4>;
static inline e_t mk_e(int right, size_t s, const size_t* p, size_t n){ if (right) return e_t{mk_sv_stale<size_t,4>(p,n)}; return e_t{s}; }
KERNEL int K(k_eq_either_either)(int ra, size_t xa, const size_t* a, size_t na, int rb, size_t xb, const size_t* b, size_t nb, int order){
  auto x = mk_e(ra,xa,a,na); auto y = mk_e(rb,xb,b,nb);
  return ORD(utils::isequal, x, y);
}
KERNEL int K(k_eq_either_num)(int ra, size_t xa, const size_t* a, size_t na, size_t v, int order){
  auto x = mk_e(ra,xa,a,na);
  return ORD(utils::isequal, x, v);
}
KERNEL int K(k_eq_either_sv)(int ra, size_t xa, const size_t* a, size_t na, const size_t* b, size_t nb, int order){
  auto x = mk_e(ra,xa,a,na); auto y = mk_sv_stale<size_t,4>(b,nb);
  return ORD(utils::isequal, x, y);
}
using ef_t = nmtools_either<float, hf1_t>;
KERNEL int K(k_close_either_either)(int ra, float xa, int rb, float xb, const size_t* s, const float* da, const float* db, float eps, int order){
  hf1_t a, b; if (!mk1(a,s,da) || !mk1(b,s,db)) return -1;
  ef_t x = ra ? ef_t{a} : ef_t{xa}; ef_t y = rb ? ef_t{b} : ef_t{xb};
  return ORD(utils::isclose, x, y, EPS);
}
KERNEL int K(k_close_either_num)(int ra, float xa, const size_t* s, const float* da, float v, float eps, int order){
  hf1_t a; if (!mk1(a,s,da)) return -1;
  ef_t x = ra ? ef_t{a} : ef_t{xa};
  return ORD(utils::isclose, x, v, EPS);
}

// ---------------------------------------------------------------- tuples (packed operands are compared member by member)
KERNEL int K(k_eq_tuple3)(const size_t* a, const size_t* b, int order){
  auto x = nmtools_tuple<size_t,size_t,size_t>{a[0],a[1],a[2]}; auto y = nmtools_tuple<size_t,size_t,size_t>{b[0],b[1],b[2]};
  return ORD(utils::isequal, x, y);
}
KERNEL int K(k_eq_tuple_arr3)(const size_t* a, const size_t* b, int order){
  auto x = nmtools_tuple<size_t,size_t,size_t>{a[0],a[1],a[2]}; auto y = mk_arr<size_t,3>(b);
  return ORD(utils::isequal, x, y);
}
// tuple of (scalar, bounded index array, maybe<index array>)
KERNEL int K(k_eq_tuple_mixed)(size_t xa, const size_t* a, size_t na, int ha, const size_t* ma, size_t nma,
                               size_t xb, const size_t* b, size_t nb, int hb, const size_t* mb, size_t nmb, int order){
  auto x = nmtools_tuple<size_t,sv4,msv_t>{xa, mk_sv_stale<size_t,4>(a,na), mk_msv(ha,ma,nma)};
  auto y = nmtools_tuple<size_t,sv4,msv_t>{xb, mk_sv_stale<size_t,4>(b,nb), mk_msv(hb,mb,nmb)};
  return ORD(utils::isequal, x, y);
}
KERNEL int K(k_close_tuple2)(float a0, float a1, float b0, float b1, float eps, int order){
  auto x = nmtools_tuple<float,float>{a0,a1}; auto y = nmtools_tuple<float,float>{b0,b1};
  return ORD(utils::isclose, x, y, EPS);
}
