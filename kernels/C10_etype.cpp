// C10, element type of the evaluated array: views whose element type differs from their operand's (uint8 array + unsigned scalar -> unsigned;
// uint8 array + uint8 array with dtype) evaluated with the default resolver (RES 0), RowMajorResolver (1), ColumnMajorResolver (2), over a hybrid
// operand (KIND 0), a dynamic std::vector-backed operand (KIND 1) and a fixed operand (KIND 2). *esz = sizeof(element type of the evaluated array).
#include "C10_k.hpp"
#include "nmtools/array/view/transpose.hpp"
#include "nmtools/array/view/flip.hpp"
#include "nmtools/array/view/ufuncs/add.hpp"
#include "nmtools/array/ndarray/dynamic.hpp"
#include "nmtools/utl/vector.hpp"
#ifndef RES
#define RES 0
#endif
#if RES == 0
#define EVAL(mv) na::eval(mv)
#elif RES == 1
#define EVAL(mv) na::eval(mv, nm::None, nm::None, na::RowMajorResolver)
#else
#define EVAL(mv) na::eval(mv, nm::None, nm::None, na::ColumnMajorResolver)
#endif
#define SIGE const size_t* shape, const unsigned char* data, unsigned s, const size_t* idx, size_t nidx, size_t* lshape, size_t* ldim, unsigned* lval, size_t* eshape, size_t* edim, unsigned* ev, size_t* esz
#define OUTE idx, nidx, lshape, ldim, lval, eshape, edim, ev
template <typename ME> static inline size_t elem_size(const ME& me){ using e_t = meta::remove_cvref_t<decltype(payload(me))>; return sizeof(meta::get_element_type_t<e_t>); }
#define BODY(V) auto mv = V; auto me = EVAL(mv); *esz = elem_size(me); return lazy_eager(mv, me, OUTE);
using hb_t = hyb_t<unsigned char,16,2>;
using db_t = na::dynamic_ndarray<unsigned char>;
using fb_t = std::array<std::array<unsigned char,3>,2>;
static inline bool mkd(db_t& a, const size_t* shape, const unsigned char* data){ a.resize(shape[0], shape[1]); fill_n(&a.data[0], data, shape[0]*shape[1]); return true; }
KERNEL int K(k_et_adds_h)(SIGE){ hb_t a; if (!mk2(a,shape,data)) return -1; BODY(view::add(a, s)) }
KERNEL int K(k_et_adds_flip_h)(SIGE){ hb_t a; if (!mk2(a,shape,data)) return -1; BODY(view::add(view::flip(a, 1), s)) }
KERNEL int K(k_et_adds_f)(SIGE){ fb_t a; fill_n(&a[0][0], data, 6); BODY(view::add(a, s)) }
KERNEL int K(k_et_adds_d)(SIGE){ db_t a; mkd(a,shape,data); BODY(view::add(a, s)) }
KERNEL int K(k_et_adds_transpose_d)(SIGE){ db_t a; mkd(a,shape,data); BODY(view::add(view::transpose(a), s)) }
// dynamic kind backed by the library's own utl::vector (buffer and shape): same resolver branch (dynamic view over a dynamic array), cheaper heap model than std::vector
using du_t = na::ndarray_t<nm::utl::vector<unsigned char>, nm::utl::vector<size_t>>;
static inline bool mku(du_t& a, const size_t* shape, const unsigned char* data){ nm::utl::vector<size_t> s; s.resize(2); s[0] = shape[0]; s[1] = shape[1]; if (!a.resize(s)) return false; fill_n(&a.data_[0], data, shape[0]*shape[1]); return true; }
KERNEL int K(k_et_adds_u)(SIGE){ du_t a; if (!mku(a,shape,data)) return -1; BODY(view::add(a, s)) }
// two leaves: FIXED unsigned lhs (every cell = s) + utl-dynamic uint8 rhs: the default resolver's binary branch "rhs dynamic, view dynamic" must re-type the result to the view's element type
KERNEL int K(k_et_add_fu)(SIGE){ std::array<std::array<unsigned,2>,1> l{}; l[0][0] = s; l[0][1] = s; du_t a; if (!mku(a,shape,data)) return -1; BODY(view::add(l, a)) }
