// C04: selecting / joining views. Real code: index::shape_take/take, shape_concatenate/concatenate, view::take/concatenate/stack/hstack/vstack/dstack/column_stack
#include "C04_k.hpp"
#include "nmtools/array/view/take.hpp"
#include "nmtools/array/view/concatenate.hpp"
#include "nmtools/array/view/stack.hpp"
#include "nmtools/array/view/hstack.hpp"
#include "nmtools/array/view/vstack.hpp"
#include "nmtools/array/view/dstack.hpp"
#include "nmtools/array/view/column_stack.hpp"
// take: run-time signed index list of 1..4 entries, run-time axis / axis=None
#define TAKE(D) KERNEL int K(k_take##D)(ARGS_IN, const int* ind, size_t ni, int axis, ARGS_OUT){ MK(D); return OBSV(view::take(a, mk_sv<int,4>(ind,ni), axis)); } \
  KERNEL int K(k_take_flat##D)(ARGS_IN, const int* ind, size_t ni, ARGS_OUT){ MK(D); return OBSV(view::take(a, mk_sv<int,4>(ind,ni), nm::None)); }
FOR_DIMS4(TAKE)
// binary joins of two arrays of the same dimension
#define ARGS_IN2 const size_t* shape, const unsigned* data, const size_t* shape2, const unsigned* data2
#define MK2(D) src_t<D> a, b; if (!mk##D(a,shape,data) || !mk##D(b,shape2,data2)) return -1
#define JOIN(D) \
  KERNEL int K(k_concatenate##D)(ARGS_IN2, int axis, ARGS_OUT){ MK2(D); return OBSV(view::concatenate(a, b, axis)); } \
  KERNEL int K(k_concatenate_flat##D)(ARGS_IN2, ARGS_OUT){ MK2(D); return OBSV(view::concatenate(a, b, nm::None)); } \
  KERNEL int K(k_stack##D)(ARGS_IN2, int axis, ARGS_OUT){ MK2(D); return OBSV(view::stack(a, b, axis)); } \
  KERNEL int K(k_stack_default##D)(ARGS_IN2, ARGS_OUT){ MK2(D); return OBSV(view::stack(a, b)); } \
  KERNEL int K(k_hstack##D)(ARGS_IN2, ARGS_OUT){ MK2(D); return OBSV(view::hstack(a, b)); } \
  KERNEL int K(k_vstack##D)(ARGS_IN2, ARGS_OUT){ MK2(D); return OBSV(view::vstack(a, b)); } \
  KERNEL int K(k_dstack##D)(ARGS_IN2, ARGS_OUT){ MK2(D); return OBSV(view::dstack(a, b)); } \
  KERNEL int K(k_column_stack##D)(ARGS_IN2, ARGS_OUT){ MK2(D); return OBSV(view::column_stack(a, b)); }
FOR_DIMS4(JOIN)
