// C01: multi-index <-> flat offset. Real functions: index::compute_strides, compute_offset, compute_indices (2/3 args),
// ndindex_t::operator[]/size, product, row/column_major_offset_t, base_ndarray_t::offset/operator()
#include "common.hpp"
#include "nmtools/array/index/compute_strides.hpp"
#include "nmtools/array/index/compute_offset.hpp"
#include "nmtools/array/index/compute_indices.hpp"
#include "nmtools/array/index/ndindex.hpp"
#include "nmtools/array/index/product.hpp"

#define ARR_KERNELS(N) \
KERNEL void K(k_strides_arr##N)(const size_t* shape, size_t* out){ auto r = ix::compute_strides(mk_arr<size_t,N>(shape)); put(r,out); } \
KERNEL void K(k_indices_arr##N)(size_t off, const size_t* shape, size_t* out){ auto r = ix::compute_indices(off, mk_arr<size_t,N>(shape)); put(r,out); } \
KERNEL size_t K(k_offset_arr##N)(const size_t* idx, const size_t* shape){ return ix::compute_offset(mk_arr<size_t,N>(idx), ix::compute_strides(mk_arr<size_t,N>(shape))); } \
KERNEL size_t K(k_ndindex_arr##N)(size_t i, const size_t* shape, size_t* out){ auto s = mk_arr<size_t,N>(shape); auto nd = ix::ndindex(s); put(nd[i],out); return nd.size(); }
ARR_KERNELS(1) ARR_KERNELS(2) ARR_KERNELS(3) ARR_KERNELS(4) ARR_KERNELS(5) ARR_KERNELS(6)

// bounded static vector (dim is a run-time value <= 6)
KERNEL size_t K(k_strides_sv)(const size_t* shape, size_t n, size_t* out){ return put(ix::compute_strides(mk_sv<size_t,6>(shape,n)),out); }
KERNEL size_t K(k_indices_sv)(size_t off, const size_t* shape, size_t n, size_t* out){ return put(ix::compute_indices(off, mk_sv<size_t,6>(shape,n)),out); }
KERNEL size_t K(k_offset_sv)(const size_t* idx, const size_t* shape, size_t n){ return ix::compute_offset(mk_sv<size_t,6>(idx,n), ix::compute_strides(mk_sv<size_t,6>(shape,n))); }
KERNEL size_t K(k_ndindex_sv)(size_t i, const size_t* shape, size_t n, size_t* out, size_t* total){ auto s = mk_sv<size_t,6>(shape,n); auto nd = ix::ndindex(s); *total = nd.size(); return put(nd[i],out); }
KERNEL size_t K(k_product_sv)(const size_t* shape, size_t n){ return ix::product(mk_sv<size_t,6>(shape,n)); }
// dynamic list
KERNEL size_t K(k_strides_vec)(const size_t* shape, size_t n, size_t* out){ return put(ix::compute_strides(mk_vec(shape,n)),out); }
KERNEL size_t K(k_indices_vec)(size_t off, const size_t* shape, size_t n, size_t* out){ return put(ix::compute_indices(off, mk_vec(shape,n)),out); }
KERNEL size_t K(k_offset_vec)(const size_t* idx, const size_t* shape, size_t n){ return ix::compute_offset(mk_vec(idx,n), ix::compute_strides(mk_vec(shape,n))); }
// tuple of run-time values
KERNEL void K(k_indices_tuple3)(size_t off, const size_t* shape, size_t* out){
  auto r = ix::compute_indices(off, nmtools_tuple<size_t,size_t,size_t>{shape[0],shape[1],shape[2]});
  out[0]=nm::at(r,meta::ct_v<0>); out[1]=nm::at(r,meta::ct_v<1>); out[2]=nm::at(r,meta::ct_v<2>); }
KERNEL size_t K(k_offset_tuple3)(const size_t* idx, const size_t* shape){
  return ix::compute_offset(nmtools_tuple<size_t,size_t,size_t>{idx[0],idx[1],idx[2]}, ix::compute_strides(nmtools_tuple<size_t,size_t,size_t>{shape[0],shape[1],shape[2]})); }

// layouts: the same logical content written through a(i,j,k) into a row-major and a column-major hybrid array
using rm3_t = na::ndarray_t< na::static_vector<unsigned,64>, nmtools_array<size_t,3> >;
using cm3_t = na::column_major_ndarray_t< na::static_vector<unsigned,64>, nmtools_array<size_t,3> >;
KERNEL int K(k_layout3)(const size_t* shape, const size_t* wi, unsigned wv, const size_t* ri, unsigned* rm_val, unsigned* cm_val,
                        size_t* rm_pos, size_t* cm_pos, size_t* rm_wpos, size_t* cm_wpos, size_t* rm_strides, size_t* cm_strides){
  rm3_t a; cm3_t b;
  if (!a.resize(shape[0],shape[1],shape[2]) || !b.resize(shape[0],shape[1],shape[2])) return 0;
  a(ri[0],ri[1],ri[2]) = 0; b(ri[0],ri[1],ri[2]) = 0;
  a(wi[0],wi[1],wi[2]) = wv; b(wi[0],wi[1],wi[2]) = wv;          // write one logical element
  *rm_val = a(ri[0],ri[1],ri[2]); *cm_val = b(ri[0],ri[1],ri[2]); // read another (or the same) logical element
  *rm_pos = a.offset(ri[0],ri[1],ri[2]); *cm_pos = b.offset(ri[0],ri[1],ri[2]);
  *rm_wpos = a.offset(wi[0],wi[1],wi[2]); *cm_wpos = b.offset(wi[0],wi[1],wi[2]);
  put(a.strides(),rm_strides); put(b.strides(),cm_strides);
  return 1;
}

// ALL-CONSTANT call: compute_indices / compute_offset with a compile-time constant offset and a compile-time constant shape (2,3,4) are folded in the type system;
// every one of the 24 instantiations is generated (template_for) and written out: out[3*k..] = indices(k_ct), back[k] = offset(indices(k_ct))
KERNEL void K(k_indices_ct234)(size_t* out, size_t* back){
  using namespace nm::literals;
  constexpr auto shape = nmtools_tuple{2_ct,3_ct,4_ct};
  meta::template_for<24>([&](auto k){
    auto r = ix::compute_indices(k, shape);
    out[3*decltype(k)::value + 0] = (size_t)nm::at(r, 0_ct); out[3*decltype(k)::value + 1] = (size_t)nm::at(r, 1_ct); out[3*decltype(k)::value + 2] = (size_t)nm::at(r, 2_ct);
    back[decltype(k)::value] = (size_t)ix::compute_offset(r, ix::compute_strides(shape));
  });
}
