// C09: the same operations instantiated on different container kinds / build configurations.
// This TU is compiled twice: default (std:: containers behind nmtools_array/nmtools_list/nmtools_tuple/nmtools_maybe)
// and with -DNMTOOLS_DISABLE_STL -DKSUFFIX=_utl (the library's own utl:: containers). It only uses the kind-agnostic macros.
#include "nmtools/array/ndarray.hpp"
#include "nmtools/array/index/compute_strides.hpp"
#include "nmtools/array/index/compute_offset.hpp"
#include "nmtools/array/index/compute_indices.hpp"
#include "nmtools/array/index/broadcast_shape.hpp"
#include "nmtools/array/index/reshape.hpp"
#include "nmtools/array/index/transpose.hpp"
#include "nmtools/array/index/remove_dims.hpp"
#include "nmtools/array/view/transpose.hpp"
#include "nmtools/array/view/sum.hpp"
#include "nmtools/array/view/repeat.hpp"
#include "nmtools/array/index/cumsum.hpp"
#include "nmtools/array/view/ufuncs/subtract.hpp"
namespace nm = nmtools; namespace ix = nm::index; namespace na = nm::array; namespace meta = nm::meta; namespace view = nm::view;
#ifndef KSUFFIX
#define KSUFFIX
#endif
#define KCAT2(a,b) a##b
#define KCAT(a,b) KCAT2(a,b)
#define K(name) KCAT(name,KSUFFIX)
#define KERNEL extern "C" __attribute__((noinline))
using namespace nm::literals;

template <typename C, typename T> static inline size_t put(const C& c, T* out){ size_t n = nm::len(c); for (size_t i=0;i<n;i++) out[i]=(T)nm::at(c,i); return n; }
template <typename R, typename T> static inline int put_maybe(const R& r, T* out, size_t* n){ if (!nm::has_value(r)) return 0; *n = put(nm::unwrap(r), out); return 1; }
template <size_t N> static inline nmtools_array<size_t,N> A(const size_t* p){ nmtools_array<size_t,N> s{}; for (size_t i=0;i<N;i++) nm::at(s,i)=p[i]; return s; }
static inline nmtools_list<size_t> L(const size_t* p, size_t n){ nmtools_list<size_t> s; s.resize(n); for (size_t i=0;i<n;i++) nm::at(s,i)=p[i]; return s; }
template <size_t N> static inline nmtools_static_vector<size_t,N> S(const size_t* p, size_t n){ nmtools_static_vector<size_t,N> s; s.resize(n); for (size_t i=0;i<n&&i<N;i++) nm::at(s,i)=p[i]; return s; }
template <size_t N> static inline nmtools_array<int,N> Ai(const int* p){ nmtools_array<int,N> s{}; for (size_t i=0;i<N;i++) nm::at(s,i)=p[i]; return s; }
static inline nmtools_list<int> Li(const int* p, size_t n){ nmtools_list<int> s; s.resize(n); for (size_t i=0;i<n;i++) nm::at(s,i)=p[i]; return s; }
template <size_t N> static inline nmtools_static_vector<int,N> Si(const int* p, size_t n){ nmtools_static_vector<int,N> s; s.resize(n); for (size_t i=0;i<n&&i<N;i++) nm::at(s,i)=p[i]; return s; }

// ---- index functions on shapes of dim 3: kind = 0 fixed array, 1 bounded static vector, 2 dynamic list, 3 tuple, 4 raw C array
KERNEL void K(k_c9_indices)(int kind, size_t off, const size_t* shape, size_t* out){
  switch (kind) {
    case 0: put(ix::compute_indices(off, A<3>(shape)), out); break;
    case 1: put(ix::compute_indices(off, S<4>(shape,3)), out); break;
    case 2: put(ix::compute_indices(off, L(shape,3)), out); break;
    case 3: { auto r = ix::compute_indices(off, nmtools_tuple<size_t,size_t,size_t>{shape[0],shape[1],shape[2]}); out[0]=nm::get<0>(r); out[1]=nm::get<1>(r); out[2]=nm::get<2>(r); } break;
    default: { size_t raw[3] = {shape[0],shape[1],shape[2]}; put(ix::compute_indices(off, raw), out); } break;
  }
}
KERNEL void K(k_c9_strides)(int kind, const size_t* shape, size_t* out){
  switch (kind) {
    case 0: put(ix::compute_strides(A<3>(shape)), out); break;
    case 1: put(ix::compute_strides(S<4>(shape,3)), out); break;
    case 2: put(ix::compute_strides(L(shape,3)), out); break;
    case 3: { auto r = ix::compute_strides(nmtools_tuple<size_t,size_t,size_t>{shape[0],shape[1],shape[2]}); out[0]=nm::get<0>(r); out[1]=nm::get<1>(r); out[2]=nm::get<2>(r); } break;
    default: { size_t raw[3] = {shape[0],shape[1],shape[2]}; put(ix::compute_strides(raw), out); } break;
  }
}
// broadcast_shape of two dim-3 / dim-2 shapes, kinds chosen independently per operand (0 array, 1 static vector, 2 list)
KERNEL int K(k_c9_bshape)(int ka, int kb, const size_t* a, const size_t* b, size_t* out, size_t* n){
  #define BS(X,Y) return put_maybe(ix::broadcast_shape(X,Y), out, n)
  if (ka==0 && kb==0) BS(A<3>(a),A<2>(b)); if (ka==0 && kb==1) BS(A<3>(a),S<4>(b,2)); if (ka==0 && kb==2) BS(A<3>(a),L(b,2));
  if (ka==1 && kb==0) BS(S<4>(a,3),A<2>(b)); if (ka==1 && kb==1) BS(S<4>(a,3),S<4>(b,2)); if (ka==1 && kb==2) BS(S<4>(a,3),L(b,2));
  if (ka==2 && kb==0) BS(L(a,3),A<2>(b)); if (ka==2 && kb==1) BS(L(a,3),S<4>(b,2)); BS(L(a,3),L(b,2));
  #undef BS
}
// shape_reshape: src dim 3, dst 2 signed entries
KERNEL int K(k_c9_reshape)(int ks, int kd, const size_t* s, const int* d, size_t* out, size_t* n){
  #define RS(X,Y) return put_maybe(ix::shape_reshape(X,Y), out, n)
  if (ks==0 && kd==0) RS(A<3>(s),Ai<2>(d)); if (ks==0 && kd==1) RS(A<3>(s),Si<4>(d,2)); if (ks==0 && kd==2) RS(A<3>(s),Li(d,2));
  if (ks==1 && kd==0) RS(S<4>(s,3),Ai<2>(d)); if (ks==1 && kd==1) RS(S<4>(s,3),Si<4>(d,2)); if (ks==1 && kd==2) RS(S<4>(s,3),Li(d,2));
  if (ks==2 && kd==0) RS(L(s,3),Ai<2>(d)); if (ks==2 && kd==1) RS(L(s,3),Si<4>(d,2)); RS(L(s,3),Li(d,2));
  #undef RS
}
// ---- array kinds: the same logical 2-d content in a fixed, a hybrid and a dynamic ndarray; transpose element and row-sum element
using fix_t = na::ndarray_t< nmtools_array<unsigned,6>, nmtools_tuple<meta::ct<2>,meta::ct<3>> >;
using hyb_t = na::ndarray_t< nmtools_static_vector<unsigned,6>, nmtools_array<size_t,2> >;
using dyn_t = na::ndarray_t< nmtools_list<unsigned>, nmtools_list<size_t> >;
template <typename V> static inline unsigned at2(const V& mv, size_t i, size_t j, size_t* os){ const auto& v = nm::unwrap(mv); auto s = nm::shape(v); os[0]=nm::at(s,0); os[1]=nm::at(s,1); return v(i,j); }
KERNEL int K(k_c9_transpose23)(int kind, const unsigned* d, size_t i, size_t j, size_t* os, unsigned* out){
  nmtools_array<int,2> ax{1,0};
  if (kind==0){ fix_t a; for (size_t k=0;k<6;k++) a.data_[k]=d[k]; *out = at2(view::transpose(a,ax),i,j,os); return 1; }
  if (kind==1){ hyb_t a; if(!a.resize((size_t)2,(size_t)3)) return 0; for (size_t k=0;k<6;k++) a.data_[k]=d[k]; *out = at2(view::transpose(a,ax),i,j,os); return 1; }
  dyn_t a; if(!a.resize((size_t)2,(size_t)3)) return 0; for (size_t k=0;k<6;k++) a.data_[k]=d[k]; *out = at2(view::transpose(a,ax),i,j,os); return 1;
}
KERNEL int K(k_c9_sum23)(int kind, const unsigned* d, int axis, size_t i, size_t* os, unsigned* out){
  #define SUM(a) { auto v = view::sum(a, axis); auto s = nm::shape(v); os[0]=nm::at(s,0); *out = v(i); return 1; }
  if (kind==0){ fix_t a; for (size_t k=0;k<6;k++) a.data_[k]=d[k]; SUM(a) }
  if (kind==1){ hyb_t a; if(!a.resize((size_t)2,(size_t)3)) return 0; for (size_t k=0;k<6;k++) a.data_[k]=d[k]; SUM(a) }
  dyn_t a; if(!a.resize((size_t)2,(size_t)3)) return 0; for (size_t k=0;k<6;k++) a.data_[k]=d[k]; SUM(a)
  #undef SUM
}
// ---- compile-time constants vs run-time values (types are enumerated; the run-time side is what the solver quantifies over)
// constant shape (2,3,4): strides / indices computed in the type system vs the run-time function on the same values
KERNEL void K(k_c9_const_strides234)(size_t* out){ auto r = ix::compute_strides(nmtools_tuple{2_ct,3_ct,4_ct}); out[0]=nm::at(r,0_ct); out[1]=nm::at(r,1_ct); out[2]=nm::at(r,2_ct); }
KERNEL int K(k_c9_const_bshape)(size_t* out, size_t* n){ auto r = ix::broadcast_shape(nmtools_tuple{2_ct,1_ct,4_ct}, nmtools_tuple{3_ct,1_ct}); return put_maybe(r,out,n); }
// (incompatible CONSTANT shapes are rejected at compile time - a type error, not observable at run time)
KERNEL int K(k_c9_mixed_bshape)(const size_t* b, size_t* out, size_t* n){ auto r = ix::broadcast_shape(nmtools_tuple{2_ct,1_ct,4_ct}, A<2>(b)); return put_maybe(r,out,n); }

// shape_reshape of a RUN-TIME source shape (kind ks: 0 array, 1 static vector, 2 list) to a compile-time CONSTANT target (2,3) / (3,-1 is not constant: only positive constants)
template <typename R> static inline int put_maybe_ct(const R& r, size_t* out, size_t* n){
  if (!nm::has_value(r)) return 0; const auto& v = nm::unwrap(r); constexpr auto N = meta::len_v<meta::remove_cvref_t<decltype(v)>>; *n = N;
  meta::template_for<N>([&](auto i){ out[i] = (size_t)nm::at(v,i); }); return 1; }
KERNEL int K(k_c9_reshape_ctdst)(int ks, const size_t* s, size_t* out, size_t* n){
  auto dst = nmtools_tuple{2_ct,3_ct};
  if (ks==0) return put_maybe_ct(ix::shape_reshape(A<3>(s), dst), out, n);
  if (ks==1) return put_maybe_ct(ix::shape_reshape(S<4>(s,3), dst), out, n);
  return put_maybe_ct(ix::shape_reshape(L(s,3), dst), out, n);
}
// all-constant source and target: folded in the type system
KERNEL int K(k_c9_reshape_ctct)(size_t* out, size_t* n){ return put_maybe_ct(ix::shape_reshape(nmtools_tuple{1_ct,3_ct,2_ct}, nmtools_tuple{2_ct,3_ct}), out, n); }

// ---- clipped (bounded) VALUES as arguments: per-element repeats of view::repeat given as a fixed array, a bounded static vector, or a tuple of clipped_size_t<3> holding the same run-time values
using rep_src_t = na::ndarray_t< nmtools_static_vector<unsigned,6>, nmtools_array<size_t,2> >;
template <typename V> static inline int rep_obs(const V& mv, size_t i, size_t j, size_t* os, unsigned* out){ if (!nm::has_value(mv)) return 0; const auto& v = nm::unwrap(mv); auto s = nm::shape(v); os[0]=nm::at(s,0); os[1]=nm::at(s,1); *out = v(i,j); return 1; }
KERNEL int K(k_c9_repeat3)(int kind, const unsigned* d, const size_t* reps, size_t i, size_t j, size_t* os, unsigned* out){
  rep_src_t a; if(!a.resize((size_t)3,(size_t)2)) return 0; for (size_t k=0;k<6;k++) a.data_[k]=d[k];
  if (kind==0) return rep_obs(view::repeat(a, A<3>(reps), 0), i, j, os, out);
  if (kind==1) return rep_obs(view::repeat(a, S<4>(reps,3), 0), i, j, os, out);
  using cl = nm::clipped_size_t<3>; nmtools_tuple<cl,cl,cl> r{cl(reps[0]), cl(reps[1]), cl(reps[2])};
  return rep_obs(view::repeat(a, r, 0), i, j, os, out);
}
// index::cumsum of the same three values in the three kinds
KERNEL void K(k_c9_cumsum3)(int kind, const size_t* v, size_t* out){
  if (kind==0) { put(ix::cumsum(A<3>(v)), out); return; }
  if (kind==1) { put(ix::cumsum(S<4>(v,3)), out); return; }
  using cl = nm::clipped_size_t<3>; nmtools_tuple<cl,cl,cl> r{cl(v[0]), cl(v[1]), cl(v[2])}; auto c = ix::cumsum(r);
  out[0] = (size_t)nm::get<0>(c); out[1] = (size_t)nm::get<1>(c); out[2] = (size_t)nm::get<2>(c);
}
