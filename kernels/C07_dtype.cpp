// C07 "dtype" family: element type / requested dtype of element-wise views and generators.
// Every kernel calls ONE nmtools view on operands of the stated element types and reports
//   tc[0]  code of the view's DECLARED element type (meta::get_element_type_t of the view),
//   tc[1]  code of the type operator() actually returns,
//   *outl / *outd  the element at the requested index widened to long (integer / bool results) or double (floating results).
// code = 2001 for bool, else (1000 if floating | 100 if signed integer | 0 if unsigned) + sizeof (same coding as kernels/C07_types.cpp).
#include "common.hpp"
#include "nmtools/array/view/ufuncs/add.hpp"
#include "nmtools/array/view/ufuncs/subtract.hpp"
#include "nmtools/array/view/ufuncs/multiply.hpp"
#include "nmtools/array/view/ufuncs/bitwise_and.hpp"
#include "nmtools/array/view/ufuncs/bitwise_or.hpp"
#include "nmtools/array/view/ufuncs/bitwise_xor.hpp"
#include "nmtools/array/view/ufuncs/left_shift.hpp"
#include "nmtools/array/view/ufuncs/right_shift.hpp"
#include "nmtools/array/view/ufuncs/less.hpp"
#include "nmtools/array/view/ufuncs/less_equal.hpp"
#include "nmtools/array/view/ufuncs/greater.hpp"
#include "nmtools/array/view/ufuncs/greater_equal.hpp"
#include "nmtools/array/view/ufuncs/equal.hpp"
#include "nmtools/array/view/ufuncs/not_equal.hpp"
#include "nmtools/array/view/full.hpp"
#include "nmtools/array/view/zeros.hpp"
#include "nmtools/array/view/ones.hpp"
#include "nmtools/array/view/eye.hpp"
#include "nmtools/array/view/identity.hpp"
#include "nmtools/array/view/arange.hpp"
#include "nmtools/array/view/full_like.hpp"
#include "nmtools/array/view/zeros_like.hpp"
#include "nmtools/array/view/ones_like.hpp"
#include "../harnesses/C07_dtype.def"
#include <type_traits>
namespace view = nm::view;
typedef signed char i8; typedef unsigned char u8; typedef short i16; typedef int i32; typedef unsigned u32; typedef long i64; typedef float f32; typedef double f64;
template <typename E> constexpr int tcode(){ using T = std::remove_cv_t<std::remove_reference_t<E>>;
  if constexpr (std::is_same_v<T,bool>) return 2001; else return (std::is_floating_point_v<T> ? 1000 : (std::is_signed_v<T> ? 100 : 0)) + (int)sizeof(T); }

// whole-buffer copies for the element types common.hpp has no named loop for (own names: harnesses bound them with --unwindset)
KERNEL void K(k_fill_dt16)(short* dst, const short* src, size_t n){ for (size_t i=0;i<n;i++) dst[i]=src[i]; }
KERNEL void K(k_fill_dtf64)(double* dst, const double* src, size_t n){ for (size_t i=0;i<n;i++) dst[i]=src[i]; }
static inline void cp(i8* d, const i8* s, size_t n){ K(k_fill_u8)((u8*)d,(const u8*)s,n); }
static inline void cp(u8* d, const u8* s, size_t n){ K(k_fill_u8)(d,s,n); }
static inline void cp(i16* d, const i16* s, size_t n){ K(k_fill_dt16)(d,s,n); }
static inline void cp(i32* d, const i32* s, size_t n){ K(k_fill_u32)((u32*)d,(const u32*)s,n); }
static inline void cp(u32* d, const u32* s, size_t n){ K(k_fill_u32)(d,s,n); }
static inline void cp(i64* d, const i64* s, size_t n){ K(k_fill_u64)((size_t*)d,(const size_t*)s,n); }
static inline void cp(f32* d, const f32* s, size_t n){ K(k_fill_f32)(d,s,n); }
static inline void cp(f64* d, const f64* s, size_t n){ K(k_fill_dtf64)(d,s,n); }
template <typename T, size_t CAP> static inline bool mkd1(hyb_t<T,CAP,1>& a, const size_t* s, const T* d){ if (!a.resize(s[0])) return false; cp(&a.data_[0], d, nm::size(a)); return true; }
template <typename T, size_t CAP> static inline bool mkd2(hyb_t<T,CAP,2>& a, const size_t* s, const T* d){ if (!a.resize(s[0],s[1])) return false; cp(&a.data_[0], d, nm::size(a)); return true; }

template <typename X> static inline void emit(const X& x, int* tc, long* outl, double* outd){
  tc[1] = tcode<X>();
  if constexpr (std::is_floating_point_v<X>) *outd = (double)x; else *outl = (long)x; }
// observe a (maybe-)view at a packed index: 0 = Nothing, 1 = ok, 2 = index length != dim
template <typename MV> static inline int obs(const MV& mv, const size_t* idx, size_t nidx, size_t* oshape, size_t* odim, int* tc, long* outl, double* outd){
  if (!nm::has_value(mv)) return 0;
  const auto& v = nm::unwrap(mv);
  using V = meta::remove_cvref_t<decltype(v)>;
  tc[0] = tcode<meta::get_element_type_t<V>>();
  *odim = put(nm::shape(v), oshape);
  if (nidx != *odim) return 2;
  emit(v(mk_sv<size_t,8>(idx, nidx)), tc, outl, outd);
  return 1;
}
#define OUTS const size_t* idx, size_t nidx, size_t* oshape, size_t* odim, int* tc, long* outl, double* outd
#define OUTA idx, nidx, oshape, odim, tc, outl, outd
#define DT_none nm::None
#define DT_i8  nm::int8
#define DT_u8  nm::uint8
#define DT_i16 nm::int16
#define DT_i32 nm::int32
#define DT_u32 nm::uint32
#define DT_i64 nm::int64
#define DT_f32 nm::float32
#define DT_f64 nm::float64
#define TY(DT) nm::get_dtype_t<meta::remove_cvref_t<decltype(DT_##DT)>>     /* the way reduce_add / outer_add derive the functor's result type from a dtype */
#define SIG2(TA,TB) const size_t* sa, const TA* da, const size_t* sb, const TB* db, OUTS
#define MK11(TA,TB) hyb_t<TA,4,1> a; hyb_t<TB,4,1> b; if (!mkd1(a,sa,da) || !mkd1(b,sb,db)) return -1;
#define MK21(TA,TB) hyb_t<TA,16,2> a; hyb_t<TB,4,1> b; if (!mkd2(a,sa,da) || !mkd1(b,sb,db)) return -1;

// The source is built once per part (-DDT_PART=n -> TU C07_dtype_<part>) so that a query only parses the kernels it calls.
#ifndef DT_PART
#define DT_PART 0
#endif
#define PART(n) (DT_PART == 0 || DT_PART == n)
#if PART(1) || PART(4)
// reference for a single IEEE operation: the bare C++ operator compiled by the same pipeline (no nmtools code); under -DLL_UF_FLOAT the translator
// turns + and - into the same uninterpreted symbols here and inside the views
KERNEL float K(k_dt_ref_add_f32)(float a, float b){ return a + b; }
KERNEL float K(k_dt_ref_subtract_f32)(float a, float b){ return a - b; }
KERNEL double K(k_dt_ref_add_f64)(double a, double b){ return a + b; }
KERNEL double K(k_dt_ref_subtract_f64)(double a, double b){ return a - b; }
#endif
#if PART(1)
// (3) outer_<op>(a[n], b[m], dtype)
#define K_OUTER(op,TA,TB,DT) KERNEL int K(k_dt_outer_##op##_##TA##_##TB##_##DT)(SIG2(TA,TB)){ MK11(TA,TB) return obs(view::outer_##op(a,b,DT_##DT), OUTA); }
#define G_OUTER(op,TA,TB) DT_LIST(K_OUTER,op,TA,TB)
DT_OUTER_GROUPS(G_OUTER)
#define G_OUTER_S(op,TA,TB) DT_LIST_S(K_OUTER,op,TA,TB)
DT_OUTER_SHIFT_GROUPS(G_OUTER_S)
// outer on float operands where the requested dtype is the C result type, and on 32-bit operands with a WIDER dtype
K_OUTER(add,f32,i16,f32) K_OUTER(subtract,f64,f32,f64) K_OUTER(add,u8,f32,f64)
K_OUTER(add,u32,u32,i64) K_OUTER(subtract,u32,u32,i64) K_OUTER(add,u32,u32,f64)
#endif
#if PART(2)
// (1) binary ufunc with the functor carrying the requested result type (what view::reduce_add / outer_add build from a dtype), broadcasting 2-d (op) 1-d
#define K_BIN(op,TA,TB,DT) KERNEL int K(k_dt_bin_##op##_##TA##_##TB##_##DT)(SIG2(TA,TB)){ MK21(TA,TB) \
  return obs(view::broadcast_binary_ufunc(view::op##_t<nm::none_t,nm::none_t,TY(DT)>{}, a, b), OUTA); }
#define G_BIN(op,TA,TB) DT_LIST(K_BIN,op,TA,TB)
DT_BIN_GROUPS(G_BIN)
// casting::SAME_KIND: view::add(a, b, SAME_KIND) keeps the (common) operand element type
#define K_SK(op,T) KERNEL int K(k_dt_sk_##op##_##T)(SIG2(T,T)){ MK21(T,T) return obs(view::op(a,b,nm::casting::SAME_KIND), OUTA); }
DT_SK_LIST(K_SK)
#endif
#if PART(3)
// (4) comparisons on mixed operands (1-d (op) 1-d with broadcasting)
#define K_CMP(op,TA,TB) KERNEL int K(k_dt_cmp_##op##_##TA##_##TB)(SIG2(TA,TB)){ MK11(TA,TB) return obs(view::op(a,b), OUTA); }
#define G_CMP(TA,TB) DT_CMP_OPS(K_CMP,TA,TB)
DT_CMP_GROUPS(G_CMP)
#endif
#if PART(4)
// (5) mixed element types, no dtype, 2-d (op) 1-d
#define K_MIX(op,TA,TB) KERNEL int K(k_dt_mix_##op##_##TA##_##TB)(SIG2(TA,TB)){ MK21(TA,TB) return obs(view::op(a,b), OUTA); }
DT_MIX_LIST(K_MIX)
DT_MIXF_LIST(K_MIX)
#endif
#if PART(5)
// (6) generators
#define K_FULL(T) KERNEL int K(k_dt_full_##T)(const size_t* shape, size_t dim, T value, OUTS){ return obs(view::full(mk_sv<size_t,4>(shape,dim), value), OUTA); }
DT_TYPES(K_FULL)
#define K_ZO(T) KERNEL int K(k_dt_zeros_##T)(const size_t* shape, size_t dim, OUTS){ return obs(view::zeros(mk_sv<size_t,4>(shape,dim), DT_##T), OUTA); } \
                KERNEL int K(k_dt_ones_##T)(const size_t* shape, size_t dim, OUTS){ return obs(view::ones(mk_sv<size_t,4>(shape,dim), DT_##T), OUTA); }
DT_TYPES(K_ZO)
#define K_EYE(T) KERNEL int K(k_dt_eye_##T)(size_t n, size_t m, int k, OUTS){ return obs(view::eye(n, m, k, DT_##T), OUTA); } \
                 KERNEL int K(k_dt_identity_##T)(size_t n, OUTS){ return obs(view::identity(n, DT_##T), OUTA); }
DT_TYPES(K_EYE)
// arange is indexed with a scalar
template <typename V> static inline int obs1(const V& v, size_t i, size_t* oshape, size_t* odim, int* tc, long* outl, double* outd){
  tc[0] = tcode<meta::get_element_type_t<V>>(); *odim = put(nm::shape(v), oshape); emit(v(i), tc, outl, outd); return 1; }
#define K_ARANGE(T) KERNEL int K(k_dt_arange_##T)(int start, int stop, int step, size_t i, size_t* oshape, size_t* odim, int* tc, long* outl, double* outd){ \
  return obs1(view::arange(start, stop, step, DT_##T), i, oshape, odim, tc, outl, outd); }
DT_ARANGE_TYPES(K_ARANGE)
K_ARANGE(f32) K_ARANGE(f64)
// arange without dtype: the documented default element type (float32)
KERNEL int K(k_dt_arange_default)(int start, int stop, int step, size_t i, size_t* oshape, size_t* odim, int* tc, long* outl, double* outd){
  return obs1(view::arange(start, stop, step), i, oshape, odim, tc, outl, outd); }
// *_like: prototype 2-d hybrid array of element type TA
#define K_FULL_LIKE(TA,TV,DT) KERNEL int K(k_dt_full_like_##TA##_##TV##_##DT)(const size_t* sa, const TA* da, TV value, OUTS){ hyb_t<TA,16,2> a; if (!mkd2(a,sa,da)) return -1; \
  return obs(view::full_like(a, value, DT_##DT), OUTA); }
DT_FULL_LIKE_LIST(K_FULL_LIKE)
#define K_LIKE(TA,DT) KERNEL int K(k_dt_zeros_like_##TA##_##DT)(const size_t* sa, const TA* da, OUTS){ hyb_t<TA,16,2> a; if (!mkd2(a,sa,da)) return -1; return obs(view::zeros_like(a, DT_##DT), OUTA); } \
                      KERNEL int K(k_dt_ones_like_##TA##_##DT)(const size_t* sa, const TA* da, OUTS){ hyb_t<TA,16,2> a; if (!mkd2(a,sa,da)) return -1; return obs(view::ones_like(a, DT_##DT), OUTA); }
DT_LIKE_LIST(K_LIKE)
// the two-argument forms (dtype parameter defaulted)
KERNEL int K(k_dt_full_like_i16_i64_default)(const size_t* sa, const i16* da, i64 value, OUTS){ hyb_t<i16,16,2> a; if (!mkd2(a,sa,da)) return -1; return obs(view::full_like(a, value), OUTA); }
KERNEL int K(k_dt_zeros_like_i16_default)(const size_t* sa, const i16* da, OUTS){ hyb_t<i16,16,2> a; if (!mkd2(a,sa,da)) return -1; return obs(view::zeros_like(a), OUTA); }
KERNEL int K(k_dt_ones_like_f32_default)(const size_t* sa, const f32* da, OUTS){ hyb_t<f32,16,2> a; if (!mkd2(a,sa,da)) return -1; return obs(view::ones_like(a), OUTA); }
#endif
