// C11, family "vt" (view types x operand kinds): every kernel builds ONE view over an operand of one static-knowledge kind and returns the
// compile-time traits of the view TYPE next to the run-time dim/size/shape of the object. Same reporting as C11_traits.cpp / C11_bcast.cpp, wider buffers:
//   t[0]=fixed_dim t[1]=fixed_size t[2]=bounded_dim t[3]=bounded_size t[4]=len(fixed_shape) t[5..12]=fixed_shape   ((size_t)-1: trait not reported)
//   rt[0]=dim rt[1]=size rt[2..9]=shape
// One translation unit per operand kind (KINDSEL): 1 B bounded dim (static_vector<size_t,3> shape, run-time dim 1..3, capacity 16), 2 H hybrid fixed dim 2 (capacity 16),
// 3 L clipped shape (clipped_size_t<4> x 2, capacity 16), 4 F fixed unsigned[2][3]. No logic: arguments are marshalled from the flat int array p (layout per view: harnesses/C11_vt.c).
// A (view, kind) pair that does not compile is switched off by SKIP_<view> in the kind's block below (reason next to it; listed in props/C11.py OUTSIDE).
#include "C10_k.hpp"
#include "nmtools/array/view/reshape.hpp"
#include "nmtools/array/view/moveaxis.hpp"
#include "nmtools/array/view/swapaxes.hpp"
#include "nmtools/array/view/squeeze.hpp"
#include "nmtools/array/view/repeat.hpp"
#include "nmtools/array/view/roll.hpp"
#include "nmtools/array/view/take.hpp"
#include "nmtools/array/view/concatenate.hpp"
#include "nmtools/array/view/stack.hpp"
#include "nmtools/array/view/hstack.hpp"
#include "nmtools/array/view/vstack.hpp"
#include "nmtools/array/view/pad.hpp"
#include "nmtools/array/view/slice.hpp"
#include "nmtools/array/view/broadcast_to.hpp"
#include "nmtools/array/view/sliding_window.hpp"
#include "nmtools/array/view/diagonal.hpp"
#include "nmtools/array/view/tril.hpp"
#include "nmtools/array/view/triu.hpp"
#include "nmtools/array/view/where.hpp"
#include "nmtools/array/view/sum.hpp"
#include "nmtools/array/view/cumsum.hpp"
#include "nmtools/array/view/trace.hpp"
#include "nmtools/array/view/flip.hpp"
#include "nmtools/array/view/transpose.hpp"
#include "nmtools/array/view/matmul.hpp"
#include "nmtools/array/view/kron.hpp"
#include "nmtools/array/view/ufuncs/add.hpp"
#include "nmtools/array/view/expand_dims.hpp"
#include "nmtools/array/view/atleast_nd.hpp"
#include "nmtools/array/view/tile.hpp"
#include "nmtools/array/view/expand.hpp"
#include "nmtools/array/view/resize.hpp"
#include "nmtools/array/view/compress.hpp"
#include "nmtools/array/view/diagflat.hpp"
#include "nmtools/array/view/dstack.hpp"
#include "nmtools/array/view/column_stack.hpp"
#include "nmtools/array/view/cumprod.hpp"
#include "nmtools/array/view/prod.hpp"
#include "nmtools/array/view/mean.hpp"
#ifndef KINDSEL
#define KINDSEL 0
#endif
static constexpr size_t NA = (size_t)-1;
template <typename T> static inline size_t tv(const T& v){ if constexpr (meta::is_fail_v<T>) return NA; else return (size_t)v; }
template <typename V> static inline void static_traits(size_t* t){
  constexpr auto fd = meta::fixed_dim_v<V>; constexpr auto fz = meta::fixed_size_v<V>;
  constexpr auto bd = meta::bounded_dim_v<V>; constexpr auto bz = meta::bounded_size_v<V>; constexpr auto fs = meta::fixed_shape_v<V>;
  t[0] = tv(fd); t[1] = tv(fz); t[2] = tv(bd); t[3] = tv(bz);
  if constexpr (meta::is_fail_v<decltype(fs)>) t[4] = NA;
  else { constexpr auto n = nm::len(fs); t[4] = n; meta::template_for<n>([&](auto i){ t[5 + decltype(i)::value] = (size_t)nm::at(fs, i); }); }
}
template <typename MV> static inline int stat_vs_run(const MV& mv, size_t* t, size_t* rt){
  if (!nm::has_value(mv)) return 0;
  const auto& v = nm::unwrap(mv); using view_t = meta::remove_cvref_t<decltype(v)>;
  static_traits<view_t>(t);
  rt[0] = (size_t)nm::dim(v);
  // a 0-d result over a fixed-dim operand (trace of a 2-d array) is a num view: shape(v) is None, nm::size is not defined for it -> size reported as NA
  if constexpr (nm::is_none_v<meta::remove_cvref_t<decltype(nm::shape(v))>>) rt[1] = NA;
  else { rt[1] = (size_t)nm::size(v); put(nm::shape(v), rt + 2); }
  return 1;
}
// marshalling of int arguments into index containers of the requested value type
template <typename T, size_t N> static inline utl::static_vector<T,N> sv_of(const int* p, size_t n){ utl::static_vector<T,N> s; s.resize(n); for (size_t i=0;i<n&&i<N;i++) s[i]=(T)p[i]; return s; }
template <typename T, size_t N> static inline std::array<T,N> arr_of(const int* p){ std::array<T,N> s{}; for (size_t i=0;i<N;i++) s[i]=(T)p[i]; return s; }

#define SIGT const size_t* shape, size_t dim, const unsigned* data, const int* p, size_t* t, size_t* rt
#if KINDSEL == 1
  using op_t = na::ndarray_t<na::static_vector<unsigned,16>, na::static_vector<size_t,3>>;
  #define MKA op_t a; if (!a.resize(mk_sv<size_t,3>(shape, dim))) return -1; fill(a, data);
  #define KN(name) k_vt_##name##_B
  #define AXES(q)   sv_of<int,3>(q, dim)            /* one entry per axis */
  #define WIDTHS(q) sv_of<size_t,6>(q, 2 * dim)     /* pad widths: before_0.. after_0.. */
  #define AXLIST(q) sv_of<int,3>((q) + 1, (size_t)(q)[0])
  #define DSTSHAPE(q) sv_of<size_t,3>(q, dim)     /* resize target: one extent per axis */
#elif KINDSEL == 2
  using op_t = hyb_t<unsigned,16,2>;
  #define MKA op_t a; if (!mk2(a, shape, data)) return -1; (void)dim;
  #define KN(name) k_vt_##name##_H
#elif KINDSEL == 3
  using op_t = na::ndarray_t<na::static_vector<unsigned,16>, nmtools_array<nm::clipped_size_t<4>,2>>;
  #define MKA op_t a; if (!a.resize(shape[0], shape[1])) return -1; fill(a, data); (void)dim;
  #define KN(name) k_vt_##name##_L
#elif KINDSEL == 4
  #define MKA unsigned a[2][3]; fill_n(&a[0][0], data, 6); (void)dim; (void)shape;
  #define KN(name) k_vt_##name##_F
#endif
#if KINDSEL >= 2
  #define AXES(q)   arr_of<int,2>(q)
  #define WIDTHS(q) arr_of<size_t,4>(q)
  #define AXLIST(q) sv_of<int,2>((q) + 1, (size_t)(q)[0])
  #define DSTSHAPE(q) arr_of<size_t,2>(q)
#endif

// ---- pairs that do not compile (compiler's reason) ----
#if KINDSEL == 1
#elif KINDSEL == 2
#elif KINDSEL == 3
  #define SKIP_stack 1        // index/expand_dims.hpp:65 conditional expression is ambiguous ('int' vs clipped_integer_t<unsigned long,0,4>)
  #define SKIP_sum_keep 1     // index/remove_dims.hpp:128 conditional expression is ambiguous ('int' vs clipped_integer_t<unsigned long,0,4>)
  #define SKIP_sum_nokeep 1   // same (index/remove_dims.hpp:128)
  #define SKIP_prod_keep 1    // same (index/remove_dims.hpp:128)
  #define SKIP_prod_nokeep 1  // same
  #define SKIP_mean_keep 1    // same
  #define SKIP_mean_nokeep 1  // same
  #define SKIP_expand_dims 1       // index/expand_dims.hpp:65 conditional expression is ambiguous ('int' vs clipped_integer_t<unsigned long,0,4>)
  #define SKIP_expand_dims_list 1  // same
  #define SKIP_atleast_nd1 1  // index/atleast_nd.hpp:82 no viable overloaded '=' (clipped_integer_t element assigned from the shape element)
  #define SKIP_atleast_nd3 1  // same
#elif KINDSEL == 4
#endif

#define ON(name) (!SKIP_##name)
#define VT(name, ...) KERNEL int K(KN(name))(SIGT){ MKA return stat_vs_run(__VA_ARGS__, t, rt); }
#if KINDSEL != 0
#if ON(reshape_a2)
VT(reshape_a2, view::reshape(a, arr_of<int,2>(p)))
#endif
#if ON(reshape_sv)
VT(reshape_sv, view::reshape(a, sv_of<int,4>(p + 1, (size_t)p[0])))
#endif
#if ON(moveaxis)
VT(moveaxis, view::moveaxis(a, p[0], p[1]))
#endif
#if ON(swapaxes)
VT(swapaxes, view::swapaxes(a, p[0], p[1]))
#endif
#if ON(squeeze)
VT(squeeze, view::squeeze(a))
#endif
#if ON(repeat)
VT(repeat, view::repeat(a, (size_t)p[0], p[1]))
#endif
#if ON(repeat_each)
VT(repeat_each, view::repeat(a, sv_of<size_t,4>(p + 1, (size_t)p[0]), p[5]))
#endif
#if ON(roll)
VT(roll, view::roll(a, p[0], p[1]))
#endif
#if ON(take)
VT(take, view::take(a, sv_of<int,4>(p + 1, (size_t)p[0]), p[5]))
#endif
#if ON(concatenate)
VT(concatenate, view::concatenate(a, a, p[0]))
#endif
#if ON(stack)
VT(stack, view::stack(a, a, p[0]))
#endif
#if ON(hstack)
VT(hstack, view::hstack(a, a))
#endif
#if ON(vstack)
VT(vstack, view::vstack(a, a))
#endif
#if ON(pad)
VT(pad, view::pad(a, WIDTHS(p), (unsigned)p[6]))
#endif
#if ON(slice)
VT(slice, view::slice(a, nm::Ellipsis, nmtools_tuple{p[0], p[1], p[2]}))
#endif
#if ON(broadcast_to)
VT(broadcast_to, view::broadcast_to(a, sv_of<size_t,3>(p + 1, (size_t)p[0])))
#endif
#if ON(sliding_window)
VT(sliding_window, view::sliding_window(a, (size_t)p[0], p[1]))
#endif
#if ON(diagonal)
VT(diagonal, view::diagonal(a, p[0], p[1], p[2]))
#endif
#if ON(tril)
VT(tril, view::tril(a, p[0]))
#endif
#if ON(triu)
VT(triu, view::triu(a, p[0]))
#endif
#if ON(where)
VT(where, view::where(a, a, a))
#endif
#if ON(sum_keep)
VT(sum_keep, view::sum(a, p[0], nm::None, nm::None, nm::True))
#endif
#if ON(sum_nokeep)
VT(sum_nokeep, view::sum(a, p[0], nm::None, nm::None, nm::False))
#endif
#if ON(cumsum)
VT(cumsum, view::cumsum(a, p[0]))
#endif
#if ON(trace)
VT(trace, view::trace(a, p[0], p[1], p[2]))
#endif
#if ON(flip_list)
VT(flip_list, view::flip(a, AXLIST(p)))
#endif
#if ON(transpose_axes)
VT(transpose_axes, view::transpose(a, AXES(p)))
#endif
#if ON(matmul)
VT(matmul, view::matmul(a, view::swapaxes(a, -1, -2)))
#endif
#if ON(outer_add)
VT(outer_add, view::outer_add(a, a))
#endif
#if ON(kron)
VT(kron, view::kron(a, a))
#endif
// ---- second batch ----
#if ON(expand_dims)
VT(expand_dims, view::expand_dims(a, p[0]))
#endif
#if ON(expand_dims_list)
VT(expand_dims_list, view::expand_dims(a, sv_of<int,2>(p + 1, (size_t)p[0])))
#endif
#if ON(atleast_nd1)
VT(atleast_nd1, view::atleast_nd(a, meta::ct_v<1>))
#endif
#if ON(atleast_nd3)
VT(atleast_nd3, view::atleast_nd(a, meta::ct_v<3>))
#endif
#if ON(tile_sv)
VT(tile_sv, view::tile(a, sv_of<size_t,3>(p + 1, (size_t)p[0])))
#endif
#if ON(expand)
VT(expand, view::expand(a, p[0], (size_t)p[1], 0u))
#endif
#if ON(resize)
VT(resize, view::resize(a, DSTSHAPE(p)))
#endif
#if ON(compress)
VT(compress, view::compress(sv_of<int,4>(p + 1, (size_t)p[0]), a, p[5]))
#endif
#if ON(diagflat)
VT(diagflat, view::diagflat(a, p[0]))
#endif
#if ON(dstack)
VT(dstack, view::dstack(a, a))
#endif
#if ON(column_stack)
VT(column_stack, view::column_stack(a, a))
#endif
#if ON(cumprod)
VT(cumprod, view::cumprod(a, p[0]))
#endif
#if ON(prod_keep)
VT(prod_keep, view::prod(a, p[0], nm::None, nm::None, nm::True))
#endif
#if ON(prod_nokeep)
VT(prod_nokeep, view::prod(a, p[0], nm::None, nm::None, nm::False))
#endif
#if ON(mean_keep)
VT(mean_keep, view::mean(a, p[0], nm::None, nm::True))
#endif
#if ON(mean_nokeep)
VT(mean_nokeep, view::mean(a, p[0], nm::None, nm::False))
#endif
#endif
