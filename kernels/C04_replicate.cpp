// C04: replicating views. Real code: index::shape_tile/tile, shape_repeat/repeat, shape_roll/roll, view::tile/repeat/roll
#include "C04_k.hpp"
#include "nmtools/array/index/tile.hpp"
#include "nmtools/array/index/repeat.hpp"
#include "nmtools/array/index/roll.hpp"
#include "nmtools/array/view/tile.hpp"
#include "nmtools/array/view/repeat.hpp"
#include "nmtools/array/view/roll.hpp"
// tile: reps is a bounded run-time list of 1..4 entries
#define TILE(D) KERNEL int K(k_tile##D)(ARGS_IN, const size_t* reps, size_t nr, ARGS_OUT){ MK(D); return OBSV(view::tile(a, mk_sv<size_t,4>(reps,nr))); }
FOR_DIMS4(TILE)
// repeat: scalar repeats, run-time axis / axis=None
#define REPEAT(D) KERNEL int K(k_repeat##D)(ARGS_IN, size_t repeats, int axis, ARGS_OUT){ MK(D); return OBSV(view::repeat(a, repeats, axis)); } \
  KERNEL int K(k_repeat_flat##D)(ARGS_IN, size_t repeats, ARGS_OUT){ MK(D); return observe_fixed<1>(view::repeat(a, repeats, nm::None), idx, oshape, odim, out); }
FOR_DIMS4(REPEAT)
// roll: run-time shift, run-time axis / axis=None
#define ROLL(D) KERNEL int K(k_roll##D)(ARGS_IN, int shift, int axis, ARGS_OUT){ MK(D); return OBSV(view::roll(a, shift, axis)); } \
  KERNEL int K(k_roll_flat##D)(ARGS_IN, int shift, ARGS_OUT){ MK(D); return OBSV(view::roll(a, shift, nm::None)); }
FOR_DIMS4(ROLL)
