// C10: eager evaluation (array::fn front ends, eval(view), eval into a caller-supplied output, column-major resolver)
// against the lazy view, and the composition law eval(outer(inner(a))) == outer(eval(inner(a))).
#include "C10_k.hpp"
#include "nmtools/array/view/reshape.hpp"
#include "nmtools/array/view/flatten.hpp"
#include "nmtools/array/view/transpose.hpp"
#include "nmtools/array/view/flip.hpp"
#include "nmtools/array/view/slice.hpp"
#include "nmtools/array/view/tile.hpp"
#include "nmtools/array/view/pad.hpp"
#include "nmtools/array/view/sum.hpp"
#include "nmtools/array/view/ufuncs/add.hpp"
#include "nmtools/array/view/ufuncs/multiply.hpp"
#include "nmtools/array/view/ufuncs/square.hpp"
#include "nmtools/array/array/transpose.hpp"
using a2_t = hyb_t<unsigned,16,2>;
#ifndef RES
#define RES 1
#endif
#if RES == 0      // array::eval(view) with its default resolver template argument (eval_t)
#define EVAL(mv) na::eval(mv)
#elif RES == 1    // the resolver every array::fn front end passes
#define EVAL(mv) na::eval(mv, nm::None, nm::None, na::RowMajorResolver)
#define RESOLVER na::RowMajorResolver
#else
#define EVAL(mv) na::eval(mv, nm::None, nm::None, na::ColumnMajorResolver)
#define RESOLVER na::ColumnMajorResolver
#endif
#define SIG const size_t* shape, const unsigned* data, const int* p, const size_t* idx, size_t nidx, size_t* lshape, size_t* ldim, unsigned* lval, size_t* eshape, size_t* edim, unsigned* ev
#define OUT idx, nidx, lshape, ldim, lval, eshape, edim, ev
// P(name, view-expression over `a` and the int parameters p[]): lazy view vs eval(view)
#define P(NAME, ...) KERNEL int K(k_ev_##NAME)(SIG){ a2_t a; if (!mk2(a,shape,data)) return -1; \
  auto mv = __VA_ARGS__; auto me = EVAL(mv); return lazy_eager(mv, me, OUT); }

// array::transpose front end vs view::transpose
#if RES != 0
KERNEL int K(k_front_transpose)(SIG){ a2_t a; if (!mk2(a,shape,data)) return -1;
  auto ax = mk_arr<int,2>(p); auto mv = view::transpose(a, ax); auto me = na::transpose(a, ax, nm::None, nm::None, RESOLVER); return lazy_eager(mv, me, OUT); }
#endif
P(transpose, view::transpose(a, mk_arr<int,2>(p)))
P(transpose_none, view::transpose(a))
P(reshape, view::reshape(a, mk_sv<int,4>(p+1, (size_t)p[0])))
P(flatten, view::flatten(a))
P(flip, view::flip(a, p[0]))
P(slice, view::slice(a, nmtools_tuple{p[0],p[1],p[2]}, nmtools_tuple{p[3],p[4]}))
P(tile, view::tile(a, mk_arr<int,2>(p)))
P(pad, view::pad(a, mk_arr<int,4>(p), (unsigned)p[4]))
P(square, view::square(a))
P(add_scalar, view::add(a, (unsigned)p[0]))
P(sum, view::sum(a, p[0]))
