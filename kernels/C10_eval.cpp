// C10: eager evaluation against the lazy view. Families (all through the real nmtools::array::eval / evaluator_t / resolver):
//   k_ev_<prog>   eval(view)                     vs the view
//   k_front_*     array::fn front end            vs the view
//   k_out_<prog>  eval(view, None, out) into a caller-supplied output of the right shape whose prior content is symbolic
//   k_cl_<prog>   eval(outer(inner(a)))          vs eval(outer(eval(inner(a))))      (composition law)
// RES selects the result resolver: 0 eval's default template argument (eval_t), 1 RowMajorResolver (what every array::fn
// front end passes), 2 ColumnMajorResolver. Programs: see harnesses/C10_dom.h (same names, same argument order in p[]).
#include "C10_k.hpp"
#include "nmtools/array/view/reshape.hpp"
#include "nmtools/array/view/flatten.hpp"
#include "nmtools/array/view/transpose.hpp"
#include "nmtools/array/view/flip.hpp"
#include "nmtools/array/view/slice.hpp"
#include "nmtools/array/view/tile.hpp"
#include "nmtools/array/view/pad.hpp"
#include "nmtools/array/view/sum.hpp"
#include "nmtools/array/view/ufuncs/add.hpp"
#include "nmtools/array/view/ufuncs/invert.hpp"
#include "nmtools/array/array/transpose.hpp"
#include "nmtools/array/array/flip.hpp"
#include "nmtools/array/array/sum.hpp"
#ifndef RES
#define RES 1
#endif
#if RES == 3   // default resolver over an operand of capacity 4: makes results larger than the operand's capacity reachable with extents <= 2
using a2_t = hyb_t<unsigned,4,2>;
#else
using a2_t = hyb_t<unsigned,16,2>;
#endif
#if RES == 0 || RES == 3
#define EVAL(mv) na::eval(mv)
#elif RES == 1
#define EVAL(mv) na::eval(mv, nm::None, nm::None, na::RowMajorResolver)
#define RESOLVER na::RowMajorResolver
#else
#define EVAL(mv) na::eval(mv, nm::None, nm::None, na::ColumnMajorResolver)
#define RESOLVER na::ColumnMajorResolver
#endif
static inline auto ax2(const int* p){ return mk_arr<int,2>(p); }
static inline auto ax4(const int* p){ return mk_arr<int,4>(p); }
static inline auto sl3(const int* p){ return nmtools_tuple{p[0],p[1],p[2]}; }
static inline auto sl2(const int* p){ return nmtools_tuple{p[0],p[1]}; }
#define SIG const size_t* shape, const unsigned* data, const int* p, const size_t* idx, size_t nidx, size_t* lshape, size_t* ldim, unsigned* lval, size_t* eshape, size_t* edim, unsigned* ev
#define OUT idx, nidx, lshape, ldim, lval, eshape, edim, ev
// depth-1 operations as expressions over an operand x and the argument pointer q
#define TRANSPOSE(x,q)  view::transpose(x, ax2(q))
#define RESHAPE(x,q)    view::reshape(x, ax2(q))
#define FLIP(x,q)       view::flip(x, (q)[0])
#define SLICE(x,q)      view::slice(x, sl3(q), sl2((q)+3))
#define TILE(x,q)       view::tile(x, ax2(q))
#define PAD(x,q)        view::pad(x, ax4(q), (unsigned)(q)[4])
#define INVERT(x,q)     view::invert(x)
#define ADDS(x,q)       view::add(x, (unsigned)(q)[0])
#define SUM(x,q)        view::sum(x, (q)[0])
#define FLATTEN(x,q)    view::flatten(x)
#define P(NAME, ...) KERNEL int K(k_ev_##NAME)(SIG){ a2_t a; if (!mk2(a,shape,data)) return -1; \
  auto mv = __VA_ARGS__; auto me = EVAL(mv); return lazy_eager(mv, me, OUT); }
// caller-supplied output of the result type, resized to the view's shape, buffer pre-filled with symbolic values
#define PO(NAME, ...) KERNEL int K(k_out_##NAME)(SIG, const unsigned* pre){ a2_t a; if (!mk2(a,shape,data)) return -1; \
  auto mv = __VA_ARGS__; if (!nm::has_value(mv)) return 0; const auto& v = nm::unwrap(mv); \
  using out_t = meta::remove_cvref_t<decltype(nm::unwrap(EVAL(mv)))>; out_t out; \
  if constexpr (meta::is_resizable_v<out_t>) nm::detail::apply_resize(out, nm::shape(v)); \
  fill_buf(out, pre); na::eval(v, nm::None, out); return lazy_eager(mv, out, OUT); }
// composition law: INNER evaluated to a concrete array first, OUTER applied to it and evaluated
#define PC(NAME, INNER, OUTER, QI, QO) KERNEL int K(k_cl_##NAME)(SIG){ a2_t a; if (!mk2(a,shape,data)) return -1; \
  auto once = EVAL(OUTER(INNER(a, p + QI), p + QO)); auto t = EVAL(INNER(a, p + QI)); auto twice = EVAL(OUTER(t, p + QO)); \
  return lazy_eager(once, twice, OUT); }

#if RES == 1 || RES == 2
KERNEL int K(k_front_transpose)(SIG){ a2_t a; if (!mk2(a,shape,data)) return -1;
  auto mv = view::transpose(a, ax2(p)); auto me = na::transpose(a, ax2(p), nm::None, nm::None, RESOLVER); return lazy_eager(mv, me, OUT); }
KERNEL int K(k_front_flip)(SIG){ a2_t a; if (!mk2(a,shape,data)) return -1;
  auto mv = view::flip(a, p[0]); auto me = na::flip(a, p[0], nm::None, nm::None, RESOLVER); return lazy_eager(mv, me, OUT); }
#endif
// ---- depth 1 ----
P(transpose, TRANSPOSE(a, p))
P(transpose_none, view::transpose(a))
P(reshape_b, view::reshape(a, mk_sv<int,4>(p+1, (size_t)p[0])))
P(reshape, RESHAPE(a, p))
P(flatten, FLATTEN(a, p))
P(flip, FLIP(a, p))
P(slice, SLICE(a, p))
P(tile, TILE(a, p))
P(pad, PAD(a, p))
P(invert, INVERT(a, p))
P(add_scalar, ADDS(a, p))
P(sum, SUM(a, p))
// ---- depth 2 ----
P(flip_transpose, FLIP(TRANSPOSE(a, p), p + 2))
P(reshape_flip, RESHAPE(FLIP(a, p), p + 1))
P(sum_transpose, SUM(TRANSPOSE(a, p), p + 2))
P(add_scalar_transpose, ADDS(TRANSPOSE(a, p), p + 2))
P(transpose_add_scalar, TRANSPOSE(ADDS(a, p), p + 1))
P(flatten_pad, FLATTEN(PAD(a, p), p))
P(invert_flip, INVERT(FLIP(a, p), p))
P(slice_transpose, SLICE(TRANSPOSE(a, p), p + 2))
P(transpose_slice, TRANSPOSE(SLICE(a, p), p + 5))
P(sum_add_scalar, SUM(ADDS(a, p), p + 1))
// ---- depth 3 ----
// view::flip does not accept a maybe-view operand (compile error): the inner maybe view is unwrapped by the kernel
#define PU(NAME, INNER, ...) KERNEL int K(k_ev_##NAME)(SIG){ a2_t a; if (!mk2(a,shape,data)) return -1; \
  auto mi = INNER; if (!nm::has_value(mi)) return 0; const auto& in = nm::unwrap(mi); \
  auto mv = __VA_ARGS__; auto me = EVAL(mv); return lazy_eager(mv, me, OUT); }
PU(invert_flip_reshape, RESHAPE(a, p), INVERT(FLIP(in, p + 2), p))
P(transpose_flip_slice, TRANSPOSE(FLIP(SLICE(a, p), p + 5), p + 6))
PU(reshape_flip_pad, PAD(a, p), RESHAPE(FLIP(in, p + 5), p + 6))
// ---- caller-supplied output ----
PO(transpose, TRANSPOSE(a, p))
PO(flip, FLIP(a, p))
PO(invert, INVERT(a, p))
#if RES == 1 || RES == 2   // eval's default resolver returns dynamic_ndarray for sum, for which nmtools::data is unsupported (no raw pre-fill possible)
PO(sum, SUM(a, p))
#endif
PO(flip_transpose, FLIP(TRANSPOSE(a, p), p + 2))
// ---- composition law ----
PC(flip_transpose, TRANSPOSE, FLIP, 0, 2)
PC(invert_flip, FLIP, INVERT, 0, 0)
PC(slice_transpose, TRANSPOSE, SLICE, 0, 2)
PC(sum_transpose, TRANSPOSE, SUM, 0, 2)
PC(transpose_add_scalar, ADDS, TRANSPOSE, 0, 1)

// 0-d result: reshape of a single-element array to the EMPTY shape (NumPy: a.reshape(()) for a.size == 1); the evaluated result must be 0-d and hold the element
P(reshape0, view::reshape(a, mk_sv<int,4>(p, (size_t)0)))
