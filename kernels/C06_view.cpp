// C06 (view level): view::broadcast_to and view::broadcast_arrays on hybrid arrays with symbolic data
#include "common.hpp"
#include "nmtools/array/view/broadcast_to.hpp"
#include "nmtools/array/view/broadcast_arrays.hpp"
namespace view = nm::view;
using b1_t = hyb_t<unsigned,4,1>; using b2_t = hyb_t<unsigned,16,2>; using b3_t = hyb_t<unsigned,27,3>;

// broadcast_to(array of fixed dim D, target shape): target container kinds static_vector / std::array / std::vector
#define VBT(D, NAME, MKDST) \
KERNEL int K(k_vbt##D##_##NAME)(const size_t* shape, const unsigned* data, const size_t* dst, size_t nd, const size_t* idx, size_t nidx, size_t* oshape, size_t* odim, unsigned* out){ \
  b##D##_t a; if (!mk##D(a,shape,data)) return -1; return observe(view::broadcast_to(a, MKDST), idx, nidx, oshape, odim, out); }
VBT(1, sv, (mk_sv<size_t,4>(dst,nd)))
VBT(2, sv, (mk_sv<size_t,4>(dst,nd)))
VBT(3, sv, (mk_sv<size_t,4>(dst,nd)))
VBT(1, arr3, (mk_arr<size_t,3>(dst)))
VBT(2, arr2, (mk_arr<size_t,2>(dst)))
VBT(2, arr3, (mk_arr<size_t,3>(dst)))
VBT(2, arr4, (mk_arr<size_t,4>(dst)))
VBT(3, arr3, (mk_arr<size_t,3>(dst)))
VBT(3, arr2, (mk_arr<size_t,2>(dst)))
VBT(2, vec, (mk_vec(dst,nd)))
// a number broadcast to a shape
KERNEL int K(k_vbt0_sv)(unsigned value, const size_t* dst, size_t nd, const size_t* idx, size_t nidx, size_t* oshape, size_t* odim, unsigned* out){
  return observe(view::broadcast_to(value, mk_sv<size_t,4>(dst,nd)), idx, nidx, oshape, odim, out); }

// broadcast_arrays: every operand is observed at the same index of the common shape
template <typename R> static inline int observe2(const R& mr, const size_t* idx, size_t nidx, size_t* oshape, size_t* odim, size_t* oshape2, size_t* odim2, unsigned* out){
  if (!nm::has_value(mr)) return 0;
  const auto& t = nm::unwrap(mr);
  int r0 = observe(nm::get<0>(t), idx, nidx, oshape, odim, &out[0]);
  int r1 = observe(nm::get<1>(t), idx, nidx, oshape2, odim2, &out[1]);
  return r0 == r1 ? r0 : 3; }
#define VBA(DA, DB) \
KERNEL int K(k_vba_##DA##_##DB)(const size_t* sa, const unsigned* da, const size_t* sb, const unsigned* db, const size_t* idx, size_t nidx, size_t* oshape, size_t* odim, size_t* oshape2, size_t* odim2, unsigned* out){ \
  b##DA##_t a; b##DB##_t b; if (!mk##DA(a,sa,da) || !mk##DB(b,sb,db)) return -1; \
  return observe2(view::broadcast_arrays(a, b), idx, nidx, oshape, odim, oshape2, odim2, out); }
VBA(1,1) VBA(1,2) VBA(2,1) VBA(2,2) VBA(2,3) VBA(3,2) VBA(3,1)
// three operands (2-d, 1-d, 3-d)
KERNEL int K(k_vba3_2_1_3)(const size_t* sa, const unsigned* da, const size_t* sb, const unsigned* db, const size_t* sc, const unsigned* dc, const size_t* idx, size_t nidx, size_t* oshape, size_t* odim, unsigned* out){
  b2_t a; b1_t b; b3_t c; if (!mk2(a,sa,da) || !mk1(b,sb,db) || !mk3(c,sc,dc)) return -1;
  auto mr = view::broadcast_arrays(a, b, c);
  if (!nm::has_value(mr)) return 0;
  const auto& t = nm::unwrap(mr); size_t s2[4], d2;
  int r0 = observe(nm::get<0>(t), idx, nidx, oshape, odim, &out[0]);
  int r1 = observe(nm::get<1>(t), idx, nidx, s2, &d2, &out[1]);
  int r2 = observe(nm::get<2>(t), idx, nidx, s2, &d2, &out[2]);
  return (r0 == r1 && r1 == r2) ? r0 : 3; }
