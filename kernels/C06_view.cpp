// C06 (view level): view::broadcast_to and view::broadcast_arrays on hybrid arrays with symbolic data
#include "common.hpp"
#include "nmtools/array/view/broadcast_to.hpp"
#include "nmtools/array/view/broadcast_arrays.hpp"
namespace view = nm::view;
