// C07 (b): per-op leaf kernels, float/double (and mixed int/float) dtypes. Same scheme as C07_leaf_int.cpp; float-valued results are
// returned widened to double (exact), integer/bool-valued ones widened to long.
#include "common.hpp"
#include "nmtools/array/view/ufuncs/negative.hpp"
#include "nmtools/array/view/ufuncs/positive.hpp"
#include "nmtools/array/view/ufuncs/square.hpp"
#include "nmtools/array/view/ufuncs/reciprocal.hpp"
#include "nmtools/array/view/ufuncs/logical_not.hpp"
#include "nmtools/array/view/ufuncs/fabs.hpp"
#include "nmtools/array/view/ufuncs/ceil.hpp"
#include "nmtools/array/view/ufuncs/floor.hpp"
#include "nmtools/array/view/ufuncs/trunc.hpp"
#include "nmtools/array/view/ufuncs/rint.hpp"
#include "nmtools/array/view/ufuncs/isnan.hpp"
#include "nmtools/array/view/ufuncs/isinf.hpp"
#include "nmtools/array/view/ufuncs/isfinite.hpp"
#include "nmtools/array/view/ufuncs/signbit.hpp"
#include "nmtools/array/view/ufuncs/sqrt.hpp"
#include "nmtools/array/view/ufuncs/cbrt.hpp"
#include "nmtools/array/view/ufuncs/exp.hpp"
#include "nmtools/array/view/ufuncs/exp2.hpp"
#include "nmtools/array/view/ufuncs/expm1.hpp"
#include "nmtools/array/view/ufuncs/log.hpp"
#include "nmtools/array/view/ufuncs/log2.hpp"
#include "nmtools/array/view/ufuncs/log10.hpp"
#include "nmtools/array/view/ufuncs/log1p.hpp"
#include "nmtools/array/view/ufuncs/sin.hpp"
#include "nmtools/array/view/ufuncs/cos.hpp"
#include "nmtools/array/view/ufuncs/tan.hpp"
#include "nmtools/array/view/ufuncs/sinh.hpp"
#include "nmtools/array/view/ufuncs/cosh.hpp"
#include "nmtools/array/view/ufuncs/tanh.hpp"
#include "nmtools/array/view/ufuncs/arcsin.hpp"
#include "nmtools/array/view/ufuncs/arccos.hpp"
#include "nmtools/array/view/ufuncs/arctan.hpp"
#include "nmtools/array/view/ufuncs/arcsinh.hpp"
#include "nmtools/array/view/ufuncs/arccosh.hpp"
#include "nmtools/array/view/ufuncs/arctanh.hpp"
#include "nmtools/array/view/ufuncs/add.hpp"
#include "nmtools/array/view/ufuncs/subtract.hpp"
#include "nmtools/array/view/ufuncs/multiply.hpp"
#include "nmtools/array/view/ufuncs/divide.hpp"
#include "nmtools/array/view/ufuncs/maximum.hpp"
#include "nmtools/array/view/ufuncs/minimum.hpp"
#include "nmtools/array/view/ufuncs/equal.hpp"
#include "nmtools/array/view/ufuncs/not_equal.hpp"
#include "nmtools/array/view/ufuncs/less.hpp"
#include "nmtools/array/view/ufuncs/less_equal.hpp"
#include "nmtools/array/view/ufuncs/greater.hpp"
#include "nmtools/array/view/ufuncs/greater_equal.hpp"
#include "nmtools/array/view/ufuncs/logical_and.hpp"
#include "nmtools/array/view/ufuncs/logical_or.hpp"
#include "nmtools/array/view/ufuncs/logical_xor.hpp"
#include "nmtools/array/view/ufuncs/fmax.hpp"
#include "nmtools/array/view/ufuncs/fmin.hpp"
#include "nmtools/array/view/ufuncs/fmod.hpp"
#include "nmtools/array/view/ufuncs/power.hpp"
#include "nmtools/array/view/ufuncs/arctan2.hpp"
#include "nmtools/array/view/ufuncs/hypot.hpp"
#include "nmtools/array/view/ufuncs/ldexp.hpp"
#include "../harnesses/C07_leaf.def"
namespace view = nm::view;
typedef signed char i8; typedef int i32; typedef unsigned u32; typedef long i64; typedef unsigned long u64; typedef float f32; typedef double f64;
#define P_i8 int
#define P_i32 int
#define P_u32 unsigned
#define P_i64 long
#define P_u64 unsigned long
#define P_f32 float
#define P_f64 double
template <typename O, typename V> static inline int get0(const V& mv, O* out){
  if (!nm::has_value(mv)) return 0;
  const auto& v = nm::unwrap(mv); *out = (O)v(0); return 1; }
#define UNKD(op, T) KERNEL int K(k_##op##_##T)(P_##T x, double* out){ nmtools_array<T,1> a{(T)x}; return get0(view::op(a), out); }
#define UNKL(op, T) KERNEL int K(k_##op##_##T)(P_##T x, long* out){ nmtools_array<T,1> a{(T)x}; return get0(view::op(a), out); }
#define BIKD(op, T, U) KERNEL int K(k_##op##_##T##_##U)(P_##T x, P_##U y, double* out){ nmtools_array<T,1> a{(T)x}; return get0(view::op(a,(U)y), out); }
#define BIKL(op, T, U) KERNEL int K(k_##op##_##T##_##U)(P_##T x, P_##U y, long* out){ nmtools_array<T,1> a{(T)x}; return get0(view::op(a,(U)y), out); }
// both operands one-element arrays (no scalar operand)
#define BIKD_AA(op, T, U) KERNEL int K(k_##op##_aa_##T##_##U)(P_##T x, P_##U y, double* out){ nmtools_array<T,1> a{(T)x}; nmtools_array<U,1> b{(U)y}; return get0(view::op(a,b), out); }
// all operands scalars: scalar_ufunc_t (no broadcasting, no buffers) - used for the IEEE arithmetic ops, whose solver cost is dominated by the float circuits
template <typename O, typename V> static inline int getnum(const V& v, O* out){ using E = meta::get_element_type_t<V>; E e = v; *out = (O)e; return 1; }
#define UNKD_S(op, T) KERNEL int K(k_##op##_s_##T)(P_##T x, double* out){ return getnum(view::op((T)x), out); }
#define BIKD_SS(op, T, U) KERNEL int K(k_##op##_ss_##T##_##U)(P_##T x, P_##U y, double* out){ return getnum(view::op((T)x,(U)y), out); }
#define YUAS(op) C07_FLT_TYPES(UNKD_S, op)
#define YBAS(op) C07_FLT_PAIRS(BIKD_SS, op)
// reference operations for the harness: the bare C++ operators (no nmtools code), compiled through the same pipeline
#define REFOP(n, T, TN, o) KERNEL T K(k_ref_##n##_##TN)(T a, T b){ return a o b; }
REFOP(fadd, float, f32, +) REFOP(fsub, float, f32, -) REFOP(fmul, float, f32, *) REFOP(fdiv, float, f32, /)
REFOP(fadd, double, f64, +) REFOP(fsub, double, f64, -) REFOP(fmul, double, f64, *) REFOP(fdiv, double, f64, /)
#define YUA(op) C07_FLT_TYPES(UNKD, op)
#define YUE(op) C07_MATH_TYPES(UNKD, op)
#define YUP(op) C07_MATH_TYPES(UNKL, op)
#define ZUT(op, cd, cf) C07_MATH_TYPES(UNKD, op)
#define YBA(op) C07_FLT_PAIRS(BIKD, op)
#define YBC(op) C07_FLT_PAIRS(BIKL, op)
#define ZBL(op, cd, cf) C07_FLT_PAIRS(BIKD_AA, op)
C07_FLT_UNOPS_ARITH(YUA)
C07_FLT_UNOPS_ARITH(YUAS)
C07_FLT_TYPES(UNKL, logical_not)
C07_FLT_UNOPS_EXACT(YUE)
C07_FLT_UNOPS_PRED(YUP)
C07_FLT_UNOPS_TRANS(ZUT)
C07_FLT_BINOPS_ARITH(YBA)
C07_FLT_BINOPS_ARITH(YBAS)
C07_FLT_BINOPS_CMP(YBC)
C07_FLT_BINOPS_LIB(ZBL)
C07_LDEXP_PAIRS(BIKD_AA, ldexp)
// maximum / minimum with both operands arrays (the functor on plain elements)
C07_FLT_PAIRS(BIKD_AA, maximum)
C07_FLT_PAIRS(BIKD_AA, minimum)
