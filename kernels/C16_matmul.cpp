// C16: matmul. index::shape_matmul on bounded shape vectors; view::matmul (v1, slicing) and view::matmulv2 (tile/reshape/transpose/
// multiply/sum pipeline) on hybrid uint8 operands of fixed dim (DA,DB). Kernels only marshal.
#include "common.hpp"
#include "nmtools/array/view/matmul.hpp"
namespace view = nm::view;
typedef unsigned char u8;
template <size_t D> using h_t = hyb_t<u8,16,D>;
template <typename A> static inline bool mkd(A& a, const size_t* s, const u8* d){
  constexpr size_t D = meta::len_v<decltype(a.shape_)>;
  if constexpr (D==1) return mk1(a,s,d); else if constexpr (D==2) return mk2(a,s,d); else if constexpr (D==3) return mk3(a,s,d); else return mk4(a,s,d);
}
#ifndef V2ONLY
KERNEL int K(k_shape_matmul)(const size_t* a, size_t na, const size_t* b, size_t nb, size_t* out, size_t* nout){
  auto r = ix::shape_matmul(mk_sv<size_t,4>(a,na), mk_sv<size_t,4>(b,nb));
  if (!nm::has_value(r)) return 0;
  *nout = put(nm::unwrap(r), out); return 1;
}
#endif
#define SIG const size_t* sa, const u8* da, const size_t* sb, const u8* db, const size_t* idx, size_t nidx, size_t* oshape, size_t* odim, u8* out
#ifndef V2ONLY
#define MM(DA,DB) KERNEL int K(k_matmul_##DA##DB)(SIG){ h_t<DA> a; h_t<DB> b; if (!mkd(a,sa,da) || !mkd(b,sb,db)) return -1; \
  return observe(view::matmul(a,b), idx, nidx, oshape, odim, out); }
MM(2,2) MM(3,2) MM(2,3) MM(3,3)      // rank-1 operands do not compile with fixed-dim operands in v1 (meta::range underflow): v2 only
#endif
#ifndef V1ONLY
#define MM2(DA,DB) KERNEL int K(k_matmulv2_##DA##DB)(SIG){ h_t<DA> a; h_t<DB> b; if (!mkd(a,sa,da) || !mkd(b,sb,db)) return -1; \
  return observe(view::matmulv2(a,b), idx, nidx, oshape, odim, out); }
MM2(2,2) MM2(1,2) MM2(2,1) MM2(3,2)
#endif

#ifndef V2ONLY
// operands of DIFFERENT element types: uint8 (values as given) on one side, unsigned short (value = 256 + byte, so that a result narrowed to 8 bits is visibly wrong) on the other;
// the element type of the product is the C common type (int after promotion): the sum is reported as unsigned 32-bit, *esz = sizeof(element type of the view)
static inline bool mk2w(hyb_t<unsigned short,16,2>& b, const size_t* s, const u8* d){ if (!b.resize(s[0],s[1])) return false; size_t n = nm::size(b); for (size_t i = 0; i < n && i < 16; i++) b.data_[i] = (unsigned short)(256 + d[i]); return true; }
KERNEL int K(k_matmul_mixed_nw)(const size_t* sa, const u8* da, const size_t* sb, const u8* db, const size_t* idx, size_t nidx, size_t* oshape, size_t* odim, unsigned* out, size_t* esz){
  h_t<2> a; hyb_t<unsigned short,16,2> b; if (!mkd(a,sa,da) || !mk2w(b,sb,db)) return -1; auto v = view::matmul(a,b);
  *esz = sizeof(meta::get_element_type_t<meta::remove_cvref_t<decltype(nm::unwrap(v))>>); return observe(v, idx, nidx, oshape, odim, out); }
KERNEL int K(k_matmul_mixed_wn)(const size_t* sa, const u8* da, const size_t* sb, const u8* db, const size_t* idx, size_t nidx, size_t* oshape, size_t* odim, unsigned* out, size_t* esz){
  hyb_t<unsigned short,16,2> a; h_t<2> b; if (!mk2w(a,sa,da) || !mkd(b,sb,db)) return -1; auto v = view::matmul(a,b);
  *esz = sizeof(meta::get_element_type_t<meta::remove_cvref_t<decltype(nm::unwrap(v))>>); return observe(v, idx, nidx, oshape, odim, out); }
#endif
