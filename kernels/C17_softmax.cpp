// C17 softmax / softmin ELEMENTS, structurally: float + - / and expf are uninterpreted symbols shared with the reference (-DLL_UF_FLOAT and the harness'
// definition of expf), so the query decides WHICH value is subtracted before exp (the maximum of the slice), which elements enter the sum and in which order.
#include "common.hpp"
#include "nmtools/array/view/softmax.hpp"
#include "nmtools/array/view/softmin.hpp"
namespace view = nm::view;
using f2_t = hyb_t<float,9,2>;
#define REFOP(n, o) KERNEL float K(k_ref_##n##_f32)(float a, float b){ return a o b; }
REFOP(fadd, +) REFOP(fsub, -) REFOP(fdiv, /)
KERNEL float K(k_ref_neg_f32)(float a){ return -a; }
KERNEL int K(k_softmax_el)(const size_t* s, const float* d, int axis, const size_t* idx, size_t* oshape, size_t* odim, float* out){
  f2_t x; if (!mk2(x,s,d)) return -1; return observe(view::softmax(x, axis), idx, 2, oshape, odim, out); }
KERNEL int K(k_softmin_el)(const size_t* s, const float* d, int axis, const size_t* idx, size_t* oshape, size_t* odim, float* out){
  f2_t x; if (!mk2(x,s,d)) return -1; return observe(view::softmin(x, axis), idx, 2, oshape, odim, out); }
