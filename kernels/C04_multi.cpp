// C04: list-valued arguments. view::repeat with per-element repeats, view::roll / sliding_window / expand over several axes
#include "C04_k.hpp"
#include "nmtools/array/view/repeat.hpp"
#include "nmtools/array/view/roll.hpp"
#include "nmtools/array/view/sliding_window.hpp"
#include "nmtools/array/view/expand.hpp"
// per-element repeats: bounded run-time list (one entry per element along axis), run-time axis
#define REPEAT_EACH(D) KERNEL int K(k_repeat_each##D)(ARGS_IN, const size_t* reps, size_t nr, int axis, ARGS_OUT){ MK(D); return OBSV(view::repeat(a, mk_sv<size_t,4>(reps,nr), axis)); }
FOR_DIMS4(REPEAT_EACH)
// two axes: (shift list, axis list) and (scalar shift, axis list)
#define ROLL2(D) KERNEL int K(k_roll_axes##D)(ARGS_IN, const int* shift, const int* axes, ARGS_OUT){ MK(D); return OBSV(view::roll(a, mk_arr<int,2>(shift), mk_arr<int,2>(axes))); } \
  KERNEL int K(k_roll_axes_scalar##D)(ARGS_IN, int shift, const int* axes, ARGS_OUT){ MK(D); return OBSV(view::roll(a, shift, mk_arr<int,2>(axes))); } \
  KERNEL int K(k_sliding_axes##D)(ARGS_IN, const size_t* window, const int* axes, ARGS_OUT){ MK(D); return OBSV(view::sliding_window(a, mk_arr<size_t,2>(window), mk_arr<int,2>(axes))); } \
  KERNEL int K(k_expand_axes##D)(ARGS_IN, const int* axes, const size_t* spacing, unsigned fill, ARGS_OUT){ MK(D); return OBSV(view::expand(a, mk_arr<int,2>(axes), mk_arr<size_t,2>(spacing), fill)); } \
  KERNEL int K(k_expand_axes_scalar##D)(ARGS_IN, const int* axes, size_t spacing, unsigned fill, ARGS_OUT){ MK(D); return OBSV(view::expand(a, mk_arr<int,2>(axes), spacing, fill)); }
ROLL2(2) ROLL2(3)
