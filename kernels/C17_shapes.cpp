// C17 (structural): result SHAPES of softmax/softmin, the normalisations, linear/bilinear and the distance routines on hybrid float
// operands with run-time extents. Only the view is constructed and its shape read: no float arithmetic is evaluated.
#include "common.hpp"
#include "nmtools/array/view/softmax.hpp"
#include "nmtools/array/view/softmin.hpp"
#include "nmtools/array/view/batch_norm.hpp"
#include "nmtools/array/view/layer_norm.hpp"
#include "nmtools/array/view/instance_norm.hpp"
#include "nmtools/array/view/group_norm.hpp"
#include "nmtools/array/view/linear.hpp"
#include "nmtools/array/view/bilinear.hpp"
#include "nmtools/array/view/pairwise_distance.hpp"
#include "nmtools/array/view/cosine_similarity.hpp"
namespace view = nm::view;
template <size_t D> using f_t = hyb_t<float,36,D>;
template <typename V> static inline int shape_of(const V& mv, size_t* oshape, size_t* odim){
  if (!nm::has_value(mv)) return 0;
  *odim = put(nm::shape(nm::unwrap(mv)), oshape); return 1;
}
#define OUTS size_t* oshape, size_t* odim
KERNEL int K(k_softmax_shape)(const size_t* s, int axis, OUTS){ f_t<2> x; if (!x.resize(s[0],s[1])) return -1; return shape_of(view::softmax(x, axis), oshape, odim); }
KERNEL int K(k_softmin_shape)(const size_t* s, int axis, OUTS){ f_t<2> x; if (!x.resize(s[0],s[1])) return -1; return shape_of(view::softmin(x, axis), oshape, odim); }
KERNEL int K(k_linear_shape)(const size_t* sx, const size_t* sw, OUTS){ f_t<2> x, w; f_t<1> b; if (!x.resize(sx[0],sx[1]) || !w.resize(sw[0],sw[1]) || !b.resize(sw[0])) return -1;
  return shape_of(view::linear(x, w, b), oshape, odim); }
KERNEL int K(k_bilinear_shape)(const size_t* sl, const size_t* sr, const size_t* sw, OUTS){ f_t<2> l, r; f_t<3> w; f_t<1> b;
  if (!l.resize(sl[0],sl[1]) || !r.resize(sr[0],sr[1]) || !w.resize(sw[0],sw[1],sw[2]) || !b.resize(sw[0])) return -1;
  return shape_of(view::bilinear(l, r, w, b), oshape, odim); }
KERNEL int K(k_pairwise_distance_shape)(const size_t* sl, const size_t* sr, OUTS){ f_t<2> l, r; if (!l.resize(sl[0],sl[1]) || !r.resize(sr[0],sr[1])) return -1;
  return shape_of(view::pairwise_distance(l, r), oshape, odim); }
KERNEL int K(k_cosine_similarity_shape)(const size_t* sl, const size_t* sr, OUTS){ f_t<2> l, r; if (!l.resize(sl[0],sl[1]) || !r.resize(sr[0],sr[1])) return -1;
  return shape_of(view::cosine_similarity(l, r), oshape, odim); }
// normalisations on (N,C,H,W) with per-channel parameters (C)
KERNEL int K(k_batch_norm_shape)(const size_t* s, OUTS){ f_t<4> x; f_t<1> m, v, w, b; size_t C = s[1];
  if (!x.resize(s[0],s[1],s[2],s[3]) || !m.resize(C) || !v.resize(C) || !w.resize(C) || !b.resize(C)) return -1;
  return shape_of(view::batch_norm(x, m, v, w, b), oshape, odim); }
KERNEL int K(k_instance_norm_shape)(const size_t* s, OUTS){ f_t<4> x; f_t<1> w, b; size_t C = s[1];
  if (!x.resize(s[0],s[1],s[2],s[3]) || !w.resize(C) || !b.resize(C)) return -1;
  return shape_of(view::instance_norm(x, w, b, meta::ct_v<2>), oshape, odim); }
KERNEL int K(k_group_norm_shape)(const size_t* s, size_t groups, OUTS){ f_t<4> x; f_t<1> w, b; size_t C = s[1];
  if (!x.resize(s[0],s[1],s[2],s[3]) || !w.resize(C) || !b.resize(C)) return -1;
  return shape_of(view::group_norm(x, groups, w, b), oshape, odim); }
// layer_norm over the last two axes: weight/bias have the normalized shape (H,W)
KERNEL int K(k_layer_norm_shape)(const size_t* s, OUTS){ f_t<4> x; f_t<2> w, b;
  if (!x.resize(s[0],s[1],s[2],s[3]) || !w.resize(s[2],s[3]) || !b.resize(s[2],s[3])) return -1;
  return shape_of(view::layer_norm(x, w, b), oshape, odim); }
