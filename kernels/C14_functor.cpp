// C14: functor call / curry splits / composition / extraction against the direct view. Kernels only build the variants and
// observe each (has_value, dim, shape, element at the same symbolic index); the harness asserts that all variants agree.
#include "C10_k.hpp"
#include "nmtools/array/functional.hpp"
#include "nmtools/array/functional/transpose.hpp"
#include "nmtools/array/functional/reshape.hpp"
#include "nmtools/array/functional/flip.hpp"
#include "nmtools/array/functional/slice.hpp"
#include "nmtools/array/functional/sum.hpp"
#include "nmtools/array/functional/ufuncs/add.hpp"
#include "nmtools/array/functional/ufuncs/subtract.hpp"
#include "nmtools/array/functional/ufuncs/multiply.hpp"
#include "nmtools/array/functional/ufuncs/invert.hpp"
#include "nmtools/array/view/transpose.hpp"
#include "nmtools/array/view/reshape.hpp"
#include "nmtools/array/view/flip.hpp"
#include "nmtools/array/view/slice.hpp"
#include "nmtools/array/view/sum.hpp"
#include "nmtools/array/view/ufuncs/add.hpp"
#include "nmtools/array/view/ufuncs/subtract.hpp"
#include "nmtools/array/view/ufuncs/multiply.hpp"
#include "nmtools/array/view/ufuncs/invert.hpp"
namespace fn = nm::functional;
using a2_t = hyb_t<unsigned,16,2>;
static inline auto ax2(const int* p){ return mk_arr<int,2>(p); }
static inline auto sl3(const int* p){ return nmtools_tuple{p[0],p[1],p[2]}; }
static inline auto sl2(const int* p){ return nmtools_tuple{p[0],p[1]}; }
// variant k: rc[k] (0 Nothing, 1 ok, 2 index length != dim, 3 index outside shape), dims[k], shapes[4k..], vals[k]
template <typename MV> static inline void var(int k, const MV& mv, const size_t* idx, size_t nidx, int* rc, size_t* dims, size_t* shapes, unsigned* vals){
  if (!nm::has_value(mv)) { rc[k] = 0; return; }
  const auto& v = nm::unwrap(mv);
  dims[k] = put(nm::shape(v), shapes + 4*k);
  if (nidx != dims[k]) { rc[k] = 2; return; }
  if (!idx_inside(idx, nidx, nm::shape(v))) { rc[k] = 3; return; }
  vals[k] = (unsigned)nm::apply_at(v, mk_sv<size_t,8>(idx, nidx)); rc[k] = 1;
}
#define OUTS const size_t* idx, size_t nidx, int* rc, size_t* dims, size_t* shapes, unsigned* vals
#define V(k, ...) var(k, __VA_ARGS__, idx, nidx, rc, dims, shapes, vals)
// unary functor with attributes: view, functor[attrs](a), extracted composition called on the leaf, fn::apply on the extracted operands;
// same[0] = extracted operand 0 is the address of the leaf
#define UNARY(NAME, VIEW, FUNCTOR) KERNEL int K(k_fn_##NAME)(const size_t* shape, const unsigned* data, const int* p, OUTS, int* same){ \
  a2_t a; if (!mk2(a,shape,data)) return -1; \
  auto mv = VIEW; V(0, mv); V(1, FUNCTOR(a)); if (!nm::has_value(mv)) return 0; const auto& v = nm::unwrap(mv); \
  auto f = fn::get_function_composition(v); const auto& ops = fn::get_function_operands(v); \
  V(2, f(a)); V(3, fn::apply(f, ops)); same[0] = (nm::get<0>(nm::unwrap(ops)) == &a); return 4; }
UNARY(transpose, view::transpose(a, ax2(p)), fn::transpose[ax2(p)])
UNARY(reshape, view::reshape(a, ax2(p)), fn::reshape[ax2(p)])
UNARY(flip, view::flip(a, p[0]), fn::flip[p[0]])
UNARY(slice, view::slice(a, sl3(p), sl2(p+3)), fn::slice[sl3(p)][sl2(p+3)])
UNARY(invert, view::invert(a), fn::invert)   // (square/multiply make the equivalence check a multiplier-equivalence problem: no verdict in 300 s)
// the same with one variant per kernel for operations whose four variants in one query do not return (reductions)
#define UNARYV(NAME, VAR, VIEW, ...) KERNEL int K(k_fn_##NAME##_##VAR)(const size_t* shape, const unsigned* data, const int* p, OUTS, int* same){ \
  a2_t a; if (!mk2(a,shape,data)) return -1; \
  auto mv = VIEW; V(0, mv); if (!nm::has_value(mv)) return 0; const auto& v = nm::unwrap(mv); \
  auto f = fn::get_function_composition(v); const auto& ops = fn::get_function_operands(v); \
  V(1, __VA_ARGS__); same[0] = (nm::get<0>(nm::unwrap(ops)) == &a); return 2; }
UNARYV(sum, 1, view::sum(a, p[0]), fn::sum[p[0]](a))
UNARYV(sum, 2, view::sum(a, p[0]), fn::reduce_add[p[0]](a))
UNARYV(sum, 3, view::sum(a, p[0]), f(a))
UNARYV(sum, 4, view::sum(a, p[0]), fn::apply(f, ops))
// binary functor, one variant per kernel (all six in one query ran out of memory): 1 all at once, 2 curried one at a time,
// 3 extracted composition all at once, 4 extracted composition curried, 5 fn::apply on the extracted operands;
// same[] = extracted operands are the addresses of the leaves, in order
#define BINARY(NAME, VAR, ...) KERNEL int K(k_fn_##NAME##_##VAR)(const size_t* shape, const unsigned* da, const unsigned* db, OUTS, int* same){ \
  a2_t a, b; if (!mk2(a,shape,da) || !mk2(b,shape,db)) return -1; \
  auto mv = view::NAME(a, b); V(0, mv); if (!nm::has_value(mv)) return 0; const auto& v = nm::unwrap(mv); \
  auto f = fn::get_function_composition(v); const auto& ops = fn::get_function_operands(v); \
  V(1, __VA_ARGS__); \
  same[0] = (nm::get<0>(nm::unwrap(ops)) == &a); same[1] = (nm::get<1>(nm::unwrap(ops)) == &b); return 2; }
#define BINARY_ALL(NAME) BINARY(NAME, 1, fn::NAME(a, b)) BINARY(NAME, 2, fn::NAME(a)(b)) BINARY(NAME, 3, f(a, b)) BINARY(NAME, 4, f(a)(b)) BINARY(NAME, 5, fn::apply(f, ops))
BINARY_ALL(add)
BINARY_ALL(subtract)

// ---- composition ----
// (f*g)(a) == f(g(a)) == the nested view == the composition extracted from the nested view
KERNEL int K(k_comp2)(const size_t* shape, const unsigned* data, const int* p, OUTS, int* same){
  a2_t a; if (!mk2(a,shape,data)) return -1;
  auto g = fn::transpose[ax2(p)]; auto f = fn::flip[p[2]];
  auto mv = view::flip(view::transpose(a, ax2(p)), p[2]); V(0, mv); V(1, (f * g)(a)); V(2, f(g(a)));
  if (!nm::has_value(mv)) return 0; const auto& v = nm::unwrap(mv);
  auto c = fn::get_function_composition(v); const auto& ops = fn::get_function_operands(v);
  V(3, c(a)); V(4, fn::apply(c, ops)); same[0] = (nm::get<0>(nm::unwrap(ops)) == &a); return 5; }
// both parenthesisations of a 3-functor chain
KERNEL int K(k_comp3)(const size_t* shape, const unsigned* data, const int* p, OUTS, int* same){
  a2_t a; if (!mk2(a,shape,data)) return -1;
  auto h = fn::transpose[ax2(p)]; auto g = fn::flip[p[2]]; auto f = fn::invert;
  auto mv = view::invert(view::flip(view::transpose(a, ax2(p)), p[2])); V(0, mv);
  V(1, (f * (g * h))(a)); V(2, ((f * g) * h)(a)); V(3, (f * g * h)(a)); V(4, f(g(h(a))));
  if (!nm::has_value(mv)) return 0; const auto& v = nm::unwrap(mv);
  auto c = fn::get_function_composition(v); const auto& ops = fn::get_function_operands(v);
  V(5, c(a)); same[0] = (nm::get<0>(nm::unwrap(ops)) == &a); return 6; }
// every parenthesisation of a 4-functor chain f*g*h*k (k innermost): invert(flip(transpose(flip(a, p[3])), p[2])); in particular (f*g)*(h*k), where both sides of one * are compositions
KERNEL int K(k_comp4)(const size_t* shape, const unsigned* data, const int* p, OUTS, int* same){
  a2_t a; if (!mk2(a,shape,data)) return -1;
  auto k = fn::flip[p[3]]; auto h = fn::transpose[ax2(p)]; auto g = fn::flip[p[2]]; auto f = fn::invert;
  auto mv = view::invert(view::flip(view::transpose(view::flip(a, p[3]), ax2(p)), p[2])); V(0, mv);
  V(1, ((f * g) * (h * k))(a)); V(2, (f * (g * (h * k)))(a)); V(3, (((f * g) * h) * k)(a)); V(4, (f * g * h * k)(a)); V(5, ((f * (g * h)) * k)(a)); V(6, f(g(h(k(a)))));
  same[0] = 1; return 7; }
// a reduction as the outer functor of a composition
KERNEL int K(k_comp_sum)(const size_t* shape, const unsigned* data, const int* p, OUTS, int* same){
  a2_t a; if (!mk2(a,shape,data)) return -1;
  auto mv = view::sum(view::invert(a), p[0]); V(0, mv); V(1, (fn::sum[p[0]] * fn::invert)(a));
  if (!nm::has_value(mv)) return 0; const auto& v = nm::unwrap(mv);
  const auto& ops = fn::get_function_operands(v); same[0] = (nm::get<0>(nm::unwrap(ops)) == &a); return 2; }
// a binary functor inside a composition: as the inner functor (both operands consumed by it) and as the outer functor
// (the inner unary functor consumes the first operand, the remaining operand is passed on)
#define COMPB(NAME, VIEW, ...) KERNEL int K(k_compb_##NAME)(const size_t* shape, const unsigned* da, const unsigned* db, OUTS, int* same){ \
  a2_t a, b; if (!mk2(a,shape,da) || !mk2(b,shape,db)) return -1; \
  auto mv = VIEW; V(0, mv); V(1, __VA_ARGS__); if (!nm::has_value(mv)) return 0; const auto& v = nm::unwrap(mv); \
  const auto& ops = fn::get_function_operands(v); \
  same[0] = (nm::get<0>(nm::unwrap(ops)) == &a); same[1] = (nm::get<1>(nm::unwrap(ops)) == &b); return 2; }
COMPB(inner, view::invert(view::subtract(a, b)), (fn::invert * fn::subtract)(a, b))
COMPB(inner_curry, view::invert(view::subtract(a, b)), (fn::invert * fn::subtract)(a)(b))
COMPB(outer, view::subtract(view::invert(a), b), (fn::subtract * fn::invert)(a, b))
COMPB(extract, view::subtract(view::invert(a), b), fn::get_function_composition(nm::unwrap(mv))(a, b))
// extraction + re-application (fn::apply on the extracted operands) for binary views whose FIRST operand is a sub-view: a ufunc view, a non-ufunc view (flip)
COMPB(extract_apply, view::subtract(view::invert(a), b), fn::apply(fn::get_function_composition(nm::unwrap(mv)), fn::get_function_operands(nm::unwrap(mv))))
COMPB(extract_apply_flip, view::subtract(view::flip(a, 1), b), fn::apply(fn::get_function_composition(nm::unwrap(mv)), fn::get_function_operands(nm::unwrap(mv))))
// the sub-view is the SECOND operand: b - ~a
KERNEL int K(k_compb_extract_second)(const size_t* shape, const unsigned* da, const unsigned* db, OUTS, int* same){
  a2_t a, b; if (!mk2(a,shape,da) || !mk2(b,shape,db)) return -1;
  auto mv = view::subtract(b, view::invert(a)); V(0, mv); if (!nm::has_value(mv)) return 0; const auto& v = nm::unwrap(mv);
  V(1, fn::apply(fn::get_function_composition(v), fn::get_function_operands(v)));
  const auto& ops = fn::get_function_operands(v); same[0] = (int)meta::len_v<meta::remove_cvref_t<decltype(nm::unwrap(ops))>>; return 2; }
// extraction from a depth-2 view with a repeated leaf: (a+b)-a has three operand occurrences; only the addresses are observed
KERNEL int K(k_extract_repeated)(const size_t* shape, const unsigned* da, const unsigned* db, int* same){
  a2_t a, b; if (!mk2(a,shape,da) || !mk2(b,shape,db)) return -1;
  auto mv = view::subtract(view::add(a, b), a); if (!nm::has_value(mv)) return 0; const auto& v = nm::unwrap(mv);
  const auto& mops = fn::get_function_operands(v); const auto& ops = nm::unwrap(mops);
  same[0] = (int)meta::len_v<meta::remove_cvref_t<decltype(ops)>>;
  same[1] = (nm::get<0>(ops) == &a); same[2] = (nm::get<1>(ops) == &b); same[3] = (nm::get<2>(ops) == &a); return 1; }
