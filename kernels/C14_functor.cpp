// C14: functor call / curry splits / composition / extraction against the direct view. Kernels only build the variants and
// observe each (has_value, dim, shape, element at the same symbolic index); the harness asserts that all variants agree.
#include "C10_k.hpp"
#include "nmtools/array/functional.hpp"
#include "nmtools/array/functional/transpose.hpp"
#include "nmtools/array/functional/reshape.hpp"
#include "nmtools/array/functional/flip.hpp"
#include "nmtools/array/functional/slice.hpp"
#include "nmtools/array/functional/sum.hpp"
#include "nmtools/array/functional/ufuncs/add.hpp"
#include "nmtools/array/functional/ufuncs/subtract.hpp"
#include "nmtools/array/functional/ufuncs/multiply.hpp"
#include "nmtools/array/functional/ufuncs/invert.hpp"
#include "nmtools/array/view/transpose.hpp"
#include "nmtools/array/view/reshape.hpp"
#include "nmtools/array/view/flip.hpp"
#include "nmtools/array/view/slice.hpp"
#include "nmtools/array/view/sum.hpp"
#include "nmtools/array/view/ufuncs/add.hpp"
#include "nmtools/array/view/ufuncs/subtract.hpp"
#include "nmtools/array/view/ufuncs/multiply.hpp"
#include "nmtools/array/view/ufuncs/invert.hpp"
namespace fn = nm::functional;
using a2_t = hyb_t<unsigned,16,2>;
static inline auto ax2(const int* p){ return mk_arr<int,2>(p); }
static inline auto sl3(const int* p){ return nmtools_tuple{p[0],p[1],p[2]}; }
static inline auto sl2(const int* p){ return nmtools_tuple{p[0],p[1]}; }
// variant k: rc[k] (0 Nothing, 1 ok, 2 index length != dim, 3 index outside shape), dims[k], shapes[4k..], vals[k]
template <typename MV> static inline void var(int k, const MV& mv, const size_t* idx, size_t nidx, int* rc, size_t* dims, size_t* shapes, unsigned* vals){
  if (!nm::has_value(mv)) { rc[k] = 0; return; }
  const auto& v = nm::unwrap(mv);
  dims[k] = put(nm::shape(v), shapes + 4*k);
  if (nidx != dims[k]) { rc[k] = 2; return; }
  if (!idx_inside(idx, nidx, nm::shape(v))) { rc[k] = 3; return; }
  vals[k] = (unsigned)nm::apply_at(v, mk_sv<size_t,8>(idx, nidx)); rc[k] = 1;
}
#define OUTS const size_t* idx, size_t nidx, int* rc, size_t* dims, size_t* shapes, unsigned* vals
#define V(k, ...) var(k, __VA_ARGS__, idx, nidx, rc, dims, shapes, vals)
// unary functor with attributes: view, functor[attrs](a), extracted composition called on the leaf, fn::apply on the extracted operands;
// same[0] = extracted operand 0 is the address of the leaf
#define UNARY(NAME, VIEW, FUNCTOR) KERNEL int K(k_fn_##NAME)(const size_t* shape, const unsigned* data, const int* p, OUTS, int* same){ \
  a2_t a; if (!mk2(a,shape,data)) return -1; \
  auto mv = VIEW; V(0, mv); V(1, FUNCTOR(a)); if (!nm::has_value(mv)) return 0; const auto& v = nm::unwrap(mv); \
  auto f = fn::get_function_composition(v); const auto& ops = fn::get_function_operands(v); \
  V(2, f(a)); V(3, fn::apply(f, ops)); same[0] = (nm::get<0>(nm::unwrap(ops)) == &a); return 4; }
UNARY(transpose, view::transpose(a, ax2(p)), fn::transpose[ax2(p)])
UNARY(reshape, view::reshape(a, ax2(p)), fn::reshape[ax2(p)])
UNARY(flip, view::flip(a, p[0]), fn::flip[p[0]])
UNARY(slice, view::slice(a, sl3(p), sl2(p+3)), fn::slice[sl3(p)][sl2(p+3)])
UNARY(invert, view::invert(a), fn::invert)   // (square/multiply make the equivalence check a multiplier-equivalence problem: no verdict in 300 s)
UNARY(sum, view::sum(a, p[0]), fn::sum[p[0]])
// binary functor, one variant per kernel (all six in one query ran out of memory): 1 all at once, 2 curried one at a time,
// 3 extracted composition all at once, 4 extracted composition curried, 5 fn::apply on the extracted operands;
// same[] = extracted operands are the addresses of the leaves, in order
#define BINARY(NAME, VAR, ...) KERNEL int K(k_fn_##NAME##_##VAR)(const size_t* shape, const unsigned* da, const unsigned* db, OUTS, int* same){ \
  a2_t a, b; if (!mk2(a,shape,da) || !mk2(b,shape,db)) return -1; \
  auto mv = view::NAME(a, b); V(0, mv); if (!nm::has_value(mv)) return 0; const auto& v = nm::unwrap(mv); \
  auto f = fn::get_function_composition(v); const auto& ops = fn::get_function_operands(v); \
  V(1, __VA_ARGS__); \
  same[0] = (nm::get<0>(nm::unwrap(ops)) == &a); same[1] = (nm::get<1>(nm::unwrap(ops)) == &b); return 2; }
#define BINARY_ALL(NAME) BINARY(NAME, 1, fn::NAME(a, b)) BINARY(NAME, 2, fn::NAME(a)(b)) BINARY(NAME, 3, f(a, b)) BINARY(NAME, 4, f(a)(b)) BINARY(NAME, 5, fn::apply(f, ops))
BINARY_ALL(add)
BINARY_ALL(subtract)
