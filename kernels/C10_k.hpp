// C10/C11 shared marshalling: lazy view vs eager evaluation observed side by side. No logic: the only branch is the
// "index inside the reported shape" guard that keeps an out-of-domain call from reading outside the view.
#pragma once
#include "common.hpp"
#include "nmtools/array/eval.hpp"
#include "nmtools/utility/data.hpp"
namespace view = nm::view;
// pre-fill the whole logical content of a result array (any buffer kind) through the named fill helper
template <typename A, typename T> static inline void fill_buf(A& a, const T* d){ fill_n(nm::data(a), d, (size_t)nm::size(a)); }
template <typename S> static inline bool idx_inside(const size_t* idx, size_t n, const S& shape){
  for (size_t i=0;i<n;i++) if (idx[i] >= (size_t)nm::at(shape,i)) return false; return true; }
// reference to the payload of a maybe (or to the object itself); nm::unwrap returns non-maybe arrays BY VALUE, which would copy vector buffers
template <typename T> static inline const auto& payload(const T& x){ if constexpr (meta::is_maybe_v<T>) return *x; else return x; }
// returns 0 lazy Nothing (eager must then be Nothing too, else 5), 4 eager Nothing, 2 index length != dim, 3 index outside the lazy shape, 1 ok
template <typename MV, typename ME, typename T>
static inline int lazy_eager(const MV& mv, const ME& me, const size_t* idx, size_t nidx, size_t* lshape, size_t* ldim, T* lval, size_t* eshape, size_t* edim, T* eval_){
  if (!nm::has_value(mv)) return nm::has_value(me) ? 5 : 0;
  if (!nm::has_value(me)) return 4;
  const auto& v = payload(mv); const auto& e = payload(me);
  *ldim = put(nm::shape(v), lshape); *edim = put(nm::shape(e), eshape);
  if (nidx != *ldim || nidx != *edim) return 2;
  if (!idx_inside(idx, nidx, nm::shape(v)) || !idx_inside(idx, nidx, nm::shape(e))) return 3;
  auto i = mk_sv<size_t,8>(idx, nidx);
  *lval = (T)nm::apply_at(v,i); *eval_ = (T)nm::apply_at(e,i);
  return 1;
}
