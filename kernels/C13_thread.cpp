// C13: one thread of the device kernel. RUN_BODY is a transcription of the 6-line body of nm_cuda_run_function
// (include/nmtools/array/eval/cuda/context.hpp:10-31, same text in hip/context.hpp:20-33) with threadIdx.x/blockIdx.x/blockDim.x
// replaced by parameters, because that header needs the CUDA runtime. Everything it calls is the real code:
// create_mutable_array, fn::apply, kernel_size, assign_result (compute_offset, idx<size guard, mutable_flatten/flatten).
// Host side as in cuda/evaluator.hpp:22-37: get_function_composition + get_function_operands.
#include "common.hpp"
#include "nmtools/array/eval/kernel_helper.hpp"
#include "nmtools/array/functional.hpp"
#include "nmtools/array/functional/transpose.hpp"
#include "nmtools/array/functional/reshape.hpp"
#include "nmtools/array/functional/flatten.hpp"
#include "nmtools/array/functional/flip.hpp"
#include "nmtools/array/functional/sum.hpp"
#include "nmtools/array/view/sum.hpp"
#include "nmtools/array/functional/ufuncs/add.hpp"
#include "nmtools/array/functional/ufuncs/multiply.hpp"
#include "nmtools/array/functional/ufuncs/invert.hpp"
#include "nmtools/array/view/transpose.hpp"
#include "nmtools/array/view/reshape.hpp"
#include "nmtools/array/view/flatten.hpp"
#include "nmtools/array/view/flip.hpp"
#include "nmtools/array/view/ufuncs/add.hpp"
#include "nmtools/array/view/ufuncs/multiply.hpp"
#include "nmtools/array/view/ufuncs/invert.hpp"
#include <cmath>
namespace view = nm::view; namespace fn = nm::functional;
using a2_t = hyb_t<unsigned,16,2>;

template <auto out_static_dim=0, typename function_t, typename out_t, typename out_shape_t, typename out_dim_t, template<typename...>typename tuple, typename...operands_t>
static inline void run_body(const function_t fun, out_t* out, const out_shape_t* out_shape_ptr, const out_dim_t out_dim, const tuple<operands_t...> operands,
                            size_t threadIdx_x, size_t blockIdx_x, size_t blockDim_x){
    auto output = na::create_mutable_array<out_static_dim>(out,out_shape_ptr,out_dim);
    auto result = fn::apply(fun,operands);
    auto thread_id  = na::kernel_size<size_t>{threadIdx_x,0,0};
    auto block_id   = na::kernel_size<size_t>{blockIdx_x,0,0};
    auto block_size = na::kernel_size<size_t>{blockDim_x,1,1};
    na::assign_result(output,result,thread_id,block_id,block_size);
}
#define GEOM size_t tid, size_t bid, size_t bsz
// the complete step for a view over ONE leaf array: host extraction, operand rebuilt from the raw (pointer, shape, dim) triple, body
#define STEP1(OD, MV) { auto mv = MV; if (!nm::has_value(mv)) return 0; const auto& v = nm::unwrap(mv); \
  auto f = fn::get_function_composition(v); const auto& ops = fn::get_function_operands(v); \
  size_t os[4]; size_t od = put(nm::shape(v), os); if (od != OD) return 2; \
  auto A = na::create_array<2>(nm::data(*nm::get<0>(nm::unwrap(ops))), shape, (size_t)2); \
  run_body<OD>(f, out, os, od, nmtools_tuple{A}, tid, bid, bsz); put(nm::shape(v), oshape); return 1; }

KERNEL int K(k_th_transpose)(const size_t* shape, const unsigned* data, const int* axes, unsigned* out, size_t* oshape, GEOM){
  a2_t a; if (!mk2(a,shape,data)) return -1; STEP1(2, view::transpose(a, mk_arr<int,2>(axes))) }
KERNEL int K(k_th_reshape)(const size_t* shape, const unsigned* data, const int* dst, unsigned* out, size_t* oshape, GEOM){
  a2_t a; if (!mk2(a,shape,data)) return -1; STEP1(2, view::reshape(a, mk_arr<int,2>(dst))) }
KERNEL int K(k_th_flatten)(const size_t* shape, const unsigned* data, unsigned* out, size_t* oshape, GEOM){
  a2_t a; if (!mk2(a,shape,data)) return -1; STEP1(1, view::flatten(a)) }
KERNEL int K(k_th_flip)(const size_t* shape, const unsigned* data, int axis, unsigned* out, size_t* oshape, GEOM){
  a2_t a; if (!mk2(a,shape,data)) return -1; STEP1(2, view::flip(a, axis)) }
KERNEL int K(k_th_invert)(const size_t* shape, const unsigned* data, unsigned* out, size_t* oshape, GEOM){
  a2_t a; if (!mk2(a,shape,data)) return -1; STEP1(2, view::invert(a)) }
// write side alone: output device_array + assign_result of a plain host array
KERNEL int K(k_th_write_side)(const size_t* shape, const unsigned* data, unsigned* out, GEOM){
  a2_t a; if (!mk2(a,shape,data)) return -1;
  size_t os[2] = {shape[0], shape[1]};
  auto output = na::create_mutable_array<2>(out, os, (size_t)2);
  na::assign_result(output, a, na::kernel_size<size_t>{tid,0,0}, na::kernel_size<size_t>{bid,0,0}, na::kernel_size<size_t>{bsz,1,1});
  return 1; }
// binary ufunc of two same-shape leaves
KERNEL int K(k_th_add)(const size_t* shape, const unsigned* da, const unsigned* db, unsigned* out, size_t* oshape, GEOM){
  a2_t a, b; if (!mk2(a,shape,da) || !mk2(b,shape,db)) return -1;
  auto mv = view::add(a, b); if (!nm::has_value(mv)) return 0; const auto& v = nm::unwrap(mv);
  auto f = fn::get_function_composition(v); const auto& ops = fn::get_function_operands(v);
  size_t os[4]; size_t od = put(nm::shape(v), os); if (od != 2) return 2;
  auto A = na::create_array<2>(nm::data(*nm::get<0>(nm::unwrap(ops))), shape, (size_t)2);
  auto B = na::create_array<2>(nm::data(*nm::get<1>(nm::unwrap(ops))), shape, (size_t)2);
  run_body<2>(f, out, os, od, nmtools_tuple{A,B}, tid, bid, bsz); put(nm::shape(v), oshape); return 1; }
// depth 2 / 3 over one leaf, and a reduction
KERNEL int K(k_th_flip_transpose)(const size_t* shape, const unsigned* data, const int* p, unsigned* out, size_t* oshape, GEOM){
  a2_t a; if (!mk2(a,shape,data)) return -1; STEP1(2, view::flip(view::transpose(a, mk_arr<int,2>(p)), p[2])) }
KERNEL int K(k_th_invert_flip)(const size_t* shape, const unsigned* data, const int* p, unsigned* out, size_t* oshape, GEOM){
  a2_t a; if (!mk2(a,shape,data)) return -1; STEP1(2, view::invert(view::flip(a, p[0]))) }
KERNEL int K(k_th_invert_flip_transpose)(const size_t* shape, const unsigned* data, const int* p, unsigned* out, size_t* oshape, GEOM){
  a2_t a; if (!mk2(a,shape,data)) return -1; STEP1(2, view::invert(view::flip(view::transpose(a, mk_arr<int,2>(p)), p[2]))) }
// depth 3 whose stages do NOT commute (index maps only): flip(transpose(flip(a, p[3]), (p[0],p[1])), p[2]) - an extraction that re-orders the chain changes the result
KERNEL int K(k_th_flip_transpose_flip)(const size_t* shape, const unsigned* data, const int* p, unsigned* out, size_t* oshape, GEOM){
  a2_t a; if (!mk2(a,shape,data)) return -1; STEP1(2, view::flip(view::transpose(view::flip(a, p[3]), mk_arr<int,2>(p)), p[2])) }
KERNEL int K(k_th_sum)(const size_t* shape, const unsigned* data, const int* p, unsigned* out, size_t* oshape, GEOM){
  a2_t a; if (!mk2(a,shape,data)) return -1; STEP1(1, view::sum(a, p[0])) }
// CUDA-faithful operand kind: cuda::context_t::create_array (cuda/context.hpp:161-200) hands the kernel a
// device_array<element, static_vector<size_t,8>, dim_t> per leaf (shape copied element by element, buffer copied by cudaMemcpy);
// the transcription below keeps the shape copy loop and uses the host buffer as the device buffer. out_static_dim = 0 as in run_().
template <typename array_t> static inline auto cuda_create_array(const array_t& array){
  const auto buffer = nm::data(array); const auto shape = nm::shape(array); const auto dim = nm::dim(array);
  using element_t = meta::get_element_type_t<array_t>; using dim_t = meta::remove_cvref_t<decltype(dim)>;
  using device_shape_t = nmtools_static_vector<size_t,8>;
  auto device_shape = device_shape_t{}; device_shape.resize(dim);
  for (size_t i=0; i<dim; i++) { nm::at(device_shape,i) = nm::at(shape,i); }
  using device_array_t = na::device_array<element_t,device_shape_t,dim_t>;
  return device_array_t{const_cast<element_t*>(buffer),device_shape,dim};
}
#define STEPD(MV, ...) { auto mv = MV; if (!nm::has_value(mv)) return 0; const auto& v = nm::unwrap(mv); \
  auto f = fn::get_function_composition(v); const auto& mops = fn::get_function_operands(v); const auto& ops = nm::unwrap(mops); \
  size_t os[4]; size_t od = put(nm::shape(v), os); \
  run_body<0>(f, out, os, od, nmtools_tuple{__VA_ARGS__}, tid, bid, bsz); put(nm::shape(v), oshape); return 1; }
KERNEL int K(k_thd_transpose)(const size_t* shape, const unsigned* data, const int* axes, unsigned* out, size_t* oshape, GEOM){
  a2_t a; if (!mk2(a,shape,data)) return -1; STEPD(view::transpose(a, mk_arr<int,2>(axes)), cuda_create_array(*nm::get<0>(ops))) }
KERNEL int K(k_thd_add)(const size_t* shape, const unsigned* da, const unsigned* db, unsigned* out, size_t* oshape, GEOM){
  a2_t a, b; if (!mk2(a,shape,da) || !mk2(b,shape,db)) return -1;
  STEPD(view::add(a, b), cuda_create_array(*nm::get<0>(ops)), cuda_create_array(*nm::get<1>(ops))) }
// launch-size arithmetic: the expression of cuda/context.hpp:262-263, hip/context.hpp:270-271, sycl/context.hpp:466-467 (warp_size 32) and
// opencl/context.hpp:478 (local size from the device) TRANSCRIBED, because these headers need the device runtimes. Not nmtools code under test
// in the strict sense: the harness that uses it is labelled as a transcription.
KERNEL size_t K(k_launch_thread_size)(size_t out_size, unsigned local){
  auto warp_size = (int)local; auto thread_size = size_t(std::ceil(float(out_size) / warp_size)) * warp_size; return thread_size; }
