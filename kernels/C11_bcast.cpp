// C11 (broadcasting view types): compile-time traits of binary / ternary broadcast views whose operands mix a compile-time constant shape
// (containing an extent 1) with a run-time shape, next to the run-time dim/size/shape of an object of that type. Same reporting as C11_traits.cpp.
#include "C10_k.hpp"
#include "nmtools/array/view/ufuncs/add.hpp"
#include "nmtools/array/view/where.hpp"
#include "nmtools/array/view/broadcast_arrays.hpp"
#include "nmtools/array/view/tile.hpp"
#include "nmtools/array/view/expand_dims.hpp"
#include "nmtools/array/view/atleast_nd.hpp"
#include "nmtools/array/view/squeeze.hpp"
#include "nmtools/array/view/ufuncs/add.hpp"
static constexpr size_t NA = (size_t)-1;
template <typename T> static inline size_t tv(const T& v){ if constexpr (meta::is_fail_v<T>) return NA; else return (size_t)v; }
template <typename V> static inline void static_traits(size_t* t){
  constexpr auto fd = meta::fixed_dim_v<V>; constexpr auto fz = meta::fixed_size_v<V>;
  constexpr auto bd = meta::bounded_dim_v<V>; constexpr auto bz = meta::bounded_size_v<V>; constexpr auto fs = meta::fixed_shape_v<V>;
  t[0] = tv(fd); t[1] = tv(fz); t[2] = tv(bd); t[3] = tv(bz);
  if constexpr (meta::is_fail_v<decltype(fs)>) t[4] = NA;
  else { constexpr auto n = nm::len(fs); t[4] = n; meta::template_for<n>([&](auto i){ t[5 + decltype(i)::value] = (size_t)nm::at(fs, i); }); }
}
template <typename MV> static inline int stat_vs_run(const MV& mv, size_t* t, size_t* rt){
  if (!nm::has_value(mv)) return 0;
  const auto& v = nm::unwrap(mv); using view_t = meta::remove_cvref_t<decltype(v)>;
  static_traits<view_t>(t);
  rt[0] = (size_t)nm::dim(v); rt[1] = (size_t)nm::size(v); put(nm::shape(v), rt + 2);
  return 1;
}
using h2_t = hyb_t<unsigned,16,2>;
using h1_t = hyb_t<unsigned,16,1>;
#define SIGB const size_t* shape, const unsigned* data, const unsigned* cdata, size_t* t, size_t* rt
#define MKH2 h2_t b; if (!mk2(b,shape,data)) return -1
#define MKH1 h1_t b; if (!mk1(b,shape,data)) return -1
// constant-shape operand with a stretched axis x hybrid run-time operand, both orders
KERNEL int K(k_trb_add_c31_h2)(SIGB){ unsigned a[3][1]; fill_n(&a[0][0], cdata, 3); MKH2; return stat_vs_run(view::add(a,b), t, rt); }
KERNEL int K(k_trb_add_h2_c31)(SIGB){ unsigned a[3][1]; fill_n(&a[0][0], cdata, 3); MKH2; return stat_vs_run(view::add(b,a), t, rt); }
KERNEL int K(k_trb_add_c13_h2)(SIGB){ unsigned a[1][3]; fill_n(&a[0][0], cdata, 3); MKH2; return stat_vs_run(view::add(a,b), t, rt); }
KERNEL int K(k_trb_add_h2_c13)(SIGB){ unsigned a[1][3]; fill_n(&a[0][0], cdata, 3); MKH2; return stat_vs_run(view::add(b,a), t, rt); }
KERNEL int K(k_trb_add_c13_h1)(SIGB){ unsigned a[1][3]; fill_n(&a[0][0], cdata, 3); MKH1; return stat_vs_run(view::add(a,b), t, rt); }
KERNEL int K(k_trb_add_c131_h2)(SIGB){ unsigned a[1][3][1]; fill_n(&a[0][0][0], cdata, 3); MKH2; return stat_vs_run(view::add(a,b), t, rt); }
// two hybrid operands (clipped bounds on both sides)
KERNEL int K(k_trb_add_h2_h2)(SIGB, const size_t* shape2){ MKH2; hyb_t<unsigned,4,2> c; if (!mk2(c,shape2,cdata)) return -1; return stat_vs_run(view::add(b,c), t, rt); }
// three operands: where(mask constant (1,3), single element, hybrid column) and broadcast_arrays of the same three
KERNEL int K(k_trb_where_c13_s_h2)(SIGB){ unsigned a[1][3]; fill_n(&a[0][0], cdata, 3); MKH2; return stat_vs_run(view::where(a,0u,b), t, rt); }
KERNEL int K(k_trb_where_c13_c1_h2)(SIGB){ unsigned a[1][3]; fill_n(&a[0][0], cdata, 3); unsigned f[1] = {cdata[3]}; MKH2; return stat_vs_run(view::where(a,f,b), t, rt); }
KERNEL int K(k_trb_where_h2_s_c13)(SIGB){ unsigned a[1][3]; fill_n(&a[0][0], cdata, 3); MKH2; return stat_vs_run(view::where(b,0u,a), t, rt); }
template <size_t I, typename MV> static inline int nth_traits(const MV& mv, size_t* t, size_t* rt){
  if (!nm::has_value(mv)) return 0; const auto& tup = nm::unwrap(mv); return stat_vs_run(nm::get<I>(tup), t, rt); }
KERNEL int K(k_trb_bcast3_0)(SIGB){ unsigned a[1][3]; fill_n(&a[0][0], cdata, 3); unsigned f[1] = {cdata[3]}; MKH2; return nth_traits<0>(view::broadcast_arrays(a,f,b), t, rt); }
KERNEL int K(k_trb_bcast3_1)(SIGB){ unsigned a[1][3]; fill_n(&a[0][0], cdata, 3); unsigned f[1] = {cdata[3]}; MKH2; return nth_traits<1>(view::broadcast_arrays(a,f,b), t, rt); }
KERNEL int K(k_trb_bcast3_2)(SIGB){ unsigned a[1][3]; fill_n(&a[0][0], cdata, 3); unsigned f[1] = {cdata[3]}; MKH2; return nth_traits<2>(view::broadcast_arrays(a,f,b), t, rt); }
KERNEL int K(k_trb_bcast3h_0)(SIGB){ unsigned a[1][3]; fill_n(&a[0][0], cdata, 3); unsigned f[1] = {cdata[3]}; MKH2; return nth_traits<0>(view::broadcast_arrays(b,f,a), t, rt); }

// tile of a BOUNDED-DIM operand (static_vector<size_t,3> shape, run-time dim 1..3) with a fixed-length reps list that is LONGER than the dim bound (4 entries), and one of equal length (3)
using b3_t = na::ndarray_t<na::static_vector<unsigned,16>, na::static_vector<size_t,3>>;
KERNEL int K(k_trt_tile4_b3)(const size_t* shape, size_t dim, const unsigned* data, const size_t* reps, size_t* t, size_t* rt){
  b3_t a; if (!a.resize(mk_sv<size_t,3>(shape, dim))) return -1; fill(a, data); return stat_vs_run(view::tile(a, mk_arr<size_t,4>(reps)), t, rt); }
KERNEL int K(k_trt_tile3_b3)(const size_t* shape, size_t dim, const unsigned* data, const size_t* reps, size_t* t, size_t* rt){
  b3_t a; if (!a.resize(mk_sv<size_t,3>(shape, dim))) return -1; fill(a, data); return stat_vs_run(view::tile(a, mk_arr<size_t,3>(reps)), t, rt); }
// tile of a hybrid (fixed dim 2) operand with bounded-length reps (static_vector<size_t,4>, 1..4 entries)
KERNEL int K(k_trt_tile_sv_h2)(const size_t* shape, size_t nreps, const unsigned* data, const size_t* reps, size_t* t, size_t* rt){
  h2_t a; if (!mk2(a,shape,data)) return -1; return stat_vs_run(view::tile(a, mk_sv<size_t,4>(reps, nreps)), t, rt); }

// outer ufunc of two hybrid operands with DIFFERENT capacities (size bounds 4 and 16): the view's size type is computed from both bounds
KERNEL int K(k_trt_outer_h4_h16)(const size_t* sa, const unsigned* da, const size_t* sb, const unsigned* db, size_t* t, size_t* rt){
  hyb_t<unsigned,4,2> a; h2_t b; if (!mk2(a,sa,da) || !mk2(b,sb,db)) return -1; return stat_vs_run(view::outer_add(a, b), t, rt); }
KERNEL int K(k_trt_outer_h16_h4)(const size_t* sa, const unsigned* da, const size_t* sb, const unsigned* db, size_t* t, size_t* rt){
  h2_t a; hyb_t<unsigned,4,2> b; if (!mk2(a,sa,da) || !mk2(b,sb,db)) return -1; return stat_vs_run(view::outer_add(a, b), t, rt); }

// dimension-changing views over a BOUNDED-DIM operand (run-time dim 1..3 = up to the bound): the dim bound of the result must cover dim+1 / max(dim, nd)
KERNEL int K(k_trt_expand_b3)(const size_t* shape, size_t dim, const unsigned* data, int axis, size_t* t, size_t* rt){
  b3_t a; if (!a.resize(mk_sv<size_t,3>(shape, dim))) return -1; fill(a, data); return stat_vs_run(view::expand_dims(a, axis), t, rt); }
KERNEL int K(k_trt_atleast1_b3)(const size_t* shape, size_t dim, const unsigned* data, int, size_t* t, size_t* rt){
  b3_t a; if (!a.resize(mk_sv<size_t,3>(shape, dim))) return -1; fill(a, data); return stat_vs_run(view::atleast_nd(a, meta::ct_v<1>), t, rt); }
KERNEL int K(k_trt_atleast2_b3)(const size_t* shape, size_t dim, const unsigned* data, int, size_t* t, size_t* rt){
  b3_t a; if (!a.resize(mk_sv<size_t,3>(shape, dim))) return -1; fill(a, data); return stat_vs_run(view::atleast_2d(a), t, rt); }
KERNEL int K(k_trt_atleast4_b3)(const size_t* shape, size_t dim, const unsigned* data, int, size_t* t, size_t* rt){
  b3_t a; if (!a.resize(mk_sv<size_t,3>(shape, dim))) return -1; fill(a, data); return stat_vs_run(view::atleast_nd(a, meta::ct_v<4>), t, rt); }
