// C11 (broadcasting view types): compile-time traits of binary / ternary broadcast views whose operands mix a compile-time constant shape
// (containing an extent 1) with a run-time shape, next to the run-time dim/size/shape of an object of that type. Same reporting as C11_traits.cpp.
#include "C10_k.hpp"
#include "nmtools/array/view/ufuncs/add.hpp"
#include "nmtools/array/view/where.hpp"
#include "nmtools/array/view/broadcast_arrays.hpp"
static constexpr size_t NA = (size_t)-1;
template <typename T> static inline size_t tv(const T& v){ if constexpr (meta::is_fail_v<T>) return NA; else return (size_t)v; }
template <typename V> static inline void static_traits(size_t* t){
  constexpr auto fd = meta::fixed_dim_v<V>; constexpr auto fz = meta::fixed_size_v<V>;
  constexpr auto bd = meta::bounded_dim_v<V>; constexpr auto bz = meta::bounded_size_v<V>; constexpr auto fs = meta::fixed_shape_v<V>;
  t[0] = tv(fd); t[1] = tv(fz); t[2] = tv(bd); t[3] = tv(bz);
  if constexpr (meta::is_fail_v<decltype(fs)>) t[4] = NA;
  else { constexpr auto n = nm::len(fs); t[4] = n; meta::template_for<n>([&](auto i){ t[5 + decltype(i)::value] = (size_t)nm::at(fs, i); }); }
}
template <typename MV> static inline int stat_vs_run(const MV& mv, size_t* t, size_t* rt){
  if (!nm::has_value(mv)) return 0;
  const auto& v = nm::unwrap(mv); using view_t = meta::remove_cvref_t<decltype(v)>;
  static_traits<view_t>(t);
  rt[0] = (size_t)nm::dim(v); rt[1] = (size_t)nm::size(v); put(nm::shape(v), rt + 2);
  return 1;
}
using h2_t = hyb_t<unsigned,16,2>;
using h1_t = hyb_t<unsigned,16,1>;
#define SIGB const size_t* shape, const unsigned* data, const unsigned* cdata, size_t* t, size_t* rt
#define MKH2 h2_t b; if (!mk2(b,shape,data)) return -1
#define MKH1 h1_t b; if (!mk1(b,shape,data)) return -1
// constant-shape operand with a stretched axis x hybrid run-time operand, both orders
KERNEL int K(k_trb_add_c31_h2)(SIGB){ unsigned a[3][1]; fill_n(&a[0][0], cdata, 3); MKH2; return stat_vs_run(view::add(a,b), t, rt); }
KERNEL int K(k_trb_add_h2_c31)(SIGB){ unsigned a[3][1]; fill_n(&a[0][0], cdata, 3); MKH2; return stat_vs_run(view::add(b,a), t, rt); }
KERNEL int K(k_trb_add_c13_h2)(SIGB){ unsigned a[1][3]; fill_n(&a[0][0], cdata, 3); MKH2; return stat_vs_run(view::add(a,b), t, rt); }
KERNEL int K(k_trb_add_h2_c13)(SIGB){ unsigned a[1][3]; fill_n(&a[0][0], cdata, 3); MKH2; return stat_vs_run(view::add(b,a), t, rt); }
KERNEL int K(k_trb_add_c13_h1)(SIGB){ unsigned a[1][3]; fill_n(&a[0][0], cdata, 3); MKH1; return stat_vs_run(view::add(a,b), t, rt); }
KERNEL int K(k_trb_add_c131_h2)(SIGB){ unsigned a[1][3][1]; fill_n(&a[0][0][0], cdata, 3); MKH2; return stat_vs_run(view::add(a,b), t, rt); }
// two hybrid operands (clipped bounds on both sides)
KERNEL int K(k_trb_add_h2_h2)(SIGB, const size_t* shape2){ MKH2; hyb_t<unsigned,4,2> c; if (!mk2(c,shape2,cdata)) return -1; return stat_vs_run(view::add(b,c), t, rt); }
// three operands: where(mask constant (1,3), single element, hybrid column) and broadcast_arrays of the same three
KERNEL int K(k_trb_where_c13_s_h2)(SIGB){ unsigned a[1][3]; fill_n(&a[0][0], cdata, 3); MKH2; return stat_vs_run(view::where(a,0u,b), t, rt); }
KERNEL int K(k_trb_where_c13_c1_h2)(SIGB){ unsigned a[1][3]; fill_n(&a[0][0], cdata, 3); unsigned f[1] = {cdata[3]}; MKH2; return stat_vs_run(view::where(a,f,b), t, rt); }
KERNEL int K(k_trb_where_h2_s_c13)(SIGB){ unsigned a[1][3]; fill_n(&a[0][0], cdata, 3); MKH2; return stat_vs_run(view::where(b,0u,a), t, rt); }
template <size_t I, typename MV> static inline int nth_traits(const MV& mv, size_t* t, size_t* rt){
  if (!nm::has_value(mv)) return 0; const auto& tup = nm::unwrap(mv); return stat_vs_run(nm::get<I>(tup), t, rt); }
KERNEL int K(k_trb_bcast3_0)(SIGB){ unsigned a[1][3]; fill_n(&a[0][0], cdata, 3); unsigned f[1] = {cdata[3]}; MKH2; return nth_traits<0>(view::broadcast_arrays(a,f,b), t, rt); }
KERNEL int K(k_trb_bcast3_1)(SIGB){ unsigned a[1][3]; fill_n(&a[0][0], cdata, 3); unsigned f[1] = {cdata[3]}; MKH2; return nth_traits<1>(view::broadcast_arrays(a,f,b), t, rt); }
KERNEL int K(k_trb_bcast3_2)(SIGB){ unsigned a[1][3]; fill_n(&a[0][0], cdata, 3); unsigned f[1] = {cdata[3]}; MKH2; return nth_traits<2>(view::broadcast_arrays(a,f,b), t, rt); }
KERNEL int K(k_trb_bcast3h_0)(SIGB){ unsigned a[1][3]; fill_n(&a[0][0], cdata, 3); unsigned f[1] = {cdata[3]}; MKH2; return nth_traits<0>(view::broadcast_arrays(b,f,a), t, rt); }
