// shared by the C04 kernel TUs: marshalling macros only (no logic)
#pragma once
#include "common.hpp"
namespace view = nm::view;
template <size_t D> using src_t = hyb_t<unsigned,64,D>;
#define ARGS_IN  const size_t* shape, const unsigned* data
#define ARGS_OUT const size_t* idx, size_t nidx, size_t* oshape, size_t* odim, unsigned* out
#define MK(D) src_t<D> a; if (!mk##D(a,shape,data)) return -1
#define OBSV(v) observe(v, idx, nidx, oshape, odim, out)
#define FOR_DIMS(M) M(1) M(2) M(3)
#define FOR_DIMS4(M) M(1) M(2) M(3) M(4)
// observe a (maybe-)view with a fixed-length index (std::array<size_t,N>), for views whose index type must have a compile-time length
template <size_t N, typename V, typename T> static inline int observe_fixed(const V& mv, const size_t* idx, size_t* oshape, size_t* odim, T* out){
  if (!nm::has_value(mv)) return 0;
  const auto& v = nm::unwrap(mv);
  *odim = put(nm::shape(v), oshape);
  if (N != *odim) return 2;
  *out = (T)v(mk_arr<size_t,N>(idx));
  return 1;
}
