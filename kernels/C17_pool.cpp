// C17: pooling. index::shape_pool2d / slice_pool2d with run-time parameters; view::max_pool2d / avg_pool2d on a hybrid uint8
// (N,C,H,W) array with run-time kernel size, stride and ceil mode. Kernels only marshal.
#include "common.hpp"
#include "nmtools/array/index/pooling.hpp"
#include "nmtools/array/view/pooling.hpp"
#include "nmtools/array/functional/pooling.hpp"
namespace view = nm::view;
typedef unsigned char u8;
using arr_t = hyb_t<u8,32,4>;
KERNEL void K(k_shape_pool2d)(const size_t* shape, const size_t* ks, const size_t* st, int ceil_mode, size_t* out){
  auto r = ix::shape_pool2d(mk_arr<size_t,4>(shape), mk_arr<size_t,2>(ks), mk_arr<size_t,2>(st), (bool)ceil_mode);
  put(r, out);
}
// slices (start, stop, step) per axis for one output index
KERNEL void K(k_slice_pool2d)(const size_t* idx, const size_t* shape, const size_t* ks, const size_t* st, int ceil_mode, long* out){
  auto r = ix::slice_pool2d(mk_arr<size_t,4>(idx), mk_arr<size_t,4>(shape), mk_arr<size_t,2>(ks), mk_arr<size_t,2>(st), (bool)ceil_mode);
  for (size_t i=0;i<4;i++){ const auto& s = nm::at(r,i); out[3*i] = (long)nm::get<0>(s); out[3*i+1] = (long)nm::get<1>(s); out[3*i+2] = (long)nm::get<2>(s); }
}
KERNEL int K(k_max_pool2d)(const size_t* shape, const u8* d, const size_t* ks, const size_t* st, int ceil_mode, const size_t* idx, size_t* oshape, u8* out){
  arr_t a; if (!mk4(a,shape,d)) return -1;
  auto v = view::max_pool2d(a, mk_arr<size_t,2>(ks), mk_arr<size_t,2>(st), (bool)ceil_mode);
  put(nm::shape(v), oshape);
  *out = (u8)v(idx[0],idx[1],idx[2],idx[3]);
  return 1;
}
KERNEL int K(k_avg_pool2d)(const size_t* shape, const u8* d, const size_t* ks, const size_t* st, int ceil_mode, const size_t* idx, size_t* oshape, float* out){
  arr_t a; if (!mk4(a,shape,d)) return -1;
  auto v = view::avg_pool2d(a, mk_arr<size_t,2>(ks), mk_arr<size_t,2>(st), (bool)ceil_mode);
  put(nm::shape(v), oshape);
  *out = (float)v(idx[0],idx[1],idx[2],idx[3]);
  return 1;
}

// the same views observed THROUGH the extracted function: fn::apply(get_function_composition(view), get_function_operands(view)) - what the device kernels evaluate (C13/C14)
namespace fn = nm::functional;
KERNEL int K(k_max_pool2d_fn)(const size_t* shape, const u8* d, const size_t* ks, const size_t* st, int ceil_mode, const size_t* idx, size_t* oshape, u8* out){
  arr_t a; if (!mk4(a,shape,d)) return -1;
  auto v = view::max_pool2d(a, mk_arr<size_t,2>(ks), mk_arr<size_t,2>(st), (bool)ceil_mode);
  auto f = fn::get_function_composition(v); const auto& ops = fn::get_function_operands(v); auto mr = fn::apply(f, ops);
  if (!nm::has_value(mr)) return 0; const auto& r = nm::unwrap(mr);
  put(nm::shape(r), oshape); *out = (u8)r(idx[0],idx[1],idx[2],idx[3]); return 1;
}
KERNEL int K(k_avg_pool2d_fn)(const size_t* shape, const u8* d, const size_t* ks, const size_t* st, int ceil_mode, const size_t* idx, size_t* oshape, float* out){
  arr_t a; if (!mk4(a,shape,d)) return -1;
  auto v = view::avg_pool2d(a, mk_arr<size_t,2>(ks), mk_arr<size_t,2>(st), (bool)ceil_mode);
  auto f = fn::get_function_composition(v); const auto& ops = fn::get_function_operands(v); auto mr = fn::apply(f, ops);
  if (!nm::has_value(mr)) return 0; const auto& r = nm::unwrap(mr);
  put(nm::shape(r), oshape); *out = (float)r(idx[0],idx[1],idx[2],idx[3]); return 1;
}

// signed elements (negative values: the maximum of an all-negative window is negative)
KERNEL int K(k_max_pool2d_i8)(const size_t* shape, const u8* d, const size_t* ks, const size_t* st, int ceil_mode, const size_t* idx, size_t* oshape, int* out){
  hyb_t<signed char,32,4> a; if (!a.resize(shape[0],shape[1],shape[2],shape[3])) return -1; { size_t n = nm::size(a); K(k_fill_u8)((u8*)&a.data_[0], d, n); }
  auto v = view::max_pool2d(a, mk_arr<size_t,2>(ks), mk_arr<size_t,2>(st), (bool)ceil_mode);
  put(nm::shape(v), oshape);
  *out = (int)v(idx[0],idx[1],idx[2],idx[3]);
  return 1;
}
