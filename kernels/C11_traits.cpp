// C11: compile-time traits of a view type (meta::fixed_shape_v / fixed_dim_v / fixed_size_v / bounded_dim_v / bounded_size_v)
// returned next to the run-time dim/size/shape of an object of that type built from run-time (symbolic) shapes admitted by the
// operand type. t[0]=fixed_dim t[1]=fixed_size t[2]=bounded_dim t[3]=bounded_size t[4]=len(fixed_shape) t[5..8]=fixed_shape;
// (size_t)-1 = the trait is not reported (is_fail). rt[0]=dim rt[1]=size rt[2..5]=shape. Program names/arguments: harnesses/C10_dom.h.
// Operand kinds: H hybrid (capacity 16, fixed dim 2), F std::array<std::array<unsigned,3>,2>, C unsigned[2][3],
// B bounded dim (static_vector<size_t,3> shape, capacity 16), L clipped shape (clipped_size_t<4> x 2, capacity 16).
#include "C10_k.hpp"
#include "nmtools/array/view/reshape.hpp"
#include "nmtools/array/view/flatten.hpp"
#include "nmtools/array/view/transpose.hpp"
#include "nmtools/array/view/flip.hpp"
#include "nmtools/array/view/slice.hpp"
#include "nmtools/array/view/tile.hpp"
#include "nmtools/array/view/pad.hpp"
#include "nmtools/array/view/sum.hpp"
#include "nmtools/array/view/ufuncs/add.hpp"
#include "nmtools/array/view/ufuncs/invert.hpp"
#ifndef KINDSEL
#define KINDSEL 0   // one translation unit per operand kind: 1 H, 2 F, 3 C, 4 B, 5 L (0: helpers only)
#endif
static constexpr size_t NA = (size_t)-1;
template <typename T> static inline size_t tv(const T& v){ if constexpr (meta::is_fail_v<T>) return NA; else return (size_t)v; }
template <typename V> static inline void static_traits(size_t* t){
  constexpr auto fd = meta::fixed_dim_v<V>; constexpr auto fz = meta::fixed_size_v<V>;
  constexpr auto bd = meta::bounded_dim_v<V>; constexpr auto bz = meta::bounded_size_v<V>; constexpr auto fs = meta::fixed_shape_v<V>;
  t[0] = tv(fd); t[1] = tv(fz); t[2] = tv(bd); t[3] = tv(bz);
  if constexpr (meta::is_fail_v<decltype(fs)>) t[4] = NA;
  else { constexpr auto n = nm::len(fs); t[4] = n; meta::template_for<n>([&](auto i){ t[5 + decltype(i)::value] = (size_t)nm::at(fs, i); }); }
}
template <typename MV> static inline int stat_vs_run(const MV& mv, size_t* t, size_t* rt){
  if (!nm::has_value(mv)) return 0;
  const auto& v = nm::unwrap(mv); using view_t = meta::remove_cvref_t<decltype(v)>;
  static_traits<view_t>(t);
  rt[0] = (size_t)nm::dim(v); rt[1] = (size_t)nm::size(v); put(nm::shape(v), rt + 2);
  return 1;
}
static inline auto ax2(const int* p){ return mk_arr<int,2>(p); }
static inline auto ax4(const int* p){ return mk_arr<int,4>(p); }
static inline auto sl3(const int* p){ return nmtools_tuple{p[0],p[1],p[2]}; }
static inline auto sl2(const int* p){ return nmtools_tuple{p[0],p[1]}; }
#define TRANSPOSE(x,q)  view::transpose(x, ax2(q))
#define RESHAPE(x,q)    view::reshape(x, ax2(q))
#define FLIP(x,q)       view::flip(x, (q)[0])
#define SLICE(x,q)      view::slice(x, sl3(q), sl2((q)+3))
#define TILE(x,q)       view::tile(x, ax2(q))
#define PAD(x,q)        view::pad(x, ax4(q), (unsigned)(q)[4])
#define INVERT(x,q)     view::invert(x)
#define ADDS(x,q)       view::add(x, (unsigned)(q)[0])
#define SUM(x,q)        view::sum(x, (q)[0])
#define FLATTEN(x,q)    view::flatten(x)
// programs over a 2-d operand `a` (same list as C10)
#define PROGRAMS(X) \
  X(transpose, TRANSPOSE(a, p)) X(transpose_none, view::transpose(a)) X(reshape_b, view::reshape(a, mk_sv<int,4>(p+1, (size_t)p[0]))) X(reshape, RESHAPE(a, p)) \
  X(flatten, FLATTEN(a, p)) X(flip, FLIP(a, p)) X(slice, SLICE(a, p)) X(tile, TILE(a, p)) X(pad, PAD(a, p)) X(invert, INVERT(a, p)) X(add_scalar, ADDS(a, p)) X(sum, SUM(a, p)) \
  X(flip_transpose, FLIP(TRANSPOSE(a, p), p + 2)) X(reshape_flip, RESHAPE(FLIP(a, p), p + 1)) X(sum_transpose, SUM(TRANSPOSE(a, p), p + 2)) \
  X(add_scalar_transpose, ADDS(TRANSPOSE(a, p), p + 2)) X(transpose_add_scalar, TRANSPOSE(ADDS(a, p), p + 1)) X(flatten_pad, FLATTEN(PAD(a, p), p)) \
  X(invert_flip, INVERT(FLIP(a, p), p)) X(slice_transpose, SLICE(TRANSPOSE(a, p), p + 2)) X(transpose_slice, TRANSPOSE(SLICE(a, p), p + 5)) X(sum_add_scalar, SUM(ADDS(a, p), p + 1)) \
  X(transpose_flip_slice, TRANSPOSE(FLIP(SLICE(a, p), p + 5), p + 6))
// programs whose inner maybe-view must be unwrapped before view::flip accepts it
#define PROGRAMS_U(X) X(invert_flip_reshape, RESHAPE(a, p), INVERT(FLIP(in, p + 2), p)) X(reshape_flip_pad, PAD(a, p), RESHAPE(FLIP(in, p + 5), p + 6))
#define SIGT const size_t* shape, size_t dim, const unsigned* data, const int* p, size_t* t, size_t* rt
#define UNWRAP_INNER(INNER) auto mi = INNER; if (!nm::has_value(mi)) return 0; const auto& in = nm::unwrap(mi);
// H: hybrid, every 2-d shape with at most 16 elements is admitted by the type
using a2_t = hyb_t<unsigned,16,2>;
#define KH(NAME, ...)  KERNEL int K(k_tr_##NAME##_H)(SIGT){ a2_t a; if (!mk2(a,shape,data)) return -1; return stat_vs_run(__VA_ARGS__, t, rt); }
#define KHU(NAME, INNER, ...) KERNEL int K(k_tr_##NAME##_H)(SIGT){ a2_t a; if (!mk2(a,shape,data)) return -1; UNWRAP_INNER(INNER) return stat_vs_run(__VA_ARGS__, t, rt); }
#if KINDSEL == 1
PROGRAMS(KH) PROGRAMS_U(KHU)
#endif
// F: fixed shape (2,3) std::array of std::array; C: raw C array
using f23_t = std::array<std::array<unsigned,3>,2>;
#define KF(NAME, ...)  KERNEL int K(k_tr_##NAME##_F)(SIGT){ f23_t a; fill_n(&a[0][0], data, 6); return stat_vs_run(__VA_ARGS__, t, rt); }
#define KFU(NAME, INNER, ...) KERNEL int K(k_tr_##NAME##_F)(SIGT){ f23_t a; fill_n(&a[0][0], data, 6); UNWRAP_INNER(INNER) return stat_vs_run(__VA_ARGS__, t, rt); }
#if KINDSEL == 2
PROGRAMS(KF) PROGRAMS_U(KFU)
#endif
using c23_t = unsigned[2][3];
#define KC(NAME, ...)  KERNEL int K(k_tr_##NAME##_C)(SIGT){ c23_t a; fill_n(&a[0][0], data, 6); return stat_vs_run(__VA_ARGS__, t, rt); }
#define KCU(NAME, INNER, ...) KERNEL int K(k_tr_##NAME##_C)(SIGT){ c23_t a; fill_n(&a[0][0], data, 6); UNWRAP_INNER(INNER) return stat_vs_run(__VA_ARGS__, t, rt); }
#if KINDSEL == 3
PROGRAMS(KC) PROGRAMS_U(KCU)
#endif
// L: clipped shape, every extent <= 4 (programs that do not compile for this kind - transpose(None), sum - are left out; see props/C11.py)
using l44_t = na::ndarray_t<na::static_vector<unsigned,16>, nmtools_array<nm::clipped_size_t<4>,2>>;
#define PROGRAMS_L(X) \
  X(transpose, TRANSPOSE(a, p)) X(reshape_b, view::reshape(a, mk_sv<int,4>(p+1, (size_t)p[0]))) X(reshape, RESHAPE(a, p)) \
  X(flatten, FLATTEN(a, p)) X(flip, FLIP(a, p)) X(slice, SLICE(a, p)) X(tile, TILE(a, p)) X(pad, PAD(a, p)) X(invert, INVERT(a, p)) X(add_scalar, ADDS(a, p)) \
  X(flip_transpose, FLIP(TRANSPOSE(a, p), p + 2)) X(reshape_flip, RESHAPE(FLIP(a, p), p + 1)) X(sum_transpose, SUM(TRANSPOSE(a, p), p + 2)) \
  X(add_scalar_transpose, ADDS(TRANSPOSE(a, p), p + 2)) X(transpose_add_scalar, TRANSPOSE(ADDS(a, p), p + 1)) X(flatten_pad, FLATTEN(PAD(a, p), p)) \
  X(invert_flip, INVERT(FLIP(a, p), p)) X(slice_transpose, SLICE(TRANSPOSE(a, p), p + 2)) X(transpose_slice, TRANSPOSE(SLICE(a, p), p + 5)) \
  X(transpose_flip_slice, TRANSPOSE(FLIP(SLICE(a, p), p + 5), p + 6))
#define MKL l44_t a; if (!a.resize(shape[0], shape[1])) return -1; fill(a, data);
#define KL(NAME, ...)  KERNEL int K(k_tr_##NAME##_L)(SIGT){ MKL return stat_vs_run(__VA_ARGS__, t, rt); }
#if KINDSEL == 5
PROGRAMS_L(KL)
#endif
// B: bounded dim (run-time dim 1..3); argument-free programs (axis arguments are p[0], passed as 0 by the harness)
using b3_t = na::ndarray_t<na::static_vector<unsigned,16>, na::static_vector<size_t,3>>;
#define PROGRAMS_B(X) X(transpose_none, view::transpose(a)) X(flatten, FLATTEN(a, p)) X(invert, INVERT(a, p)) X(add_scalar, ADDS(a, p)) X(sum, SUM(a, p)) X(flip, FLIP(a, p))
#define MKB b3_t a; if (!a.resize(mk_sv<size_t,3>(shape, dim))) return -1; fill(a, data);
#define KB(NAME, ...)  KERNEL int K(k_tr_##NAME##_B)(SIGT){ MKB return stat_vs_run(__VA_ARGS__, t, rt); }
#if KINDSEL == 4
PROGRAMS_B(KB)
#endif
