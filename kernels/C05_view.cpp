// C05 (view level): view::slice (packed) and view::apply_slice (dynamic list) on hybrid arrays with symbolic data
#include "common.hpp"
#include "C05_common.hpp"
#include "nmtools/array/view/slice.hpp"
namespace view = nm::view;
using v1_t = hyb_t<unsigned,8,1>; using v2_t = hyb_t<unsigned,16,2>; using v3_t = hyb_t<unsigned,27,3>;
// NOTE: view::slice(a, one_tuple) is not usable for a single slice: its `nmtools_tuple{slices...}` copy-deduces the tuple itself (std::tuple CTAD)
// and the three parts are then read as three integer items (does not compile). One-axis views go through view::apply_slice with an explicit pack.
#define VPAT1(NAME, ...) \
KERNEL int K(k_vslice1_##NAME)(const size_t* shape, const unsigned* data, int start, int stop, int step, const size_t* idx, size_t nidx, size_t* oshape, size_t* odim, unsigned* out){ \
  v1_t a; if (!mk1(a,shape,data)) return -1; using s_t = decltype(nmtools_tuple{__VA_ARGS__}); \
  return observe(view::apply_slice(a, nmtools_tuple<s_t>{s_t{__VA_ARGS__}}), idx, nidx, oshape, odim, out); }
VPAT1(nnn, None, None, None)
VPAT1(inn, start, None, None)
VPAT1(nin, None, stop, None)
VPAT1(iin, start, stop, None)
VPAT1(nni, None, None, step)
VPAT1(ini, start, None, step)
VPAT1(nii, None, stop, step)
VPAT1(iii, start, stop, step)
VPAT1(nn, None, None)
VPAT1(ii, start, stop)
#define S(j) nmtools_tuple{p[3*(j)],p[3*(j)+1],p[3*(j)+2]}
#define I(j) p[3*(j)]
#define E Ellipsis
#define VFAM(NAME, DIM, ...) \
KERNEL int K(k_vslice##DIM##_##NAME)(const size_t* shape, const unsigned* data, const int* p, const size_t* idx, size_t nidx, size_t* oshape, size_t* odim, unsigned* out){ \
  v##DIM##_t a; if (!mk##DIM(a,shape,data)) return -1; return observe(view::slice(a, __VA_ARGS__), idx, nidx, oshape, odim, out); }
VFAM(ss,  2, S(0), S(1))
VFAM(is,  2, I(0), S(1))
VFAM(si,  2, S(0), I(1))
VFAM(es,  2, E, S(1))
VFAM(se,  2, S(0), E)
VFAM(ie,  2, I(0), E)
VFAM(ei,  2, E, I(1))
VFAM(ses, 3, S(0), E, S(2))
VFAM(sis, 3, S(0), I(1), S(2))
VFAM(ies, 3, I(0), E, S(2))
VFAM(sei, 3, S(0), E, I(2))
VFAM(sss, 3, S(0), S(1), S(2))
#undef S
#undef I
#undef E
#define VDYN(DIM) \
KERNEL int K(k_vapply##DIM)(const size_t* shape, const unsigned* data, const int* kinds, const int* p, size_t ns, const size_t* idx, size_t nidx, size_t* oshape, size_t* odim, unsigned* out){ \
  v##DIM##_t a; if (!mk##DIM(a,shape,data)) return -1; d_sv_t sl; mk_dslices(sl,kinds,p,ns); \
  return observe(view::apply_slice(a, sl), idx, nidx, oshape, odim, out); }
VDYN(2)
VDYN(3)
