// C09 "ctargs": the same view call made (a) with COMPILE-TIME arguments (meta::ct_v<K>, the literals 2_ct / "-1"_ct, tuples of
// such constants, nm::True / nm::False) on a FIXED-shape operand (raw C array unsigned[2][3] or nested std::array), and
// (b) with the same values as RUN-TIME arguments on a hybrid operand (bounded buffer, run-time shape) of the same shape and data.
// Also the two mixed calls: constant arguments on the hybrid operand (k_ct_* kind 2) and run-time arguments on the raw array (k_rt_* kind 0).
// Types cannot be symbolic: every compile-time variant is one `case` selected by a per-query constant; data and index are symbolic.
// Kernels only marshal: build the operand, call the unmodified view, copy (dim, shape, size - plain and constant-preferring forms -, element) out.
// One section per view; props/C09.py builds every section as its own small TU (-DONLY=<n>) to keep the CBMC front end cheap.
#include "common.hpp"
#include "nmtools/constants.hpp"
#include "nmtools/array/view/flip.hpp"
#include "nmtools/array/view/transpose.hpp"
#include "nmtools/array/view/moveaxis.hpp"
#include "nmtools/array/view/swapaxes.hpp"
#include "nmtools/array/view/expand_dims.hpp"
#include "nmtools/array/view/squeeze.hpp"
#include "nmtools/array/view/reshape.hpp"
#include "nmtools/array/view/atleast_nd.hpp"
namespace view = nm::view;
using namespace nm::literals;
using h2_t = hyb_t<unsigned,6,2>;     // capacity = the operand size: symbolic-index reads from the bounded buffer cost the solver per cell
using h3_t = hyb_t<unsigned,12,3>;
using std23_t  = std::array<std::array<unsigned,3>,2>;
using std232_t = std::array<std::array<std::array<unsigned,2>,3>,2>;
using std213_t = std::array<std::array<std::array<unsigned,3>,1>,2>;

// the shape of a fixed-shape view may be a tuple of integral constants: read it element by element
template <typename S> static inline size_t put_shape(const S& s, size_t* out){
  if constexpr (meta::is_tuple_v<S>) {
    constexpr auto N = meta::len_v<S>;
    meta::template_for<N>([&](auto i){ out[i] = (size_t)nm::at(s,i); });
    return N;
  } else return put(s, out);
}
// observe a view / maybe<view> / either<num,view> / num: om[0] = len(shape), om[1] = dim(), om[2] = size(); om[3..5] the same through shape<true> / dim<true> / size<true> (shape at oshape[4..7]); om[6] = which fixed_* traits the view type has
template <typename V> static inline int obs(const V& v, const size_t* idx, size_t nidx, size_t* oshape, size_t* om, unsigned* out){
  if constexpr (meta::is_maybe_v<V>) {
    if (!nm::has_value(v)) return 0;
    return obs(nm::unwrap(v), idx, nidx, oshape, om, out);
  } else if constexpr (meta::is_either_v<V>) {
    using L = meta::get_either_left_t<V>; using R = meta::get_either_right_t<V>;
    if (auto l = nm::get_if<L>(&v)) return obs(*l, idx, nidx, oshape, om, out);
    else return obs(*nm::get_if<R>(&v), idx, nidx, oshape, om, out);
  } else if constexpr (meta::is_num_v<V>) {
    om[0] = 0; om[1] = 0; om[2] = 1; om[3] = 0; om[4] = 0; om[5] = 1; om[6] = 0; *out = (unsigned)static_cast<meta::get_element_type_t<V>>(v); return nidx == 0 ? 1 : 2;
  } else {
    om[0] = put_shape(nm::shape(v), oshape); om[1] = (size_t)nm::dim(v); om[2] = (size_t)nm::size(v);
    // the forms that PREFER compile-time values (integral constants from meta::fixed_shape / fixed_dim / fixed_size where the view type has them): what outer views are built from
    om[3] = put_shape(nm::shape<true>(v), oshape + 4); om[4] = (size_t)nm::dim<true>(v); om[5] = (size_t)nm::size<true>(v);
    om[6] = (meta::is_fixed_shape_v<V> ? 1 : 0) | (meta::is_fixed_dim_v<V> ? 2 : 0) | (meta::is_fixed_size_v<V> ? 4 : 0);
    if (nidx != om[0]) return 2;
    // a view over a raw / std::array operand needs an index of compile-time length
    if constexpr (meta::is_fixed_dim_v<V>) *out = (unsigned)v(mk_arr<size_t,meta::fixed_dim_v<V>>(idx));
    else *out = (unsigned)v(mk_sv<size_t,8>(idx, nidx));
    return 1;
  }
}
#define OUTS const size_t* idx, size_t nidx, size_t* oshape, size_t* om, unsigned* out
#define OBSV(v) obs(v, idx, nidx, oshape, om, out)
#define CASE(n, ...) case n: return OBSV(__VA_ARGS__);
#define RT_IN const size_t* shape, const unsigned* data
#define HYB(D) h##D##_t a; if (!mk##D(a,shape,data)) return -1
// compile-time-argument side: kind 0 = raw C array, 1 = nested std::array, 2 = HYBRID operand of the same shape (constant arguments, run-time shape); `var` selects the instantiation
#define CT_KERNEL(NAME, RAWDECL, STDT, CELLS, D, ...) \
  KERNEL int K(k_ct_##NAME)(int kind, int var, const unsigned* data, OUTS){ \
    if (kind == 0){ RAWDECL; K(k_fill_u32)((unsigned*)&a, data, CELLS); return ct_##NAME(var, a, idx, nidx, oshape, om, out); } \
    if (kind == 1){ STDT a; K(k_fill_u32)((unsigned*)&a, data, CELLS); return ct_##NAME(var, a, idx, nidx, oshape, om, out); } \
    h##D##_t a; const size_t shape[D] = {__VA_ARGS__}; if (!mk##D(a,shape,data)) return -1; return ct_##NAME(var, a, idx, nidx, oshape, om, out); }
#define CT23(NAME)  CT_KERNEL(NAME, unsigned a[2][3],    std23_t,  6, 2, 2,3)
#define CT232(NAME) CT_KERNEL(NAME, unsigned a[2][3][2], std232_t, 12, 3, 2,3,2)
#define CT213(NAME) CT_KERNEL(NAME, unsigned a[2][1][3], std213_t, 6, 3, 2,1,3)
// run-time-argument side: kind 0 = raw C array (run-time arguments, fixed shape), otherwise the hybrid operand built from (shape, data)
#define RT_ON(RAWDECL, CELLS, D, ...) if (kind == 0){ RAWDECL; K(k_fill_u32)((unsigned*)&a, data, CELLS); return OBSV(__VA_ARGS__); } HYB(D); return OBSV(__VA_ARGS__);
#define RT23(...)  RT_ON(unsigned a[2][3], 6, 2, __VA_ARGS__)
#define RT232(...) RT_ON(unsigned a[2][3][2], 12, 3, __VA_ARGS__)
#define RT213(...) RT_ON(unsigned a[2][1][3], 6, 3, __VA_ARGS__)
#define RT13(...)  RT_ON(unsigned a[1][3], 3, 2, __VA_ARGS__)
#define CTF(NAME) template <typename A> static inline int ct_##NAME(int var, const A& a, OUTS)

#ifndef ONLY
#define ON(n) 1
#else
#define ON(n) (ONLY == n)
#endif

#if ON(1)
// ---- flip(a, axis): constant axis (also negative), None, tuple of constants; operand (2,3,2)
CTF(flip){ switch (var){
  CASE(0, view::flip(a, 0_ct)) CASE(1, view::flip(a, 1_ct)) CASE(2, view::flip(a, 2_ct))
  CASE(3, view::flip(a, "-1"_ct)) CASE(4, view::flip(a, "-2"_ct)) CASE(5, view::flip(a, "-3"_ct))
  CASE(6, view::flip(a, nm::None)) CASE(7, view::flip(a, nmtools_tuple{0_ct, 2_ct})) CASE(8, view::flip(a, nmtools_tuple{"-1"_ct, 1_ct}))
  } return -2; }
CT232(flip)
KERNEL int K(k_rt_flip)(int kind, RT_IN, int axis, OUTS){ RT232(view::flip(a, axis)) }
KERNEL int K(k_rt_flip_none)(int kind, RT_IN, OUTS){ RT232(view::flip(a, nm::None)) }
KERNEL int K(k_rt_flip2)(int kind, RT_IN, const int* axes, OUTS){ RT232(view::flip(a, mk_arr<int,2>(axes))) }
#endif

#if ON(2)
// ---- transpose(a, tuple of constants) / default; operand (2,3,2)
CTF(transpose){ switch (var){
  CASE(0, view::transpose(a, nmtools_tuple{0_ct,1_ct,2_ct})) CASE(1, view::transpose(a, nmtools_tuple{0_ct,2_ct,1_ct}))
  CASE(2, view::transpose(a, nmtools_tuple{1_ct,0_ct,2_ct})) CASE(3, view::transpose(a, nmtools_tuple{1_ct,2_ct,0_ct}))
  CASE(4, view::transpose(a, nmtools_tuple{2_ct,0_ct,1_ct})) CASE(5, view::transpose(a, nmtools_tuple{2_ct,1_ct,0_ct}))
  CASE(6, view::transpose(a))
  } return -2; }
CT232(transpose)
KERNEL int K(k_rt_transpose)(int kind, RT_IN, const int* axes, OUTS){ RT232(view::transpose(a, mk_arr<int,3>(axes))) }
KERNEL int K(k_rt_transpose_default)(int kind, RT_IN, OUTS){ RT232(view::transpose(a)) }
#endif

#if ON(3)
// ---- moveaxis(a, ct source, ct destination) incl. negative; operand (2,3,2)
CTF(moveaxis){ switch (var){
  CASE(0, view::moveaxis(a, 0_ct, 1_ct)) CASE(1, view::moveaxis(a, 0_ct, 2_ct)) CASE(2, view::moveaxis(a, 1_ct, 0_ct))
  CASE(3, view::moveaxis(a, 2_ct, 0_ct)) CASE(4, view::moveaxis(a, 1_ct, 2_ct)) CASE(5, view::moveaxis(a, 2_ct, 1_ct))
  CASE(6, view::moveaxis(a, 0_ct, "-1"_ct)) CASE(7, view::moveaxis(a, "-1"_ct, 0_ct)) CASE(8, view::moveaxis(a, "-2"_ct, "-1"_ct)) CASE(9, view::moveaxis(a, "-3"_ct, "-2"_ct))
  CASE(10, view::moveaxis(a, 1_ct, 1_ct))
  } return -2; }
CT232(moveaxis)
KERNEL int K(k_rt_moveaxis)(int kind, RT_IN, int src, int dst, OUTS){ RT232(view::moveaxis(a, src, dst)) }
#endif

#if ON(4)
// ---- swapaxes(a, ct, ct) incl. negative; operand (2,3,2)
CTF(swapaxes){ switch (var){
  CASE(0, view::swapaxes(a, 0_ct, 1_ct)) CASE(1, view::swapaxes(a, 0_ct, 2_ct)) CASE(2, view::swapaxes(a, 1_ct, 2_ct))
  CASE(3, view::swapaxes(a, 2_ct, 0_ct)) CASE(4, view::swapaxes(a, "-1"_ct, 0_ct)) CASE(5, view::swapaxes(a, "-2"_ct, "-1"_ct))
  CASE(6, view::swapaxes(a, 1_ct, "-3"_ct)) CASE(7, view::swapaxes(a, 1_ct, 1_ct))
  } return -2; }
CT232(swapaxes)
KERNEL int K(k_rt_swapaxes)(int kind, RT_IN, int a1, int a2, OUTS){ RT232(view::swapaxes(a, a1, a2)) }
#endif

#if ON(5)
// ---- expand_dims(a, ct axis) incl. negative and a tuple of constants; operand (2,3)
CTF(expand_dims){ switch (var){
  CASE(0, view::expand_dims(a, 0_ct)) CASE(1, view::expand_dims(a, 1_ct)) CASE(2, view::expand_dims(a, 2_ct))
  CASE(3, view::expand_dims(a, "-1"_ct)) CASE(4, view::expand_dims(a, "-2"_ct)) CASE(5, view::expand_dims(a, "-3"_ct))
  CASE(6, view::expand_dims(a, nmtools_tuple{0_ct, 2_ct})) CASE(7, view::expand_dims(a, nmtools_tuple{1_ct, 3_ct}))
  } return -2; }
CT23(expand_dims)
KERNEL int K(k_rt_expand_dims)(int kind, RT_IN, int axis, OUTS){ RT23(view::expand_dims(a, axis)) }
KERNEL int K(k_rt_expand_dims2)(int kind, RT_IN, const int* axes, OUTS){ RT23(view::expand_dims(a, mk_arr<int,2>(axes))) }
#endif

#if ON(6)
// ---- squeeze of a fixed (2,1,3) operand (no argument: the fixed shape is the compile-time input)
CTF(squeeze){ switch (var){ CASE(0, view::squeeze(a)) } return -2; }
CT213(squeeze)
KERNEL int K(k_rt_squeeze)(int kind, RT_IN, OUTS){ RT213(view::squeeze(a)) }
// the same on fixed (1,2,3) and (2,3,1) operands
using std123_t = std::array<std::array<std::array<unsigned,3>,2>,1>;
using std231_t = std::array<std::array<std::array<unsigned,1>,3>,2>;
CTF(squeeze123){ switch (var){ CASE(1, view::squeeze(a)) } return -2; }   // var = the harness variant number
CTF(squeeze231){ switch (var){ CASE(2, view::squeeze(a)) } return -2; }
CT_KERNEL(squeeze123, unsigned a[1][2][3], std123_t, 6, 3, 1,2,3)
CT_KERNEL(squeeze231, unsigned a[2][3][1], std231_t, 6, 3, 2,3,1)
KERNEL int K(k_rt_squeeze123)(int kind, RT_IN, OUTS){ RT_ON(unsigned a[1][2][3], 6, 3, view::squeeze(a)) }
KERNEL int K(k_rt_squeeze231)(int kind, RT_IN, OUTS){ RT_ON(unsigned a[2][3][1], 6, 3, view::squeeze(a)) }
#endif

#if ON(7)
// ---- reshape(a, tuple of constants incl. one -1); operand (2,3,2)
CTF(reshape){ switch (var){
  CASE(0, view::reshape(a, nmtools_tuple{12_ct})) CASE(1, view::reshape(a, nmtools_tuple{3_ct,4_ct})) CASE(2, view::reshape(a, nmtools_tuple{4_ct,3_ct}))
  CASE(3, view::reshape(a, nmtools_tuple{2_ct,2_ct,3_ct})) CASE(4, view::reshape(a, nmtools_tuple{"-1"_ct})) CASE(5, view::reshape(a, nmtools_tuple{"-1"_ct,4_ct}))
  CASE(6, view::reshape(a, nmtools_tuple{6_ct,"-1"_ct})) CASE(7, view::reshape(a, nmtools_tuple{3_ct,"-1"_ct,2_ct})) CASE(8, view::reshape(a, nmtools_tuple{1_ct,12_ct,1_ct,1_ct}))
  } return -2; }
CT232(reshape)
KERNEL int K(k_rt_reshape)(int kind, RT_IN, const int* dst, size_t nd, OUTS){ RT232(view::reshape(a, mk_sv<int,4>(dst,nd))) }
#endif

#if ON(8)
// ---- atleast_nd(a, ct nd); operand (2,3)
CTF(atleast_nd){ switch (var){
  CASE(0, view::atleast_nd(a, 1_ct)) CASE(1, view::atleast_nd(a, 2_ct)) CASE(2, view::atleast_nd(a, 3_ct)) CASE(3, view::atleast_nd(a, 4_ct))
  } return -2; }
CT23(atleast_nd)
KERNEL int K(k_rt_atleast_nd)(int kind, RT_IN, size_t nd, OUTS){ RT23(view::atleast_nd(a, nd)) }
#endif

#if ON(9)
#include "nmtools/array/view/tile.hpp"
// ---- tile(a, tuple of constant reps); operand (2,3)
CTF(tile){ switch (var){
  CASE(0, view::tile(a, nmtools_tuple{2_ct})) CASE(1, view::tile(a, nmtools_tuple{1_ct,2_ct})) CASE(2, view::tile(a, nmtools_tuple{2_ct,1_ct}))
  CASE(3, view::tile(a, nmtools_tuple{2_ct,2_ct})) CASE(4, view::tile(a, nmtools_tuple{2_ct,1_ct,2_ct})) CASE(5, view::tile(a, nmtools_tuple{1_ct,1_ct}))
  CASE(6, view::tile(a, nmtools_tuple{3_ct,1_ct,1_ct,2_ct}))
  } return -2; }
CT23(tile)
KERNEL int K(k_rt_tile)(int kind, RT_IN, const size_t* reps, size_t nr, OUTS){ RT23(view::tile(a, mk_sv<size_t,4>(reps,nr))) }
#endif

#if ON(10)
#include "nmtools/array/view/repeat.hpp"
// ---- repeat(a, ct repeats, ct axis / None) and per-element constant repeats; operand (2,3)
CTF(repeat){ switch (var){
  CASE(0, view::repeat(a, 2_ct, 0_ct)) CASE(1, view::repeat(a, 2_ct, 1_ct)) CASE(2, view::repeat(a, 3_ct, "-1"_ct)) CASE(3, view::repeat(a, 2_ct, "-2"_ct))
  CASE(4, view::repeat(a, 1_ct, 0_ct)) CASE(5, view::repeat(a, 2_ct, nm::None)) CASE(6, view::repeat(a, nmtools_tuple{1_ct,2_ct}, 0_ct))
  CASE(7, view::repeat(a, nmtools_tuple{2_ct,1_ct,3_ct}, 1_ct)) CASE(8, view::repeat(a, nmtools_tuple{2_ct,1_ct,3_ct}, "-1"_ct))
  } return -2; }
CT23(repeat)
KERNEL int K(k_rt_repeat)(int kind, RT_IN, size_t repeats, int axis, OUTS){ RT23(view::repeat(a, repeats, axis)) }
KERNEL int K(k_rt_repeat_flat)(int kind, RT_IN, size_t repeats, OUTS){ RT23(view::repeat(a, repeats, nm::None)) }
KERNEL int K(k_rt_repeat_each)(int kind, RT_IN, const size_t* reps, size_t nr, int axis, OUTS){ RT23(view::repeat(a, mk_sv<size_t,4>(reps,nr), axis)) }
#endif

#if ON(11)
#include "nmtools/array/view/roll.hpp"
// ---- roll(a, ct shift, ct axis / None), shifts negative and beyond the extent, tuples; operand (2,3)
CTF(roll){ switch (var){
  CASE(0, view::roll(a, 1_ct, 0_ct)) CASE(1, view::roll(a, 1_ct, 1_ct)) CASE(2, view::roll(a, 2_ct, "-1"_ct)) CASE(3, view::roll(a, "-1"_ct, 1_ct))
  CASE(4, view::roll(a, "-2"_ct, "-1"_ct)) CASE(5, view::roll(a, 4_ct, 1_ct)) CASE(6, view::roll(a, "-5"_ct, 1_ct)) CASE(7, view::roll(a, 3_ct, "-2"_ct))
  CASE(8, view::roll(a, "-3"_ct, 0_ct)) CASE(9, view::roll(a, 0_ct, 1_ct)) CASE(10, view::roll(a, 1_ct)) CASE(11, view::roll(a, "-8"_ct))
  CASE(12, view::roll(a, nmtools_tuple{1_ct,2_ct}, nmtools_tuple{0_ct,1_ct})) CASE(13, view::roll(a, 1_ct, nmtools_tuple{1_ct,0_ct}))
  CASE(14, view::roll(a, nmtools_tuple{1_ct,"-4"_ct}, nmtools_tuple{"-2"_ct,"-1"_ct}))
  } return -2; }
CT23(roll)
KERNEL int K(k_rt_roll)(int kind, RT_IN, int shift, int axis, OUTS){ RT23(view::roll(a, shift, axis)) }
KERNEL int K(k_rt_roll_flat)(int kind, RT_IN, int shift, OUTS){ RT23(view::roll(a, shift, nm::None)) }
KERNEL int K(k_rt_roll_axes)(int kind, RT_IN, const int* shift, const int* axes, OUTS){ RT23(view::roll(a, mk_arr<int,2>(shift), mk_arr<int,2>(axes))) }
KERNEL int K(k_rt_roll_axes_scalar)(int kind, RT_IN, int shift, const int* axes, OUTS){ RT23(view::roll(a, shift, mk_arr<int,2>(axes))) }
#endif

#if ON(12)
#include "nmtools/array/view/take.hpp"
// ---- take(a, index array, ct axis): fixed std::array of run-time (symbolic) entries, and a tuple of constants; operand (2,3)
template <typename A> static inline int ct_take(int var, const A& a, const int* ind, OUTS){ auto ia = mk_arr<int,4>(ind); switch (var){
  CASE(0, view::take(a, ia, 0_ct)) CASE(1, view::take(a, ia, 1_ct)) CASE(2, view::take(a, ia, "-1"_ct)) CASE(3, view::take(a, ia, "-2"_ct))
  CASE(4, view::take(a, nmtools_tuple{2_ct,0_ct,0_ct,1_ct}, 1_ct)) CASE(5, view::take(a, nmtools_tuple{2_ct,0_ct,0_ct,1_ct}, "-1"_ct)) CASE(6, view::take(a, nmtools_tuple{1_ct,1_ct,0_ct}, 0_ct))
  CASE(7, view::take(a, ia, nm::None))
  } return -2; }
KERNEL int K(k_ct_take)(int kind, int var, const unsigned* data, const int* ind, OUTS){
  if (kind == 0){ unsigned a[2][3]; K(k_fill_u32)((unsigned*)&a, data, 6); return ct_take(var, a, ind, idx, nidx, oshape, om, out); }
  if (kind == 1){ std23_t a; K(k_fill_u32)((unsigned*)&a, data, 6); return ct_take(var, a, ind, idx, nidx, oshape, om, out); }
  h2_t a; const size_t shape[2] = {2,3}; if (!mk2(a,shape,data)) return -1; return ct_take(var, a, ind, idx, nidx, oshape, om, out); }
KERNEL int K(k_rt_take)(int kind, RT_IN, const int* ind, size_t ni, int axis, OUTS){ RT23(view::take(a, mk_sv<int,4>(ind,ni), axis)) }
KERNEL int K(k_rt_take_flat)(int kind, RT_IN, const int* ind, size_t ni, OUTS){ RT23(view::take(a, mk_sv<int,4>(ind,ni), nm::None)) }
#endif

#if ON(13)
#include "nmtools/array/view/sum.hpp"
// ---- sum(a, ct axis, dtype None, initial None, keepdims nm::True / nm::False / default); operand (2,3,2)
CTF(sum){ switch (var){
  CASE(0, view::sum(a, 0_ct)) CASE(1, view::sum(a, 1_ct)) CASE(2, view::sum(a, 2_ct)) CASE(3, view::sum(a, "-1"_ct)) CASE(4, view::sum(a, "-2"_ct)) CASE(5, view::sum(a, "-3"_ct))
  CASE(6, view::sum(a, 0_ct, nm::None, nm::None, nm::True)) CASE(7, view::sum(a, 1_ct, nm::None, nm::None, nm::True)) CASE(8, view::sum(a, "-1"_ct, nm::None, nm::None, nm::True))
  CASE(9, view::sum(a, "-2"_ct, nm::None, nm::None, nm::False)) CASE(10, view::sum(a, nmtools_tuple{0_ct,2_ct})) CASE(11, view::sum(a, nmtools_tuple{"-1"_ct,0_ct}, nm::None, nm::None, nm::True))
  CASE(12, view::sum(a, nmtools_tuple{1_ct,"-1"_ct}, nm::None, nm::None, nm::False)) CASE(13, view::sum(a, nm::None)) CASE(14, view::sum(a, nm::None, nm::None, nm::None, nm::True))
  } return -2; }
CT232(sum)
KERNEL int K(k_rt_sum)(int kind, RT_IN, int axis, int keepdims, OUTS){ RT232(view::sum(a, axis, nm::None, nm::None, (bool)keepdims)) }
KERNEL int K(k_rt_sum2)(int kind, RT_IN, const int* axes, int keepdims, OUTS){ RT232(view::sum(a, mk_arr<int,2>(axes), nm::None, nm::None, (bool)keepdims)) }
KERNEL int K(k_rt_sum_none)(int kind, RT_IN, int keepdims, OUTS){ RT232(view::sum(a, nm::None, nm::None, nm::None, (bool)keepdims)) }
#endif

#if ON(14)
#include "nmtools/array/view/cumsum.hpp"
// ---- cumsum(a, ct axis); operand (2,3,2)
CTF(cumsum){ switch (var){
  CASE(0, view::cumsum(a, 0_ct)) CASE(1, view::cumsum(a, 1_ct)) CASE(2, view::cumsum(a, 2_ct)) CASE(3, view::cumsum(a, "-1"_ct)) CASE(4, view::cumsum(a, "-2"_ct)) CASE(5, view::cumsum(a, "-3"_ct))
  } return -2; }
CT232(cumsum)
KERNEL int K(k_rt_cumsum)(int kind, RT_IN, int axis, OUTS){ RT232(view::cumsum(a, axis)) }
// the same on a (2,3) operand (cheaper for the solver: the 3-d variants are split between the quick and the thorough tier)
CTF(cumsum2){ switch (var){
  CASE(0, view::cumsum(a, 0_ct)) CASE(1, view::cumsum(a, 1_ct)) CASE(2, view::cumsum(a, "-1"_ct)) CASE(3, view::cumsum(a, "-2"_ct))
  } return -2; }
CT23(cumsum2)
KERNEL int K(k_rt_cumsum2)(int kind, RT_IN, int axis, OUTS){ RT23(view::cumsum(a, axis)) }
#endif

#if ON(15)
#include "nmtools/array/view/ufuncs/add.hpp"
// ---- reduce_add(a, ct axis, dtype None, initial (run-time value), keepdims True/False); operand (2,3)
template <typename A> static inline int ct_reduce_add(int var, const A& a, unsigned init, OUTS){ switch (var){
  CASE(0, view::reduce_add(a, 0_ct)) CASE(1, view::reduce_add(a, 1_ct)) CASE(2, view::reduce_add(a, "-1"_ct)) CASE(3, view::reduce_add(a, "-2"_ct))
  CASE(4, view::reduce_add(a, 0_ct, nm::None, init, nm::True)) CASE(5, view::reduce_add(a, "-1"_ct, nm::None, init, nm::True)) CASE(6, view::reduce_add(a, 1_ct, nm::None, init, nm::False))
  CASE(7, view::reduce_add(a, nmtools_tuple{0_ct,1_ct}, nm::None, init, nm::True)) CASE(8, view::reduce_add(a, nmtools_tuple{"-1"_ct,"-2"_ct}, nm::None, init, nm::False))
  } return -2; }
KERNEL int K(k_ct_reduce_add)(int kind, int var, const unsigned* data, unsigned init, OUTS){
  if (kind == 0){ unsigned a[2][3]; K(k_fill_u32)((unsigned*)&a, data, 6); return ct_reduce_add(var, a, init, idx, nidx, oshape, om, out); }
  if (kind == 1){ std23_t a; K(k_fill_u32)((unsigned*)&a, data, 6); return ct_reduce_add(var, a, init, idx, nidx, oshape, om, out); }
  h2_t a; const size_t shape[2] = {2,3}; if (!mk2(a,shape,data)) return -1; return ct_reduce_add(var, a, init, idx, nidx, oshape, om, out); }
KERNEL int K(k_rt_reduce_add)(int kind, RT_IN, int axis, OUTS){ RT23(view::reduce_add(a, axis)) }
KERNEL int K(k_rt_reduce_add_ik)(int kind, RT_IN, int axis, unsigned init, int keepdims, OUTS){ RT23(view::reduce_add(a, axis, nm::None, init, (bool)keepdims)) }
KERNEL int K(k_rt_reduce_add2_ik)(int kind, RT_IN, const int* axes, unsigned init, int keepdims, OUTS){ RT23(view::reduce_add(a, mk_arr<int,2>(axes), nm::None, init, (bool)keepdims)) }
#endif

#if ON(16)
#include "nmtools/array/view/diagonal.hpp"
// ---- diagonal(a, ct offset >= 0, ct axis1, ct axis2); operand (2,3,2)   (negative offsets: known open defect C04-diagonal-negative-offset, not exercised)
CTF(diagonal){ switch (var){
  CASE(0, view::diagonal(a)) CASE(1, view::diagonal(a, 0_ct, 0_ct, 1_ct)) CASE(2, view::diagonal(a, 1_ct, 0_ct, 1_ct)) CASE(3, view::diagonal(a, 2_ct, 0_ct, 1_ct))
  CASE(4, view::diagonal(a, 0_ct, 1_ct, 0_ct)) CASE(5, view::diagonal(a, 1_ct, 1_ct, 0_ct)) CASE(6, view::diagonal(a, 0_ct, 0_ct, 2_ct)) CASE(7, view::diagonal(a, 1_ct, 0_ct, 2_ct))
  CASE(8, view::diagonal(a, 0_ct, 1_ct, 2_ct)) CASE(9, view::diagonal(a, 1_ct, 1_ct, "-1"_ct)) CASE(10, view::diagonal(a, 0_ct, "-1"_ct, "-2"_ct)) CASE(11, view::diagonal(a, 1_ct, "-3"_ct, "-2"_ct))
  } return -2; }
CT232(diagonal)
KERNEL int K(k_rt_diagonal)(int kind, RT_IN, int offset, int axis1, int axis2, OUTS){ RT232(view::diagonal(a, offset, axis1, axis2)) }
#endif

#if ON(17)
#include "nmtools/array/view/tril.hpp"
#include "nmtools/array/view/triu.hpp"
// ---- tril / triu(a, ct k); operand (2,3)
CTF(tril){ switch (var){
  CASE(0, view::tril(a)) CASE(1, view::tril(a, 0_ct)) CASE(2, view::tril(a, 1_ct)) CASE(3, view::tril(a, 2_ct)) CASE(4, view::tril(a, "-1"_ct)) CASE(5, view::tril(a, "-2"_ct)) CASE(6, view::tril(a, 3_ct))
  } return -2; }
CTF(triu){ switch (var){
  CASE(0, view::triu(a)) CASE(1, view::triu(a, 0_ct)) CASE(2, view::triu(a, 1_ct)) CASE(3, view::triu(a, 2_ct)) CASE(4, view::triu(a, "-1"_ct)) CASE(5, view::triu(a, "-2"_ct)) CASE(6, view::triu(a, 3_ct))
  } return -2; }
CT23(tril)
CT23(triu)
KERNEL int K(k_rt_tril)(int kind, RT_IN, int k, OUTS){ RT23(view::tril(a, k)) }
KERNEL int K(k_rt_triu)(int kind, RT_IN, int k, OUTS){ RT23(view::triu(a, k)) }
#endif

#if ON(18)
#include "nmtools/array/view/eye.hpp"
#include "nmtools/array/view/tri.hpp"
// ---- generators with constant arguments (no operand): eye / tri (ct N, ct M / None, ct k)
#define GEN_KERNEL(NAME, ...) KERNEL int K(k_ct_##NAME)(int var, OUTS){ switch (var){ __VA_ARGS__ } return -2; }
#define U32 nm::dtype_t<unsigned>{}
GEN_KERNEL(eye,
  CASE(0, view::eye(2_ct, 3_ct, 0_ct, U32)) CASE(1, view::eye(2_ct, 3_ct, 1_ct, U32)) CASE(2, view::eye(2_ct, 3_ct, 2_ct, U32)) CASE(3, view::eye(2_ct, 3_ct, "-1"_ct, U32))
  CASE(4, view::eye(3_ct, 2_ct, "-2"_ct, U32)) CASE(5, view::eye(3_ct, 2_ct, 1_ct, U32)) CASE(6, view::eye(3_ct, nm::None, 0_ct, U32)) CASE(7, view::eye(3_ct, nm::None, "-1"_ct, U32))
  CASE(8, view::eye(3_ct, nm::None, 2_ct, U32)) CASE(9, view::eye(1_ct, 4_ct, 3_ct, U32)))
GEN_KERNEL(tri,
  CASE(0, view::tri(2_ct, 3_ct, 0_ct, U32)) CASE(1, view::tri(2_ct, 3_ct, 1_ct, U32)) CASE(2, view::tri(2_ct, 3_ct, 2_ct, U32)) CASE(3, view::tri(2_ct, 3_ct, "-1"_ct, U32))
  CASE(4, view::tri(3_ct, 2_ct, "-2"_ct, U32)) CASE(5, view::tri(3_ct, 2_ct, 1_ct, U32)) CASE(6, view::tri(3_ct, nm::None, 0_ct, U32)) CASE(7, view::tri(3_ct, nm::None, "-1"_ct, U32))
  CASE(8, view::tri(3_ct, nm::None, 2_ct, U32)) CASE(9, view::tri(1_ct, 4_ct, 3_ct, U32)))
// mixed: constant N, M with a run-time k (var = shape variant), and run-time N, M with a constant k (var = 2 * k variant + square)
#define MIXK(NAME, F) KERNEL int K(k_mixk_##NAME)(int var, int k, OUTS){ switch (var){ \
  CASE(0, F(2_ct, 3_ct, k, U32)) CASE(1, F(3_ct, 2_ct, k, U32)) CASE(2, F(3_ct, nm::None, k, U32)) CASE(3, F(1_ct, 4_ct, k, U32)) } return -2; }
#define MIXN(NAME, F) KERNEL int K(k_mixn_##NAME)(int var, size_t n, size_t m, OUTS){ switch (var){ \
  CASE(0, F(n, m, 0_ct, U32)) CASE(1, F(n, nm::None, 0_ct, U32)) CASE(2, F(n, m, 1_ct, U32)) CASE(3, F(n, nm::None, 1_ct, U32)) CASE(4, F(n, m, 2_ct, U32)) CASE(5, F(n, nm::None, 2_ct, U32)) \
  CASE(6, F(n, m, "-1"_ct, U32)) CASE(7, F(n, nm::None, "-1"_ct, U32)) CASE(8, F(n, m, "-2"_ct, U32)) CASE(9, F(n, nm::None, "-2"_ct, U32)) CASE(10, F(n, m, 3_ct, U32)) CASE(11, F(n, nm::None, 3_ct, U32)) } return -2; }
MIXK(eye, view::eye) MIXK(tri, view::tri) MIXN(eye, view::eye) MIXN(tri, view::tri)
KERNEL int K(k_rt_eye)(size_t n, size_t m, int k, OUTS){ return OBSV(view::eye(n, m, k, U32)); }
KERNEL int K(k_rt_eye_square)(size_t n, int k, OUTS){ return OBSV(view::eye(n, nm::None, k, U32)); }
KERNEL int K(k_rt_tri)(size_t n, size_t m, int k, OUTS){ return OBSV(view::tri(n, m, k, U32)); }
KERNEL int K(k_rt_tri_square)(size_t n, int k, OUTS){ return OBSV(view::tri(n, nm::None, k, U32)); }
#endif

#if ON(19)
#include "nmtools/array/view/pad.hpp"
// ---- pad(a, tuple of constant widths [before_0, before_1, after_0, after_1], run-time fill value); operand (2,3)
template <typename A> static inline int ct_pad(int var, const A& a, unsigned value, OUTS){ switch (var){
  CASE(0, view::pad(a, nmtools_tuple{0_ct,0_ct,0_ct,0_ct}, value)) CASE(1, view::pad(a, nmtools_tuple{1_ct,0_ct,0_ct,0_ct}, value)) CASE(2, view::pad(a, nmtools_tuple{0_ct,2_ct,0_ct,0_ct}, value))
  CASE(3, view::pad(a, nmtools_tuple{0_ct,0_ct,1_ct,0_ct}, value)) CASE(4, view::pad(a, nmtools_tuple{0_ct,0_ct,0_ct,2_ct}, value)) CASE(5, view::pad(a, nmtools_tuple{1_ct,2_ct,0_ct,1_ct}, value))
  CASE(6, view::pad(a, nmtools_tuple{2_ct,1_ct,1_ct,2_ct}, value))
  } return -2; }
KERNEL int K(k_ct_pad)(int kind, int var, const unsigned* data, unsigned value, OUTS){
  if (kind == 0){ unsigned a[2][3]; K(k_fill_u32)((unsigned*)&a, data, 6); return ct_pad(var, a, value, idx, nidx, oshape, om, out); }
  if (kind == 1){ std23_t a; K(k_fill_u32)((unsigned*)&a, data, 6); return ct_pad(var, a, value, idx, nidx, oshape, om, out); }
  h2_t a; const size_t shape[2] = {2,3}; if (!mk2(a,shape,data)) return -1; return ct_pad(var, a, value, idx, nidx, oshape, om, out); }
KERNEL int K(k_rt_pad)(int kind, RT_IN, const size_t* widths, unsigned value, OUTS){ RT23(view::pad(a, mk_arr<size_t,4>(widths), value)) }
#endif

#if ON(20)
#include "nmtools/array/view/slice.hpp"
// ---- slice(a, items with constant parts): (start, stop, step) tuples of constants / None, constant integers, Ellipsis; operand (2,3)
#define SL(...) nmtools_tuple{__VA_ARGS__}
CTF(slice){ using nm::None; using nm::Ellipsis; switch (var){
  CASE(0, view::slice(a, SL(0_ct,2_ct,1_ct), SL(0_ct,3_ct,1_ct))) CASE(1, view::slice(a, SL(1_ct,2_ct,1_ct), SL(0_ct,3_ct,2_ct))) CASE(2, view::slice(a, SL(None,None,1_ct), SL(None,None,None)))
  CASE(3, view::slice(a, SL(None,None), SL(1_ct,None))) CASE(4, view::slice(a, SL(None,None), SL("-2"_ct,None))) CASE(5, view::slice(a, SL(None,1_ct), SL(None,"-1"_ct)))
  CASE(6, view::slice(a, 1_ct, SL(None,None,2_ct))) CASE(7, view::slice(a, SL(None,None), "-1"_ct)) CASE(8, view::slice(a, Ellipsis, SL(1_ct,3_ct))) CASE(9, view::slice(a, 0_ct, Ellipsis))
  CASE(10, view::slice(a, SL("-1"_ct,None,None), SL(None,None,2_ct))) CASE(11, view::slice(a, SL("-2"_ct,"-1"_ct,1_ct), SL("-3"_ct,"-1"_ct,1_ct)))
  } return -2; }
// (a NEGATIVE constant step does not compile: index/slice.hpp:833 `(unsigned_step_t)-step_` casts an int to integral_constant<int,-1>)
CT23(slice)
// run-time side: every item is a (start, stop, step) triple / integer of run-time ints; the None pattern is part of the type, so one kernel per pattern
#define RT_SLICE(NAME, ...) KERNEL int K(k_rt_slice_##NAME)(int kind, RT_IN, const int* p, OUTS){ using nm::None; using nm::Ellipsis; RT23(view::slice(a, __VA_ARGS__)) }
RT_SLICE(iii_iii, SL(p[0],p[1],p[2]), SL(p[3],p[4],p[5]))
RT_SLICE(nni_nnn, SL(None,None,p[2]), SL(None,None,None))
RT_SLICE(nn_in,   SL(None,None), SL(p[3],None))
RT_SLICE(ni_ni,   SL(None,p[1]), SL(None,p[4]))
RT_SLICE(i_nni,   p[0], SL(None,None,p[5]))
RT_SLICE(nn_i,    SL(None,None), p[3])
RT_SLICE(e_ii,    Ellipsis, SL(p[3],p[4]))
RT_SLICE(i_e,     p[0], Ellipsis)
RT_SLICE(inn_nni, SL(p[0],None,None), SL(None,None,p[5]))
#endif

#if ON(21)
#include "nmtools/array/view/arange.hpp"
#include "nmtools/array/view/full.hpp"
#include "nmtools/array/view/zeros.hpp"
#include "nmtools/array/view/ones.hpp"
// (arange(5_ct, 0_ct, "-2"_ct) does not compile: 5_ct / 0_ct are unsigned long constants, stop-start wraps and the float -> size_t conversion in
//  index::arange_shape is not a constant expression (index/arange.hpp:63))
// ---- generators: arange(ct stop) / (ct start, ct stop) / (ct start, ct stop, ct step); full / zeros / ones with a tuple-of-constants shape
#ifndef GEN_KERNEL
#define GEN_KERNEL(NAME, ...) KERNEL int K(k_ct_##NAME)(int var, OUTS){ switch (var){ __VA_ARGS__ } return -2; }
#define U32 nm::dtype_t<unsigned>{}
#endif
#define I32 nm::dtype_t<int>{}
// arange is indexed with a scalar (its operator() takes one integer, not a packed index)
template <typename V> static inline int obs_1d(const V& v, const size_t* idx, size_t nidx, size_t* oshape, size_t* om, unsigned* out){
  om[0] = put_shape(nm::shape(v), oshape); om[1] = (size_t)nm::dim(v); om[2] = (size_t)nm::size(v);
  om[3] = put_shape(nm::shape<true>(v), oshape + 4); om[4] = (size_t)nm::dim<true>(v); om[5] = (size_t)nm::size<true>(v);
  om[6] = (meta::is_fixed_shape_v<V> ? 1 : 0) | (meta::is_fixed_dim_v<V> ? 2 : 0) | (meta::is_fixed_size_v<V> ? 4 : 0);
  if (nidx != om[0]) return 2;
  *out = (unsigned)(int)v(idx[0]); return 1; }
#define CASE1(n, ...) case n: return obs_1d(__VA_ARGS__, idx, nidx, oshape, om, out);
GEN_KERNEL(arange,
  CASE1(0, view::arange(5_ct, I32)) CASE1(1, view::arange(1_ct, I32)) CASE1(2, view::arange(2_ct, 6_ct, I32)) CASE1(3, view::arange("-2"_ct, 3_ct, I32))
  CASE1(4, view::arange(1_ct, 8_ct, 3_ct, I32)) CASE1(5, view::arange(0_ct, 6_ct, 2_ct, I32)) CASE1(6, view::arange(0_ct, 7_ct, 3_ct, I32)) CASE1(7, view::arange("-1"_ct, "-7"_ct, "-3"_ct, I32)))
KERNEL int K(k_rt_arange1)(int stop, OUTS){ return obs_1d(view::arange(stop, I32), idx, nidx, oshape, om, out); }
KERNEL int K(k_rt_arange2)(int start, int stop, OUTS){ return obs_1d(view::arange(start, stop, I32), idx, nidx, oshape, om, out); }
KERNEL int K(k_rt_arange3)(int start, int stop, int step, OUTS){ return obs_1d(view::arange(start, stop, step, I32), idx, nidx, oshape, om, out); }
KERNEL int K(k_ct_full)(int var, unsigned value, OUTS){ switch (var){
  CASE(0, view::full(nmtools_tuple{2_ct,3_ct}, value)) CASE(1, view::full(nmtools_tuple{4_ct}, value)) CASE(2, view::full(nmtools_tuple{2_ct,1_ct,3_ct}, value)) CASE(3, view::full(nmtools_tuple{1_ct,2_ct,2_ct,2_ct}, value))
  CASE(4, view::zeros(nmtools_tuple{2_ct,3_ct}, U32)) CASE(5, view::zeros(nmtools_tuple{4_ct}, U32)) CASE(6, view::zeros(nmtools_tuple{2_ct,1_ct,3_ct}, U32)) CASE(7, view::zeros(nmtools_tuple{1_ct,2_ct,2_ct,2_ct}, U32))
  CASE(8, view::ones(nmtools_tuple{2_ct,3_ct}, U32)) CASE(9, view::ones(nmtools_tuple{4_ct}, U32)) CASE(10, view::ones(nmtools_tuple{2_ct,1_ct,3_ct}, U32)) CASE(11, view::ones(nmtools_tuple{1_ct,2_ct,2_ct,2_ct}, U32))
  } return -2; }
KERNEL int K(k_rt_full)(const size_t* shape, size_t dim, unsigned value, OUTS){ return OBSV(view::full(mk_sv<size_t,4>(shape,dim), value)); }
KERNEL int K(k_rt_zeros)(const size_t* shape, size_t dim, OUTS){ return OBSV(view::zeros(mk_sv<size_t,4>(shape,dim), U32)); }
KERNEL int K(k_rt_ones)(const size_t* shape, size_t dim, OUTS){ return OBSV(view::ones(mk_sv<size_t,4>(shape,dim), U32)); }
#endif

#if ON(22)
#include "nmtools/array/view/broadcast_to.hpp"
// ---- broadcast_to(a, tuple of constants); operands (2,3) and (1,3)
CTF(broadcast_to){ switch (var){
  CASE(0, view::broadcast_to(a, nmtools_tuple{2_ct,3_ct})) CASE(1, view::broadcast_to(a, nmtools_tuple{1_ct,2_ct,3_ct})) CASE(2, view::broadcast_to(a, nmtools_tuple{2_ct,2_ct,3_ct}))
  CASE(3, view::broadcast_to(a, nmtools_tuple{3_ct,1_ct,2_ct,3_ct}))
  } return -2; }
CT23(broadcast_to)
CTF(broadcast_to13){ switch (var){
  CASE(0, view::broadcast_to(a, nmtools_tuple{1_ct,3_ct})) CASE(1, view::broadcast_to(a, nmtools_tuple{2_ct,3_ct})) CASE(2, view::broadcast_to(a, nmtools_tuple{4_ct,3_ct}))
  CASE(3, view::broadcast_to(a, nmtools_tuple{2_ct,3_ct,3_ct}))
  } return -2; }
using std13_t = std::array<std::array<unsigned,3>,1>;
CT_KERNEL(broadcast_to13, unsigned a[1][3], std13_t, 3, 2, 1,3)
KERNEL int K(k_rt_broadcast_to)(int kind, RT_IN, const size_t* dst, size_t nd, OUTS){ RT23(view::broadcast_to(a, mk_sv<size_t,4>(dst,nd))) }
KERNEL int K(k_rt_broadcast_to13)(int kind, RT_IN, const size_t* dst, size_t nd, OUTS){ RT13(view::broadcast_to(a, mk_sv<size_t,4>(dst,nd))) }
#endif

#if ON(23)
#include "nmtools/array/view/concatenate.hpp"
// ---- concatenate(a, b, ct axis >= 0 / None); operands (2,3) and (2,3)   (negative axes: known open defect C04-concatenate-negative-axis, not exercised)
template <typename A> static inline int ct_concatenate(int var, const A& a, const A& b, OUTS){ switch (var){
  CASE(0, view::concatenate(a, b, 0_ct)) CASE(1, view::concatenate(a, b, 1_ct)) CASE(2, view::concatenate(a, b, nm::None))
  } return -2; }
KERNEL int K(k_ct_concatenate)(int kind, int var, const unsigned* data, const unsigned* data2, OUTS){
  if (kind == 0){ unsigned a[2][3], b[2][3]; K(k_fill_u32)((unsigned*)&a, data, 6); K(k_fill_u32)((unsigned*)&b, data2, 6); return ct_concatenate(var, a, b, idx, nidx, oshape, om, out); }
  if (kind == 1){ std23_t a, b; K(k_fill_u32)((unsigned*)&a, data, 6); K(k_fill_u32)((unsigned*)&b, data2, 6); return ct_concatenate(var, a, b, idx, nidx, oshape, om, out); }
  h2_t a, b; const size_t shape[2] = {2,3}; if (!mk2(a,shape,data) || !mk2(b,shape,data2)) return -1; return ct_concatenate(var, a, b, idx, nidx, oshape, om, out); }
KERNEL int K(k_rt_concatenate)(int kind, RT_IN, const unsigned* data2, int axis, OUTS){
  if (kind == 0){ unsigned a[2][3], b[2][3]; K(k_fill_u32)((unsigned*)&a, data, 6); K(k_fill_u32)((unsigned*)&b, data2, 6); return OBSV(view::concatenate(a, b, axis)); }
  h2_t a, b; if (!mk2(a,shape,data) || !mk2(b,shape,data2)) return -1; return OBSV(view::concatenate(a, b, axis)); }
KERNEL int K(k_rt_concatenate_flat)(int kind, RT_IN, const unsigned* data2, OUTS){
  if (kind == 0){ unsigned a[2][3], b[2][3]; K(k_fill_u32)((unsigned*)&a, data, 6); K(k_fill_u32)((unsigned*)&b, data2, 6); return OBSV(view::concatenate(a, b, nm::None)); }
  h2_t a, b; if (!mk2(a,shape,data) || !mk2(b,shape,data2)) return -1; return OBSV(view::concatenate(a, b, nm::None)); }
#endif
