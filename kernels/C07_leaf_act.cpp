// C07 (b): per-op leaf kernels for view/activations/*.hpp on float and double one-element arrays (relu also on int).
#include "common.hpp"
#include "nmtools/array/view/activations/relu.hpp"
#include "nmtools/array/view/activations/relu6.hpp"
#include "nmtools/array/view/activations/hardtanh.hpp"
#include "nmtools/array/view/activations/leaky_relu.hpp"
#include "nmtools/array/view/activations/prelu.hpp"
#include "nmtools/array/view/activations/hardshrink.hpp"
#include "nmtools/array/view/activations/softshrink.hpp"
#include "nmtools/array/view/activations/hardswish.hpp"
#include "nmtools/array/view/activations/softsign.hpp"
#include "nmtools/array/view/activations/elu.hpp"
#include "nmtools/array/view/activations/celu.hpp"
#include "nmtools/array/view/activations/selu.hpp"
#include "nmtools/array/view/activations/sigmoid.hpp"
#include "nmtools/array/view/activations/silu.hpp"
#include "nmtools/array/view/activations/log_sigmoid.hpp"
#include "nmtools/array/view/activations/softplus.hpp"
#include "nmtools/array/view/activations/mish.hpp"
#include "nmtools/array/view/activations/tanhshrink.hpp"
namespace view = nm::view;
typedef float f32; typedef double f64; typedef int i32;
template <typename O, typename V> static inline int get0(const V& mv, O* out){
  if (!nm::has_value(mv)) return 0;
  const auto& v = nm::unwrap(mv); *out = (O)v(0); return 1; }
#define ACT0(op, T) KERNEL int K(k_##op##_##T)(T x, T* out){ nmtools_array<T,1> a{x}; return get0(view::op(a), out); }
#define ACT1(op, T) KERNEL int K(k_##op##_##T)(T x, T p, T* out){ nmtools_array<T,1> a{x}; return get0(view::op(a,p), out); }
#define ACT2(op, T) KERNEL int K(k_##op##_##T)(T x, T p, T q, T* out){ nmtools_array<T,1> a{x}; return get0(view::op(a,p,q), out); }
#define BOTH(M, op) M(op, f32) M(op, f64)
BOTH(ACT0, relu) BOTH(ACT0, relu6) BOTH(ACT0, hardswish) BOTH(ACT0, softsign)
ACT0(relu, i32) ACT0(relu6, i32)
BOTH(ACT2, hardtanh) BOTH(ACT1, leaky_relu) BOTH(ACT1, prelu) BOTH(ACT1, hardshrink) BOTH(ACT1, softshrink)
BOTH(ACT1, elu) BOTH(ACT1, celu) BOTH(ACT0, selu) BOTH(ACT0, sigmoid) BOTH(ACT0, silu) BOTH(ACT0, log_sigmoid) BOTH(ACT2, softplus) BOTH(ACT0, mish) BOTH(ACT0, tanhshrink)
// default parameters (declared as float in the front ends) applied to a float array
#define ACTD(op) KERNEL int K(k_##op##_def_f32)(float x, float* out){ nmtools_array<float,1> a{x}; return get0(view::op(a), out); }
ACTD(hardtanh) ACTD(leaky_relu) ACTD(prelu) ACTD(hardshrink) ACTD(softshrink) ACTD(elu) ACTD(celu) ACTD(softplus)
// reference operations for the harness: the bare C++ operators (no nmtools code), compiled through the same pipeline
#define REFOP(n, T, TN, o) KERNEL T K(k_ref_##n##_##TN)(T a, T b){ return a o b; }
REFOP(fadd, float, f32, +) REFOP(fsub, float, f32, -) REFOP(fmul, float, f32, *) REFOP(fdiv, float, f32, /)
REFOP(fadd, double, f64, +) REFOP(fsub, double, f64, -) REFOP(fmul, double, f64, *) REFOP(fdiv, double, f64, /)
