// C04: pad / sliding_window / diagonal / tril / triu. Real code: index::shape_pad/pad, shape_sliding_window/sliding_window, shape_diagonal/diagonal, tril, triu + the view front ends
#include "C04_k.hpp"
#include "nmtools/array/view/pad.hpp"
#include "nmtools/array/view/sliding_window.hpp"
#include "nmtools/array/view/diagonal.hpp"
#include "nmtools/array/view/tril.hpp"
#include "nmtools/array/view/triu.hpp"
// pad: widths = [before_0..before_{D-1}, after_0..after_{D-1}] (fixed length 2*D), run-time fill value
#define PAD(D) KERNEL int K(k_pad##D)(ARGS_IN, const size_t* widths, unsigned value, ARGS_OUT){ MK(D); return OBSV(view::pad(a, mk_arr<size_t,2*D>(widths), value)); }
FOR_DIMS4(PAD)
// sliding_window: (scalar window, run-time axis) and (window per axis, axis=None)
#define SLIDING(D) KERNEL int K(k_sliding_axis##D)(ARGS_IN, size_t window, int axis, ARGS_OUT){ MK(D); return OBSV(view::sliding_window(a, window, axis)); } \
  KERNEL int K(k_sliding_all##D)(ARGS_IN, const size_t* window, ARGS_OUT){ MK(D); return OBSV(view::sliding_window(a, mk_arr<size_t,D>(window))); }
FOR_DIMS(SLIDING)
// tril / triu with run-time k
#define TRI(D) KERNEL int K(k_tril##D)(ARGS_IN, int k, ARGS_OUT){ MK(D); return OBSV(view::tril(a, k)); } \
  KERNEL int K(k_triu##D)(ARGS_IN, int k, ARGS_OUT){ MK(D); return OBSV(view::triu(a, k)); }
FOR_DIMS4(TRI)
// diagonal with run-time offset and axes (dim >= 2)
#define DIAG(D) KERNEL int K(k_diagonal##D)(ARGS_IN, int offset, int axis1, int axis2, ARGS_OUT){ MK(D); return OBSV(view::diagonal(a, offset, axis1, axis2)); } \
  KERNEL int K(k_diagonal_default##D)(ARGS_IN, ARGS_OUT){ MK(D); return OBSV(view::diagonal(a)); }
DIAG(2) DIAG(3) DIAG(4)
