// C19: the STL-free containers (utl::vector, utl::static_vector, utl::array, utl::tuple/tuplev2, utl::maybe, utl::either, small_vector)
// against their std counterparts over bounded operation histories.
// A kernel interprets a history (operation codes + arguments chosen by the harness) on two live objects of the REAL container and copies
// the observable state (size, elements, has_value, active alternative) to out-parameters. No container logic lives here.
#include <stddef.h>
#ifdef C19_POOL
// Second build of this file (-DC19_POOL -DKSUFFIX=_pool): nmtools_malloc / nmtools_free (the library's allocator macros, utl/vector.hpp) are
// redirected to a counting slot allocator over one static array. It plays the role of the C heap for deeper histories than CBMC's own heap
// model reaches: every allocation gets a fresh slot (never reused), the words beyond the requested size carry a canary, the slot contents are
// whatever the harness put there (indeterminate like malloc), and leaks / double frees / invalid frees / canary damage are counted.
#define PSLOTS 18
#define PWORDS 12
static unsigned pool_mem[PSLOTS][PWORDS]; static unsigned char pool_state[PSLOTS]; static unsigned pool_req[PSLOTS];   // state: 0 never used, 1 live, 2 freed
static unsigned pool_next, pool_live, pool_err;     // err bits: 1 exhausted / request too large, 2 double free, 4 invalid free, 8 canary damaged (write beyond the requested size)
#define POOL_CANARY 0xC0DEC0DEu
static inline void pool_check(unsigned s){ for (unsigned w = (pool_req[s] + 3) / 4; w < PWORDS; w++) if (pool_mem[s][w] != POOL_CANARY) pool_err |= 8; }
extern "C" __attribute__((noinline)) void* k_pool_malloc(size_t n){
  if (pool_next >= PSLOTS || n > PWORDS * sizeof(unsigned)) { pool_err |= 1; return (void*)&pool_mem[PSLOTS-1][0]; }   // bound of the model exceeded: reported, never silently
  unsigned s = pool_next++; pool_state[s] = 1; pool_req[s] = (unsigned)n; pool_live++;
  for (unsigned w = (unsigned)((n + 3) / 4); w < PWORDS; w++) pool_mem[s][w] = POOL_CANARY;
  return (void*)&pool_mem[s][0];
}
extern "C" __attribute__((noinline)) void k_pool_free(void* p){
  if (!p) return;
  for (unsigned s = 0; s < PSLOTS; s++) if (p == (void*)&pool_mem[s][0]) {
    if (pool_state[s] != 1) { pool_err |= 2; return; }
    pool_check(s); pool_state[s] = 2; pool_live--; return; }
  pool_err |= 4;
}
#define nmtools_malloc k_pool_malloc
#define nmtools_free k_pool_free
#endif
#include "common.hpp"
#include "nmtools/utl.hpp"
#include "nmtools/utility/small_vector.hpp"
#include <variant>

// ---------------------------------------------------------------- vector-like kinds
// op: 0 push_back(x[t], v)   1 x[t].resize(n)   2 x[t][i] = v   3 x[t] = x[1-t]   4 x[t] = x[t]
//     5 { C c(x[1-t]); x[t] = c; } (copy-construct)   6 { C c(n); x[t] = c; } (sized construct)
// concrete prefixes (the code is a per-query constant in the harness, so the heap layout before the symbolic steps is concrete; the values are symbolic):
//   0 nothing   1 push x2   2 push x4 (initial buffer full)   3 push x5 (grown by push_back)   4 resize(6)   5 resize(6), resize(1) (shrunk)   6 push x3, resize(0)
template <typename C>
static inline void prefix_vec(C& x, int code, const int* pv){
  switch (code) {
    case 1: x.push_back(pv[0]); x.push_back(pv[1]); break;
    case 2: x.push_back(pv[0]); x.push_back(pv[1]); x.push_back(pv[2]); x.push_back(pv[3]); break;
    case 3: x.push_back(pv[0]); x.push_back(pv[1]); x.push_back(pv[2]); x.push_back(pv[3]); x.push_back(pv[4]); break;
    case 4: x.resize(6); break;
    case 5: x.resize(6); x.resize(1); break;
    case 6: x.push_back(pv[0]); x.push_back(pv[1]); x.push_back(pv[2]); x.resize(0); break;
    default: break;
  }
}
template <typename C>
static inline void hist_vec(int pre0, int pre1, const int* pv0, const int* pv1, const unsigned char* ops, const unsigned char* tgt, const size_t* n, const int* v, size_t k,
                            int* out0, size_t* n0, int* out1, size_t* n1, size_t outcap)
{
  C x0, x1; C* const x[2] = { &x0, &x1 };
  prefix_vec(x0, pre0, pv0); prefix_vec(x1, pre1, pv1);
  for (size_t s = 0; s < k; s++) {
    C& me = (tgt[s] & 1) ? x1 : x0; C& other = (tgt[s] & 1) ? x0 : x1;
    switch (ops[s]) {
      case 0: me.push_back(v[s]); break;
      case 1: me.resize(n[s]); break;
      case 2: me[n[s]] = v[s]; break;
      case 3: me = other; break;
      case 4: me = me; break;
      case 5: { C c(other); me = c; } break;
      default: { C c(n[s]); me = c; } break;
    }
  }
  *n0 = x[0]->size(); for (size_t i = 0; i < (size_t)x[0]->size() && i < outcap; i++) out0[i] = (*x[0])[i];
  *n1 = x[1]->size(); for (size_t i = 0; i < (size_t)x[1]->size() && i < outcap; i++) out1[i] = (*x[1])[i];
}
#define HIST(name, ...) KERNEL void K(name)(int pre0, int pre1, const int* pv0, const int* pv1, const unsigned char* ops, const unsigned char* tgt, const size_t* n, const int* v, size_t k, \
                                            int* out0, size_t* n0, int* out1, size_t* n1, size_t outcap){ \
  hist_vec< __VA_ARGS__ >(pre0, pre1, pv0, pv1, ops, tgt, n, v, k, out0, n0, out1, n1, outcap); }
HIST(k_hist_vector, utl::vector<int>)
HIST(k_hist_static_vector, utl::static_vector<int,4>)
HIST(k_hist_small_vector_stl, nm::small_vector<int,3,std::variant,utl::static_vector,std::vector>)
HIST(k_hist_small_vector_utl, nm::small_vector<int,3,utl::either,utl::static_vector,utl::vector>)

// single-object probes of the constructors (observed directly, not through an assignment)
KERNEL size_t K(k_vector_sized)(size_t n, int* out, size_t outcap){
  utl::vector<int> x(n);
  for (size_t i = 0; i < x.size() && i < outcap; i++) out[i] = x[i];
  return x.size();
}
KERNEL size_t K(k_static_vector_sized)(size_t n, int* out, size_t outcap){
  utl::static_vector<int,4> x(n);
  for (size_t i = 0; i < x.size() && i < outcap; i++) out[i] = x[i];
  return x.size();
}
KERNEL size_t K(k_vector_variadic)(int a, int b, int c, int* out, size_t outcap){
  utl::vector<int> x(a, b, c);
  for (size_t i = 0; i < x.size() && i < outcap; i++) out[i] = x[i];
  return x.size();
}
KERNEL size_t K(k_vector_copy)(const int* src, size_t n, size_t wi, int wv, int* out_copy, int* out_src, size_t outcap){
  utl::vector<int> x; for (size_t i = 0; i < n; i++) x.push_back(src[i]);
  utl::vector<int> y(x);
  x[wi] = wv;                          // mutate the source after the copy: the copy must not change
  for (size_t i = 0; i < y.size() && i < outcap; i++) out_copy[i] = y[i];
  for (size_t i = 0; i < x.size() && i < outcap; i++) out_src[i] = x[i];
  return y.size();
}

// the COPY is used as a vector of its own afterwards: m push_backs into the copy-constructed object (its capacity bookkeeping must describe ITS block), then it is observed
KERNEL size_t K(k_vector_copy_grow)(const int* src, size_t n, const int* more, size_t m, int* out_copy, int* out_src, size_t outcap){
  utl::vector<int> x; for (size_t i = 0; i < n; i++) x.push_back(src[i]);
  utl::vector<int> y(x);
  for (size_t i = 0; i < m; i++) y.push_back(more[i]);
  for (size_t i = 0; i < y.size() && i < outcap; i++) out_copy[i] = y[i];
  for (size_t i = 0; i < x.size() && i < outcap; i++) out_src[i] = x[i];
  return y.size();
}
// ---------------------------------------------------------------- utl::array<int,4>
// op: 0 x[t][i] = v   1 x[t] = x[1-t]   2 x[t] = x[t]   3 { C c(x[1-t]); x[t] = c; }   4 x[t].at(i) = v
KERNEL void K(k_hist_array)(const unsigned char* ops, const unsigned char* tgt, const size_t* n, const int* v, size_t k, const int* init0, const int* init1, int* out0, int* out1){
  using C = utl::array<int,4>;
  C x0{init0[0],init0[1],init0[2],init0[3]}, x1{init1[0],init1[1],init1[2],init1[3]}; C* const x[2] = { &x0, &x1 };
  for (size_t s = 0; s < k; s++) {
    C& me = (tgt[s] & 1) ? x1 : x0; C& other = (tgt[s] & 1) ? x0 : x1;
    switch (ops[s]) {
      case 0: me[n[s]] = v[s]; break;
      case 1: me = other; break;
      case 2: me = me; break;
      case 3: { C c(other); me = c; } break;
      default: me.at(n[s]) = v[s]; break;
    }
  }
  for (size_t i = 0; i < x[0]->size(); i++) { out0[i] = (*x[0])[i]; out1[i] = (*x[1])[i]; }
}

// ---------------------------------------------------------------- tuples: (int, unsigned char, size_t)
// op: 0/1/2 get<0/1/2>(x[t]) = v   3 x[t] = x[1-t]   4 x[t] = x[t]   5 { T c(x[1-t]); x[t] = c; }
template <typename T>
static inline void hist_tuple(const unsigned char* ops, const unsigned char* tgt, const size_t* v, size_t k, const size_t* init, size_t* out){
  T x0{(int)init[0], (unsigned char)init[1], init[2]}, x1{(int)init[3], (unsigned char)init[4], init[5]}; T* const x[2] = { &x0, &x1 };
  for (size_t s = 0; s < k; s++) {
    T& me = (tgt[s] & 1) ? x1 : x0; T& other = (tgt[s] & 1) ? x0 : x1;
    switch (ops[s]) {
      case 0: utl::get<0>(me) = (int)v[s]; break;
      case 1: utl::get<1>(me) = (unsigned char)v[s]; break;
      case 2: utl::get<2>(me) = v[s]; break;
      case 3: me = other; break;
      case 4: me = me; break;
      default: { T c(other); me = c; } break;
    }
  }
  for (int t = 0; t < 2; t++) { out[3*t] = (size_t)(long)utl::get<0>(*x[t]); out[3*t+1] = utl::get<1>(*x[t]); out[3*t+2] = utl::get<2>(*x[t]); }
}
KERNEL void K(k_hist_tuple)(const unsigned char* ops, const unsigned char* tgt, const size_t* v, size_t k, const size_t* init, size_t* out){
  hist_tuple< utl::tuple<int,unsigned char,size_t> >(ops, tgt, v, k, init, out); }
KERNEL void K(k_hist_tuplev2)(const unsigned char* ops, const unsigned char* tgt, const size_t* v, size_t k, const size_t* init, size_t* out){
  hist_tuple< utl::tuplev2<int,unsigned char,size_t> >(ops, tgt, v, k, init, out); }

// ---------------------------------------------------------------- utl::maybe<int>
// op: 0 x[t] = v   1 x[t] = nothing   2 x[t] = x[1-t]   3 x[t] = x[t]   4 { M c(x[1-t]); x[t] = c; }   5 { M c(v); x[t] = c; }   6 *x[t] = v (write through)
template <typename M, typename V>
static inline void hist_maybe(const unsigned char* ops, const unsigned char* tgt, const V* v, size_t k, int* has, V* val){
  M x0, x1; M* const x[2] = { &x0, &x1 };
  for (size_t s = 0; s < k; s++) {
    M& me = (tgt[s] & 1) ? x1 : x0; M& other = (tgt[s] & 1) ? x0 : x1;
    switch (ops[s]) {
      case 0: me = v[s]; break;
      case 1: me = utl::nothing; break;
      case 2: me = other; break;
      case 3: me = me; break;
      case 4: { M c(other); me = c; } break;
      case 5: { M c(v[s]); me = c; } break;
      default: *me = v[s]; break;
    }
  }
  for (int t = 0; t < 2; t++) { has[t] = x[t]->has_value() ? 1 : 0; if (x[t]->has_value()) val[t] = x[t]->value(); }
}
KERNEL void K(k_hist_maybe_int)(const unsigned char* ops, const unsigned char* tgt, const int* v, size_t k, int* has, int* val){
  hist_maybe< utl::maybe<int>, int >(ops, tgt, v, k, has, val); }
KERNEL void K(k_hist_maybe_f64)(const unsigned char* ops, const unsigned char* tgt, const double* v, size_t k, int* has, double* val){
  hist_maybe< utl::maybe<double>, double >(ops, tgt, v, k, has, val); }

// ---------------------------------------------------------------- utl::either<int,unsigned char>
// op: 0 x[t] = (int)v   1 x[t] = (unsigned char)v   2 x[t] = x[1-t]   3 x[t] = x[t]   4 { E c(x[1-t]); x[t] = c; }   5 { E c((int)v); x[t] = c; }   6 { E c((unsigned char)v); x[t] = c; }
KERNEL void K(k_hist_either)(const unsigned char* ops, const unsigned char* tgt, const int* v, size_t k, int* idx, int* val){
  using E = utl::either<int,unsigned char>;
  E x0, x1; E* const x[2] = { &x0, &x1 };
  for (size_t s = 0; s < k; s++) {
    E& me = (tgt[s] & 1) ? x1 : x0; E& other = (tgt[s] & 1) ? x0 : x1;
    switch (ops[s]) {
      case 0: me = (int)v[s]; break;
      case 1: me = (unsigned char)v[s]; break;
      case 2: me = other; break;
      case 3: me = me; break;
      case 4: { E c(other); me = c; } break;
      case 5: { E c((int)v[s]); me = c; } break;
      default: { E c((unsigned char)v[s]); me = c; } break;
    }
  }
  for (int t = 0; t < 2; t++) {
    idx[t] = (int)x[t]->index();
    if (auto p = nm::get_if<int>(x[t])) val[t] = *p; else if (auto q = nm::get_if<unsigned char>(x[t])) val[t] = *q; else val[t] = -1;
    idx[t] += 10 * ((nm::get_if<int>(x[t]) ? 1 : 0) + (nm::get_if<unsigned char>(x[t]) ? 2 : 0));   // which get_if answers
  }
}

// ---------------------------------------------------------------- non-trivial alternative: utl::either<int, utl::vector<int>> and utl::maybe<utl::vector<int>>
// op: 0 x[t] = (int)v   1 x[t] = vector{v, v+1}   2 x[t] = x[1-t]   3 x[t] = x[t]   4 { E c(x[1-t]); x[t] = c; }
KERNEL void K(k_hist_either_heap)(const unsigned char* ops, const unsigned char* tgt, const int* v, size_t k, int* idx, int* val, size_t* len){
  using V = utl::vector<int>; using E = utl::either<int,V>;
  E x0, x1; E* const x[2] = { &x0, &x1 };
  for (size_t s = 0; s < k; s++) {
    E& me = (tgt[s] & 1) ? x1 : x0; E& other = (tgt[s] & 1) ? x0 : x1;
    switch (ops[s]) {
      case 0: me = (int)v[s]; break;
      case 1: { V w; w.push_back(v[s]); w.push_back(v[s] + 1); me = w; } break;
      case 2: me = other; break;
      case 3: me = me; break;
      default: { E c(other); me = c; } break;
    }
  }
  for (int t = 0; t < 2; t++) {
    idx[t] = (int)x[t]->index(); len[t] = 0;
    if (auto p = nm::get_if<int>(x[t])) val[t] = *p;
    else if (auto q = nm::get_if<V>(x[t])) { len[t] = q->size(); val[t] = q->size() ? (*q)[0] : 0; }
  }
}
// op: 0 x[t] = vector{v, v+1}   1 x[t] = nothing   2 x[t] = x[1-t]   3 x[t] = x[t]   4 { M c(x[1-t]); x[t] = c; }
KERNEL void K(k_hist_maybe_heap)(const unsigned char* ops, const unsigned char* tgt, const int* v, size_t k, int* has, int* val, size_t* len){
  using V = utl::vector<int>; using M = utl::maybe<V>;
  M x0, x1; M* const x[2] = { &x0, &x1 };
  for (size_t s = 0; s < k; s++) {
    M& me = (tgt[s] & 1) ? x1 : x0; M& other = (tgt[s] & 1) ? x0 : x1;
    switch (ops[s]) {
      case 0: { V w; w.push_back(v[s]); w.push_back(v[s] + 1); me = w; } break;
      case 1: me = utl::nothing; break;
      case 2: me = other; break;
      case 3: me = me; break;
      default: { M c(other); me = c; } break;
    }
  }
  for (int t = 0; t < 2; t++) {
    has[t] = x[t]->has_value() ? 1 : 0; len[t] = 0; val[t] = 0;
    if (x[t]->has_value()) { len[t] = x[t]->value().size(); val[t] = len[t] ? x[t]->value()[0] : 0; }
  }
}

#ifdef C19_POOL
// harness interface of the slot allocator: reset with caller-chosen (indeterminate) contents; report live blocks and error bits after a history
KERNEL void K(k_pool_reset)(const unsigned* junk){
  for (unsigned s = 0; s < PSLOTS; s++) { pool_state[s] = 0; pool_req[s] = 0; for (unsigned w = 0; w < PWORDS; w++) pool_mem[s][w] = junk[w]; }
  pool_next = 0; pool_live = 0; pool_err = 0;
}
KERNEL unsigned K(k_pool_report)(unsigned* live, unsigned* used){
  for (unsigned s = 0; s < PSLOTS; s++) if (pool_state[s] == 1) pool_check(s);
  *live = pool_live; *used = pool_next; return pool_err;
}
#endif
