// C07 (c): result element type of binary element-wise views for mixed dtype pairs (type-level: every kernel returns compile-time constants).
// code = 2001 for bool, else (1000 if floating | 100 if signed integer | 0 if unsigned) + sizeof.
// out[0]: the view's declared element type (meta::get_element_type_t); out[1]: the type of the value operator() actually returns.
#include "common.hpp"
#include "nmtools/array/view/ufuncs/add.hpp"
#include "nmtools/array/view/ufuncs/multiply.hpp"
#include "nmtools/array/view/ufuncs/divide.hpp"
#include "nmtools/array/view/ufuncs/maximum.hpp"
#include "nmtools/array/view/ufuncs/less.hpp"
#include "nmtools/array/view/ufuncs/logical_and.hpp"
#include "nmtools/array/view/ufuncs/bitwise_and.hpp"
#include "nmtools/array/view/ufuncs/left_shift.hpp"
#include "nmtools/array/view/ufuncs/subtract.hpp"
#include "../harnesses/C07_leaf.def"
#include <type_traits>
namespace view = nm::view;
typedef signed char i8; typedef unsigned char u8; typedef int i32; typedef unsigned u32; typedef long i64; typedef float f32; typedef double f64;
template <typename E> constexpr int tcode(){ using T = std::remove_cv_t<std::remove_reference_t<E>>;
  if constexpr (std::is_same_v<T,bool>) return 2001; else return (std::is_floating_point_v<T> ? 1000 : (std::is_signed_v<T> ? 100 : 0)) + (int)sizeof(T); }
template <typename MV> static inline void vcodes(int* out){
  using V = meta::remove_cvref_t<decltype(nm::unwrap(std::declval<MV>()))>;
  out[0] = tcode<meta::get_element_type_t<V>>(); out[1] = tcode<decltype(std::declval<V>()(0))>(); }
#define TYK(op, T, U) KERNEL void K(k_ty_##op##_##T##_##U)(int* out){ vcodes<decltype(view::op(std::declval<nmtools_array<T,1>>(), std::declval<nmtools_array<U,1>>()))>(out); } \
                      KERNEL void K(k_tys_##op##_##T##_##U)(int* out){ vcodes<decltype(view::op(std::declval<nmtools_array<T,1>>(), std::declval<U>()))>(out); }
#define Y1(op) C07_TY_PAIRS(TYK, op)
#define Y2(op) C07_TYI_PAIRS(TYK, op)
C07_TY_OPS(Y1)
C07_TYI_OPS(Y2)
// explicitly requested dtype (outer / reduce / accumulate take one): outer_subtract(int8[1], int32[1], dtype)
KERNEL void K(k_ty_outer_dtype)(int* out){
  using A = nmtools_array<i8,1>; using B = nmtools_array<i32,1>;
  using V0 = decltype(view::outer_subtract(std::declval<A>(), std::declval<B>())); out[0] = tcode<meta::get_element_type_t<V0>>();
  using V1 = decltype(view::outer_subtract(std::declval<A>(), std::declval<B>(), nm::float32)); out[1] = tcode<meta::get_element_type_t<V1>>();
  using V2 = decltype(view::outer_subtract(std::declval<A>(), std::declval<B>(), nm::int64)); out[2] = tcode<meta::get_element_type_t<V2>>();
  using V3 = decltype(view::outer_subtract(std::declval<A>(), std::declval<B>(), nm::uint8)); out[3] = tcode<meta::get_element_type_t<V3>>();
}
