// C10 "front" family: every kernel calls ONE eager front end nmtools::array::fn(args...) with ALL its optional value arguments given
// (resolver left at the front end's default, RowMajorResolver) and the corresponding view::fn with the same arguments on the same hybrid
// operand(s), and reports dim, shape and the element at a run-time index of both (lazy_eager in C10_k.hpp). No logic of its own.
// Element types are chosen so that every argument matters (uint8 data + dtype uint32: a dropped dtype changes values beyond 255;
// products use dtype uint16 - 16-bit multiplier circuits - for the same reason).
// The source is built once per part (-DFR_PART=n) so that a query only parses the kernels of its part.
#include "C10_k.hpp"
#ifndef FR_PART
#define FR_PART 1
#endif
using b2_t = hyb_t<unsigned char,4,2>;   // uint8, 2-d, extents <= 2
using b1_t = hyb_t<unsigned char,2,1>;
using u2_t = hyb_t<unsigned,4,2>;        // uint32, 2-d, extents <= 2
using u1_t = hyb_t<unsigned,2,1>;
using w2_t = hyb_t<unsigned,6,2>;        // uint32, 2-d, up to (2,3)/(3,2)
using w1_t = hyb_t<unsigned,3,1>;
#define TAIL const int* p, const size_t* idx, size_t nidx, size_t* lshape, size_t* ldim, unsigned* lval, size_t* eshape, size_t* edim, unsigned* ev
#define SIG8   const size_t* shape, const unsigned char* data, TAIL
#define SIG32  const size_t* shape, const unsigned* data, TAIL
#define SIG8x2  const size_t* shape, const unsigned char* data, const unsigned char* datb, TAIL
#define SIG32x2 const size_t* shape, const unsigned* data, const unsigned* datb, TAIL
#define OUT idx, nidx, lshape, ldim, lval, eshape, edim, ev
// element size of a (maybe) array / view: reported in entry [3] of the shape outputs (every result here has dim <= 3)
template <typename M> static inline size_t elem_size(const M& m){ using e_t = meta::remove_cvref_t<decltype(payload(m))>; return sizeof(meta::get_element_type_t<e_t>); }
#define LE(LAZY, EAGER) auto mv = LAZY; auto me = EAGER; lshape[3] = elem_size(mv); eshape[3] = elem_size(me); return lazy_eager(mv, me, OUT)
// caller-supplied hybrid output (where the front end's own result would be a std::vector buffer: 10-100x dearer in the solver): declared of type OUT_T, resized to the view's shape,
// passed as the front end's `output` argument and compared with the view. FR_OUT=0 builds the same kernels with the front end's own result instead.
#define COMMA ,
#ifndef FR_OUT
#define FR_OUT 1
#endif
#if FR_OUT
#define LEO(OUT_T, LAZY, FN, ...) auto mv = LAZY; if (!nm::has_value(mv)) return 0; OUT_T out; nm::detail::apply_resize(out, nm::shape(payload(mv))); FN(__VA_ARGS__, nm::None, out); \
  lshape[3] = elem_size(mv); eshape[3] = elem_size(mv); return lazy_eager(mv, out, OUT)
#else
#define LEO(OUT_T, LAZY, FN, ...) LE(LAZY, FN(__VA_ARGS__))
#endif
#define A8  b2_t a; if (!mk2(a,shape,data)) return -1
#define A32 u2_t a; if (!mk2(a,shape,data)) return -1
#define W32 w2_t a; if (!mk2(a,shape,data)) return -1

#if FR_PART == 1   // ---- ufunc members
#include "nmtools/array/array/ufuncs/add.hpp"
#include "nmtools/array/array/ufuncs/multiply.hpp"
#include "nmtools/array/array/ufuncs/subtract.hpp"
// p: axis (may be negative), initial
KERNEL int K(k_front_add_reduce)(SIG8){ A8; LE(view::reduce_add(a, p[0], nm::uint32, (unsigned)p[1], nm::True), na::add.reduce(a, p[0], nm::uint32, (unsigned)p[1], nm::True)); }
KERNEL int K(k_front_add_accumulate)(SIG8){ A8; LE(view::accumulate_add(a, p[0], nm::uint32), na::add.accumulate(a, p[0], nm::uint32)); }
// a 2-d (shape[0..1]), b 1-d (shape[2])
KERNEL int K(k_front_add_outer)(SIG8x2){ A8; b1_t b; if (!mk1(b,shape+2,datb)) return -1; LE(view::outer_add(a, b, nm::uint8), na::add.outer(a, b, nm::uint8)); }   // dtype uint8: without it the element is the C++ sum (int)
KERNEL int K(k_front_multiply_reduce)(SIG8){ A8; LE(view::reduce_multiply(a, p[0], nm::uint16, (unsigned short)p[1], nm::True), na::multiply.reduce(a, p[0], nm::uint16, (unsigned short)p[1], nm::True)); }
KERNEL int K(k_front_multiply_accumulate)(SIG8){ A8; LE(view::accumulate_multiply(a, p[0], nm::uint16), na::multiply.accumulate(a, p[0], nm::uint16)); }
// broadcasting operands: a 2-d (shape[0..1]), b 1-d (shape[2] == shape[1] or 1)
KERNEL int K(k_front_subtract)(SIG32x2){ A32; u1_t b; if (!mk1(b,shape+2,datb)) return -1; LE(view::subtract(a, b), na::subtract(a, b)); }   // maybe view: the front end does not compile with an output argument (optional<void>)
#endif

#if FR_PART == 2   // ---- reductions / scans with dtype, initial, keepdims
#include "nmtools/array/array/sum.hpp"
#include "nmtools/array/array/prod.hpp"
#include "nmtools/array/array/cumsum.hpp"
#include "nmtools/array/array/cumprod.hpp"
#include "nmtools/array/array/mean.hpp"
#include "nmtools/array/array/ufuncs/amax.hpp"
#include "nmtools/array/array/ufuncs/amin.hpp"
// p: axis (may be negative), initial
KERNEL int K(k_front_sum)(SIG8){ A8; LE(view::sum(a, p[0], nm::uint32, (unsigned)p[1], nm::True), na::sum(a, p[0], nm::uint32, (unsigned)p[1], nm::True)); }
KERNEL int K(k_front_prod)(SIG8){ A8; LE(view::prod(a, p[0], nm::uint16, (unsigned short)p[1], nm::True), na::prod(a, p[0], nm::uint16, (unsigned short)p[1], nm::True)); }
KERNEL int K(k_front_cumsum)(SIG8){ A8; LE(view::cumsum(a, p[0], nm::uint32), na::cumsum(a, p[0], nm::uint32)); }
KERNEL int K(k_front_cumprod)(SIG8){ A8; LE(view::cumprod(a, p[0], nm::uint16), na::cumprod(a, p[0], nm::uint16)); }
KERNEL int K(k_front_amax)(SIG8){ A8; LE(view::amax(a, p[0], nm::uint32, (unsigned)p[1], nm::True), na::amax(a, p[0], nm::uint32, (unsigned)p[1], nm::True)); }
KERNEL int K(k_front_amin)(SIG8){ A8; LE(view::amin(a, p[0], nm::uint32, (unsigned)p[1], nm::True), na::amin(a, p[0], nm::uint32, (unsigned)p[1], nm::True)); }
// float result: the element is reported as its bit pattern (compared eager vs lazy only; the harness pins dim and shape to NumPy)
KERNEL int K(k_front_mean)(SIG8){ A8; float lf = 0, ef = 0; auto mv = view::mean(a, p[0], nm::float64, nm::True); auto me = na::mean(a, p[0], nm::float64, nm::True);
  lshape[3] = elem_size(mv); eshape[3] = elem_size(me);
  int r = lazy_eager(mv, me, idx, nidx, lshape, ldim, &lf, eshape, edim, &ef); __builtin_memcpy(lval, &lf, 4); __builtin_memcpy(ev, &ef, 4); return r; }
#endif

#if FR_PART == 3   // ---- rearranging / replicating / selecting front ends
#include "nmtools/array/array/reshape.hpp"
#include "nmtools/array/array/flatten.hpp"
#include "nmtools/array/array/moveaxis.hpp"
#include "nmtools/array/array/swapaxes.hpp"
#include "nmtools/array/array/expand_dims.hpp"
#include "nmtools/array/array/squeeze.hpp"
#include "nmtools/array/array/tile.hpp"
#include "nmtools/array/array/repeat.hpp"
#include "nmtools/array/array/roll.hpp"
#include "nmtools/array/array/take.hpp"
KERNEL int K(k_front_reshape)(SIG32){ W32; LE(view::reshape(a, mk_arr<int,2>(p)), na::reshape(a, mk_arr<int,2>(p))); }
KERNEL int K(k_front_flatten)(SIG32){ W32; LE(view::flatten(a), na::flatten(a)); }
// 3-d operand (on a 2-d one moveaxis(a,s,d) == moveaxis(a,d,s))
KERNEL int K(k_front_moveaxis)(SIG32){ hyb_t<unsigned,8,3> a; if (!mk3(a,shape,data)) return -1; LE(view::moveaxis(a, p[0], p[1]), na::moveaxis(a, p[0], p[1])); }
KERNEL int K(k_front_swapaxes)(SIG32){ W32; LE(view::swapaxes(a, p[0], p[1]), na::swapaxes(a, p[0], p[1])); }
KERNEL int K(k_front_expand_dims)(SIG32){ W32; LE(view::expand_dims(a, p[0]), na::expand_dims(a, p[0])); }
KERNEL int K(k_front_squeeze)(SIG32){ W32; LE(view::squeeze(a), na::squeeze(a)); }
// tile, repeat, take: the front end's own result is a std::vector buffer (tile: no verdict, out of memory; repeat / take: 70-135 s); the result goes into a caller-supplied hybrid output (the front end's `output` argument)
KERNEL int K(k_front_tile)(SIG32){ A32; LEO(hyb_t<unsigned COMMA 16 COMMA 2>, view::tile(a, mk_arr<int,2>(p)), na::tile, a, mk_arr<int,2>(p)); }
// p: repeats, axis
KERNEL int K(k_front_repeat)(SIG32){ A32; LEO(hyb_t<unsigned COMMA 8 COMMA 2>, view::repeat(a, (size_t)p[0], p[1]), na::repeat, a, (size_t)p[0], p[1]); }
// p: shift, axis
KERNEL int K(k_front_roll)(SIG32){ W32; LE(view::roll(a, p[0], p[1]), na::roll(a, p[0], p[1])); }
// p: axis, number of indices, indices
KERNEL int K(k_front_take)(SIG32){ W32; LEO(hyb_t<unsigned COMMA 9 COMMA 2>, view::take(a, mk_sv<int,3>(p+2, (size_t)p[1]), p[0]), na::take, a, mk_sv<int,3>(p+2, (size_t)p[1]), p[0]); }
#endif

#if FR_PART == 4   // ---- joining / windowing / selecting / generating / linear algebra front ends
#include "nmtools/array/array/concatenate.hpp"
#include "nmtools/array/array/pad.hpp"
#include "nmtools/array/array/slice.hpp"
#include "nmtools/array/array/broadcast_to.hpp"
#include "nmtools/array/array/where.hpp"
#include "nmtools/array/array/diagonal.hpp"
#include "nmtools/array/array/tril.hpp"
#include "nmtools/array/array/triu.hpp"
#include "nmtools/array/array/full_like.hpp"
#include "nmtools/array/array/zeros_like.hpp"
#include "nmtools/array/array/arange.hpp"
#include "nmtools/array/array/eye.hpp"
#include "nmtools/array/array/outer.hpp"
// two 2-d operands: a shape[0..1], b shape[2..3]
#define AB32 u2_t a, b; if (!mk2(a,shape,data) || !mk2(b,shape+2,datb)) return -1
KERNEL int K(k_front_concatenate)(SIG32x2){ AB32; LE(view::concatenate(a, b, p[0]), na::concatenate(a, b, p[0])); }
// p: before0, before1, after0, after1, value
KERNEL int K(k_front_pad)(SIG32){ A32; LE(view::pad(a, mk_arr<int,4>(p), (unsigned)p[4]), na::pad(a, mk_arr<int,4>(p), (unsigned)p[4])); }
// p: a[p0:p1:p2, p3:p4]
KERNEL int K(k_front_slice)(SIG32){ W32; LE(view::slice(a, nmtools_tuple{p[0],p[1],p[2]}, nmtools_tuple{p[3],p[4]}), na::slice(a, nmtools_tuple{p[0],p[1],p[2]}, nmtools_tuple{p[3],p[4]})); }
// p: 3-entry target shape
KERNEL int K(k_front_broadcast_to)(SIG32){ A32; std::array<size_t,3> dst{(size_t)p[0], (size_t)p[1], (size_t)p[2]}; LE(view::broadcast_to(a, dst), na::broadcast_to(a, dst)); }
// condition, x, y: three 2-d operands of the same shape (condition = datc)
KERNEL int K(k_front_where)(const size_t* shape, const unsigned* datc, const unsigned* data, const unsigned* datb, TAIL){ u2_t c, a, b; if (!mk2(c,shape,datc) || !mk2(a,shape,data) || !mk2(b,shape,datb)) return -1;
  LE(view::where(c, a, b), na::where(c, a, b)); }
// p: offset, axis1, axis2
KERNEL int K(k_front_diagonal)(SIG32){ W32; LE(view::diagonal(a, p[0], p[1], p[2]), na::diagonal(a, p[0], p[1], p[2])); }
KERNEL int K(k_front_tril)(SIG32){ W32; LE(view::tril(a, p[0]), na::tril(a, p[0])); }
KERNEL int K(k_front_triu)(SIG32){ W32; LE(view::triu(a, p[0]), na::triu(a, p[0])); }
KERNEL int K(k_front_full_like)(SIG8){ A8; LE(view::full_like(a, (unsigned)p[0], nm::uint32), na::full_like(a, (unsigned)p[0], nm::uint32)); }
KERNEL int K(k_front_zeros_like)(SIG8){ A8; LE(view::zeros_like(a, nm::uint32), na::zeros_like(a, nm::uint32)); }
// generators (no operand): p: start, stop, step / N, M, k
// view::arange is indexed with a scalar (a packed index is not accepted): 1-d variant of lazy_eager, same return codes
template <typename V, typename E, typename T>
static inline int lazy_eager_1d(const V& v, const E& e, const size_t* idx, size_t nidx, size_t* lshape, size_t* ldim, T* lval, size_t* eshape, size_t* edim, T* eval_){
  *ldim = put(nm::shape(v), lshape); *edim = put(nm::shape(e), eshape);
  if (nidx != *ldim || nidx != *edim) return 2;
  if (!idx_inside(idx, nidx, nm::shape(v)) || !idx_inside(idx, nidx, nm::shape(e))) return 3;
  *lval = (T)v(idx[0]); *eval_ = (T)nm::apply_at(e, mk_sv<size_t,8>(idx, nidx)); return 1; }
KERNEL int K(k_front_arange)(TAIL){ auto mv = view::arange(p[0], p[1], p[2], nm::int8); auto me = na::arange(p[0], p[1], p[2], nm::int8);
  lshape[3] = elem_size(mv); eshape[3] = elem_size(me); return lazy_eager_1d(mv, me, OUT); }
KERNEL int K(k_front_eye)(TAIL){ LE(view::eye((size_t)p[0], (size_t)p[1], p[2], nm::uint8), na::eye((size_t)p[0], (size_t)p[1], p[2], nm::uint8)); }
// outer: a 2-d (flattened by outer) shape[0..1], b 1-d shape[2]
KERNEL int K(k_front_outer)(SIG8x2){ A8; b1_t b; if (!mk1(b,shape+2,datb)) return -1; LE(view::outer(a, b), na::outer(a, b)); }
#endif

#if FR_PART == 5   // ---- stack, matmul: their own TU. view::stack calls concatenate unqualified: with array/concatenate.hpp in the same TU the call is ambiguous (ADL finds array::concatenate too);
// view::matmul calls apply_slice unqualified: with array/slice.hpp in the same TU ADL selects the EAGER array::apply_slice and matmul throws std::out_of_range (reported finding)
#include "nmtools/array/array/stack.hpp"
#include "nmtools/array/array/matmul.hpp"
#define AB32 u2_t a, b; if (!mk2(a,shape,data) || !mk2(b,shape+2,datb)) return -1
KERNEL int K(k_front_stack)(SIG32x2){ AB32; LE(view::stack(a, b, p[0]), na::stack(a, b, p[0])); }
// matmul: a shape[0..1] x b shape[2..3] (uint8 data: 8-bit multiplier circuits)
KERNEL int K(k_front_matmul)(SIG8x2){ b2_t a, b; if (!mk2(a,shape,data) || !mk2(b,shape+2,datb)) return -1; LE(view::matmul(a, b), na::matmul(a, b)); }
#endif

#if FR_PART == 8   // ---- matmul with the EAGER slice front end visible in the same translation unit (a header combination every user who includes nmtools/array/array/slice.hpp gets)
#include "nmtools/array/array/slice.hpp"
#include "nmtools/array/array/matmul.hpp"
KERNEL int K(k_front_matmul_sl)(SIG8x2){ b2_t a, b; if (!mk2(a,shape,data) || !mk2(b,shape+2,datb)) return -1; LE(view::matmul(a, b), na::matmul(a, b)); }
#endif

#if FR_PART == 6   // ---- members of further binary ufuncs (same scheme as part 1)
#include "nmtools/array/array/ufuncs/subtract.hpp"
#include "nmtools/array/array/ufuncs/multiply.hpp"
#include "nmtools/array/array/ufuncs/maximum.hpp"
#include "nmtools/array/array/ufuncs/minimum.hpp"
#include "nmtools/array/array/ufuncs/left_shift.hpp"
#include "nmtools/array/array/ufuncs/right_shift.hpp"
#define UF_OUTER(U) KERNEL int K(k_front_##U##_outer)(SIG8x2){ A8; b1_t b; if (!mk1(b,shape+2,datb)) return -1; LE(view::outer_##U(a, b, nm::uint8), na::U.outer(a, b, nm::uint8)); }
#define UF(U) \
KERNEL int K(k_front_##U##_reduce)(SIG8){ A8; LE(view::reduce_##U(a, p[0], nm::uint32, (unsigned)p[1], nm::True), na::U.reduce(a, p[0], nm::uint32, (unsigned)p[1], nm::True)); } \
KERNEL int K(k_front_##U##_accumulate)(SIG8){ A8; LE(view::accumulate_##U(a, p[0], nm::uint32), na::U.accumulate(a, p[0], nm::uint32)); } \
UF_OUTER(U)
UF(subtract) UF(maximum) UF(minimum) UF(left_shift) UF(right_shift) UF_OUTER(multiply)
#endif

#if FR_PART == 7   // ---- further front ends with optional arguments
#include "nmtools/array/array/tri.hpp"
#include "nmtools/array/array/diagflat.hpp"
#include "nmtools/array/array/var.hpp"
// p: N, M, k
KERNEL int K(k_front_tri)(TAIL){ LE(view::tri((size_t)p[0], (size_t)p[1], p[2], nm::uint8), na::tri((size_t)p[0], (size_t)p[1], p[2], nm::uint8)); }
// p: k
KERNEL int K(k_front_diagflat)(SIG32){ A32; LE(view::diagflat(a, p[0]), na::diagflat(a, p[0])); }
// float result (compared eager vs lazy as a float32 bit pattern; dim, shape and element size against NumPy). p: axis, ddof
KERNEL int K(k_front_var)(SIG8){ A8; float lf = 0, ef = 0; auto mv = view::var(a, p[0], nm::float64, p[1], nm::True); auto me = na::var(a, p[0], nm::float64, p[1], nm::True);
  lshape[3] = elem_size(mv); eshape[3] = elem_size(me);
  int r = lazy_eager(mv, me, idx, nidx, lshape, ldim, &lf, eshape, edim, &ef); __builtin_memcpy(lval, &lf, 4); __builtin_memcpy(ev, &ef, 4); return r; }
#endif
