// C07 (b): per-op leaf kernels, integer dtypes. Each kernel applies the REAL view (view::<op>) to a one-element array (and a scalar
// right operand for binary ops: broadcast + ufunc_t::operator()) and returns the single element, widened to 64 bits.
#include "common.hpp"
#include "nmtools/array/view/ufuncs/negative.hpp"
#include "nmtools/array/view/ufuncs/positive.hpp"
#include "nmtools/array/view/ufuncs/invert.hpp"
#include "nmtools/array/view/ufuncs/square.hpp"
#include "nmtools/array/view/ufuncs/reciprocal.hpp"
#include "nmtools/array/view/ufuncs/logical_not.hpp"
#include "nmtools/array/view/ufuncs/add.hpp"
#include "nmtools/array/view/ufuncs/subtract.hpp"
#include "nmtools/array/view/ufuncs/multiply.hpp"
#include "nmtools/array/view/ufuncs/divide.hpp"
#include "nmtools/array/view/ufuncs/mod.hpp"
#include "nmtools/array/view/ufuncs/bitwise_and.hpp"
#include "nmtools/array/view/ufuncs/bitwise_or.hpp"
#include "nmtools/array/view/ufuncs/bitwise_xor.hpp"
#include "nmtools/array/view/ufuncs/left_shift.hpp"
#include "nmtools/array/view/ufuncs/right_shift.hpp"
#include "nmtools/array/view/ufuncs/equal.hpp"
#include "nmtools/array/view/ufuncs/not_equal.hpp"
#include "nmtools/array/view/ufuncs/less.hpp"
#include "nmtools/array/view/ufuncs/less_equal.hpp"
#include "nmtools/array/view/ufuncs/greater.hpp"
#include "nmtools/array/view/ufuncs/greater_equal.hpp"
#include "nmtools/array/view/ufuncs/logical_and.hpp"
#include "nmtools/array/view/ufuncs/logical_or.hpp"
#include "nmtools/array/view/ufuncs/logical_xor.hpp"
#include "nmtools/array/view/ufuncs/maximum.hpp"
#include "nmtools/array/view/ufuncs/minimum.hpp"
#include "../harnesses/C07_leaf.def"
namespace view = nm::view;
typedef signed char i8; typedef int i32; typedef unsigned u32; typedef long i64; typedef unsigned long u64;
// parameter types of the flat signature (sub-int types travel as int and are narrowed here)
#define P_i8 int
#define P_i32 int
#define P_u32 unsigned
#define P_i64 long
#define P_u64 unsigned long
template <typename V> static inline int get0(const V& mv, long* out){
  if (!nm::has_value(mv)) return 0;
  const auto& v = nm::unwrap(mv); *out = (long)v(0); return 1; }
#define UNK(op, T) KERNEL int K(k_##op##_##T)(P_##T x, long* out){ nmtools_array<T,1> a{(T)x}; return get0(view::op(a), out); }
#define BIK(op, T, U) KERNEL int K(k_##op##_##T##_##U)(P_##T x, P_##U y, long* out){ nmtools_array<T,1> a{(T)x}; return get0(view::op(a,(U)y), out); }
#define BIK_AA(op, T, U) KERNEL int K(k_##op##_aa_##T##_##U)(P_##T x, P_##U y, long* out){ nmtools_array<T,1> a{(T)x}; nmtools_array<U,1> b{(U)y}; return get0(view::op(a,b), out); }
#define YU(op) C07_INT_TYPES(UNK, op)
#define YB(op) C07_INT_PAIRS(BIK, op)
C07_INT_UNOPS(YU)
C07_INT_BINOPS(YB)
// maximum / minimum with both operands arrays (the functor applied to plain elements)
C07_INT_PAIRS(BIK_AA, maximum)
C07_INT_PAIRS(BIK_AA, minimum)
