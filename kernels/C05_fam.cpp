// C05 (2 and 3 axes): families of integers / slices / one ellipsis, packed (one instantiation per family) and dynamic (one instantiation per dim)
#include "common.hpp"
#include "nmtools/array/index/slice.hpp"
#include "C05_common.hpp"
// ---- 2 and 3 axes, packed: families of integers (i), full slices (s = tuple{int,int,int}) and one ellipsis (e) ----
// p holds one (start,stop,step) triple per item; an integer item uses the first entry of its triple
#define S(j) nmtools_tuple{p[3*(j)],p[3*(j)+1],p[3*(j)+2]}
#define I(j) p[3*(j)]
#define E Ellipsis
#define FAMS(NAME, DIM, ...) \
KERNEL size_t K(k_fshape##DIM##_##NAME)(const size_t* shape, const int* p, size_t* out){ \
  auto sh = mk_arr<size_t,DIM>(shape); auto r = ix::shape_slice(sh, __VA_ARGS__); return put(r,out); }
#define FAM(NAME, DIM, ODIM, ...) FAMS(NAME, DIM, __VA_ARGS__) \
KERNEL size_t K(k_findex##DIM##_##NAME)(const size_t* shape, const int* p, const size_t* idx, size_t* out){ \
  auto sh = mk_arr<size_t,DIM>(shape); auto r = ix::slice(mk_arr<size_t,ODIM>(idx), sh, __VA_ARGS__); return put(r,out); }
FAM(e,   2, 2, E)
FAM(es,  2, 2, E, S(1))
FAM(se,  2, 2, S(0), E)
FAM(ei,  2, 1, E, I(1))
FAM(ie,  2, 1, I(0), E)
FAM(is,  2, 1, I(0), S(1))
FAM(si,  2, 1, S(0), I(1))
FAM(ss,  2, 2, S(0), S(1))
FAM(ses, 2, 2, S(0), E, S(2))
FAMS(ii, 2, I(0), I(1))
FAM(e,   3, 3, E)
FAM(se,  3, 3, S(0), E)
FAM(es,  3, 3, E, S(1))
FAM(ses, 3, 3, S(0), E, S(2))
FAM(ie,  3, 2, I(0), E)
FAM(ei,  3, 2, E, I(1))
FAM(ies, 3, 2, I(0), E, S(2))
FAM(sei, 3, 2, S(0), E, I(2))
FAM(iei, 3, 1, I(0), E, I(2))
FAM(ess, 3, 3, E, S(1), S(2))
FAM(sse, 3, 3, S(0), S(1), E)
FAM(sis, 3, 2, S(0), I(1), S(2))
FAM(isi, 3, 1, I(0), S(1), I(2))
FAM(iis, 3, 1, I(0), I(1), S(2))
FAM(sss, 3, 3, S(0), S(1), S(2))
FAM(sess,3, 3, S(0), E, S(2), S(3))
// fewer items than axes, no ellipsis (NumPy takes the remaining axes whole)
FAM(s,   2, 2, S(0))
FAM(i,   2, 1, I(0))
FAM(ss,  3, 3, S(0), S(1))
FAM(is,  3, 2, I(0), S(1))
#undef S
#undef I
#undef E

// ---- 2 and 3 axes, dynamic: ONE instantiation per dim; the kind of every item is a run-time value (0 int, 1 array<int,3>, 2 ellipsis) ----
#define DYN(DIM, SFX, LIST) \
KERNEL size_t K(k_dynshape##DIM##SFX)(const size_t* shape, const int* kinds, const int* p, size_t ns, size_t* out){ \
  auto sh = mk_arr<size_t,DIM>(shape); LIST sl; mk_dslices(sl,kinds,p,ns); \
  auto r = ix::shape_dynamic_slice(sh, sl); return put(r,out); } \
KERNEL size_t K(k_dynindex##DIM##SFX)(const size_t* shape, const int* kinds, const int* p, size_t ns, const size_t* idx, size_t nidx, size_t* out){ \
  auto sh = mk_arr<size_t,DIM>(shape); LIST sl; mk_dslices(sl,kinds,p,ns); \
  auto r = ix::dynamic_slice(mk_sv<size_t,4>(idx,nidx), sh, sl); return put(r,out); }
DYN(1,,nmtools_list<d_slice_t>)
DYN(1,_sv,d_sv_t)
DYN(2,,nmtools_list<d_slice_t>)
DYN(3,,nmtools_list<d_slice_t>)
DYN(2,_sv,d_sv_t)
DYN(3,_sv,d_sv_t)

