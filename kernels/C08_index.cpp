// C08 index level: index::remove_dims (result shape) and index::reduction_slices (which source elements) on bounded run-time-dim shapes
#include "common.hpp"
#include "nmtools/array/index/remove_dims.hpp"
#include "nmtools/array/index/reduce.hpp"
using sh_t = utl::static_vector<size_t,4>;
template <typename S> static inline size_t put_slices(const S& s, size_t* out){ size_t n = nm::len(s); for (size_t i = 0; i < n; i++){ out[2*i] = nm::at(nm::at(s,i),0); out[2*i+1] = nm::at(nm::at(s,i),1); } return n; }
// remove_dims: single run-time axis, keepdims as compile-time False / True
KERNEL size_t K(k_rd_axis_f)(const size_t* shape, size_t n, int axis, size_t* out){ return put(ix::remove_dims(mk_sv<size_t,4>(shape,n), axis, nm::False), out); }
KERNEL size_t K(k_rd_axis_t)(const size_t* shape, size_t n, int axis, size_t* out){ return put(ix::remove_dims(mk_sv<size_t,4>(shape,n), axis, nm::True), out); }
// fixed-dim shape (std::array<size_t,4>)
KERNEL size_t K(k_rd_arr4_axis_f)(const size_t* shape, int axis, size_t* out){ return put(ix::remove_dims(mk_arr<size_t,4>(shape), axis, nm::False), out); }
KERNEL size_t K(k_rd_arr4_axis_t)(const size_t* shape, int axis, size_t* out){ return put(ix::remove_dims(mk_arr<size_t,4>(shape), axis, nm::True), out); }
// two run-time axes
KERNEL size_t K(k_rd_axes2_f)(const size_t* shape, size_t n, const int* axes, size_t* out){ return put(ix::remove_dims(mk_sv<size_t,4>(shape,n), mk_arr<int,2>(axes), nm::False), out); }
KERNEL size_t K(k_rd_axes2_t)(const size_t* shape, size_t n, const int* axes, size_t* out){ return put(ix::remove_dims(mk_sv<size_t,4>(shape,n), mk_arr<int,2>(axes), nm::True), out); }
// axis None with keepdims True (False gives None: no shape)
KERNEL size_t K(k_rd_none_t)(const size_t* shape, size_t n, size_t* out){ return put(ix::remove_dims(mk_sv<size_t,4>(shape,n), nm::None, nm::True), out); }
// reduction_slices: (start, stop) per source axis
KERNEL size_t K(k_rs_axis_f)(const size_t* idx, size_t nidx, const size_t* shape, size_t n, int axis, size_t* out){
  return put_slices(ix::reduction_slices(mk_sv<size_t,4>(idx,nidx), mk_sv<size_t,4>(shape,n), axis, nm::False), out); }
KERNEL size_t K(k_rs_axis_t)(const size_t* idx, size_t nidx, const size_t* shape, size_t n, int axis, size_t* out){
  return put_slices(ix::reduction_slices(mk_sv<size_t,4>(idx,nidx), mk_sv<size_t,4>(shape,n), axis, nm::True), out); }
KERNEL size_t K(k_rs_axes2_f)(const size_t* idx, size_t nidx, const size_t* shape, size_t n, const int* axes, size_t* out){
  return put_slices(ix::reduction_slices(mk_sv<size_t,4>(idx,nidx), mk_sv<size_t,4>(shape,n), mk_arr<int,2>(axes), nm::False), out); }
KERNEL size_t K(k_rs_axes2_t)(const size_t* idx, size_t nidx, const size_t* shape, size_t n, const int* axes, size_t* out){
  return put_slices(ix::reduction_slices(mk_sv<size_t,4>(idx,nidx), mk_sv<size_t,4>(shape,n), mk_arr<int,2>(axes), nm::True), out); }
KERNEL size_t K(k_rs_arr4_axis_f)(const size_t* idx, const size_t* shape, int axis, size_t* out){
  return put_slices(ix::reduction_slices(mk_arr<size_t,3>(idx), mk_arr<size_t,4>(shape), axis, nm::False), out); }
// keepdims as a run-time bool at the index level (view::reduce never does this: it dispatches to True / False)
KERNEL size_t K(k_rd_axis_rt)(const size_t* shape, size_t n, int axis, int keep, size_t* out){ return put(ix::remove_dims(mk_sv<size_t,4>(shape,n), axis, (bool)keep), out); }
KERNEL size_t K(k_rs_axis_rt)(const size_t* idx, size_t nidx, const size_t* shape, size_t n, int axis, int keep, size_t* out){
  return put_slices(ix::reduction_slices(mk_sv<size_t,4>(idx,nidx), mk_sv<size_t,4>(shape,n), axis, (bool)keep), out); }
