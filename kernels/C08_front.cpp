// C08 front ends: sum, prod, amax, amin, cumsum, cumprod, trace on unsigned data; mean, var, stddev, vector_norm on float data
#include "common.hpp"
#include "nmtools/array/view/sum.hpp"
#include "nmtools/array/view/prod.hpp"
#include "nmtools/array/view/ufuncs/amax.hpp"
#include "nmtools/array/view/ufuncs/amin.hpp"
#include "nmtools/array/view/cumsum.hpp"
#include "nmtools/array/view/cumprod.hpp"
#include "nmtools/array/view/trace.hpp"
#include "nmtools/array/view/mean.hpp"
#include "nmtools/array/view/var.hpp"
#include "nmtools/array/view/stddev.hpp"
#include "nmtools/array/view/vector_norm.hpp"
namespace view = nm::view;
using a3_t = hyb_t<unsigned,27,3>;
using a2_t = hyb_t<unsigned,9,2>;
using f2_t = hyb_t<float,9,2>;
template <typename V, typename T> static inline int observe_any(const V& v, const size_t* idx, size_t nidx, size_t* oshape, size_t* odim, T* out){
  if constexpr (meta::is_either_v<V>) {
    using L = meta::get_either_left_t<V>; using R = meta::get_either_right_t<V>;
    if (auto l = nm::get_if<L>(&v)) return observe_any(*l, idx, nidx, oshape, odim, out);
    else return observe_any(*nm::get_if<R>(&v), idx, nidx, oshape, odim, out);
  } else if constexpr (meta::is_num_v<V>) {
    *odim = 0; *out = (T)static_cast<meta::get_element_type_t<V>>(v); return nidx == 0 ? 1 : 2;
  } else return observe(v, idx, nidx, oshape, odim, out);
}
#define SIG const size_t* shape, const unsigned* data
#define OUTS const size_t* idx, size_t nidx, size_t* oshape, size_t* odim, unsigned* out
#define MK a3_t a; if (!mk3(a,shape,data)) return -1
#define OBS_ANY(v) return observe_any(v, idx, nidx, oshape, odim, out)
KERNEL int K(k_sum_axis)(SIG, int axis, OUTS){ MK; OBS_ANY(view::sum(a, axis)); }
KERNEL int K(k_sum_none)(SIG, OUTS){ MK; OBS_ANY(view::sum(a, nm::None)); }
KERNEL int K(k_sum_axis_init_keep)(SIG, int axis, unsigned init, int keepdims, OUTS){ MK; OBS_ANY(view::sum(a, axis, nm::None, init, (bool)keepdims)); }
KERNEL int K(k_prod_axis)(SIG, int axis, OUTS){ MK; OBS_ANY(view::prod(a, axis)); }
KERNEL int K(k_amax_axis)(SIG, int axis, OUTS){ MK; OBS_ANY(view::amax(a, axis)); }
KERNEL int K(k_amin_axis)(SIG, int axis, OUTS){ MK; OBS_ANY(view::amin(a, axis)); }
KERNEL int K(k_amax_none)(SIG, OUTS){ MK; OBS_ANY(view::amax(a)); }
// signed elements: the extreme value of a slice of negative numbers is negative (no implicit 0 takes part)
using a3i_t = hyb_t<int,27,3>;
#define MKI a3i_t a; if (!mk3(a,shape,(const int*)data)) return -1
KERNEL int K(k_amax_axis_i32)(SIG, int axis, OUTS){ MKI; OBS_ANY(view::amax(a, axis)); }
KERNEL int K(k_amin_axis_i32)(SIG, int axis, OUTS){ MKI; OBS_ANY(view::amin(a, axis)); }
KERNEL int K(k_amax_none_i32)(SIG, OUTS){ MKI; OBS_ANY(view::amax(a)); }
KERNEL int K(k_cumsum_axis)(SIG, int axis, OUTS){ MK; OBS_ANY(view::cumsum(a, axis)); }
KERNEL int K(k_cumprod_axis)(SIG, int axis, OUTS){ MK; OBS_ANY(view::cumprod(a, axis)); }
// trace of a 2-d array (a number) and of a 3-d array over its first two axes (a 1-d array)
KERNEL int K(k_trace2)(SIG, OUTS){ a2_t a; if (!mk2(a,shape,data)) return -1; OBS_ANY(view::trace(a)); }
KERNEL int K(k_trace3)(SIG, OUTS){ MK; OBS_ANY(view::trace(a)); }
// float front ends on a 2-d float array
#define FSIG const size_t* shape, const float* data
#define FOUTS const size_t* idx, size_t nidx, size_t* oshape, size_t* odim, float* out
#define FMK f2_t a; if (!mk2(a,shape,data)) return -1
KERNEL int K(k_mean_axis)(FSIG, int axis, FOUTS){ FMK; OBS_ANY(view::mean(a, axis)); }
KERNEL int K(k_var_axis)(FSIG, int axis, FOUTS){ FMK; OBS_ANY(view::var(a, axis)); }
KERNEL int K(k_stddev_axis)(FSIG, int axis, FOUTS){ FMK; OBS_ANY(view::stddev(a, axis)); }
KERNEL int K(k_vector_norm_axis)(FSIG, int axis, FOUTS){ FMK; OBS_ANY(view::vector_norm(a, axis)); }
// reference operations for the harness (bare C++ operators / library calls, no nmtools code), compiled through the same pipeline
#define REFOP(n, T, TN, o) KERNEL T K(k_ref_##n##_##TN)(T a, T b){ return a o b; }
REFOP(fadd, float, f32, +) REFOP(fsub, float, f32, -) REFOP(fmul, float, f32, *) REFOP(fdiv, float, f32, /)
KERNEL float K(k_ref_sqrt_f32)(float a){ return std::sqrt(a); }
KERNEL double K(k_ref_sqrt_f64)(double a){ return std::sqrt(a); }
KERNEL double K(k_ref_fadd_f64)(double a, double b){ return a + b; }
KERNEL double K(k_ref_fmul_f64)(double a, double b){ return a * b; }
