// C03: rearranging views. Real code: index::shape_reshape, view::reshape/flatten/transpose/moveaxis/swapaxes/expand_dims/squeeze/atleast_nd/flip
#include "common.hpp"
#include "nmtools/array/index/reshape.hpp"
#include "nmtools/array/index/transpose.hpp"
#include "nmtools/array/view/reshape.hpp"
#include "nmtools/array/view/flatten.hpp"
#include "nmtools/array/view/transpose.hpp"
#include "nmtools/array/view/moveaxis.hpp"
#include "nmtools/array/view/swapaxes.hpp"
#include "nmtools/array/view/expand_dims.hpp"
#include "nmtools/array/view/squeeze.hpp"
#include "nmtools/array/view/atleast_nd.hpp"
#include "nmtools/array/view/flip.hpp"
namespace view = nm::view;
using a3_t = hyb_t<unsigned,64,3>;
using a2_t = hyb_t<unsigned,16,2>;

// index level: shape_reshape on bounded vectors, dst entries signed
KERNEL int K(k_shape_reshape)(const size_t* src, size_t ns, const int* dst, size_t nd, size_t* out, size_t* nout){
  auto r = ix::shape_reshape(mk_sv<size_t,4>(src,ns), mk_sv<int,4>(dst,nd));
  if (!nm::has_value(r)) return 0;
  *nout = put(nm::unwrap(r), out); return 1;
}
// view::reshape of a 3-d hybrid array to a run-time target of 1..4 entries (may contain -1)
KERNEL int K(k_reshape3)(const size_t* shape, const unsigned* data, const int* dst, size_t nd, const size_t* idx, size_t nidx, size_t* oshape, size_t* odim, unsigned* out){
  a3_t a; if (!mk3(a,shape,data)) return -1;
  return observe(view::reshape(a, mk_sv<int,4>(dst,nd)), idx, nidx, oshape, odim, out);
}
KERNEL int K(k_flatten3)(const size_t* shape, const unsigned* data, const size_t* idx, size_t nidx, size_t* oshape, size_t* odim, unsigned* out){
  a3_t a; if (!mk3(a,shape,data)) return -1;
  return observe(view::flatten(a), idx, nidx, oshape, odim, out);
}
// transpose with explicit run-time axes and with default (None) axes
KERNEL int K(k_transpose3)(const size_t* shape, const unsigned* data, const int* axes, const size_t* idx, size_t nidx, size_t* oshape, size_t* odim, unsigned* out){
  a3_t a; if (!mk3(a,shape,data)) return -1;
  return observe(view::transpose(a, mk_arr<int,3>(axes)), idx, nidx, oshape, odim, out);
}
KERNEL int K(k_transpose3_default)(const size_t* shape, const unsigned* data, const size_t* idx, size_t nidx, size_t* oshape, size_t* odim, unsigned* out){
  a3_t a; if (!mk3(a,shape,data)) return -1;
  return observe(view::transpose(a), idx, nidx, oshape, odim, out);
}
// transpose(transpose(a,p),q): involution law when q = p^-1
KERNEL int K(k_transpose3_twice)(const size_t* shape, const unsigned* data, const int* p, const int* q, const size_t* idx, size_t nidx, size_t* oshape, size_t* odim, unsigned* out){
  a3_t a; if (!mk3(a,shape,data)) return -1;
  auto t1 = view::transpose(a, mk_arr<int,3>(p));
  return observe(view::transpose(t1, mk_arr<int,3>(q)), idx, nidx, oshape, odim, out);
}
KERNEL int K(k_moveaxis3)(const size_t* shape, const unsigned* data, int src, int dst, const size_t* idx, size_t nidx, size_t* oshape, size_t* odim, unsigned* out){
  a3_t a; if (!mk3(a,shape,data)) return -1;
  return observe(view::moveaxis(a, src, dst), idx, nidx, oshape, odim, out);
}
KERNEL int K(k_swapaxes3)(const size_t* shape, const unsigned* data, int ax1, int ax2, const size_t* idx, size_t nidx, size_t* oshape, size_t* odim, unsigned* out){
  a3_t a; if (!mk3(a,shape,data)) return -1;
  return observe(view::swapaxes(a, ax1, ax2), idx, nidx, oshape, odim, out);
}
KERNEL int K(k_expand_dims2)(const size_t* shape, const unsigned* data, int axis, const size_t* idx, size_t nidx, size_t* oshape, size_t* odim, unsigned* out){
  a2_t a; if (!mk2(a,shape,data)) return -1;
  return observe(view::expand_dims(a, axis), idx, nidx, oshape, odim, out);
}
KERNEL int K(k_squeeze3)(const size_t* shape, const unsigned* data, const size_t* idx, size_t nidx, size_t* oshape, size_t* odim, unsigned* out){
  a3_t a; if (!mk3(a,shape,data)) return -1;
  return observe(view::squeeze(a), idx, nidx, oshape, odim, out);
}
#define ATLEAST(ND) KERNEL int K(k_atleast_nd2_##ND)(const size_t* shape, const unsigned* data, const size_t* idx, size_t nidx, size_t* oshape, size_t* odim, unsigned* out){ \
  a2_t a; if (!mk2(a,shape,data)) return -1; \
  return observe(view::atleast_nd(a, meta::ct_v<ND>), idx, nidx, oshape, odim, out); }
ATLEAST(1) ATLEAST(2) ATLEAST(3) ATLEAST(4)
KERNEL int K(k_flip3)(const size_t* shape, const unsigned* data, int axis, const size_t* idx, size_t nidx, size_t* oshape, size_t* odim, unsigned* out){
  a3_t a; if (!mk3(a,shape,data)) return -1;
  return observe(view::flip(a, axis), idx, nidx, oshape, odim, out);
}
KERNEL int K(k_flip3_all)(const size_t* shape, const unsigned* data, const size_t* idx, size_t nidx, size_t* oshape, size_t* odim, unsigned* out){
  a3_t a; if (!mk3(a,shape,data)) return -1;
  return observe(view::flip(a, nm::None), idx, nidx, oshape, odim, out);
}
KERNEL int K(k_flip3_twice)(const size_t* shape, const unsigned* data, int axis, const size_t* idx, size_t nidx, size_t* oshape, size_t* odim, unsigned* out){
  a3_t a; if (!mk3(a,shape,data)) return -1;
  auto f1 = view::flip(a, axis);
  return observe(view::flip(f1, axis), idx, nidx, oshape, odim, out);
}

// list-valued arguments: moveaxis with two source/destination axes, flip with a list of two axes (entries possibly negative)
KERNEL int K(k_moveaxis3_list)(const size_t* shape, const unsigned* data, const int* src, const int* dst, const size_t* idx, size_t nidx, size_t* oshape, size_t* odim, unsigned* out){
  a3_t a; if (!mk3(a,shape,data)) return -1;
  return observe(view::moveaxis(a, mk_arr<int,2>(src), mk_arr<int,2>(dst)), idx, nidx, oshape, odim, out);
}
KERNEL int K(k_flip3_list)(const size_t* shape, const unsigned* data, const int* axes, const size_t* idx, size_t nidx, size_t* oshape, size_t* odim, unsigned* out){
  a3_t a; if (!mk3(a,shape,data)) return -1;
  return observe(view::flip(a, mk_arr<int,2>(axes)), idx, nidx, oshape, odim, out);
}
