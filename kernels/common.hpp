// Marshalling helpers shared by all kernels. No logic of their own: they build nmtools/std objects from
// flat (pointer, length) parameters and copy results to out-parameters.
#pragma once
#include "nmtools/array/ndarray.hpp"
#include "nmtools/utl/static_vector.hpp"
#include "nmtools/stl.hpp"
#include <array>
#include <vector>
#include <tuple>
namespace nm = nmtools; namespace ix = nm::index; namespace na = nm::array; namespace meta = nm::meta; namespace utl = nm::utl;
#ifndef KSUFFIX
#define KSUFFIX
#endif
#define KCAT2(a,b) a##b
#define KCAT(a,b) KCAT2(a,b)
#define K(name) KCAT(name,KSUFFIX)
#define KERNEL extern "C" __attribute__((noinline))

template <typename T, size_t N> static inline utl::static_vector<T,N> mk_sv(const T* p, size_t n){
  utl::static_vector<T,N> s; s.resize(n); for (size_t i=0;i<n&&i<N;i++) s[i]=p[i]; return s; }
template <typename T, size_t N> static inline std::array<T,N> mk_arr(const T* p){
  std::array<T,N> s{}; for (size_t i=0;i<N;i++) s[i]=p[i]; return s; }
template <typename T> static inline std::vector<T> mk_vec(const T* p, size_t n){ return std::vector<T>(p,p+n); }
template <typename C, typename T> static inline size_t put(const C& c, T* out){
  size_t n = nm::len(c); for (size_t i=0;i<n;i++) out[i]=(T)nm::at(c,i); return n; }

// hybrid ndarray: bounded buffer (static_vector) + fixed-dim run-time shape
template <typename T, size_t CAP, size_t DIM> using hyb_t = na::ndarray_t< na::static_vector<T,CAP>, nmtools_array<size_t,DIM> >;
// the only loops over whole buffers live in these named helpers, so that harnesses can give them their own unwind bound
// (--unwindset k_fill_u32.0:<cells+1>) while the nmtools loops keep the small global bound
KERNEL void K(k_fill_u32)(unsigned* dst, const unsigned* src, size_t n){ for (size_t i=0;i<n;i++) dst[i]=src[i]; }
KERNEL void K(k_fill_u8)(unsigned char* dst, const unsigned char* src, size_t n){ for (size_t i=0;i<n;i++) dst[i]=src[i]; }
KERNEL void K(k_fill_f32)(float* dst, const float* src, size_t n){ for (size_t i=0;i<n;i++) dst[i]=src[i]; }
KERNEL void K(k_fill_u64)(size_t* dst, const size_t* src, size_t n){ for (size_t i=0;i<n;i++) dst[i]=src[i]; }
static inline void fill_n(unsigned* d, const unsigned* s, size_t n){ K(k_fill_u32)(d,s,n); }
static inline void fill_n(unsigned char* d, const unsigned char* s, size_t n){ K(k_fill_u8)(d,s,n); }
static inline void fill_n(float* d, const float* s, size_t n){ K(k_fill_f32)(d,s,n); }
static inline void fill_n(size_t* d, const size_t* s, size_t n){ K(k_fill_u64)(d,s,n); }
static inline void fill_n(int* d, const int* s, size_t n){ K(k_fill_u32)((unsigned*)d,(const unsigned*)s,n); }
static inline void fill_n(long* d, const long* s, size_t n){ K(k_fill_u64)((size_t*)d,(const size_t*)s,n); }
template <typename A, typename T> static inline bool fill(A& a, const T* d){
  size_t n = nm::size(a); fill_n(&a.data_[0], d, n); return true; }
template <typename T, size_t CAP> static inline bool mk1(hyb_t<T,CAP,1>& a, const size_t* s, const T* d){ return a.resize(s[0]) && fill(a,d); }
template <typename T, size_t CAP> static inline bool mk2(hyb_t<T,CAP,2>& a, const size_t* s, const T* d){ return a.resize(s[0],s[1]) && fill(a,d); }
template <typename T, size_t CAP> static inline bool mk3(hyb_t<T,CAP,3>& a, const size_t* s, const T* d){ return a.resize(s[0],s[1],s[2]) && fill(a,d); }
template <typename T, size_t CAP> static inline bool mk4(hyb_t<T,CAP,4>& a, const size_t* s, const T* d){ return a.resize(s[0],s[1],s[2],s[3]) && fill(a,d); }

// observe a (maybe-)view: has_value, dim, shape, and the element at a packed index of run-time length
template <typename V, typename T> static inline int observe(const V& mv, const size_t* idx, size_t nidx, size_t* oshape, size_t* odim, T* out){
  if (!nm::has_value(mv)) return 0;
  const auto& v = nm::unwrap(mv);
  *odim = put(nm::shape(v), oshape);
  if (nidx != *odim) return 2;           // shape reported, element not read (caller passed an index of the wrong length)
  *out = (T)v(mk_sv<size_t,8>(idx, nidx));
  return 1;
}
