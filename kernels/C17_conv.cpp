// C17: convolution. (1) output SHAPE of view::conv1d / conv2d through the real convnd pipeline (reshape by groups, pad, sliding_window,
// expand, multiply, sum, reshape, stride slicing) with run-time stride / padding / dilation - no element is read;
// (2) the index helpers shape_sliding_window / sliding_window, shape_expand / expand, shape_pad / pad;
// (3) conv1d ELEMENT at its smallest constant shape (fixed arrays), for the "not reached" measurement. Kernels only marshal.
#include "common.hpp"
#include "nmtools/array/view/conv1d.hpp"
#include "nmtools/array/view/conv2d.hpp"
#include "nmtools/array/index/sliding_window.hpp"
#include "nmtools/array/index/pad.hpp"
namespace view = nm::view;
typedef unsigned char u8;
template <typename V> static inline int shape_of(const V& mv, size_t* oshape, size_t* odim){
  if (!nm::has_value(mv)) return 0;
  *odim = put(nm::shape(nm::unwrap(mv)), oshape); return 1;
}
#ifndef ELEMENTS_ONLY
// input (N,Cin,L), weight (Cout,Cin,K) hybrid; stride/padding/dilation run-time scalars
KERNEL int K(k_conv1d_shape)(const size_t* si, const size_t* sw, size_t stride, size_t padding, size_t dilation, size_t* oshape, size_t* odim){
  hyb_t<u8,32,3> x, w; if (!x.resize(si[0],si[1],si[2]) || !w.resize(sw[0],sw[1],sw[2])) return -1;
  return shape_of(view::conv1d(x, w, nm::None, stride, padding, dilation), oshape, odim);
}
// input (N,Cin,H,W), weight (Cout,Cin,KH,KW); stride/padding/dilation run-time pairs
KERNEL int K(k_conv2d_shape)(const size_t* si, const size_t* sw, const size_t* stride, const size_t* padding, const size_t* dilation, size_t* oshape, size_t* odim){
  hyb_t<u8,64,4> x; hyb_t<u8,36,4> w; if (!x.resize(si[0],si[1],si[2],si[3]) || !w.resize(sw[0],sw[1],sw[2],sw[3])) return -1;
  return shape_of(view::conv2d(x, w, nm::None, mk_arr<size_t,2>(stride), mk_arr<size_t,2>(padding), mk_arr<size_t,2>(dilation)), oshape, odim);
}
// sliding window over the last two axes of a 4-d shape (what convnd uses): result shape and source index of a window index
KERNEL void K(k_sliding_window)(const size_t* shape, const size_t* win, const size_t* idx, size_t* oshape, size_t* src){
  auto s = mk_arr<size_t,4>(shape); auto w = mk_arr<size_t,2>(win); auto axis = nmtools_array<int,2>{-2,-1};
  auto dst = ix::shape_sliding_window(s, w, axis);
  put(dst, oshape);
  auto naxis = nmtools_array<size_t,2>{2,3};
  put(ix::sliding_window(mk_arr<size_t,6>(idx), dst, s, w, naxis), src);
}
KERNEL int K(k_expand)(const size_t* shape, const size_t* spacing, const size_t* idx, size_t* oshape, size_t* src){
  auto s = mk_arr<size_t,4>(shape); auto axis = nmtools_array<int,2>{-2,-1}; auto sp = mk_arr<size_t,2>(spacing);
  auto dst = ix::shape_expand(s, axis, sp);
  put(nm::unwrap(dst), oshape);
  auto r = ix::expand(mk_arr<size_t,4>(idx), s, axis, sp);
  // expand returns either<fill-marker, index>: report 0 for a gap (fill value), 1 + the source index otherwise
  using left_t = meta::get_either_left_t<decltype(r)>;
  if (auto p = nm::get_if<left_t>(&r)) { put(*p, src); return 1; }
  return 0;
}
KERNEL int K(k_pad_index)(const size_t* shape, const size_t* padw, const size_t* idx, size_t* oshape, size_t* src){
  auto s = mk_arr<size_t,4>(shape); auto pw = mk_arr<size_t,8>(padw);
  auto dst = ix::shape_pad(s, pw); if (!nm::has_value(dst)) return -1;
  put(nm::unwrap(dst), oshape);
  auto r = ix::pad(mk_arr<size_t,4>(idx), s, nm::unwrap(dst), pw);
  if (!nm::has_value(r)) return 0;
  put(nm::unwrap(r), src); return 1;
}
#endif
#ifndef NO_ELEMENTS
// conv1d, smallest case: input (1,1,3), weight (1,1,2) -> (1,1,2)
KERNEL int K(k_conv1d_el)(const u8* din, const u8* dw, const size_t* idx, size_t* os, u8* o){
  u8 in[1][1][3]; u8 w[1][1][2];
  for (int i=0;i<3;i++) (&in[0][0][0])[i]=din[i]; for (int i=0;i<2;i++) (&w[0][0][0])[i]=dw[i];
  auto mv = view::conv1d(in,w);
  const auto& v = nm::unwrap(mv);
  put(nm::shape(v), os);
  *o = (u8)v(idx[0],idx[1],idx[2]);
  return 1;
}
#endif
