// C17: convolution. (1) output SHAPE of view::conv1d / conv2d through the real convnd pipeline (reshape by groups, pad, sliding_window,
// expand, multiply, sum, reshape, stride slicing) with run-time stride / padding / dilation - no element is read;
// (2) the index helpers shape_sliding_window / sliding_window, shape_expand / expand, shape_pad / pad;
// (3) conv1d ELEMENT at its smallest constant shape (fixed arrays), for the "not reached" measurement. Kernels only marshal.
#include "common.hpp"
#include "nmtools/array/view/conv1d.hpp"
#include "nmtools/array/view/conv2d.hpp"
#include "nmtools/array/index/sliding_window.hpp"
#include "nmtools/array/index/pad.hpp"
namespace view = nm::view;
typedef unsigned char u8;
template <typename V> static inline int shape_of(const V& mv, size_t* oshape, size_t* odim){
  if (!nm::has_value(mv)) return 0;
  *odim = put(nm::shape(nm::unwrap(mv)), oshape); return 1;
}
#ifndef ELEMENTS_ONLY
// input (N,Cin,L), weight (Cout,Cin,K) hybrid; stride/padding/dilation run-time scalars
KERNEL int K(k_conv1d_shape)(const size_t* si, const size_t* sw, size_t stride, size_t padding, size_t dilation, size_t* oshape, size_t* odim){
  hyb_t<u8,32,3> x, w; if (!x.resize(si[0],si[1],si[2]) || !w.resize(sw[0],sw[1],sw[2])) return -1;
  return shape_of(view::conv1d(x, w, nm::None, stride, padding, dilation), oshape, odim);
}
// same without padding (padding = None): convnd's pad widths are a heap-backed list (conv_pad with a run-time dim), which costs > 5 GB
KERNEL int K(k_conv1d_shape_nopad)(const size_t* si, const size_t* sw, size_t stride, size_t dilation, size_t* oshape, size_t* odim){
  hyb_t<u8,32,3> x, w; if (!x.resize(si[0],si[1],si[2]) || !w.resize(sw[0],sw[1],sw[2])) return -1;
  return shape_of(view::conv1d(x, w, nm::None, stride, nm::None, dilation), oshape, odim);
}
// input (N,Cin,H,W), weight (Cout,Cin,KH,KW); stride/padding/dilation run-time pairs
KERNEL int K(k_conv2d_shape)(const size_t* si, const size_t* sw, const size_t* stride, const size_t* padding, const size_t* dilation, size_t* oshape, size_t* odim){
  hyb_t<u8,64,4> x; hyb_t<u8,36,4> w; if (!x.resize(si[0],si[1],si[2],si[3]) || !w.resize(sw[0],sw[1],sw[2],sw[3])) return -1;
  return shape_of(view::conv2d(x, w, nm::None, mk_arr<size_t,2>(stride), mk_arr<size_t,2>(padding), mk_arr<size_t,2>(dilation)), oshape, odim);
}
KERNEL int K(k_conv2d_shape_nopad)(const size_t* si, const size_t* sw, const size_t* stride, const size_t* dilation, size_t* oshape, size_t* odim){
  hyb_t<u8,64,4> x; hyb_t<u8,36,4> w; if (!x.resize(si[0],si[1],si[2],si[3]) || !w.resize(sw[0],sw[1],sw[2],sw[3])) return -1;
  return shape_of(view::conv2d(x, w, nm::None, mk_arr<size_t,2>(stride), nm::None, mk_arr<size_t,2>(dilation)), oshape, odim);
}
// sliding window over the last two axes of a 4-d shape (what convnd uses): result shape and source index of a window index
KERNEL void K(k_sliding_window)(const size_t* shape, const size_t* win, const size_t* idx, size_t* oshape, size_t* src){
  auto s = mk_arr<size_t,4>(shape); auto w = mk_arr<size_t,2>(win); auto axis = nmtools_array<int,2>{-2,-1};
  auto dst = ix::shape_sliding_window(s, w, axis);
  put(dst, oshape);
  auto naxis = nmtools_array<size_t,2>{2,3};
  put(ix::sliding_window(mk_arr<size_t,6>(idx), dst, s, w, naxis), src);
}
KERNEL int K(k_expand)(const size_t* shape, const size_t* spacing, const size_t* idx, size_t* oshape, size_t* src){
  auto s = mk_arr<size_t,4>(shape); auto axis = nmtools_array<int,2>{-2,-1}; auto sp = mk_arr<size_t,2>(spacing);
  auto dst = ix::shape_expand(s, axis, sp);
  put(nm::unwrap(dst), oshape);
  auto r = ix::expand(mk_arr<size_t,4>(idx), s, axis, sp);
  // expand returns either<fill-marker, index>: report 0 for a gap (fill value), 1 + the source index otherwise
  using left_t = meta::get_either_left_t<decltype(r)>;
  if (auto p = nm::get_if<left_t>(&r)) { put(*p, src); return 1; }
  return 0;
}
KERNEL int K(k_pad_index)(const size_t* shape, const size_t* padw, const size_t* idx, size_t* oshape, size_t* src){
  auto s = mk_arr<size_t,4>(shape); auto pw = mk_arr<size_t,8>(padw);
  auto dst = ix::shape_pad(s, pw); if (!nm::has_value(dst)) return -1;
  put(nm::unwrap(dst), oshape);
  auto r = ix::pad(mk_arr<size_t,4>(idx), s, nm::unwrap(dst), pw);
  if (!nm::has_value(r)) return 0;
  put(nm::unwrap(r), src); return 1;
}
#endif
#ifndef NO_ELEMENTS
// conv1d, smallest case: input (1,1,3), weight (1,1,2) -> (1,1,2)
KERNEL int K(k_conv1d_el)(const u8* din, const u8* dw, const size_t* idx, size_t* os, u8* o){
  u8 in[1][1][3]; u8 w[1][1][2];
  for (int i=0;i<3;i++) (&in[0][0][0])[i]=din[i]; for (int i=0;i<2;i++) (&w[0][0][0])[i]=dw[i];
  auto mv = view::conv1d(in,w);
  const auto& v = nm::unwrap(mv);
  put(nm::shape(v), os);
  *o = (u8)v(idx[0],idx[1],idx[2]);
  return 1;
}
// stride 2: input (1,1,4), weight (1,1,2) -> (1,1,2)
KERNEL int K(k_conv1d_el_s2)(const u8* din, const u8* dw, const size_t* idx, size_t* os, u8* o){
  u8 in[1][1][4]; u8 w[1][1][2];
  for (int i=0;i<4;i++) (&in[0][0][0])[i]=din[i]; for (int i=0;i<2;i++) (&w[0][0][0])[i]=dw[i];
  auto mv = view::conv1d(in,w,nm::None,2);
  const auto& v = nm::unwrap(mv);
  put(nm::shape(v), os);
  *o = (u8)v(idx[0],idx[1],idx[2]);
  return 1;
}
// generic fixed-array probes: CONV_EL(name, input dims, weight dims, call)
#define CONV1D_EL(NAME, C, L, O, CW, KK, ...) KERNEL int K(k_conv1d_el_##NAME)(const u8* din, const u8* dw, const u8* db, const size_t* idx, size_t* os, u8* o){ \
  u8 in[1][C][L]; u8 w[O][CW][KK]; u8 b[O]; \
  for (int i=0;i<C*L;i++) (&in[0][0][0])[i]=din[i]; for (int i=0;i<O*CW*KK;i++) (&w[0][0][0])[i]=dw[i]; for (int i=0;i<O;i++) b[i]=db[i]; \
  auto mv = __VA_ARGS__; const auto& v = nm::unwrap(mv); put(nm::shape(v), os); *o = (u8)v(idx[0],idx[1],idx[2]); return 1; }
CONV1D_EL(p1, 1, 2, 1, 1, 2, view::conv1d(in, w, nm::None, nm::None, 1))                       // padding 1: (1,1,2)*(1,1,2) -> (1,1,3)
CONV1D_EL(d2, 1, 3, 1, 1, 2, view::conv1d(in, w, nm::None, nm::None, nm::None, 2))             // dilation 2: (1,1,3)*(1,1,2) -> (1,1,1)
CONV1D_EL(bias, 1, 3, 1, 1, 2, view::conv1d(in, w, b))                                         // bias: (1,1,3)*(1,1,2)+b -> (1,1,2)
CONV1D_EL(g2, 2, 2, 2, 1, 2, view::conv1d(in, w, nm::None, nm::None, nm::None, nm::None, 2))   // groups 2: (1,2,2)*(2,1,2) -> (1,2,1)
// conv2d: input (1,1,2,2), weight (1,1,2,2) -> (1,1,1,1)
KERNEL int K(k_conv2d_el)(const u8* din, const u8* dw, const size_t* idx, size_t* os, u8* o){
  u8 in[1][1][2][2]; u8 w[1][1][2][2];
  for (int i=0;i<4;i++) (&in[0][0][0][0])[i]=din[i]; for (int i=0;i<4;i++) (&w[0][0][0][0])[i]=dw[i];
  auto mv = view::conv2d(in,w);
  const auto& v = nm::unwrap(mv);
  put(nm::shape(v), os);
  *o = (u8)v(idx[0],idx[1],idx[2],idx[3]);
  return 1;
}
// two input channels: input (1,2,2), weight (1,2,2) -> (1,1,1)
KERNEL int K(k_conv1d_el_c2)(const u8* din, const u8* dw, const size_t* idx, size_t* os, u8* o){
  u8 in[1][2][2]; u8 w[1][2][2];
  for (int i=0;i<4;i++) (&in[0][0][0])[i]=din[i]; for (int i=0;i<4;i++) (&w[0][0][0])[i]=dw[i];
  auto mv = view::conv1d(in,w);
  const auto& v = nm::unwrap(mv);
  put(nm::shape(v), os);
  *o = (u8)v(idx[0],idx[1],idx[2]);
  return 1;
}
#endif
