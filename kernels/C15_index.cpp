// C15 (index level): run-time-checked shape/axis functions. Kernels only marshal: flat arrays -> bounded vectors -> the unmodified
// nmtools function -> has_value + result copied out. Every out-parameter is written only on success.
#include "common.hpp"
#include "nmtools/array/index/broadcast_shape.hpp"
#include "nmtools/array/index/broadcast_to.hpp"
#include "nmtools/array/index/reshape.hpp"
#include "nmtools/array/index/normalize_axis.hpp"
#include "nmtools/array/index/transpose.hpp"
#include "nmtools/array/index/moveaxis.hpp"
#include "nmtools/array/index/pad.hpp"
#include "nmtools/array/index/roll.hpp"
#include "nmtools/array/index/resize.hpp"
#include "nmtools/array/index/atleast_nd.hpp"
#include "nmtools/array/index/concatenate.hpp"
#include "nmtools/array/view/matmul.hpp"
using sv4 = utl::static_vector<size_t,4>;

template <typename R> static inline int out_maybe(const R& r, size_t* out, size_t* nout){
  if (!nm::has_value(r)) return 0;
  *nout = put(nm::unwrap(r), out); return 1;
}

KERNEL int K(k_broadcast_shape)(const size_t* a, size_t na, const size_t* b, size_t nb, size_t* out, size_t* nout){
  return out_maybe(ix::broadcast_shape(mk_sv<size_t,4>(a,na), mk_sv<size_t,4>(b,nb)), out, nout);
}
// three operands: the first failure must propagate through the variadic overload
KERNEL int K(k_broadcast_shape3)(const size_t* a, size_t na, const size_t* b, size_t nb, const size_t* c, size_t nc, size_t* out, size_t* nout){
  return out_maybe(ix::broadcast_shape(mk_sv<size_t,4>(a,na), mk_sv<size_t,4>(b,nb), mk_sv<size_t,4>(c,nc)), out, nout);
}
KERNEL int K(k_shape_broadcast_to)(const size_t* a, size_t na, const size_t* b, size_t nb, size_t* out, size_t* nout, int* free_axes){
  auto r = ix::shape_broadcast_to(mk_sv<size_t,4>(a,na), mk_sv<size_t,4>(b,nb));
  if (!nm::has_value(r)) return 0;
  const auto& [shape, fa] = nm::unwrap(r);
  *nout = put(shape, out);
  for (size_t i=0;i<nm::len(fa);i++) free_axes[i] = nm::at(fa,i) ? 1 : 0;
  return 1;
}
KERNEL int K(k_shape_reshape)(const size_t* src, size_t ns, const int* dst, size_t nd, size_t* out, size_t* nout){
  return out_maybe(ix::shape_reshape(mk_sv<size_t,4>(src,ns), mk_sv<int,4>(dst,nd)), out, nout);
}
// a maybe source shape (Nothing when src_ok == 0) must stay Nothing
KERNEL int K(k_shape_reshape_maybe)(int src_ok, const size_t* src, size_t ns, const int* dst, size_t nd, size_t* out, size_t* nout){
  nmtools_maybe<sv4> ms; if (src_ok) ms = mk_sv<size_t,4>(src,ns);
  return out_maybe(ix::shape_reshape(ms, mk_sv<int,4>(dst,nd)), out, nout);
}
KERNEL int K(k_normalize_axis)(int axis, int ndim, size_t* out){
  auto r = ix::normalize_axis(axis, ndim);
  if (!nm::has_value(r)) return 0;
  *out = (size_t)nm::unwrap(r); return 1;
}
KERNEL int K(k_normalize_axis_u)(int axis, size_t ndim, size_t* out){
  auto r = ix::normalize_axis(axis, ndim);
  if (!nm::has_value(r)) return 0;
  *out = (size_t)nm::unwrap(r); return 1;
}
KERNEL int K(k_normalize_axes)(const int* axes, size_t n, int ndim, size_t* out, size_t* nout){
  return out_maybe(ix::normalize_axis(mk_sv<int,4>(axes,n), ndim), out, nout);
}
KERNEL int K(k_normalize_axes_arr3)(const int* axes, size_t ndim, size_t* out, size_t* nout){
  return out_maybe(ix::normalize_axis(mk_arr<int,3>(axes), ndim), out, nout);
}
KERNEL int K(k_moveaxis_to_transpose)(const size_t* shape, size_t n, int src, int dst, size_t* out, size_t* nout){
  return out_maybe(ix::moveaxis_to_transpose(mk_sv<size_t,4>(shape,n), src, dst), out, nout);
}
KERNEL int K(k_moveaxis_to_transpose_list)(const size_t* shape, size_t n, const int* src, size_t ns, const int* dst, size_t nd, size_t* out, size_t* nout){
  return out_maybe(ix::moveaxis_to_transpose(mk_sv<size_t,4>(shape,n), mk_sv<int,4>(src,ns), mk_sv<int,4>(dst,nd)), out, nout);
}
KERNEL int K(k_shape_pad)(const size_t* shape, size_t n, const size_t* pad, size_t npad, size_t* out, size_t* nout){
  return out_maybe(ix::shape_pad(mk_sv<size_t,4>(shape,n), mk_sv<size_t,8>(pad,npad)), out, nout);
}
KERNEL int K(k_shape_roll)(const size_t* shape, size_t n, int shift, int axis, size_t* out, size_t* nout){
  return out_maybe(ix::shape_roll(mk_sv<size_t,4>(shape,n), shift, axis), out, nout);
}
KERNEL int K(k_shape_roll_list)(const size_t* shape, size_t n, const int* shift, const int* axes, size_t na, size_t* out, size_t* nout){
  return out_maybe(ix::shape_roll(mk_sv<size_t,4>(shape,n), mk_sv<int,4>(shift,na), mk_sv<int,4>(axes,na)), out, nout);
}
KERNEL int K(k_shape_resize)(const size_t* src, size_t ns, const int* dst, size_t nd, size_t* out, size_t* nout){
  return out_maybe(ix::shape_resize(mk_sv<size_t,4>(src,ns), mk_sv<int,4>(dst,nd)), out, nout);
}
// shape_atleast_nd has no failure of its own: only propagation of a Nothing shape is observable
KERNEL int K(k_shape_atleast_nd_maybe)(int src_ok, const size_t* src, size_t ns, size_t nd, size_t* out, size_t* nout){
  nmtools_maybe<sv4> ms; if (src_ok) ms = mk_sv<size_t,4>(src,ns);
  return out_maybe(ix::shape_atleast_nd(ms, nd), out, nout);
}
// shape_concatenate reports through a (success, shape) pair
KERNEL int K(k_shape_concatenate)(const size_t* a, size_t na, const size_t* b, size_t nb, int axis, size_t* out, size_t* nout){
  const auto [ok, shape] = ix::shape_concatenate(mk_sv<size_t,4>(a,na), mk_sv<size_t,4>(b,nb), axis);
  if (!ok) return 0;
  *nout = put(shape, out); return 1;
}
KERNEL int K(k_shape_matmul)(const size_t* a, size_t na, const size_t* b, size_t nb, size_t* out, size_t* nout){
  return out_maybe(ix::shape_matmul(mk_sv<size_t,4>(a,na), mk_sv<size_t,4>(b,nb)), out, nout);
}
