#!/usr/bin/env python3
"""Regenerates /verif/MANIFEST.json from props/*.py (CLAIM dict in each spec) - keeps the manifest valid at all times."""
import json, os, glob, importlib.util, subprocess
ROOT = os.path.dirname(os.path.dirname(os.path.abspath(__file__)))
ids = [json.loads(l)['id'] for l in open(os.path.join(ROOT, 'properties.jsonl'))]
checks = []; na = []
ready = set(open(os.path.join(ROOT, 'props', 'READY')).read().split()) if os.path.exists(os.path.join(ROOT, 'props', 'READY')) else set()
for pid in ids:
    p = os.path.join(ROOT, 'props', pid + '.py')
    claim = None
    if os.path.exists(p):
        sp = importlib.util.spec_from_file_location('p' + pid, p); m = importlib.util.module_from_spec(sp); sp.loader.exec_module(m)
        claim = getattr(m, 'CLAIM', None)
        nareason = getattr(m, 'NOT_APPLICABLE', None)
    else:
        nareason = 'no check built yet for this property in this session (work in progress; see DESIGN.md section 6 for the plan)'
    if claim and pid not in ready:
        claim = None; nareason = 'check under construction in this session: harnesses exist but have not yet been validated end-to-end on the unchanged tree'
    if claim:
        checks.append(dict(property_id=pid, quick_cmd='./check %s --tier quick' % pid, thorough_cmd='./check %s --tier thorough' % pid,
                           evidence_file='/verif/evidence/%s.json' % pid, replay_cmd_template='./check %s --replay {path}' % pid, engine='cbmc-ir',
                           level_claimed=dict(category='model_checking', text=claim['text'], design_ref=claim.get('design_ref', 'DESIGN.md section 6 ' + pid)),
                           level_note=claim['note'], technique=claim.get('technique', 'bounded symbolic execution of the clang-14 IR of the real nmtools code (own IR->C translator) decided by CBMC 6.11 SAT/SMT back ends; counterexamples replayed natively')))
    else:
        na.append(dict(property_id=pid, reason=nareason or 'not claimed'))
hooks_commits = []
try:
    out = subprocess.run(['git', '-C', '/repo', 'log', '--format=%H %s'], capture_output=True, text=True).stdout
    hooks_commits = [l.split()[0] for l in out.split('\n') if 'NMTOOLS_VERIF' in l]
except Exception: pass
man = dict(version=1,
  setup_cmd='sh -c "command -v cbmc clang++-14 g++ gcc cvc5 python3 c++filt >/dev/null && echo tools-present"',
  hooks=dict(guard='NMTOOLS_VERIF', enable='kernels are compiled with -DNMTOOLS_VERIF by engine/run.py (clang++-14 for the IR, g++ for gate/replay builds)',
             baseline_off_cmd='python3 /verif/tools/suite_cases.py --build', source_commits=hooks_commits, add_only=True),
  engines=[dict(name='cbmc-ir', path='/verif/engine', serves_properties=[c['property_id'] for c in checks],
                kind_free_text='clang-14 LLVM IR of the real nmtools templates -> own IR->C translator (engine/ll2c.py) -> CBMC 6.11 (minisat/cadical/kissat/cvc5-int back ends); differential gate and native replay against the g++ build')],
  checks=checks, not_applicable=na,
  notes='All checks: ./check <id> --tier quick|thorough. Exit 0 held / 1 VIOLATION (replayed natively) / 2 inconclusive (fail closed). known_findings.json lists open and fixed findings.')
json.dump(man, open(os.path.join(ROOT, 'MANIFEST.json'), 'w'), indent=1)
print('checks:', [c['property_id'] for c in checks], 'not_applicable:', [x['property_id'] for x in na])
