#!/usr/bin/env python3
"""Prototype LLVM-14 textual IR -> C translator (subset) for CBMC.
usage: ll2c.py in.ll out.c
"""
import re, sys, struct, hashlib

# ---------------------------------------------------------------- tokenizer
TOK = re.compile(r'''
   (?P<ws>\s+)
 | (?P<str>c"(?:[^"\\]|\\[0-9A-Fa-f]{2}|\\\\)*")
 | (?P<qid>[%@]"(?:[^"\\]|\\.)*")
 | (?P<id>[%@][-a-zA-Z$._0-9]+)
 | (?P<meta>![-a-zA-Z$._0-9]*(?:\([^)]*\))?)
 | (?P<attr>\#[0-9]+)
 | (?P<hex>0x[KMLHR]?[0-9A-Fa-f]+)
 | (?P<num>-?[0-9]+\.[0-9]*(?:[eE][-+]?[0-9]+)?)
 | (?P<int>-?[0-9]+)
 | (?P<word>[a-zA-Z_][a-zA-Z_0-9.]*)
 | (?P<dots>\.\.\.)
 | (?P<p>[\[\]{}()<>*,=:])
''', re.X)

def tokenize(s):
    out = []; i = 0
    while i < len(s):
        m = TOK.match(s, i)
        if not m: raise SyntaxError("tok: %r" % s[i:i+40])
        i = m.end()
        k = m.lastgroup
        if k == 'ws': continue
        out.append((k, m.group()))
    return out

# ---------------------------------------------------------------- types
class T:
    pass
class IntT(T):
    def __init__(s, w): s.w = w
    def __repr__(s): return "i%d" % s.w
class FloatT(T):
    def __init__(s, k): s.k = k  # 'float' | 'double'
    def __repr__(s): return s.k
class VoidT(T):
    def __repr__(s): return "void"
class PtrT(T):
    def __init__(s, to): s.to = to
    def __repr__(s): return "%r*" % (s.to,)
class ArrT(T):
    def __init__(s, n, el): s.n = n; s.el = el
    def __repr__(s): return "[%d x %r]" % (s.n, s.el)
class VecT(T):
    def __init__(s, n, el): s.n = n; s.el = el
    def __repr__(s): return "<%d x %r>" % (s.n, s.el)
class StructT(T):
    def __init__(s, name=None, fields=None, packed=False): s.name = name; s.fields = fields; s.packed = packed
    def __repr__(s): return "%%%s" % s.name if s.name else "{%s}" % ",".join(map(repr, s.fields))
class FuncT(T):
    def __init__(s, ret, args, va): s.ret = ret; s.args = args; s.va = va
    def __repr__(s): return "%r(%s)" % (s.ret, ",".join(map(repr, s.args)))
class OpaqueT(T):
    def __repr__(s): return "opaque"

class Ctx:
    def __init__(s):
        s.named = {}     # name -> StructT
        s.lit = {}       # signature -> cname
        s.order = []     # emission order of struct cnames
        s.cnames = {}
        s.globals = {}   # name -> (type, init, const)
        s.funcs = {}     # name -> Func
        s.decls = {}     # name -> FuncT
        s.vecs = {}

def san(name):
    n = name[1:]
    if n.startswith('"'): n = n[1:-1]
    c = re.sub(r'[^A-Za-z0-9_]', '_', n)
    if c != n or len(c) > 60:
        c = c[:40] + "_" + hashlib.md5(n.encode()).hexdigest()[:8]
    return c

class P:
    """token stream parser"""
    def __init__(s, toks, ctx): s.t = toks; s.i = 0; s.ctx = ctx
    def peek(s, o=0): return s.t[s.i+o] if s.i+o < len(s.t) else ('eof', '')
    def next(s): x = s.peek(); s.i += 1; return x
    def accept(s, v):
        if s.peek()[1] == v: s.i += 1; return True
        return False
    def expect(s, v):
        if not s.accept(v): raise SyntaxError("expected %r got %r in %r" % (v, s.peek(), " ".join(x[1] for x in s.t[max(0,s.i-8):s.i+8])))
    def skip_words(s, words):
        while s.peek()[0] == 'word' and s.peek()[1] in words:
            s.i += 1
            if s.peek()[1] == '(' and s.t[s.i-1][1] in ('dereferenceable','dereferenceable_or_null','align','byval','sret','preallocated','inalloca','byref','elementtype'):
                d = 0
                while True:
                    x = s.next()[1]
                    if x == '(': d += 1
                    if x == ')':
                        d -= 1
                        if d == 0: break
            elif s.t[s.i-1][1] == 'align' and s.peek()[0] == 'int':
                s.i += 1
    def type(s):
        k, v = s.next()
        if k == 'word':
            if re.fullmatch(r'i[0-9]+', v): t = IntT(int(v[1:]))
            elif v in ('float', 'double'): t = FloatT(v)
            elif v == 'void': t = VoidT()
            elif v == 'ptr': t = PtrT(IntT(8))
            elif v == 'opaque': t = OpaqueT()
            elif v in ('x86_fp80',): t = FloatT('long double')
            elif v in ('metadata', 'label', 'token'): t = VoidT()
            else: raise SyntaxError("type? %r" % v)
        elif k in ('id', 'qid') and v[0] == '%':
            nm = v
            if nm not in s.ctx.named: s.ctx.named[nm] = StructT(name=nm)
            t = s.ctx.named[nm]
        elif v == '[':
            n = int(s.next()[1]); s.expect('x'); el = s.type(); s.expect(']'); t = ArrT(n, el)
        elif v == '<':
            if s.peek()[1] == '{':
                s.next(); t = s.struct_body(True); s.expect('>')
            else:
                n = int(s.next()[1]); s.expect('x'); el = s.type(); s.expect('>'); t = VecT(n, el)
        elif v == '{':
            t = s.struct_body(False)
        else:
            raise SyntaxError("type?? %r" % (v,))
        while True:
            if s.accept('*'): t = PtrT(t)
            elif s.peek()[1] == '(' :
                # function type
                s.next(); args = []; va = False
                while not s.accept(')'):
                    if s.accept('...'): va = True
                    else: args.append(s.type())
                    s.accept(',')
                t = FuncT(t, args, va)
            else: break
        return t
    def struct_body(s, packed):
        fields = []
        while not s.accept('}'):
            fields.append(s.type()); s.accept(',')
        return StructT(fields=fields, packed=packed)

PARAM_ATTRS = set('''noundef nonnull readonly writeonly nocapture noalias signext zeroext inreg returned nest
 dereferenceable dereferenceable_or_null align immarg readnone byval sret swiftself nofree inalloca
 preallocated byref elementtype swifterror swiftasync'''.split())
FN_ATTRS = set('''dso_local local_unnamed_addr unnamed_addr noundef nonnull signext zeroext internal private linkonce_odr
 weak_odr weak external hidden protected default fastcc ccc coldcc tail musttail notail available_externally
 noalias dereferenceable dereferenceable_or_null align'''.split())

# ---------------------------------------------------------------- values
class V:  # operand
    def __init__(s, kind, val, ty=None): s.kind = kind; s.val = val; s.ty = ty

def parse_value(p, ty):
    k, v = p.peek()
    if k in ('id', 'qid'):
        p.next(); return V('local' if v[0] == '%' else 'global', v, ty)
    if k == 'int': p.next(); return V('int', int(v), ty)
    if k == 'num': p.next(); return V('fp', float(v), ty)
    if k == 'hex':
        p.next()
        h = v[2:]
        if h[0] in 'KMLHR': raise SyntaxError("fp80 etc")
        d = struct.unpack('>d', bytes.fromhex(h.rjust(16, '0')))[0]
        return V('fp', d, ty)
    if k == 'str': p.next(); return V('cstr', v, ty)
    if k == 'meta': p.next(); return V('int', 0, IntT(32))
    if k == 'word':
        if v in ('true', 'false'): p.next(); return V('int', 1 if v == 'true' else 0, ty)
        if v == 'null': p.next(); return V('null', 0, ty)
        if v in ('undef', 'poison'): p.next(); return V('undef', 0, ty)
        if v == 'zeroinitializer': p.next(); return V('zero', 0, ty)
        if v == 'getelementptr':
            p.next(); p.accept('inbounds'); p.expect('(')
            bt = p.type(); p.expect(',')
            ops = []
            while not p.accept(')'):
                p.accept('inrange')
                t = p.type(); ops.append(parse_value(p, t)); p.accept(',')
            return V('cgep', (bt, ops), ty)
        if v in ('bitcast', 'inttoptr', 'ptrtoint', 'trunc', 'zext', 'sext', 'addrspacecast'):
            p.next(); p.expect('('); t = p.type(); x = parse_value(p, t); p.expect('to'); t2 = p.type(); p.expect(')')
            return V('ccast', (v, x, t2), ty)
        if v in ('add', 'sub', 'mul', 'and', 'or', 'xor', 'shl', 'lshr', 'ashr'):
            p.next();
            while p.peek()[1] in ('nuw','nsw','exact'): p.next()
            p.expect('('); t = p.type(); a = parse_value(p, t); p.expect(','); t2 = p.type(); b = parse_value(p, t2); p.expect(')')
            return V('cbin', (v, a, b), ty)
    if v == '[':
        p.next(); els = []
        while not p.accept(']'):
            t = p.type(); els.append(parse_value(p, t)); p.accept(',')
        return V('agg', els, ty)
    if v == '{':
        p.next(); els = []
        while not p.accept('}'):
            t = p.type(); els.append(parse_value(p, t)); p.accept(',')
        return V('agg', els, ty)
    if v == '<':
        p.next()
        if p.peek()[1] == '{':
            p.next(); els = []
            while not p.accept('}'):
                t = p.type(); els.append(parse_value(p, t)); p.accept(',')
            p.expect('>'); return V('agg', els, ty)
        els = []
        while not p.accept('>'):
            t = p.type(); els.append(parse_value(p, t)); p.accept(',')
        return V('agg', els, ty)
    raise SyntaxError("value? %r %r" % (k, v))

# ---------------------------------------------------------------- C type names
def ctype(ctx, t):
    if isinstance(t, IntT):
        if t.w == 1: return "uint8_t"
        for w in (8, 16, 32, 64):
            if t.w <= w: return "uint%d_t" % w
        if t.w <= 128: return "unsigned __int128"
        raise NotImplementedError("int width %d" % t.w)
    if isinstance(t, FloatT): return t.k
    if isinstance(t, VoidT): return "void"
    if isinstance(t, PtrT):
        if isinstance(t.to, FuncT):
            return None  # handled by declare()
        if isinstance(t.to, (VoidT, OpaqueT)): return "uint8_t*"
        if isinstance(t.to, ArrT):
            return structname(ctx, t.to) + "*"
        return ctype(ctx, t.to) + "*"
    if isinstance(t, (StructT, ArrT, VecT)): return structname(ctx, t)
    if isinstance(t, OpaqueT): return "uint8_t"
    raise NotImplementedError(repr(t))

def declare(ctx, t, name):
    """C declaration of variable `name` of type t"""
    if isinstance(t, PtrT) and isinstance(t.to, FuncT):
        f = t.to
        args = ", ".join(declare(ctx, a, "") for a in f.args) or "void"
        return "%s (*%s)(%s)" % (ctype(ctx, f.ret), name, args)
    return "%s %s" % (ctype(ctx, t), name)

def structname(ctx, t):
    """arrays and vectors are wrapped in structs so they are first class C values"""
    if isinstance(t, StructT) and t.name:
        cn = "S_" + san(t.name)
        key = ('n', t.name)
    elif isinstance(t, StructT):
        key = ('l', repr(t), t.packed); cn = None
    elif isinstance(t, ArrT):
        key = ('a', repr(t)); cn = None
    else:
        key = ('v', repr(t)); cn = None
    if key in ctx.cnames: return "struct " + ctx.cnames[key]
    if cn is None: cn = "%s%d" % ({'l': 'LS', 'a': 'AR', 'v': 'VE'}[key[0]], len(ctx.cnames))
    ctx.cnames[key] = cn
    # make sure member types are emitted first
    body = None
    if isinstance(t, StructT):
        if t.fields is None:
            body = "uint8_t opaque;"
        else:
            body = " ".join("%s;" % declare(ctx, f, "f%d" % i) for i, f in enumerate(t.fields)) or "uint8_t empty__;"
    else:
        body = "%s;" % declare(ctx, t.el, "a[%d]" % max(t.n, 1))
    packed = " __attribute__((packed))" if isinstance(t, StructT) and t.packed else ""
    ctx.order.append("struct %s { %s }%s;" % (cn, body, packed))
    return "struct " + cn

def sizeof(t):
    if isinstance(t, IntT): return max(1, (t.w + 7) // 8) if t.w not in (1,) else 1
    if isinstance(t, FloatT): return 4 if t.k == 'float' else 8
    if isinstance(t, PtrT): return 8
    raise NotImplementedError

def ll_layout(t):
    """(size, alignment) of an IR type under the x86-64 data layout; None when unknown (opaque, odd integer widths)"""
    if isinstance(t, IntT):
        if t.w in (1, 8): return (1, 1)
        if t.w in (16, 32, 64): return (t.w // 8, t.w // 8)
        if t.w == 128: return (16, 16)
        return None
    if isinstance(t, FloatT): return {'float': (4, 4), 'double': (8, 8)}.get(t.k, (16, 16))
    if isinstance(t, PtrT): return (8, 8)
    if isinstance(t, ArrT):
        e = ll_layout(t.el)
        return None if e is None else (e[0] * t.n, e[1])
    if isinstance(t, VecT):
        e = ll_layout(t.el)
        if e is None or (isinstance(t.el, IntT) and t.el.w == 1): return None
        n = e[0] * t.n; p2 = 1
        while p2 < n: p2 *= 2
        return (p2, p2)
    if isinstance(t, StructT):
        if t.fields is None: return None
        off = 0; al = 1
        for f in t.fields:
            e = ll_layout(f)
            if e is None: return None
            a = 1 if t.packed else e[1]
            off = (off + a - 1) // a * a + e[0]; al = max(al, a)
        return ((off + al - 1) // al * al, al)
    return None

def ll_members(t):
    """[(offset, C member path, type)] of the direct members of an aggregate; None for scalars / unknown layout / long arrays"""
    if isinstance(t, StructT) and t.fields:
        off = 0; out = []
        for i, f in enumerate(t.fields):
            e = ll_layout(f)
            if e is None: return None
            a = 1 if t.packed else e[1]
            off = (off + a - 1) // a * a
            out.append((off, ".f%d" % i, f)); off += e[0]
        return out
    if isinstance(t, ArrT) and 0 < t.n <= 64:
        e = ll_layout(t.el)
        return None if e is None else [(i * e[0], ".a[%d]" % i, t.el) for i in range(t.n)]
    return None

def ll_cover(dt, dp, st, sp, n, depth=0):
    """member-wise assignments [(dst path, src path)] that copy exactly the first n bytes of an object of IR type st onto an object of
    IR type dt (identical member types at identical offsets; padding is not copied), or None when the two layouts do not line up"""
    if depth > 48 or n <= 0: return None
    ld, ls = ll_layout(dt), ll_layout(st)
    if ld is None or ls is None or n > ld[0] or n > ls[0]: return None
    if type(dt) is type(st) and repr(dt) == repr(st) and ld[0] == n and not isinstance(dt, VecT): return [(dp, sp)]
    fd, fs = ll_members(dt), ll_members(st)
    if fd and fs:
        out = []; i = 0; ok = True; end = 0
        while True:
            if end >= n: break                                # everything copied
            if i >= len(fd) or i >= len(fs):
                ok = i >= len(fd) and i >= len(fs); break    # both exhausted: the rest of n is tail padding
            (od, pd, td), (os_, ps, ts) = fd[i], fs[i]
            if od != os_: ok = False; break
            if od >= n: break                                 # the rest of n was padding
            zd, zs = ll_layout(td)[0], ll_layout(ts)[0]
            if zd == zs and od + zd <= n: r = ll_cover(td, dp + pd, ts, sp + ps, zd, depth + 1)
            elif n - od < zd and n - od < zs: r = ll_cover(td, dp + pd, ts, sp + ps, n - od, depth + 1)
            else: r = None
            if r is None: ok = False; break
            out += r; i += 1; end = min(n, od + zd)
        if ok and out: return out
    if fd and fd[0][0] == 0:
        r = ll_cover(fd[0][2], dp + fd[0][1], st, sp, n, depth + 1)
        if r: return r
    if fs and fs[0][0] == 0:
        r = ll_cover(dt, dp, fs[0][2], sp + fs[0][1], n, depth + 1)
        if r: return r
    return None

# ---------------------------------------------------------------- module parse
class Func:
    def __init__(s): s.name = None; s.ret = None; s.params = []; s.blocks = []; s.va = False

def join_lines(text):
    """join multi-line switch statements"""
    out = []; buf = None
    for ln in text.split('\n'):
        s = ln.strip()
        if buf is not None:
            buf += " " + s
            if s == ']' or s.startswith('], !') or s.endswith(']') and not s.startswith('i'):   # '], !dbg !N' closes a switch when debug locations are present
                out.append(buf); buf = None
            continue
        if s.startswith('switch ') and s.endswith('['):
            buf = ln; continue
        if s.startswith('to label ') and out:
            out[-1] = out[-1] + " " + s; continue
        out.append(ln)
    return out

def parse_module(text):
    ctx = Ctx()
    lines = join_lines(text)
    i = 0
    # pass 1: named types
    for ln in lines:
        m = re.match(r'^(%(?:"[^"]*"|[-\w$.]+)) = type (.*)$', ln)
        if m:
            p = P(tokenize(m.group(2)), ctx)
            nm = m.group(1)
            st = ctx.named.setdefault(nm, StructT(name=nm))
            t = p.type()
            if isinstance(t, StructT): st.fields = t.fields; st.packed = t.packed
            elif isinstance(t, OpaqueT): st.fields = None
    while i < len(lines):
        ln = lines[i]
        if ln.startswith('@'):
            parse_global(ctx, ln)
        elif ln.startswith('declare '):
            p = P(tokenize(ln[8:]), ctx)
            p.skip_words(FN_ATTRS)
            ret = p.type(); name = p.next()[1]; p.expect('(')
            args = []; va = False
            while not p.accept(')'):
                if p.accept('...'): va = True
                else:
                    args.append(p.type()); p.skip_words(PARAM_ATTRS)
                p.accept(',')
            ctx.decls[name] = FuncT(ret, args, va)
        elif ln.startswith('define '):
            f = Func()
            hdr = ln[7:]
            p = P(tokenize(hdr[:hdr.rindex('{')] if hdr.rstrip().endswith('{') else hdr), ctx)
            p.skip_words(FN_ATTRS)
            f.ret = p.type(); f.name = p.next()[1]; p.expect('(')
            while not p.accept(')'):
                if p.accept('...'): f.va = True
                else:
                    t = p.type(); p.skip_words(PARAM_ATTRS)
                    nm = p.next()[1]
                    f.params.append((t, nm))
                p.accept(',')
            i += 1
            cur = ('%%%d' % len(f.params), [])
            # entry block label: implicit number = len(params) unless named
            first = True
            while not lines[i].startswith('}'):
                s = lines[i].split(' ; ')[0] if not '"' in lines[i] else lines[i]
                s = s.strip()
                m = re.match(r'^("[^"]*"|[-\w$.]+):', s)
                if m and not s.startswith(('%', 'store', 'br ', 'ret', 'call', 'tail', 'switch', 'invoke')):
                    if not first or cur[1]: f.blocks.append(cur)
                    cur = ('%' + m.group(1), [])
                elif s and not s.startswith(';'):
                    cur[1].append(s)
                first = False
                i += 1
            f.blocks.append(cur)
            ctx.funcs[f.name] = f
        i += 1
    return ctx

def parse_global(ctx, ln):
    m = re.match(r'^(@(?:"[^"]*"|[-\w$.]+)) = (.*)$', ln)
    name, rest = m.group(1), m.group(2)
    p = P(tokenize(rest.split(', align')[0].split(', comdat')[0].split(', section')[0]), ctx)
    words = set('private internal external linkonce_odr weak_odr weak common available_externally dso_local unnamed_addr local_unnamed_addr hidden thread_local appending'.split())
    p.skip_words(words)
    if p.peek()[1] == 'alias': return
    const = False
    if p.accept('constant'): const = True
    else: p.accept('global')
    t = p.type()
    init = None
    if p.peek()[0] != 'eof':
        init = parse_value(p, t)
    ctx.globals[name] = (t, init, const)

# ---------------------------------------------------------------- emission
def mask(w, e):
    if w in (8, 16, 32, 64, 128): return "((%s)(%s))" % (ctype(None, IntT(w)), e)
    if w == 1: return "((uint8_t)((%s) & 1))" % e
    return "((%s)((%s) & ((((%s)1) << %d) - 1)))" % (ctype(None, IntT(w)), e, ctype(None, IntT(w)), w)

def sgn(w, e):
    """signed view of w-bit unsigned expr"""
    if w in (8, 16, 32, 64): return "((int%d_t)(%s))" % (w, e)
    if w == 128: return "((__int128)(%s))" % e
    cw = 8 if w <= 8 else 16 if w <= 16 else 32 if w <= 32 else 64
    return "((int%d_t)((int%d_t)((%s) << %d) >> %d))" % (cw, cw, e, cw - w, cw - w)

class Emit:
    def __init__(s, ctx): s.ctx = ctx; s.out = []; s.used_ext = set()

    def cname(s, n):
        return ("g_" if n[0] == '@' else "v_") + san(n)
    def fname(s, n):
        c = san(n)
        return c

    def val(s, v):
        t = v.ty; ctx = s.ctx
        if v.kind == 'local': return s.cname(v.val)
        if v.kind == 'raw': return v.val     # already a C expression (lane of a vector)
        if v.kind == 'global':
            if v.val in ctx.funcs or v.val in ctx.decls: return s.fname(v.val)
            gt = ctx.globals[v.val][0]
            return "(&%s)" % s.cname(v.val)
        if v.kind == 'int':
            if isinstance(t, IntT):
                x = v.val & ((1 << t.w) - 1)
                if t.w > 64: return "((unsigned __int128)%dULL)" % x  # only small
                return "((%s)%dULL)" % (ctype(ctx, t), x)
            if isinstance(t, FloatT): return "((%s)%d)" % (t.k, v.val)
            raise NotImplementedError
        if v.kind == 'fp':
            x = v.val
            if x != x: return "((%s)NAN)" % t.k
            if x in (float('inf'), float('-inf')): return "((%s)%sINFINITY)" % (t.k, '-' if x < 0 else '')
            return "((%s)%s)" % (t.k, x.hex())
        if v.kind == 'null': return "((%s)0)" % ctype(ctx, t) if not (isinstance(t, PtrT) and isinstance(t.to, FuncT)) else "0"
        if v.kind in ('undef', 'zero'):
            if isinstance(t, (IntT, FloatT)): return "((%s)0)" % ctype(ctx, t)
            if isinstance(t, PtrT): return "((%s)0)" % ctype(ctx, t)
            return "((%s){0})" % ctype(ctx, t)
        if v.kind == 'agg':
            return "((%s)%s)" % (ctype(ctx, t), s.init(v))
        if v.kind == 'cstr':
            return "((%s)%s)" % (ctype(ctx, t), s.init(v))
        if v.kind == 'cgep':
            bt, ops = v.val
            return s.gep(bt, ops)[0]
        if v.kind == 'ccast':
            op, x, t2 = v.val
            return s.cast(op, x, t2)
        if v.kind == 'cbin':
            op, a, b = v.val
            return s.binop(op, a.ty, s.val(a), s.val(b))
        raise NotImplementedError(v.kind)

    def init(s, v):
        """brace initializer"""
        t = v.ty
        if v.kind == 'agg':
            if isinstance(t, StructT):
                return "{" + ", ".join(s.init(e) for e in v.val) + "}" if v.val else "{0}"
            return "{{" + ", ".join(s.init(e) for e in v.val) + "}}"
        if v.kind == 'cstr':
            raw = v.val[2:-1]
            bs = []
            i = 0
            while i < len(raw):
                if raw[i] == '\\':
                    if raw[i+1] == '\\': bs.append(92); i += 2
                    else: bs.append(int(raw[i+1:i+3], 16)); i += 3
                else: bs.append(ord(raw[i])); i += 1
            return "{{" + ",".join(map(str, bs)) + "}}"
        if v.kind in ('zero', 'undef') and isinstance(t, (StructT, ArrT, VecT)): return "{0}"
        return s.val(v)

    def gep(s, bt, ops):
        """returns (expr, result type)"""
        base = ops[0]
        e = s.val(base)
        cur = bt
        idx0 = ops[1]
        # pointer to array is represented as pointer to wrapper struct
        e = "(%s + %s)" % (e, s.sidx(idx0)) if not (idx0.kind == 'int' and idx0.val == 0) else e
        path = ""
        for ix in ops[2:]:
            if isinstance(cur, StructT):
                path += ".f%d" % ix.val; cur = cur.fields[ix.val]
            elif isinstance(cur, (ArrT, VecT)):
                path += ".a[%s]" % s.sidx(ix); cur = cur.el
            else: raise NotImplementedError("gep into %r" % cur)
        if path: e = "(&(*%s)%s)" % (e, path)
        return e, PtrT(cur)

    def sidx(s, v):
        if v.kind == 'int':
            w = v.ty.w; x = v.val
            return str(x)
        return sgn(v.ty.w, s.val(v)) if v.ty.w in (8,16,32,64) else s.val(v)

    def cast(s, op, x, t2):
        ctx = s.ctx; e = s.val(x); t1 = x.ty
        if op in ('bitcast', 'addrspacecast'):
            if isinstance(t1, PtrT) and isinstance(t2, PtrT):
                if isinstance(t2.to, FuncT): return "((void*)%s)" % e
                return "((%s)%s)" % (ctype(ctx, t2), e)
            # value bitcast (int<->float, vectors): via union memcpy helper
            return "BITCAST(%s, %s, %s)" % (ctype(ctx, t2), ctype(ctx, t1), e)
        if op == 'inttoptr': return "((%s)(uintptr_t)%s)" % (ctype(ctx, t2), e)
        if op == 'ptrtoint': return mask(t2.w, "(uintptr_t)%s" % e)
        if op == 'trunc': return mask(t2.w, e)
        if op == 'zext': return "((%s)%s)" % (ctype(ctx, t2), e)
        if op == 'sext':
            if t1.w == 1: return mask(t2.w, "(-(%s)(%s))" % (ctype(ctx, t2), e))
            return mask(t2.w, "(%s)%s" % (ctype(ctx, t2).replace('uint', 'int').replace('unsigned __int128','__int128'), sgn(t1.w, e)))
        if op in ('sitofp',): return "((%s)%s)" % (t2.k, sgn(t1.w, e))
        if op in ('uitofp',): return "((%s)%s)" % (t2.k, e)
        if op == 'fptosi': return mask(t2.w, "(int%d_t)%s" % (max(8, t2.w) if t2.w in (8,16,32,64) else 64, e))
        if op == 'fptoui': return mask(t2.w, "(uint%d_t)%s" % (t2.w if t2.w in (8,16,32,64) else 64, e))
        if op in ('fpext', 'fptrunc'): return "((%s)%s)" % (t2.k, e)
        raise NotImplementedError(op)

    def binop(s, op, t, a, b, flags=()):
        if isinstance(t, FloatT):
            c = {'fadd': '+', 'fsub': '-', 'fmul': '*', 'fdiv': '/'}.get(op)
            if c and t.k in ('float', 'double'): return "LL_%s_%s(%s, %s)" % (op.upper(), 'F32' if t.k == 'float' else 'F64', a, b)
            if c: return "(%s %s %s)" % (a, c, b)
            if op == 'frem': return "%s(%s, %s)" % ('fmodf' if t.k == 'float' else 'fmod', a, b)
        w = t.w
        if op in ('add', 'sub', 'mul'):
            c = {'add': '+', 'sub': '-', 'mul': '*'}[op]
            ct = ctype(s.ctx, t)
            if w < 32: return mask(w, "(uint32_t)%s %s (uint32_t)%s" % (a, c, b))
            return mask(w, "%s %s %s" % (a, c, b))
        if op in ('and', 'or', 'xor'):
            c = {'and': '&', 'or': '|', 'xor': '^'}[op]
            return mask(w, "%s %s %s" % (a, c, b))
        if op == 'udiv': return mask(w, "%s / %s" % (a, b))
        if op == 'urem': return mask(w, "%s %% %s" % (a, b))
        if op == 'sdiv': return mask(w, "%s / %s" % (sgn(w, a), sgn(w, b)))
        if op == 'srem': return mask(w, "%s %% %s" % (sgn(w, a), sgn(w, b)))
        if op == 'shl': return mask(w, "(%s)%s << %s" % (ctype(s.ctx, IntT(max(w, 32))), a, b))
        if op == 'lshr': return mask(w, "%s >> %s" % (a, b))
        if op == 'ashr': return mask(w, "%s >> %s" % (sgn(w, a), b))
        raise NotImplementedError(op)

    # ---- function body
    def func(s, f):
        ctx = s.ctx
        o = []
        s.bc = {}   # i8* local -> (element type, expression of the typed source pointer)
        s.bcs = {}  # i8* local -> (aggregate pointee type, expression of the typed source pointer)
        locs = {}   # name -> type
        for t, n in f.params: locs[n] = t
        insts = []
        for lbl, body in f.blocks:
            for ln in body:
                insts.append((lbl, ln))
        # first pass: result types, via parsing each instruction
        parsed = {}
        for lbl, body in f.blocks:
            pl = []
            for ln in body:
                ins = s.parse_inst(ln, locs)
                pl.append(ins)
            parsed[lbl] = pl
        # fix up forward-referenced local operand types: operands carry types syntactically, fine.
        sig = "%s%s %s(%s)" % ("" if f.name.startswith('@k_') else "static ", ctype(ctx, f.ret), s.fname(f.name), ", ".join(declare(ctx, t, s.cname(n)) for t, n in f.params) or "void")
        o.append(sig + " {")
        pset = set(n for _, n in f.params)
        for n, t in locs.items():
            if n in pset or isinstance(t, VoidT): continue
            o.append("  %s;" % declare(ctx, t, s.cname(n)))
        # phi temporaries
        phis = {}  # block -> list of (dest, type, [(val, pred)])
        for lbl, pl in parsed.items():
            for ins in pl:
                if ins[0] == 'phi': phis.setdefault(lbl, []).append(ins)
        for lbl, pl in phis.items():
            for ins in pl:
                o.append("  %s;" % declare(ctx, ins[2], "t_" + s.cname(ins[1])))
        def jump(frm, to):
            r = []
            for ins in phis.get(to, []):
                for v, pred in ins[3]:
                    if pred == frm:
                        r.append("t_%s = %s;" % (s.cname(ins[1]), s.val(v)))
            for ins in phis.get(to, []):
                if any(pred == frm for _, pred in ins[3]):
                    r.append("%s = t_%s;" % (s.cname(ins[1]), s.cname(ins[1])))
            r.append("goto L_%s;" % san(to))
            return " ".join(r)
        for bi, (lbl, pl) in enumerate(zip([b[0] for b in f.blocks], [parsed[b[0]] for b in f.blocks])):
            o.append(" L_%s: ;" % san(lbl))
            for ins in pl:
                k = ins[0]
                if k == 'phi': continue
                elif k == 'stmt': o.append("  " + ins[1])
                elif k == 'br': o.append("  " + jump(lbl, ins[1]))
                elif k == 'condbr':
                    o.append("  if (%s) { %s } else { %s }" % (ins[1], jump(lbl, ins[2]), jump(lbl, ins[3])))
                elif k == 'switch':
                    o.append("  switch (%s) {" % ins[1])
                    for cv, dest in ins[3]:
                        o.append("    case %s: { %s }" % (cv, jump(lbl, dest)))
                    o.append("    default: { %s } }" % jump(lbl, ins[2]))
                elif k == 'multi':
                    o.append("  " + ins[1][1]); o.append("  " + jump(lbl, ins[2]))
                else: raise NotImplementedError(k)
        o.append("}")
        return sig, "\n".join(o)

    def parse_inst(s, ln, locs):
        ctx = s.ctx
        toks = tokenize(ln)
        # strip trailing metadata / attribute groups
        cut = len(toks)
        for j, (k, v) in enumerate(toks):
            if k == 'meta' and j > 0 and toks[j-1][1] == ',':
                cut = j - 1; break
        toks = [t for t in toks[:cut] if t[0] != 'attr']
        p = P(toks, ctx)
        dest = None
        if p.peek(1)[1] == '=' and p.peek()[0] in ('id', 'qid'):
            dest = p.next()[1]; p.next()
        op = p.next()[1]
        def setd(t, e):
            locs[dest] = t
            return ('stmt', "%s = %s;" % (s.cname(dest), e))
        def tv():
            t = p.type(); return parse_value(p, t)
        if op in ('add', 'sub', 'mul', 'udiv', 'sdiv', 'urem', 'srem', 'shl', 'lshr', 'ashr', 'and', 'or', 'xor', 'fadd', 'fsub', 'fmul', 'fdiv', 'frem'):
            flags = []
            while p.peek()[0] == 'word' and p.peek()[1] in ('nuw', 'nsw', 'exact', 'fast', 'nnan', 'ninf', 'nsz', 'arcp', 'contract', 'afn', 'reassoc'): flags.append(p.next()[1])
            t = p.type(); a = parse_value(p, t); p.expect(','); b = parse_value(p, t)
            if isinstance(t, VecT): return setd(t, s.vecop(op, t, a, b))
            pre = ""
            if 'nsw' in flags and op in ('add', 'sub', 'mul'):
                pre = "CHK_NSW_%s(%d, %s, %s); " % (op.upper(), t.w, sgn(t.w, s.val(a)), sgn(t.w, s.val(b)))
            r = setd(t, s.binop(op, t, s.val(a), s.val(b)))
            return ('stmt', pre + r[1])
        if op == 'fneg':
            while p.peek()[0] == 'word' and p.peek()[1] in ('fast', 'nnan', 'ninf', 'nsz', 'arcp', 'contract', 'afn', 'reassoc'): p.next()
            a = tv()
            if isinstance(a.ty, VecT): return setd(a.ty, s.vlanes(a.ty, ["(-%s.a[%d])" % (s.val(a), i) for i in range(a.ty.n)]))
            return setd(a.ty, "(-%s)" % s.val(a))
        if op == 'icmp':
            pred = p.next()[1]; t = p.type(); a = parse_value(p, t); p.expect(','); b = parse_value(p, t)
            A, B = s.val(a), s.val(b)
            if isinstance(t, VecT):   # lane-wise, result <n x i1>
                rt = VecT(t.n, IntT(1)); w = t.el.w
                c = {'eq': '==', 'ne': '!=', 'ult': '<', 'ule': '<=', 'ugt': '>', 'uge': '>=', 'slt': '<', 'sle': '<=', 'sgt': '>', 'sge': '>='}[pred]
                f = (lambda e: sgn(w, e)) if pred[0] == 's' else (lambda e: e)
                return setd(rt, s.vlanes(rt, ["(uint8_t)(%s %s %s)" % (f("%s.a[%d]" % (A, i)), c, f("%s.a[%d]" % (B, i))) for i in range(t.n)]))
            if isinstance(t, PtrT):
                A = "(uintptr_t)" + A; B = "(uintptr_t)" + B; w = 64
            else: w = t.w
            c = {'eq': '==', 'ne': '!=', 'ult': '<', 'ule': '<=', 'ugt': '>', 'uge': '>=', 'slt': '<', 'sle': '<=', 'sgt': '>', 'sge': '>='}[pred]
            if pred[0] == 's': A, B = sgn(w, A), sgn(w, B)
            return setd(IntT(1), "(uint8_t)(%s %s %s)" % (A, c, B))
        if op == 'fcmp':
            while p.peek()[0] == 'word' and p.peek()[1] in ('fast', 'nnan', 'ninf', 'nsz', 'arcp', 'contract', 'afn', 'reassoc'): p.next()
            pred = p.next()[1]; t = p.type(); a = parse_value(p, t); p.expect(','); b = parse_value(p, t)
            A, B = s.val(a), s.val(b)
            e = {'oeq': "A == B", 'ogt': "A > B", 'oge': "A >= B", 'olt': "A < B", 'ole': "A <= B", 'one': "(A < B || A > B)",
                 'ord': "(A == A && B == B)", 'uno': "(A != A || B != B)", 'ueq': "!(A < B || A > B)", 'ugt': "!(A <= B)",
                 'uge': "!(A < B)", 'ult': "!(A >= B)", 'ule': "!(A > B)", 'une': "A != B", 'true': "1", 'false': "0"}[pred]
            if isinstance(t, VecT):   # lane-wise, result <n x i1>
                rt = VecT(t.n, IntT(1))
                return setd(rt, s.vlanes(rt, ["(uint8_t)(%s)" % (e.replace('A', "%s.a[%d]" % (A, i)).replace('B', "%s.a[%d]" % (B, i)) if pred not in ('true', 'false') else e) for i in range(t.n)]))
            e = e.replace('A', A).replace('B', B) if pred not in ('true','false') else e
            return setd(IntT(1), "(uint8_t)(%s)" % e)
        if op == 'select':
            while p.peek()[0] == 'word' and p.peek()[1] in ('fast', 'nnan', 'ninf', 'nsz', 'arcp', 'contract', 'afn', 'reassoc'): p.next()
            c = tv(); p.expect(','); a = tv(); p.expect(','); b = tv()
            if isinstance(c.ty, VecT):   # lane-wise select
                return setd(a.ty, s.vlanes(a.ty, ["(%s.a[%d] ? %s.a[%d] : %s.a[%d])" % (s.val(c), i, s.val(a), i, s.val(b), i) for i in range(a.ty.n)]))
            return setd(a.ty, "(%s ? %s : %s)" % (s.val(c), s.val(a), s.val(b)))
        if op == 'phi':
            t = p.type(); inc = []
            while p.accept('['):
                v = parse_value(p, t); p.expect(','); pred = p.next()[1]; p.expect(']'); p.accept(',')
                inc.append((v, pred))
            locs[dest] = t
            return ('phi', dest, t, inc)
        if op == 'br':
            if p.accept('label'):
                return ('br', p.next()[1])
            c = tv(); p.expect(','); p.expect('label'); a = p.next()[1]; p.expect(','); p.expect('label'); b = p.next()[1]
            return ('condbr', s.val(c), a, b)
        if op == 'switch':
            v = tv(); p.expect(','); p.expect('label'); d = p.next()[1]; p.expect('[')
            cases = []
            while not p.accept(']'):
                cv = tv(); p.expect(','); p.expect('label'); cases.append((s.val(cv), p.next()[1]))
            return ('switch', s.val(v), d, cases)
        if op == 'ret':
            t = p.type()
            if isinstance(t, VoidT): return ('stmt', "return;")
            v = parse_value(p, t); return ('stmt', "return %s;" % s.val(v))
        if op == 'unreachable':
            return ('stmt', 'LL_UNREACHABLE();')
        if op == 'alloca':
            t = p.type(); cnt = None
            if p.accept(','):
                if p.peek()[1] != 'align':
                    cnt = tv()
            locs[dest] = PtrT(t)
            if cnt is None:
                locs[dest + ".mem"] = t
                return ('stmt', "%s = &%s;" % (s.cname(dest), s.cname(dest + ".mem")))
            return ('stmt', "%s = (%s)LL_ALLOCA(sizeof(%s) * %s);" % (s.cname(dest), ctype(ctx, PtrT(t)), ctype(ctx, t), s.val(cnt)))
        if op == 'load':
            p.accept('volatile'); t = p.type(); p.expect(','); a = tv()
            return setd(t, "*%s" % s.val(a))
        if op == 'store':
            p.accept('volatile'); v = tv(); p.expect(','); a = tv()
            return ('stmt', "*%s = %s;" % (s.val(a), s.val(v)))
        if op == 'getelementptr':
            p.accept('inbounds'); bt = p.type(); p.expect(',')
            ops = []
            while p.peek()[0] != 'eof':
                ops.append(tv()); p.accept(',')
            e, rt = s.gep(bt, ops)
            return setd(rt, e)
        if op in ('bitcast', 'inttoptr', 'ptrtoint', 'trunc', 'zext', 'sext', 'sitofp', 'uitofp', 'fptosi', 'fptoui', 'fpext', 'fptrunc', 'addrspacecast'):
            x = tv(); p.expect('to'); t2 = p.type()
            if op == 'bitcast' and isinstance(x.ty, PtrT) and isinstance(t2, PtrT) and isinstance(t2.to, IntT) and t2.to.w == 8 \
               and isinstance(x.ty.to, (IntT, FloatT, PtrT)) and not (isinstance(x.ty.to, PtrT) and isinstance(x.ty.to.to, FuncT)):
                s.bc[dest] = (x.ty.to, s.val(x))
            if op == 'bitcast' and isinstance(x.ty, PtrT) and isinstance(t2, PtrT) and isinstance(t2.to, IntT) and t2.to.w == 8 and isinstance(x.ty.to, (StructT, ArrT)):
                s.bcs[dest] = (x.ty.to, s.val(x))
            if isinstance(x.ty, VecT) and isinstance(t2, VecT) and op != 'bitcast':   # lane-wise conversion
                X = s.val(x)
                return setd(t2, s.vlanes(t2, [s.cast(op, V('raw', "%s.a[%d]" % (X, i), x.ty.el), t2.el) for i in range(t2.n)]))
            if op == 'bitcast' and any(isinstance(t, VecT) and isinstance(t.el, IntT) and t.el.w == 1 for t in (x.ty, t2)):
                # <n x i1> <-> i<n>: lane k is bit k (little endian); lanes are stored one per byte here
                X = s.val(x)
                if isinstance(x.ty, VecT) and isinstance(t2, IntT) and t2.w == x.ty.n and t2.w <= 64:
                    return setd(t2, mask(t2.w, " | ".join("((%s)(%s.a[%d] & 1) << %d)" % (ctype(ctx, t2), X, i, i) for i in range(x.ty.n))))
                if isinstance(t2, VecT) and isinstance(x.ty, IntT) and x.ty.w == t2.n and x.ty.w <= 64:
                    return setd(t2, s.vlanes(t2, ["(uint8_t)((%s >> %d) & 1)" % (X, i) for i in range(t2.n)]))
                raise NotImplementedError("bitcast of <n x i1> (packed bits): " + ln)
            return setd(t2, s.cast(op, x, t2))
        if op == 'freeze':
            x = tv(); return setd(x.ty, s.val(x))
        if op == 'extractvalue':
            a = tv(); path = ""; cur = a.ty
            while p.accept(','):
                ix = int(p.next()[1])
                if isinstance(cur, StructT): path += ".f%d" % ix; cur = cur.fields[ix]
                else: path += ".a[%d]" % ix; cur = cur.el
            return setd(cur, "%s%s" % (s.val(a), path))
        if op == 'insertvalue':
            a = tv(); p.expect(','); v = tv(); path = ""; cur = a.ty
            while p.accept(','):
                ix = int(p.next()[1])
                if isinstance(cur, StructT): path += ".f%d" % ix; cur = cur.fields[ix]
                else: path += ".a[%d]" % ix; cur = cur.el
            locs[dest] = a.ty
            return ('stmt', "%s = %s; %s%s = %s;" % (s.cname(dest), s.val(a), s.cname(dest), path, s.val(v)))
        if op == 'extractelement':
            a = tv(); p.expect(','); ix = tv()
            return setd(a.ty.el, "%s.a[%s]" % (s.val(a), s.val(ix)))
        if op == 'insertelement':
            a = tv(); p.expect(','); v = tv(); p.expect(','); ix = tv()
            locs[dest] = a.ty
            return ('stmt', "%s = %s; %s.a[%s] = %s;" % (s.cname(dest), s.val(a), s.cname(dest), s.val(ix), s.val(v)))
        if op == 'shufflevector':
            a = tv(); p.expect(','); b = tv(); p.expect(','); m = tv()
            n = a.ty.n; rt = VecT(m.ty.n, a.ty.el)
            els = []
            if m.kind in ('zero', 'undef'): idxs = [0] * m.ty.n
            else: idxs = [e.val if e.kind == 'int' else 0 for e in m.val]
            for ix in idxs:
                els.append("%s.a[%d]" % ((s.val(a), ix) if ix < n else (s.val(b), ix - n)))
            return setd(rt, "((%s){{%s}})" % (ctype(ctx, rt), ", ".join(els)))
        if op in ('call', 'tail', 'musttail', 'notail', 'invoke'):
            if op in ('tail', 'musttail', 'notail'): p.expect('call')
            while p.peek()[0] == 'word' and p.peek()[1] in ('fast', 'nnan', 'ninf', 'nsz', 'arcp', 'contract', 'afn', 'reassoc'): p.next()
            p.skip_words(FN_ATTRS | PARAM_ATTRS)
            rt = p.type()
            if isinstance(rt, PtrT) and isinstance(rt.to, FuncT): rt = rt.to.ret  # explicit fn type
            if isinstance(rt, FuncT): rt = rt.ret
            callee = p.next()
            p.expect('(')
            args = []
            while not p.accept(')'):
                t = p.type(); p.skip_words(PARAM_ATTRS)
                args.append(parse_value(p, t)); p.accept(',')
            tail = None
            if op == 'invoke':
                # to label %a unwind label %b
                while p.peek()[1] != 'to':
                    if p.peek()[0] == 'eof': raise SyntaxError("invoke without 'to label': " + ln)
                    p.next()
                p.next(); p.expect('label'); tail = p.next()[1]
            st = s.call(callee[1], rt, args, dest, locs)
            if tail is not None:
                return ('multi', st, tail)
            return st
        if op in ('cleanup', 'catch', 'filter'):
            return ('stmt', ';')
        if op == 'landingpad':
            if dest: locs[dest] = p.type()
            return ('stmt', 'LL_UNREACHABLE();')
        if op == 'resume':
            return ('stmt', 'LL_UNREACHABLE();')
        raise NotImplementedError("inst %s: %s" % (op, ln))

    def vlanes(s, t, els):
        return "((%s){{%s}})" % (ctype(s.ctx, t), ", ".join(els))

    def simd_intrinsic(s, n, rt, args, A):
        """lane-wise models of vector intrinsics with the exact ISA / LangRef semantics; returns a C expression or None"""
        def lane(j, k): return "%s.a[%d]" % (A[j], k)
        m = re.match(r'@llvm\.(ceil|floor|fabs|sqrt|trunc|rint|nearbyint|round|maxnum|minnum|copysign|fma|fmuladd)\.v(\d+)f(32|64)$', n)
        if m:
            fn = {'maxnum': 'fmax', 'minnum': 'fmin', 'fmuladd': 'LL_FMULADD'}.get(m.group(1), m.group(1))
            if m.group(2 + 1) == '32' and fn != 'LL_FMULADD': fn += 'f'
            if m.group(1) == 'sqrt': fn = 'LL_SQRTF' if m.group(3) == '32' else 'LL_SQRT'
            return s.vlanes(rt, ["%s(%s)" % (fn, ", ".join(lane(j, k) for j in range(len(A)))) for k in range(int(m.group(2)))])
        # roundps/roundpd imm8: bit 2 = use MXCSR.RC (default: nearest-even), else bits 1:0 = 0 nearest-even, 1 down, 2 up, 3 truncate
        m = re.match(r'@llvm\.x86\.(?:sse41|avx)\.round\.(ps|pd|ss|sd)(?:\.256)?$', n)
        if m:
            imm = args[-1].val
            if args[-1].kind != 'int': raise NotImplementedError("round with non-constant mode")
            fn = 'nearbyint' if imm & 4 else ['nearbyint', 'floor', 'ceil', 'trunc'][imm & 3]
            if m.group(1)[1] == 's': fn += 'f'
            if m.group(1)[0] == 's':   # scalar form: lane 0 from the 2nd operand rounded, upper lanes from the 1st
                return s.vlanes(rt, ["%s(%s)" % (fn, lane(1, 0))] + [lane(0, k) for k in range(1, rt.n)])
            return s.vlanes(rt, ["%s(%s)" % (fn, lane(0, k)) for k in range(rt.n)])
        m = re.match(r'@llvm\.x86\.(?:sse2?|avx)\.sqrt\.(ps|pd)(?:\.256)?$', n)
        if m:
            return s.vlanes(rt, ["%s(%s)" % ('LL_SQRTF' if m.group(1) == 'ps' else 'LL_SQRT', lane(0, k)) for k in range(rt.n)])
        # cmpps/cmppd imm8 predicate (bit 4 only changes signalling): result lane is all-ones or all-zeros
        m = re.match(r'@llvm\.x86\.(?:sse2?|avx)\.cmp\.(ps|pd)(?:\.256)?$', n)
        if m:
            if args[2].kind != 'int': raise NotImplementedError("cmp with non-constant predicate")
            tab = ["A == B", "A < B", "A <= B", "(A != A || B != B)", "A != B", "!(A < B)", "!(A <= B)", "(A == A && B == B)",
                   "!(A < B || A > B)", "!(A >= B)", "!(A > B)", "0", "(A < B || A > B)", "A >= B", "A > B", "1"]
            e = tab[args[2].val & 15]; mk = 'LL_MASK_F32' if m.group(1) == 'ps' else 'LL_MASK_F64'
            return s.vlanes(rt, ["%s(%s)" % (mk, e.replace('A', lane(0, k)).replace('B', lane(1, k))) for k in range(rt.n)])
        # blendv: lane from the 2nd operand where the sign bit of the mask lane is set, else from the 1st
        m = re.match(r'@llvm\.x86\.(?:sse41\.blendv(ps|pd)|avx\.blendv\.(ps|pd)\.256)$', n)
        if m:
            sb = 'LL_SIGN_F32' if (m.group(1) or m.group(2)) == 'ps' else 'LL_SIGN_F64'
            return s.vlanes(rt, ["(%s(%s) ? %s : %s)" % (sb, lane(2, k), lane(1, k), lane(0, k)) for k in range(rt.n)])
        # movmskps/pd: bit k of the result = sign bit of lane k
        m = re.match(r'@llvm\.x86\.(?:sse|sse2|avx)\.movmsk\.(ps|pd)(?:\.256)?$', n)
        if m:
            sb = 'LL_SIGN_F32' if m.group(1) == 'ps' else 'LL_SIGN_F64'; t = args[0].ty
            return "((uint32_t)(%s))" % " | ".join("((uint32_t)%s(%s) << %d)" % (sb, lane(0, k), k) for k in range(t.n))
        # haddps/pd (per 128-bit half): [a0+a1, a2+a3, b0+b1, b2+b3]
        m = re.match(r'@llvm\.x86\.(?:sse3|avx)\.(hadd|hsub)\.(ps|pd)(?:\.256)?$', n)
        if m:
            c = '+' if m.group(1) == 'hadd' else '-'; t = args[0].ty; h = 4 if m.group(2) == 'ps' else 2; els = []
            for base in range(0, t.n, h):
                for j in (0, 1):
                    for k in range(0, h, 2): els.append("(%s %s %s)" % (lane(j, base + k), c, lane(j, base + k + 1)))
            return s.vlanes(rt, els)
        return None

    def vecop(s, op, t, a, b):
        ctx = s.ctx
        A, B = s.val(a), s.val(b)
        els = [s.binop(op, t.el, "%s.a[%d]" % (A, i), "%s.a[%d]" % (B, i)) for i in range(t.n)]
        return "((%s){{%s}})" % (ctype(ctx, t), ", ".join(els))

    def call(s, callee, rt, args, dest, locs):
        ctx = s.ctx
        A = [s.val(a) for a in args]
        def ret(e):
            if dest is None or isinstance(rt, VoidT): return ('stmt', e + ";")
            locs[dest] = rt
            return ('stmt', "%s = %s;" % (s.cname(dest), e))
        n = callee
        if n.startswith('@llvm.'):
            if n.startswith('@llvm.lifetime.end') and len(args) == 2 and args[0].kind == 'int' and 0 < args[0].val < (1 << 20):
                # the object is dead from here on: with -DLL_LIFETIME its bytes become arbitrary, so a later read through a dangling reference
                # (use-after-scope) is visible to the solver as an unconstrained value instead of the stale content
                return ('stmt', "LL_LIFETIME_END(%s, %s);" % (A[1], A[0]))
            if n.startswith(('@llvm.lifetime', '@llvm.experimental.noalias', '@llvm.dbg', '@llvm.invariant')): return ('stmt', ";")
            if n.startswith(('@llvm.memcpy', '@llvm.memmove')):
                mv = 'MOVE' if n.startswith('@llvm.memmove') else 'CPY'
                if args[2].kind != 'int' and args[0].kind == 'local' and args[1].kind == 'local' and args[0].val in s.bc and args[1].val in s.bc \
                   and repr(s.bc[args[0].val][0]) == repr(s.bc[args[1].val][0]):
                    et = s.bc[args[0].val][0]
                    return ('stmt', "LL_MEM%s_T(%s, %s, %s, %s);" % (mv, ctype(ctx, et), s.bc[args[0].val][1], s.bc[args[1].val][1], A[2]))
                if args[2].kind != 'int' and args[0].kind == 'local' and args[1].kind == 'local' and ((args[0].val in s.bc) != (args[1].val in s.bc)):
                    # exactly one operand is a known T* (scalar T) viewed as i8*, the other a raw i8* (e.g. a fresh malloc block, utl::vector::resize):
                    # copy word-wise through T* on both sides; the macro asserts that the length is a multiple of sizeof(T), so this equals the byte copy
                    et, _ = s.bc[args[0].val] if args[0].val in s.bc else s.bc[args[1].val]
                    if isinstance(et, (IntT, FloatT)):
                        ct = ctype(ctx, et)
                        d_ = s.bc[args[0].val][1] if args[0].val in s.bc else "((%s*)%s)" % (ct, A[0])
                        s_ = s.bc[args[1].val][1] if args[1].val in s.bc else "((%s*)%s)" % (ct, A[1])
                        return ('stmt', "LL_MEM%s_T(%s, %s, %s, %s);" % (mv, ct, d_, s_, A[2]))
                if args[2].kind == 'int' and args[0].kind == 'local' and args[1].kind == 'local' and args[0].val in s.bcs and args[1].val in s.bcs:
                    # whole-aggregate copy between two typed objects (same IR type at offset 0 of both, length == its size): a struct
                    # assignment keeps the copy field-wise (constants survive in the solver) instead of a byte-wise memcpy
                    (dt, de), (st, se) = s.bcs[args[0].val], s.bcs[args[1].val]
                    cov = ll_cover(dt, "", st, "", args[2].val)
                    if cov and len(cov) <= 64:
                        return ('stmt', " ".join("LL_AGGCPY((*%s)%s, (*%s)%s);" % (de, dp, se, sp) for dp, sp in cov))
                return ('stmt', "LL_MEM%s(%s, %s, %s);" % (mv, A[0], A[1], A[2]))
            if n.startswith('@llvm.memset'): return ('stmt', "LL_MEMSET(%s, %s, %s);" % (A[0], A[1], A[2]))
            if n.startswith('@llvm.assume'): return ('stmt', "LL_ASSUME(%s);" % A[0])
            if n.startswith('@llvm.expect'): return ret(A[0])
            if n.startswith('@llvm.trap'): return ('stmt', "LL_TRAP();")
            m = re.match(r'@llvm\.(umax|umin|smax|smin)\.i(\d+)', n)
            if m:
                w = int(m.group(2)); c = '>' if m.group(1)[1:] == 'max' else '<'
                x, y = (sgn(w, A[0]), sgn(w, A[1])) if m.group(1)[0] == 's' else (A[0], A[1])
                return ret("(%s %s %s ? %s : %s)" % (x, c, y, A[0], A[1]))
            m = re.match(r'@llvm\.abs\.i(\d+)', n)
            if m:
                w = int(m.group(1)); return ret(mask(w, "(%s < 0 ? -%s : %s)" % (sgn(w, A[0]), A[0], A[0])))
            m = re.match(r'@llvm\.(ceil|floor|fabs|sqrt|trunc|round|rint|nearbyint|exp|log|sin|cos|pow|exp2|log2|log10|fma|fmuladd|maxnum|minnum|copysign)\.f(32|64)', n)
            if m:
                fn = {'maxnum': 'fmax', 'minnum': 'fmin', 'fmuladd': 'LL_FMULADD'}.get(m.group(1), m.group(1))
                if m.group(2) == '32' and fn != 'LL_FMULADD': fn += 'f'
                if m.group(1) == 'sqrt': fn = 'LL_SQRTF' if m.group(2) == '32' else 'LL_SQRT'
                s.used_ext.add(fn)
                return ret("%s(%s)" % (fn, ", ".join(A)))
            m = re.match(r'@llvm\.(uadd|usub|umul|sadd|ssub|smul)\.with\.overflow\.i(\d+)', n)
            if m:
                return ret("LL_%s_OVF_%s((%s){0}, %s, %s)" % (m.group(1).upper(), m.group(2), ctype(ctx, rt), A[0], A[1]))
            m = re.match(r'@llvm\.x86\.(?:sse2?|avx)\.(max|min)\.(ps|pd)(?:\.256)?$', n)
            if m:
                c = '>' if m.group(1) == 'max' else '<'
                t = args[0].ty
                els = ["(%s.a[%d] %s %s.a[%d] ? %s.a[%d] : %s.a[%d])" % (A[0], i, c, A[1], i, A[0], i, A[1], i) for i in range(t.n)]
                return ret("((%s){{%s}})" % (ctype(ctx, t), ", ".join(els)))
            e = s.simd_intrinsic(n, rt, args, A)
            if e is not None: return ret(e)
            raise NotImplementedError("intrinsic " + n)
        ext = {'@_Znwm': 'LL_MALLOC', '@_Znam': 'LL_MALLOC', '@malloc': 'LL_MALLOC', '@_ZdlPv': 'LL_FREE', '@_ZdaPv': 'LL_FREE', '@free': 'LL_FREE',
               '@_ZdlPvm': 'LL_FREE', '@calloc': 'LL_CALLOC', '@__assert_fail': 'LL_ASSERT_FAIL', '@abort': 'LL_ABORT', '@_ZSt9terminatev': 'LL_ABORT',
               '@__cxa_allocate_exception': 'LL_THROW', '@__cxa_throw': 'LL_THROW', '@__clang_call_terminate': 'LL_ABORT'}
        if n in ext:
            if ext[n] in ('LL_ASSERT_FAIL', 'LL_ABORT', 'LL_THROW'):
                if dest: locs[dest] = rt
                return ('stmt', "%s();" % ext[n])
            if ext[n] == 'LL_FREE': return ('stmt', "LL_FREE(%s);" % A[0])
            return ret("((%s)%s(%s))" % (ctype(ctx, rt), ext[n], ", ".join(A)))
        if n in ('@sqrtf', '@sqrt'): return ret("%s(%s)" % ('LL_SQRTF' if n == '@sqrtf' else 'LL_SQRT', A[0]))
        if n.startswith('@_ZSt') and 'throw' in n:
            return ('stmt', "LL_THROW();")
        if n[0] == '%':
            # indirect call
            return ret("%s(%s)" % (s.cname(n), ", ".join(A)))
        if n in ctx.decls and n not in ctx.funcs: s.used_ext.add(n)
        return ret("%s(%s)" % (s.fname(n), ", ".join(A)))

PRELUDE = r'''
#include <stdint.h>
#include <stddef.h>
#include <string.h>
#include <stdlib.h>
#include <math.h>
#ifndef LL_NATIVE
#define LL_UNREACHABLE() do { __CPROVER_assert(0, "LL: unreachable reached"); __CPROVER_assume(0); } while (0)
#define LL_ASSERT_FAIL() do { __CPROVER_assert(0, "LL: nmtools assert() failed"); __CPROVER_assume(0); } while (0)
#define LL_THROW() do { __CPROVER_assert(0, "LL: exception thrown"); __CPROVER_assume(0); } while (0)
#define LL_ABORT() do { __CPROVER_assert(0, "LL: abort"); __CPROVER_assume(0); } while (0)
#define LL_TRAP() LL_ABORT()
#define LL_ASSUME(c) __CPROVER_assert(c, "LL: llvm.assume holds")
static inline void* LL_MALLOC(size_t n) { void* p = malloc(n); __CPROVER_assume(p != 0); return p; }
static inline void* LL_CALLOC(size_t n, size_t m) { void* p = calloc(n, m); __CPROVER_assume(p != 0); return p; }
#define CHK_NSW(ok, what) __CPROVER_assert(ok, "LL: signed overflow on nsw " what)
#else
#include <stdio.h>
#define LL_UNREACHABLE() do { fprintf(stderr, "LL: unreachable\n"); abort(); } while (0)
#define LL_ASSERT_FAIL() do { fprintf(stderr, "LL: assert fail\n"); abort(); } while (0)
#define LL_THROW() do { fprintf(stderr, "LL: throw\n"); abort(); } while (0)
#define LL_ABORT() abort()
#define LL_TRAP() abort()
#define LL_ASSUME(c) ((void)0)
#define LL_MALLOC(n) malloc(n)
#define LL_CALLOC(n, m) calloc(n, m)
#define CHK_NSW(ok, what) ((void)0)
#endif
#define LL_FREE(p) free(p)
#if defined(LL_LIFETIME) && !defined(LL_NATIVE)
#define LL_LIFETIME_END(p, n) __CPROVER_havoc_slice((void*)(p), (n))
#else
#define LL_LIFETIME_END(p, n) ((void)0)
#endif
/* CBMC's built-in memcpy/memset are exact for constant lengths only (observed: symbolic length drops data) */
static inline void ll_memcpy_loop(uint8_t* d, const uint8_t* s, size_t n) { for (size_t i = 0; i < n; i++) d[i] = s[i]; }
#ifndef LL_NATIVE
static inline void ll_memmove_loop(uint8_t* d, const uint8_t* s, size_t n) {
  /* overlap direction decided without comparing pointers into different objects */
  if (__CPROVER_same_object(d, s) && __CPROVER_POINTER_OFFSET(d) > __CPROVER_POINTER_OFFSET(s)) { for (size_t i = n; i > 0; i--) d[i-1] = s[i-1]; }
  else { for (size_t i = 0; i < n; i++) d[i] = s[i]; }
}
#else
static inline void ll_memmove_loop(uint8_t* d, const uint8_t* s, size_t n) { memmove(d, s, n); }
#endif
static inline void ll_memset_loop(uint8_t* d, uint8_t v, size_t n) { for (size_t i = 0; i < n; i++) d[i] = v; }
#define LL_MEMCPY(d, s, n) (__builtin_constant_p(n) ? (void)memcpy((void*)(d), (const void*)(s), (n)) : ll_memcpy_loop((uint8_t*)(d), (const uint8_t*)(s), (n)))
#define LL_MEMMOVE(d, s, n) (__builtin_constant_p(n) ? (void)memmove((void*)(d), (const void*)(s), (n)) : ll_memmove_loop((uint8_t*)(d), (const uint8_t*)(s), (n)))
#define LL_MEMSET(d, v, n) (__builtin_constant_p(n) ? (void)memset((void*)(d), (v), (n)) : ll_memset_loop((uint8_t*)(d), (uint8_t)(v), (n)))
/* typed copies for non-constant lengths whose operands are known T* (e.g. std::vector<T> copies): word-wise, no byte extraction */
#ifndef LL_NATIVE
#define LL_MEMCPY_T(T, d, s, n) do { T* d_ = (d); const T* s_ = (s); size_t n_ = (n); __CPROVER_assert(n_ % sizeof(T) == 0, "LL: typed memcpy length is a multiple of the element size"); \
   for (size_t i_ = 0; i_ < n_ / sizeof(T); i_++) d_[i_] = s_[i_]; } while (0)
#define LL_MEMMOVE_T(T, d, s, n) do { T* d_ = (d); const T* s_ = (s); size_t n_ = (n); __CPROVER_assert(n_ % sizeof(T) == 0, "LL: typed memmove length is a multiple of the element size"); \
   if (__CPROVER_same_object(d_, s_) && __CPROVER_POINTER_OFFSET(d_) > __CPROVER_POINTER_OFFSET(s_)) { for (size_t i_ = n_ / sizeof(T); i_ > 0; i_--) d_[i_-1] = s_[i_-1]; } \
   else { for (size_t i_ = 0; i_ < n_ / sizeof(T); i_++) d_[i_] = s_[i_]; } } while (0)
#else
#define LL_MEMCPY_T(T, d, s, n) memcpy((void*)(d), (const void*)(s), (n))
#define LL_MEMMOVE_T(T, d, s, n) memmove((void*)(d), (const void*)(s), (n))
#endif
#define LL_AGGCPY(d, s) ((d) = (s))
#define LL_ALLOCA(n) __builtin_alloca(n)
#define LL_FMULADD(a, b, c) ((a) * (b) + (c))
#define CHK_NSW_ADD(w, a, b) do { int64_t r_; CHK_NSW(!__builtin_add_overflow((int64_t)(a), (int64_t)(b), &r_) && ((w) == 64 || (r_ >= -((int64_t)1 << ((w) - 1)) && r_ < ((int64_t)1 << ((w) - 1)))), "add"); } while (0)
#define CHK_NSW_SUB(w, a, b) do { int64_t r_; CHK_NSW(!__builtin_sub_overflow((int64_t)(a), (int64_t)(b), &r_) && ((w) == 64 || (r_ >= -((int64_t)1 << ((w) - 1)) && r_ < ((int64_t)1 << ((w) - 1)))), "sub"); } while (0)
#define CHK_NSW_MUL(w, a, b) do { int64_t r_; CHK_NSW(!__builtin_mul_overflow((int64_t)(a), (int64_t)(b), &r_) && ((w) == 64 || (r_ >= -((int64_t)1 << ((w) - 1)) && r_ < ((int64_t)1 << ((w) - 1)))), "mul"); } while (0)
#define BITCAST(T2, T1, e) (((union { T1 a; T2 b; }){ .a = (e) }).b)
/* lane helpers of the x86 vector intrinsic models */
#define LL_MASK_F32(c) BITCAST(float, uint32_t, ((c) ? 0xFFFFFFFFu : 0u))
#define LL_MASK_F64(c) BITCAST(double, uint64_t, ((c) ? 0xFFFFFFFFFFFFFFFFull : 0ull))
#define LL_SIGN_F32(x) ((uint32_t)(BITCAST(uint32_t, float, (x)) >> 31))
#define LL_SIGN_F64(x) ((uint32_t)(BITCAST(uint64_t, double, (x)) >> 63))
/* sqrt: correctly rounded in libm and in sqrtps/sqrtss alike. Default: libm / CBMC's model. With -DLL_UNINTERPRETED_SQRT (CBMC only)
   every sqrt call site, scalar or vector lane, is the same uninterpreted function: sound for equalities between two evaluations */
#if (defined(LL_UNINTERPRETED_SQRT) || defined(LL_UF_FLOAT)) && !defined(LL_NATIVE)
float __CPROVER_uninterpreted_sqrtf(float); double __CPROVER_uninterpreted_sqrt(double);
static inline float ll_sqrtf(float a) { if (a != a) return (float)NAN; return __CPROVER_uninterpreted_sqrtf(a); }
static inline double ll_sqrt(double a) { if (a != a) return (double)NAN; return __CPROVER_uninterpreted_sqrt(a); }
#define LL_SQRTF(x) ll_sqrtf(x)
#define LL_SQRT(x) ll_sqrt(x)
#else
#define LL_SQRTF(x) sqrtf(x)
#define LL_SQRT(x) sqrt(x)
#endif
/* float arithmetic. Default: the C operators (IEEE, exact). With -DLL_UF_FLOAT (CBMC only; for differential harnesses that compare two
   evaluations of the same computation) + - * / and the rounding functions become uninterpreted functions, the same symbol at every call
   site, scalar or vector lane; the operands of the commutative + and * are put into a canonical order first (a+b == b+a bit for bit in
   IEEE arithmetic, NaN payloads aside). Anything proved equal under this abstraction is equal under the real operations. */
#if defined(LL_UF_FLOAT) && !defined(LL_NATIVE)
#define LL_UF_DECL2(n, T) T __CPROVER_uninterpreted_##n(T, T);
#define LL_UF_DECL1(n, T) T __CPROVER_uninterpreted_##n(T);
LL_UF_DECL2(fadd_f32, float) LL_UF_DECL2(fsub_f32, float) LL_UF_DECL2(fmul_f32, float) LL_UF_DECL2(fdiv_f32, float)
LL_UF_DECL2(fadd_f64, double) LL_UF_DECL2(fsub_f64, double) LL_UF_DECL2(fmul_f64, double) LL_UF_DECL2(fdiv_f64, double)
LL_UF_DECL1(ceilf, float) LL_UF_DECL1(floorf, float) LL_UF_DECL1(truncf, float) LL_UF_DECL1(nearbyintf, float) LL_UF_DECL1(rintf, float) LL_UF_DECL1(roundf, float)
LL_UF_DECL1(ceil, double) LL_UF_DECL1(floor, double) LL_UF_DECL1(trunc, double) LL_UF_DECL1(nearbyint, double) LL_UF_DECL1(rint, double) LL_UF_DECL1(round, double)
static inline uint32_t ll_bits_f32(float x) { union { float f; uint32_t u; } v; v.f = x; return v.u; }
static inline uint64_t ll_bits_f64(double x) { union { double f; uint64_t u; } v; v.f = x; return v.u; }
/* IEEE facts kept under the abstraction: an operation with a NaN operand returns a NaN (payloads are not modelled anywhere);
   multiplication / division by exactly 1 returns the other operand (compilers rewrite c ? x : s*x into x * (c ? 1 : s)) */
#ifdef LL_UF_NOSORT   /* cheaper variant for computations whose two evaluations are known to use the same operand order */
#define LL_UF_SORT 0
#else
#define LL_UF_SORT 1
#endif
#define LL_UF_ONE_fadd(T, a, b)
#define LL_UF_ONE_fsub(T, a, b)
#define LL_UF_ONE_fmul(T, a, b) if ((a) == (T)1) return (b); if ((b) == (T)1) return (a);   /* x * 1 == x, bit for bit, for every x */ \
  if ((a) == (T)-1) return -(b); if ((b) == (T)-1) return -(a);                               /* x * -1 == -x */
#define LL_UF_ONE_fdiv(T, a, b) if ((b) == (T)1) return (a);                                /* x / 1 == x */
#define LL_UF_BIN(name, T, B, comm) static inline T ll_##name##_##B(T a, T b) { if (a != a || b != b) return (T)NAN; LL_UF_ONE_##name(T, a, b) \
  int c_ = !((comm) && LL_UF_SORT) || ll_bits_##B(a) <= ll_bits_##B(b); return __CPROVER_uninterpreted_##name##_##B(c_ ? a : b, c_ ? b : a); }
LL_UF_BIN(fadd, float, f32, 1) LL_UF_BIN(fmul, float, f32, 1) LL_UF_BIN(fsub, float, f32, 0) LL_UF_BIN(fdiv, float, f32, 0)
LL_UF_BIN(fadd, double, f64, 1) LL_UF_BIN(fmul, double, f64, 1) LL_UF_BIN(fsub, double, f64, 0) LL_UF_BIN(fdiv, double, f64, 0)
#define LL_UF_UN(name, T) static inline T ll_##name(T a) { if (a != a) return (T)NAN; return __CPROVER_uninterpreted_##name(a); }
LL_UF_UN(ceilf, float) LL_UF_UN(floorf, float) LL_UF_UN(truncf, float) LL_UF_UN(nearbyintf, float) LL_UF_UN(rintf, float) LL_UF_UN(roundf, float)
LL_UF_UN(ceil, double) LL_UF_UN(floor, double) LL_UF_UN(trunc, double) LL_UF_UN(nearbyint, double) LL_UF_UN(rint, double) LL_UF_UN(round, double)
#define LL_FADD_F32(a, b) ll_fadd_f32(a, b)
#define LL_FMUL_F32(a, b) ll_fmul_f32(a, b)
#define LL_FSUB_F32(a, b) ll_fsub_f32(a, b)
#define LL_FDIV_F32(a, b) ll_fdiv_f32(a, b)
#define LL_FADD_F64(a, b) ll_fadd_f64(a, b)
#define LL_FMUL_F64(a, b) ll_fmul_f64(a, b)
#define LL_FSUB_F64(a, b) ll_fsub_f64(a, b)
#define LL_FDIV_F64(a, b) ll_fdiv_f64(a, b)
#define ceilf(x) ll_ceilf(x)
#define floorf(x) ll_floorf(x)
#define truncf(x) ll_truncf(x)
#define nearbyintf(x) ll_nearbyintf(x)
#define rintf(x) ll_rintf(x)
#define roundf(x) ll_roundf(x)
#define ceil(x) ll_ceil(x)
#define floor(x) ll_floor(x)
#define trunc(x) ll_trunc(x)
#define nearbyint(x) ll_nearbyint(x)
#define rint(x) ll_rint(x)
#define round(x) ll_round(x)
#else
#define LL_FADD_F32(a, b) ((a) + (b))
#define LL_FSUB_F32(a, b) ((a) - (b))
#define LL_FMUL_F32(a, b) ((a) * (b))
#define LL_FDIV_F32(a, b) ((a) / (b))
#define LL_FADD_F64(a, b) ((a) + (b))
#define LL_FSUB_F64(a, b) ((a) - (b))
#define LL_FMUL_F64(a, b) ((a) * (b))
#define LL_FDIV_F64(a, b) ((a) / (b))
#endif
'''

def translate(text):
    ctx = parse_module(text)
    em = Emit(ctx)
    bodies = []; sigs = []
    for name, f in ctx.funcs.items():
        # flatten 'multi' (invoke) handled in parse
        sig, body = em.func(f)
        sigs.append(sig + ";"); bodies.append(body)
    gl = []
    for name, (t, init, const) in ctx.globals.items():
        d = declare(ctx, t, em.cname(name))
        if init is None: gl.append("extern %s;" % d)
        else: gl.append("static %s%s = %s;" % ("const " if const else "", d, em.init(init)))
    ext = []
    for n in sorted(em.used_ext):
        if n.startswith('@'):
            ft = ctx.decls[n]
            # <math.h> (included by the prelude) already declares these with an `int` parameter; re-declaring them with uint32_t conflicts
            if n in ('@ldexp', '@ldexpf', '@scalbn', '@scalbnf', '@frexp', '@frexpf'): continue
            ext.append("extern %s %s(%s);" % (ctype(ctx, ft.ret), em.fname(n), ", ".join(declare(ctx, a, "") for a in ft.args) or "void"))
    fwd = [x.split('{')[0].strip() + ";" for x in ctx.order]
    out = [PRELUDE] + fwd + ctx.order + ext + sigs + gl + bodies
    protos = [x for x in sigs if re.match(r'^[\w\s\*]+\bk_\w+\(', x)]
    # prototypes that mention struct types are not exported (harnesses only use scalar/pointer kernels)
    protos = [x for x in protos if 'struct ' not in x]
    hdr = "#include <stdint.h>\n#include <stddef.h>\n" + "\n".join(protos) + "\n"
    return "\n".join(out) + "\n", hdr

if __name__ == '__main__':
    src = open(sys.argv[1]).read()
    c, h = translate(src)
    open(sys.argv[2], 'w').write(c)
    if len(sys.argv) > 3: open(sys.argv[3], 'w').write(h)
