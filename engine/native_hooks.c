/* native definitions of the NMTOOLS_VERIF hooks (replay / gate builds) */
#include <stdint.h>
void nmv_assert(int ok, const char* msg);
extern int nmv_hook_allowed_mask;
void nmtools_verif_index(unsigned long long i, unsigned long long extent, int site){ (void)site; if(!(nmv_hook_allowed_mask&1)) nmv_assert(i < extent, "NMV-HOOK index within logical extent"); }
void nmtools_verif_capacity(unsigned long long requested, unsigned long long capacity, int site){ (void)site; (void)requested; (void)capacity; if(!(nmv_hook_allowed_mask&2)) nmv_assert(0, "NMV-HOOK bounded container asked to exceed its capacity"); }
void nmtools_verif_clamp(long long value, long long lo, long long hi){ (void)value; (void)lo; (void)hi; if(!(nmv_hook_allowed_mask&4)) nmv_assert(0, "NMV-HOOK clipped integer clamped a value"); }
void nmtools_verif_eval_shape_mismatch(void){ if(!(nmv_hook_allowed_mask&8)) nmv_assert(0, "NMV-HOOK evaluator returned early: output/view shape mismatch"); }
