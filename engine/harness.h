/* Harness layer shared by three builds of every harness:
 *   (default)     CBMC: inputs are nondet, ASSUME/ASSERT are __CPROVER_*; every input is
 *                 recorded in nmv_in[] so that a counterexample can be read off the trace.
 *   -DNMV_NATIVE  native (gcc/g++): the same harness is linked against the REAL kernels
 *                 (replay of counterexamples, known-finding witnesses) or against the
 *                 translated C (differential gate). Inputs come from engine/native_main.c.
 */
#ifndef NMV_HARNESS_H
#define NMV_HARNESS_H
#include <stdint.h>
#include <stddef.h>
typedef uint64_t u64; typedef int64_t i64; typedef uint32_t u32; typedef int32_t i32;
typedef uint16_t u16; typedef int16_t i16; typedef uint8_t u8; typedef int8_t i8;
#ifndef NMV_MAXIN
#define NMV_MAXIN 512
#endif

#ifndef NMV_NATIVE
u64 nondet_u64(void); u32 nondet_u32(void); u8 nondet_u8(void);
u64 nmv_in[NMV_MAXIN]; unsigned nmv_k;
static inline u64 in_u64(u64 lo, u64 hi){ u64 v = nondet_u64(); __CPROVER_assume(v >= lo && v <= hi); nmv_in[nmv_k++] = v; return v; }
static inline i64 in_i64(i64 lo, i64 hi){ i64 v = (i64)nondet_u64(); __CPROVER_assume(v >= lo && v <= hi); nmv_in[nmv_k++] = (u64)v; return v; }
static inline u64 in_bits(void){ u64 v = nondet_u64(); nmv_in[nmv_k++] = v; return v; }
#define ASSUME(c) __CPROVER_assume(c)
#define ASSERT(c, msg) __CPROVER_assert(c, msg)
#define OBS(v) ((void)0)
/* reachability witness: this assertion MUST be reported FAILED, else the harness is vacuous */
#define REACHED() __CPROVER_assert(0, "NMV-WITNESS end of harness reachable")
#else
u64 nmv_next(u64 lo, u64 hi, int kind);   /* kind 0: unsigned range, 1: signed range, 2: raw 64 bits */
void nmv_assume_fail(void);
void nmv_assert(int ok, const char* msg);
void nmv_obs(u64 v);
void nmv_reached(void);
static inline u64 in_u64(u64 lo, u64 hi){ return nmv_next(lo, hi, 0); }
static inline i64 in_i64(i64 lo, i64 hi){ return (i64)nmv_next((u64)lo, (u64)hi, 1); }
static inline u64 in_bits(void){ return nmv_next(0, 0, 2); }
#define ASSUME(c) do { if (!(c)) nmv_assume_fail(); } while (0)
#define ASSERT(c, msg) nmv_assert((c) ? 1 : 0, msg)
#define OBS(v) nmv_obs((u64)(v))
#define REACHED() nmv_reached()
int nmv_hook_allowed_mask = 0
#ifdef NMV_HOOK_INDEX_ALLOWED
 | 1
#endif
#ifdef NMV_HOOK_CAPACITY_ALLOWED
 | 2
#endif
#ifdef NMV_HOOK_CLAMP_ALLOWED
 | 4
#endif
#ifdef NMV_HOOK_EVALMISMATCH_ALLOWED
 | 8
#endif
 ;
#endif

static inline u32 in_u32(u32 lo, u32 hi){ return (u32)in_u64(lo, hi); }
static inline i32 in_i32(i32 lo, i32 hi){ return (i32)in_i64(lo, hi); }
static inline u8  in_u8(u8 lo, u8 hi){ return (u8)in_u64(lo, hi); }
static inline u32 in_any32(void){ return (u32)in_bits(); }
static inline u8  in_any8(void){ return (u8)in_bits(); }
static inline float in_f32(void){ union { u32 b; float f; } x; x.b = (u32)in_bits(); return x.f; }
static inline double in_f64(void){ union { u64 b; double f; } x; x.b = in_bits(); return x.f; }
static inline u32 f32_bits(float f){ union { u32 b; float f; } x; x.f = f; return x.b; }
static inline u64 f64_bits(double f){ union { u64 b; double f; } x; x.f = f; return x.b; }
#endif

/* NMTOOLS_VERIF hooks (declared, not defined, in /repo when built with -DNMTOOLS_VERIF).
 * CBMC build: obligations. A harness that expects an event defines NMV_HOOK_<X>_ALLOWED before including this file. */
#if !defined(NMV_NATIVE) && !defined(NMV_NO_HOOK_DEFS)
void nmtools_verif_index(unsigned long long i, unsigned long long extent, int site){
#ifndef NMV_HOOK_INDEX_ALLOWED
  __CPROVER_assert(i < extent, "NMV-HOOK index within logical extent");
#endif
}
unsigned nmv_capacity_events;
void nmtools_verif_capacity(unsigned long long requested, unsigned long long capacity, int site){
  nmv_capacity_events++;
#ifndef NMV_HOOK_CAPACITY_ALLOWED
  __CPROVER_assert(0, "NMV-HOOK bounded container asked to exceed its capacity");
#endif
}
void nmtools_verif_clamp(long long value, long long lo, long long hi){
#ifndef NMV_HOOK_CLAMP_ALLOWED
  __CPROVER_assert(0, "NMV-HOOK clipped integer clamped a value");
#endif
}
void nmtools_verif_eval_shape_mismatch(void){
#ifndef NMV_HOOK_EVALMISMATCH_ALLOWED
  __CPROVER_assert(0, "NMV-HOOK evaluator returned early: output/view shape mismatch");
#endif
}
#endif
