/* Native driver for a harness compiled with -DNMV_NATIVE -DNMV_ENTRY=<harness function>.
 *   replay <v0> <v1> ...   run the harness once on the recorded inputs (hex or decimal u64)
 *   gate <seed> <n>        run n pseudo-random samples of the harness' input domain and print
 *                          one digest line per sample (compared between real and translated build)
 */
#include <stdio.h>
#include <stdlib.h>
#include <string.h>
#include <stdint.h>
#include <setjmp.h>
#include <signal.h>
typedef uint64_t u64;
void NMV_ENTRY(void);
static int mode;                 /* 0 replay, 1 gate */
static u64 vals[4096]; static int nvals, kval;
static u64 rng;
static sigjmp_buf jb;
static int fails, reached, crashed, assumed_out; static u64 digest;
static u64 rnd(void){ rng ^= rng << 13; rng ^= rng >> 7; rng ^= rng << 17; return rng; }
static void mix(u64 v){ digest = (digest ^ v) * 0x100000001b3ULL; digest ^= digest >> 29; }
u64 nmv_next(u64 lo, u64 hi, int kind){
  if (mode == 0) {
    if (kval >= nvals) { printf("REPLAY-INPUT-UNDERRUN\n"); assumed_out = 1; siglongjmp(jb, 1); }
    u64 v = vals[kval++];
    if (kind == 0 && !(v >= lo && v <= hi)) { assumed_out = 1; siglongjmp(jb, 1); }
    if (kind == 1 && !((int64_t)v >= (int64_t)lo && (int64_t)v <= (int64_t)hi)) { assumed_out = 1; siglongjmp(jb, 1); }
    return v;
  }
  u64 r = rnd();
  if (kind == 2) {
    switch (r & 7) { case 0: return 0; case 1: return 1; case 2: return (u64)-1; case 3: return rnd() & 0xff;
      case 4: return 0x3f8000003f800000ULL; case 5: return 0x7fc000007fc00000ULL; default: return rnd(); }
  }
  u64 span = hi - lo;   /* works for signed ranges too (two's complement) */
  if (span == (u64)-1) { switch (r & 3) { case 0: return lo + (rnd() % 8); case 1: return lo + (rnd() % 64); case 2: return lo + (rnd() % 4096); default: return rnd(); } }
  switch (r & 7) { case 0: return lo; case 1: return hi; case 2: return lo + (span >= 1 ? 1 : 0);
    case 3: return lo + (rnd() % (span + 1 > 8 ? 8 : span + 1));
    case 4: return lo + (rnd() % (span + 1 > 64 ? 64 : span + 1));
    default: return lo + rnd() % (span + 1); }
}
void nmv_assume_fail(void){ assumed_out = 1; siglongjmp(jb, 1); }
void nmv_assert(int ok, const char* msg){
  mix(ok ? 0x11 : 0x22);
  if (!ok) { fails++; if (mode == 0) printf("REPLAY-ASSERT-FAIL: %s\n", msg); }
}
void nmv_obs(u64 v){ mix(v); }
void nmv_reached(void){ reached = 1; }
static void on_sig(int s){ crashed = s; siglongjmp(jb, 2); }
int main(int argc, char** argv){
  setvbuf(stdout, 0, _IOLBF, 0);
  if (argc < 2) return 2;
  struct sigaction sa; memset(&sa, 0, sizeof sa); sa.sa_handler = on_sig; sa.sa_flags = SA_NODEFER;
  sigaction(SIGFPE, &sa, 0); sigaction(SIGSEGV, &sa, 0); sigaction(SIGABRT, &sa, 0); sigaction(SIGBUS, &sa, 0); sigaction(SIGILL, &sa, 0);
  if (!strcmp(argv[1], "replay")) {
    mode = 0;
    for (int i = 2; i < argc && nvals < 4096; i++) vals[nvals++] = strtoull(argv[i], 0, 0);
    if (sigsetjmp(jb, 1) == 0) NMV_ENTRY();
    if (crashed) printf("REPLAY-CRASH: signal %d\n", crashed);
    if (assumed_out) printf("REPLAY-ASSUME-FAIL\n");
    if (reached) printf("REPLAY-REACHED\n");
    printf("REPLAY-DONE fails=%d crashed=%d reached=%d assumed_out=%d\n", fails, crashed, reached, assumed_out);
    return 0;
  }
  mode = 1;
  u64 seed = strtoull(argv[2], 0, 0); long n = atol(argv[3]); long accepted = 0;
  for (long i = 0; i < n; i++) {
    rng = (seed + 1) * 0x9E3779B97F4A7C15ULL + (u64)i * 0xD1B54A32D192ED03ULL + 1; rnd(); rnd();
    fails = reached = crashed = assumed_out = 0; digest = 0xcbf29ce484222325ULL;
    if (sigsetjmp(jb, 1) == 0) NMV_ENTRY();
    if (assumed_out) continue;
    accepted++;
    printf("%ld %016llx f=%d c=%d r=%d\n", i, (unsigned long long)digest, fails, crashed ? 1 : 0, reached);
  }
  printf("GATE-DONE accepted=%ld of=%ld\n", accepted, n);
  return 0;
}
