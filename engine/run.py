#!/usr/bin/env python3
"""nmtools solver-based property checker (see /verif/DESIGN.md).

usage: run.py <property id> [--tier quick|thorough] [--only <harness substr>] [--replay <file>] [--keep] [--jobs N]

Pipeline per run (everything is regenerated from /repo's current working tree):
  kernels/*.cpp --clang++-14--> LLVM IR --ll2c.py--> C --cbmc--> verdict per (harness, configuration)
  differential gate: harness + translated C   vs   harness + real kernels (g++), same pseudo-random inputs
  counterexample -> inputs read off the trace -> replayed natively against the real g++ build
Exit codes: 0 property held on everything explored (KNOWN-FINDING lines allowed)
            1 VIOLATION (reproduced natively, not listed in known_findings.json)
            2 inconclusive / machinery fault (never on the unchanged tree)
"""
import sys, os, re, json, time, subprocess, tempfile, shutil, hashlib, importlib.util, threading, argparse, signal
from concurrent.futures import ThreadPoolExecutor, as_completed

ROOT = os.path.dirname(os.path.dirname(os.path.abspath(__file__)))
REPO = os.environ.get('NMV_REPO', '/repo')
ENGINE = os.path.join(ROOT, 'engine')
OUT = os.environ.get('NMV_OUT', ROOT)   # evidence/ and replays/ go here (redirected when evaluating seeded changes)
sys.path.insert(0, ENGINE)
import ll2c  # noqa

CLANG = 'clang++-14'
CLANG_FLAGS = ['-std=c++17', '-O1', '-fno-vectorize', '-fno-slp-vectorize', '-fno-unroll-loops', '-ffp-contract=off',
               '-mllvm', '-disable-loop-idiom-all', '-w', '-S', '-emit-llvm']
GXX_FLAGS = ['-std=c++17', '-O1', '-w', '-fPIC']
HOOK_GUARD = 'NMTOOLS_VERIF'
TOTAL_MEM_GB = int(os.environ.get('NMV_MEM_GB', '52'))
LOCK = threading.Lock()


def log(*a):
    with LOCK:
        print(*a, flush=True)


def run_cmd(cmd, timeout, mem_gb=None, cwd=None, env=None, stdin=None):
    """run under timeout and an address-space limit; returns dict(rc, out, err, wall, rss_mb, timed_out)"""
    # every child gets a private TMPDIR that is removed afterwards: a cbmc killed at its time budget otherwise leaves its CNF / SMT2 hand-over files (up to ~1 GB each) behind in /tmp
    td = tempfile.mkdtemp(prefix='nmv-tmp-', dir=os.environ.get('NMV_SCRATCH', '/var/tmp'))
    tfname = os.path.join(td, 'time')
    env = dict(os.environ if env is None else env, TMPDIR=td)
    full = ['/usr/bin/time', '-f', '%M', '-o', tfname] + cmd
    def pre():
        os.setsid()
        if mem_gb:
            import resource
            lim = int(mem_gb * (1 << 30))
            resource.setrlimit(resource.RLIMIT_AS, (lim, lim))
    t0 = time.time(); timed_out = False
    p = subprocess.Popen(full, stdout=subprocess.PIPE, stderr=subprocess.PIPE, cwd=cwd, env=env, preexec_fn=pre,
                         stdin=subprocess.DEVNULL if stdin is None else subprocess.PIPE)
    try:
        out, err = p.communicate(stdin, timeout=timeout)
    except subprocess.TimeoutExpired:
        timed_out = True
        try: os.killpg(p.pid, signal.SIGKILL)
        except Exception: pass
        out, err = p.communicate()
    wall = time.time() - t0
    rss = 0
    try:
        txt = open(tfname).read().strip().split('\n')[-1]
        rss = int(txt) // 1024
    except Exception:
        pass
    shutil.rmtree(td, ignore_errors=True)
    return dict(rc=p.returncode, out=out.decode('utf-8', 'replace'), err=err.decode('utf-8', 'replace'), wall=wall, rss_mb=rss, timed_out=timed_out)


class Inconclusive(Exception):
    pass


class Run:
    def __init__(self, pid, tier, only=None, keep=False, jobs=None, seed=0):
        self.pid = pid; self.tier = tier; self.only = only; self.keep = keep; self.seed = seed
        self.jobs = jobs or min(16, os.cpu_count() or 4)
        self.scratch = tempfile.mkdtemp(prefix='nmv-%s-' % pid, dir=os.environ.get('NMV_SCRATCH', '/var/tmp'))
        self.spec = self.load_spec(pid)
        self.tus = {}          # key -> dict(c, h, ll, real_o, tran_o, funcs)
        self.mem_avail = TOTAL_MEM_GB
        self.mem_cv = threading.Condition()
        self.findings = self.load_findings()
        self.queries = []      # evidence records
        self.problems = []     # inconclusive reasons
        self.violations = []   # (harness, cfgname, replay path, text)
        self.known_hits = []
        self.gate_stats = {}
        self.functions_encoded = set()
        self.native_cache = {}
        self.excl_cache = {}; self.witness_cache = {}

    # ------------------------------------------------------------------ spec / findings
    def load_spec(self, pid):
        path = os.path.join(ROOT, 'props', pid + '.py')
        if not os.path.exists(path):
            raise SystemExit('no spec for %s' % pid)
        sp = importlib.util.spec_from_file_location('prop_' + pid, path)
        m = importlib.util.module_from_spec(sp); sp.loader.exec_module(m)
        return m

    def load_findings(self):
        p = os.path.join(ROOT, 'known_findings.json')
        if not os.path.exists(p): return []
        return json.load(open(p)).get('findings', [])   # matched per harness by (property, harness name) in exclusions()

    # ------------------------------------------------------------------ build
    def tu_spec(self, key):
        return self.spec.KERNELS[key]

    def build_tu(self, key):
        ks = self.tu_spec(key)
        src = os.path.join(ROOT, ks['src'])
        base = os.path.join(self.scratch, key)
        flags = list(ks.get('flags', [])) + ['-D' + HOOK_GUARD, '-I' + os.path.join(REPO, 'include'), '-I' + ENGINE, '-I' + os.path.join(ROOT, 'kernels')]
        t0 = time.time()
        r = run_cmd([CLANG] + CLANG_FLAGS + flags + ['-Rpass=inline', src, '-o', base + '.ll'], timeout=900)
        if r['rc'] != 0:
            raise Inconclusive('clang failed on %s: %s' % (key, r['err'][-3000:]))
        try:
            text = open(base + '.ll').read()
            c, h = ll2c.translate(text)
        except Exception as e:
            raise Inconclusive('translator failed on %s: %r' % (key, e))
        open(base + '.c', 'w').write(c); open(base + '.h', 'w').write(h)
        funcs = set()
        names = re.findall(r'^define [^@]*@("?[\w$.]+"?)\(', text, re.M)
        names += list(set(re.findall(r"remark: '([^']+)' inlined into", r['err'])))
        if names:
            d = run_cmd(['c++filt'], timeout=60, stdin='\n'.join(n.strip('"') for n in names).encode())
            for ln in d['out'].split('\n'):
                m = re.search(r'(nmtools::[\w:]+?)(?:<|\()', ln)
                if m: funcs.add(m.group(1))
        # native objects: real kernels (g++) and translated C (gcc)
        gflags = [f for f in flags if f not in ('-mllvm',)]
        r1 = run_cmd(['g++'] + GXX_FLAGS + gflags + ['-c', src, '-o', base + '.real.o'], timeout=900)
        if r1['rc'] != 0:
            raise Inconclusive('g++ failed on %s: %s' % (key, r1['err'][-3000:]))
        r2 = run_cmd(['gcc', '-O1', '-w', '-fPIC', '-DLL_NATIVE', '-fno-strict-aliasing', '-fwrapv', '-c', base + '.c', '-o', base + '.tran.o'] + [f for f in ks.get('flags', []) if f.startswith('-m')], timeout=900)
        if r2['rc'] != 0:
            raise Inconclusive('gcc failed on translated %s: %s' % (key, r2['err'][-3000:]))
        with LOCK:
            self.functions_encoded |= funcs
            self.tus[key] = dict(c=base + '.c', h=base + '.h', ll=base + '.ll', real_o=base + '.real.o', tran_o=base + '.tran.o',
                                 src=src, flags=flags, ir_lines=text.count('\n'), build_s=time.time() - t0)
        log('[build] %s: %d IR lines, %d nmtools functions, %.1fs' % (key, text.count('\n'), len(funcs), time.time() - t0))

    def native_exe(self, h, cfg, kind):
        """kind: real | tran | asan | msan"""
        ck = (h['name'], json.dumps(cfg, sort_keys=True), kind)
        with LOCK:
            if ck in self.native_cache: return self.native_cache[ck]
            klock = self.__dict__.setdefault('key_locks', {}).setdefault(('exe',) + ck, threading.Lock())
        with klock:     # single flight: two threads must never build (or run a half-written copy of) the same executable
            return self._native_exe_build(h, cfg, kind, ck)

    def _native_exe_build(self, h, cfg, kind, ck):
        with LOCK:
            if ck in self.native_cache: return self.native_cache[ck]
        tag = hashlib.md5(repr(ck).encode()).hexdigest()[:10]
        exe = os.path.join(self.scratch, 'nat-%s-%s-%s' % (h['name'], kind, tag))
        defs = ['-D%s=%s' % (k, v) for k, v in cfg.items() if not k.startswith('_')]
        hsrc = os.path.join(ROOT, h['src'])
        inc = ['-I' + ENGINE, '-I' + self.scratch, '-I' + os.path.join(ROOT, 'harnesses')]
        objs = []
        cc = 'gcc'; ld = 'g++'; extra = []
        if kind in ('asan', 'msan'):
            san = ['-fsanitize=address,undefined', '-fno-sanitize-recover=all'] if kind == 'asan' else ['-fsanitize=memory', '-fno-sanitize-recover=all']
            cxx = 'g++' if kind == 'asan' else CLANG
            cc = 'gcc' if kind == 'asan' else 'clang-14'
            ld = cxx; extra = san
            for key in h['kernels']:
                tu = self.tus[key]
                o = os.path.join(self.scratch, '%s.%s.o' % (key, kind))
                with LOCK: olock = self.__dict__.setdefault('key_locks', {}).setdefault(('obj', o), threading.Lock())
                with olock:
                    if not os.path.exists(o):
                        gflags = [f for f in tu['flags'] if f != '-mllvm']
                        r = run_cmd([cxx, '-std=c++17', '-O1', '-g', '-w'] + san + gflags + ['-c', tu['src'], '-o', o + '.tmp.o'], timeout=900)
                        if r['rc'] != 0: raise Inconclusive('%s build failed: %s' % (kind, r['err'][-2000:]))
                        os.replace(o + '.tmp.o', o)
                objs.append(o)
        else:
            for key in h['kernels']:
                objs.append(self.tus[key]['real_o' if kind == 'real' else 'tran_o'])
        ho = exe + '.h.o'; mo = exe + '.m.o'
        r = run_cmd([cc, '-O1', '-w', '-DNMV_NATIVE', '-DNMV_ENTRY=' + h['func']] + extra + defs + inc + ['-c', hsrc, '-o', ho], timeout=300)
        if r['rc'] != 0: raise Inconclusive('native harness compile failed (%s): %s' % (h['name'], r['err'][-2000:]))
        r = run_cmd([cc, '-O1', '-w', '-DNMV_NATIVE', '-DNMV_ENTRY=' + h['func']] + extra + ['-c', os.path.join(ENGINE, 'native_main.c'), '-o', mo], timeout=300)
        if r['rc'] != 0: raise Inconclusive('native main compile failed: %s' % r['err'][-2000:])
        stubs = os.path.join(ENGINE, 'native_hooks.c')
        so = exe + '.s.o'
        r = run_cmd([cc, '-O1', '-w'] + extra + ['-c', stubs, '-o', so], timeout=300)
        if r['rc'] != 0: raise Inconclusive('native hooks compile failed: %s' % r['err'][-2000:])
        r = run_cmd([ld] + extra + [ho, mo, so] + objs + ['-lm', '-o', exe], timeout=300)
        if r['rc'] != 0: raise Inconclusive('native link failed (%s,%s): %s' % (h['name'], kind, r['err'][-2000:]))
        with LOCK:
            self.native_cache[ck] = exe
        return exe

    # ------------------------------------------------------------------ gate
    def gate(self, h, cfg, n):
        cfg = {k: v for k, v in cfg.items() if not k.startswith('KF_')}
        try:
            extra, _ = self.exclusions(h, cfg)
            gcfg = dict(cfg); gcfg.update({d: 1 for d in extra})   # the gate samples the domain the solver is asked about (known-defect regions excluded)
            a = self.native_exe(h, gcfg, 'real'); b = self.native_exe(h, gcfg, 'tran')
        except Inconclusive as e:
            self.problems.append('gate build: %s' % e); return
        ra = run_cmd([a, 'gate', str(self.seed), str(n)], timeout=300)
        rb = run_cmd([b, 'gate', str(self.seed), str(n)], timeout=300)
        la = ra['out'].strip().split('\n'); lb = rb['out'].strip().split('\n')
        cmp_n = 0; mism = 0; first = None; accepted = 0; crashes = 0
        if not la or not la[-1].startswith('GATE-DONE') or not lb or not lb[-1].startswith('GATE-DONE'):
            self.gate_stats[self.qname(h, cfg)] = dict(error='gate driver did not finish', tail_real=la[-2:], tail_tran=lb[-2:])
            return
        da = dict(x.split(' ', 1) for x in la[:-1]); db = dict(y.split(' ', 1) for y in lb[:-1])
        for k in sorted(set(da) | set(db), key=int):
            cmp_n += 1
            x = da.get(k); y = db.get(k)
            if x is None or y is None:
                mism += 1; first = first or (k, x, y); continue
            accepted += 1
            cx = 'c=1' in x.split(); cy = 'c=1' in y.split()
            if cx or cy:
                crashes += 1
                if cx != cy: mism += 1; first = first or (k, x, y)
                continue
            if x != y:
                mism += 1; first = first or (k, x, y)
        self.gate_stats[self.qname(h, cfg)] = dict(samples=n, compared=cmp_n, accepted=accepted, mismatches=mism, both_or_either_crashed=crashes, first_mismatch=first)

    # ------------------------------------------------------------------ cbmc
    def qname(self, h, cfg):
        s = ','.join('%s=%s' % (k, v) for k, v in sorted(cfg.items()) if not k.startswith('_'))
        return h['name'] + ('[' + s + ']' if s else '')

    def expand_unwindset(self, base_cmd, entries):
        """additive helper: an entry 're:<regex>:<bound>' stands for '<loop id>:<bound>' for every loop id listed by
        `cbmc --show-loops` (same files/defines/entry point) that the regex matches; used for loops that live in nmtools functions
        whose sanitized names carry a hash (e.g. the evaluator's copy loop). Plain entries pass through unchanged."""
        if not any(e.startswith('re:') for e in entries): return list(entries)
        key = tuple(base_cmd)
        with LOCK:
            cache = self.__dict__.setdefault('loops_cache', {})
            loops = cache.get(key)
        if loops is None:
            r = run_cmd(list(base_cmd) + ['--show-loops'], timeout=600, mem_gb=8)
            loops = []
            try:
                for x in json.loads(r['out']):
                    if isinstance(x, dict) and 'loops' in x: loops += [l['name'] for l in x['loops']]
            except Exception:
                loops = re.findall(r'"name": "([^"]+)"', r['out'])
            with LOCK: cache[key] = loops
        out = []
        for e in entries:
            if not e.startswith('re:'): out.append(e); continue
            rx, bound = e[3:].rsplit(':', 1)
            out += ['%s:%s' % (l, bound) for l in loops if re.search(rx, l)]
        return out

    def cbmc_cmd(self, h, cfg, extra_defs=(), more=()):
        files = [self.tus[k]['c'] for k in h['kernels']] + [os.path.join(ROOT, h['src'])]
        defs = ['-D%s=%s' % (k, v) for k, v in cfg.items() if not k.startswith('_')] + ['-D' + d for d in extra_defs]
        if os.environ.get('NMV_LIFETIME') and 'LL_LIFETIME' not in cfg: defs.append('-DLL_LIFETIME=1')   # experiment switch: dead stack objects arbitrary in every query
        unwind = cfg.get('_unwind', h.get('unwind', 8))
        cmd = ['cbmc'] + files + ['-I' + ENGINE, '-I' + self.scratch, '-I' + os.path.join(ROOT, 'harnesses')] + defs + [
            '--function', h['func'], '--unwind', str(unwind), '--unwinding-assertions', '--drop-unused-functions',
            '--object-bits', str(cfg.get('_objbits', h.get('objbits', 12))), '--json-ui', '--verbosity', '4']
        for us in self.expand_unwindset(cmd, cfg.get('_unwindset') or h.get('unwindset') or []):
            cmd += ['--unwindset', us]
        backend = cfg.get('_backend', h.get('backend', 'sat'))
        if backend == 'kissat': cmd += ['--external-sat-solver', 'kissat']
        elif backend == 'cadical': cmd += ['--sat-solver', 'cadical']
        elif backend == 'cvc5int': cmd += ['--cvc5', '--slice-formula']
        elif backend == 'z3': cmd += ['--z3']
        cmd += list(h.get('cbmc_flags', [])) + list(more)
        return cmd, backend

    def parse_cbmc(self, r):
        """-> (status, props) ; status in holds/cex/vacuous/unwind/inconclusive"""
        if r['timed_out']: return 'inconclusive', [], 'timeout after %.0fs' % r['wall']
        try:
            js = json.loads(r['out'])
        except Exception:
            return 'inconclusive', [], 'no JSON from cbmc (rc=%s, rss=%sMB): %s' % (r['rc'], r['rss_mb'], (r['out'][-400:] + r['err'][-400:]))
        props = None; errors = []; status = None
        for x in js:
            if isinstance(x, dict):
                if 'result' in x: props = x['result']
                if x.get('messageType') == 'ERROR': errors.append(x.get('messageText', ''))
                if 'cProverStatus' in x: status = x['cProverStatus']
        if props is None or status not in ('success', 'failure'):
            return 'inconclusive', [], 'cbmc gave no verdict (rc=%s): %s' % (r['rc'], '; '.join(errors)[-600:])
        wit = [p for p in props if p['description'].startswith('NMV-WITNESS')]
        other = [p for p in props if not p['description'].startswith('NMV-WITNESS')]
        bad = [p for p in other if p['status'] != 'SUCCESS']
        failed = [p for p in other if p['status'] == 'FAILURE']
        if not failed and any(p['status'] not in ('SUCCESS', 'FAILURE') for p in props):
            return 'inconclusive', props, 'property with status other than SUCCESS/FAILURE'
        bad = failed or bad     # a FAILURE is a counterexample even if later obligations are UNKNOWN (e.g. after an out-of-bounds access)
        if bad:
            if all('unwinding assertion' in p['description'] for p in bad):
                return 'unwind', props, 'unwinding assertion failed (bound too small): %s' % bad[0]['property']
            return 'cex', props, '%d failing properties' % len(bad)
        if not wit or any(p['status'] != 'FAILURE' for p in wit):
            return 'vacuous', props, 'witness assertion not reached: harness is vacuous'
        return 'holds', props, ''

    def acquire_mem(self, gb):
        with self.mem_cv:
            while self.mem_avail < gb and self.mem_avail < TOTAL_MEM_GB:
                self.mem_cv.wait()
            self.mem_avail -= gb

    def release_mem(self, gb):
        with self.mem_cv:
            self.mem_avail += gb; self.mem_cv.notify_all()

    def env_for(self, backend):
        env = dict(os.environ)
        if backend == 'cvc5int':
            env['PATH'] = os.path.join(ENGINE, 'shim') + ':' + env['PATH']
        return env

    def run_query(self, h, cfg, extra_defs=()):
        qn = self.qname(h, cfg)
        mem = cfg.get('_mem_gb', h.get('mem_gb', 4 if self.tier == 'quick' else 12))
        tmo = cfg.get('_timeout', h.get('timeout', 600 if self.tier == 'quick' else 1800))
        if os.environ.get('NMV_TIMEOUT_CAP'): tmo = min(tmo, int(os.environ['NMV_TIMEOUT_CAP']))   # diagnostic runs: cap every query (structural errors show up at once, the rest is NO-VERDICT)
        cmd, backend = self.cbmc_cmd(h, cfg, extra_defs)
        self.acquire_mem(mem)
        try:
            r = run_cmd(cmd, timeout=tmo, mem_gb=mem * 1.5, env=self.env_for(backend))
        finally:
            self.release_mem(mem)
        status, props, why = self.parse_cbmc(r)
        rec = dict(query=qn, harness=h['name'], config={k: v for k, v in cfg.items() if not k.startswith('_')}, backend=backend,
                   unwind=cfg.get('_unwind', h.get('unwind', 8)), verdict=status, why=why, solver_wall_s=round(r['wall'], 2), rss_mb=r['rss_mb'],
                   properties_checked=len(props), excluded_known_regions=list(extra_defs))
        log('[query] %-60s %-12s %6.1fs %5dMB %s' % (qn, status, r['wall'], r['rss_mb'], why))
        return rec, props, r

    def trace_inputs(self, h, cfg, prop, extra_defs=()):
        mem = cfg.get('_mem_gb', h.get('mem_gb', 4 if self.tier == 'quick' else 12))
        tmo = cfg.get('_timeout', h.get('timeout', 600 if self.tier == 'quick' else 1800))
        cmd, backend = self.cbmc_cmd(h, cfg, extra_defs, more=['--trace', '--property', prop])
        self.acquire_mem(mem)
        try:
            r = run_cmd(cmd, timeout=tmo, mem_gb=mem * 1.5, env=self.env_for(backend))
        finally:
            self.release_mem(mem)
        try: js = json.loads(r['out'])
        except Exception: return None
        for x in js:
            if isinstance(x, dict) and 'result' in x:
                for p in x['result']:
                    if p['property'] == prop and p['status'] == 'FAILURE' and 'trace' in p:
                        # inputs by call structure: every input is one call of in_u64 / in_i64 / in_bits; the drawn value is the
                        # assignment to its local `v` (survives --slice-formula, unlike the nmv_in[] record); a value that was sliced
                        # away is irrelevant to the failing obligation: take the lower bound `lo` if the trace shows it, else 0
                        calls = []; cur = None
                        for st in p['trace']:
                            t = st.get('stepType'); fid = (st.get('function') or {}).get('identifier')
                            if t == 'function-call' and fid in ('in_u64', 'in_i64', 'in_bits'):
                                cur = dict(fn=fid, v=None, lo=None); calls.append(cur)
                            elif t == 'function-return' and fid in ('in_u64', 'in_i64', 'in_bits'):
                                cur = None
                            elif t == 'assignment' and cur is not None and (st.get('sourceLocation') or {}).get('function') == cur['fn'] and 'binary' in st.get('value', {}):
                                if st.get('lhs') == 'v': cur['v'] = int(st['value']['binary'], 2)
                                elif st.get('lhs') == 'lo': cur['lo'] = int(st['value']['binary'], 2)
                        vals = {}
                        for st in p['trace']:
                            if st.get('stepType') == 'assignment':
                                m = re.fullmatch(r'nmv_in\[(\d+)l?\]', st.get('lhs', ''))
                                if m and 'binary' in st.get('value', {}):
                                    vals[int(m.group(1))] = int(st['value']['binary'], 2)
                        out = []
                        for i, c in enumerate(calls):
                            if c['v'] is not None: out.append(c['v'])
                            elif i in vals: out.append(vals[i])
                            else: out.append(c['lo'] if c['lo'] is not None else 0)
                        if not calls and vals: out = [vals.get(i, 0) for i in range(max(vals) + 1)]
                        return out
        return None

    # ------------------------------------------------------------------ replay
    def replay(self, h, cfg, inputs):
        """returns (reproduced, kind, text)"""
        texts = []
        for kind in ('real', 'asan', 'msan'):
            if kind == 'msan' and not h.get('msan_replay', True): continue
            try:
                exe = self.native_exe(h, cfg, kind)
            except Inconclusive as e:
                texts.append('[%s build failed: %s]' % (kind, str(e)[:300])); continue
            env = dict(os.environ, ASAN_OPTIONS='detect_leaks=1:abort_on_error=0', UBSAN_OPTIONS='print_stacktrace=0')
            r = run_cmd([exe, 'replay'] + ['0x%x' % v for v in inputs], timeout=120, env=env)
            out = r['out'] + '\n' + r['err']
            texts.append('--- %s build, rc=%s\n%s' % (kind, r['rc'], out[-3000:]))
            if r['rc'] in (126, 127) or 'cannot run' in out or 'Text file busy' in out:
                raise Inconclusive('replay binary could not be executed (%s build of %s): %s' % (kind, h['name'], out[-300:]))
            if 'REPLAY-ASSUME-FAIL' in out and 'REPLAY-ASSERT-FAIL' not in out and 'REPLAY-CRASH' not in out:
                continue
            if 'REPLAY-ASSERT-FAIL' in out or 'REPLAY-CRASH' in out:
                return True, kind, '\n'.join(texts)
            if kind in ('asan', 'msan') and (r['rc'] != 0 or 'Sanitizer' in out or 'runtime error' in out):
                return True, kind, '\n'.join(texts)
        return False, None, '\n'.join(texts)

    def write_replay(self, h, cfg, prop, inputs, text, reproduced):
        d = os.path.join(OUT, 'replays', self.pid); os.makedirs(d, exist_ok=True)
        tag = hashlib.md5(json.dumps([h['name'], cfg, inputs], sort_keys=True, default=str).encode()).hexdigest()[:10]
        path = os.path.join(d, '%s-%s.json' % (h['name'], tag))
        json.dump(dict(property=self.pid, harness=h['name'], config={k: v for k, v in cfg.items()}, failed=prop, inputs=['0x%x' % v for v in inputs],
                       reproduced_natively=reproduced, native_output=text[-6000:],
                       how_to_replay='./check %s --replay %s' % (self.pid, path)), open(path, 'w'), indent=1)
        return path

    def exclusions(self, h, cfg):
        """open known findings of this harness: replay each witness natively; exclude its region only while it still fails"""
        key = (h['name'], json.dumps(cfg, sort_keys=True))
        with LOCK:
            if key in self.excl_cache: return self.excl_cache[key]
        extra = []; hits = []
        for f in self.findings:
            if f.get('property') != h.get('finding_pid', self.pid) or f.get('harness') != h.get('finding_harness', h['name']) or f.get('status') != 'open': continue
            if f.get('configs') and not any(all(str(cfg.get(k)) == str(v) for k, v in c.items()) for c in f['configs']): continue
            wcfg = {k: v for k, v in cfg.items() if not k.startswith('_')}; wcfg.update(f.get('witness_config', {}))
            wcfg = {k: v for k, v in wcfg.items() if v is not None}   # null in a witness configuration: the witness is replayed WITHOUT that per-query constant
            wkey = (f['id'], h['name'], json.dumps(wcfg, sort_keys=True))
            with LOCK: known = self.witness_cache.get(wkey)
            if known is None:
                ok, kind, text = self.replay(h, wcfg, [int(x, 0) if isinstance(x, str) else x for x in f['witness_inputs']])
                with LOCK: self.witness_cache[wkey] = ok
            else: ok = known
            if ok:
                if f['exclude_define'] not in extra: extra.append(f['exclude_define'])
                hits.append(f)
                if os.environ.get('NMV_DEBUG_KNOWN') and known is None: log('[known] witness of %s (%s) still fails (%s build):\n%s' % (f['id'], h['name'], kind, text[-1500:]))
            else:
                log('[known] witness of %s (%s) no longer fails; its region is not excluded' % (f['id'], h['name']))
        with LOCK: self.excl_cache[key] = (extra, hits)
        return extra, hits

    # ------------------------------------------------------------------ one harness configuration end to end
    def do_config(self, h, cfg):
        cfg = {k: v for k, v in cfg.items() if not k.startswith('KF_')}   # exclusion macros come only from known_findings.json
        qn = self.qname(h, cfg)
        extra, hits = self.exclusions(h, cfg)
        rec, props, r = self.run_query(h, cfg, extra)
        rec['known_findings_excluded'] = [f['id'] for f in hits]
        with LOCK:
            self.queries.append(rec)
            for f in hits:
                if f['id'] not in [x['id'] for x in self.known_hits]: self.known_hits.append(f)
        st = rec['verdict']
        if st == 'holds': return
        if st == 'inconclusive' and h.get('optional') and 'timeout' in rec['why']:
            rec['verdict'] = 'no-verdict(optional)'   # attempted, not counted, not claimed
            return
        if st == 'inconclusive' and self.tier == 'thorough' and (rec['why'].startswith('timeout') or 'out of memory' in rec['why'].lower()):
            # thorough tier: a query that exhausts its time or memory budget is recorded as unexplored (not counted as held, listed in the evidence and on stdout);
            # the quick tier stays strict, so a query that silently stops returning is noticed on every change
            rec['verdict'] = 'no-verdict(timeout)' if rec['why'].startswith('timeout') else 'no-verdict(out of memory)'
            with LOCK: self.__dict__.setdefault('no_verdicts', []).append(qn)
            return
        if st in ('inconclusive', 'unwind', 'vacuous'):
            with LOCK: self.problems.append('%s: %s (%s)' % (qn, st, rec['why']))
            return
        # counterexample(s): harness-level assertions first, then encoded-code obligations
        bad = [p for p in props if p['status'] == 'FAILURE' and not p['description'].startswith('NMV-WITNESS') and 'unwinding assertion' not in p['description']]
        bad.sort(key=lambda p: (0 if p['property'].startswith(h['func'] + '.') else 1, p['property']))
        confirmed = 0; tried = 0; seen_inputs = set()
        for p in bad[:4]:
            inputs = self.trace_inputs(h, cfg, p['property'], extra)
            tried += 1
            if inputs is None:
                with LOCK: self.problems.append('%s: no trace for failing property %s' % (qn, p['property']))
                continue
            if tuple(inputs) in seen_inputs: continue
            seen_inputs.add(tuple(inputs))
            ok, kind, text = self.replay(h, cfg, inputs)
            path = self.write_replay(h, cfg, '%s: %s' % (p['property'], p['description']), inputs, text, ok)
            rec.setdefault('counterexamples', []).append(dict(failed='%s: %s' % (p['property'], p['description']), inputs=['0x%x' % v for v in inputs], reproduced=ok, build=kind, replay=path))
            if ok:
                confirmed += 1
                with LOCK: self.violations.append((qn, path, p['description']))
                break
            else:
                with LOCK: self.problems.append('%s: counterexample for "%s" did NOT reproduce natively (encoding fault or non-observable UB) replay=%s' % (qn, p['description'], path))

    # ------------------------------------------------------------------ main
    def configs_for(self, h):
        cfgs = h.get(self.tier)
        if cfgs is None: cfgs = h.get('quick', [{}]) if self.tier == 'thorough' else [{}]
        if self.tier == 'thorough' and h.get('thorough_includes_quick', True) and h.get('thorough') is not None:
            seen = [json.dumps(c, sort_keys=True) for c in cfgs]
            for c in h.get('quick', []):
                if json.dumps(c, sort_keys=True) not in seen: cfgs = cfgs + [c]
        return cfgs

    def main(self):
        t0 = time.time()
        hs = [h for h in self.spec.HARNESSES if not self.only or self.only in h['name']]
        work = [(h, c) for h in hs for c in self.configs_for(h)]
        keys = sorted(set(k for h, _ in work for k in h['kernels']))
        log('[run] %s tier=%s: %d kernel TUs, %d harness configurations, scratch %s' % (self.pid, self.tier, len(keys), len(work), self.scratch))
        try:
            with ThreadPoolExecutor(max_workers=self.jobs) as ex:
                futs = {ex.submit(self.build_tu, k): k for k in keys}
                for f in as_completed(futs):
                    try: f.result()
                    except Inconclusive as e:
                        self.problems.append(str(e)); log('[build] FAILED %s: %s' % (futs[f], str(e)[:2000]))
            work = [(h, c) for h, c in work if all(k in self.tus for k in h['kernels'])]
            gate_n = int(os.environ.get('NMV_GATE_N', '20000' if self.tier == 'quick' else '200000'))
            with ThreadPoolExecutor(max_workers=self.jobs) as ex:
                futs = []
                gated = set()
                for h, c in work:
                    if h.get('gate', True) and h['name'] not in gated:
                        gated.add(h['name']); futs.append(ex.submit(self.gate, h, c, gate_n))
                for h, c in work:
                    futs.append(ex.submit(self.do_config, h, c))
                for f in as_completed(futs):
                    try: f.result()
                    except Inconclusive as e:
                        self.problems.append(str(e))
                    except Exception as e:
                        import traceback; traceback.print_exc()
                        self.problems.append('internal error: %r' % e)
            for qn, g in self.gate_stats.items():
                if g.get('error'): self.problems.append('gate %s: %s' % (qn, g['error']))
                elif g['mismatches']:
                    msg = 'gate %s: %d/%d samples differ between translated C and real build, first %s' % (qn, g['mismatches'], g['compared'], g['first_mismatch'])
                    if self.violations: log('[gate] (informational, violation already confirmed) ' + msg)
                    else: self.problems.append(msg)
                elif g['accepted'] == 0:
                    self.problems.append('gate %s: no sample inside the input domain' % qn)
        finally:
            wall = time.time() - t0
            self.write_evidence(wall, work)
            if not self.keep: shutil.rmtree(self.scratch, ignore_errors=True)
        for f in self.known_hits:
            print('KNOWN-FINDING: property=%s %s' % (self.pid, f['what']))
        if self.violations:
            for qn, path, desc in self.violations:
                print('VIOLATION property=%s replay=%s' % (self.pid, path))
                print('  harness %s: %s' % (qn, desc))
            return 1
        if not any(q['verdict'] == 'holds' for q in self.queries): self.problems.append('no query returned "holds" (nothing matched / nothing built / nothing returned): an empty run proves nothing')
        if self.problems:
            for p in self.problems: print('INCONCLUSIVE: ' + p)
            return 2
        for qn in self.__dict__.get('no_verdicts', []): print('NO-VERDICT: %s (time or memory budget exhausted; not counted as held)' % qn)
        print('OK property=%s tier=%s queries=%d held=%d wall=%.0fs' % (self.pid, self.tier, len(self.queries), len([q for q in self.queries if q['verdict'] == 'holds']), wall))
        return 0

    def write_evidence(self, wall, work):
        held = [q for q in self.queries if q['verdict'] == 'holds']
        samples = []
        for q in self.queries[:6]:
            samples.append(dict(query=q['query'], verdict=q['verdict'], backend=q['backend'], unwind=q['unwind'], solver_wall_s=q['solver_wall_s'], properties_checked=q['properties_checked']))
        for q in self.queries:
            for c in q.get('counterexamples', []): samples.append(dict(query=q['query'], counterexample=c))
        bounds = {}
        for h in self.spec.HARNESSES:
            if 'bounds' in h: bounds[h['name']] = h['bounds']
        ev = dict(
            property_id=self.pid, tier=self.tier, seed=self.seed, level='model_checking',
            coverage=dict(
                evaluations=len(self.queries),
                distinct_nontrivial=len(set(q['query'] for q in held)),
                rule='one evaluation = one solver query (CBMC over the C translation of clang-14 IR of the real nmtools code) for one (harness, configuration); it counts as distinct and non-trivial when it returned VERIFICATION verdict "holds" for all obligations AND its reachability witness assertion was reported FAILED (harness not vacuous). Enumerated per-query constants are listed in each query\'s config; everything else in the harness is symbolic.',
                samples=samples or [dict(note='no query ran')],
                exhaustive=False,
                technique='bounded symbolic execution + SAT/SMT (CBMC 6.11; back ends: minisat/cadical/kissat/cvc5 --solve-bv-as-int)',
                functions_encoded=sorted(self.functions_encoded)[:400],
                functions_encoded_count=len(self.functions_encoded),
                kernel_units={k: dict(source=os.path.relpath(v['src'], ROOT), ir_lines=v['ir_lines'], clang_flags=[f for f in v['flags'] if not f.startswith('-I')]) for k, v in self.tus.items()},
                bounds=bounds,
                queries=self.queries,
                solver_time_s=round(sum(q['solver_wall_s'] for q in self.queries), 1),
                max_rss_mb=max([q['rss_mb'] for q in self.queries] or [0]),
                witnesses_confirmed=len(held),
                gate=self.gate_stats,
                gate_comparisons=sum(g.get('accepted', 0) for g in self.gate_stats.values()),
                known_findings_reported=[f['id'] for f in self.known_hits],
                problems=self.problems,
                outside_the_claim=getattr(self.spec, 'OUTSIDE', []),
            ),
            assumptions=list(getattr(self.spec, 'ASSUMPTIONS', [])) + [
                'clang-14 -O1 IR of the real headers is what is analysed (gcc code generation only reached by gate and replay)',
                'translator engine/ll2c.py + CBMC C semantics, validated per run by the differential gate and per harness by the witness assertion',
                'heap allocation never fails; exceptions, abort and failed assert() are treated as violations',
                'bounds: see coverage.bounds and per-query config/unwind; nothing is claimed outside them'],
            wall_s=round(wall, 1), violations=len(self.violations))
        # a partial run (--only) must not overwrite the evidence of the registered command
        edir = os.path.join(OUT, 'evidence', '_partial') if self.only else os.path.join(OUT, 'evidence')
        os.makedirs(edir, exist_ok=True)
        json.dump(ev, open(os.path.join(edir, self.pid + '.json'), 'w'), indent=1, default=str)


def do_replay(pid, path):
    d = json.load(open(path))
    run = Run(pid, 'quick')
    try:
        h = [x for x in run.spec.HARNESSES if x['name'] == d['harness']][0]
        for k in h['kernels']: run.build_tu(k)
        ok, kind, text = run.replay(h, d['config'], [int(x, 0) for x in d['inputs']])
        print(text)
        print('REPRODUCED (%s build)' % kind if ok else 'NOT REPRODUCED')
        return 1 if ok else 0
    finally:
        shutil.rmtree(run.scratch, ignore_errors=True)


if __name__ == '__main__':
    ap = argparse.ArgumentParser()
    ap.add_argument('pid'); ap.add_argument('--tier', default=os.environ.get('VERIF_TIER', 'quick'))
    ap.add_argument('--only'); ap.add_argument('--replay'); ap.add_argument('--keep', action='store_true'); ap.add_argument('--jobs', type=int)
    a = ap.parse_args()
    if a.replay: sys.exit(do_replay(a.pid, a.replay))
    seed = int(os.environ.get('VERIF_SEED', '0') or 0)
    sys.exit(Run(a.pid, a.tier, a.only, a.keep, a.jobs, seed).main())
