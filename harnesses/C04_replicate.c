/* C04: tile / repeat / roll equal NumPy's result (shape and element at every index, symbolic data) */
#include "C04_util.h"
#include "C04_replicate.h"
#ifndef MAXR
#define MAXR 3
#endif

/* np.tile(a, reps): reps has 1..4 entries in 1..MAXR; d = max(a.ndim, len(reps)); both are left-padded with ones */
void h_tile(void){
  u64 shape[4] = {1,1,1,1}, reps[4], idx[4], os[4] = {0}, od = 0, ex[4] = {0}, src[4] = {0,0,0,0}; u32 data[CELLS], out = 0;
  in_shape(shape, DIM); in_data(data, NCELL);
  u64 nr = in_u64(1, 4);
  for (int i = 0; i < 4; i++) reps[i] = in_u64(1, MAXR);
  u64 rd = nr > DIM ? nr : DIM;
  for (u64 k = 0; k < 4; k++) if (k < rd){
    i64 ai = (i64)k - (i64)(rd - DIM), bi = (i64)k - (i64)(rd - nr);
    ex[k] = (ai >= 0 ? shape[ai] : 1) * (bi >= 0 ? reps[bi] : 1);
  }
  in_index(idx, ex, rd, MAXE*MAXR - 1);
  int r = CAT(k_tile, DIM)(shape, data, reps, nr, idx, rd, os, &od, &out);
  ASSERT(r == 1, "tile accepted");
  ASSERT(od == rd, "dim == max(ndim, len(reps))");
  for (u64 k = 0; k < 4; k++) if (k < rd){
    ASSERT(os[k] == ex[k], "shape == padded shape * padded reps");
    i64 ai = (i64)k - (i64)(rd - DIM);
    if (ai >= 0) src[ai] = idx[k] % shape[ai];
  }
  ASSERT(out == data[horner(src, shape, DIM)], "element == source element at index mod source extent");
  OBS(out);
  REACHED();
}

/* np.repeat(a, repeats, axis): scalar repeats 1..MAXR, axis in [-DIM, DIM) */
void h_repeat(void){
  u64 shape[4] = {1,1,1,1}, idx[4], os[4] = {0}, od = 0, ex[4] = {0}, src[4] = {0,0,0,0}; u32 data[CELLS], out = 0;
  in_shape(shape, DIM); in_data(data, NCELL);
  u64 rep = in_u64(1, MAXR); i32 ax = in_i32(-DIM, DIM - 1); u64 an = norm_axis(ax, DIM);
#ifdef KF_C04_REPEAT_NEGAXIS
  ASSUME(!(ax < 0));   /* finding: a negative axis is not normalised by index::repeat */
#endif
  for (u64 k = 0; k < DIM; k++) ex[k] = shape[k] * (k == an ? rep : 1);
  in_index(idx, ex, DIM, MAXE*MAXR - 1);
  int r = CAT(k_repeat, DIM)(shape, data, rep, (u32)ax, idx, DIM, os, &od, &out);
  ASSERT(r == 1, "repeat accepted");
  ASSERT(od == DIM, "dim kept");
  for (u64 k = 0; k < DIM; k++){ ASSERT(os[k] == ex[k], "shape[axis] *= repeats"); src[k] = (k == an) ? idx[k] / rep : idx[k]; }
  ASSERT(out == data[horner(src, shape, DIM)], "element == source element at index/repeats along axis");
  OBS(out);
  REACHED();
}
/* np.repeat(a, repeats) (axis=None): flattened input */
void h_repeat_flat(void){
  u64 shape[4] = {1,1,1,1}, idx[4] = {0}, os[4] = {0}, od = 0; u32 data[CELLS], out = 0;
  in_shape(shape, DIM); in_data(data, NCELL);
  u64 rep = in_u64(1, MAXR), numel = prod(shape, DIM);
  idx[0] = in_u64(0, NCELL*MAXR - 1); ASSUME(idx[0] < numel * rep);
  int r = CAT(k_repeat_flat, DIM)(shape, data, rep, idx, 1, os, &od, &out);
  ASSERT(r == 1, "repeat accepted");
  ASSERT(od == 1 && os[0] == numel * rep, "shape == (numel*repeats,)");
  ASSERT(out == data[idx[0] / rep], "element == flat source element at index/repeats");
  OBS(out);
  REACHED();
}

/* np.roll(a, shift, axis): shift in [-2*MAXE, 2*MAXE], axis in [-DIM, DIM) */
void h_roll(void){
  u64 shape[4] = {1,1,1,1}, idx[4], os[4] = {0}, od = 0, src[4] = {0,0,0,0}; u32 data[CELLS], out = 0;
  in_shape(shape, DIM); in_data(data, NCELL);
  i32 sh = in_i32(-2*MAXE, 2*MAXE); i32 ax = in_i32(-DIM, DIM - 1); u64 an = norm_axis(ax, DIM);
  ASSUME(sh >= -2*(i32)shape[an] && sh <= 2*(i32)shape[an]);
  in_index(idx, shape, DIM, MAXE - 1);
#ifdef KF_C04_ROLL_BIGSHIFT
  ASSUME(!((i64)idx[an] - sh < -(i64)shape[an] || (i64)idx[an] - sh >= 2*(i64)shape[an]));   /* finding: only one wrap-around is applied */
#endif
  int r = CAT(k_roll, DIM)(shape, data, (u32)sh, (u32)ax, idx, DIM, os, &od, &out);
  ASSERT(r == 1, "roll accepted");
  ASSERT(od == DIM, "dim kept");
  for (u64 k = 0; k < DIM; k++){ ASSERT(os[k] == shape[k], "shape kept"); src[k] = (k == an) ? (u64)pymod((i64)idx[k] - sh, (i64)shape[k]) : idx[k]; }
  ASSERT(out == data[horner(src, shape, DIM)], "result[i] == a[(i - shift) mod n] along axis");
  OBS(out);
  REACHED();
}
/* np.roll(a, shift) (axis=None): roll of the flattened array, original shape restored */
void h_roll_flat(void){
  u64 shape[4] = {1,1,1,1}, idx[4], os[4] = {0}, od = 0; u32 data[CELLS], out = 0;
  in_shape(shape, DIM); in_data(data, NCELL);
  u64 numel = prod(shape, DIM);
  i32 sh = in_i32(-2*NCELL, 2*NCELL);
  ASSUME(sh >= -2*(i32)numel && sh <= 2*(i32)numel);
  in_index(idx, shape, DIM, MAXE - 1);
#ifdef KF_C04_ROLL_BIGSHIFT
  { i64 p = (i64)horner(idx, shape, DIM); ASSUME(!(p - sh < -(i64)numel || p - sh >= 2*(i64)numel)); }   /* finding: only one wrap-around is applied */
#endif
  int r = CAT(k_roll_flat, DIM)(shape, data, (u32)sh, idx, DIM, os, &od, &out);
  ASSERT(r == 1, "roll accepted");
  ASSERT(od == DIM, "dim kept");
  for (u64 k = 0; k < DIM; k++) ASSERT(os[k] == shape[k], "shape kept");
  ASSERT(out == data[pymod((i64)horner(idx, shape, DIM) - sh, (i64)numel)], "result.flat[p] == a.flat[(p - shift) mod numel]");
  OBS(out);
  REACHED();
}
