/* C17 (convolution, index level): the output shape of view::conv1d / conv2d (through the real convnd pipeline) equals the standard
 * formula floor((n + 2p - d(k-1) - 1)/s) + 1 with symbolic stride / padding / dilation / kernel / extents; the index maps of
 * sliding_window, expand (dilation) and pad equal their definitions. Elements of conv are NOT claimed (h_conv1d_el is the measurement). */
#include "harness.h"
#ifdef ELEMENTS
#include "C17_conv_el.h"
#else
#include "C17_conv.h"
#endif
#ifndef MAXL
#define MAXL 6
#endif
static u64 conv_out(u64 n, u64 k, u64 s, u64 p, u64 d){ return (n + 2*p - d*(k-1) - 1) / s + 1; }
#ifndef ELEMENTS
void h_conv1d_shape(void){
  u64 si[3], sw[3], os[4] = {0}, od = 0;
  si[0] = in_u64(1, 2); si[1] = in_u64(1, 2); si[2] = in_u64(1, MAXL);
  sw[0] = in_u64(1, 2); sw[1] = si[1]; sw[2] = in_u64(1, 3);
#ifdef NOPAD
  u64 s = in_u64(1, 3), p = in_u64(0, 0), d = in_u64(1, 2);
#else
  u64 s = in_u64(1, 3), p = in_u64(0, 2), d = in_u64(1, 2);
#endif
  ASSUME(si[2] + 2*p >= d*(sw[2]-1) + 1);                       /* positive output size */
#ifdef KF_C17_CONV_BATCH
  ASSUME(!(si[0] > 1));                                          /* excluded region: batch size > 1 */
#endif
#ifdef NOPAD
  int r = k_conv1d_shape_nopad(si, sw, s, d, os, &od);
#else
  int r = k_conv1d_shape(si, sw, s, p, d, os, &od);
#endif
  ASSERT(r == 1 && od == 3, "conv1d of compatible operands has a 3-d value");
  ASSERT(os[0] == si[0] && os[1] == sw[0], "(N, C_out, .)");
  ASSERT(os[2] == conv_out(si[2], sw[2], s, p, d), "L_out == floor((L + 2p - d(k-1) - 1)/s) + 1");
  OBS(os[2]); REACHED();
}
void h_conv2d_shape(void){
  u64 si[4], sw[4], st[2], pd[2], dl[2], os[4] = {0}, od = 0;
  si[0] = in_u64(1, 2); si[1] = in_u64(1, 2); si[2] = in_u64(1, MAXL); si[3] = in_u64(1, MAXL);
  sw[0] = in_u64(1, 2); sw[1] = si[1]; sw[2] = in_u64(1, 3); sw[3] = in_u64(1, 3);
#ifdef NOPAD
  for (int i = 0; i < 2; i++){ st[i] = in_u64(1, 3); pd[i] = in_u64(0, 0); dl[i] = in_u64(1, 2); }
#else
  for (int i = 0; i < 2; i++){ st[i] = in_u64(1, 3); pd[i] = in_u64(0, 2); dl[i] = in_u64(1, 2); }
#endif
  ASSUME(si[0]*si[1]*si[2]*si[3] <= 64);
#ifdef KF_C17_CONV_BATCH
  ASSUME(!(si[0] > 1));                                          /* excluded region: batch size > 1 */
#endif
  for (int i = 0; i < 2; i++) ASSUME(si[2+i] + 2*pd[i] >= dl[i]*(sw[2+i]-1) + 1);
#ifdef KF_C17_CONV2D_DILATION_ORDER
  ASSUME(!(dl[0] != dl[1]));                                     /* excluded region: different dilation per axis */
#endif
#ifdef NOPAD
  int r = k_conv2d_shape_nopad(si, sw, st, dl, os, &od);
#else
  int r = k_conv2d_shape(si, sw, st, pd, dl, os, &od);
#endif
  ASSERT(r == 1 && od == 4, "conv2d of compatible operands has a 4-d value");
  ASSERT(os[0] == si[0] && os[1] == sw[0], "(N, C_out, ., .)");
  for (int i = 0; i < 2; i++) ASSERT(os[2+i] == conv_out(si[2+i], sw[2+i], st[i], pd[i], dl[i]), "H_out/W_out == floor((n + 2p - d(k-1) - 1)/s) + 1");
  OBS(os[2]); OBS(os[3]); REACHED();
}
void h_sliding_window(void){
  u64 s[4], w[2], idx[6], os[6] = {0}, src[4] = {0}, e[6];
  for (int i = 0; i < 4; i++) s[i] = in_u64(1, MAXL);
  for (int i = 0; i < 2; i++){ w[i] = in_u64(1, 3); ASSUME(w[i] <= s[2+i]); }
  e[0] = s[0]; e[1] = s[1]; e[2] = s[2] - w[0] + 1; e[3] = s[3] - w[1] + 1; e[4] = w[0]; e[5] = w[1];
  for (int i = 0; i < 6; i++){ idx[i] = in_u64(0, MAXL-1); ASSUME(idx[i] < e[i]); }
  k_sliding_window(s, w, idx, os, src);
  for (int i = 0; i < 6; i++) ASSERT(os[i] == e[i], "shape == (.., n - w + 1, .., w, ..)");
  ASSERT(src[0] == idx[0] && src[1] == idx[1] && src[2] == idx[2] + idx[4] && src[3] == idx[3] + idx[5], "source index == window origin + offset inside the window");
  for (int i = 0; i < 4; i++) ASSERT(src[i] < s[i], "inside the source");
  OBS(src[2]); REACHED();
}
void h_expand(void){
  u64 s[4], sp[2], idx[4], os[4] = {0}, src[4] = {0}, e[4];
  for (int i = 0; i < 4; i++) s[i] = in_u64(1, MAXL);
  for (int i = 0; i < 2; i++) sp[i] = in_u64(0, 2);
  e[0] = s[0]; e[1] = s[1]; e[2] = s[2] + (s[2]-1)*sp[0]; e[3] = s[3] + (s[3]-1)*sp[1];
  for (int i = 0; i < 4; i++){ idx[i] = in_u64(0, 3*MAXL); ASSUME(idx[i] < e[i]); }
  int r = k_expand(s, sp, idx, os, src);
  for (int i = 0; i < 4; i++) ASSERT(os[i] == e[i], "shape == n + (n-1)*spacing on the expanded axes");
  int gap = idx[2] % (sp[0]+1) != 0 || idx[3] % (sp[1]+1) != 0;
  ASSERT(r == (gap ? 0 : 1), "a position between two source cells is a gap (fill value)");
  if (r) ASSERT(src[0] == idx[0] && src[1] == idx[1] && src[2] == idx[2]/(sp[0]+1) && src[3] == idx[3]/(sp[1]+1), "source index == index / (spacing+1)");
  OBS(r); OBS(src[2]); REACHED();
}
void h_pad_index(void){
  u64 s[4], pw[8], idx[4], os[4] = {0}, src[4] = {0}, e[4];
  for (int i = 0; i < 4; i++) s[i] = in_u64(1, MAXL);
  for (int i = 0; i < 8; i++) pw[i] = in_u64(0, 2);
  for (int i = 0; i < 4; i++) e[i] = s[i] + pw[i] + pw[4+i];
  for (int i = 0; i < 4; i++){ idx[i] = in_u64(0, MAXL+3); ASSUME(idx[i] < e[i]); }
  int r = k_pad_index(s, pw, idx, os, src);
  ASSERT(r >= 0, "one (begin,end) pair per axis is accepted");
  for (int i = 0; i < 4; i++) ASSERT(os[i] == e[i], "padded shape");
  int inside = 1; for (int i = 0; i < 4; i++) if (idx[i] < pw[i] || idx[i] >= pw[i] + s[i]) inside = 0;
  ASSERT(r == inside, "Nothing (pad value) exactly outside the original block");
  if (r == 1) for (int i = 0; i < 4; i++) ASSERT(src[i] == idx[i] - pw[i], "source index == index - begin width");
  OBS(r); OBS(src[0]); REACHED();
}
#else
/* conv1d element, smallest case: input (1,1,3), weight (1,1,2) -> (1,1,2); measurement only (no verdict expected) */
void h_conv1d_el(void){
  u8 in[3], w[2], o = 0; u64 idx[3] = {0,0,0}, os[3] = {0};
  for (int i = 0; i < 3; i++) in[i] = in_any8(); for (int i = 0; i < 2; i++) w[i] = in_any8();
  idx[2] = in_u64(0, 1);
  int r = k_conv1d_el(in, w, idx, os, &o);
  ASSERT(r == 1 && os[0] == 1 && os[1] == 1 && os[2] == 2, "shape (1,1,2)");
  ASSERT(o == (u8)((u8)(in[idx[2]]*w[0]) + (u8)(in[idx[2]+1]*w[1])), "element == cross-correlation sum (mod 256)");
  OBS(o); REACHED();
}
/* stride 2: input (1,1,4), weight (1,1,2) -> (1,1,2) */
void h_conv1d_el_s2(void){
  u8 in[4], w[2], o = 0; u64 idx[3] = {0,0,0}, os[3] = {0};
  for (int i = 0; i < 4; i++) in[i] = in_any8(); for (int i = 0; i < 2; i++) w[i] = in_any8();
  idx[2] = in_u64(0, 1);
  int r = k_conv1d_el_s2(in, w, idx, os, &o);
  ASSERT(r == 1 && os[0] == 1 && os[1] == 1 && os[2] == 2, "shape (1,1,2)");
  ASSERT(o == (u8)((u8)(in[2*idx[2]]*w[0]) + (u8)(in[2*idx[2]+1]*w[1])), "element == strided cross-correlation sum (mod 256)");
  OBS(o); REACHED();
}
/* padding 1: input (1,1,2), weight (1,1,2) -> (1,1,3): out[j] = x[j-1]*w0 + x[j]*w1 with zeros outside */
void h_conv1d_el_p1(void){
  u8 in[2], w[2], b[1] = {0}, o = 0; u64 idx[3] = {0,0,0}, os[3] = {0};
  for (int i = 0; i < 2; i++) in[i] = in_any8(); for (int i = 0; i < 2; i++) w[i] = in_any8();
  idx[2] = in_u64(0, 2);
  int r = k_conv1d_el_p1(in, w, b, idx, os, &o);
  ASSERT(r == 1 && os[0] == 1 && os[1] == 1 && os[2] == 3, "shape (1,1,3)");
  u8 x0 = idx[2] >= 1 ? in[idx[2]-1] : 0, x1 = idx[2] < 2 ? in[idx[2]] : 0;
  ASSERT(o == (u8)((u8)(x0*w[0]) + (u8)(x1*w[1])), "element == zero-padded cross-correlation (mod 256)");
  OBS(o); REACHED();
}
/* dilation 2: input (1,1,3), weight (1,1,2) -> (1,1,1) */
void h_conv1d_el_d2(void){
  u8 in[3], w[2], b[1] = {0}, o = 0; u64 idx[3] = {0,0,0}, os[3] = {0};
  for (int i = 0; i < 3; i++) in[i] = in_any8(); for (int i = 0; i < 2; i++) w[i] = in_any8();
  int r = k_conv1d_el_d2(in, w, b, idx, os, &o);
  ASSERT(r == 1 && os[0] == 1 && os[1] == 1 && os[2] == 1, "shape (1,1,1)");
  ASSERT(o == (u8)((u8)(in[0]*w[0]) + (u8)(in[2]*w[1])), "element == dilated cross-correlation (mod 256)");
  OBS(o); REACHED();
}
/* bias: input (1,1,3), weight (1,1,2), bias (1) -> (1,1,2) */
void h_conv1d_el_bias(void){
  u8 in[3], w[2], b[1], o = 0; u64 idx[3] = {0,0,0}, os[3] = {0};
  for (int i = 0; i < 3; i++) in[i] = in_any8(); for (int i = 0; i < 2; i++) w[i] = in_any8(); b[0] = in_any8();
  idx[2] = in_u64(0, 1);
  int r = k_conv1d_el_bias(in, w, b, idx, os, &o);
  ASSERT(r == 1 && os[0] == 1 && os[1] == 1 && os[2] == 2, "shape (1,1,2)");
  ASSERT(o == (u8)((u8)(in[idx[2]]*w[0]) + (u8)(in[idx[2]+1]*w[1]) + b[0]), "element == cross-correlation + bias (mod 256)");
  OBS(o); REACHED();
}
/* groups 2: input (1,2,2), weight (2,1,2) -> (1,2,1): each output channel sees its own input channel */
void h_conv1d_el_g2(void){
  u8 in[4], w[4], b[2] = {0,0}, o = 0; u64 idx[3] = {0,0,0}, os[3] = {0};
  for (int i = 0; i < 4; i++) in[i] = in_any8(); for (int i = 0; i < 4; i++) w[i] = in_any8();
  idx[1] = in_u64(0, 1);
  int r = k_conv1d_el_g2(in, w, b, idx, os, &o);
  ASSERT(r == 1 && os[0] == 1 && os[1] == 2 && os[2] == 1, "shape (1,2,1)");
  ASSERT(o == (u8)((u8)(in[idx[1]*2]*w[idx[1]*2]) + (u8)(in[idx[1]*2+1]*w[idx[1]*2+1])), "element == grouped cross-correlation (mod 256)");
  OBS(o); REACHED();
}
/* conv2d: input (1,1,2,2), weight (1,1,2,2) -> (1,1,1,1) */
void h_conv2d_el(void){
  u8 in[4], w[4], o = 0; u64 idx[4] = {0,0,0,0}, os[4] = {0};
  for (int i = 0; i < 4; i++) in[i] = in_any8(); for (int i = 0; i < 4; i++) w[i] = in_any8();
  int r = k_conv2d_el(in, w, idx, os, &o);
  ASSERT(r == 1 && os[0] == 1 && os[1] == 1 && os[2] == 1 && os[3] == 1, "shape (1,1,1,1)");
  u8 acc = 0; for (int k = 0; k < 4; k++) acc = (u8)(acc + (u8)(in[k]*w[k]));
  ASSERT(o == acc, "element == 2-d cross-correlation sum (mod 256)");
  OBS(o); REACHED();
}
/* two input channels: input (1,2,2), weight (1,2,2) -> (1,1,1) */
void h_conv1d_el_c2(void){
  u8 in[4], w[4], o = 0; u64 idx[3] = {0,0,0}, os[3] = {0};
  for (int i = 0; i < 4; i++) in[i] = in_any8(); for (int i = 0; i < 4; i++) w[i] = in_any8();
  int r = k_conv1d_el_c2(in, w, idx, os, &o);
  ASSERT(r == 1 && os[0] == 1 && os[1] == 1 && os[2] == 1, "shape (1,1,1)");
  u8 acc = 0; for (int c = 0; c < 2; c++) for (int k = 0; k < 2; k++) acc = (u8)(acc + (u8)(in[c*2+k]*w[c*2+k]));
  ASSERT(o == acc, "element == sum over channels and taps (mod 256)");
  OBS(o); REACHED();
}
#endif
