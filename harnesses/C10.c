/* C10: eager evaluation returns exactly the lazy view (shape and every element), for the three result resolvers:
 *   RES=0  array::eval(view) with its default resolver template argument (eval_t)
 *   RES=1  eval(view, None, None, RowMajorResolver)     - what every array::fn front end passes
 *   RES=2  eval(view, None, None, ColumnMajorResolver)
 * The oracle is differential (eager vs lazy, computed by the same kernel call on the same symbolic inputs); the harness
 * additionally pins the lazy shape to the NumPy shape (harnesses/C10_dom.h) so that the symbolic result index ranges over
 * the whole result. h_out_*: the result is a caller-supplied array whose prior content is symbolic. h_cl_*: composition law. */
#include "harness.h"
#ifndef RES
#define RES 1
#endif
#if RES == 0
#include "C10_eval_old.h"
#define KN(n) n##_old
#elif RES == 1
#include "C10_eval_row.h"
#define KN(n) n##_row
#elif RES == 2
#include "C10_eval_col.h"
#define KN(n) n##_col
#else               /* RES == 3: default resolver, operand capacity 4 (extents <= 2) */
#include "C10_eval_old4.h"
#define KN(n) n##_old4
#define CAP 4
#endif
#include "C10_dom.h"
#define CELLS 16
/* shape: symbolic 1..MAXE per extent, or a per-query constant (SH0,SH1) when the symbolic-shape query does not return */
#ifdef SH0
static void in_shape(u64* s, int n){ (void)n; s[0] = in_u64(SH0, SH0); s[1] = in_u64(SH1, SH1); }
#else
static void in_shape(u64* s, int n){ for (int i = 0; i < n; i++) s[i] = in_u64(1, MAXE); }
#endif
static void in_data(u32* d, int n){ for (int i = 0; i < n; i++) d[i] = in_any32(); }
#define LOCALS u64 shape[2], idx[4] = {0}, ls[4] = {0}, es[4] = {0}, ld = 0, ed = 0, ex[4] = {0}, maxidx = 0; u32 data[CELLS], p[16] = {0}, lv = 0, ev = 0; \
  in_shape(shape, 2); in_data(data, MAXE*MAXE); u64 n0 = shape[0], n1 = shape[1];
#define ARGS shape, data, p, idx, nd, ls, &ld, &lv, es, &ed, &ev
static u64 numel_of(const u64* ex, u64 nd){ u64 n = 1; for (u64 i = 0; i < 4; i++) if (i < nd) n *= ex[i]; return n; }
/* open finding: eval's DEFAULT resolver sizes the result from the operand's capacity; results larger than it come back unwritten */
#ifdef KF_C10_EVAL_DEFAULT_RESOLVER_CAPACITY
#define KF_GUARD ASSUME(!(numel_of(ex, nd) > CAP))
#else
#define KF_GUARD
#endif
static void check(int r, const u64* ex, u64 nd, const u64* ls, u64 ld, u32 lv, const u64* es, u64 ed, u32 ev){
  ASSERT(r == 1, "both sides exist and the index is inside both");
  ASSERT(ld == nd, "lazy dim == NumPy dim");
  ASSERT(ed == ld, "dim(eval(v)) == dim(v)");
  for (u64 i = 0; i < 4; i++) if (i < nd){ ASSERT(ls[i] == ex[i], "lazy shape == NumPy shape"); ASSERT(es[i] == ls[i], "shape(eval(v)) == shape(v)"); }
  ASSERT(ev == lv, "eval(v)(i) == v(i)");
  OBS(r); OBS(lv); OBS(ev);
}
#define EV(NAME)  void h_ev_##NAME(void){ LOCALS; u64 nd = dom_##NAME(p, ex, n0, n1, &maxidx); KF_GUARD; dom_index(idx, ex, nd, maxidx); \
  int r = KN(k_ev_##NAME)(ARGS); check(r, ex, nd, ls, ld, lv, es, ed, ev); REACHED(); }
#define FRONT(NAME) void h_front_##NAME(void){ LOCALS; u64 nd = dom_##NAME(p, ex, n0, n1, &maxidx); dom_index(idx, ex, nd, maxidx); \
  int r = KN(k_front_##NAME)(ARGS); check(r, ex, nd, ls, ld, lv, es, ed, ev); REACHED(); }
#define OUTP(NAME) void h_out_##NAME(void){ LOCALS; u32 pre[CELLS]; in_data(pre, MAXE*MAXE); u64 nd = dom_##NAME(p, ex, n0, n1, &maxidx); dom_index(idx, ex, nd, maxidx); \
  int r = KN(k_out_##NAME)(ARGS, pre); check(r, ex, nd, ls, ld, lv, es, ed, ev); REACHED(); }
#define CL(NAME)  void h_cl_##NAME(void){ LOCALS; u64 nd = dom_##NAME(p, ex, n0, n1, &maxidx); dom_index(idx, ex, nd, maxidx); \
  int r = KN(k_cl_##NAME)(ARGS); check(r, ex, nd, ls, ld, lv, es, ed, ev); REACHED(); }
/* a view with a ZERO extent (a[b:b, c:d], NumPy shape (0, d-c)): there is no element to compare; eval must return an array of exactly that shape */
void h_ev_slice_empty(void){ LOCALS; u64 nd = 2;
  i32 b0 = in_i32(0, MAXE), b1 = in_i32(0, MAXE - 1), e1 = in_i32(1, MAXE); ASSUME((u64)b0 <= n0 && b1 < e1 && (u64)e1 <= n1);
  p[0] = (u32)b0; p[1] = (u32)b0; p[2] = 1; p[3] = (u32)b1; p[4] = (u32)e1; ex[0] = 0; ex[1] = (u64)(e1 - b1);
  int r = KN(k_ev_slice)(ARGS);
  ASSERT(r == 3, "both sides exist; no index lies inside a zero-extent shape");
  ASSERT(ld == 2 && ed == 2, "dim(eval(v)) == dim(v) == 2");
  for (u64 i = 0; i < 2; i++){ ASSERT(ls[i] == ex[i], "lazy shape == NumPy shape (0, d-c)"); ASSERT(es[i] == ls[i], "shape(eval(v)) == shape(v) also for a zero extent"); }
  OBS(r); OBS(es[0]); OBS(es[1]); REACHED(); }
/* 0-d result: eval(reshape(a (1,1), ())) has dim 0 and holds a[0,0] */
void h_ev_reshape0(void){ u64 shape[2] = {1, 1}, idx[4] = {0}, ls[4] = {7,7,7,7}, es[4] = {7,7,7,7}, ld = 9, ed = 9; u32 data[CELLS] = {0}, p[16] = {0}, lv = 0, ev = 0; u64 nd = 0;
  data[0] = in_any32();
  int r = KN(k_ev_reshape0)(ARGS);
  ASSERT(r == 1, "both sides exist (NumPy accepts the empty target for a single element)");
  ASSERT(ld == 0 && ed == 0, "dim(eval(v)) == dim(v) == 0");
  ASSERT(lv == data[0] && ev == lv, "the 0-d result holds the element");
  OBS(r); OBS(ev); REACHED(); }
#if RES == 1 || RES == 2
FRONT(transpose) FRONT(flip)
#endif
EV(transpose) EV(transpose_none) EV(reshape_b) EV(reshape) EV(flatten) EV(flip) EV(slice) EV(tile) EV(pad) EV(invert) EV(add_scalar) EV(sum)
EV(flip_transpose) EV(reshape_flip) EV(sum_transpose) EV(add_scalar_transpose) EV(transpose_add_scalar) EV(flatten_pad) EV(invert_flip)
EV(slice_transpose) EV(transpose_slice) EV(sum_add_scalar)
EV(invert_flip_reshape) EV(transpose_flip_slice) EV(reshape_flip_pad)
OUTP(transpose) OUTP(flip) OUTP(invert) OUTP(flip_transpose)
#if RES == 1 || RES == 2
OUTP(sum)
#endif
CL(flip_transpose) CL(invert_flip) CL(slice_transpose) CL(sum_transpose) CL(transpose_add_scalar)
