/* C10: eager evaluation returns exactly the lazy view (shape and every element), for the three result resolvers:
 *   RES=0  array::eval(view) with its default resolver (eval_t)
 *   RES=1  eval(view, None, None, RowMajorResolver)     - what every array::fn front end passes
 *   RES=2  eval(view, None, None, ColumnMajorResolver)
 * The oracle is differential (eager vs lazy, computed by the same kernel call on the same symbolic inputs); the harness
 * additionally pins the lazy shape to the NumPy shape so that the symbolic result index ranges over the whole result. */
#include "harness.h"
#ifndef RES
#define RES 1
#endif
#if RES == 0
#include "C10_eval_old.h"
#define KN(n) n##_old
#elif RES == 1
#include "C10_eval_row.h"
#define KN(n) n##_row
#else
#include "C10_eval_col.h"
#define KN(n) n##_col
#endif
#ifndef MAXE
#define MAXE 3
#endif
#define CELLS 16
#define LOCALS u64 shape[2], idx[4] = {0}, ls[4] = {0}, es[4] = {0}, ld = 0, ed = 0, ex[4] = {0}; u32 data[CELLS], p[8] = {0}, lv = 0, ev = 0; \
  in_shape(shape, 2); in_data(data, MAXE*MAXE); u64 n0 = shape[0], n1 = shape[1], numel = n0 * n1; (void)numel;
#define ARGS shape, data, p, idx, nd, ls, &ld, &lv, es, &ed, &ev
/* shape: symbolic 1..MAXE per extent, or a per-query constant (SH0,SH1) when the symbolic-shape query does not return */
#ifdef SH0
static void in_shape(u64* s, int n){ (void)n; s[0] = in_u64(SH0, SH0); s[1] = in_u64(SH1, SH1); }
#else
static void in_shape(u64* s, int n){ for (int i = 0; i < n; i++) s[i] = in_u64(1, MAXE); }
#endif
static void in_data(u32* d, int n){ for (int i = 0; i < n; i++) d[i] = in_any32(); }
/* index of length nd inside ex (entries beyond nd are 0) */
static void in_index(u64* idx, const u64* ex, u64 nd, u64 maxidx){ for (u64 i = 0; i < 4; i++){ idx[i] = i < nd ? in_u64(0, maxidx) : 0; ASSUME(i < nd ? idx[i] < ex[i] : 1); } }
static u64 norm(i32 v, u64 n){ return v < 0 ? (u64)(v + (i32)n) : (u64)v; }
static void check(int r, const u64* ex, u64 nd, const u64* ls, u64 ld, u32 lv, const u64* es, u64 ed, u32 ev){
  ASSERT(r == 1, "lazy view and eager result both exist and the index is inside both");
  ASSERT(ld == nd, "lazy dim == NumPy dim");
  ASSERT(ed == ld, "dim(eval(v)) == dim(v)");
  for (u64 i = 0; i < 4; i++) if (i < nd){ ASSERT(ls[i] == ex[i], "lazy shape == NumPy shape"); ASSERT(es[i] == ls[i], "shape(eval(v)) == shape(v)"); }
  ASSERT(ev == lv, "eval(v)(i) == v(i)");
  OBS(r); OBS(lv); OBS(ev);
}
static void in_perm2(u32* p){ i32 a = in_i32(0, 1); p[0] = (u32)a; p[1] = (u32)(1 - a); }

/* ---- depth 1 ---- */
#if RES != 0
void h_front_transpose(void){ LOCALS; u64 nd = 2; in_perm2(p);
  ex[0] = shape[p[0]]; ex[1] = shape[p[1]]; in_index(idx, ex, nd, MAXE - 1);
  int r = KN(k_front_transpose)(ARGS); check(r, ex, nd, ls, ld, lv, es, ed, ev); REACHED(); }
#endif
void h_ev_transpose(void){ LOCALS; u64 nd = 2; in_perm2(p);
  ex[0] = shape[p[0]]; ex[1] = shape[p[1]]; in_index(idx, ex, nd, MAXE - 1);
  int r = KN(k_ev_transpose)(ARGS); check(r, ex, nd, ls, ld, lv, es, ed, ev); REACHED(); }
void h_ev_transpose_none(void){ LOCALS; u64 nd = 2;
  ex[0] = n1; ex[1] = n0; in_index(idx, ex, nd, MAXE - 1);
  int r = KN(k_ev_transpose_none)(ARGS); check(r, ex, nd, ls, ld, lv, es, ed, ev); REACHED(); }
/* valid reshape target of nd entries (one -1 allowed): returns the expected shape in ex */
static u64 in_target(u32* q, u64* ex, u64 numel){
  u64 nd = in_u64(1, 4); int nneg = 0; u64 prod = 1;
  for (int i = 0; i < 4; i++){ i32 v = in_i32(-1, MAXE*MAXE); ASSUME(v != 0); q[i] = (u32)v; if ((u64)i < nd){ if (v == -1) nneg++; else prod *= (u64)v; } }
  ASSUME((nneg == 0 && prod == numel) || (nneg == 1 && numel % prod == 0));
  for (int i = 0; i < 4; i++) ex[i] = ((i32)q[i] == -1) ? numel / prod : (u64)(i32)q[i];
  return nd;
}
void h_ev_reshape(void){ LOCALS; u64 nd = in_target(p + 1, ex, numel); p[0] = (u32)nd;
  in_index(idx, ex, nd, MAXE*MAXE - 1);
  int r = KN(k_ev_reshape)(ARGS); check(r, ex, nd, ls, ld, lv, es, ed, ev); REACHED(); }
void h_ev_flatten(void){ LOCALS; u64 nd = 1;
  ex[0] = numel; in_index(idx, ex, nd, MAXE*MAXE - 1);
  int r = KN(k_ev_flatten)(ARGS); check(r, ex, nd, ls, ld, lv, es, ed, ev); REACHED(); }
void h_ev_flip(void){ LOCALS; u64 nd = 2; p[0] = (u32)in_i32(-2, 1);
  ex[0] = n0; ex[1] = n1; in_index(idx, ex, nd, MAXE - 1);
  int r = KN(k_ev_flip)(ARGS); check(r, ex, nd, ls, ld, lv, es, ed, ev); REACHED(); }
/* a[b0:e0:s0, b1:e1] with non-empty selections (empty selections: open finding of C05, excluded here because only the index domain depends on it) */
static void in_slice(u32* q, u64* ex, u64 n0, u64 n1){
  i32 b0 = in_i32(0, MAXE - 1), e0 = in_i32(1, MAXE), s0 = in_i32(1, 2), b1 = in_i32(0, MAXE - 1), e1 = in_i32(1, MAXE);
  ASSUME(b0 < e0 && (u64)e0 <= n0 && b1 < e1 && (u64)e1 <= n1);
  q[0] = (u32)b0; q[1] = (u32)e0; q[2] = (u32)s0; q[3] = (u32)b1; q[4] = (u32)e1;
  ex[0] = (u64)((e0 - b0 + s0 - 1) / s0); ex[1] = (u64)(e1 - b1);
}
void h_ev_slice(void){ LOCALS; u64 nd = 2; in_slice(p, ex, n0, n1); in_index(idx, ex, nd, MAXE - 1);
  int r = KN(k_ev_slice)(ARGS); check(r, ex, nd, ls, ld, lv, es, ed, ev); REACHED(); }
void h_ev_tile(void){ LOCALS; u64 nd = 2; p[0] = in_u32(1, 2); p[1] = in_u32(1, 2);
  ex[0] = n0 * p[0]; ex[1] = n1 * p[1];
#ifdef KF_C10_EVAL_DEFAULT_RESOLVER_CAPACITY
  ASSUME(!(ex[0] * ex[1] > CELLS));   /* result larger than the operand's buffer capacity */
#endif
  in_index(idx, ex, nd, 2*MAXE - 1);
  int r = KN(k_ev_tile)(ARGS); check(r, ex, nd, ls, ld, lv, es, ed, ev); REACHED(); }
void h_ev_pad(void){ LOCALS; u64 nd = 2; for (int i = 0; i < 4; i++) p[i] = in_u32(0, 1); p[4] = in_any32();
  ex[0] = n0 + p[0] + p[2]; ex[1] = n1 + p[1] + p[3];
#ifdef KF_C10_EVAL_DEFAULT_RESOLVER_CAPACITY
  ASSUME(!(ex[0] * ex[1] > CELLS));
#endif
  in_index(idx, ex, nd, MAXE + 1);
  int r = KN(k_ev_pad)(ARGS); check(r, ex, nd, ls, ld, lv, es, ed, ev); REACHED(); }
void h_ev_square(void){ LOCALS; u64 nd = 2;
  ex[0] = n0; ex[1] = n1; in_index(idx, ex, nd, MAXE - 1);
  int r = KN(k_ev_square)(ARGS); check(r, ex, nd, ls, ld, lv, es, ed, ev); REACHED(); }
void h_ev_add_scalar(void){ LOCALS; u64 nd = 2; p[0] = in_any32();
  ex[0] = n0; ex[1] = n1; in_index(idx, ex, nd, MAXE - 1);
  int r = KN(k_ev_add_scalar)(ARGS); check(r, ex, nd, ls, ld, lv, es, ed, ev); REACHED(); }
void h_ev_sum(void){ LOCALS; u64 nd = 1; i32 ax = in_i32(-2, 1); p[0] = (u32)ax;
  ex[0] = norm(ax, 2) == 0 ? n1 : n0; in_index(idx, ex, nd, MAXE - 1);
  int r = KN(k_ev_sum)(ARGS); check(r, ex, nd, ls, ld, lv, es, ed, ev); REACHED(); }
