/* C09 "ctargs": compile-time ARGUMENTS on FIXED-shape operands vs the same values as run-time arguments on a hybrid operand.
 * Per query the constant K selects one compile-time instantiation (types cannot be symbolic); data and the index are symbolic.
 * Every harness asserts: both fixed kinds (raw C array, nested std::array) and the run-time call produce a view, with the same
 * dim / shape / size, the shape being the NumPy shape written here as reference, and the same element at the symbolic index
 * (plus, where it is a one-liner, the NumPy element). */
#include "harness.h"
#ifndef FAM
#define FAM 1
#endif
#ifndef K
#define K 0
#endif
typedef struct { int r; u64 s[8]; u64 m[7]; u32 e; } res_t;   /* s[0..3] shape(), s[4..7] shape<true>(); m: len(shape), dim(), size(), then the same three through the <true> (constant-preferring) forms, fixed-trait mask */
#define RES0 {0, {0,0,0,0,0,0,0,0}, {0,0,0,0,0,0,0}, 0}
#define OUT(x) (x).s, (x).m, &(x).e
static u64 idx[8];
/* symbolic index inside the REFERENCE shape (never inside a shape reported by the library) */
static void pick_index(const u64* ref, u64 rdim){
  for (int i = 0; i < 4; i++) idx[i] = in_u64(0, 23) & 31;   /* the mask is a no-op on 0..23; it makes the upper 59 bits constant zeros in the encoding (64-bit index arithmetic and divisions inside the views become cheap) */
  for (int i = 0; i < 4; i++) if ((u64)i < rdim) ASSUME(idx[i] < ref[i]);
}
static void data(u32* d, int n){ for (int i = 0; i < n; i++) d[i] = in_any32(); }
static void agree(const res_t* c, const res_t* r, const u64* ref, u64 rdim){
  u64 sz = 1;
  ASSERT(c->r == 1, "compile-time arguments on the fixed-shape operand: a view with an element at the index");
  ASSERT(r->r == 1, "run-time arguments on the hybrid operand: a view with an element at the index");
  ASSERT(c->m[0] == rdim && r->m[0] == rdim, "len(shape) equals NumPy's ndim on both sides");
  ASSERT(c->m[1] == rdim && r->m[1] == rdim, "dim() equals NumPy's ndim on both sides");
  for (int i = 0; i < 4; i++) if ((u64)i < rdim){
    ASSERT(c->s[i] == ref[i], "compile-time side: shape equals the NumPy shape");
    ASSERT(r->s[i] == ref[i], "run-time side: shape equals the NumPy shape");
    sz *= ref[i];
  }
  ASSERT(c->m[2] == sz && r->m[2] == sz, "size() equals the product of the NumPy shape on both sides");
  /* the constant-preferring forms (integral constants computed in the type system where available) give the same values */
  ASSERT(c->m[3] == rdim && c->m[4] == rdim && c->m[5] == sz, "compile-time side: len(shape<true>), dim<true>, size<true> equal NumPy's");
  ASSERT(r->m[3] == rdim && r->m[4] == rdim && r->m[5] == sz, "run-time side: len(shape<true>), dim<true>, size<true> equal NumPy's");
  for (int i = 0; i < 4; i++) if ((u64)i < rdim) ASSERT(c->s[4+i] == ref[i] && r->s[4+i] == ref[i], "shape<true>() equals the NumPy shape on both sides");
  OBS(c->m[6]); OBS(r->m[6]);
  ASSERT(c->e == r->e, "same element for compile-time and run-time arguments");
  OBS(c->e); OBS(r->e); OBS(c->m[2]);
}
/* MIX (default 1): besides [constant arguments, fixed shape] (c0 raw C array, c1 nested std::array) vs [run-time arguments, hybrid operand] (r),
 * also the two mixed calls: m0 = constant arguments on the HYBRID operand, m1 = run-time arguments on the RAW array. All five must agree and match NumPy. */
#ifndef MIX
#define MIX 1
#endif
/* MIX 0: neither mixed call, 2: only m0 (constant arguments, hybrid operand) - for the views whose run-time-argument call is the expensive one for the solver */
#define MIX_CT (MIX == 1 || MIX == 2)
#define MIX_RT (MIX == 1)
#define CTCALL(f, rdim, ...) res_t c0 = RES0, c1 = RES0, m0 = RES0, m1 = RES0, r = RES0; \
  c0.r = f(0, K, __VA_ARGS__, idx, rdim, OUT(c0)); c1.r = f(1, K, __VA_ARGS__, idx, rdim, OUT(c1)); if (MIX_CT) m0.r = f(2, K, __VA_ARGS__, idx, rdim, OUT(m0))
#define CTBOTH(NAME, rdim) CTCALL(k_ct_##NAME, rdim, d)
#define RT(f, rdim, ...) do { r.r = f(1, __VA_ARGS__, idx, rdim, OUT(r)); if (MIX_RT) m1.r = f(0, __VA_ARGS__, idx, rdim, OUT(m1)); } while (0)
#define AGREE(rdim) do { agree(&c0, &r, ref, rdim); agree(&c1, &r, ref, rdim); if (MIX_CT) agree(&m0, &r, ref, rdim); if (MIX_RT) agree(&m1, &r, ref, rdim); } while (0)
static const u64 SH232[3] = {2,3,2}, SH23[2] = {2,3}, SH213[3] = {2,1,3};
#define AT232(i,j,k) d[((i)*3 + (j))*2 + (k)]

#if FAM == 1
#include "C09_ctargs_flip.h"
/* flip(a (2,3,2), axis): K 0..5 single axis 0,1,2,-1,-2,-3; 6 None; 7 (0,2); 8 (-1,1). NumPy: shape kept, index mirrored on the listed axes */
void h_ctargs_flip(void){
  static const i32 ax[6] = {0,1,2,-1,-2,-3};
  static const u32 mask[9] = {1,2,4,4,2,1,7,5,6};
  u32 d[12]; data(d, 12);
  u64 ref[4] = {2,3,2,0};
  pick_index(ref, 3);
  CTBOTH(flip, 3);
#if K < 6
  RT(k_rt_flip, 3, SH232, d, (u32)ax[K]);
#elif K == 6
  RT(k_rt_flip_none, 3, SH232, d);
#else
  u32 axes[2] = { K == 7 ? 0 : (u32)-1, K == 7 ? 2 : 1 };
  RT(k_rt_flip2, 3, SH232, d, axes);
#endif
  AGREE(3);
  u64 i = mask[K] & 1 ? 1 - idx[0] : idx[0], j = mask[K] & 2 ? 2 - idx[1] : idx[1], k = mask[K] & 4 ? 1 - idx[2] : idx[2];
  ASSERT(c0.e == AT232(i,j,k), "flip element (NumPy)");
  REACHED();
}
#endif

/* the six permutations of three axes */
static const u32 PERM[6][3] = {{0,1,2},{0,2,1},{1,0,2},{1,2,0},{2,0,1},{2,1,0}};

#if FAM == 2
#include "C09_ctargs_transpose.h"
/* transpose(a (2,3,2), axes): K 0..5 the six permutations as tuples of constants, 6 default (reversed). NumPy: out.shape[i] = shape[axes[i]] */
void h_ctargs_transpose(void){
  u32 d[12]; data(d, 12);
  const u32* p = PERM[K == 6 ? 5 : K];
  u64 ref[4] = {0,0,0,0}, src[3];
  for (int i = 0; i < 3; i++) ref[i] = SH232[p[i]];
  pick_index(ref, 3);
  for (int i = 0; i < 3; i++) src[p[i]] = idx[i];
  CTBOTH(transpose, 3);
#if K == 6
  RT(k_rt_transpose_default, 3, SH232, d);
#else
  RT(k_rt_transpose, 3, SH232, d, p);
#endif
  AGREE(3);
  ASSERT(c0.e == AT232(src[0],src[1],src[2]), "transpose element (NumPy)");
  REACHED();
}
#endif

#if FAM == 3
#include "C09_ctargs_moveaxis.h"
/* moveaxis(a (2,3,2), source, destination): NumPy: order = [n for n in range(3) if n != s]; order.insert(d, s); transpose(order) */
void h_ctargs_moveaxis(void){
  static const i32 S[11] = {0,0,1,2,1,2,0,-1,-2,-3,1}, D[11] = {1,2,0,0,2,1,-1,0,-1,-2,1};
  u32 d[12]; data(d, 12);
  u32 s = S[K] < 0 ? S[K] + 3 : S[K], t = D[K] < 0 ? D[K] + 3 : D[K], p[3], n = 0;
  for (u32 i = 0; i < 3; i++){ if (i == t) p[i] = s; else { if (n == s) n++; p[i] = n++; } }
  u64 ref[4] = {0,0,0,0}, src[3];
  for (int i = 0; i < 3; i++) ref[i] = SH232[p[i]];
  pick_index(ref, 3);
  for (int i = 0; i < 3; i++) src[p[i]] = idx[i];
  CTBOTH(moveaxis, 3);
  RT(k_rt_moveaxis, 3, SH232, d, (u32)S[K], (u32)D[K]);
  AGREE(3);
  ASSERT(c0.e == AT232(src[0],src[1],src[2]), "moveaxis element (NumPy)");
  REACHED();
}
#endif

#if FAM == 4
#include "C09_ctargs_swapaxes.h"
/* swapaxes(a (2,3,2), axis1, axis2) */
void h_ctargs_swapaxes(void){
  static const i32 A1[8] = {0,0,1,2,-1,-2,1,1}, A2[8] = {1,2,2,0,0,-1,-3,1};
  u32 d[12]; data(d, 12);
  u32 a1 = A1[K] < 0 ? A1[K] + 3 : A1[K], a2 = A2[K] < 0 ? A2[K] + 3 : A2[K], p[3] = {0,1,2};
  p[a1] = a2; p[a2] = a1;
  u64 ref[4] = {0,0,0,0}, src[3];
  for (int i = 0; i < 3; i++) ref[i] = SH232[p[i]];
  pick_index(ref, 3);
  for (int i = 0; i < 3; i++) src[p[i]] = idx[i];
  CTBOTH(swapaxes, 3);
  RT(k_rt_swapaxes, 3, SH232, d, (u32)A1[K], (u32)A2[K]);
  AGREE(3);
  ASSERT(c0.e == AT232(src[0],src[1],src[2]), "swapaxes element (NumPy)");
  REACHED();
}
#endif

#if FAM == 5
#include "C09_ctargs_expand_dims.h"
/* expand_dims(a (2,3), axis): K 0..5 axis 0,1,2,-1,-2,-3 (normalised against ndim+1); 6 (0,2); 7 (1,3). NumPy: extent-1 axes at the listed result positions */
void h_ctargs_expand_dims(void){
  static const i32 ax[6] = {0,1,2,-1,-2,-3};
  static const u32 ones[8] = {1,2,4,4,2,1,5,10};        /* bit i set: result axis i is a new extent-1 axis */
  u32 d[6]; data(d, 6);
  u64 rdim = K < 6 ? 3 : 4, ref[4] = {0,0,0,0}, src[2] = {0,0}; u32 n = 0;
  for (u32 i = 0; i < 4; i++) if (i < rdim) ref[i] = (ones[K] >> i) & 1 ? 1 : SH23[n++];
  pick_index(ref, rdim);
  n = 0; for (u32 i = 0; i < 4; i++) if (i < rdim && !((ones[K] >> i) & 1)) src[n++] = idx[i];
  CTBOTH(expand_dims, rdim);
#if K < 6
  RT(k_rt_expand_dims, rdim, SH23, d, (u32)ax[K]);
#else
  u32 axes[2] = { K == 6 ? 0 : 1, K == 6 ? 2 : 3 };
  RT(k_rt_expand_dims2, rdim, SH23, d, axes);
#endif
  AGREE(rdim);
  ASSERT(c0.e == d[src[0]*3 + src[1]], "expand_dims element (NumPy)");
  REACHED();
}
#endif

#if FAM == 6
#include "C09_ctargs_squeeze.h"
/* squeeze of a fixed (2,1,3) [K 0], (1,2,3) [K 1], (2,3,1) [K 2] operand -> (2,3): the fixed shape is the compile-time input (squeeze takes no argument) */
void h_ctargs_squeeze(void){
  static const u64 SH123[3] = {1,2,3}, SH231[3] = {2,3,1};
  u32 d[6]; data(d, 6);
  u64 ref[4] = {2,3,0,0};
  pick_index(ref, 2);
#if K == 0
  CTCALL(k_ct_squeeze, 2, d); RT(k_rt_squeeze, 2, SH213, d);
#elif K == 1
  CTCALL(k_ct_squeeze123, 2, d); RT(k_rt_squeeze123, 2, SH123, d);
#else
  CTCALL(k_ct_squeeze231, 2, d); RT(k_rt_squeeze231, 2, SH231, d);
#endif
  AGREE(2);
  ASSERT(c0.e == d[idx[0]*3 + idx[1]], "squeeze element (NumPy)");
  REACHED();
}
#endif

#if FAM == 7
#include "C09_ctargs_reshape.h"
/* reshape(a (2,3,2), target): tuples of constants, one entry may be -1 */
void h_ctargs_reshape(void){
  static const i32 T[9][4] = {{12,0,0,0},{3,4,0,0},{4,3,0,0},{2,2,3,0},{-1,0,0,0},{-1,4,0,0},{6,-1,0,0},{3,-1,2,0},{1,12,1,1}};
  static const u64 ND[9] = {1,2,2,3,1,2,2,3,4};
  static const u64 R[9][4] = {{12,0,0,0},{3,4,0,0},{4,3,0,0},{2,2,3,0},{12,0,0,0},{3,4,0,0},{6,2,0,0},{3,2,2,0},{1,12,1,1}};   /* NumPy: -1 = 12 / product of the others */
  u32 d[12]; data(d, 12);
  u64 rdim = ND[K], ref[4], flat = 0; u32 t[4];
  for (int i = 0; i < 4; i++){ ref[i] = R[K][i]; t[i] = (u32)T[K][i]; }
  pick_index(ref, rdim);
  for (int i = 0; i < 4; i++) if ((u64)i < rdim) flat = flat * ref[i] + idx[i];
  CTBOTH(reshape, rdim);
  RT(k_rt_reshape, rdim, SH232, d, t, rdim);
  AGREE(rdim);
  ASSERT(c0.e == d[flat], "reshape element: same row-major position (NumPy)");
  REACHED();
}
#endif

#if FAM == 8
#include "C09_ctargs_atleast_nd.h"
/* atleast_nd(a (2,3), nd): NumPy atleast_1d/2d/3d generalised: ones are prepended up to nd */
void h_ctargs_atleast_nd(void){
  u32 d[6]; data(d, 6);
  u64 nd = K + 1, rdim = nd < 2 ? 2 : nd, ref[4] = {0,0,0,0};
  for (u64 i = 0; i < 4; i++) if (i < rdim) ref[i] = i + 2 < rdim ? 1 : SH23[i + 2 - rdim];
  pick_index(ref, rdim);
  CTBOTH(atleast_nd, rdim);
  RT(k_rt_atleast_nd, rdim, SH23, d, nd);
  AGREE(rdim);
  ASSERT(c0.e == d[idx[rdim-2]*3 + idx[rdim-1]], "atleast_nd element (NumPy)");
  REACHED();
}
#endif

#if FAM == 9
#include "C09_ctargs_tile.h"
/* tile(a (2,3), reps): NumPy: shape and reps are left-padded with ones to a common length, out = shape * reps, element index taken modulo the source extent */
void h_ctargs_tile(void){
  static const u64 REPS[7][4] = {{2,0,0,0},{1,2,0,0},{2,1,0,0},{2,2,0,0},{2,1,2,0},{1,1,0,0},{3,1,1,2}};
  static const u64 NR[7] = {1,2,2,2,3,2,4};
  u32 d[6]; data(d, 6);
  u64 nr = NR[K], rdim = nr < 2 ? 2 : nr, ref[4] = {0,0,0,0}, reps[4];
  for (u64 i = 0; i < 4; i++){ reps[i] = REPS[K][i];
    if (i < rdim){ u64 sh = i + 2 < rdim ? 1 : SH23[i + 2 - rdim], rp = i + nr < rdim ? 1 : REPS[K][i + nr - rdim]; ref[i] = sh * rp; } }
  pick_index(ref, rdim);
  CTBOTH(tile, rdim);
  RT(k_rt_tile, rdim, SH23, d, reps, nr);
  AGREE(rdim);
  ASSERT(c0.e == d[(idx[rdim-2] % 2)*3 + idx[rdim-1] % 3], "tile element (NumPy)");
  REACHED();
}
#endif

#if FAM == 10
#include "C09_ctargs_repeat.h"
/* repeat(a (2,3), repeats, axis): K 0..4 scalar repeats with axis 0,1,-1,-2,0; 5 axis None (flattened); 6..8 one count per element along the axis */
void h_ctargs_repeat(void){
  static const u64 REP[6] = {2,2,3,2,1,2}; static const i32 AX[9] = {0,1,-1,-2,0,0,0,1,-1};
  static const u64 EACH[3][4] = {{1,2,0,0},{2,1,3,0},{2,1,3,0}}, NE[3] = {2,3,3}, TOT[3] = {3,6,6};
  static const u64 MAP[3][6] = {{0,1,1,0,0,0},{0,0,1,2,2,2},{0,0,1,2,2,2}};   /* result position -> source position along the axis */
  u32 d[6]; data(d, 6);
  u64 ax = AX[K] < 0 ? AX[K] + 2 : AX[K], rdim = K == 5 ? 1 : 2, ref[4] = {2,3,0,0}, src[2];
#if K < 5
  ref[ax] *= REP[K];
#elif K == 5
  ref[0] = 12; ref[1] = 0;
#else
  ref[ax] = TOT[K-6];
#endif
  pick_index(ref, rdim);
  CTBOTH(repeat, rdim);
#if K < 5
  RT(k_rt_repeat, rdim, SH23, d, REP[K], (u32)AX[K]);
  src[0] = idx[0]; src[1] = idx[1]; src[ax] /= REP[K];
#elif K == 5
  RT(k_rt_repeat_flat, rdim, SH23, d, 2);
  src[0] = idx[0] / 2 / 3; src[1] = idx[0] / 2 % 3;
#else
  RT(k_rt_repeat_each, rdim, SH23, d, EACH[K-6], NE[K-6], (u32)AX[K]);
  src[0] = idx[0]; src[1] = idx[1]; src[ax] = MAP[K-6][idx[ax]];
#endif
  AGREE(rdim);
  ASSERT(c0.e == d[src[0]*3 + src[1]], "repeat element (NumPy)");
  REACHED();
}
#endif

#if FAM == 11
#include "C09_ctargs_roll.h"
/* roll(a (2,3), shift, axis): NumPy: out[i] = a[(i - shift) mod n] along every listed axis (shifts of a repeated axis add up); axis None rolls the flattened array */
void h_ctargs_roll(void){
  static const i32 SHIFT[15] = {1,1,2,-1,-2,4,-5,3,-3,0,1,-8,0,1,0}, AX[15] = {0,1,-1,1,-1,1,1,-2,0,1,0,0,0,0,0};
  static const i32 S0[15] = {1,0,0,0,0,0,0,3,-3,0,0,0,1,1,1}, S1[15] = {0,1,2,-1,-2,4,-5,0,0,0,0,0,2,1,-4};   /* total shift per axis (non-flat variants) */
  u32 d[6]; data(d, 6);
  u64 ref[4] = {2,3,0,0};
  pick_index(ref, 2);
  CTBOTH(roll, 2);
#if K < 10
  RT(k_rt_roll, 2, SH23, d, (u32)SHIFT[K], (u32)AX[K]);
#elif K < 12
  RT(k_rt_roll_flat, 2, SH23, d, (u32)SHIFT[K]);
#elif K == 13
  u32 axes[2] = {1, 0};
  RT(k_rt_roll_axes_scalar, 2, SH23, d, 1, axes);
#else
  u32 sh[2] = { 1, K == 12 ? 2 : (u32)-4 }, axes[2] = { K == 12 ? 0 : (u32)-2, K == 12 ? 1 : (u32)-1 };
  RT(k_rt_roll_axes, 2, SH23, d, sh, axes);
#endif
  AGREE(2);
#if K == 10 || K == 11
  i64 p = ((((i64)(idx[0]*3 + idx[1]) - SHIFT[K]) % 6) + 6) % 6;
  ASSERT(c0.e == d[p], "roll of the flattened array (NumPy)");
#else
  i64 i = ((((i64)idx[0] - S0[K]) % 2) + 2) % 2, j = ((((i64)idx[1] - S1[K]) % 3) + 3) % 3;
  ASSERT(c0.e == d[i*3 + j], "roll element (NumPy)");
#endif
  REACHED();
}
#endif

#if FAM == 12
#include "C09_ctargs_take.h"
/* take(a (2,3), indices, axis): K 0..3 a fixed std::array of 4 SYMBOLIC entries (negative entries count from the end) with constant axis 0,1,-1,-2;
 * 4,5 constant indices (2,0,0,1) on axis 1,-1; 6 constant indices (1,1,0) on axis 0; 7 symbolic entries, axis None (flattened) */
void h_ctargs_take(void){
  static const i32 AX[8] = {0,1,-1,-2,1,-1,0,0};
  u32 d[6]; data(d, 6);
  i32 ind[4]; for (int i = 0; i < 4; i++) ind[i] = in_i32(-6, 5);
  u64 ax = AX[K] < 0 ? AX[K] + 2 : AX[K], n = K == 7 ? 6 : SH23[ax], ni = K == 6 ? 3 : 4, rdim = K == 7 ? 1 : 2, ref[4] = {2,3,0,0};
  if (K == 4 || K == 5){ ind[0] = 2; ind[1] = 0; ind[2] = 0; ind[3] = 1; }
  if (K == 6){ ind[0] = 1; ind[1] = 1; ind[2] = 0; ind[3] = 0; }
  for (int i = 0; i < 4; i++) ASSUME(ind[i] >= -(i32)n && ind[i] < (i32)n);
  if (K == 7) ref[0] = 4, ref[1] = 0; else ref[ax] = ni;
  pick_index(ref, rdim);
  CTCALL(k_ct_take, rdim, d, (u32*)ind);
#if K == 7
  RT(k_rt_take_flat, rdim, SH23, d, (u32*)ind, 4);
#else
  RT(k_rt_take, rdim, SH23, d, (u32*)ind, ni, (u32)AX[K]);
#endif
  AGREE(rdim);
  i32 t = ind[idx[K == 7 ? 0 : ax]]; u64 s = t < 0 ? t + n : t;
  u64 src[2] = {idx[0], idx[1]}; src[ax] = s;
  ASSERT(c0.e == (K == 7 ? d[s] : d[src[0]*3 + src[1]]), "take element (NumPy)");
  REACHED();
}
#endif

#if FAM == 13
#include "C09_ctargs_sum.h"
/* sum(a (2,3,2), axis, dtype None, initial None, keepdims): K 0..5 axis 0,1,2,-1,-2,-3; 6..8 keepdims True with axis 0,1,-1; 9 axis -2 keepdims False;
 * 10 axes (0,2); 11 axes (-1,0) keepdims True; 12 axes (1,-1) keepdims False; 13 None; 14 None keepdims True */
void h_ctargs_sum(void){
  static const i32 AX[10] = {0,1,2,-1,-2,-3,0,1,-1,-2};
  static const u32 RED[15] = {1,2,4,4,2,1,1,2,4,2,5,5,6,7,7}, KEEP[15] = {0,0,0,0,0,0,1,1,1,0,0,1,0,0,1};
  u32 d[12]; data(d, 12);
  u64 ref[4] = {0,0,0,0}, rdim = 0, pos[3] = {0,0,0};
  for (u32 i = 0; i < 3; i++){ if (!((RED[K] >> i) & 1)){ pos[i] = rdim; ref[rdim++] = SH232[i]; } else if (KEEP[K]){ pos[i] = rdim; ref[rdim++] = 1; } }
  pick_index(ref, rdim);
  CTBOTH(sum, rdim);
#if K < 10
  RT(k_rt_sum, rdim, SH232, d, (u32)AX[K], KEEP[K]);
#elif K < 13
  u32 axes[2] = { K == 10 ? 0 : K == 11 ? (u32)-1 : 1, K == 10 ? 2 : K == 11 ? 0 : (u32)-1 };
  RT(k_rt_sum2, rdim, SH232, d, axes, KEEP[K]);
#else
  RT(k_rt_sum_none, rdim, SH232, d, KEEP[K]);
#endif
  AGREE(rdim);
  u32 ex = 0;
  for (u64 i = 0; i < 2; i++) for (u64 j = 0; j < 3; j++) for (u64 k = 0; k < 2; k++){
    u64 c[3] = {i,j,k}; int m = 1;
    for (u32 t = 0; t < 3; t++) if (!((RED[K] >> t) & 1) && c[t] != idx[pos[t]]) m = 0;
    if (m) ex += AT232(i,j,k);
  }
  ASSERT(c0.e == ex, "sum element (NumPy, wrap-around arithmetic)");
  REACHED();
}
#endif

#if FAM == 14
#include "C09_ctargs_cumsum.h"
/* cumsum(a (2,3,2), axis 0,1,2,-1,-2,-3) */
void h_ctargs_cumsum(void){
  static const i32 AX[6] = {0,1,2,-1,-2,-3};
  u32 d[12]; data(d, 12);
  u64 ax = AX[K] < 0 ? AX[K] + 3 : AX[K], ref[4] = {2,3,2,0};
  pick_index(ref, 3);
  CTBOTH(cumsum, 3);
  RT(k_rt_cumsum, 3, SH232, d, (u32)AX[K]);
  AGREE(3);
  u32 ex = 0;
  for (u64 t = 0; t < 3; t++) if (t <= idx[ax]){ u64 c[3] = {idx[0],idx[1],idx[2]}; c[ax] = t; ex += AT232(c[0],c[1],c[2]); }
  ASSERT(c0.e == ex, "cumsum element (NumPy, wrap-around arithmetic)");
  REACHED();
}
#endif

#if FAM == 14
/* cumsum(a (2,3), axis 0,1,-1,-2) */
void h_ctargs_cumsum2(void){
  static const i32 AX[4] = {0,1,-1,-2};
  u32 d[6]; data(d, 6);
  u64 ax = AX[K] < 0 ? AX[K] + 2 : AX[K], ref[4] = {2,3,0,0};
  pick_index(ref, 2);
  CTBOTH(cumsum2, 2);
  RT(k_rt_cumsum2, 2, SH23, d, (u32)AX[K]);
  AGREE(2);
  u32 ex = 0;
  for (u64 t = 0; t < 3; t++) if (t <= idx[ax]){ u64 c[2] = {idx[0],idx[1]}; c[ax] = t; ex += d[c[0]*3 + c[1]]; }
  ASSERT(c0.e == ex, "cumsum element (NumPy, wrap-around arithmetic)");
  REACHED();
}
#endif

#if FAM == 15
#include "C09_ctargs_reduce_add.h"
/* reduce_add(a (2,3), axis [, dtype None, initial (symbolic), keepdims]): K 0..3 axis 0,1,-1,-2; 4 (0, init, True); 5 (-1, init, True); 6 (1, init, False);
 * 7 axes (0,1) init True; 8 axes (-1,-2) init False (a scalar) */
void h_ctargs_reduce_add(void){
  static const i32 AX[7] = {0,1,-1,-2,0,-1,1};
  static const u32 RED[9] = {1,2,2,1,1,2,2,3,3}, KEEP[9] = {0,0,0,0,1,1,0,1,0};
  u32 d[6]; data(d, 6); u32 init = in_any32();
  u64 ref[4] = {0,0,0,0}, rdim = 0, pos[2] = {0,0};
  for (u32 i = 0; i < 2; i++){ if (!((RED[K] >> i) & 1)){ pos[i] = rdim; ref[rdim++] = SH23[i]; } else if (KEEP[K]){ pos[i] = rdim; ref[rdim++] = 1; } }
  pick_index(ref, rdim);
  CTCALL(k_ct_reduce_add, rdim, d, init);
#if K < 4
  RT(k_rt_reduce_add, rdim, SH23, d, (u32)AX[K]);
#elif K < 7
  RT(k_rt_reduce_add_ik, rdim, SH23, d, (u32)AX[K], init, KEEP[K]);
#else
  u32 axes[2] = { K == 7 ? 0 : (u32)-1, K == 7 ? 1 : (u32)-2 };
  RT(k_rt_reduce_add2_ik, rdim, SH23, d, axes, init, KEEP[K]);
#endif
  AGREE(rdim);
  u32 ex = K < 4 ? 0 : init;
  for (u64 i = 0; i < 2; i++) for (u64 j = 0; j < 3; j++){
    u64 c[2] = {i,j}; int m = 1;
    for (u32 t = 0; t < 2; t++) if (!((RED[K] >> t) & 1) && c[t] != idx[pos[t]]) m = 0;
    if (m) ex += d[i*3 + j];
  }
  ASSERT(c0.e == ex, "reduce_add element: initial + sum (NumPy, wrap-around arithmetic)");
  REACHED();
}
#endif

#if FAM == 16
#include "C09_ctargs_diagonal.h"
/* diagonal(a (2,3,2), offset >= 0, axis1, axis2): NumPy: axis1 and axis2 removed, the diagonal of length max(0, min(n1, n2 - offset)) appended; out[..., i] = a[axis1 = i, axis2 = i + offset] */
void h_ctargs_diagonal(void){
  static const i32 OFF[12] = {0,0,1,2,0,1,0,1,0,1,0,1}, A1[12] = {0,0,0,0,1,1,0,0,1,1,-1,-3}, A2[12] = {1,1,1,1,0,0,2,2,2,-1,-2,-2};
  u32 d[12]; data(d, 12);
  u64 a1 = A1[K] < 0 ? A1[K] + 3 : A1[K], a2 = A2[K] < 0 ? A2[K] + 3 : A2[K], rest = 3 - a1 - a2, off = OFF[K];
  u64 n1 = SH232[a1], n2 = SH232[a2] - off, ref[4] = {SH232[rest], n1 < n2 ? n1 : n2, 0, 0};
  pick_index(ref, 2);
  CTBOTH(diagonal, 2);
  RT(k_rt_diagonal, 2, SH232, d, (u32)OFF[K], (u32)A1[K], (u32)A2[K]);
  AGREE(2);
  u64 c[3]; c[rest] = idx[0]; c[a1] = idx[1]; c[a2] = idx[1] + off;
  ASSERT(c0.e == AT232(c[0],c[1],c[2]), "diagonal element (NumPy)");
  REACHED();
}
#endif

#if FAM == 17
#include "C09_ctargs_tril.h"
/* tril / triu(a (2,3), k): K 0 default (k = 0), 1..6 k = 0,1,2,-1,-2,3. NumPy: tril keeps j <= i + k, triu keeps j >= i + k, zero elsewhere */
static const i32 TK[7] = {0,0,1,2,-1,-2,3};
void h_ctargs_tril(void){
  u32 d[6]; data(d, 6);
  u64 ref[4] = {2,3,0,0};
  pick_index(ref, 2);
  CTBOTH(tril, 2);
  RT(k_rt_tril, 2, SH23, d, (u32)TK[K]);
  AGREE(2);
  ASSERT(c0.e == ((i64)idx[1] <= (i64)idx[0] + TK[K] ? d[idx[0]*3 + idx[1]] : 0), "tril element (NumPy)");
  REACHED();
}
void h_ctargs_triu(void){
  u32 d[6]; data(d, 6);
  u64 ref[4] = {2,3,0,0};
  pick_index(ref, 2);
  CTBOTH(triu, 2);
  RT(k_rt_triu, 2, SH23, d, (u32)TK[K]);
  AGREE(2);
  ASSERT(c0.e == ((i64)idx[1] >= (i64)idx[0] + TK[K] ? d[idx[0]*3 + idx[1]] : 0), "triu element (NumPy)");
  REACHED();
}
#endif

#if FAM == 18
#include "C09_ctargs_eye.h"
/* eye / tri(N, M or None, k) with all three given as constants (no operand): NumPy eye: 1 where j == i + k; tri: 1 where j <= i + k */
static const u64 EN[10] = {2,2,2,2,3,3,3,3,3,1}, EM[10] = {3,3,3,3,2,2,0,0,0,4}; static const i32 EK[10] = {0,1,2,-1,-2,1,0,-1,2,3};
static const u32 ESV[10] = {0,0,0,0,1,1,2,2,2,3}, EKV[10] = {0,1,2,3,4,1,0,3,2,5};   /* shape variant of k_mixk_*, k variant (0,1,2,-1,-2,3) of k_mixn_* */
void h_ctargs_eye(void){
  u64 ref[4] = {EN[K], EM[K] ? EM[K] : EN[K], 0, 0};
  pick_index(ref, 2);
  res_t c0 = RES0, r = RES0, m0 = RES0, m1 = RES0;
  c0.r = k_ct_eye(K, idx, 2, OUT(c0));
  m0.r = k_mixk_eye(ESV[K], (u32)EK[K], idx, 2, OUT(m0));                       /* constant N, M; run-time k */
  m1.r = k_mixn_eye(2*EKV[K] + (EM[K] ? 0 : 1), EN[K], EM[K], idx, 2, OUT(m1));   /* run-time N, M; constant k */
  r.r = EM[K] ? k_rt_eye(EN[K], EM[K], (u32)EK[K], idx, 2, OUT(r)) : k_rt_eye_square(EN[K], (u32)EK[K], idx, 2, OUT(r));
  agree(&c0, &r, ref, 2); agree(&m0, &r, ref, 2); agree(&m1, &r, ref, 2);
  ASSERT(c0.e == ((i64)idx[1] == (i64)idx[0] + EK[K] ? 1 : 0), "eye element (NumPy)");
  REACHED();
}
void h_ctargs_tri(void){
  u64 ref[4] = {EN[K], EM[K] ? EM[K] : EN[K], 0, 0};
  pick_index(ref, 2);
  res_t c0 = RES0, r = RES0, m0 = RES0, m1 = RES0;
  c0.r = k_ct_tri(K, idx, 2, OUT(c0));
  m0.r = k_mixk_tri(ESV[K], (u32)EK[K], idx, 2, OUT(m0));                       /* constant N, M; run-time k */
  m1.r = k_mixn_tri(2*EKV[K] + (EM[K] ? 0 : 1), EN[K], EM[K], idx, 2, OUT(m1));   /* run-time N, M; constant k */
  r.r = EM[K] ? k_rt_tri(EN[K], EM[K], (u32)EK[K], idx, 2, OUT(r)) : k_rt_tri_square(EN[K], (u32)EK[K], idx, 2, OUT(r));
  agree(&c0, &r, ref, 2); agree(&m0, &r, ref, 2); agree(&m1, &r, ref, 2);
  ASSERT(c0.e == ((i64)idx[1] <= (i64)idx[0] + EK[K] ? 1 : 0), "tri element (NumPy)");
  REACHED();
}
#endif

#if FAM == 19
#include "C09_ctargs_pad.h"
/* pad(a (2,3), widths [before_0, before_1, after_0, after_1], value): NumPy constant mode: shape grows by before + after, the fill value outside the source */
void h_ctargs_pad(void){
  static const u64 W[7][4] = {{0,0,0,0},{1,0,0,0},{0,2,0,0},{0,0,1,0},{0,0,0,2},{1,2,0,1},{2,1,1,2}};
  u32 d[6]; data(d, 6); u32 value = in_any32();
  u64 ref[4] = {2 + W[K][0] + W[K][2], 3 + W[K][1] + W[K][3], 0, 0};
  pick_index(ref, 2);
  CTCALL(k_ct_pad, 2, d, value);
  RT(k_rt_pad, 2, SH23, d, W[K], value);
  AGREE(2);
  int inside = idx[0] >= W[K][0] && idx[0] < W[K][0] + 2 && idx[1] >= W[K][1] && idx[1] < W[K][1] + 3;
  ASSERT(c0.e == (inside ? d[(idx[0] - W[K][0])*3 + idx[1] - W[K][1]] : value), "pad element (NumPy)");
  REACHED();
}
#endif

#if FAM == 20
#include "C09_ctargs_slice.h"
/* slice(a (2,3), items with constant parts). Python reference per variant: result dim / shape, and the affine source position row = RB + RS*idx[RP], col = CB + CS*idx[CP] (P = 9: integer item, axis removed)
 * K: 0 [0:2:1,0:3:1]  1 [1:2:1,0:3:2]  2 [::1,::]  3 [:,1:]  4 [:,-2:]  5 [:1,:-1]  6 [1,::2]  7 [:,-1]  8 [...,1:3]  9 [0,...]  10 [-1::,::2]  11 [-2:-1:1,-3:-1:1] */
void h_ctargs_slice(void){
  static const u64 ND[12] = {2,2,2,2,2,2,1,1,2,1,2,2}, R[12][2] = {{2,3},{1,2},{2,3},{2,2},{2,2},{1,2},{2,0},{2,0},{2,2},{3,0},{1,2},{1,2}};
  static const u64 RB[12] = {0,1,0,0,0,0,1,0,0,0,1,0}, RS[12] = {1,1,1,1,1,1,0,1,1,0,1,1}, RP[12] = {0,0,0,0,0,0,9,0,0,9,0,0};
  static const u64 CB[12] = {0,0,0,1,1,0,0,2,1,0,0,0}, CS[12] = {1,2,1,1,1,1,2,0,1,1,2,1}, CP[12] = {1,1,1,1,1,1,0,9,1,0,1,1};
  static const i32 P[12][6] = {{0,2,1,0,3,1},{1,2,1,0,3,2},{0,0,1,0,0,0},{0,0,0,1,0,0},{0,0,0,-2,0,0},{0,1,0,0,-1,0},{1,0,0,0,0,2},{0,0,0,-1,0,0},{0,0,0,1,3,0},{0,0,0,0,0,0},{-1,0,0,0,0,2},{-2,-1,1,-3,-1,1}};
  u32 d[6]; data(d, 6);
  u64 rdim = ND[K], ref[4] = {R[K][0], R[K][1], 0, 0}; u32 p[6];
  for (int i = 0; i < 6; i++) p[i] = (u32)P[K][i];
  pick_index(ref, rdim);
  CTBOTH(slice, rdim);
#if K == 0 || K == 1 || K == 11
  RT(k_rt_slice_iii_iii, rdim, SH23, d, p);
#elif K == 2
  RT(k_rt_slice_nni_nnn, rdim, SH23, d, p);
#elif K == 3 || K == 4
  RT(k_rt_slice_nn_in, rdim, SH23, d, p);
#elif K == 5
  RT(k_rt_slice_ni_ni, rdim, SH23, d, p);
#elif K == 6
  RT(k_rt_slice_i_nni, rdim, SH23, d, p);
#elif K == 7
  RT(k_rt_slice_nn_i, rdim, SH23, d, p);
#elif K == 8
  RT(k_rt_slice_e_ii, rdim, SH23, d, p);
#elif K == 9
  RT(k_rt_slice_i_e, rdim, SH23, d, p);
#else
  RT(k_rt_slice_inn_nni, rdim, SH23, d, p);
#endif
  AGREE(rdim);
  u64 row = RB[K] + (RP[K] == 9 ? 0 : RS[K]*idx[RP[K]]), col = CB[K] + (CP[K] == 9 ? 0 : CS[K]*idx[CP[K]]);
  ASSERT(c0.e == d[row*3 + col], "slice element (Python)");
  REACHED();
}
#endif

#if FAM == 21
#include "C09_ctargs_gen.h"
/* arange with constant start / stop / step: K 0 (5)  1 (1)  2 (2,6)  3 (-2,3)  4 (1,8,3)  5 (0,6,2)  6 (0,7,3)  7 (-1,-7,-3). NumPy: length ceil((stop-start)/step), element start + i*step */
void h_ctargs_arange(void){
  static const i32 ST[8] = {0,0,2,-2,1,0,0,-1}, SP[8] = {5,1,6,3,8,6,7,-7}, SE[8] = {1,1,1,1,3,2,3,-3}; static const u64 LEN[8] = {5,1,4,5,3,3,3,2};
  u64 ref[4] = {LEN[K], 0, 0, 0};
  pick_index(ref, 1);
  res_t c0 = RES0, r = RES0;
  c0.r = k_ct_arange(K, idx, 1, OUT(c0));
#if K < 2
  r.r = k_rt_arange1((u32)SP[K], idx, 1, OUT(r));
#elif K < 4
  r.r = k_rt_arange2((u32)ST[K], (u32)SP[K], idx, 1, OUT(r));
#else
  r.r = k_rt_arange3((u32)ST[K], (u32)SP[K], (u32)SE[K], idx, 1, OUT(r));
#endif
  agree(&c0, &r, ref, 1);
  ASSERT(c0.e == (u32)(ST[K] + (i32)idx[0]*SE[K]), "arange element (NumPy)");
  REACHED();
}
/* full (K 0..3, symbolic value) / zeros (4..7) / ones (8..11) with the shape given as a tuple of constants: (2,3), (4), (2,1,3), (1,2,2,2) */
void h_ctargs_full(void){
  static const u64 FS[4][4] = {{2,3,0,0},{4,0,0,0},{2,1,3,0},{1,2,2,2}}, FD[4] = {2,1,3,4};
  u32 value = in_any32();
  u64 rdim = FD[K % 4], ref[4];
  for (int i = 0; i < 4; i++) ref[i] = FS[K % 4][i];
  pick_index(ref, rdim);
  res_t c0 = RES0, r = RES0;
  c0.r = k_ct_full(K, value, idx, rdim, OUT(c0));
#if K < 4
  r.r = k_rt_full(ref, rdim, value, idx, rdim, OUT(r));
#elif K < 8
  r.r = k_rt_zeros(ref, rdim, idx, rdim, OUT(r));
#else
  r.r = k_rt_ones(ref, rdim, idx, rdim, OUT(r));
#endif
  agree(&c0, &r, ref, rdim);
  ASSERT(c0.e == (K < 4 ? value : K < 8 ? 0 : 1), "full / zeros / ones element (NumPy)");
  REACHED();
}
#endif

#if FAM == 22
#include "C09_ctargs_broadcast_to.h"
/* broadcast_to(a, constant target): a (2,3) -> (2,3), (1,2,3), (2,2,3), (3,1,2,3); a (1,3) -> (1,3), (2,3), (4,3), (2,3,3) */
void h_ctargs_broadcast_to(void){
  static const u64 T[4][4] = {{2,3,0,0},{1,2,3,0},{2,2,3,0},{3,1,2,3}}, ND[4] = {2,3,3,4};
  u32 d[6]; data(d, 6);
  u64 rdim = ND[K], ref[4];
  for (int i = 0; i < 4; i++) ref[i] = T[K][i];
  pick_index(ref, rdim);
  CTBOTH(broadcast_to, rdim);
  RT(k_rt_broadcast_to, rdim, SH23, d, ref, rdim);
  AGREE(rdim);
  ASSERT(c0.e == d[idx[rdim-2]*3 + idx[rdim-1]], "broadcast_to element (NumPy)");
  REACHED();
}
void h_ctargs_broadcast_to13(void){
  static const u64 T[4][4] = {{1,3,0,0},{2,3,0,0},{4,3,0,0},{2,3,3,0}}, ND[4] = {2,2,2,3}, SH13[2] = {1,3};
  u32 d[3]; data(d, 3);
  u64 rdim = ND[K], ref[4];
  for (int i = 0; i < 4; i++) ref[i] = T[K][i];
  pick_index(ref, rdim);
  CTBOTH(broadcast_to13, rdim);
  RT(k_rt_broadcast_to13, rdim, SH13, d, ref, rdim);
  AGREE(rdim);
  ASSERT(c0.e == d[idx[rdim-1]], "broadcast_to element: the extent-1 axis is repeated (NumPy)");
  REACHED();
}
#endif

#if FAM == 23
#include "C09_ctargs_concatenate.h"
/* concatenate(a (2,3), b (2,3), axis): K 0 axis 0, 1 axis 1, 2 None (both flattened) */
void h_ctargs_concatenate(void){
  u32 d[6], e[6]; data(d, 6); data(e, 6);
  u64 rdim = K == 2 ? 1 : 2, ref[4] = {K == 0 ? 4 : K == 1 ? 2 : 12, K == 0 ? 3 : K == 1 ? 6 : 0, 0, 0};
  pick_index(ref, rdim);
  CTCALL(k_ct_concatenate, rdim, d, e);
#if K == 2
  RT(k_rt_concatenate_flat, rdim, SH23, d, e);
  u32 ex = idx[0] < 6 ? d[idx[0]] : e[idx[0] - 6];
#else
  RT(k_rt_concatenate, rdim, SH23, d, e, K);
  u32 ex = K == 0 ? (idx[0] < 2 ? d[idx[0]*3 + idx[1]] : e[(idx[0]-2)*3 + idx[1]]) : (idx[1] < 3 ? d[idx[0]*3 + idx[1]] : e[idx[0]*3 + idx[1] - 3]);
#endif
  AGREE(rdim);
  ASSERT(c0.e == ex, "concatenate element (NumPy)");
  REACHED();
}
#endif
