/* C04: np.split(a, sections | indices, axis): slice arguments of every piece (index level) and the pieces themselves (view level, compile-time section count) */
#include "C04_util.h"
#include "C04_split.h"
#ifndef SECTIONS
#define SECTIONS 2
#endif
#ifndef MAXSEC
#define MAXSEC 3
#endif
#define CAT4(a,b,c,d) a##b##c##d
#define CAT4X(a,b,c,d) CAT4(a,b,c,d)

/* split_args(shape, N, axis): N equal sections 1..MAXSEC dividing the extent; piece i covers [i*n/N, (i+1)*n/N) along axis and everything along the other axes */
void h_split_args(void){
  u64 shape[4] = {1,1,1,1}, out[6] = {0};
  in_shape(shape, DIM);
  i32 ax = in_i32(-DIM, DIM - 1); u64 an = norm_axis(ax, DIM);
  u64 n = SECTIONS; ASSUME(shape[an] % n == 0);      /* run-time argument of nmtools, a per-query constant here (the result is a std::vector) */
  u64 i = in_u64(0, SECTIONS - 1);
  u64 np = CAT(k_split_args, DIM)(shape, n, (u32)ax, i, out);
  ASSERT(np == n, "number of pieces == sections");
  u64 w = shape[an] / n;
  for (u64 j = 0; j < DIM; j++){
    ASSERT(out[j*2] == (j == an ? i*w : 0), "piece start");
    ASSERT(out[j*2 + 1] == (j == an ? (i + 1)*w : shape[j]), "piece stop");
  }
  OBS(np); OBS(out[0]); OBS(out[1]);
  REACHED();
}
/* split_args(shape, [i0,..], axis): 1..3 strictly increasing cut positions inside (0, n): pieces [0,i0), [i0,i1), ..., [ik,n) */
void h_split_args_at(void){
  u64 shape[4] = {1,1,1,1}, cut[3], out[6] = {0};
  for (int i = 0; i < DIM; i++) shape[i] = in_u64(1, MAXE + 1);
  i32 ax = in_i32(-DIM, DIM - 1); u64 an = norm_axis(ax, DIM);
  u64 nc = SECTIONS;                                  /* number of cut positions: per-query constant 1..3; the positions are symbolic */
  for (u64 i = 0; i < 3; i++){ cut[i] = in_u64(1, MAXE); ASSUME(i >= nc || (cut[i] < shape[an] && (i == 0 || cut[i-1] < cut[i]))); }
  u64 i = in_u64(0, SECTIONS);
  u64 np = CAT(k_split_args_at, DIM)(shape, cut, nc, (u32)ax, i, out);
  ASSERT(np == nc + 1, "number of pieces == len(indices) + 1");
  for (u64 j = 0; j < DIM; j++){
    ASSERT(out[j*2] == (j == an ? (i == 0 ? 0 : cut[i-1]) : 0), "piece start");
    ASSERT(out[j*2 + 1] == (j == an ? (i == nc ? shape[an] : cut[i]) : shape[j]), "piece stop");
  }
  OBS(np); OBS(out[0]); OBS(out[1]);
  REACHED();
}
/* view::split(a, SECTIONS (compile-time), axis): the piece `p` has extent n/SECTIONS along axis and element a[..., p*n/SECTIONS + i, ...] */
void h_split(void){
  u64 shape[4] = {1,1,1,1}, idx[4], os[4] = {0}, od = 0, ex[4] = {0}, src[4] = {0,0,0,0}; u32 data[CELLS], out = 0;
  in_shape(shape, DIM); in_data(data, NCELL);
  i32 ax = in_i32(-DIM, DIM - 1); u64 an = norm_axis(ax, DIM);
  ASSUME(shape[an] % SECTIONS == 0);
  u64 p = in_u64(0, SECTIONS - 1), w = shape[an] / SECTIONS;
  for (u64 k = 0; k < DIM; k++) ex[k] = (k == an) ? w : shape[k];
  in_index(idx, ex, DIM, MAXE - 1);
  int r = CAT4X(k_split, DIM, _, SECTIONS)(shape, data, (u32)ax, p, idx, DIM, os, &od, &out);
  ASSERT(r == 1, "split accepted");
  ASSERT(od == DIM, "dim kept");
  for (u64 k = 0; k < DIM; k++){ ASSERT(os[k] == ex[k], "piece shape[axis] == n / sections"); src[k] = idx[k] + (k == an ? p*w : 0); }
  ASSERT(out == data[horner(src, shape, DIM)], "piece element == a[..., p*n/sections + i, ...]");
  OBS(out);
  REACHED();
}
