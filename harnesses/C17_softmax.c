/* C17 softmax/softmin elements, STRUCTURAL: IEEE + - / and expf are uninterpreted (same symbols in the translated nmtools code and in the reference, which is
 * compiled through the same pipeline: k_ref_*). Decided: softmax(x, axis)[i] == exp(x[i] - m) / sum_j exp(x[j] - m) with m = the maximum of the slice
 * along the axis (PyTorch's numerically stable form; mathematically softmax), the sum taken in increasing index order. Shape (SH0,SH1) and AXIS are per-query constants. */
#include "harness.h"
#include "C17_softmax.h"
#include <math.h>
#ifndef NMV_NATIVE
float __CPROVER_uninterpreted_expf(float); float expf(float x){ return __CPROVER_uninterpreted_expf(x); }
#endif
static int same_f(float a, float b){ return (a != a && b != b) || f32_bits(a) == f32_bits(b); }
#ifndef MIN
#define MIN 0
#endif
void h_softmax_el(void){
  u64 s[2] = {SH0, SH1}, idx[2], os[4] = {0}, od = 0; float d[9] = {0}, out = 0;
  for (int i = 0; i < SH0*SH1; i++){ i32 v = in_i32(-200, 200); d[i] = (float)v; }      /* integer-valued data, incl. slices of negative values only */
  idx[0] = in_u64(0, SH0 - 1); idx[1] = in_u64(0, SH1 - 1);
  i32 ax = AXIS; u64 an = ax < 0 ? (u64)(ax + 2) : (u64)ax, N = s[an];
  int r = MIN ? k_softmin_el(s, d, (u32)ax, idx, os, &od, &out) : k_softmax_el(s, d, (u32)ax, idx, os, &od, &out);
  ASSERT(r == 1 && od == 2 && os[0] == s[0] && os[1] == s[1], "softmax keeps the shape");
#define X(k) (MIN ? k_ref_neg_f32(d[an == 0 ? (k)*s[1] + idx[1] : idx[0]*s[1] + (k)]) : d[an == 0 ? (k)*s[1] + idx[1] : idx[0]*s[1] + (k)])
  float m = X(0); for (u64 k = 1; k < 3; k++) if (k < N){ float v = X(k); m = m > v ? m : v; }        /* maximum of the slice itself (no implicit 0) */
  float sum = 0; for (u64 k = 0; k < 3; k++) if (k < N){ float e = expf(k_ref_fsub_f32(X(k), m)); sum = k == 0 ? e : k_ref_fadd_f32(sum, e); }
  float want = k_ref_fdiv_f32(expf(k_ref_fsub_f32(X(idx[an]), m)), sum);
  ASSERT(same_f(out, want), "softmax[i] == exp(x[i] - max) / sum exp(x[j] - max) over the axis");
  OBS(f32_bits(out)); REACHED();
}
