/* C08 front ends: sum, prod, amax, amin, cumsum, cumprod, trace agree with the fold definitions (unsigned data); mean/var/stddev/vector_norm on float data */
#include "harness.h"
#include "C08_front.h"
#include "C08_ref.h"
/* known finding (props/C08.py PENDING_FINDINGS): accumulate_t compares the raw axis with the loop index, so a NEGATIVE axis selects no axis and the
 * view returns the source element unchanged (cumsum(a,-1) == a) */
#ifdef KF_C08_ACCUM_NEGATIVE_AXIS
#define KF_ACC(ax) ASSUME(!((ax) < 0))
#else
#define KF_ACC(ax) ((void)0)
#endif
#define DECL u64 shape[3], idx[4], os[4] = {0}, od = 77, ex[4]; u32 data[CELLS], out = 0; in_shape3(shape); in_data(data, MAXE*MAXE*MAXE)
#define ARGS idx, nd, os, &od, &out
#define SHAPE_OK(nd) do { ASSERT(r == 1, "accepted, index length == result dim"); ASSERT(od == nd, "result dim == NumPy"); for (u64 k = 0; k < 4; k++) if (k < nd) ASSERT(os[k] == ex[k], "result shape == NumPy"); } while (0)
void h_sum_axis(void){ DECL; i32 ax = IN_AXIS(); u32 m = 1u << norm(ax, 3); u64 nd = ref_shape(shape, m, 0, ex); in_index(idx, ex, nd);
  int r = k_sum_axis(shape, data, (u32)ax, ARGS); SHAPE_OK(nd);
  ASSERT(out == ref_fold(shape, data, m, 0, idx, 1, 0, 0), "sum(axis) == add-fold of the matching elements (mod 2^32)"); OBS(out); REACHED(); }
void h_sum_none(void){ DECL; u64 nd = 0; for (int k = 0; k < 4; k++){ idx[k] = 0; ex[k] = 0; }
  int r = k_sum_none(shape, data, ARGS); SHAPE_OK(nd);
  ASSERT(out == ref_fold(shape, data, 7u, 0, idx, 1, 0, 0), "sum(None) == add-fold of all elements"); OBS(out); REACHED(); }
void h_sum_axis_init_keep(void){ DECL; i32 ax = IN_AXIS(); u32 m = 1u << norm(ax, 3); u32 init = in_any32(); int keep = IN_KEEP(); u64 nd = ref_shape(shape, m, keep, ex); in_index(idx, ex, nd);
  int r = k_sum_axis_init_keep(shape, data, (u32)ax, init, (u32)keep, ARGS); SHAPE_OK(nd);
  ASSERT(out == ref_fold(shape, data, m, keep, idx, 1, 1, init), "sum(axis, initial, keepdims)"); OBS(out); REACHED(); }
/* products: data restricted to 8-bit values (stated bound: 32x32-bit multiplier equivalence gives no verdict) */
static void small_data(u32* d, int n){ for (int i = 0; i < n; i++) ASSUME(d[i] < 256); }
void h_prod_axis(void){ DECL; small_data(data, MAXE*MAXE*MAXE); i32 ax = IN_AXIS(); u32 m = 1u << norm(ax, 3); u64 nd = ref_shape(shape, m, 0, ex); in_index(idx, ex, nd);
  int r = k_prod_axis(shape, data, (u32)ax, ARGS); SHAPE_OK(nd);
  ASSERT(out == ref_fold(shape, data, m, 0, idx, 2, 0, 0), "prod(axis) == multiply-fold of the matching elements"); OBS(out); REACHED(); }
static u32 ref_minmax(const u64* shape, const u32* data, u32 mask, const u64* idx, int want_max){
  u64 fixed[3]; u64 j = 0; for (int k = 0; k < 3; k++){ if ((mask >> k) & 1) fixed[k] = 0; else fixed[k] = idx[j++]; }
  u32 acc = 0; int first = 1;
  for (u64 i0 = 0; i0 < MAXE; i0++) for (u64 i1 = 0; i1 < MAXE; i1++) for (u64 i2 = 0; i2 < MAXE; i2++){
    int in0 = (mask & 1) ? i0 < shape[0] : i0 == 0, in1 = (mask & 2) ? i1 < shape[1] : i1 == 0, in2 = (mask & 4) ? i2 < shape[2] : i2 == 0;
    if (in0 && in1 && in2){ u64 c0 = (mask & 1) ? i0 : fixed[0], c1 = (mask & 2) ? i1 : fixed[1], c2 = (mask & 4) ? i2 : fixed[2];
      u32 e = data[(c0*shape[1] + c1)*shape[2] + c2];
      if (first){ acc = e; first = 0; } else if (want_max ? e > acc : e < acc) acc = e; } }
  return acc;
}
void h_amax_axis(void){ DECL; i32 ax = IN_AXIS(); u32 m = 1u << norm(ax, 3); u64 nd = ref_shape(shape, m, 0, ex); in_index(idx, ex, nd);
  int r = k_amax_axis(shape, data, (u32)ax, ARGS); SHAPE_OK(nd);
  ASSERT(out == ref_minmax(shape, data, m, idx, 1), "amax(axis) == largest of the matching elements"); OBS(out); REACHED(); }
void h_amin_axis(void){ DECL; i32 ax = IN_AXIS(); u32 m = 1u << norm(ax, 3); u64 nd = ref_shape(shape, m, 0, ex); in_index(idx, ex, nd);
  int r = k_amin_axis(shape, data, (u32)ax, ARGS); SHAPE_OK(nd);
  ASSERT(out == ref_minmax(shape, data, m, idx, 0), "amin(axis) == smallest of the matching elements"); OBS(out); REACHED(); }
/* signed variants: the same reference with a signed comparison */
static u32 ref_minmax_i32(const u64* shape, const u32* data, u32 mask, const u64* idx, int want_max){
  u64 fixed[3]; u64 j = 0; for (int k = 0; k < 3; k++){ if ((mask >> k) & 1) fixed[k] = 0; else fixed[k] = idx[j++]; }
  i32 acc = 0; int first = 1;
  for (u64 i0 = 0; i0 < MAXE; i0++) for (u64 i1 = 0; i1 < MAXE; i1++) for (u64 i2 = 0; i2 < MAXE; i2++){
    int in0 = (mask & 1) ? i0 < shape[0] : i0 == 0, in1 = (mask & 2) ? i1 < shape[1] : i1 == 0, in2 = (mask & 4) ? i2 < shape[2] : i2 == 0;
    if (in0 && in1 && in2){ u64 c0 = (mask & 1) ? i0 : fixed[0], c1 = (mask & 2) ? i1 : fixed[1], c2 = (mask & 4) ? i2 : fixed[2];
      i32 e = (i32)data[(c0*shape[1] + c1)*shape[2] + c2];
      if (first){ acc = e; first = 0; } else if (want_max ? e > acc : e < acc) acc = e; } }
  return (u32)acc;
}
void h_amax_axis_i32(void){ DECL; i32 ax = IN_AXIS(); u32 m = 1u << norm(ax, 3); u64 nd = ref_shape(shape, m, 0, ex); in_index(idx, ex, nd);
  int r = k_amax_axis_i32(shape, data, (u32)ax, ARGS); SHAPE_OK(nd);
  ASSERT(out == ref_minmax_i32(shape, data, m, idx, 1), "amax(axis) == largest of the matching SIGNED elements"); OBS(out); REACHED(); }
void h_amin_axis_i32(void){ DECL; i32 ax = IN_AXIS(); u32 m = 1u << norm(ax, 3); u64 nd = ref_shape(shape, m, 0, ex); in_index(idx, ex, nd);
  int r = k_amin_axis_i32(shape, data, (u32)ax, ARGS); SHAPE_OK(nd);
  ASSERT(out == ref_minmax_i32(shape, data, m, idx, 0), "amin(axis) == smallest of the matching SIGNED elements"); OBS(out); REACHED(); }
void h_amax_none_i32(void){ DECL; u64 nd = 0; for (int k = 0; k < 4; k++){ idx[k] = 0; ex[k] = 0; }
  int r = k_amax_none_i32(shape, data, ARGS); SHAPE_OK(nd);
  ASSERT(out == ref_minmax_i32(shape, data, 7u, idx, 1), "amax() == largest SIGNED element"); OBS(out); REACHED(); }
void h_amax_none(void){ DECL; u64 nd = 0; for (int k = 0; k < 4; k++){ idx[k] = 0; ex[k] = 0; }
  int r = k_amax_none(shape, data, ARGS); SHAPE_OK(nd);
  ASSERT(out == ref_minmax(shape, data, 7u, idx, 1), "amax() == largest element"); OBS(out); REACHED(); }
#define ACC(CALL, OP, MSG) do { for (int k = 0; k < 4; k++) ex[k] = k < 3 ? shape[k] : 0; in_index(idx, ex, 3); u64 nd = 3; int r = CALL; \
  ASSERT(r == 1 && od == 3, "accumulate keeps the source dim"); for (int k = 0; k < 3; k++) ASSERT(os[k] == shape[k], "accumulate keeps the source shape"); \
  ASSERT(out == ref_accum(shape, data, an, idx, OP), MSG); OBS(out); } while (0)
void h_cumsum_axis(void){ DECL; i32 ax = IN_AXIS(); u64 an = norm(ax, 3); KF_ACC(ax); ACC(k_cumsum_axis(shape, data, (u32)ax, ARGS), 1, "cumsum == running sum along the axis"); REACHED(); }
void h_cumprod_axis(void){ DECL; small_data(data, MAXE*MAXE*MAXE); i32 ax = IN_AXIS(); u64 an = norm(ax, 3); KF_ACC(ax); ACC(k_cumprod_axis(shape, data, (u32)ax, ARGS), 2, "cumprod == running product along the axis"); REACHED(); }
/* trace: sum of a[i,i] (2-d: a number); 3-d: sum over i of a[i,i,k] -> shape (shape[2],)  (np.trace) */
void h_trace2(void){ u64 shape[2], idx[4] = {0}, os[4] = {0}, od = 77; u32 data[CELLS], out = 0; shape[0] = in_u64(1, MAXE); shape[1] = in_u64(1, MAXE); in_data(data, MAXE*MAXE);
  int r = k_trace2(shape, data, idx, 0, os, &od, &out);
  u32 acc = 0; for (u64 i = 0; i < MAXE; i++) if (i < shape[0] && i < shape[1]) acc += data[i*shape[1] + i];
  ASSERT(r == 1 && od == 0, "trace of a 2-d array is a number"); ASSERT(out == acc, "trace == sum of a[i,i], i < min(rows, cols)"); OBS(out); REACHED(); }
void h_trace3(void){ DECL; for (int k = 0; k < 4; k++) ex[k] = 0; ex[0] = shape[2]; in_index(idx, ex, 1); u64 nd = 1;
  int r = k_trace3(shape, data, ARGS); SHAPE_OK(nd);
  u32 acc = 0; for (u64 i = 0; i < MAXE; i++) if (i < shape[0] && i < shape[1]) acc += data[(i*shape[1] + i)*shape[2] + idx[0]];
  ASSERT(out == acc, "trace(a)[k] == sum of a[i,i,k]"); OBS(out); REACHED(); }

/* ---- float front ends on a 2-d float array with small integer-valued data. + - * / and sqrt are uninterpreted symbols shared with the
 * reference (-DLL_UF_FLOAT, see harnesses/C07_leaf.c): decided is WHICH elements enter the fold, in which order, and the operation structure */
static float in_small_float(void){ i32 v = in_i32(-8, 8); return (float)v; }
#define FDECL u64 shape[2], idx[4] = {0}, os[4] = {0}, od = 77; float data[9], out = 0; shape[0] = in_u64(1, MAXE); shape[1] = in_u64(1, MAXE); \
  for (int i = 0; i < MAXE*MAXE; i++) data[i] = in_small_float(); i32 ax = in_i32(-2, 1); u64 an = ax < 0 ? (u64)(ax + 2) : (u64)ax; \
  u64 other = shape[1 - an]; idx[0] = in_u64(0, MAXE - 1); ASSUME(idx[0] < other); u64 N = shape[an]
#define ELEM(k) data[an == 0 ? (k)*shape[1] + idx[0] : idx[0]*shape[1] + (k)]
static int same_f(float a, float b){ return (a != a && b != b) || f32_bits(a) == f32_bits(b); }
static float ref_mean(const float* data, const u64* shape, u64 an, const u64* idx, u64 N){
  float acc = 0; for (u64 k = 0; k < MAXE; k++) if (k < N) acc = k == 0 ? ELEM(k) : k_ref_fadd_f32(acc, ELEM(k));
  return k_ref_fdiv_f32(acc, (float)N);
}
static float ref_var(const float* data, const u64* shape, u64 an, const u64* idx, u64 N){
  float m = ref_mean(data, shape, an, idx, N), acc = 0;
  for (u64 k = 0; k < MAXE; k++) if (k < N){ float d = k_ref_fsub_f32(ELEM(k), m); float c = d < 0 ? -d : d; c = (d != d) ? d : c; float sq = k_ref_fmul_f32(c, c); acc = k == 0 ? sq : k_ref_fadd_f32(acc, sq); }
  return k_ref_fdiv_f32(acc, (float)N);
}
#define FSHAPE_OK() ASSERT(r == 1 && od == 1 && os[0] == other, "reducing a 2-d array over one axis: shape == (other extent,)")
void h_mean_axis(void){ FDECL; int r = k_mean_axis(shape, data, (u32)ax, idx, 1, os, &od, &out); FSHAPE_OK();
  ASSERT(same_f(out, ref_mean(data, shape, an, idx, N)), "mean == (left fold of + over the axis) / extent"); OBS(f32_bits(out)); REACHED(); }
void h_var_axis(void){ FDECL; int r = k_var_axis(shape, data, (u32)ax, idx, 1, os, &od, &out); FSHAPE_OK();
  ASSERT(same_f(out, ref_var(data, shape, an, idx, N)), "var == sum(|a - mean|^2) / extent (ddof 0)"); OBS(f32_bits(out)); REACHED(); }
void h_stddev_axis(void){ FDECL; int r = k_stddev_axis(shape, data, (u32)ax, idx, 1, os, &od, &out); FSHAPE_OK();
  ASSERT(same_f(out, k_ref_sqrt_f32(ref_var(data, shape, an, idx, N))), "stddev == sqrt(var)"); OBS(f32_bits(out)); REACHED(); }
/* vector_norm (ord 2): fabs -> power(., 2) -> sum -> power(., 1/2), computed in double (pow(float, long) promotes); clang rewrites pow(x, 2) to x*x and
 * pow(y, 0.5) to sqrt-with-special-cases, so the reference mirrors x*x and the comparison is only made for a strictly positive finite sum */
void h_vector_norm_axis(void){ FDECL; int r = k_vector_norm_axis(shape, data, (u32)ax, idx, 1, os, &od, &out); FSHAPE_OK();
  double acc = 0; for (u64 k = 0; k < MAXE; k++) if (k < N){ float e = ELEM(k); double c = (double)(e < 0 ? -e : e); double sq = k_ref_fmul_f64(c, c); acc = k == 0 ? sq : k_ref_fadd_f64(acc, sq); }
  ASSERT(same_f(out, (float)k_ref_sqrt_f64(acc)), "vector_norm == sqrt(sum |a|^2) over the axis"); OBS(f32_bits(out)); REACHED(); }
