/* C04: generators eye / identity / tri / full / zeros / ones (_like) / arange (integer grids) equal NumPy's result */
#include "C04_util.h"
#include "C04_generate.h"
#ifndef MAXN
#define MAXN 4
#endif
#ifndef RNG
#define RNG 8
#endif
#ifndef MAXSTEP
#define MAXSTEP 3
#endif

/* np.eye(N, M, k): ones on the k-th diagonal; np.tri(N, M, k): ones at and below it. VARIANT: 0 (N,M,k), 1 (N,None,k), 2 identity(N) */
static void eye_tri(int tri, int variant){
  u64 n = in_u64(1, MAXN), m = in_u64(1, MAXN), idx[4], os[4] = {0}, od = 0, ex[4] = {0}; u32 out = 7;
  i32 k = in_i32(-MAXN, MAXN);
  if (variant >= 1) m = n;
  if (variant == 2) k = 0;
  ex[0] = n; ex[1] = m;
  in_index(idx, ex, 2, MAXN - 1);
  int r = tri ? (variant == 0 ? k_tri(n, m, (u32)k, idx, 2, os, &od, &out) : k_tri_square(n, (u32)k, idx, 2, os, &od, &out))
              : (variant == 0 ? k_eye(n, m, (u32)k, idx, 2, os, &od, &out) : variant == 1 ? k_eye_square(n, (u32)k, idx, 2, os, &od, &out) : k_identity(n, idx, 2, os, &od, &out));
  ASSERT(r == 1, "accepted");
  ASSERT(od == 2 && os[0] == n && os[1] == m, "shape == (N, M)");
  i64 i = (i64)idx[0], j = (i64)idx[1];
  ASSERT(out == (u32)(tri ? (j <= i + k) : (j == i + k)), "one on (eye) / at and below (tri) the k-th diagonal, zero elsewhere");
  OBS(out);
  REACHED();
}
void h_eye(void){ eye_tri(0, 0); }
void h_eye_square(void){ eye_tri(0, 1); }
void h_identity(void){ eye_tri(0, 2); }
void h_tri(void){ eye_tri(1, 0); }
void h_tri_square(void){ eye_tri(1, 1); }

/* np.full / zeros / ones(shape): run-time shape of 1..4 extents in 1..MAXE. KINDF: 0 full, 1 zeros, 2 ones */
static void full_check(int kind){
  u64 shape[4], idx[4], os[4] = {0}, od = 0; u32 out = 7;
  u64 d = in_u64(1, 4); for (int i = 0; i < 4; i++) shape[i] = in_u64(1, MAXE);
  u32 value = in_any32();
  in_index(idx, shape, d, MAXE - 1);
  int r = kind == 0 ? k_full(shape, d, value, idx, d, os, &od, &out) : kind == 1 ? k_zeros(shape, d, idx, d, os, &od, &out) : k_ones(shape, d, idx, d, os, &od, &out);
  ASSERT(r == 1, "accepted");
  ASSERT(od == d, "dim == len(shape)");
  for (u64 i = 0; i < 4; i++) if (i < d) ASSERT(os[i] == shape[i], "shape");
  ASSERT(out == (kind == 0 ? value : kind == 1 ? 0u : 1u), "every element is the fill value");
  OBS(out);
  REACHED();
}
void h_full(void){ full_check(0); }
void h_zeros(void){ full_check(1); }
void h_ones(void){ full_check(2); }
/* np.full_like / zeros_like / ones_like(a): shape of a (data irrelevant but symbolic) */
static void like_check(int kind){
  u64 shape[4] = {1,1,1,1}, idx[4], os[4] = {0}, od = 0; u32 data[CELLS], out = 7;
  in_shape(shape, DIM); in_data(data, NCELL);
  u32 value = in_any32();
  in_index(idx, shape, DIM, MAXE - 1);
  int r = kind == 0 ? CAT(k_full_like, DIM)(shape, data, value, idx, DIM, os, &od, &out) : kind == 1 ? CAT(k_zeros_like, DIM)(shape, data, idx, DIM, os, &od, &out) : CAT(k_ones_like, DIM)(shape, data, idx, DIM, os, &od, &out);
  ASSERT(r == 1, "accepted");
  ASSERT(od == DIM, "dim of a");
  for (u64 i = 0; i < DIM; i++) ASSERT(os[i] == shape[i], "shape of a");
  ASSERT(out == (kind == 0 ? value : kind == 1 ? 0u : 1u), "every element is the fill value");
  OBS(out);
  REACHED();
}
void h_full_like(void){ like_check(0); }
void h_zeros_like(void){ like_check(1); }
void h_ones_like(void){ like_check(2); }

/* np.arange on integer grids: start, stop in [-RNG, RNG], step in [-MAXSTEP, MAXSTEP] \ {0}; len == max(0, ceil((stop-start)/step)). NARG: 3, 2 (step 1), 1 (start 0) */
static void arange_check(int narg){
  i32 start = in_i32(-RNG, RNG), stop = in_i32(-RNG, RNG), step = in_i32(-MAXSTEP, MAXSTEP);
  u64 i = in_u64(0, 2*RNG), os[2] = {0}, od = 0; u32 out = 0;
  if (narg <= 2) step = 1;
  if (narg == 1) start = 0;
  ASSUME(step != 0);
  i64 num = (i64)stop - start, len = 0;
  if (step > 0 && num > 0) len = (num + step - 1) / step;
  if (step < 0 && num < 0) len = (-num + (-step) - 1) / (-step);
#ifdef KF_C04_ARANGE_EMPTY
  ASSUME(!(len == 0));
#endif
#ifdef KF_C04_ARANGE_FLOATLEN
  ASSUME(!(num > 16777216 || num < -16777216));   /* finding: the length is computed in single precision */
#endif
  ASSUME(len == 0 ? i == 0 : i < (u64)len);
  int r = narg == 3 ? k_arange3((u32)start, (u32)stop, (u32)step, i, os, &od, &out) : narg == 2 ? k_arange2((u32)start, (u32)stop, i, os, &od, &out) : k_arange1((u32)stop, i, os, &od, &out);
  ASSERT(r == 1, "accepted");
  ASSERT(od == 1 && os[0] == (u64)len, "len == max(0, ceil((stop - start) / step))");
  if (len > 0) ASSERT((i32)out == start + (i32)i * step, "element i == start + i*step");
  OBS(out); OBS(os[0]);
  REACHED();
}
void h_arange3(void){ arange_check(3); }
void h_arange2(void){ arange_check(2); }
void h_arange1(void){ arange_check(1); }

/* np.full_like(a, v) without dtype: element type of a (uint8 here), value converted to it; with dtype=uint32 the requested type */
void h_full_like_etype(void){
  u64 shape[2], idx[4] = {0}, os[4] = {0}, od = 0, esz = 0; u8 data[16] = {0}; u32 out = 7;
  shape[0] = in_u64(1, MAXE); shape[1] = in_u64(1, MAXE); for (int i = 0; i < MAXE*MAXE; i++) data[i] = in_any8();
  u32 value = in_any32(); idx[0] = in_u64(0, MAXE - 1); idx[1] = in_u64(0, MAXE - 1); ASSUME(idx[0] < shape[0] && idx[1] < shape[1]);
#if WITH_DTYPE
  int r = k_full_like_u8_dtype(shape, data, value, idx, 2, os, &od, &out, &esz);
  ASSERT(r == 1 && od == 2 && os[0] == shape[0] && os[1] == shape[1], "shape of a");
  ASSERT(esz == 4 && out == value, "explicit dtype uint32: 4-byte elements holding the fill value");
#else
  int r = k_full_like_u8(shape, data, value, idx, 2, os, &od, &out, &esz);
  ASSERT(r == 1 && od == 2 && os[0] == shape[0] && os[1] == shape[1], "shape of a");
  ASSERT(esz == 1, "no dtype: the element type of the prototype array (1 byte)");
  ASSERT(out == (u32)(u8)value, "the fill value is converted to the prototype's element type");
#endif
  OBS(out); OBS(esz); REACHED();
}
