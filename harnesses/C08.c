/* C08: reductions / accumulations fold exactly the addressed elements, in increasing (C order) index order; result shape == NumPy */
#include "harness.h"
#include "C08_reduce.h"
#include "C08_ref.h"
/* known finding (props/C08.py PENDING_FINDINGS): accumulate_t compares the raw axis with the loop index, so a NEGATIVE axis selects no axis and the
 * view returns the source element unchanged (cumsum(a,-1) == a) */
#ifdef KF_C08_ACCUM_NEGATIVE_AXIS
#define KF_ACC(ax) ASSUME(!((ax) < 0))
#else
#define KF_ACC(ax) ((void)0)
#endif
#define DECL u64 shape[3], idx[4], os[4] = {0}, od = 77, ex[4]; u32 data[CELLS], out = 0; in_shape3(shape); in_data(data, MAXE*MAXE*MAXE)
#define CHECK(CALL, MASK, KEEP, OP, HAS, INIT) do { u64 nd = ref_shape(shape, MASK, KEEP, ex); in_index(idx, ex, nd); int r = CALL; \
  ASSERT(r == 1, "reduction accepted, index length == result dim"); ASSERT(od == nd, "result dim == NumPy (reduced axes dropped, or kept with keepdims)"); \
  for (u64 k = 0; k < 4; k++) if (k < nd) ASSERT(os[k] == ex[k], "result shape == NumPy"); \
  ASSERT(out == ref_fold(shape, data, MASK, KEEP, idx, OP, HAS, INIT), "element == left fold, in increasing index order, of exactly the matching source elements"); \
  OBS(out); OBS(od); } while (0)
#define ARGS idx, nd, os, &od, &out

void h_rsub_axis(void){ DECL; i32 ax = IN_AXIS(); u32 m = 1u << norm(ax, 3);
  CHECK(k_rsub_axis(shape, data, (u32)ax, ARGS), m, 0, 0, 0, 0); REACHED(); }
void h_rsub_axis_init(void){ DECL; i32 ax = IN_AXIS(); u32 m = 1u << norm(ax, 3); u32 init = in_any32();
  CHECK(k_rsub_axis_init(shape, data, (u32)ax, init, ARGS), m, 0, 0, 1, init); REACHED(); }
void h_rsub_axis_keep_ct(void){ DECL; i32 ax = IN_AXIS(); u32 m = 1u << norm(ax, 3);
  CHECK(k_rsub_axis_keep_ct(shape, data, (u32)ax, ARGS), m, 1, 0, 0, 0); REACHED(); }
void h_rsub_axis_keep_rt(void){ DECL; i32 ax = IN_AXIS(); u32 m = 1u << norm(ax, 3); int keep = IN_KEEP();
  CHECK(k_rsub_axis_keep_rt(shape, data, (u32)ax, (u32)keep, ARGS), m, keep, 0, 0, 0); REACHED(); }
void h_rsub_axis_init_keep_rt(void){ DECL; i32 ax = IN_AXIS(); u32 m = 1u << norm(ax, 3); u32 init = in_any32(); int keep = IN_KEEP();
  CHECK(k_rsub_axis_init_keep_rt(shape, data, (u32)ax, init, (u32)keep, ARGS), m, keep, 0, 1, init); REACHED(); }
void h_radd_axis(void){ DECL; i32 ax = IN_AXIS(); u32 m = 1u << norm(ax, 3);
  CHECK(k_radd_axis(shape, data, (u32)ax, ARGS), m, 0, 1, 0, 0); REACHED(); }
/* several axes: any order, positive or negative, distinct after normalisation (duplicates are invalid arguments: C15) */
void h_rsub_axes2(void){ DECL; u32 axes[2]; i32 a0 = IN_AXIS(), a1 = IN_AXIS1(); axes[0] = (u32)a0; axes[1] = (u32)a1;
  ASSUME(norm(a0, 3) != norm(a1, 3)); u32 m = (1u << norm(a0, 3)) | (1u << norm(a1, 3));
  CHECK(k_rsub_axes2(shape, data, axes, ARGS), m, 0, 0, 0, 0); REACHED(); }
void h_rsub_axes2_init_keep_rt(void){ DECL; u32 axes[2]; i32 a0 = IN_AXIS(), a1 = IN_AXIS1(); axes[0] = (u32)a0; axes[1] = (u32)a1;
  ASSUME(norm(a0, 3) != norm(a1, 3)); u32 m = (1u << norm(a0, 3)) | (1u << norm(a1, 3)); u32 init = in_any32(); int keep = IN_KEEP();
  CHECK(k_rsub_axes2_init_keep_rt(shape, data, axes, init, (u32)keep, ARGS), m, keep, 0, 1, init); REACHED(); }
void h_rsub_axes3_keep_ct(void){ DECL; u32 axes[3]; i32 a0 = IN_AXIS(), a1 = IN_AXIS1(), a2 = IN_AXIS2(); axes[0] = (u32)a0; axes[1] = (u32)a1; axes[2] = (u32)a2;
  ASSUME(norm(a0, 3) != norm(a1, 3) && norm(a0, 3) != norm(a2, 3) && norm(a1, 3) != norm(a2, 3));
  CHECK(k_rsub_axes3_keep_ct(shape, data, axes, ARGS), 7u, 1, 0, 0, 0); REACHED(); }
void h_radd_axes2(void){ DECL; u32 axes[2]; i32 a0 = IN_AXIS(), a1 = IN_AXIS1(); axes[0] = (u32)a0; axes[1] = (u32)a1;
  ASSUME(norm(a0, 3) != norm(a1, 3)); u32 m = (1u << norm(a0, 3)) | (1u << norm(a1, 3));
  CHECK(k_radd_axes2(shape, data, axes, ARGS), m, 0, 1, 0, 0); REACHED(); }
/* axis None: all axes; the result is a number (dim 0) unless keepdims */
void h_rsub_none(void){ DECL; CHECK(k_rsub_none(shape, data, ARGS), 7u, 0, 0, 0, 0); REACHED(); }
void h_rsub_none_init(void){ DECL; u32 init = in_any32(); CHECK(k_rsub_none_init(shape, data, init, ARGS), 7u, 0, 0, 1, init); REACHED(); }
void h_rsub_none_keep_ct(void){ DECL; CHECK(k_rsub_none_keep_ct(shape, data, ARGS), 7u, 1, 0, 0, 0); REACHED(); }
void h_rsub_none_keep_rt(void){ DECL; int keep = IN_KEEP(); CHECK(k_rsub_none_keep_rt(shape, data, (u32)keep, ARGS), 7u, keep, 0, 0, 0); REACHED(); }
/* accumulate: source shape, element = running left fold along the axis up to and including the index */
#define ACC(CALL, OP) do { for (int k = 0; k < 4; k++) ex[k] = k < 3 ? shape[k] : 0; in_index(idx, ex, 3); u64 nd = 3; int r = CALL; \
  ASSERT(r == 1 && od == 3, "accumulate keeps the source dim"); for (int k = 0; k < 3; k++) ASSERT(os[k] == shape[k], "accumulate keeps the source shape"); \
  ASSERT(out == ref_accum(shape, data, an, idx, OP), "element == running left fold along the axis up to and including the index"); OBS(out); } while (0)
void h_asub_axis(void){ DECL; i32 ax = IN_AXIS(); u64 an = norm(ax, 3); KF_ACC(ax); ACC(k_asub_axis(shape, data, (u32)ax, ARGS), 0); REACHED(); }

/* explicit axes covering every dimension: the result is a number (dim 0) evaluated by reduce_t::operator num_type; initial must start the fold */
void h_rsub_axes3(void){ DECL; u32 axes[3]; i32 a0 = IN_AXIS(), a1 = IN_AXIS1(), a2 = IN_AXIS2(); axes[0] = (u32)a0; axes[1] = (u32)a1; axes[2] = (u32)a2;
  ASSUME(norm(a0, 3) != norm(a1, 3) && norm(a0, 3) != norm(a2, 3) && norm(a1, 3) != norm(a2, 3));
  CHECK(k_rsub_axes3(shape, data, axes, ARGS), 7u, 0, 0, 0, 0); REACHED(); }
void h_rsub_axes3_init(void){ DECL; u32 axes[3]; i32 a0 = IN_AXIS(), a1 = IN_AXIS1(), a2 = IN_AXIS2(); axes[0] = (u32)a0; axes[1] = (u32)a1; axes[2] = (u32)a2; u32 init = in_any32();
  ASSUME(norm(a0, 3) != norm(a1, 3) && norm(a0, 3) != norm(a2, 3) && norm(a1, 3) != norm(a2, 3));
  CHECK(k_rsub_axes3_init(shape, data, axes, init, ARGS), 7u, 0, 0, 1, init); REACHED(); }
/* result dtype. Widening (uint8 elements, dtype uint32): the reference folds the 8-bit values in 32 bits (sums above 255 must survive).
 * Narrowing (uint32 elements, dtype uint8): NumPy casts the operands to the dtype and folds in it == the 32-bit fold reduced mod 256. */
#define DECLB u64 shape[3], idx[4], os[4] = {0}, od = 77, ex[4]; u8 data8[CELLS] = {0}; u32 data[CELLS] = {0}, out = 0; in_shape3(shape); \
  for (int i_ = 0; i_ < MAXE*MAXE*MAXE; i_++){ data8[i_] = in_any8(); data[i_] = data8[i_]; }
void h_radd_axis_dtype(void){ DECLB; i32 ax = IN_AXIS(); u32 m = 1u << norm(ax, 3);
  CHECK(k_radd_axis_dtype(shape, data8, (u32)ax, ARGS), m, 0, 1, 0, 0); REACHED(); }
void h_radd_axis_dtype_init(void){ DECLB; i32 ax = IN_AXIS(); u32 m = 1u << norm(ax, 3); u32 init = in_any32();
  CHECK(k_radd_axis_dtype_init(shape, data8, (u32)ax, init, ARGS), m, 0, 1, 1, init); REACHED(); }
void h_radd_none_dtype(void){ DECLB; CHECK(k_radd_none_dtype(shape, data8, ARGS), 7u, 0, 1, 0, 0); REACHED(); }
void h_aadd_axis_dtype(void){ DECLB; i32 ax = IN_AXIS(); u64 an = norm(ax, 3); ACC(k_aadd_axis_dtype(shape, data8, (u32)ax, ARGS), 1); REACHED(); }
#define ARGS8 idx, nd, os, &od, &out8
void h_radd_axis_dtype8(void){ DECL; u8 out8 = 0; i32 ax = IN_AXIS(); u32 m = 1u << norm(ax, 3);
  u64 nd = ref_shape(shape, m, 0, ex); in_index(idx, ex, nd); int r = k_radd_axis_dtype8(shape, data, (u32)ax, ARGS8);
  ASSERT(r == 1 && od == nd, "reduction accepted, result dim == NumPy"); for (u64 k = 0; k < 4; k++) if (k < nd) ASSERT(os[k] == ex[k], "result shape == NumPy");
  ASSERT(out8 == (u8)ref_fold(shape, data, m, 0, idx, 1, 0, 0), "element == fold in the requested 8-bit dtype"); OBS(out8); REACHED(); }
void h_aadd_axis_dtype8(void){ DECL; u8 out8 = 0; i32 ax = IN_AXIS(); u64 an = norm(ax, 3);
  for (int k = 0; k < 4; k++) ex[k] = k < 3 ? shape[k] : 0; in_index(idx, ex, 3); u64 nd = 3; int r = k_aadd_axis_dtype8(shape, data, (u32)ax, ARGS8);
  ASSERT(r == 1 && od == 3, "accumulate keeps the source dim"); for (int k = 0; k < 3; k++) ASSERT(os[k] == shape[k], "accumulate keeps the source shape");
  ASSERT(out8 == (u8)ref_accum(shape, data, an, idx, 1), "element == running fold in the requested 8-bit dtype"); OBS(out8); REACHED(); }
void h_radd_none_dtype_init_keep(void){ DECLB; u32 init = in_any32(); CHECK(k_radd_none_dtype_init_keep(shape, data8, init, ARGS), 7u, 1, 1, 1, init); REACHED(); }
void h_radd_none_dtype_init(void){ DECLB; u32 init = in_any32(); CHECK(k_radd_none_dtype_init(shape, data8, init, ARGS), 7u, 0, 1, 1, init); REACHED(); }
void h_radd_none_dtype_keep(void){ DECLB; CHECK(k_radd_none_dtype_keep(shape, data8, ARGS), 7u, 1, 1, 0, 0); REACHED(); }
void h_radd_axis_dtype_init_keep(void){ DECLB; i32 ax = IN_AXIS(); u32 m = 1u << norm(ax, 3); u32 init = in_any32();
  CHECK(k_radd_axis_dtype_init_keep(shape, data8, (u32)ax, init, ARGS), m, 1, 1, 1, init); REACHED(); }
