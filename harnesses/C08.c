/* C08: reductions / accumulations fold exactly the addressed elements, in increasing (C order) index order; result shape == NumPy */
#include "harness.h"
#include "C08_reduce.h"
#ifndef MAXE
#define MAXE 2
#endif
#define CELLS 27
/* AXIS / AXIS1 / KEEP: optional per-query constants (enumerated exhaustively by props/C08.py); symbolic when not defined */
#ifdef AXIS
#define IN_AXIS() ((i32)(AXIS))
#else
#define IN_AXIS() in_i32(-3, 2)
#endif
#ifdef AXIS1
#define IN_AXIS1() ((i32)(AXIS1))
#else
#define IN_AXIS1() in_i32(-3, 2)
#endif
#ifdef AXIS2
#define IN_AXIS2() ((i32)(AXIS2))
#else
#define IN_AXIS2() in_i32(-3, 2)
#endif
#ifdef KEEP
#define IN_KEEP() ((int)(KEEP))
#else
#define IN_KEEP() ((int)in_u32(0, 1))
#endif
static void in_shape3(u64* s){ for (int i = 0; i < 3; i++) s[i] = in_u64(1, MAXE); }
static void in_data(u32* d, int n){ for (int i = 0; i < n; i++) d[i] = in_any32(); }
static u64 norm(i32 a, u64 n){ return a < 0 ? (u64)(a + (i32)n) : (u64)a; }
/* NumPy result shape of reducing a 3-d array over the axes in `mask` (bit k set = axis k reduced); returns the result dim */
static u64 ref_shape(const u64* shape, u32 mask, int keep, u64* ex){
  u64 n = 0; for (int k = 0; k < 4; k++) ex[k] = 0;
  for (int k = 0; k < 3; k++){ if ((mask >> k) & 1){ if (keep) ex[n++] = 1; } else ex[n++] = shape[k]; }
  return n;
}
/* left fold, in C order of the source coordinates, of exactly the source elements whose non-reduced coordinates equal idx.
 * op: 0 subtract, 1 add, 2 multiply. Without initial the first element starts the fold (NumPy ufunc.reduce). */
static u32 ref_fold(const u64* shape, const u32* data, u32 mask, int keep, const u64* idx, int op, int has_init, u32 init){
  u64 fixed[3]; u64 j = 0;
  for (int k = 0; k < 3; k++){ if ((mask >> k) & 1){ fixed[k] = 0; if (keep) j++; } else fixed[k] = idx[j++]; }
  u32 acc = init; int first = !has_init;
  for (u64 i0 = 0; i0 < MAXE; i0++) for (u64 i1 = 0; i1 < MAXE; i1++) for (u64 i2 = 0; i2 < MAXE; i2++){
    int in0 = (mask & 1) ? i0 < shape[0] : i0 == 0, in1 = (mask & 2) ? i1 < shape[1] : i1 == 0, in2 = (mask & 4) ? i2 < shape[2] : i2 == 0;
    if (in0 && in1 && in2){
      u64 c0 = (mask & 1) ? i0 : fixed[0], c1 = (mask & 2) ? i1 : fixed[1], c2 = (mask & 4) ? i2 : fixed[2];
      u32 e = data[(c0*shape[1] + c1)*shape[2] + c2];
      if (first){ acc = e; first = 0; } else acc = op == 0 ? acc - e : op == 1 ? acc + e : acc * e;
    } }
  return acc;
}
static void in_index(u64* idx, const u64* ex, u64 n){ for (u64 i = 0; i < 4; i++){ idx[i] = i < 3 ? in_u64(0, MAXE - 1) : 0; ASSUME(i >= n || idx[i] < ex[i]); } }
#define DECL u64 shape[3], idx[4], os[4] = {0}, od = 77, ex[4]; u32 data[CELLS], out = 0; in_shape3(shape); in_data(data, MAXE*MAXE*MAXE)
#define CHECK(CALL, MASK, KEEP, OP, HAS, INIT) do { u64 nd = ref_shape(shape, MASK, KEEP, ex); in_index(idx, ex, nd); int r = CALL; \
  ASSERT(r == 1, "reduction accepted, index length == result dim"); ASSERT(od == nd, "result dim == NumPy (reduced axes dropped, or kept with keepdims)"); \
  for (u64 k = 0; k < 4; k++) if (k < nd) ASSERT(os[k] == ex[k], "result shape == NumPy"); \
  ASSERT(out == ref_fold(shape, data, MASK, KEEP, idx, OP, HAS, INIT), "element == left fold, in increasing index order, of exactly the matching source elements"); \
  OBS(out); OBS(od); } while (0)
#define ARGS idx, nd, os, &od, &out

void h_rsub_axis(void){ DECL; i32 ax = IN_AXIS(); u32 m = 1u << norm(ax, 3);
  CHECK(k_rsub_axis(shape, data, (u32)ax, ARGS), m, 0, 0, 0, 0); REACHED(); }
void h_rsub_axis_init(void){ DECL; i32 ax = IN_AXIS(); u32 m = 1u << norm(ax, 3); u32 init = in_any32();
  CHECK(k_rsub_axis_init(shape, data, (u32)ax, init, ARGS), m, 0, 0, 1, init); REACHED(); }
void h_rsub_axis_keep_ct(void){ DECL; i32 ax = IN_AXIS(); u32 m = 1u << norm(ax, 3);
  CHECK(k_rsub_axis_keep_ct(shape, data, (u32)ax, ARGS), m, 1, 0, 0, 0); REACHED(); }
void h_rsub_axis_keep_rt(void){ DECL; i32 ax = IN_AXIS(); u32 m = 1u << norm(ax, 3); int keep = IN_KEEP();
  CHECK(k_rsub_axis_keep_rt(shape, data, (u32)ax, (u32)keep, ARGS), m, keep, 0, 0, 0); REACHED(); }
void h_rsub_axis_init_keep_rt(void){ DECL; i32 ax = IN_AXIS(); u32 m = 1u << norm(ax, 3); u32 init = in_any32(); int keep = IN_KEEP();
  CHECK(k_rsub_axis_init_keep_rt(shape, data, (u32)ax, init, (u32)keep, ARGS), m, keep, 0, 1, init); REACHED(); }
void h_radd_axis(void){ DECL; i32 ax = IN_AXIS(); u32 m = 1u << norm(ax, 3);
  CHECK(k_radd_axis(shape, data, (u32)ax, ARGS), m, 0, 1, 0, 0); REACHED(); }
/* several axes: any order, positive or negative, distinct after normalisation (duplicates are invalid arguments: C15) */
void h_rsub_axes2(void){ DECL; u32 axes[2]; i32 a0 = IN_AXIS(), a1 = IN_AXIS1(); axes[0] = (u32)a0; axes[1] = (u32)a1;
  ASSUME(norm(a0, 3) != norm(a1, 3)); u32 m = (1u << norm(a0, 3)) | (1u << norm(a1, 3));
  CHECK(k_rsub_axes2(shape, data, axes, ARGS), m, 0, 0, 0, 0); REACHED(); }
void h_rsub_axes2_init_keep_rt(void){ DECL; u32 axes[2]; i32 a0 = IN_AXIS(), a1 = IN_AXIS1(); axes[0] = (u32)a0; axes[1] = (u32)a1;
  ASSUME(norm(a0, 3) != norm(a1, 3)); u32 m = (1u << norm(a0, 3)) | (1u << norm(a1, 3)); u32 init = in_any32(); int keep = IN_KEEP();
  CHECK(k_rsub_axes2_init_keep_rt(shape, data, axes, init, (u32)keep, ARGS), m, keep, 0, 1, init); REACHED(); }
void h_rsub_axes3_keep_ct(void){ DECL; u32 axes[3]; i32 a0 = IN_AXIS(), a1 = IN_AXIS1(), a2 = IN_AXIS2(); axes[0] = (u32)a0; axes[1] = (u32)a1; axes[2] = (u32)a2;
  ASSUME(norm(a0, 3) != norm(a1, 3) && norm(a0, 3) != norm(a2, 3) && norm(a1, 3) != norm(a2, 3));
  CHECK(k_rsub_axes3_keep_ct(shape, data, axes, ARGS), 7u, 1, 0, 0, 0); REACHED(); }
void h_radd_axes2(void){ DECL; u32 axes[2]; i32 a0 = IN_AXIS(), a1 = IN_AXIS1(); axes[0] = (u32)a0; axes[1] = (u32)a1;
  ASSUME(norm(a0, 3) != norm(a1, 3)); u32 m = (1u << norm(a0, 3)) | (1u << norm(a1, 3));
  CHECK(k_radd_axes2(shape, data, axes, ARGS), m, 0, 1, 0, 0); REACHED(); }
/* axis None: all axes; the result is a number (dim 0) unless keepdims */
void h_rsub_none(void){ DECL; CHECK(k_rsub_none(shape, data, ARGS), 7u, 0, 0, 0, 0); REACHED(); }
void h_rsub_none_init(void){ DECL; u32 init = in_any32(); CHECK(k_rsub_none_init(shape, data, init, ARGS), 7u, 0, 0, 1, init); REACHED(); }
void h_rsub_none_keep_ct(void){ DECL; CHECK(k_rsub_none_keep_ct(shape, data, ARGS), 7u, 1, 0, 0, 0); REACHED(); }
void h_rsub_none_keep_rt(void){ DECL; int keep = IN_KEEP(); CHECK(k_rsub_none_keep_rt(shape, data, (u32)keep, ARGS), 7u, keep, 0, 0, 0); REACHED(); }
/* accumulate: source shape, element = running left fold along the axis up to and including the index */
static u32 ref_accum(const u64* shape, const u32* data, u64 an, const u64* idx, int op){
  u32 acc = 0;
  for (u64 k = 0; k < MAXE; k++) if (k <= idx[an]){
    u64 c[3] = { idx[0], idx[1], idx[2] }; c[an] = k;
    u32 e = data[(c[0]*shape[1] + c[1])*shape[2] + c[2]];
    acc = k == 0 ? e : op == 0 ? acc - e : op == 1 ? acc + e : acc * e; }
  return acc;
}
#define ACC(CALL, OP) do { for (int k = 0; k < 4; k++) ex[k] = k < 3 ? shape[k] : 0; in_index(idx, ex, 3); u64 nd = 3; int r = CALL; \
  ASSERT(r == 1 && od == 3, "accumulate keeps the source dim"); for (int k = 0; k < 3; k++) ASSERT(os[k] == shape[k], "accumulate keeps the source shape"); \
  ASSERT(out == ref_accum(shape, data, an, idx, OP), "element == running left fold along the axis up to and including the index"); OBS(out); } while (0)
void h_asub_axis(void){ DECL; i32 ax = IN_AXIS(); u64 an = norm(ax, 3); ACC(k_asub_axis(shape, data, (u32)ax, ARGS), 0); REACHED(); }
