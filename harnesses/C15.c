/* C15 (index level): every run-time-checked shape/axis function returns a value exactly when NumPy accepts the arguments,
 * over the WHOLE small-scope argument space (invalid part included); CBMC's built-in obligations (division by zero, bounds,
 * pointer validity, signed overflow) and the translator's "LL:" obligations (throw / abort / assert) cover "never a crash". */
#include "harness.h"
#include "C15_index.h"
#ifndef MAXE
#define MAXE 4
#endif
#ifndef MAXD
#define MAXD 4
#endif
#ifndef MIND
#define MIND 0
#endif
/* a shape of run-time length n (MIND..MAXD): all 4 cells are drawn, cells beyond n are ignored by the kernel */
static u64 in_shape(u64* s){ u64 n = in_u64(MIND, MAXD); for (int i = 0; i < 4; i++) s[i] = in_u64(1, MAXE); return n; }
static i32 norm_axis(i32 a, i32 n){ return a < 0 ? a + n : a; }
static int axis_ok(i32 a, i32 n){ return -n <= a && a < n; }

/* NumPy broadcasting of two shapes: align at the right, equal or 1 */
static int np_broadcast(const u64* a, u64 na, const u64* b, u64 nb, u64* e, u64* ne){
  u64 nr = na > nb ? na : nb; int ok = 1;
  for (u64 k = 0; k < 4; k++) if (k < nr){
    u64 x = k < na ? a[na-1-k] : 1, y = k < nb ? b[nb-1-k] : 1;
    if (x != y && x != 1 && y != 1) ok = 0;
    e[nr-1-k] = x == 1 ? y : x; }
  *ne = nr; return ok;
}

void h_broadcast_shape(void){
  u64 a[4], b[4], o[4] = {0}, no = 0, e[4] = {0}, ne = 0;
  u64 na = in_shape(a), nb = in_shape(b);
  int ok = np_broadcast(a, na, b, nb, e, &ne);
  int r = k_broadcast_shape(a, na, b, nb, o, &no);
  ASSERT((r != 0) == (ok != 0), "broadcast_shape has a value iff the shapes are NumPy-compatible");
  if (r){ ASSERT(no == ne, "dim"); for (int i = 0; i < 4; i++) if ((u64)i < ne) ASSERT(o[i] == e[i], "extent"); }
  OBS(r); OBS(no); OBS(o[0]); OBS(o[3]);
  REACHED();
}
void h_broadcast_shape3(void){
  u64 a[4], b[4], c[4], o[4] = {0}, no = 0, e[4] = {0}, ne = 0, f[4] = {0}, nf = 0;
  u64 na = in_shape(a), nb = in_shape(b), nc = in_shape(c);
  int ok1 = np_broadcast(a, na, b, nb, e, &ne);
  int ok2 = np_broadcast(e, ne, c, nc, f, &nf);
  int r = k_broadcast_shape3(a, na, b, nb, c, nc, o, &no);
  ASSERT((r != 0) == (ok1 && ok2), "broadcast_shape(a,b,c) has a value iff np.broadcast_shapes accepts; a failed first stage stays Nothing");
  if (r){ ASSERT(no == nf, "dim"); for (int i = 0; i < 4; i++) if ((u64)i < nf) ASSERT(o[i] == f[i], "extent"); }
  OBS(r); OBS(no); OBS(o[0]);
  REACHED();
}
void h_shape_broadcast_to(void){
  u64 a[4], b[4], o[4] = {0}, no = 0; u32 fa[4] = {0};
  u64 na = in_shape(a), nb = in_shape(b);
  int ok = nb >= na;
  for (u64 k = 0; k < 4; k++) if (k < na && k < nb){ u64 x = a[na-1-k], y = b[nb-1-k]; if (x != y && x != 1) ok = 0; }
  int r = k_shape_broadcast_to(a, na, b, nb, o, &no, fa);
  ASSERT((r != 0) == (ok != 0), "shape_broadcast_to has a value iff np.broadcast_to(a, b) is accepted (one-directional)");
  if (r){ ASSERT(no == nb, "dim");
    for (u64 i = 0; i < 4; i++) if (i < nb){ ASSERT(o[i] == b[i], "result is the target shape");
      int has_src = i + na >= nb;   /* source axis i-(nb-na) exists */
      if (fa[i]) ASSERT(!has_src || a[i-(nb-na)] == 1, "a free axis has no source axis or source extent 1");
      else ASSERT(has_src && a[i-(nb-na)] == b[i], "a non-free axis maps to an equal source extent"); } }
  OBS(r); OBS(no); OBS(o[0]); OBS(fa[0]);
  REACHED();
}

#ifndef LO
#define LO (-2)
#endif
#ifndef HI
#define HI 8
#endif
static int np_reshape(u64 numel, const u32* d, u64 nd, u64* e){
  int nneg = 0, bad = 0; u64 p = 1;
  for (int i = 0; i < 4; i++) if ((u64)i < nd){ i32 v = (i32)d[i]; if (v == -1) nneg++; else if (v <= 0) bad = 1; else p *= (u64)v; }
  int ok = !bad && ((nneg == 0 && p == numel) || (nneg == 1 && numel % p == 0));
  if (ok) for (int i = 0; i < 4; i++) if ((u64)i < nd) e[i] = ((i32)d[i] == -1) ? numel / p : (u64)(i32)d[i];
  return ok;
}
void h_shape_reshape(void){
  u64 a[4], o[4] = {0}, no = 0, e[4] = {0}; u32 d[4];
  u64 na = in_shape(a), nd = in_u64(0, 4), numel = 1;
  for (int i = 0; i < 4; i++) if ((u64)i < na) numel *= a[i];
  for (int i = 0; i < 4; i++) d[i] = (u32)in_i32(LO, HI);
#ifdef KF_C15_RESHAPE_SCALAR_TARGET
  ASSUME(!(nd == 0 && numel == 1));
#endif
  int ok = np_reshape(numel, d, nd, e);   /* extents >= 1, so numel >= 1 and every 0 or negative (other than one -1) entry is an error in NumPy */
  int r = k_shape_reshape(a, na, d, nd, o, &no);
  ASSERT((r != 0) == (ok != 0), "shape_reshape has a value iff NumPy accepts the target (<= one -1, no 0/negative extent, element count preserved)");
  if (r){ ASSERT(no == nd, "dim"); for (int i = 0; i < 4; i++) if ((u64)i < nd) ASSERT(o[i] == e[i], "extent (with -1 inferred)"); }
  OBS(r); OBS(no); OBS(o[0]);
  REACHED();
}
void h_shape_reshape_maybe(void){
  u64 a[4], o[4] = {0}, no = 0, e[4] = {0}; u32 d[4];
  u32 src_ok = in_u32(0, 1);
  u64 na = in_shape(a), nd = in_u64(1, 4), numel = 1;
  for (int i = 0; i < 4; i++) if ((u64)i < na) numel *= a[i];
  for (int i = 0; i < 4; i++) d[i] = (u32)in_i32(LO, HI);
  int ok = src_ok && np_reshape(numel, d, nd, e);
  int r = k_shape_reshape_maybe(src_ok, a, na, d, nd, o, &no);
  ASSERT((r != 0) == (ok != 0), "a Nothing source shape stays Nothing; otherwise as shape_reshape");
  if (r){ ASSERT(no == nd, "dim"); for (int i = 0; i < 4; i++) if ((u64)i < nd) ASSERT(o[i] == e[i], "extent"); }
  OBS(r); OBS(no);
  REACHED();
}

void h_normalize_axis(void){
  i32 n = in_i32(0, MAXD), ax = in_i32(-MAXD-2, MAXD+1); u64 o = 99, o2 = 99;
  ASSUME(-n-2 <= ax && ax <= n+1);
  int ok = axis_ok(ax, n);
  int r = k_normalize_axis((u32)ax, (u32)n, &o);
  int r2 = k_normalize_axis_u((u32)ax, (u64)n, &o2);
  ASSERT((r != 0) == ok, "normalize_axis(int,int) has a value iff -ndim <= axis < ndim");
  ASSERT((r2 != 0) == ok, "normalize_axis(int,size_t) has a value iff -ndim <= axis < ndim");
  if (r) ASSERT(o == (u64)norm_axis(ax, n), "normalized axis");
  if (r2) ASSERT(o2 == (u64)norm_axis(ax, n), "normalized axis (unsigned ndim)");
  OBS(r); OBS(o); OBS(r2); OBS(o2);
  REACHED();
}
void h_normalize_axes(void){
  u32 ax[4]; u64 o[4] = {0}, no = 0, o3[4] = {0}, no3 = 0;
  i32 n = in_i32(0, MAXD); u64 m = in_u64(0, 4);
  for (int i = 0; i < 4; i++){ i32 v = in_i32(-MAXD-2, MAXD+1); ASSUME(-n-2 <= v && v <= n+1); ax[i] = (u32)v; }
  int ok = 1, ok3 = 1;
  for (int i = 0; i < 4; i++){ if ((u64)i < m && !axis_ok((i32)ax[i], n)) ok = 0; if (i < 3 && !axis_ok((i32)ax[i], n)) ok3 = 0; }
  int r = k_normalize_axes(ax, m, (u32)n, o, &no);
  ASSERT((r != 0) == ok, "normalize_axis(list) has a value iff every entry is in [-ndim, ndim) (duplicates allowed, as numpy normalize_axis_tuple(allow_duplicate=True))");
  if (r){ ASSERT(no == m, "length kept"); for (int i = 0; i < 4; i++) if ((u64)i < m) ASSERT(o[i] == (u64)norm_axis((i32)ax[i], n), "entry normalized"); }
  int r3 = k_normalize_axes_arr3(ax, (u64)n, o3, &no3);
  ASSERT((r3 != 0) == ok3, "normalize_axis(array<int,3>, size_t)");
  if (r3){ ASSERT(no3 == 3, "length kept"); for (int i = 0; i < 3; i++) ASSERT(o3[i] == (u64)norm_axis((i32)ax[i], n), "entry normalized"); }
  OBS(r); OBS(no); OBS(o[0]); OBS(r3);
  REACHED();
}

/* NumPy moveaxis order: order = [k for k in range(n) if k not in src]; for d, s in sorted(zip(dst, src)): order.insert(d, s) */
static void np_moveaxis_order(u64 n, const u64* src, const u64* dst, u64 m, u64* order){
  u64 len = 0;
  for (u64 k = 0; k < 4; k++) if (k < n){ int in = 0; for (u64 j = 0; j < 4; j++) if (j < m && src[j] == k) in = 1; if (!in) order[len++] = k; }
  for (u64 d = 0; d < 4; d++)           /* destinations are distinct, so sorting by destination == scanning d upwards */
    for (u64 j = 0; j < 4; j++) if (j < m && dst[j] == d){
      for (u64 t = 3; t > 0; t--) if (t > d && t <= len) order[t] = order[t-1];
      order[d] = src[j]; len++; }
}
void h_moveaxis_to_transpose(void){
  u64 s[4], o[4] = {0}, no = 0, e[4] = {0}, sn[1], dn[1];
  u64 n = in_shape(s);
  i32 src = in_i32(-MAXD-2, MAXD+1), dst = in_i32(-MAXD-2, MAXD+1);
  ASSUME(-(i32)n-2 <= src && src <= (i32)n+1 && -(i32)n-2 <= dst && dst <= (i32)n+1);
  int ok = axis_ok(src, (i32)n) && axis_ok(dst, (i32)n);
  int r = k_moveaxis_to_transpose(s, n, (u32)src, (u32)dst, o, &no);
  ASSERT((r != 0) == ok, "moveaxis_to_transpose(int,int) has a value iff both axes are in [-ndim, ndim)");
  if (r){ sn[0] = (u64)norm_axis(src, (i32)n); dn[0] = (u64)norm_axis(dst, (i32)n); np_moveaxis_order(n, sn, dn, 1, e);
    ASSERT(no == n, "dim"); for (int i = 0; i < 4; i++) if ((u64)i < n) ASSERT(o[i] == e[i], "NumPy moveaxis order"); }
  OBS(r); OBS(no); OBS(o[0]);
  REACHED();
}
void h_moveaxis_to_transpose_list(void){
  u64 s[4], o[4] = {0}, no = 0, e[4] = {0}, sn[4] = {0}, dn[4] = {0}; u32 src[4], dst[4];
  u64 n = in_shape(s), ms = in_u64(0, 4), md = in_u64(0, 4);
  for (int i = 0; i < 4; i++){ i32 v = in_i32(-MAXD-2, MAXD+1), w = in_i32(-MAXD-2, MAXD+1);
    ASSUME(-(i32)n-2 <= v && v <= (i32)n+1 && -(i32)n-2 <= w && w <= (i32)n+1); src[i] = (u32)v; dst[i] = (u32)w; }
  int ok = ms == md;
  for (int i = 0; i < 4; i++){ if ((u64)i < ms && !axis_ok((i32)src[i], (i32)n)) ok = 0; if ((u64)i < md && !axis_ok((i32)dst[i], (i32)n)) ok = 0; }
  if (ok) for (int i = 0; i < 4; i++) if ((u64)i < ms){ sn[i] = (u64)norm_axis((i32)src[i], (i32)n); dn[i] = (u64)norm_axis((i32)dst[i], (i32)n); }
  if (ok) for (int i = 0; i < 4; i++) for (int j = 0; j < i; j++) if ((u64)i < ms && (sn[i] == sn[j] || dn[i] == dn[j])) ok = 0;   /* "repeated axis" */
#ifdef KF_C15_MOVEAXIS_REPEATED_AXIS
  { int in_range = ms == md; for (int i = 0; i < 4; i++){ if ((u64)i < ms && !axis_ok((i32)src[i], (i32)n)) in_range = 0; if ((u64)i < md && !axis_ok((i32)dst[i], (i32)n)) in_range = 0; }
    ASSUME(!(in_range && !ok)); }
#endif
  int r = k_moveaxis_to_transpose_list(s, n, src, ms, dst, md, o, &no);
  ASSERT((r != 0) == ok, "moveaxis_to_transpose(list,list) has a value iff NumPy accepts: equal lengths, axes in range, no repeated axis in source or destination");
  if (r){ np_moveaxis_order(n, sn, dn, ms, e);
    ASSERT(no == n, "dim"); for (int i = 0; i < 4; i++) if ((u64)i < n) ASSERT(o[i] == e[i], "NumPy moveaxis order"); }
  OBS(r); OBS(no); OBS(o[0]);
  REACHED();
}

void h_shape_pad(void){
  u64 s[4], p[8], o[4] = {0}, no = 0;
  u64 n = in_shape(s), np_ = in_u64(0, 8);
  for (int i = 0; i < 8; i++) p[i] = in_u64(0, 3);
  int ok = np_ == 2*n;
  int r = k_shape_pad(s, n, p, np_, o, &no);
  ASSERT((r != 0) == ok, "shape_pad has a value iff there is one (begin,end) pair of widths per axis");
  if (r){ ASSERT(no == n, "dim"); for (u64 i = 0; i < 4; i++) if (i < n) ASSERT(o[i] == s[i] + p[i] + p[n+i], "extent + begin + end"); }
  OBS(r); OBS(no); OBS(o[0]);
  REACHED();
}
void h_shape_roll(void){
  u64 s[4], o[4] = {0}, no = 0;
  u64 n = in_shape(s);
  i32 shift = in_i32(-9, 9), ax = in_i32(-MAXD-2, MAXD+1);
  ASSUME(-(i32)n-2 <= ax && ax <= (i32)n+1);
  int ok = axis_ok(ax, (i32)n);
  int r = k_shape_roll(s, n, (u32)shift, (u32)ax, o, &no);
  ASSERT((r != 0) == ok, "shape_roll(shift, axis) has a value iff the axis is in [-ndim, ndim)");
  if (r){ ASSERT(no == n, "dim"); for (u64 i = 0; i < 4; i++) if (i < n) ASSERT(o[i] == s[i], "roll keeps the shape"); }
  OBS(r); OBS(no);
  REACHED();
}
void h_shape_roll_list(void){
  u64 s[4], o[4] = {0}, no = 0; u32 sh[4], ax[4];
  u64 n = in_shape(s), m = in_u64(0, 4);
  int ok = 1;
  for (int i = 0; i < 4; i++){ i32 v = in_i32(-MAXD-2, MAXD+1); ASSUME(-(i32)n-2 <= v && v <= (i32)n+1); ax[i] = (u32)v; sh[i] = (u32)in_i32(-9, 9);
    if ((u64)i < m && !axis_ok(v, (i32)n)) ok = 0; }
  int r = k_shape_roll_list(s, n, sh, ax, m, o, &no);
  ASSERT((r != 0) == ok, "shape_roll(shifts, axes) has a value iff every axis is in range (np.roll allows repeated axes)");
  if (r){ ASSERT(no == n, "dim"); for (u64 i = 0; i < 4; i++) if (i < n) ASSERT(o[i] == s[i], "roll keeps the shape"); }
  OBS(r); OBS(no);
  REACHED();
}
void h_shape_resize(void){
  u64 s[4], o[4] = {0}, no = 0; u32 d[4];
  u64 n = in_shape(s), nd = in_u64(0, 4);
  int ok = nd == n;
  for (int i = 0; i < 4; i++){ i32 v = in_i32(LO, HI); d[i] = (u32)v; if ((u64)i < nd && v <= 0) ok = 0; }
  int r = k_shape_resize(s, n, d, nd, o, &no);
  ASSERT((r != 0) == ok, "shape_resize has a value iff the target has the source's dim and only positive extents");
  if (r){ ASSERT(no == nd, "dim"); for (u64 i = 0; i < 4; i++) if (i < nd) ASSERT(o[i] == (u64)(i32)d[i], "extent"); }
  OBS(r); OBS(no);
  REACHED();
}
void h_shape_atleast_nd_maybe(void){
  u64 s[4], o[8] = {0}, no = 0;
  u32 src_ok = in_u32(0, 1);
  u64 n = in_shape(s), nd = in_u64(0, 4);
  int r = k_shape_atleast_nd_maybe(src_ok, s, n, nd, o, &no);
  ASSERT((r != 0) == (src_ok != 0), "shape_atleast_nd of a Nothing shape is Nothing, of a shape always a value");
  if (r){ u64 rd = n > nd ? n : nd, pre = rd - n; ASSERT(no == rd, "dim == max(dim, nd)");
    for (u64 i = 0; i < 4; i++) if (i < rd) ASSERT(o[i] == (i < pre ? 1 : s[i-pre]), "ones prepended"); }
  OBS(r); OBS(no);
  REACHED();
}
void h_shape_concatenate(void){
  u64 a[4], b[4], o[4] = {0}, no = 0;
  u64 na = in_shape(a), nb = in_shape(b);
  i32 ax = in_i32(-MAXD-2, MAXD+1);
  ASSUME(-(i32)na-2 <= ax && ax <= (i32)na+1);
  int ok = na == nb && na >= 1 && axis_ok(ax, (i32)na);
  u64 an = ok ? (u64)norm_axis(ax, (i32)na) : 0;
  if (ok) for (u64 i = 0; i < 4; i++) if (i < na && i != an && a[i] != b[i]) ok = 0;
#ifdef KF_C15_CONCATENATE_AXIS
  ASSUME(!(ax < 0 || ax >= (i32)na));           /* excluded region: negative or out-of-range axis (includes every call with 0-d operands) */
#endif
  int r = k_shape_concatenate(a, na, b, nb, (u32)ax, o, &no);
  ASSERT((r != 0) == ok, "shape_concatenate succeeds iff np.concatenate accepts: same dim >= 1, axis in [-ndim, ndim), equal extents off the axis");
  if (r){ ASSERT(no == na, "dim"); for (u64 i = 0; i < 4; i++) if (i < na) ASSERT(o[i] == (i == an ? a[i] + b[i] : a[i]), "extent (sum on the axis)"); }
  OBS(r); OBS(no); OBS(o[0]);
  REACHED();
}

/* NumPy matmul: 1-d operands are promoted (prepend / append a 1) and the added axis is removed afterwards; batch axes broadcast */
static int np_matmul_shape(const u64* a, u64 na, const u64* b, u64 nb, u64* e, u64* ne){
  if (na == 0 || nb == 0) return 0;
  u64 ar = na == 1 ? 1 : a[na-2], ac = a[na-1];
  u64 br = nb == 1 ? b[0] : b[nb-2], bc = nb == 1 ? 1 : b[nb-1];
  u64 nba = na >= 2 ? na - 2 : 0, nbb = nb >= 2 ? nb - 2 : 0, bs[4] = {0}, nbs = 0;
  int ok = np_broadcast(a, nba, b, nbb, bs, &nbs) && ac == br;
  u64 k = 0;
  for (u64 i = 0; i < 4; i++) if (i < nbs) e[k++] = bs[i];
  if (na >= 2) e[k++] = ar;
  if (nb >= 2) e[k++] = bc;
  *ne = k; return ok;
}
void h_shape_matmul(void){
  u64 a[4], b[4], o[4] = {0}, no = 0, e[5] = {0}, ne = 0;
  u64 na = in_shape(a), nb = in_shape(b);
#ifdef KF_C15_MATMUL_0D
  ASSUME(!(na == 0 || nb == 0));        /* excluded region: a 0-d operand (shape_matmul indexes the empty shape) */
#endif
  int ok = np_matmul_shape(a, na, b, nb, e, &ne);
  int r = k_shape_matmul(a, na, b, nb, o, &no);
  ASSERT((r != 0) == ok, "shape_matmul has a value iff np.matmul accepts: no 0-d operand, contracted extents agree, batch axes broadcast");
  if (r){ ASSERT(no == ne, "dim"); for (u64 i = 0; i < 4; i++) if (i < ne) ASSERT(o[i] == e[i], "extent"); }
  OBS(r); OBS(no); OBS(o[0]);
  REACHED();
}
