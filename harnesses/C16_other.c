/* C16: outer, vecdot, trace, dot, inner, kron, tensordot = their NumPy definitions. One routine per query (-DR_<NAME>), operand
 * shapes are per-query constants (NA,A0..A2 / NB,B0..B2), uint8 data and the output index symbolic (wrap-around arithmetic mod 256). */
#include "harness.h"
#include "C16_util.h"
#if defined(R_OUTER)
#include "C16_outer.h"
#elif defined(R_VECDOT)
#include "C16_vecdot.h"
#elif defined(R_TRACE)
#include "C16_trace.h"
#elif defined(R_DOT)
#include "C16_dot.h"
#elif defined(R_INNER)
#include "C16_inner.h"
#elif defined(R_KRON)
#include "C16_kron.h"
#elif defined(R_TENSORDOT)
#include "C16_tensordot.h"
#endif
#ifndef NB
#define NB 1
#define B0 1
#endif
#define K2(name) CAT(CAT(CAT(k_,name),_),CAT(NA,NB))
#ifdef SYMSHAPE   /* shape-only mode: extents symbolic 1..MAXE (dims NA, NB stay per-query constants), no element is read (index of a wrong length) */
#undef A0
#undef A1
#undef A2
#undef B0
#undef B1
#undef B2
#define A0 1
#define A1 1
#define A2 1
#define B0 1
#define B1 1
#define B2 1
#ifndef MAXE
#define MAXE 4
#endif
#define NIDX(n) 7
#define RET_OK 2
#define AGREE(c, msg) ASSUME(c)
#define EL_ASSERT(c, msg) ((void)0)
#else
#define NIDX(n) (n)
#define RET_OK 1
#define AGREE(c, msg) ASSERT(c, msg)
#define EL_ASSERT(c, msg) ASSERT(c, msg)
#endif
static u64 sa[3] = {A0, A1, A2}, sb[3] = {B0, B1, B2};
static u8 da[16], db[16];
static u64 idx[4], os[4], od; static u8 out;
/* draws data and an index inside the expected shape e (dim ne) */
#ifdef SYMSHAPE
static void sym_shapes(void){ for (u64 i = 0; i < 3; i++){ u64 v = in_u64(1, MAXE); if (i < NA) sa[i] = v; } for (u64 i = 0; i < 3; i++){ u64 v = in_u64(1, MAXE); if (i < NB) sb[i] = v; }
  ASSUME(numel(sa, NA) <= 16 && numel(sb, NB) <= 16); }
static void draw(const u64* e, u64 ne){ (void)e; (void)ne; }
#else
static void sym_shapes(void){}
static void draw(const u64* e, u64 ne){ in_data8(da, 16); in_data8(db, 16); for (u64 i = 0; i < 4; i++){ idx[i] = in_u64(0, 15); ASSUME(i < ne ? idx[i] < e[i] : idx[i] == 0); } }
#endif
static void check_shape(int r, const u64* e, u64 ne){ ASSERT(r == RET_OK, "has a value"); ASSERT(od == ne, "dim of the NumPy result"); for (u64 i = 0; i < 4; i++) if (i < ne) ASSERT(os[i] == e[i], "extent of the NumPy result"); }
static u64 flat(const u64* i, const u64* s, u64 n){ u64 o = 0; for (u64 t = 0; t < 3; t++) if (t < n) o = o * s[t] + i[t]; return o; }

#if defined(R_OUTER)
void h_outer(void){   /* np.outer flattens both operands: out[i,j] = a.flat[i] * b.flat[j] */
  sym_shapes();
  u64 e[2] = { numel(sa, NA), numel(sb, NB) }; draw(e, 2);
  int r = K2(outer)(sa, da, sb, db, idx, NIDX(2), os, &od, &out); check_shape(r, e, 2);
  EL_ASSERT(out == (u8)(da[idx[0]] * db[idx[1]]), "outer element");
  OBS(out); OBS(od); OBS(os[0]); REACHED();
}
#elif defined(R_VECDOT)
void h_vecdot(void){  /* broadcast, multiply, sum over the last axis */
  sym_shapes();
  u64 be[4] = {0}, nbe = 0; int ok = np_broadcast(sa, NA, sb, NB, be, &nbe); AGREE(ok, "query shapes broadcast");
  u64 ne = nbe - 1; draw(be, ne);
  int r = K2(vecdot)(sa, da, sb, db, idx, NIDX(ne), os, &od, &out); check_shape(r, be, ne);
  u8 acc = 0; u64 K_ = be[nbe-1], full[4];
  for (u64 k = 0; k < 4; k++) if (k < K_){ for (u64 t = 0; t < 4; t++) full[t] = t < ne ? idx[t] : 0; full[ne] = k;
    u64 pa = 0, pb = 0; for (u64 t = 0; t < NA; t++) pa = pa * sa[t] + (sa[t] == 1 ? 0 : full[t + nbe - NA]); for (u64 t = 0; t < NB; t++) pb = pb * sb[t] + (sb[t] == 1 ? 0 : full[t + nbe - NB]);
    acc = (u8)(acc + (u8)(da[pa] * db[pb])); }
  EL_ASSERT(out == acc, "vecdot element == sum over the last (broadcast) axis");
  OBS(out); OBS(od); OBS(os[0]); REACHED();
}
#elif defined(R_TRACE)
void h_trace(void){   /* offset 0, axes (0,1): sum_i a[i,i,...] */
  sym_shapes();
  u64 e[1] = { sa[2] }, ne = NA - 2; draw(e, ne);
  int r = CAT(k_trace_, NA)(sa, da, idx, NIDX(ne), os, &od, &out); check_shape(r, e, ne);
  u64 m = sa[0] < sa[1] ? sa[0] : sa[1]; u8 acc = 0;
  for (u64 i = 0; i < 4; i++) if (i < m){ u64 ii[3] = { i, i, idx[0] }; acc = (u8)(acc + da[flat(ii, sa, NA)]); }
  EL_ASSERT(out == acc, "trace element == sum of the main diagonal");
  OBS(out); OBS(od); OBS(os[0]); REACHED();
}
/* trace(a, offset) of a 2-d array: sum_i a[i - min(offset,0), i + max(offset,0)] (np.trace); offset symbolic over every diagonal that has at least one element */
void h_trace_offset(void){
  sym_shapes();
  i32 off = in_i32(-3, 3); ASSUME(off > -(i32)sa[0] && off < (i32)sa[1]);
  u64 idx0[4] = {0};
  int r = k_trace_2o(sa, da, (u32)off, idx0, 0, os, &od, &out);
  ASSERT(r == 1 && od == 0, "trace of a 2-d array is a number");
  u8 acc = 0;
  for (u64 i = 0; i < 4; i++){ i64 rr = (i64)i - (off < 0 ? off : 0), cc = (i64)i + (off > 0 ? off : 0); if (rr < (i64)sa[0] && cc < (i64)sa[1]) acc = (u8)(acc + da[rr*sa[1] + cc]); }
  EL_ASSERT(out == acc, "trace(a, offset) == sum of the offset diagonal");
  OBS(out); REACHED();
}
#elif defined(R_DOT) || defined(R_INNER)
/* dot: sum over the last axis of a and the second-to-last of b (last if b is 1-d); inner: over both last axes */
void h_dotlike(void){
  sym_shapes();
  u64 e[4] = {0}, ne = 0, K_ = sa[NA-1];
#if defined(R_DOT)
  u64 bk = NB >= 2 ? NB - 2 : 0;            /* contracted axis of b */
#else
  u64 bk = NB - 1;
#endif
  AGREE(sb[bk] == K_, "query shapes agree on the contracted extent");
  for (u64 t = 0; t + 1 < NA; t++) e[ne++] = sa[t];
  for (u64 t = 0; t < NB; t++) if (t != bk) e[ne++] = sb[t];
  draw(e, ne);
#if defined(R_DOT)
  int r = K2(dot)(sa, da, sb, db, idx, NIDX(ne), os, &od, &out);
#else
  int r = K2(inner)(sa, da, sb, db, idx, NIDX(ne), os, &od, &out);
#endif
  check_shape(r, e, ne);
  u8 acc = 0;
  for (u64 k = 0; k < 4; k++) if (k < K_){ u64 ia[3] = {0}, ib[3] = {0}, p = 0;
    for (u64 t = 0; t + 1 < NA; t++) ia[t] = idx[p++]; ia[NA-1] = k;
    for (u64 t = 0; t < NB; t++) ib[t] = (t == bk) ? k : idx[p++];
    acc = (u8)(acc + (u8)(da[flat(ia, sa, NA)] * db[flat(ib, sb, NB)])); }
  EL_ASSERT(out == acc, "element == sum of products over exactly the contracted axis");
  OBS(out); OBS(od); OBS(os[0]); REACHED();
}
#elif defined(R_KRON)
void h_kron(void){    /* same dim operands: out[i*b + k, ...] = a[i,...] * b[k,...] */
  sym_shapes();
  u64 e[3] = {0}; for (u64 t = 0; t < NA; t++) e[t] = sa[t] * sb[t]; draw(e, NA);
  int r = K2(kron)(sa, da, sb, db, idx, NIDX(NA), os, &od, &out); check_shape(r, e, NA);
  u64 ia[3] = {0}, ib[3] = {0}; for (u64 t = 0; t < NA; t++){ ia[t] = idx[t] / sb[t]; ib[t] = idx[t] % sb[t]; }
  EL_ASSERT(out == (u8)(da[flat(ia, sa, NA)] * db[flat(ib, sb, NB)]), "kron element");
  OBS(out); OBS(od); OBS(os[0]); REACHED();
}
#elif defined(R_TENSORDOT)
#ifndef AXES
#define AXES 1
#endif
void h_tensordot(void){   /* integer axes N: contract the last N axes of a with the first N axes of b, in order */
  sym_shapes();
  u64 e[4] = {0}, ne = 0;
  for (u64 t = 0; t < AXES; t++) AGREE(sa[NA-AXES+t] == sb[t], "query shapes agree on the contracted extents");
  for (u64 t = 0; t + AXES < NA; t++) e[ne++] = sa[t];
  for (u64 t = AXES; t < NB; t++) e[ne++] = sb[t];
  draw(e, ne);
  int r = CAT(CAT(CAT(CAT(k_tensordot, AXES), _), NA), NB)(sa, da, sb, db, idx, NIDX(ne), os, &od, &out); check_shape(r, e, ne);
  u64 K_ = 1; for (u64 t = 0; t < AXES; t++) K_ *= sb[t];
  u8 acc = 0;
  for (u64 k = 0; k < 16; k++) if (k < K_){ u64 ia[3] = {0}, ib[3] = {0}, p = 0, kk = k, c[2] = {0};
    for (u64 t = AXES; t-- > 0; ){ c[t] = kk % sb[t]; kk /= sb[t]; }
    for (u64 t = 0; t + AXES < NA; t++) ia[t] = idx[p++]; for (u64 t = 0; t < AXES; t++) ia[NA-AXES+t] = c[t];
    for (u64 t = 0; t < AXES; t++) ib[t] = c[t]; for (u64 t = AXES; t < NB; t++) ib[t] = idx[p++];
    acc = (u8)(acc + (u8)(da[flat(ia, sa, NA)] * db[flat(ib, sb, NB)])); }
  EL_ASSERT(out == acc, "tensordot element == sum of products over exactly the contracted axes");
  OBS(out); OBS(od); OBS(os[0]); REACHED();
}
#endif

/* operands of different element types, 1-d (N cells each; WIDE selects which side is uint16 = 256 + byte): element type of the result is a common type of both (uint16 or int, never uint8), element == the definition evaluated in that type */
#if !defined(R_TRACE) && !defined(SYMSHAPE)
#ifndef WIDE
#define WIDE 0
#endif
#define KMIX2(name, w) CAT(CAT(CAT(k_,name),_mix_),w)
#if defined(R_OUTER)
#define MIXCALL(w) KMIX2(outer, w)
#elif defined(R_VECDOT)
#define MIXCALL(w) KMIX2(vecdot, w)
#elif defined(R_DOT)
#define MIXCALL(w) KMIX2(dot, w)
#elif defined(R_INNER)
#define MIXCALL(w) KMIX2(inner, w)
#elif defined(R_KRON)
#define MIXCALL(w) KMIX2(kron, w)
#else
#define MIXCALL(w) KMIX2(tensordot, w)
#endif
void h_mixed(void){
  u64 s1[1] = {A0}, midx[4] = {0}, mos[4] = {0}, mod_ = 9, esz = 0; u8 xa[16], xb[16]; u32 mout = 0;
  in_data8(xa, 16); in_data8(xb, 16);
  u64 i = in_u64(0, 15), j = in_u64(0, 15);
#if defined(R_OUTER)
  ASSUME(i < A0 && j < A0); midx[0] = i; midx[1] = j; u64 nidx = 2;
#elif defined(R_KRON)
  ASSUME(i < A0 * A0); j = 0; midx[0] = i; u64 nidx = 1;
#else
  i = 0; j = 0; u64 nidx = 0;
#endif
  int r = WIDE ? MIXCALL(wn)(s1, xa, s1, xb, midx, nidx, mos, &mod_, &mout, &esz) : MIXCALL(nw)(s1, xa, s1, xb, midx, nidx, mos, &mod_, &mout, &esz);
  ASSERT(r == 1, "has a value");
  /* uint16 (NumPy's common type, used by the reduction-based routines) or int (what C yields for uint8 * uint16, used by the ufunc-based ones): never the narrower operand's type */
  ASSERT(esz == 2 || esz == 4, "element type of the result is a common type of both operand element types (uint16 or int), not the narrower operand type");
#define INTYPE(v) (esz == 2 ? (u32)(u16)(v) : (u32)(v))
#define XA(k) ((u32)xa[k] + (WIDE ? 256u : 0u))
#define XB(k) ((u32)xb[k] + (WIDE ? 0u : 256u))
#if defined(R_OUTER)
  ASSERT(mout == INTYPE(XA(i) * XB(j)), "outer element in the reported common type");
#elif defined(R_KRON)
  ASSERT(mout == INTYPE(XA(i / A0) * XB(i % A0)), "kron element in the reported common type");
#else
  { u32 acc = 0; for (u64 k = 0; k < 4; k++) if (k < A0) acc += XA(k) * XB(k); ASSERT(mout == INTYPE(acc), "sum of products in the reported common type"); }
#endif
  OBS(mout); OBS(esz); REACHED();
}
#endif
