/* C01: multi-index <-> flat offset addressing is an order-preserving bijection */
#include "harness.h"
#include "C01_index.h"
#ifndef N
#define N 3
#endif
#ifndef MAXE
#define MAXE 4
#endif
#define CAT2(a,b) a##b
#define CAT(a,b) CAT2(a,b)

/* fixed-dimension std::array shapes, dim N, every extent in 1..MAXE, every offset and every multi-index */
void h_arr(void){
  u64 shape[N], idx[N], st[N], nd[N], idx2[N], back[N];
  u64 total = 1;
  for (int i = 0; i < N; i++){ shape[i] = in_u64(1, MAXE); total *= shape[i]; }
  u64 off = in_u64(0, (u64)-1); ASSUME(off < total);
  CAT(k_strides_arr,N)(shape, st);
  u64 suf = 1;
  for (int i = N-1; i >= 0; i--){ ASSERT(st[i] == suf, "stride == product of trailing extents"); suf *= shape[i]; }
  CAT(k_indices_arr,N)(off, shape, idx);
  u64 horner = 0;
  for (int i = 0; i < N; i++){ ASSERT(idx[i] < shape[i], "index inside shape"); horner = horner * shape[i] + idx[i]; OBS(idx[i]); }
  ASSERT(horner == off, "offset is the row-major (Horner) position of its multi-index");
  ASSERT(CAT(k_offset_arr,N)(idx, shape) == off, "offset(indices(off)) == off");
  u64 sz = CAT(k_ndindex_arr,N)(off, shape, nd);
  ASSERT(sz == total, "ndindex size == product of shape");
  for (int i = 0; i < N; i++) ASSERT(nd[i] == idx[i], "ndindex[off] == compute_indices(off)");
  /* other direction: any multi-index inside the shape */
  for (int i = 0; i < N; i++){ idx2[i] = in_u64(0, MAXE-1); ASSUME(idx2[i] < shape[i]); }
  u64 off2 = CAT(k_offset_arr,N)(idx2, shape);
  ASSERT(off2 < total, "offset of an in-shape index is below the element count");
  CAT(k_indices_arr,N)(off2, shape, back);
  for (int i = 0; i < N; i++) ASSERT(back[i] == idx2[i], "indices(offset(idx)) == idx");
  /* order: off < off2  <=>  idx <_lex idx2 */
  int lt = 0, decided = 0;
  for (int i = 0; i < N; i++) if (!decided && idx[i] != idx2[i]){ decided = 1; lt = idx[i] < idx2[i]; }
  ASSERT((off < off2) == (decided && lt), "enumeration order is C (lexicographic) order");
  ASSERT((off == off2) == !decided, "distinct offsets <-> distinct multi-indices");
  REACHED();
}

/* run-time dimension containers: bounded static_vector (KIND==0) and std::vector (KIND==1), dim 1..MAXD */
#ifndef MAXD
#define MAXD 4
#endif
#ifndef KIND
#define KIND 0
#endif
#if KIND == 0
#define KS k_strides_sv
#define KI k_indices_sv
#define KO k_offset_sv
#else
#define KS k_strides_vec
#define KI k_indices_vec
#define KO k_offset_vec
#endif
void h_dyn(void){
  u64 shape[6], idx[6], st[6], idx2[6], back[6];
  u64 n = in_u64(1, MAXD);
  u64 total = 1;
  for (int i = 0; i < MAXD; i++){ shape[i] = in_u64(1, MAXE); if ((u64)i < n) total *= shape[i]; }
  u64 off = in_u64(0, (u64)-1); ASSUME(off < total);
  ASSERT(KS(shape, n, st) == n, "strides has the dimension of the shape");
  u64 suf = 1;
  for (int i = MAXD-1; i >= 0; i--) if ((u64)i < n){ ASSERT(st[i] == suf, "stride == product of trailing extents"); suf *= shape[i]; }
  ASSERT(KI(off, shape, n, idx) == n, "indices has the dimension of the shape");
  u64 horner = 0;
  for (int i = 0; i < MAXD; i++) if ((u64)i < n){ ASSERT(idx[i] < shape[i], "index inside shape"); horner = horner * shape[i] + idx[i]; OBS(idx[i]); }
  ASSERT(horner == off, "offset is the row-major (Horner) position of its multi-index");
  ASSERT(KO(idx, shape, n) == off, "offset(indices(off)) == off");
  for (int i = 0; i < MAXD; i++){ idx2[i] = in_u64(0, MAXE-1); ASSUME((u64)i >= n || idx2[i] < shape[i]); }
  u64 off2 = KO(idx2, shape, n);
  ASSERT(off2 < total, "offset of an in-shape index is below the element count");
  KI(off2, shape, n, back);
  for (int i = 0; i < MAXD; i++) if ((u64)i < n) ASSERT(back[i] == idx2[i], "indices(offset(idx)) == idx");
#if KIND == 0
  u64 nd[6], tot2;
  ASSERT(k_ndindex_sv(off, shape, n, nd, &tot2) == n && tot2 == total, "ndindex size/dim");
  for (int i = 0; i < MAXD; i++) if ((u64)i < n) ASSERT(nd[i] == idx[i], "ndindex[off] == compute_indices(off)");
  ASSERT(k_product_sv(shape, n) == total, "product(shape)");
#endif
  REACHED();
}

/* tuple-of-run-time-values shapes, dim 3 */
void h_tuple3(void){
  u64 shape[3], idx[3];
  for (int i = 0; i < 3; i++) shape[i] = in_u64(1, MAXE);
  u64 total = shape[0]*shape[1]*shape[2];
  u64 off = in_u64(0, (u64)-1); ASSUME(off < total);
  k_indices_tuple3(off, shape, idx);
  for (int i = 0; i < 3; i++){ ASSERT(idx[i] < shape[i], "index inside shape"); OBS(idx[i]); }
  ASSERT((idx[0]*shape[1]+idx[1])*shape[2]+idx[2] == off, "Horner");
  ASSERT(k_offset_tuple3(idx, shape) == off, "offset(indices(off)) == off");
  REACHED();
}

/* compile-time constant offset and shape (2,3,4): all 24 instantiations are produced by the kernel; a SYMBOLIC offset selects which one is compared with the
 * run-time function and with the Horner form, so every instantiation is covered by one query */
void h_ct234(void){
  u64 out[72] = {0}, back[24] = {0}, rt[3] = {0}, shape[3] = {2, 3, 4};
  u64 off = in_u64(0, 23);
  k_indices_ct234(out, back);
  k_indices_arr3(off, shape, rt);
  for (int i = 0; i < 3; i++){ ASSERT(out[3*off + i] == rt[i], "constant-offset indices == run-time indices"); ASSERT(out[3*off + i] < shape[i], "index inside the shape"); }
  ASSERT((out[3*off]*3 + out[3*off + 1])*4 + out[3*off + 2] == off, "Horner: the constant-offset result is the row-major multi-index of the offset");
  ASSERT(back[off] == off, "offset(indices(off)) == off for constant operands");
  OBS(out[3*off]); REACHED();
}
/* concrete (huge) shape per query, symbolic offset over the whole shape: SH0..SH5 are per-query constants */
#ifdef SH0
void h_big(void){
  u64 shape[N] = { SH0
#if N > 1
   , SH1
#endif
#if N > 2
   , SH2
#endif
#if N > 3
   , SH3
#endif
#if N > 4
   , SH4
#endif
#if N > 5
   , SH5
#endif
  };
  u64 idx[N]; u64 total = 1;
  for (int i = 0; i < N; i++) total *= shape[i];
  u64 off = in_u64(0, (u64)-1); ASSUME(off < total);
  CAT(k_indices_arr,N)(off, shape, idx);
  u64 horner = 0;
  for (int i = 0; i < N; i++){ ASSERT(idx[i] < shape[i], "index inside shape"); horner = horner * shape[i] + idx[i]; OBS(idx[i]); }
  ASSERT(horner == off, "Horner");
  ASSERT(CAT(k_offset_arr,N)(idx, shape) == off, "offset(indices(off)) == off");
  REACHED();
}
#endif

/* both buffer layouts address the same logical element; positions are the respective Horner forms */
void h_layout3(void){
  u64 shape[3], wi[3], ri[3], rs[3], cs[3], rp, cp, rwp, cwp; u32 rv, cv;
  for (int i = 0; i < 3; i++) shape[i] = in_u64(1, MAXE);
  for (int i = 0; i < 3; i++){ wi[i] = in_u64(0, MAXE-1); ASSUME(wi[i] < shape[i]); }
  for (int i = 0; i < 3; i++){ ri[i] = in_u64(0, MAXE-1); ASSUME(ri[i] < shape[i]); }
  u32 wv = in_u32(1, 0xffffffffu);
  int r = k_layout3(shape, wi, wv, ri, &rv, &cv, &rp, &cp, &rwp, &cwp, rs, cs);
  ASSERT(r == 1, "resize accepted");
  int same = wi[0]==ri[0] && wi[1]==ri[1] && wi[2]==ri[2];
  ASSERT(rv == (same ? wv : 0), "row-major: a(i) reads what was written at i and only that");
  ASSERT(cv == (same ? wv : 0), "column-major: a(i) reads what was written at i and only that");
  ASSERT(rv == cv, "both layouts address the same logical element");
  u64 total = shape[0]*shape[1]*shape[2];
  ASSERT(rp < total && cp < total && rwp < total && cwp < total, "buffer positions below the element count");
  ASSERT((rp == rwp) == same && (cp == cwp) == same, "distinct indices address distinct buffer positions, in both layouts");
  ASSERT(rp == (ri[0]*shape[1]+ri[1])*shape[2]+ri[2], "row-major buffer position");
  ASSERT(cp == ri[0] + shape[0]*(ri[1] + shape[1]*ri[2]), "column-major buffer position");
  ASSERT(rs[2]==1 && rs[1]==shape[2] && rs[0]==shape[1]*shape[2], "row-major strides");
  /* note: strides() of a column-major ndarray_t reports the row-major strides_ member (the layout lives in offset_);
     C01 does not speak about that accessor, so it is not asserted here (see C20 / DESIGN) */
  OBS(rp); OBS(cp);
  REACHED();
}
