/* C04: pad (documented: constant fill, widths per side) / sliding_window / diagonal / tril / triu equal NumPy's result */
#include "C04_util.h"
#include "C04_window.h"
#ifndef MAXW
#define MAXW 2
#endif
static void in_index8(u64* idx, const u64* oshape, u64 n, u64 hi){ for (u64 i = 0; i < 6; i++){ u64 v = in_u64(0, hi); idx[i] = i < n ? v : 0; ASSUME(i < n ? v < oshape[i] : 1); } }

/* pad(a, widths, value): widths = [before_0..before_{D-1}, after_0..after_{D-1}], each 0..MAXW; == np.pad(a, [(before_k, after_k)...], constant_values=value) */
void h_pad(void){
  u64 shape[4] = {1,1,1,1}, w[8], idx[4], os[4] = {0}, od = 0, ex[4] = {0}, src[4] = {0,0,0,0}; u32 data[CELLS], out = 0;
  in_shape(shape, DIM); in_data(data, NCELL);
  for (int i = 0; i < 8; i++) w[i] = in_u64(0, MAXW);
  u32 value = in_any32();
  for (u64 k = 0; k < DIM; k++) ex[k] = shape[k] + w[k] + w[DIM + k];
  in_index(idx, ex, DIM, MAXE + 2*MAXW - 1);
  int r = CAT(k_pad, DIM)(shape, data, w, value, idx, DIM, os, &od, &out);
  ASSERT(r == 1, "pad accepted");
  ASSERT(od == DIM, "dim kept");
  int inside = 1;
  for (u64 k = 0; k < DIM; k++){ ASSERT(os[k] == ex[k], "shape[k] == before + n + after");
    if (idx[k] < w[k] || idx[k] >= w[k] + shape[k]) inside = 0; else src[k] = idx[k] - w[k]; }
  ASSERT(out == (inside ? data[horner(src, shape, DIM)] : value), "interior == source element, border == fill value");
  OBS(out);
  REACHED();
}

/* np.lib.stride_tricks.sliding_window_view(a, window, axis): scalar window 1..n, axis in [-DIM, DIM) */
void h_sliding_axis(void){
  u64 shape[4] = {1,1,1,1}, idx[4], os[8] = {0}, od = 0, ex[4] = {0}, src[4] = {0,0,0,0}; u32 data[CELLS], out = 0;
  in_shape(shape, DIM); in_data(data, NCELL);
  i32 ax = in_i32(-DIM, DIM - 1); u64 an = norm_axis(ax, DIM);
  u64 win = in_u64(1, MAXE); ASSUME(win <= shape[an]);
  for (u64 k = 0; k < DIM; k++) ex[k] = (k == an) ? shape[k] - (win - 1) : shape[k];
  ex[DIM] = win;
  in_index(idx, ex, DIM + 1, MAXE - 1);
  int r = CAT(k_sliding_axis, DIM)(shape, data, win, (u32)ax, idx, DIM + 1, os, &od, &out);
  ASSERT(r == 1, "sliding_window accepted");
  ASSERT(od == DIM + 1, "dim + 1");
  for (u64 k = 0; k < DIM + 1; k++) ASSERT(os[k] == ex[k], "shape == (..., n-window+1, ..., window)");
  for (u64 k = 0; k < DIM; k++) src[k] = idx[k] + (k == an ? idx[DIM] : 0);
  ASSERT(out == data[horner(src, shape, DIM)], "element == a[..., i+j, ...]");
  OBS(out);
  REACHED();
}
/* sliding_window_view(a, window_shape) with axis=None: one window extent per axis */
void h_sliding_all(void){
  u64 shape[4] = {1,1,1,1}, win[4] = {1,1,1,1}, idx[6], os[8] = {0}, od = 0, ex[6] = {0}, src[4] = {0,0,0,0}; u32 data[CELLS], out = 0;
  in_shape(shape, DIM); in_data(data, NCELL);
  for (u64 k = 0; k < DIM; k++){ win[k] = in_u64(1, MAXE); ASSUME(win[k] <= shape[k]); }
  for (u64 k = 0; k < DIM; k++){ ex[k] = shape[k] - (win[k] - 1); ex[DIM + k] = win[k]; }
  in_index8(idx, ex, 2*DIM, MAXE - 1);
  int r = CAT(k_sliding_all, DIM)(shape, data, win, idx, 2*DIM, os, &od, &out);
  ASSERT(r == 1, "sliding_window accepted");
  ASSERT(od == 2*DIM, "2*dim");
  for (u64 k = 0; k < 2*DIM; k++) ASSERT(os[k] == ex[k], "shape == (n_k - w_k + 1 ..., w_k ...)");
  for (u64 k = 0; k < DIM; k++) src[k] = idx[k] + idx[DIM + k];
  ASSERT(out == data[horner(src, shape, DIM)], "element == a[i + j]");
  OBS(out);
  REACHED();
}

/* np.tril / np.triu(a, k): k in [-MAXE, MAXE]; a 1-d input of length N gives an (N,N) result whose rows are a */
static void tri_check(int upper){
  u64 shape[4] = {1,1,1,1}, idx[4], os[4] = {0}, od = 0, ex[4] = {0}, src[4] = {0,0,0,0}; u32 data[CELLS], out = 0;
  in_shape(shape, DIM); in_data(data, NCELL);
  i32 k = in_i32(-MAXE, MAXE);
  u64 rd = DIM == 1 ? 2 : DIM;
  if (DIM == 1){ ex[0] = shape[0]; ex[1] = shape[0]; } else for (u64 i = 0; i < DIM; i++) ex[i] = shape[i];
  in_index(idx, ex, rd, MAXE - 1);
  int r = upper ? CAT(k_triu, DIM)(shape, data, (u32)k, idx, rd, os, &od, &out) : CAT(k_tril, DIM)(shape, data, (u32)k, idx, rd, os, &od, &out);
  ASSERT(r == 1, "accepted");
  ASSERT(od == rd, "dim (1-d input is promoted to a square matrix)");
  for (u64 i = 0; i < rd; i++) ASSERT(os[i] == ex[i], "shape");
  i64 row = (i64)idx[rd-2], col = (i64)idx[rd-1];
  int keep = upper ? (col >= row + k) : (col <= row + k);
  if (DIM == 1) src[0] = idx[1]; else for (u64 i = 0; i < DIM; i++) src[i] = idx[i];
  ASSERT(out == (keep ? data[horner(src, shape, DIM)] : 0), "kept triangle == source element, rest == 0");
  OBS(out);
  REACHED();
}
void h_tril(void){ tri_check(0); }
void h_triu(void){ tri_check(1); }

/* np.diagonal(a, offset, axis1, axis2): DIM >= 2, axes in [-DIM, DIM) and distinct, offsets whose diagonal is non-empty */
#if DIM >= 2
static void diag_check(int dflt){
  u64 shape[4] = {1,1,1,1}, idx[4], os[4] = {0}, od = 0, ex[4] = {0}, src[4] = {0,0,0,0}; u32 data[CELLS], out = 0;
  in_shape(shape, DIM); in_data(data, NCELL);
  i32 off = dflt ? 0 : in_i32(-(MAXE - 1), MAXE - 1), a1 = dflt ? 0 : in_i32(-DIM, DIM - 1), a2 = dflt ? 1 : in_i32(-DIM, DIM - 1);
  u64 n1 = norm_axis(a1, DIM), n2 = norm_axis(a2, DIM);
  ASSUME(n1 != n2);
  i64 l1 = (i64)shape[n1] + (off < 0 ? off : 0), l2 = (i64)shape[n2] - (off > 0 ? off : 0);
  i64 len = l1 < l2 ? l1 : l2;
#ifdef KF_C04_DIAGONAL_BEYOND
  ASSUME(!(len < 0));        /* finding: an offset more than one step beyond the matrix gives a negative (wrapped) extent instead of 0 */
#endif
  if (len < 0) len = 0;      /* an offset at/beyond the matrix edge selects an empty diagonal (shape observed, no element to read) */
#ifdef KF_C04_DIAGONAL_NEGOFFSET
  ASSUME(!(off < 0));
#endif
  u64 j = 0; for (u64 k = 0; k < DIM; k++) if (k != n1 && k != n2) ex[j++] = shape[k];
  ex[j] = (u64)len;
  for (u64 i = 0; i < 4; i++){ u64 v = in_u64(0, MAXE - 1); idx[i] = i < DIM - 1 ? v : 0; ASSUME(i < DIM - 1 && len > 0 ? v < ex[i] : 1); }
  u64 ni = len > 0 ? DIM - 1 : 0;
  int r = dflt ? CAT(k_diagonal_default, DIM)(shape, data, idx, ni, os, &od, &out) : CAT(k_diagonal, DIM)(shape, data, (u32)off, (u32)a1, (u32)a2, idx, ni, os, &od, &out);
  ASSERT(r == (len > 0 ? 1 : 2), "diagonal accepted (an empty diagonal is observed by shape only)");
  ASSERT(od == DIM - 1, "dim - 1");
  for (u64 k = 0; k < DIM - 1; k++) ASSERT(os[k] == ex[k], "shape == remaining axes + (diagonal length,)");
  j = 0; for (u64 k = 0; k < DIM; k++) if (k != n1 && k != n2) src[k] = idx[j++];
  src[n1] = idx[DIM - 2] + (off < 0 ? (u64)(-off) : 0);
  src[n2] = idx[DIM - 2] + (off > 0 ? (u64)off : 0);
  if (len > 0) ASSERT(out == data[horner(src, shape, DIM)], "element == a[..., i (+ -offset), ..., i (+ offset), ...]");
  OBS(out);
  REACHED();
}
void h_diagonal(void){ diag_check(0); }
void h_diagonal_default(void){ diag_check(1); }
#endif
