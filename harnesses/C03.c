/* C03: rearranging views equal NumPy's result (shape and element at every index, symbolic data) */
#include "harness.h"
#include "C03_rearrange.h"
#ifndef MAXE
#define MAXE 3
#endif
#define CELLS 64
static void in_shape(u64* s, int n){ for (int i = 0; i < n; i++) s[i] = in_u64(1, MAXE); }
static void in_data(u32* d, int n){ for (int i = 0; i < n; i++) d[i] = in_any32(); }
static u64 horner(const u64* idx, const u64* shape, u64 n){ u64 o = 0; for (u64 i = 0; i < 4; i++) if (i < n) o = o * shape[i] + idx[i]; return o; }
/* draws an index of length n (<=4) inside oshape; entries beyond n are 0 */
static void in_index(u64* idx, const u64* oshape, u64 n){ for (u64 i = 0; i < 4; i++){ idx[i] = i < n ? in_u64(0, MAXE*MAXE*MAXE - 1) : 0; ASSUME(i < n ? idx[i] < oshape[i] : 1); } }

void h_shape_reshape(void){
  u64 src[4], out[4] = {0}, nout = 0; u32 dst[4];
  u64 ns = in_u64(1, 4), nd = in_u64(1, 4), numel = 1;
  for (int i = 0; i < 4; i++){ src[i] = in_u64(1, MAXE); if ((u64)i < ns) numel *= src[i]; }
  int nneg = 0; u64 p = 1;
  for (int i = 0; i < 4; i++){ i32 v = in_i32(-1, 16); ASSUME(v != 0); dst[i] = (u32)v; if ((u64)i < nd){ if (v == -1) nneg++; else p *= (u64)v; } }
  int ok = (nneg == 0 && p == numel) || (nneg == 1 && numel % p == 0);
  int r = k_shape_reshape(src, ns, dst, nd, out, &nout);
  ASSERT((r != 0) == ok, "reshape accepted iff NumPy accepts (one -1 at most, element count preserved)");
  if (r){ ASSERT(nout == nd, "dim"); for (int i = 0; i < 4; i++) if ((u64)i < nd) ASSERT(out[i] == ((i32)dst[i] == -1 ? numel / p : (u64)(i32)dst[i]), "extent (with -1 inferred)"); }
  OBS(r); OBS(nout);
  REACHED();
}

void h_reshape3(void){
  u64 shape[3], idx[4], os[4] = {0}, od = 0, ex[4]; u32 data[CELLS], dst[4], out = 0;
  in_shape(shape, 3); in_data(data, MAXE*MAXE*MAXE);
  u64 numel = shape[0]*shape[1]*shape[2];
  u64 nd = in_u64(1, 4); int nneg = 0; u64 p = 1;
  for (int i = 0; i < 4; i++){ i32 v = in_i32(-1, MAXE*MAXE*MAXE); ASSUME(v != 0); dst[i] = (u32)v; if ((u64)i < nd){ if (v == -1) nneg++; else p *= (u64)v; } }
  ASSUME((nneg == 0 && p == numel) || (nneg == 1 && numel % p == 0));   /* valid targets only; the invalid part is C15 */
  for (int i = 0; i < 4; i++) ex[i] = ((i32)dst[i] == -1) ? numel / p : (u64)(i32)dst[i];
  in_index(idx, ex, nd);
  int r = k_reshape3(shape, data, dst, nd, idx, nd, os, &od, &out);
  ASSERT(r == 1, "valid reshape accepted");
  ASSERT(od == nd, "dim");
  for (int i = 0; i < 4; i++) if ((u64)i < nd) ASSERT(os[i] == ex[i], "shape");
  ASSERT(out == data[horner(idx, ex, nd)], "reshape keeps C order: element i is source element at the same flat position");
  OBS(out);
  REACHED();
}

void h_flatten3(void){
  u64 shape[3], idx[4] = {0}, os[4] = {0}, od = 0; u32 data[CELLS], out = 0;
  in_shape(shape, 3); in_data(data, MAXE*MAXE*MAXE);
  u64 numel = shape[0]*shape[1]*shape[2];
  idx[0] = in_u64(0, CELLS); ASSUME(idx[0] < numel);
  int r = k_flatten3(shape, data, idx, 1, os, &od, &out);
  ASSERT(r == 1 && od == 1 && os[0] == numel, "flatten shape == (numel,)");
  ASSERT(out == data[idx[0]], "flatten keeps C order");
  OBS(out);
  REACHED();
}

static void in_perm3(u32* ax, int allow_negative){
  for (int i = 0; i < 3; i++){ i32 v = in_i32(allow_negative ? -3 : 0, 2); ax[i] = (u32)v; }
}
static u64 norm(u32 a, u64 n){ i32 v = (i32)a; return v < 0 ? (u64)(v + (i32)n) : (u64)v; }

void h_transpose3(void){
  u64 shape[3], idx[4], os[4] = {0}, od = 0, src[3], ex[4] = {0}; u32 data[CELLS], ax[3], out = 0;
  in_shape(shape, 3); in_data(data, MAXE*MAXE*MAXE); in_perm3(ax, 0);
  ASSUME(ax[0] != ax[1] && ax[0] != ax[2] && ax[1] != ax[2]);
  for (int i = 0; i < 3; i++) ex[i] = shape[ax[i]];
  in_index(idx, ex, 3);
  int r = k_transpose3(shape, data, ax, idx, 3, os, &od, &out);
  ASSERT(r == 1 && od == 3, "permutation accepted");
  for (int i = 0; i < 3; i++){ ASSERT(os[i] == ex[i], "shape[i] == src_shape[axes[i]]"); src[ax[i]] = idx[i]; }
  ASSERT(out == data[horner(src, shape, 3)], "element == NumPy transpose element");
  OBS(out);
  REACHED();
}
/* explicit axes with NEGATIVE entries (each entry in [-3,2], distinct after normalisation): np.transpose(a, (-1,0,1)) */
void h_transpose3_neg(void){
  u64 shape[3], idx[4], os[4] = {0}, od = 0, src[3], ex[4] = {0}, n[3]; u32 data[CELLS], ax[3], out = 0;
  in_shape(shape, 3); in_data(data, MAXE*MAXE*MAXE); in_perm3(ax, 1);
  for (int i = 0; i < 3; i++) n[i] = norm(ax[i], 3);
  ASSUME(n[0] != n[1] && n[0] != n[2] && n[1] != n[2]);
  for (int i = 0; i < 3; i++) ex[i] = shape[n[i]];
  in_index(idx, ex, 3);
  int r = k_transpose3(shape, data, ax, idx, 3, os, &od, &out);
  ASSERT(r == 1 && od == 3, "permutation (with negative entries) accepted");
  for (int i = 0; i < 3; i++){ ASSERT(os[i] == ex[i], "shape[i] == src_shape[axes[i]]"); src[n[i]] = idx[i]; }
  ASSERT(out == data[horner(src, shape, 3)], "element == NumPy transpose element");
  OBS(out);
  REACHED();
}
void h_transpose3_default(void){
  u64 shape[3], idx[4], os[4] = {0}, od = 0, src[3], ex[4] = {0}; u32 data[CELLS], out = 0;
  in_shape(shape, 3); in_data(data, MAXE*MAXE*MAXE);
  for (int i = 0; i < 3; i++) ex[i] = shape[2-i];
  in_index(idx, ex, 3);
  int r = k_transpose3_default(shape, data, idx, 3, os, &od, &out);
  ASSERT(r == 1 && od == 3, "ok");
  for (int i = 0; i < 3; i++){ ASSERT(os[i] == ex[i], "default transpose reverses the shape"); src[2-i] = idx[i]; }
  ASSERT(out == data[horner(src, shape, 3)], "element");
  OBS(out);
  REACHED();
}
void h_transpose3_twice(void){
  u64 shape[3], idx[4], os[4] = {0}, od = 0, ex[4] = {0}; u32 data[CELLS], p[3], q[3], out = 0;
  in_shape(shape, 3); in_data(data, MAXE*MAXE*MAXE); in_perm3(p, 0);
  ASSUME(p[0] != p[1] && p[0] != p[2] && p[1] != p[2]);
  for (int i = 0; i < 3; i++) q[p[i]] = (u32)i;     /* inverse permutation */
  for (int i = 0; i < 3; i++) ex[i] = shape[i];
  in_index(idx, ex, 3);
  int r = k_transpose3_twice(shape, data, p, q, idx, 3, os, &od, &out);
  ASSERT(r == 1 && od == 3, "ok");
  for (int i = 0; i < 3; i++) ASSERT(os[i] == shape[i], "transpose by p then p^-1 restores the shape");
  ASSERT(out == data[horner(idx, shape, 3)], "transpose by p then p^-1 restores the array");
  OBS(out);
  REACHED();
}
void h_moveaxis3(void){
  u64 shape[3], idx[4], os[4] = {0}, od = 0, src[3], ex[4] = {0}, order[3]; u32 data[CELLS], out = 0;
  in_shape(shape, 3); in_data(data, MAXE*MAXE*MAXE);
  i32 s = in_i32(-3, 2), d = in_i32(-3, 2);
  u64 sn = norm((u32)s, 3), dn = norm((u32)d, 3);
  /* NumPy: order = [n for n in range(3) if n != s]; order.insert(d, s) */
  { u64 rest[2]; int j = 0; for (u64 n = 0; n < 3; n++) if (n != sn) rest[j++] = n;
    j = 0; for (u64 k = 0; k < 3; k++) order[k] = (k == dn) ? sn : rest[j++]; }
  for (int i = 0; i < 3; i++) ex[i] = shape[order[i]];
  in_index(idx, ex, 3);
  int r = k_moveaxis3(shape, data, (u32)s, (u32)d, idx, 3, os, &od, &out);
  ASSERT(r == 1 && od == 3, "valid (possibly negative) axes accepted");
  for (int i = 0; i < 3; i++){ ASSERT(os[i] == ex[i], "shape"); src[order[i]] = idx[i]; }
  ASSERT(out == data[horner(src, shape, 3)], "element == NumPy moveaxis element");
  OBS(out);
  REACHED();
}
void h_swapaxes3(void){
  u64 shape[3], idx[4], os[4] = {0}, od = 0, src[3], ex[4] = {0}, order[3] = {0,1,2}; u32 data[CELLS], out = 0;
  in_shape(shape, 3); in_data(data, MAXE*MAXE*MAXE);
  i32 a = in_i32(-3, 2), b = in_i32(-3, 2);
  u64 an = norm((u32)a, 3), bn = norm((u32)b, 3);
  order[an] = bn; order[bn] = an;
  for (int i = 0; i < 3; i++) ex[i] = shape[order[i]];
  in_index(idx, ex, 3);
  int r = k_swapaxes3(shape, data, (u32)a, (u32)b, idx, 3, os, &od, &out);
  ASSERT(r == 1 && od == 3, "ok");
  for (int i = 0; i < 3; i++){ ASSERT(os[i] == ex[i], "shape"); src[order[i]] = idx[i]; }
  ASSERT(out == data[horner(src, shape, 3)], "element == NumPy swapaxes element");
  OBS(out);
  REACHED();
}
void h_expand_dims2(void){
  u64 shape[2], idx[4], os[4] = {0}, od = 0, src[2], ex[4] = {0}; u32 data[16], out = 0;
  in_shape(shape, 2); in_data(data, MAXE*MAXE);
  i32 ax = in_i32(-3, 2); u64 an = norm((u32)ax, 3);
  { int j = 0; for (u64 k = 0; k < 3; k++) ex[k] = (k == an) ? 1 : shape[j++]; }
  in_index(idx, ex, 3);
  int r = k_expand_dims2(shape, data, (u32)ax, idx, 3, os, &od, &out);
  ASSERT(r == 1 && od == 3, "ok");
  { int j = 0; for (u64 k = 0; k < 3; k++){ ASSERT(os[k] == ex[k], "shape with a 1 inserted at axis"); if (k != an) src[j++] = idx[k]; } }
  ASSERT(out == data[horner(src, shape, 2)], "element");
  OBS(out);
  REACHED();
}
void h_squeeze3(void){
  u64 shape[3], idx[4], os[4] = {0}, od = 0, src[3] = {0,0,0}, ex[4] = {0}, n = 0; u32 data[CELLS], out = 0;
  in_shape(shape, 3); in_data(data, MAXE*MAXE*MAXE);
  for (int i = 0; i < 3; i++) if (shape[i] != 1) ex[n++] = shape[i];
  ASSUME(n >= 1);                      /* all-ones shapes squeeze to a 0-d array: handled in h_squeeze3_scalar */
  in_index(idx, ex, n);
  int r = k_squeeze3(shape, data, idx, n, os, &od, &out);
  ASSERT(r == 1 && od == n, "dim == number of non-unit axes");
  { u64 j = 0; for (int i = 0; i < 3; i++) if (shape[i] != 1){ ASSERT(os[j] == shape[i], "shape"); src[i] = idx[j]; j++; } }
  ASSERT(out == data[horner(src, shape, 3)], "element");
  OBS(out);
  REACHED();
}
#ifndef ND
#define ND 3
#endif
#define CAT2(a,b) a##b
#define CAT(a,b) CAT2(a,b)
void h_atleast_nd2(void){   /* ND is a per-query constant (atleast_1d / 2d / 3d / 4d of a 2-d array) */
  u64 shape[2], idx[4], os[4] = {0}, od = 0, ex[4] = {0}; u32 data[16], out = 0;
  in_shape(shape, 2); in_data(data, MAXE*MAXE);
  u64 nd = ND; u64 rd = nd > 2 ? nd : 2, pre = rd - 2;
  for (u64 k = 0; k < 4; k++) if (k < rd) ex[k] = k < pre ? 1 : shape[k - pre];
  in_index(idx, ex, rd);
  int r = CAT(k_atleast_nd2_, ND)(shape, data, idx, rd, os, &od, &out);
  ASSERT(r == 1 && od == rd, "dim == max(dim, nd)");
  for (u64 k = 0; k < 4; k++) if (k < rd) ASSERT(os[k] == ex[k], "ones are prepended");
  ASSERT(out == data[idx[pre]*shape[1] + idx[pre+1]], "element");
  OBS(out);
  REACHED();
}
void h_flip3(void){
  u64 shape[3], idx[4], os[4] = {0}, od = 0, src[3], ex[4] = {0}; u32 data[CELLS], out = 0;
  in_shape(shape, 3); in_data(data, MAXE*MAXE*MAXE);
  i32 ax = in_i32(-3, 2); u64 an = norm((u32)ax, 3);
  for (int i = 0; i < 3; i++) ex[i] = shape[i];
  in_index(idx, ex, 3);
  int r = k_flip3(shape, data, (u32)ax, idx, 3, os, &od, &out);
  ASSERT(r == 1 && od == 3, "ok");
  for (u64 i = 0; i < 3; i++){ ASSERT(os[i] == shape[i], "flip keeps the shape"); src[i] = (i == an) ? shape[i] - 1 - idx[i] : idx[i]; }
  ASSERT(out == data[horner(src, shape, 3)], "element == NumPy flip element");
  OBS(out);
  REACHED();
}
void h_flip3_all(void){
  u64 shape[3], idx[4], os[4] = {0}, od = 0, src[3], ex[4] = {0}; u32 data[CELLS], out = 0;
  in_shape(shape, 3); in_data(data, MAXE*MAXE*MAXE);
  for (int i = 0; i < 3; i++) ex[i] = shape[i];
  in_index(idx, ex, 3);
  int r = k_flip3_all(shape, data, idx, 3, os, &od, &out);
  ASSERT(r == 1 && od == 3, "ok");
  for (u64 i = 0; i < 3; i++){ ASSERT(os[i] == shape[i], "flip keeps the shape"); src[i] = shape[i] - 1 - idx[i]; }
  ASSERT(out == data[horner(src, shape, 3)], "flip(None) reverses every axis");
  OBS(out);
  REACHED();
}
void h_flip3_twice(void){
  u64 shape[3], idx[4], os[4] = {0}, od = 0, ex[4] = {0}; u32 data[CELLS], out = 0;
  in_shape(shape, 3); in_data(data, MAXE*MAXE*MAXE);
  i32 ax = in_i32(-3, 2);
  for (int i = 0; i < 3; i++) ex[i] = shape[i];
  in_index(idx, ex, 3);
  int r = k_flip3_twice(shape, data, (u32)ax, idx, 3, os, &od, &out);
  ASSERT(r == 1 && od == 3, "ok");
  for (u64 i = 0; i < 3; i++) ASSERT(os[i] == shape[i], "shape");
  ASSERT(out == data[horner(idx, shape, 3)], "flipping twice restores the array");
  OBS(out);
  REACHED();
}

/* moveaxis with lists of two axes: NumPy: order = [n for n in range(3) if n not in src]; for d, s in sorted(zip(dst, src)): order.insert(d, s) */
void h_moveaxis3_list(void){
  u64 shape[3], idx[4], os[4] = {0}, od = 0, srcidx[3], ex[4] = {0}, order[3]; u32 data[CELLS], s[2], d[2], out = 0;
  in_shape(shape, 3); in_data(data, MAXE*MAXE*MAXE);
  for (int i = 0; i < 2; i++){ s[i] = (u32)in_i32(-3, 2); d[i] = (u32)in_i32(-3, 2); }
  u64 sn[2] = { norm(s[0], 3), norm(s[1], 3) }, dn[2] = { norm(d[0], 3), norm(d[1], 3) };
  ASSUME(sn[0] != sn[1] && dn[0] != dn[1]);                 /* NumPy rejects repeated axes (invalid arguments: C15) */
  { u64 rest = 3 - sn[0] - sn[1];                           /* the one axis that is not moved */
    int first = dn[0] < dn[1] ? 0 : 1;                      /* sorted by normalised destination */
    u64 lo_d = dn[first], hi_d = dn[1-first], lo_s = sn[first], hi_s = sn[1-first];
    /* insert(lo_d, lo_s) then insert(hi_d, hi_s) into [rest]: the moved axes end up at positions lo_d < hi_d, the rest fills the remaining slot */
    for (u64 k = 0; k < 3; k++) order[k] = (k == lo_d) ? lo_s : (k == hi_d) ? hi_s : rest; }
  for (int i = 0; i < 3; i++) ex[i] = shape[order[i]];
  in_index(idx, ex, 3);
  int r = k_moveaxis3_list(shape, data, s, d, idx, 3, os, &od, &out);
  ASSERT(r == 1 && od == 3, "valid axis lists accepted");
  for (int i = 0; i < 3; i++){ ASSERT(os[i] == ex[i], "shape == NumPy moveaxis shape"); srcidx[order[i]] = idx[i]; }
  ASSERT(out == data[horner(srcidx, shape, 3)], "element == NumPy moveaxis element (axis lists)");
  OBS(out);
  REACHED();
}
void h_flip3_list(void){
  u64 shape[3], idx[4], os[4] = {0}, od = 0, src[3], ex[4] = {0}; u32 data[CELLS], ax[2], out = 0;
  in_shape(shape, 3); in_data(data, MAXE*MAXE*MAXE);
  for (int i = 0; i < 2; i++) ax[i] = (u32)in_i32(-3, 2);
  u64 an[2] = { norm(ax[0], 3), norm(ax[1], 3) };
  ASSUME(an[0] != an[1]);                                   /* NumPy rejects repeated axes */
  for (int i = 0; i < 3; i++) ex[i] = shape[i];
  in_index(idx, ex, 3);
  int r = k_flip3_list(shape, data, ax, idx, 3, os, &od, &out);
  ASSERT(r == 1 && od == 3, "ok");
  for (u64 i = 0; i < 3; i++){ ASSERT(os[i] == shape[i], "flip keeps the shape"); src[i] = (i == an[0] || i == an[1]) ? shape[i] - 1 - idx[i] : idx[i]; }
  ASSERT(out == data[horner(src, shape, 3)], "element == NumPy flip element (axis list)");
  OBS(out);
  REACHED();
}
