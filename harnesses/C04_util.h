/* shared by the C04 harnesses: input drawing and NumPy index arithmetic. DIM (source dimension) and MAXE (largest extent)
 * are per-query constants; everything drawn through in_* is symbolic. */
#ifndef C04_UTIL_H
#define C04_UTIL_H
#include "harness.h"
#ifndef MAXE
#define MAXE 3
#endif
#ifndef DIM
#define DIM 3
#endif
#define CELLS 64
#define CAT2(a,b) a##b
#define CAT(a,b) CAT2(a,b)
#if DIM == 1
#define NCELL (MAXE)
#elif DIM == 2
#define NCELL (MAXE*MAXE)
#elif DIM == 3
#define NCELL (MAXE*MAXE*MAXE)
#else
#define NCELL (MAXE*MAXE*MAXE*MAXE)
#endif
static void in_shape(u64* s, int n){ for (int i = 0; i < n; i++) s[i] = in_u64(1, MAXE); }
static void in_data(u32* d, int n){ for (int i = 0; i < n; i++) d[i] = in_any32(); }
/* row-major position of idx[0..n) in shape[0..n), n <= 4 */
static u64 horner(const u64* idx, const u64* shape, u64 n){ u64 o = 0; for (u64 i = 0; i < 4; i++) if (i < n) o = o * shape[i] + idx[i]; return o; }
/* inverse of horner: idx[0..n) of flat position p */
static void unhorner(u64 p, const u64* shape, u64 n, u64* idx){ for (int i = 3; i >= 0; i--) if ((u64)i < n){ idx[i] = p % shape[i]; p /= shape[i]; } }
/* draws an index of length n (<=4) inside oshape; entries beyond n are 0; hi = largest value any entry can take */
static void in_index(u64* idx, const u64* oshape, u64 n, u64 hi){ for (u64 i = 0; i < 4; i++){ u64 v = in_u64(0, hi); idx[i] = i < n ? v : 0; ASSUME(i < n ? v < oshape[i] : 1); } }
/* Python/NumPy axis normalisation for a valid axis in [-n, n) */
static u64 norm_axis(i32 a, u64 n){ return a < 0 ? (u64)(a + (i32)n) : (u64)a; }
/* Python floor modulo for a positive modulus */
static i64 pymod(i64 a, i64 n){ i64 r = a % n; return r < 0 ? r + n : r; }
static u64 prod(const u64* s, u64 n){ u64 p = 1; for (u64 i = 0; i < 4; i++) if (i < n) p *= s[i]; return p; }
#endif
