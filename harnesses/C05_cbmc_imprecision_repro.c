/* NOT a harness of the framework. Self-contained reproducer of the CBMC 6.11 imprecision met while building C05 (dynamic slice lists):
 * `cbmc harnesses/C05_cbmc_imprecision_repro.c --function h` reports 'stop survives' / 'start survives' / 'step survives' FAILED although the copy is exact in C.
 * Data is lost when an element of an array of structs selected by a NON-constant index is copied with memcpy (or read byte-wise: then only the
 * field written through a reinterpreted member pointer is lost) after a store through such a pointer; a struct assignment is exact.
 * Consequence for harnesses: keep item counts / kinds that drive such indices per-query constants (see props/C05.py OUTSIDE). */
#include <stdint.h>
struct In { struct { uint32_t f0; } f0; struct { uint8_t a[12]; } f1; };
struct Var { struct { struct In f0; uint8_t f1; } f0; struct { uint8_t a[3]; } f1; };
struct SV { struct { struct Var a[4]; } f0; uint64_t f1; };
uint64_t nondet_u64(void);
void h(void){
  struct SV sv; 
  __builtin_memset(&sv, 0, sizeof sv);
  uint64_t i = nondet_u64(); __CPROVER_assume(i < 4);
  uint32_t stop = (uint32_t)nondet_u64(); __CPROVER_assume(stop == 4);
  uint32_t* p0 = &sv.f0.a[i].f0.f0.f0.f0; *p0 = 7;
  uint32_t* p1 = (uint32_t*)&sv.f0.a[i].f0.f0.f1; *p1 = stop;
  uint32_t* p2 = (uint32_t*)&sv.f0.a[i].f0.f0.f1.a[4]; *p2 = 9;
  sv.f0.a[i].f0.f0.f1.a[8] = 0;
  sv.f0.a[i].f0.f1 = 1;
  struct Var c;
  __builtin_memcpy(&c, &sv.f0.a[i], sizeof c);
  __CPROVER_assert(*(uint32_t*)&c.f0.f0.f1 == 4, "stop survives");
  __CPROVER_assert(*(uint32_t*)&sv.f0.a[i].f0.f0.f1 == 4, "stop in place");
  __CPROVER_assert(c.f0.f0.f0.f0 == 7, "start survives");
  __CPROVER_assert(*(uint32_t*)&c.f0.f0.f1.a[4] == 9, "step survives");
}
