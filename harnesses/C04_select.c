/* C04: expand (documented: spacing insertion with a fill value) / resize (documented: nearest neighbour, floor(i*src/dst)) / compress / diagflat / where (NumPy) */
#include "C04_util.h"
#include "C04_select.h"
#ifndef MAXS
#define MAXS 2
#endif
#ifndef MAXD
#define MAXD 5
#endif
#ifndef MAXK
#define MAXK 2
#endif

/* expand(a, axis, spacing, fill): `spacing` fill values between neighbours along axis: n -> n + (n-1)*spacing; dst index i holds a[i/(spacing+1)] when i % (spacing+1) == 0 */
void h_expand(void){
  u64 shape[4] = {1,1,1,1}, idx[4], os[4] = {0}, od = 0, ex[4] = {0}, src[4] = {0,0,0,0}; u32 data[CELLS], out = 0;
  in_shape(shape, DIM); in_data(data, NCELL);
  i32 ax = in_i32(-DIM, DIM - 1); u64 an = norm_axis(ax, DIM);
  u64 sp = in_u64(0, MAXS); u32 fill = in_any32();
  for (u64 k = 0; k < DIM; k++) ex[k] = (k == an) ? shape[k] + (shape[k] - 1) * sp : shape[k];
  in_index(idx, ex, DIM, MAXE + (MAXE - 1) * MAXS - 1);
  int r = CAT(k_expand, DIM)(shape, data, (u32)ax, sp, fill, idx, DIM, os, &od, &out);
  ASSERT(r == 1, "expand accepted");
  ASSERT(od == DIM, "dim kept");
  for (u64 k = 0; k < DIM; k++){ ASSERT(os[k] == ex[k], "shape[axis] == n + (n-1)*spacing"); src[k] = (k == an) ? idx[k] / (sp + 1) : idx[k]; }
  ASSERT(out == (idx[an] % (sp + 1) == 0 ? data[horner(src, shape, DIM)] : fill), "multiples of spacing+1 hold the source elements, the rest the fill value");
  OBS(out);
  REACHED();
}

/* resize(a, dst_shape): nearest neighbour sampling, source index = floor(i * src_extent / dst_extent) per axis; dst extents 1..MAXD */
void h_resize(void){
  u64 shape[4] = {1,1,1,1}, dst[4] = {1,1,1,1}, idx[4], os[4] = {0}, od = 0, ex[4] = {0}, src[4] = {0,0,0,0}; u32 data[CELLS], out = 0;
  in_shape(shape, DIM); in_data(data, NCELL);
  for (u64 k = 0; k < DIM; k++){ dst[k] = in_u64(1, MAXD); ex[k] = dst[k]; }
  in_index(idx, ex, DIM, MAXD - 1);
  int r = CAT(k_resize, DIM)(shape, data, dst, idx, DIM, os, &od, &out);
  ASSERT(r == 1, "resize accepted");
  ASSERT(od == DIM, "dim kept");
  for (u64 k = 0; k < DIM; k++){ ASSERT(os[k] == dst[k], "shape == dst_shape"); src[k] = idx[k] * shape[k] / dst[k]; ASSERT(src[k] < shape[k], "sampled index inside the source"); }
  ASSERT(out == data[horner(src, shape, DIM)], "element == a[floor(i*src/dst)]");
  OBS(out);
  REACHED();
}

/* np.compress(condition, a, axis): condition a list of 1..min(4,n) truth values (shorter than n: the rest is not selected); axis in [-DIM, DIM) */
void h_compress(void){
  u64 shape[4] = {1,1,1,1}, idx[4], os[4] = {0}, od = 0, ex[4] = {0}, src[4] = {0,0,0,0}, cnt = 0, pos[4] = {0}; u32 data[CELLS], cond[4], out = 0;
  in_shape(shape, DIM); in_data(data, NCELL);
  i32 ax = in_i32(-DIM, DIM - 1); u64 an = norm_axis(ax, DIM);
  u64 nc = in_u64(1, 4); ASSUME(nc <= shape[an]);
  for (u64 i = 0; i < 4; i++){ cond[i] = in_u32(0, 1); if (i < nc && cond[i]) pos[cnt++] = i; }
#ifdef KF_C04_COMPRESS_NEGAXIS
  ASSUME(!(ax < 0));
#endif
  for (u64 k = 0; k < DIM; k++) ex[k] = (k == an) ? cnt : shape[k];
  for (u64 i = 0; i < 4; i++){ u64 v = in_u64(0, MAXE > 4 ? MAXE - 1 : 3); idx[i] = i < DIM ? v : 0; ASSUME(i < DIM && cnt > 0 ? v < ex[i] : 1); }
  int r = CAT(k_compress, DIM)(shape, data, cond, nc, (u32)ax, idx, cnt > 0 ? DIM : 0, os, &od, &out);
  ASSERT(r == (cnt > 0 ? 1 : 2), "compress accepted (an empty selection is observed by shape only)");
  ASSERT(od == DIM, "dim kept");
  for (u64 k = 0; k < DIM; k++) ASSERT(os[k] == ex[k], "shape[axis] == number of true entries");
  if (cnt > 0){
    for (u64 k = 0; k < DIM; k++) src[k] = (k == an) ? pos[idx[k]] : idx[k];
    ASSERT(out == data[horner(src, shape, DIM)], "element == a[..., position of the j-th true entry, ...]");
  }
  OBS(out);
  REACHED();
}
/* np.compress(condition, a) (axis=None): flattened input */
void h_compress_flat(void){
  u64 shape[4] = {1,1,1,1}, idx[4] = {0}, os[4] = {0}, od = 0, cnt = 0, pos[4] = {0}; u32 data[CELLS], cond[4], out = 0;
  in_shape(shape, DIM); in_data(data, NCELL);
  u64 numel = prod(shape, DIM);
  u64 nc = in_u64(1, 4); ASSUME(nc <= numel);
  for (u64 i = 0; i < 4; i++){ cond[i] = in_u32(0, 1); if (i < nc && cond[i]) pos[cnt++] = i; }
  idx[0] = in_u64(0, 3); ASSUME(cnt > 0 ? idx[0] < cnt : idx[0] == 0);
  int r = CAT(k_compress_flat, DIM)(shape, data, cond, nc, idx, cnt > 0 ? 1 : 0, os, &od, &out);
  ASSERT(r == (cnt > 0 ? 1 : 2), "compress accepted");
  ASSERT(od == 1 && os[0] == cnt, "shape == (number of true entries,)");
  if (cnt > 0) ASSERT(out == data[pos[idx[0]]], "element == a.flat[position of the j-th true entry]");
  OBS(out);
  REACHED();
}

/* np.diagflat(a, k): n = a.size + |k|; result[r, r+k] = a.flat[min(r, r+k)], zero elsewhere */
void h_diagflat(void){
  u64 shape[4] = {1,1,1,1}, idx[4], os[4] = {0}, od = 0, ex[4] = {0}; u32 data[CELLS], out = 0;
  in_shape(shape, DIM); in_data(data, NCELL);
  i32 k = in_i32(-MAXK, MAXK);
  u64 numel = prod(shape, DIM), n = numel + (u64)(k < 0 ? -k : k);
  ex[0] = n; ex[1] = n;
  in_index(idx, ex, 2, NCELL + MAXK - 1);
  int r = CAT(k_diagflat, DIM)(shape, data, (u32)k, idx, 2, os, &od, &out);
  ASSERT(r == 1, "diagflat accepted");
  ASSERT(od == 2 && os[0] == n && os[1] == n, "shape == (size+|k|, size+|k|)");
  i64 row = (i64)idx[0], col = (i64)idx[1];
  ASSERT(out == (col == row + k ? data[k >= 0 ? row : col] : 0), "k-th diagonal holds a.flat, zero elsewhere");
  OBS(out);
  REACHED();
}

/* np.where(condition, x, y) on three arrays of one shape (broadcasting: C06) */
void h_where(void){
  u64 shape[4] = {1,1,1,1}, idx[4], os[4] = {0}, od = 0; u32 c[CELLS], x[CELLS], y[CELLS], out = 0;
  in_shape(shape, DIM); in_data(c, NCELL); in_data(x, NCELL); in_data(y, NCELL);
  in_index(idx, shape, DIM, MAXE - 1);
  int r = CAT(k_where, DIM)(shape, c, x, y, idx, DIM, os, &od, &out);
  ASSERT(r == 1, "where accepted");
  ASSERT(od == DIM, "dim");
  for (u64 k = 0; k < DIM; k++) ASSERT(os[k] == shape[k], "shape");
  u64 p = horner(idx, shape, DIM);
  ASSERT(out == (c[p] ? x[p] : y[p]), "element == condition ? x : y");
  OBS(out);
  REACHED();
}

/* diagflat(fixed int[3], compile-time k): KCT in {-2,-1,0,1,2} per-query constant, data and index symbolic */
#ifndef KCT
#define KCT 0
#endif
void h_diagflat_ct(void){
  u64 idx[4], os[4] = {0}, od = 0, ex[4] = {0}; u32 data[3], out = 0; for (int i = 0; i < 3; i++) data[i] = in_any32();
  i32 k = KCT; u64 n = 3 + (u64)(k < 0 ? -k : k); ex[0] = n; ex[1] = n;
  idx[0] = in_u64(0, 4); idx[1] = in_u64(0, 4); ASSUME(idx[0] < n && idx[1] < n);
  int r = KCT == -2 ? k_diagflat_ct_m2(data, idx, 2, os, &od, &out) : KCT == -1 ? k_diagflat_ct_m1(data, idx, 2, os, &od, &out) : KCT == 0 ? k_diagflat_ct_0(data, idx, 2, os, &od, &out)
        : KCT == 1 ? k_diagflat_ct_p1(data, idx, 2, os, &od, &out) : k_diagflat_ct_p2(data, idx, 2, os, &od, &out);
  ASSERT(r == 1, "diagflat accepted");
  ASSERT(od == 2 && os[0] == n && os[1] == n, "shape == (size+|k|, size+|k|) also when k is a compile-time constant");
  i64 row = (i64)idx[0], col = (i64)idx[1];
  ASSERT(out == (col == row + k ? data[k >= 0 ? row : col] : 0), "k-th diagonal holds a.flat, zero elsewhere");
  OBS(out); REACHED();
}
