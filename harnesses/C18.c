/* C18: utils::isequal / utils::isclose are exact, symmetric, total comparison oracles.
 * Every harness is built against two translations of the same kernel source: NDEBUG (default) and asserts-on (-DDBG, kernels k_*_dbg).
 * Reference model (this file): equal <=> same dim, same shape, all corresponding elements equal; close <=> same shape and |a-b| < eps for all.
 * Cells beyond the logical length of bounded vectors are symbolic ("stale"): a comparison that looks at them shows up in its result. */
#include "harness.h"
#ifdef DBG
#include "C18_compare_dbg.h"
#define KS2(n) n##_dbg
#define KS(n) KS2(n)
#else
#include "C18_compare.h"
#define KS(n) n
#endif
#ifndef MAXE
#define MAXE 3
#endif
#define CAP 9

/* a[i] arbitrary, b[i] arbitrary (either a fresh value or a copy of a[i]: the selector only helps the gate's sampler to hit equal operands) */
static void in_pair64(u64* a, u64* b, int n){ for (int i = 0; i < n; i++){ a[i] = in_bits(); u64 t = in_bits(); u64 s = in_u64(0, 1); b[i] = s ? a[i] : t; } }
static void in_pair32(u32* a, u32* b, int n){ for (int i = 0; i < n; i++){ a[i] = in_any32(); u32 t = in_any32(); u64 s = in_u64(0, 1); b[i] = s ? a[i] : t; } }
/* FALPHA (quick tier of the wrapper harnesses: arrays, maybe, either, tuple): element values and eps come from a small alphabet that contains equal, close,
 * far, negative, zero and NaN cases; the element-level comparison itself is decided over ALL bit patterns in h_close_f32 / h_close_f64. Without FALPHA every value is any bit pattern. */
#ifdef FALPHA
static float in_fval(void){ static const float tab[8] = {0.0f, 1.0f, 1.5f, -1.0f, 1.0000001f, 2.5f, 1e30f, 0.0f}; u64 k = in_u64(0, 7); float nanv; { union { u32 b; float f; } x; x.b = 0x7fc00000u; nanv = x.f; } return k == 7 ? nanv : tab[k]; }
#else
static float in_fval(void){ return in_f32(); }
#endif
static void in_pairf(float* a, float* b, int n){ for (int i = 0; i < n; i++){ a[i] = in_fval(); float t = in_fval(); u64 s = in_u64(0, 1); b[i] = s == 1 ? a[i] : t; } }
static int eq64(const u64* a, u64 na, const u64* b, u64 nb){ if (na != nb) return 0; int e = 1; for (u64 i = 0; i < 4; i++) if (i < na && a[i] != b[i]) e = 0; return e; }
/* reference |a-b| < eps: the larger operand minus the smaller one (IEEE: fl(b-a) == -fl(a-b), so this IS fabs(a-b); that identity and the symmetry of the reference are decided by the solver in h_close_lemma) */
static int closef(float a, float b, float eps){ float m = a < b ? b - a : a - b; return m < eps; }
static int closef_fabs(float a, float b, float eps){ float d = a - b; float m = d < 0 ? -d : d; return m < eps; }
static int closef_default(float a, float b){ float d = a - b; float m = d < 0 ? -d : d; return (double)m < 1e-6; }   /* isclose's default eps */
static int closed(double a, double b, double eps){ double m = a < b ? b - a : a - b; return m < eps; }
static int closed_fabs(double a, double b, double eps){ double d = a - b; double m = d < 0 ? -d : d; return m < eps; }
static int close_fp(double x, double y, double eps);
static u64 prod(const u64* s, u64 n){ u64 p = 1; for (u64 i = 0; i < 3; i++) if (i < n) p *= s[i]; return p; }
static int same_shape(const u64* s, u64 n, const u64* t, u64 m){ if (n != m) return 0; int e = 1; for (u64 i = 0; i < 3; i++) if (i < n && s[i] != t[i]) e = 0; return e; }
#define BOTH(expr0, expr1, expect, what) do { int r0_ = (int)(expr0); int r1_ = (int)(expr1); OBS(r0_); OBS(r1_); \
  ASSERT(r0_ == (expect), what ": f(a,b) == reference"); ASSERT(r1_ == (expect), what ": f(b,a) == reference (symmetry)"); } while (0)
/* floating point: each call order is compared with the reference evaluated in the same operand order; that the reference itself is symmetric
 * (IEEE-754: fl(a-b) == -fl(b-a)) is shown once by the solver in h_close_lemma */
#define BOTHX(expr0, expr1, e0, e1, what) do { int r0_ = (int)(expr0); int r1_ = (int)(expr1); OBS(r0_); OBS(r1_); \
  ASSERT(r0_ == (e0), what ": f(a,b) == reference(a,b)"); ASSERT(r1_ == (e1), what ": f(b,a) == reference(b,a)"); } while (0)
/* asserts-on build: a length / dimension / shape mismatch stops in nmtools' assert() instead of returning false (pending finding) */
#ifdef KF_C18_DBG_MISMATCH_ABORTS
#define DBG_EXCLUDE(mismatch) ASSUME(!(mismatch))
#else
#define DBG_EXCLUDE(mismatch) ((void)0)
#endif

/* ------------------------------------------------------------------ index arrays */
void h_idx_sv_sv(void){
  u64 a[4], b[4]; u64 na = in_u64(0, 4), nb = in_u64(0, 4); in_pair64(a, b, 4);
  DBG_EXCLUDE(na != nb);
  BOTH(KS(k_eq_sv_sv)(a, na, b, nb, 0), KS(k_eq_sv_sv)(a, na, b, nb, 1), eq64(a, na, b, nb), "static_vector/static_vector");
  ASSERT(KS(k_eq_sv_sv)(a, na, a, na, 0) == 1, "reflexive");
  REACHED();
}
void h_idx_vec_vec(void){
  u64 a[4], b[4]; u64 na = in_u64(0, 4), nb = in_u64(0, 4); in_pair64(a, b, 4);
  DBG_EXCLUDE(na != nb);
  BOTH(KS(k_eq_vec_vec)(a, na, b, nb, 0), KS(k_eq_vec_vec)(a, na, b, nb, 1), eq64(a, na, b, nb), "vector/vector");
  ASSERT(KS(k_eq_vec_vec)(a, na, a, na, 0) == 1, "reflexive");
  REACHED();
}
void h_idx_vec_sv(void){
  u64 a[4], b[4]; u64 na = in_u64(0, 4), nb = in_u64(0, 4); in_pair64(a, b, 4);
  DBG_EXCLUDE(na != nb);
  BOTH(KS(k_eq_vec_sv)(a, na, b, nb, 0), KS(k_eq_vec_sv)(a, na, b, nb, 1), eq64(a, na, b, nb), "vector/static_vector");
  REACHED();
}
#ifndef N
#define N 3
#endif
#define CAT3_(a,b,c) a##b##c
#define CAT3(a,b,c) CAT3_(a,b,c)
#define CAT4_(a,b,c,d) a##b##c##d
#define CAT4(a,b,c,d) CAT4_(a,b,c,d)
void h_idx_arr_sv(void){    /* N (length of the std::array) is a per-query constant 1..4 */
  u64 a[4], b[4]; u64 nb = in_u64(0, 4); in_pair64(a, b, 4);
  DBG_EXCLUDE(nb != N);
  BOTH(KS(CAT3(k_eq_arr, N, _sv))(a, b, nb, 0), KS(CAT3(k_eq_arr, N, _sv))(a, b, nb, 1), eq64(a, N, b, nb), "array/static_vector");
  REACHED();
}
void h_idx_arr_vec(void){
  u64 a[4], b[4]; u64 nb = in_u64(0, 4); in_pair64(a, b, 4);
  DBG_EXCLUDE(nb != N);
  BOTH(KS(CAT3(k_eq_arr, N, _vec))(a, b, nb, 0), KS(CAT3(k_eq_arr, N, _vec))(a, b, nb, 1), eq64(a, N, b, nb), "array/vector");
  REACHED();
}
void h_idx_arr_arr(void){
  u64 a[4], b[4]; in_pair64(a, b, 4);
  BOTH(KS(CAT4(k_eq_arr, N, _arr, N))(a, b, 0), KS(CAT4(k_eq_arr, N, _arr, N))(a, b, 1), eq64(a, N, b, N), "array/array");
  REACHED();
}
void h_idx_svi_sv(void){   /* int elements against size_t elements */
  u32 a[4]; u64 b[4]; u64 na = in_u64(0, 4), nb = in_u64(0, 4);
  for (int i = 0; i < 4; i++){ a[i] = in_any32(); u64 t = in_bits(); u64 s = in_u64(0, 1); b[i] = s ? (u64)(i64)(i32)a[i] : t; }
  DBG_EXCLUDE(na != nb);
#ifdef KF_C18_EQ_MIXED_SIGN_TRUNCATES
  for (u64 i = 0; i < 4; i++) ASSUME(!(i < na && i < nb && b[i] > 0x7fffffffULL));   /* the size_t side is cast to int before comparing */
#endif
  /* equal iff mathematically equal: a negative int never equals a size_t */
  int e = na == nb; for (u64 i = 0; i < 4; i++) if (i < na && !((i32)a[i] >= 0 && (u64)(i32)a[i] == b[i])) e = 0;
  BOTH(KS(k_eq_svi_sv)(a, na, b, nb, 0), KS(k_eq_svi_sv)(a, na, b, nb, 1), e, "static_vector<int>/static_vector<size_t>");
  REACHED();
}

/* ------------------------------------------------------------------ scalars */
void h_num(void){
  u64 a = in_bits(), t = in_bits(), s = in_u64(0, 1), b = s ? a : t;
  BOTH(KS(k_eq_num)(a, b, 0), KS(k_eq_num)(a, b, 1), a == b, "size_t/size_t");
  u32 x = in_any32(), y = in_any32();
  /* int against unsigned: C++ common type is unsigned */
  BOTH(KS(k_eq_num_i_u)(x, y, 0), KS(k_eq_num_i_u)(x, y, 1), x == y, "int/unsigned");
  REACHED();
}
void h_close_f32(void){
  float a = in_f32(), t = in_f32(); u64 s = in_u64(0, 2); float b = s == 1 ? a : s == 2 ? a + t : t; float eps = in_f32();
  BOTHX(KS(k_close_f32)(a, b, eps, 0), KS(k_close_f32)(a, b, eps, 1), closef(a, b, eps), closef(b, a, eps), "float/float");
  REACHED();
}
void h_close_lemma(void){    /* the reference is symmetric: a fact about IEEE-754 subtraction, decided by the solver (no nmtools code involved) */
#if LEMMA == 1
  u32 a = in_any32(), b = in_any32(); double eps = in_f64(); u32 di = a > b ? a - b : b - a;
  ASSERT(close_fp((double)a, (double)b, eps) == ((double)di < eps), "IEEE expression equals the exact integer |a-b| < eps (unsigned)");
  /* symmetry follows: the integer |a-b| is symmetric and the equality holds for all (a,b) */
#elif LEMMA == 2
  u32 a = in_any32(), b = in_any32(); double eps = in_f64(); i64 d = (i64)(i32)a - (i64)(i32)b; if (d < 0) d = -d;
  /* SGN: sign pattern of (a,b) as a per-query constant (0: ++, 1: --, 2: +-, 3: -+); the four cases are exhaustive (no verdict in 900 s without the split) */
  ASSUME(((i32)a < 0) == (SGN == 1 || SGN == 3)); ASSUME(((i32)b < 0) == (SGN == 1 || SGN == 2));
  ASSERT(close_fp((double)(i32)a, (double)(i32)b, eps) == ((double)d < eps), "IEEE expression equals the exact integer |a-b| < eps (int)");
#elif LEMMA == 64
  double a = in_f64(), b = in_f64(), eps = in_f64();
  ASSERT(closed(a, b, eps) == closed(b, a, eps), "reference closeness is symmetric (double)");
  ASSERT(closed(a, b, eps) == closed_fabs(a, b, eps), "reference closeness equals fabs(a-b) < eps (double)");
#else
  float a = in_f32(), b = in_f32(), eps = in_f32();
  ASSERT(closef(a, b, eps) == closef(b, a, eps), "reference closeness is symmetric (float)");
  ASSERT(closef(a, b, eps) == closef_fabs(a, b, eps), "reference closeness equals fabs(a-b) < eps (float)");
#endif
  REACHED();
}
/* double operands: nmtools rounds |a-b| to float before comparing with eps (constexpr_fabs<Float=float>) */
static int closed_as_float(double a, double b, double eps){ double d = a - b; double m = d < 0 ? -d : d; return (double)(float)m < eps; }
void h_close_f64(void){
  double c = in_f64(), t = in_f64(), e2 = in_f64(); u64 s = in_u64(0, 1); double d = s ? c : t;
  double m0 = c < d ? d - c : c - d, m1 = d < c ? c - d : d - c;      /* |c-d| and |d-c|: larger minus smaller, as in closed() */
#ifdef KF_C18_CLOSE_DOUBLE_ROUNDS_TO_FLOAT
  ASSUME((((double)(float)m0 < e2) == (m0 < e2)) && (((double)(float)m1 < e2) == (m1 < e2)));   /* region: rounding the difference to float changes the verdict */
#endif
  BOTHX(KS(k_close_f64)(c, d, e2, 0), KS(k_close_f64)(c, d, e2, 1), m0 < e2, m1 < e2, "double/double");
  REACHED();
}
void h_close_f32_f64(void){
  float a = in_f32(); double t = in_f64(), e2 = in_f64(); u64 s = in_u64(0, 1); double d = s ? (double)a : t;
  double m0 = (double)a < d ? d - (double)a : (double)a - d, m1 = d < (double)a ? (double)a - d : d - (double)a;
#ifdef KF_C18_CLOSE_DOUBLE_ROUNDS_TO_FLOAT
  ASSUME((((double)(float)m0 < e2) == (m0 < e2)) && (((double)(float)m1 < e2) == (m1 < e2)));
#endif
  BOTHX(KS(k_close_f32_f64)(a, d, e2, 0), KS(k_close_f32_f64)(a, d, e2, 1), m0 < e2, m1 < e2, "float/double");
  REACHED();
}
/* integer operands: |a-b| < eps over the integers (exact in double: |a-b| <= 2^32) */
/* two levels: (1) the nmtools call equals the IEEE expression "larger minus smaller in double, compared with eps" (h_close_uint / h_close_int);
 * (2) that expression equals the exact integer |a-b| < eps for ALL 32-bit operands and every double eps, and is symmetric: h_close_lemma LEMMA=1 (unsigned) / 2 (int),
 * a pure IEEE fact decided by the solver without nmtools code (both differences are exact in double: |a-b| <= 2^32). */
static int close_fp(double x, double y, double eps){ double m = x < y ? y - x : x - y; return m < eps; }
void h_close_uint(void){
  u32 a = in_any32(), t = in_any32(); u64 s = in_u64(0, 2); u32 b = s == 1 ? a : s == 2 ? a + (t & 3) : t; double eps = in_f64();
#ifdef KF_C18_CLOSE_UNSIGNED_WRAPS
  { double df = a > b ? (double)(a - b) : (double)(b - a);
    ASSUME(!((a != b && df < eps) || df > 16777216.0)); }   /* the unsigned difference wraps in one of the two call orders; it is rounded to float beyond 2^24 */
#endif
  BOTHX(KS(k_close_u32)(a, b, eps, 0), KS(k_close_u32)(a, b, eps, 1), close_fp((double)a, (double)b, eps), close_fp((double)b, (double)a, eps), "unsigned/unsigned");
  REACHED();
}
void h_close_int(void){
  u32 a = in_any32(), t = in_any32(); u64 s = in_u64(0, 2); u32 b = s == 1 ? a : s == 2 ? a + (t & 3) : t; double eps = in_f64();
  i64 d = (i64)(i32)a - (i64)(i32)b; if (d < 0) d = -d;
#ifdef KF_C18_CLOSE_INT_OVERFLOW
  ASSUME(!(d > (1 << 24)));   /* the int difference is rounded to float beyond 2^24 (and overflows int beyond 2^31-1: UB) */
#endif
  BOTHX(KS(k_close_i32)(a, b, eps, 0), KS(k_close_i32)(a, b, eps, 1), close_fp((double)(i32)a, (double)(i32)b, eps), close_fp((double)(i32)b, (double)(i32)a, eps), "int/int");
  REACHED();
}

/* ------------------------------------------------------------------ ndarrays (unsigned elements) */
static void in_shape(u64* s, int n){ for (int i = 0; i < n; i++) s[i] = in_u64(0, MAXE); }
static int eq_data(const u32* a, const u32* b, u64 n){ int e = 1; for (u64 i = 0; i < CAP; i++) if (i < n && a[i] != b[i]) e = 0; return e; }
void h_nd_h2_h2(void){
  u64 sa[2], sb[2]; u32 da[CAP], db[CAP]; in_shape(sa, 2); in_shape(sb, 2); in_pair32(da, db, CAP);
  int ss = same_shape(sa, 2, sb, 2);
  int e = ss && eq_data(da, db, prod(sa, 2));
  BOTH(KS(k_eq_h2_h2)(sa, da, sb, db, 0), KS(k_eq_h2_h2)(sa, da, sb, db, 1), e, "hybrid 2-d / hybrid 2-d (same shape, same size other shape, other size)");
  REACHED();
}
void h_nd_dimdiff(void){   /* fixed-dim operands of different dim (2 vs 1, 2 vs 3): never equal, in either order */
  u64 sa[3], sb[3]; u32 da[CAP], db[CAP]; in_shape(sa, 3); in_shape(sb, 3); in_pair32(da, db, CAP);
  ASSUME(prod(sb, 3) <= CAP);
  BOTH(KS(k_eq_h2_h1)(sa, da, sb, db, 0), KS(k_eq_h2_h1)(sa, da, sb, db, 1), 0, "2-d vs 1-d: different dimension is not equal");
  BOTH(KS(k_eq_h2_h3)(sa, da, sb, db, 0), KS(k_eq_h2_h3)(sa, da, sb, db, 1), 0, "2-d vs 3-d: different dimension is not equal");
  REACHED();
}
void h_nd_f23_h2(void){
  u64 sb[2], f[2] = {2, 3}; u32 da[CAP], db[CAP]; in_shape(sb, 2); in_pair32(da, db, CAP);
  int e = same_shape(f, 2, sb, 2) && eq_data(da, db, 6);
  BOTH(KS(k_eq_f23_h2)(da, sb, db, 0), KS(k_eq_f23_h2)(da, sb, db, 1), e, "fixed (2,3) / hybrid 2-d");
  REACHED();
}
#ifndef NA
#define NA 2
#endif
#ifndef NB
#define NB 2
#endif
#ifndef CAPB
#define CAPB CAP
#endif
void h_nd_b_b(void){    /* bounded buffer, bounded run-time dim on both sides; the dims NA, NB are per-query constants 1..3 */
  u64 sa[3], sb[3]; u32 da[CAP], db[CAP]; u64 na = NA, nb = NB; in_shape(sa, 3); in_shape(sb, 3); in_pair32(da, db, CAP);
  ASSUME(prod(sa, na) <= CAPB && prod(sb, nb) <= CAPB);
  DBG_EXCLUDE(na != nb);
  int e = same_shape(sa, na, sb, nb) && eq_data(da, db, prod(sa, na));
  BOTH(KS(k_eq_b_b)(sa, na, da, sb, nb, db, 0), KS(k_eq_b_b)(sa, na, da, sb, nb, db, 1), e, "bounded-dim / bounded-dim");
  REACHED();
}
void h_nd_d_d(void){    /* std::vector buffer and shape on both sides */
  u64 sa[3], sb[3]; u32 da[CAP], db[CAP]; u64 na = NA, nb = NB; in_shape(sa, 3); in_shape(sb, 3); in_pair32(da, db, CAP);
  ASSUME(prod(sa, na) <= CAPB && prod(sb, nb) <= CAPB);
  DBG_EXCLUDE(na != nb);
  int e = same_shape(sa, na, sb, nb) && eq_data(da, db, prod(sa, na));
  BOTH(KS(k_eq_d_d)(sa, na, da, sb, nb, db, 0), KS(k_eq_d_d)(sa, na, da, sb, nb, db, 1), e, "dynamic / dynamic");
  REACHED();
}
void h_nd_d_h2(void){
  u64 sa[3], sb[2]; u32 da[CAP], db[CAP]; u64 na = NA; in_shape(sa, 3); in_shape(sb, 2); in_pair32(da, db, CAP);
  ASSUME(prod(sa, na) <= CAPB);
  DBG_EXCLUDE(na != 2);
  int e = same_shape(sa, na, sb, 2) && eq_data(da, db, prod(sa, na));
  BOTH(KS(k_eq_d_h2)(sa, na, da, sb, db, 0), KS(k_eq_d_h2)(sa, na, da, sb, db, 1), e, "dynamic / hybrid 2-d");
  REACHED();
}
/* isclose on float arrays */
static int close_data(const float* a, const float* b, u64 n, float eps){ int e = 1; for (u64 i = 0; i < CAP; i++) if (i < n && !closef(a[i], b[i], eps)) e = 0; return e; }
void h_close_h2_h2(void){
  u64 sa[2], sb[2]; float da[CAP], db[CAP]; in_shape(sa, 2); in_shape(sb, 2); in_pairf(da, db, CAP); float eps = in_fval();
  int ss = same_shape(sa, 2, sb, 2);
  DBG_EXCLUDE(!ss);
  BOTHX(KS(k_close_h2_h2)(sa, da, sb, db, eps, 0), KS(k_close_h2_h2)(sa, da, sb, db, eps, 1), ss && close_data(da, db, prod(sa, 2), eps), ss && close_data(db, da, prod(sa, 2), eps), "isclose hybrid 2-d / hybrid 2-d");
  REACHED();
}
void h_close_b_b(void){
  u64 sa[3], sb[3]; float da[CAP], db[CAP]; u64 na = NA, nb = NB; in_shape(sa, 3); in_shape(sb, 3); in_pairf(da, db, CAP); float eps = in_fval();
  ASSUME(prod(sa, na) <= CAPB && prod(sb, nb) <= CAPB);
  int ss = same_shape(sa, na, sb, nb);
  DBG_EXCLUDE(!ss);
  BOTHX(KS(k_close_b_b)(sa, na, da, sb, nb, db, eps, 0), KS(k_close_b_b)(sa, na, da, sb, nb, db, eps, 1), ss && close_data(da, db, prod(sa, na), eps), ss && close_data(db, da, prod(sa, na), eps), "isclose bounded-dim / bounded-dim");
  REACHED();
}

/* ------------------------------------------------------------------ maybe / Nothing */
void h_maybe(void){
  u64 a[4], b[4]; u64 na = in_u64(0, 4), nb = in_u64(0, 4); u32 ha = in_u32(0, 1), hb = in_u32(0, 1); in_pair64(a, b, 4);
  DBG_EXCLUDE(ha && hb && na != nb);
  int e = (!ha && !hb) ? 1 : (ha != hb) ? 0 : eq64(a, na, b, nb);
  BOTH(KS(k_eq_maybe_maybe)(ha, a, na, hb, b, nb, 0), KS(k_eq_maybe_maybe)(ha, a, na, hb, b, nb, 1), e, "maybe/maybe: Nothing==Nothing, Nothing!=value, else values");
  BOTH(KS(k_eq_umaybe_umaybe)(ha, a, na, hb, b, nb, 0), KS(k_eq_umaybe_umaybe)(ha, a, na, hb, b, nb, 1), e, "utl::maybe/utl::maybe");
  REACHED();
}
void h_maybe_value(void){
  u64 a[4], b[4]; u64 na = in_u64(0, 4), nb = in_u64(0, 4); u32 ha = in_u32(0, 1); in_pair64(a, b, 4);
  DBG_EXCLUDE(ha && na != nb);
  int e = ha ? eq64(a, na, b, nb) : 0;
  BOTH(KS(k_eq_maybe_value)(ha, a, na, b, nb, 0), KS(k_eq_maybe_value)(ha, a, na, b, nb, 1), e, "maybe/value");
  BOTH(KS(k_eq_maybe_nothing)(ha, a, na, 0), KS(k_eq_maybe_nothing)(ha, a, na, 1), !ha, "maybe/Nothing");
  ASSERT(KS(k_eq_none_none)() == 1, "None/None");
  REACHED();
}
void h_close_maybe(void){
  float a, b; in_pairf(&a, &b, 1); float eps = in_fval(); u32 ha = in_u32(0, 1), hb = in_u32(0, 1);
  int e0 = (!ha && !hb) ? 1 : (ha != hb) ? 0 : closef(a, b, eps), e1 = (!ha && !hb) ? 1 : (ha != hb) ? 0 : closef(b, a, eps);
  BOTHX(KS(k_close_maybe_maybe)(ha, a, hb, b, eps, 0), KS(k_close_maybe_maybe)(ha, a, hb, b, eps, 1), e0, e1, "isclose maybe/maybe");
  BOTHX(KS(k_close_maybe_value)(ha, a, b, eps, 0), KS(k_close_maybe_value)(ha, a, b, eps, 1), ha ? closef(a, b, eps) : 0, ha ? closef(b, a, eps) : 0, "isclose maybe/value");
  REACHED();
}

/* ------------------------------------------------------------------ either */
void h_either(void){
  u64 a[4], b[4], xs[2]; u64 na = in_u64(0, 4), nb = in_u64(0, 4); u32 ra = in_u32(0, 1), rb = in_u32(0, 1); in_pair64(a, b, 4); in_pair64(xs, xs + 1, 1);
  DBG_EXCLUDE(ra && rb && na != nb);
  int e = (ra != rb) ? 0 : ra ? eq64(a, na, b, nb) : xs[0] == xs[1];
  BOTH(KS(k_eq_either_either)(ra, xs[0], a, na, rb, xs[1], b, nb, 0), KS(k_eq_either_either)(ra, xs[0], a, na, rb, xs[1], b, nb, 1), e, "either/either: same alternative and equal values");
  REACHED();
}
void h_either_value(void){
  u64 a[4], b[4], xs[2]; u64 na = in_u64(0, 4), nb = in_u64(0, 4); u32 ra = in_u32(0, 1); in_pair64(a, b, 4); in_pair64(xs, xs + 1, 1);
  DBG_EXCLUDE(ra && na != nb);
  BOTH(KS(k_eq_either_num)(ra, xs[0], a, na, xs[1], 0), KS(k_eq_either_num)(ra, xs[0], a, na, xs[1], 1), ra ? 0 : xs[0] == xs[1], "either/scalar");
  BOTH(KS(k_eq_either_sv)(ra, xs[0], a, na, b, nb, 0), KS(k_eq_either_sv)(ra, xs[0], a, na, b, nb, 1), ra ? eq64(a, na, b, nb) : 0, "either/index array");
  REACHED();
}
void h_close_either(void){
  u64 s[1]; float da[CAP], db[CAP], xa, xb; s[0] = in_u64(0, MAXE); in_pairf(da, db, MAXE); in_pairf(&xa, &xb, 1); float eps = in_fval(); u32 ra = in_u32(0, 1), rb = in_u32(0, 1);
  int e0 = (ra != rb) ? 0 : ra ? close_data(da, db, s[0], eps) : closef(xa, xb, eps), e1 = (ra != rb) ? 0 : ra ? close_data(db, da, s[0], eps) : closef(xb, xa, eps);
  BOTHX(KS(k_close_either_either)(ra, xa, rb, xb, s, da, db, eps, 0), KS(k_close_either_either)(ra, xa, rb, xb, s, da, db, eps, 1), e0, e1, "isclose either/either");
  REACHED();
}
void h_close_either_value(void){
  u64 s[1]; float da[CAP], xa, v; s[0] = in_u64(0, MAXE); for (int i = 0; i < MAXE; i++) da[i] = in_fval(); in_pairf(&xa, &v, 1); float eps = in_fval(); u32 ra = in_u32(0, 1);
#ifdef KF_C18_CLOSE_EITHER_DROPS_EPS
  ASSUME(!(!ra && (closef(xa, v, eps) != closef_default(xa, v) || closef(v, xa, eps) != closef_default(v, xa))));   /* the one-sided either branch calls isclose without eps (default 1e-6 is used) */
#endif
  BOTHX(KS(k_close_either_num)(ra, xa, s, da, v, eps, 0), KS(k_close_either_num)(ra, xa, s, da, v, eps, 1), ra ? 0 : closef(xa, v, eps), ra ? 0 : closef(v, xa, eps), "isclose either/scalar honours eps");
  REACHED();
}

/* ------------------------------------------------------------------ tuples */
void h_tuple(void){
  u64 a[4], b[4]; in_pair64(a, b, 3);
  BOTH(KS(k_eq_tuple3)(a, b, 0), KS(k_eq_tuple3)(a, b, 1), eq64(a, 3, b, 3), "tuple/tuple");
  BOTH(KS(k_eq_tuple_arr3)(a, b, 0), KS(k_eq_tuple_arr3)(a, b, 1), eq64(a, 3, b, 3), "tuple/array");
  REACHED();
}
void h_close_tuple(void){
  float f[2], g[2]; in_pairf(f, g, 2); float eps = in_fval();
  BOTHX(KS(k_close_tuple2)(f[0], f[1], g[0], g[1], eps, 0), KS(k_close_tuple2)(f[0], f[1], g[0], g[1], eps, 1), closef(f[0], g[0], eps) && closef(f[1], g[1], eps), closef(g[0], f[0], eps) && closef(g[1], f[1], eps), "isclose tuple/tuple");
  REACHED();
}
void h_tuple_mixed(void){   /* (scalar, index array, maybe<index array>) member by member */
  u64 a[4], b[4], ma[4], mb[4], xs[2]; u64 na = in_u64(0, 4), nb = in_u64(0, 4), nma = in_u64(0, 4), nmb = in_u64(0, 4); u32 ha = in_u32(0, 1), hb = in_u32(0, 1);
  in_pair64(a, b, 4); in_pair64(ma, mb, 4); in_pair64(xs, xs + 1, 1);
  DBG_EXCLUDE(na != nb || (ha && hb && nma != nmb));
  int em = (!ha && !hb) ? 1 : (ha != hb) ? 0 : eq64(ma, nma, mb, nmb);
  int e = xs[0] == xs[1] && eq64(a, na, b, nb) && em;
  BOTH(KS(k_eq_tuple_mixed)(xs[0], a, na, ha, ma, nma, xs[1], b, nb, hb, mb, nmb, 0), KS(k_eq_tuple_mixed)(xs[0], a, na, ha, ma, nma, xs[1], b, nb, hb, mb, nmb, 1), e, "tuple(scalar, index array, maybe)");
  REACHED();
}
