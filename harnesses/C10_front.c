/* C10 "front" family: array::fn(all optional arguments given) == view::fn(same arguments) == NumPy, at dim, shape and a symbolic index.
 * The eager front ends are thin wrappers (build the view, call eval with RowMajorResolver): a wrapper that drops or reorders one of its
 * optional arguments (dtype, initial, keepdims, axis) evaluates a different view than the one the caller asked for. Every harness gives all
 * optional value arguments, with element types that make each of them matter (uint8 data, dtype uint32, non-zero initial, keepdims True,
 * negative axes), compares eager against lazy AND both against a short NumPy reference written here (dim, shape, ELEMENT SIZE - reported by
 * the kernels in entry [3] of the shape outputs - and the element at an index).
 * Per-query constants (all optional; without them the quantity is symbolic): SH0 x SH1 (x SH2) operand shape, else extents 1..MAXE (MAXE <= 2);
 * SHM extent(s) of the second operand; AXIS the axis argument; CA0..CA4 arguments that size a std::vector result (pad widths, slice bounds,
 * broadcast target, arange bounds); IDX0..IDX2 the result index; PBITS / IBITS symbolic low bits of the cells / initial value of the product harnesses. */
#include "harness.h"
#ifndef FR_PART
#define FR_PART 1
#endif
#if FR_PART == 1
#include "C10_front_1.h"
#elif FR_PART == 2
#include "C10_front_2.h"
#elif FR_PART == 3
#include "C10_front_3.h"
#elif FR_PART == 4
#include "C10_front_4.h"
#elif FR_PART == 5
#include "C10_front_5.h"
#elif FR_PART == 6
#include "C10_front_6.h"
#elif FR_PART == 7
#include "C10_front_7.h"
#elif FR_PART == 8
#include "C10_front_8.h"
#endif
#ifndef MAXE
#define MAXE 2
#endif
#define CELLS 16
#ifdef SH0
static void in_shape(u64* s){ s[0] = in_u64(SH0, SH0); s[1] = in_u64(SH1, SH1); }
#else
static void in_shape(u64* s){ s[0] = in_u64(1, MAXE); s[1] = in_u64(1, MAXE); }
#endif
#ifdef SHM   /* extent(s) of the second operand: symbolic 1..MAXE or the per-query constant SHM */
static u64 in_ext2(void){ return in_u64(SHM, SHM); }
#else
static u64 in_ext2(void){ return in_u64(1, MAXE); }
#endif
/* run-time arguments that determine the SIZE of a std::vector result (pad widths, slice bounds, broadcast target): symbolic, or the per-query constants CA0..CA4 (enumerated)
 * where the symbolic size does not return (out of memory at 6 GB during propositional reduction) */
#ifdef CA0
static const i32 ca_const[5] = {CA0, CA1, CA2, CA3, CA4};
#define ARG(i, lo, hi) in_i32(ca_const[i], ca_const[i])
#else
#define ARG(i, lo, hi) in_i32(lo, hi)
#endif
static void in_data8(u8* d, int n){ for (int i = 0; i < n; i++) d[i] = in_any8(); }
/* data of the PRODUCT harnesses (multiply.reduce / accumulate, prod, cumprod): 8-bit cells whose upper bits are structurally zero (PBITS low bits symbolic);
 * equality of multiplier circuits over full-width symbolic operands does not return (see OUTSIDE) */
#ifndef PBITS
#define PBITS 4
#endif
#ifndef IBITS
#define IBITS 16   /* symbolic low bits of the initial value of the product harnesses */
#endif
#define in_initp() (in_any32() & ((1u << IBITS) - 1))
static void in_datap(u8* d, int n){ for (int i = 0; i < n; i++) d[i] = (u8)(in_any8() & ((1u << PBITS) - 1)); }
static void in_data32(u32* d, int n){ for (int i = 0; i < n; i++) d[i] = in_any32(); }
/* index inside the expected shape ex[0..nd): symbolic, or the per-query constant (IDX0,IDX1,IDX2) - enumerated - for the product harnesses
 * (a symbolic selection in front of a multiplier chain makes the equality of the three chains a multiplier-equivalence problem that does not return) */
#ifdef IDX0
static const u64 idx_const[4] = {IDX0, IDX1, IDX2, 0};
static void in_index(u64* idx, const u64* ex, u64 nd, u64 maxe){ for (u64 i = 0; i < 4; i++){ idx[i] = in_u64(idx_const[i], idx_const[i]); if (i < nd) ASSUME(idx[i] < ex[i]); else ASSUME(idx[i] == 0); } }
#else
static void in_index(u64* idx, const u64* ex, u64 nd, u64 maxe){ for (u64 i = 0; i < 4; i++){ idx[i] = in_u64(0, maxe - 1); if (i < nd) ASSUME(idx[i] < ex[i]); else ASSUME(idx[i] == 0); } }
#endif
#ifdef AXIS   /* per-query constant axis (enumerated) where the symbolic axis does not return in the budget */
static i32 in_axis(i32 nd){ (void)nd; return in_i32(AXIS, AXIS); }
#else
static i32 in_axis(i32 nd){ return in_i32(-nd, nd - 1); }           /* NumPy axis, negative counts from the end */
#endif
static u64 norm_axis(i32 ax, i32 nd){ return (u64)(ax < 0 ? ax + nd : ax); }
static void check(int r, const u64* ex, u64 nd, u32 want, u64 esz, const u64* ls, u64 ld, u32 lv, const u64* es, u64 ed, u32 ev){
  ASSERT(r == 1, "view and evaluated array exist and the index is inside both");
  ASSERT(ld == nd, "view dim == NumPy dim");
  ASSERT(ed == nd, "dim(array::fn(args)) == NumPy dim");
  for (u64 i = 0; i < 4; i++) if (i < nd){ ASSERT(ls[i] == ex[i], "view shape == NumPy shape"); ASSERT(es[i] == ex[i], "shape(array::fn(args)) == NumPy shape"); }
  ASSERT(ls[3] == esz, "element size of view::fn(args) == size of the NumPy result dtype");
  ASSERT(es[3] == esz, "element size of array::fn(args) == size of the NumPy result dtype");
  ASSERT(lv == want, "view::fn(args)(i) == NumPy element");
  ASSERT(ev == want, "array::fn(args)(i) == NumPy element");
  ASSERT(ev == lv, "array::fn(args)(i) == view::fn(args)(i)");
  OBS(r); OBS(lv); OBS(ev);
}
#define LOC u64 shape[4] = {0}, idx[4] = {0}, ls[4] = {0}, es[4] = {0}, ld = 0, ed = 0, ex[4] = {0}, nd = 2; u32 p[8] = {0}, lv = 0, ev = 0, want = 0; in_shape(shape); u64 n0 = shape[0], n1 = shape[1]; (void)n0; (void)n1
#define RES idx, nd, ls, &ld, &lv, es, &ed, &ev
#define CHK(ESZ) check(r, ex, nd, want, ESZ, ls, ld, lv, es, ed, ev); REACHED()

#if FR_PART == 1
/* np.add.reduce(a, axis, dtype=np.uint32, initial=init, keepdims=True), a uint8 */
void h_front_add_reduce(void){ LOC; u8 data[CELLS] = {0}; in_data8(data, MAXE*MAXE);
  i32 axis = in_axis(2); u32 init = in_any32(); p[0] = (u32)axis; p[1] = init; u64 ax = norm_axis(axis, 2);
  ex[0] = ax == 0 ? 1 : n0; ex[1] = ax == 1 ? 1 : n1; in_index(idx, ex, nd, MAXE);
  int r = k_front_add_reduce(shape, data, p, RES);
  want = init; for (u64 k = 0; k < MAXE; k++) if (k < shape[ax]) want += (u32)data[ax == 0 ? k*n1 + idx[1] : idx[0]*n1 + k];
  CHK(4); }
/* np.add.accumulate(a, axis, dtype=np.uint32) */
void h_front_add_accumulate(void){ LOC; u8 data[CELLS] = {0}; in_data8(data, MAXE*MAXE);
  i32 axis = in_axis(2); p[0] = (u32)axis; u64 ax = norm_axis(axis, 2);
  ex[0] = n0; ex[1] = n1; in_index(idx, ex, nd, MAXE);
  int r = k_front_add_accumulate(shape, data, p, RES);
  want = 0; for (u64 k = 0; k < MAXE; k++) if (k <= idx[ax]) want += (u32)data[ax == 0 ? k*n1 + idx[1] : idx[0]*n1 + k];
  CHK(4); }
/* np.add.outer(a, b, dtype=np.uint8): a (n0,n1), b (m,) -> (n0,n1,m), 8-bit wrap-around (without the dtype the element is the C++ sum, an int) */
void h_front_add_outer(void){ LOC; u8 data[CELLS] = {0}, datb[CELLS] = {0}; in_data8(data, MAXE*MAXE); shape[2] = in_ext2(); in_data8(datb, MAXE);
  nd = 3; ex[0] = n0; ex[1] = n1; ex[2] = shape[2]; in_index(idx, ex, nd, MAXE);
  int r = k_front_add_outer(shape, data, datb, p, RES);
  want = (u8)(data[idx[0]*n1 + idx[1]] + datb[idx[2]]);
  CHK(1); }
/* np.multiply.reduce(a, axis, dtype=np.uint16, initial=init, keepdims=True), a uint8 (16-bit products: a dropped dtype still changes values) */
void h_front_multiply_reduce(void){ LOC; u8 data[CELLS] = {0}; in_datap(data, MAXE*MAXE);
  i32 axis = in_axis(2); u32 init = in_initp(); p[0] = (u32)axis; p[1] = init; u64 ax = norm_axis(axis, 2);
  ex[0] = ax == 0 ? 1 : n0; ex[1] = ax == 1 ? 1 : n1; in_index(idx, ex, nd, MAXE);
  int r = k_front_multiply_reduce(shape, data, p, RES);
  want = init; for (u64 k = 0; k < MAXE; k++) if (k < shape[ax]) want = (u16)((i32)want * (i32)data[ax == 0 ? k*n1 + idx[1] : idx[0]*n1 + k]);
  CHK(2); }
/* np.multiply.accumulate(a, axis, dtype=np.uint16) */
void h_front_multiply_accumulate(void){ LOC; u8 data[CELLS] = {0}; in_datap(data, MAXE*MAXE);
  i32 axis = in_axis(2); p[0] = (u32)axis; u64 ax = norm_axis(axis, 2);
  ex[0] = n0; ex[1] = n1; in_index(idx, ex, nd, MAXE);
  int r = k_front_multiply_accumulate(shape, data, p, RES);
  want = 1; for (u64 k = 0; k < MAXE; k++) if (k <= idx[ax]) want = (u16)((i32)want * (i32)data[ax == 0 ? k*n1 + idx[1] : idx[0]*n1 + k]);
  CHK(2); }
/* np.subtract(a, b): a (n0,n1) uint32, b (m,), every broadcastable pair (m == n1, m == 1 or n1 == 1) -> (n0, max(n1,m)) */
void h_front_subtract(void){ LOC; u32 data[CELLS] = {0}, datb[CELLS] = {0}; in_data32(data, MAXE*MAXE); u64 m = in_ext2(); shape[2] = m; ASSUME(m == n1 || m == 1 || n1 == 1); in_data32(datb, MAXE);
  ex[0] = n0; ex[1] = n1 == 1 ? m : n1; in_index(idx, ex, nd, MAXE);
  int r = k_front_subtract(shape, data, datb, p, RES);
  want = data[idx[0]*n1 + (n1 == 1 ? 0 : idx[1])] - datb[m == 1 ? 0 : idx[1]];
  CHK(4); }
#endif

#if FR_PART == 2
/* reductions over one axis of a uint8 array with dtype=np.uint32, initial=init, keepdims=True: result shape has extent 1 at the axis */
#define REDUCE_H(NAME, ESZ, DRAW, INITDRAW, STEP) void h_front_##NAME(void){ LOC; u8 data[CELLS] = {0}; DRAW(data, MAXE*MAXE); \
  i32 axis = in_axis(2); u32 init = INITDRAW; p[0] = (u32)axis; p[1] = init; u64 ax = norm_axis(axis, 2); \
  ex[0] = ax == 0 ? 1 : n0; ex[1] = ax == 1 ? 1 : n1; in_index(idx, ex, nd, MAXE); \
  int r = k_front_##NAME(shape, data, p, RES); \
  want = init; for (u64 k = 0; k < MAXE; k++) if (k < shape[ax]){ u32 x = (u32)data[ax == 0 ? k*n1 + idx[1] : idx[0]*n1 + k]; STEP; } \
  CHK(ESZ); }
/* scans along one axis with dtype=np.uint32 */
#define SCAN_H(NAME, ESZ, DRAW, UNIT, STEP) void h_front_##NAME(void){ LOC; u8 data[CELLS] = {0}; DRAW(data, MAXE*MAXE); \
  i32 axis = in_axis(2); p[0] = (u32)axis; u64 ax = norm_axis(axis, 2); \
  ex[0] = n0; ex[1] = n1; in_index(idx, ex, nd, MAXE); \
  int r = k_front_##NAME(shape, data, p, RES); \
  want = UNIT; for (u64 k = 0; k < MAXE; k++) if (k <= idx[ax]){ u32 x = (u32)data[ax == 0 ? k*n1 + idx[1] : idx[0]*n1 + k]; STEP; } \
  CHK(ESZ); }
REDUCE_H(sum, 4, in_data8, in_any32(), want += x)                      /* np.sum(a, axis, dtype=np.uint32, initial=init, keepdims=True) */
REDUCE_H(prod, 2, in_datap, in_initp(), want = (u16)((i32)want * (i32)x))   /* np.prod(a, axis, dtype=np.uint16, initial=init, keepdims=True): 16-bit products */
REDUCE_H(amax, 4, in_data8, in_any32(), if (x > want) want = x)        /* np.amax(a, axis, initial=init, keepdims=True) in uint32 */
REDUCE_H(amin, 4, in_data8, in_any32(), if (x < want) want = x)        /* np.amin(...) */
SCAN_H(cumsum, 4, in_data8, 0, want += x)                  /* np.cumsum(a, axis, dtype=np.uint32) */
SCAN_H(cumprod, 2, in_datap, 1, want = (u16)((i32)want * (i32)x))    /* np.cumprod(a, axis, dtype=np.uint16) */
/* np.mean(a, axis, dtype=np.float64, keepdims=True): dim, shape and element size (8 bytes) against NumPy; the element only eager == lazy (value as float32 bit pattern) */
void h_front_mean(void){ LOC; u8 data[CELLS] = {0}; in_data8(data, MAXE*MAXE);
  i32 axis = in_axis(2); p[0] = (u32)axis; u64 ax = norm_axis(axis, 2);
  ex[0] = ax == 0 ? 1 : n0; ex[1] = ax == 1 ? 1 : n1; in_index(idx, ex, nd, MAXE);
  int r = k_front_mean(shape, data, p, RES);
  want = lv; CHK(8); }
#endif

#if FR_PART == 3
#define A(i, j) data[(i)*n1 + (j)]
#define D32 u32 data[CELLS] = {0}; in_data32(data, MAXE*MAXE)
/* np.reshape(a, (t0,t1)): two entries, at most one -1, element count preserved */
void h_front_reshape(void){ LOC; D32; u64 numel = n0*n1; i32 d0 = in_i32(-1, MAXE*MAXE), d1 = in_i32(-1, MAXE*MAXE);
  ASSUME(d0 != 0 && d1 != 0 && !(d0 == -1 && d1 == -1)); p[0] = (u32)d0; p[1] = (u32)d1;
  ex[0] = d0 == -1 ? numel / (u64)d1 : (u64)d0; ex[1] = d1 == -1 ? numel / (u64)d0 : (u64)d1; ASSUME(ex[0]*ex[1] == numel); in_index(idx, ex, nd, MAXE*MAXE);
  int r = k_front_reshape(shape, data, p, RES); want = data[idx[0]*ex[1] + idx[1]]; CHK(4); }
void h_front_flatten(void){ LOC; D32; nd = 1; ex[0] = n0*n1; in_index(idx, ex, nd, MAXE*MAXE);
  int r = k_front_flatten(shape, data, p, RES); want = data[idx[0]]; CHK(4); }
/* np.moveaxis(a, src, dst) / np.swapaxes(a, ax1, ax2) on a 2-d array: identity when both name the same axis, else the transpose */
#define AXES2_H(NAME, ESZ) void h_front_##NAME(void){ LOC; D32; i32 s = in_axis(2), d = in_axis(2); p[0] = (u32)s; p[1] = (u32)d; int sw = norm_axis(s, 2) != norm_axis(d, 2); \
  ex[0] = sw ? n1 : n0; ex[1] = sw ? n0 : n1; in_index(idx, ex, nd, MAXE); \
  int r = k_front_##NAME(shape, data, p, RES); want = sw ? A(idx[1], idx[0]) : A(idx[0], idx[1]); CHK(ESZ); }
AXES2_H(swapaxes, 4)
/* np.moveaxis(a, src, dst) on a 3-d array (n0,n1,n2), src, dst in [-3, 2]: order = remaining axes with src inserted at dst */
void h_front_moveaxis(void){ u64 shape[4] = {0}, idx[4] = {0}, ls[4] = {0}, es[4] = {0}, ld = 0, ed = 0, ex[4] = {0}, nd = 3, src[3] = {0}, order[3] = {0}; u32 p[8] = {0}, lv = 0, ev = 0, want = 0, data[CELLS] = {0};
#ifdef SH2
  shape[0] = in_u64(SH0, SH0); shape[1] = in_u64(SH1, SH1); shape[2] = in_u64(SH2, SH2);
#else
  for (int i = 0; i < 3; i++) shape[i] = in_u64(1, MAXE);
#endif
  in_data32(data, MAXE*MAXE*MAXE);
  i32 s = in_axis(3), d = in_axis(3); p[0] = (u32)s; p[1] = (u32)d; u64 sn = norm_axis(s, 3), dn = norm_axis(d, 3);
  { u64 k = 0; for (u64 i = 0; i < 3; i++){ if (i == dn) order[i] = sn; else { if (k == sn) k++; order[i] = k++; } } }
  for (u64 i = 0; i < 3; i++) ex[i] = shape[order[i]]; in_index(idx, ex, nd, MAXE); for (u64 i = 0; i < 3; i++) src[order[i]] = idx[i];
  int r = k_front_moveaxis(shape, data, p, RES); want = data[(src[0]*shape[1] + src[1])*shape[2] + src[2]]; CHK(4); }
/* np.expand_dims(a, axis), axis in [-3, 2] */
void h_front_expand_dims(void){ LOC; D32; i32 axis = in_axis(3); p[0] = (u32)axis; u64 ax = norm_axis(axis, 3); nd = 3;
  ex[0] = ax == 0 ? 1 : n0; ex[1] = ax == 1 ? 1 : (ax == 0 ? n0 : n1); ex[2] = ax == 2 ? 1 : n1; in_index(idx, ex, nd, MAXE);
  int r = k_front_expand_dims(shape, data, p, RES); want = A(ax == 0 ? idx[1] : idx[0], ax == 2 ? idx[1] : idx[2]); CHK(4); }
/* np.squeeze(a): extents equal to 1 are removed */
void h_front_squeeze(void){ LOC; D32; nd = 0; u64 src[2] = {0, 0}; u64 pick[4] = {0};
  if (n0 != 1){ ex[nd] = n0; pick[nd] = 0; nd++; } if (n1 != 1){ ex[nd] = n1; pick[nd] = 1; nd++; }
  in_index(idx, ex, nd, MAXE); for (u64 i = 0; i < 2; i++) if (i < nd) src[pick[i]] = idx[i];
  int r = k_front_squeeze(shape, data, p, RES); want = A(src[0], src[1]); CHK(4); }
/* np.tile(a, (r0,r1)), reps 1..2 */
void h_front_tile(void){ LOC; D32; u32 r0 = in_u32(1, 2), r1 = in_u32(1, 2); p[0] = r0; p[1] = r1; ex[0] = n0*r0; ex[1] = n1*r1; in_index(idx, ex, nd, 2*MAXE);
  int r = k_front_tile(shape, data, p, RES); want = A(idx[0] % n0, idx[1] % n1); CHK(4); }
/* np.repeat(a, repeats, axis), repeats 1..2 */
void h_front_repeat(void){ LOC; D32; u32 rep = in_u32(1, 2); i32 axis = in_axis(2); p[0] = rep; p[1] = (u32)axis; u64 ax = norm_axis(axis, 2);
  ex[0] = ax == 0 ? n0*rep : n0; ex[1] = ax == 1 ? n1*rep : n1; in_index(idx, ex, nd, 2*MAXE);
  int r = k_front_repeat(shape, data, p, RES); want = A(ax == 0 ? idx[0]/rep : idx[0], ax == 1 ? idx[1]/rep : idx[1]); CHK(4); }
/* np.roll(a, shift, axis): result[i] = a[(i - shift) mod n] along the axis, shift in [-2*MAXE, 2*MAXE] */
void h_front_roll(void){ LOC; D32; i32 sh = in_i32(-2*MAXE, 2*MAXE); i32 axis = in_axis(2); p[0] = (u32)sh; p[1] = (u32)axis; u64 ax = norm_axis(axis, 2);
  ex[0] = n0; ex[1] = n1; in_index(idx, ex, nd, MAXE); i64 n = (i64)shape[ax]; u64 s = (u64)((((i64)idx[ax] - sh) % n + n) % n);
  int r = k_front_roll(shape, data, p, RES); want = A(ax == 0 ? s : idx[0], ax == 1 ? s : idx[1]); CHK(4); }
/* np.take(a, ind, axis): 1..3 indices in [-n, n) */
void h_front_take(void){ LOC; D32; i32 axis = in_axis(2); u64 ax = norm_axis(axis, 2); u64 ni = in_u64(1, 3); i32 ind[3]; i64 n = (i64)shape[ax];
  for (int i = 0; i < 3; i++){ ind[i] = in_i32(-MAXE, MAXE - 1); ASSUME((u64)i >= ni || (ind[i] >= -n && ind[i] < n)); p[2+i] = (u32)ind[i]; } p[0] = (u32)axis; p[1] = (u32)ni;
  ex[0] = ax == 0 ? ni : n0; ex[1] = ax == 1 ? ni : n1; in_index(idx, ex, nd, 3); i32 t = ind[idx[ax]]; u64 s = (u64)(t < 0 ? t + n : t);
  int r = k_front_take(shape, data, p, RES); want = A(ax == 0 ? s : idx[0], ax == 1 ? s : idx[1]); CHK(4); }
#endif

#if FR_PART == 4
#define A(i, j) data[(i)*n1 + (j)]
#define B(i, j) datb[(i)*m1 + (j)]
#define D32 u32 data[CELLS] = {0}; in_data32(data, MAXE*MAXE)
/* np.concatenate((a, b), axis): a (n0,n1), b (m0,m1) agreeing on the other axis */
void h_front_concatenate(void){ LOC; D32; u32 datb[CELLS] = {0}; u64 m0 = in_ext2(), m1 = in_ext2(); shape[2] = m0; shape[3] = m1; in_data32(datb, MAXE*MAXE);
  i32 axis = in_axis(2); p[0] = (u32)axis; u64 ax = norm_axis(axis, 2); ASSUME(ax == 0 ? m1 == n1 : m0 == n0);
#ifdef KF_C10_FRONT_CONCATENATE_NEGAXIS   /* open finding (same defect as C04-concatenate-negative-axis): view::concatenate / array::concatenate ignore a negative axis */
  ASSUME(!(axis < 0));
#endif
  ex[0] = ax == 0 ? n0 + m0 : n0; ex[1] = ax == 1 ? n1 + m1 : n1; in_index(idx, ex, nd, 2*MAXE);
  int r = k_front_concatenate(shape, data, datb, p, RES);
  want = idx[ax] < shape[ax] ? A(idx[0], idx[1]) : (ax == 0 ? B(idx[0] - n0, idx[1]) : B(idx[0], idx[1] - n1)); CHK(4); }
/* pad(a, (before0, before1, after0, after1), value) == np.pad(a, ((before0, after0), (before1, after1)), constant_values=value), widths 0..1 */
void h_front_pad(void){ LOC; D32; for (int i = 0; i < 4; i++) p[i] = (u32)ARG(i, 0, 1); p[4] = in_any32();
  ex[0] = n0 + p[0] + p[2]; ex[1] = n1 + p[1] + p[3]; in_index(idx, ex, nd, MAXE + 2);
  int r = k_front_pad(shape, data, p, RES);
  int inside = idx[0] >= p[0] && idx[0] < p[0] + n0 && idx[1] >= p[1] && idx[1] < p[1] + n1; want = inside ? A(idx[0] - p[0], idx[1] - p[1]) : p[4]; CHK(4); }
/* a[b0:e0:s0, b1:e1], non-empty selections (empty ones: open finding of C05) */
void h_front_slice(void){ LOC; D32; i32 b0 = ARG(0, 0, MAXE - 1), e0 = ARG(1, 1, MAXE), s0 = ARG(2, 1, 2), b1 = ARG(3, 0, MAXE - 1), e1 = ARG(4, 1, MAXE);
  ASSUME(b0 < e0 && (u64)e0 <= n0 && b1 < e1 && (u64)e1 <= n1); p[0] = (u32)b0; p[1] = (u32)e0; p[2] = (u32)s0; p[3] = (u32)b1; p[4] = (u32)e1;
  ex[0] = (u64)((e0 - b0 + s0 - 1) / s0); ex[1] = (u64)(e1 - b1); in_index(idx, ex, nd, MAXE);
  int r = k_front_slice(shape, data, p, RES); want = A((u64)b0 + idx[0]*(u64)s0, (u64)b1 + idx[1]); CHK(4); }
/* np.broadcast_to(a, (t0,t1,t2)): t1 == n0 or n0 == 1, t2 == n1 or n1 == 1 */
void h_front_broadcast_to(void){ LOC; D32; nd = 3; for (int i = 0; i < 3; i++){ ex[i] = (u64)ARG(i, 1, MAXE); p[i] = (u32)ex[i]; } ASSUME((ex[1] == n0 || n0 == 1) && (ex[2] == n1 || n1 == 1));
  in_index(idx, ex, nd, MAXE);
  int r = k_front_broadcast_to(shape, data, p, RES); want = A(n0 == 1 ? 0 : idx[1], n1 == 1 ? 0 : idx[2]); CHK(4); }
/* np.where(c, x, y), three arrays of the same shape */
void h_front_where(void){ LOC; D32; u32 datb[CELLS] = {0}, datc[CELLS] = {0}; in_data32(datb, MAXE*MAXE); in_data32(datc, MAXE*MAXE);
  ex[0] = n0; ex[1] = n1; in_index(idx, ex, nd, MAXE);
  int r = k_front_where(shape, datc, data, datb, p, RES); u64 f = idx[0]*n1 + idx[1]; want = datc[f] ? data[f] : datb[f]; CHK(4); }
/* np.diagonal(a, offset, axis1, axis2): offset >= 0, distinct axes in [-2, 1], non-empty diagonal */
void h_front_diagonal(void){ LOC; D32; i32 off = in_i32(0, MAXE - 1), a1 = in_axis(2), a2 = in_axis(2); u64 x1 = norm_axis(a1, 2), x2 = norm_axis(a2, 2); ASSUME(x1 != x2);
  p[0] = (u32)off; p[1] = (u32)a1; p[2] = (u32)a2; u64 rows = shape[x1], cols = shape[x2]; ASSUME(cols > (u64)off);
  nd = 1; ex[0] = rows < cols - (u64)off ? rows : cols - (u64)off; in_index(idx, ex, nd, MAXE);
  int r = k_front_diagonal(shape, data, p, RES); want = x1 == 0 ? A(idx[0], idx[0] + (u64)off) : A(idx[0] + (u64)off, idx[0]); CHK(4); }
/* np.tril(a, k) / np.triu(a, k), k in [-MAXE, MAXE] */
#define TRI_H(NAME, ESZ, KEEP) void h_front_##NAME(void){ LOC; D32; i32 k = in_i32(-MAXE, MAXE); p[0] = (u32)k; ex[0] = n0; ex[1] = n1; in_index(idx, ex, nd, MAXE); \
  int r = k_front_##NAME(shape, data, p, RES); i64 i = (i64)idx[0], j = (i64)idx[1]; want = (KEEP) ? A(idx[0], idx[1]) : 0; CHK(ESZ); }
TRI_H(tril, 4, j <= i + k) TRI_H(triu, 4, j >= i + k)
/* np.full_like(a, value, dtype=np.uint32) / np.zeros_like(a, dtype=np.uint32), a uint8: 4-byte elements */
void h_front_full_like(void){ LOC; u8 data[CELLS] = {0}; in_data8(data, MAXE*MAXE); p[0] = in_any32(); ex[0] = n0; ex[1] = n1; in_index(idx, ex, nd, MAXE);
  int r = k_front_full_like(shape, data, p, RES); want = p[0]; CHK(4); }
void h_front_zeros_like(void){ LOC; u8 data[CELLS] = {0}; in_data8(data, MAXE*MAXE); ex[0] = n0; ex[1] = n1; in_index(idx, ex, nd, MAXE);
  int r = k_front_zeros_like(shape, data, p, RES); want = 0; CHK(4); }
/* np.arange(start, stop, step, dtype=np.int8): non-empty ranges; 1-byte elements (the default dtype is float32) */
void h_front_arange(void){ u64 idx[4] = {0}, ls[4] = {0}, es[4] = {0}, ld = 0, ed = 0, ex[4] = {0}, nd = 1; u32 p[8] = {0}, lv = 0, ev = 0, want = 0;
  i32 start = ARG(0, -2, 2), stop = ARG(1, -3, 3), step = ARG(2, -2, 2); ASSUME(step != 0); p[0] = (u32)start; p[1] = (u32)stop; p[2] = (u32)step;
  i32 span = step > 0 ? stop - start : start - stop, as = step > 0 ? step : -step; ASSUME(span > 0); ex[0] = (u64)((span + as - 1) / as); in_index(idx, ex, nd, 5);
  int r = k_front_arange(p, RES); want = (u32)(start + (i32)idx[0]*step); CHK(1); }
/* np.eye(N, M, k, dtype=np.uint8): 1-byte elements (the default dtype is float32) */
void h_front_eye(void){ u64 idx[4] = {0}, ls[4] = {0}, es[4] = {0}, ld = 0, ed = 0, ex[4] = {0}, nd = 2; u32 p[8] = {0}, lv = 0, ev = 0, want = 0;
  u64 nm[2]; in_shape(nm); u64 n = nm[0], m = nm[1]; i32 k = in_i32(-MAXE, MAXE); p[0] = (u32)n; p[1] = (u32)m; p[2] = (u32)k; ex[0] = n; ex[1] = m; in_index(idx, ex, nd, MAXE);
  int r = k_front_eye(p, RES); want = ((i64)idx[1] == (i64)idx[0] + k) ? 1 : 0; CHK(1); }
/* (product harness: cells with PBITS symbolic low bits) np.outer(a, b): a flattened (n0*n1), b (m,) -> (n0*n1, m); uint8 operands: the element is the C++ product (int, no wrap at 8 bits - element types are C07's subject) */
void h_front_outer(void){ LOC; u8 data[CELLS] = {0}, datb[CELLS] = {0}; in_datap(data, MAXE*MAXE); u64 m = in_ext2(); shape[2] = m; in_datap(datb, MAXE);
  ex[0] = n0*n1; ex[1] = m; in_index(idx, ex, nd, MAXE*MAXE);
  int r = k_front_outer(shape, data, datb, p, RES); want = (u32)data[idx[0]] * (u32)datb[idx[1]]; CHK(4); }
#endif

#if FR_PART == 5
#define A(i, j) data[(i)*n1 + (j)]
#define B(i, j) datb[(i)*m1 + (j)]
#define D32 u32 data[CELLS] = {0}; in_data32(data, MAXE*MAXE)
/* np.stack((a, b), axis): same shapes, axis in [-3, 2] */
void h_front_stack(void){ LOC; D32; u32 datb[CELLS] = {0}; u64 m1 = n1; shape[2] = n0; shape[3] = n1; in_data32(datb, MAXE*MAXE);
  i32 axis = in_axis(3); p[0] = (u32)axis; u64 ax = norm_axis(axis, 3); nd = 3;
#ifdef KF_C10_FRONT_STACK_NEGAXIS         /* open finding (same defect as C04-concatenate-negative-axis through stack) */
  ASSUME(!(axis < 0));
#endif
  ex[0] = ax == 0 ? 2 : n0; ex[1] = ax == 1 ? 2 : (ax == 0 ? n0 : n1); ex[2] = ax == 2 ? 2 : n1; in_index(idx, ex, nd, MAXE);
  int r = k_front_stack(shape, data, datb, p, RES);
  u64 i = ax == 0 ? idx[1] : idx[0], j = ax == 2 ? idx[1] : idx[2]; want = idx[ax] == 0 ? A(i, j) : B(i, j); CHK(4); }
/* (product harness: cells with PBITS symbolic low bits) np.matmul(a, b): a (n0,n1) @ b (n1,m1), uint8 (NumPy: uint8 result, wrap-around mod 256) */
void h_front_matmul(void){ LOC; u8 data[CELLS] = {0}, datb[CELLS] = {0}; in_datap(data, MAXE*MAXE); u64 m1 = in_ext2(); shape[2] = n1; shape[3] = m1; in_datap(datb, MAXE*MAXE);
  ex[0] = n0; ex[1] = m1; in_index(idx, ex, nd, MAXE);
  int r = k_front_matmul(shape, data, datb, p, RES); u8 acc = 0; for (u64 k = 0; k < MAXE; k++) if (k < n1) acc = (u8)(acc + (u8)(A(idx[0], k) * B(k, idx[1]))); want = acc; CHK(1); }
#endif

#if FR_PART == 6
/* members of the other integer binary ufuncs that have them, U in {subtract, maximum, minimum, left_shift, right_shift} (and multiply.outer), uint8 data
 * (shift harnesses: cells with PBITS symbolic low bits, so that every shift count is defined):
 *   np.U.reduce(a, axis, dtype=np.uint32, initial=init, keepdims=True), np.U.accumulate(a, axis, dtype=np.uint32), np.U.outer(a, b, dtype=np.uint8) */
#define UF_H(U, DRAW, STEP, OUTER) \
void h_front_##U##_reduce(void){ LOC; u8 data[CELLS] = {0}; DRAW(data, MAXE*MAXE); \
  i32 axis = in_axis(2); u32 init = in_any32(); p[0] = (u32)axis; p[1] = init; u64 ax = norm_axis(axis, 2); \
  ex[0] = ax == 0 ? 1 : n0; ex[1] = ax == 1 ? 1 : n1; in_index(idx, ex, nd, MAXE); \
  int r = k_front_##U##_reduce(shape, data, p, RES); \
  want = init; for (u64 k = 0; k < MAXE; k++) if (k < shape[ax]){ u32 x = (u32)data[ax == 0 ? k*n1 + idx[1] : idx[0]*n1 + k]; STEP; } \
  CHK(4); } \
void h_front_##U##_accumulate(void){ LOC; u8 data[CELLS] = {0}; DRAW(data, MAXE*MAXE); \
  i32 axis = in_axis(2); p[0] = (u32)axis; u64 ax = norm_axis(axis, 2); \
  ex[0] = n0; ex[1] = n1; in_index(idx, ex, nd, MAXE); \
  int r = k_front_##U##_accumulate(shape, data, p, RES); \
  want = (u32)data[ax == 0 ? idx[1] : idx[0]*n1]; for (u64 k = 1; k < MAXE; k++) if (k <= idx[ax]){ u32 x = (u32)data[ax == 0 ? k*n1 + idx[1] : idx[0]*n1 + k]; STEP; } \
  CHK(4); } \
OUTER_H(U, DRAW, OUTER)
#define OUTER_H(U, DRAW, OUTER) \
void h_front_##U##_outer(void){ LOC; u8 data[CELLS] = {0}, datb[CELLS] = {0}; DRAW(data, MAXE*MAXE); shape[2] = in_ext2(); DRAW(datb, MAXE); \
  nd = 3; ex[0] = n0; ex[1] = n1; ex[2] = shape[2]; in_index(idx, ex, nd, MAXE); \
  int r = k_front_##U##_outer(shape, data, datb, p, RES); \
  { i32 x = (i32)data[idx[0]*n1 + idx[1]], y = (i32)datb[idx[2]]; want = (u8)(OUTER); } \
  CHK(1); }
UF_H(subtract, in_data8, want = want - x, x - y)
UF_H(maximum, in_data8, if (x > want) want = x, x > y ? x : y)
UF_H(minimum, in_data8, if (x < want) want = x, x < y ? x : y)
UF_H(left_shift, in_datap, want = want << x, x << y)
UF_H(right_shift, in_datap, want = want >> x, x >> y)
OUTER_H(multiply, in_datap, x * y)
#endif

#if FR_PART == 7
#define A(i, j) data[(i)*n1 + (j)]
#define D32 u32 data[CELLS] = {0}; in_data32(data, MAXE*MAXE)
/* np.tri(N, M, k, dtype=np.uint8): ones at and below the k-th diagonal; 1-byte elements (the default dtype is float32) */
void h_front_tri(void){ u64 idx[4] = {0}, ls[4] = {0}, es[4] = {0}, ld = 0, ed = 0, ex[4] = {0}, nd = 2; u32 p[8] = {0}, lv = 0, ev = 0, want = 0;
  u64 nm[2]; in_shape(nm); u64 n = nm[0], m = nm[1]; i32 k = in_i32(-MAXE, MAXE); p[0] = (u32)n; p[1] = (u32)m; p[2] = (u32)k; ex[0] = n; ex[1] = m; in_index(idx, ex, nd, MAXE);
  int r = k_front_tri(p, RES); want = ((i64)idx[1] <= (i64)idx[0] + k) ? 1 : 0; CHK(1); }
/* np.diagflat(a, k): a flattened on the k-th diagonal of an (n+|k|, n+|k|) array, k in [-1, 1] (per-query constant CA0 where symbolic does not return) */
void h_front_diagflat(void){ LOC; D32; i32 k = ARG(0, -1, 1); p[0] = (u32)k; u64 n = n0*n1 + (u64)(k < 0 ? -k : k); ex[0] = n; ex[1] = n; in_index(idx, ex, nd, MAXE*MAXE + 1);
  int r = k_front_diagflat(shape, data, p, RES); i64 row = (i64)idx[0], col = (i64)idx[1]; want = col == row + k ? data[k >= 0 ? row : col] : 0; CHK(4); }
/* np.var(a, axis, dtype=np.float64, ddof=ddof, keepdims=True): dim, shape and element size (8 bytes) against NumPy; the element only eager == lazy (a dropped ddof changes it) */
void h_front_var(void){ LOC; u8 data[CELLS] = {0}; in_data8(data, MAXE*MAXE);
  i32 axis = in_axis(2); i32 ddof = in_i32(0, 1); p[0] = (u32)axis; p[1] = (u32)ddof; u64 ax = norm_axis(axis, 2);
  ex[0] = ax == 0 ? 1 : n0; ex[1] = ax == 1 ? 1 : n1; in_index(idx, ex, nd, MAXE);
  int r = k_front_var(shape, data, p, RES);
  want = lv; CHK(8); }
#endif

#if FR_PART == 8
#define A(i, j) data[(i)*n1 + (j)]
#define B(i, j) datb[(i)*m1 + (j)]
/* np.matmul through view::matmul / array::matmul in a translation unit that also includes the eager slice front end (nmtools/array/array/slice.hpp) */
void h_front_matmul_sl(void){ LOC; u8 data[CELLS] = {0}, datb[CELLS] = {0}; in_datap(data, MAXE*MAXE); u64 m1 = in_ext2(); shape[2] = n1; shape[3] = m1; in_datap(datb, MAXE*MAXE);
  ex[0] = n0; ex[1] = m1; in_index(idx, ex, nd, MAXE);
  int r = k_front_matmul_sl(shape, data, datb, p, RES); u8 acc = 0; for (u64 k = 0; k < MAXE; k++) if (k < n1) acc = (u8)(acc + (u8)(A(idx[0], k) * B(k, idx[1]))); want = acc; CHK(1); }
#endif
