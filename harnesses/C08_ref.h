/* shared by harnesses/C08.c and harnesses/C08_front.c: NumPy reference model of reductions over a 3-d array */
#ifndef MAXE
#define MAXE 2
#endif
#define CELLS 27
/* AXIS / AXIS1 / KEEP: optional per-query constants (enumerated exhaustively by props/C08.py); symbolic when not defined */
#ifdef AXIS
#define IN_AXIS() ((i32)(AXIS))
#else
#define IN_AXIS() in_i32(-3, 2)
#endif
#ifdef AXIS1
#define IN_AXIS1() ((i32)(AXIS1))
#else
#define IN_AXIS1() in_i32(-3, 2)
#endif
#ifdef AXIS2
#define IN_AXIS2() ((i32)(AXIS2))
#else
#define IN_AXIS2() in_i32(-3, 2)
#endif
#ifdef KEEP
#define IN_KEEP() ((int)(KEEP))
#else
#define IN_KEEP() ((int)in_u32(0, 1))
#endif
#ifdef SH0   /* shape as per-query constants SH0,SH1,SH2 (every shape with extents 1..MAXE is enumerated by props/C08.py) */
static void in_shape3(u64* s){ s[0] = SH0; s[1] = SH1; s[2] = SH2; }
#else
static void in_shape3(u64* s){ for (int i = 0; i < 3; i++) s[i] = in_u64(1, MAXE); }
#endif
static void in_data(u32* d, int n){ for (int i = 0; i < n; i++) d[i] = in_any32(); }
static u64 norm(i32 a, u64 n){ return a < 0 ? (u64)(a + (i32)n) : (u64)a; }
/* NumPy result shape of reducing a 3-d array over the axes in `mask` (bit k set = axis k reduced); returns the result dim */
static u64 ref_shape(const u64* shape, u32 mask, int keep, u64* ex){
  u64 n = 0; for (int k = 0; k < 4; k++) ex[k] = 0;
  for (int k = 0; k < 3; k++){ if ((mask >> k) & 1){ if (keep) ex[n++] = 1; } else ex[n++] = shape[k]; }
  return n;
}
/* left fold, in C order of the source coordinates, of exactly the source elements whose non-reduced coordinates equal idx.
 * op: 0 subtract, 1 add, 2 multiply. Without initial the first element starts the fold (NumPy ufunc.reduce). */
static u32 ref_fold(const u64* shape, const u32* data, u32 mask, int keep, const u64* idx, int op, int has_init, u32 init){
  u64 fixed[3]; u64 j = 0;
  for (int k = 0; k < 3; k++){ if ((mask >> k) & 1){ fixed[k] = 0; if (keep) j++; } else fixed[k] = idx[j++]; }
  u32 acc = init; int first = !has_init;
  for (u64 i0 = 0; i0 < MAXE; i0++) for (u64 i1 = 0; i1 < MAXE; i1++) for (u64 i2 = 0; i2 < MAXE; i2++){
    int in0 = (mask & 1) ? i0 < shape[0] : i0 == 0, in1 = (mask & 2) ? i1 < shape[1] : i1 == 0, in2 = (mask & 4) ? i2 < shape[2] : i2 == 0;
    if (in0 && in1 && in2){
      u64 c0 = (mask & 1) ? i0 : fixed[0], c1 = (mask & 2) ? i1 : fixed[1], c2 = (mask & 4) ? i2 : fixed[2];
      u32 e = data[(c0*shape[1] + c1)*shape[2] + c2];
      if (first){ acc = e; first = 0; } else acc = op == 0 ? acc - e : op == 1 ? acc + e : acc * e;
    } }
  return acc;
}
static void in_index(u64* idx, const u64* ex, u64 n){ for (u64 i = 0; i < 4; i++){ idx[i] = i < 3 ? in_u64(0, MAXE - 1) : 0; ASSUME(i >= n || idx[i] < ex[i]); } }
static u32 ref_accum(const u64* shape, const u32* data, u64 an, const u64* idx, int op){
  u32 acc = 0;
  for (u64 k = 0; k < MAXE; k++) if (k <= idx[an]){
    u64 c[3] = { idx[0], idx[1], idx[2] }; c[an] = k;
    u32 e = data[(c[0]*shape[1] + c[1])*shape[2] + c[2]];
    acc = k == 0 ? e : op == 0 ? acc - e : op == 1 ? acc + e : acc * e; }
  return acc;
}
