/* Argument domains of the C10/C11 program list over a 2-d operand of shape (n0,n1).
 * dom_<prog>(p, ex, n0, n1, &maxidx) draws the program's arguments (symbolic, valid per NumPy), stores them in p[] in the
 * order the kernel reads them, writes the NumPy result shape to ex[] and returns the result dim. maxidx = largest index value. */
#ifndef C10_DOM_H
#define C10_DOM_H
#ifndef MAXE
#define MAXE 3
#endif
#ifndef CAP
#define CAP 16          /* buffer capacity of the hybrid operand type */
#endif
static u64 dnorm(i32 v, u64 n){ return v < 0 ? (u64)(v + (i32)n) : (u64)v; }
#define DOM(NAME) static u64 dom_##NAME(u32* p, u64* ex, u64 n0, u64 n1, u64* maxidx)
/* helpers on a current shape (s0,s1) used by the depth-2/3 programs */
static void d_perm2(u32* p, u64* s){ i32 a = in_i32(0, 1); p[0] = (u32)a; p[1] = (u32)(1 - a); if (a == 1){ u64 t = s[0]; s[0] = s[1]; s[1] = t; } }
static void d_axis2(u32* p){ p[0] = (u32)in_i32(-2, 1); }
static void d_target2(u32* p, u64* s){   /* 2 entries, at most one -1, element count preserved */
  u64 numel = s[0] * s[1]; i32 d0 = in_i32(-1, MAXE*MAXE*4), d1 = in_i32(-1, MAXE*MAXE*4);
  ASSUME(d0 != 0 && d1 != 0 && !(d0 == -1 && d1 == -1)); p[0] = (u32)d0; p[1] = (u32)d1;
  s[0] = d0 == -1 ? numel / (u64)d1 : (u64)d0; s[1] = d1 == -1 ? numel / (u64)d0 : (u64)d1; ASSUME(s[0] * s[1] == numel); }
static void d_slice2(u32* p, u64* s){    /* [b0:e0:s0, b1:e1], non-empty selections (empty ones: open finding of C05; only the index domain depends on it) */
  i32 b0 = in_i32(0, 2*MAXE - 1), e0 = in_i32(1, 2*MAXE), s0 = in_i32(1, 2), b1 = in_i32(0, 2*MAXE - 1), e1 = in_i32(1, 2*MAXE);
  ASSUME(b0 < e0 && (u64)e0 <= s[0] && b1 < e1 && (u64)e1 <= s[1]);
  p[0] = (u32)b0; p[1] = (u32)e0; p[2] = (u32)s0; p[3] = (u32)b1; p[4] = (u32)e1;
  s[0] = (u64)((e0 - b0 + s0 - 1) / s0); s[1] = (u64)(e1 - b1); }
static void d_tile2(u32* p, u64* s){ p[0] = in_u32(1, 2); p[1] = in_u32(1, 2); s[0] *= p[0]; s[1] *= p[1]; }
static void d_pad2(u32* p, u64* s){ for (int i = 0; i < 4; i++) p[i] = in_u32(0, 1); p[4] = in_any32(); s[0] += p[0] + p[2]; s[1] += p[1] + p[3]; }
static u64 d_sum2(u32* p, u64* s){ i32 ax = in_i32(-2, 1); p[0] = (u32)ax; if (dnorm(ax, 2) == 0) s[0] = s[1]; s[1] = 0; return 1; }
#define FIN2 ex[0] = s[0]; ex[1] = s[1]; *maxidx = 4*MAXE*MAXE; return 2
/* ---- depth 1 ---- */
DOM(transpose){ u64 s[2] = {n0, n1}; d_perm2(p, s); FIN2; }
DOM(transpose_none){ ex[0] = n1; ex[1] = n0; *maxidx = MAXE - 1; return 2; }
DOM(reshape_b){   /* bounded-dim target: 1..4 entries */
  u64 numel = n0 * n1, nd = in_u64(1, 4); int nneg = 0; u64 prod = 1;
  for (int i = 0; i < 4; i++){ i32 v = in_i32(-1, MAXE*MAXE); ASSUME(v != 0); p[1+i] = (u32)v; if ((u64)i < nd){ if (v == -1) nneg++; else prod *= (u64)v; } }
  ASSUME((nneg == 0 && prod == numel) || (nneg == 1 && numel % prod == 0));
  for (int i = 0; i < 4; i++) ex[i] = ((i32)p[1+i] == -1) ? numel / prod : (u64)(i32)p[1+i];
  p[0] = (u32)nd; *maxidx = MAXE*MAXE - 1; return nd; }
DOM(reshape){ u64 s[2] = {n0, n1}; d_target2(p, s); FIN2; }
DOM(flatten){ ex[0] = n0 * n1; *maxidx = MAXE*MAXE - 1; return 1; }
DOM(flip){ u64 s[2] = {n0, n1}; d_axis2(p); FIN2; }
DOM(slice){ u64 s[2] = {n0, n1}; d_slice2(p, s); FIN2; }
DOM(tile){ u64 s[2] = {n0, n1}; d_tile2(p, s); FIN2; }
DOM(pad){ u64 s[2] = {n0, n1}; d_pad2(p, s); FIN2; }
DOM(invert){ ex[0] = n0; ex[1] = n1; *maxidx = MAXE - 1; return 2; }
DOM(add_scalar){ p[0] = in_any32(); ex[0] = n0; ex[1] = n1; *maxidx = MAXE - 1; return 2; }
DOM(sum){ u64 s[2] = {n0, n1}; d_sum2(p, s); ex[0] = s[0]; *maxidx = MAXE - 1; return 1; }
/* ---- depth 2: outer(inner(a)); inner arguments first, outer arguments after them (offset as the kernel reads them) ---- */
DOM(flip_transpose){ u64 s[2] = {n0, n1}; d_perm2(p, s); d_axis2(p + 2); FIN2; }
DOM(reshape_flip){ u64 s[2] = {n0, n1}; d_axis2(p); d_target2(p + 1, s); FIN2; }
DOM(sum_transpose){ u64 s[2] = {n0, n1}; d_perm2(p, s); d_sum2(p + 2, s); ex[0] = s[0]; *maxidx = MAXE - 1; return 1; }
DOM(add_scalar_transpose){ u64 s[2] = {n0, n1}; d_perm2(p, s); p[2] = in_any32(); FIN2; }
DOM(transpose_add_scalar){ u64 s[2] = {n0, n1}; p[0] = in_any32(); d_perm2(p + 1, s); FIN2; }
DOM(flatten_pad){ u64 s[2] = {n0, n1}; d_pad2(p, s); ex[0] = s[0] * s[1]; *maxidx = 4*MAXE*MAXE; return 1; }
DOM(invert_flip){ u64 s[2] = {n0, n1}; d_axis2(p); FIN2; }
DOM(slice_transpose){ u64 s[2] = {n0, n1}; d_perm2(p, s); d_slice2(p + 2, s); FIN2; }
DOM(transpose_slice){ u64 s[2] = {n0, n1}; d_slice2(p, s); d_perm2(p + 5, s); FIN2; }
DOM(sum_add_scalar){ u64 s[2] = {n0, n1}; p[0] = in_any32(); d_sum2(p + 1, s); ex[0] = s[0]; *maxidx = MAXE - 1; return 1; }
/* ---- depth 3 ---- */
DOM(invert_flip_reshape){ u64 s[2] = {n0, n1}; d_target2(p, s); d_axis2(p + 2); FIN2; }
DOM(transpose_flip_slice){ u64 s[2] = {n0, n1}; d_slice2(p, s); d_axis2(p + 5); d_perm2(p + 6, s); FIN2; }
DOM(reshape_flip_pad){ u64 s[2] = {n0, n1}; d_pad2(p, s); d_axis2(p + 5); d_target2(p + 6, s); FIN2; }
/* index of length nd inside ex (entries beyond nd are 0) */
static void dom_index(u64* idx, const u64* ex, u64 nd, u64 maxidx){ for (u64 i = 0; i < 4; i++){ idx[i] = i < nd ? in_u64(0, maxidx) : 0; ASSUME(i < nd ? idx[i] < ex[i] : 1); } }
#endif
