/* C19: the STL-free containers hold what their std:: counterparts would hold after any bounded history.
 * The harness draws a history of K steps (operation, target object, arguments), the kernel runs it on two live objects of the real
 * container, and the observable state of both objects is compared with an array-based std::vector / std::optional / std::variant /
 * std::tuple / std::array model kept here. Heap-backed kinds are run with --memory-leak-check. */
#define NMV_HOOK_CAPACITY_ALLOWED      /* refusals at capacity are expected events; their effect (contents unchanged) is asserted */
#include "harness.h"
#ifdef POOL        /* kernels built with the counting slot allocator behind nmtools_malloc / nmtools_free (see kernels/C19_containers.cpp) */
#include "C19_containers_pool.h"
#define KS2(n) n##_pool
#define KS(n) KS2(n)
#define PWORDS 12
static void pool_begin(void){ u32 junk[PWORDS]; for (int i = 0; i < PWORDS; i++) junk[i] = in_any32(); k_pool_reset_pool(junk); }   /* fresh blocks hold arbitrary values, like malloc */
static void pool_end(void){
  u32 live = 99, used = 99; u32 err = k_pool_report_pool(&live, &used); OBS(err); OBS(live);
  ASSERT((err & 1) == 0, "allocator model large enough for this history (bound check, not a property of nmtools)");
  ASSERT((err & 2) == 0, "no block is freed twice");
  ASSERT((err & 4) == 0, "only allocated blocks are freed");
  ASSERT((err & 8) == 0, "no write beyond the requested size of a block");
  ASSERT(live == 0, "every allocated block has been freed when all objects are destroyed (no leak)");
}
#else
#include "C19_containers.h"
#define KS(n) n
#define pool_begin() ((void)0)
#define pool_end() ((void)0)
#endif
#ifndef K
#define K 3
#endif
#ifndef OUTCAP
#define OUTCAP 12
#endif
#ifndef KIND
#define KIND 0
#endif
/* KIND 0 utl::vector<int>   1 utl::static_vector<int,4>   2 small_vector<int,3> (std::variant, std::vector)   3 small_vector<int,3> (utl::either, utl::vector) */
#if KIND == 0
#define KHIST KS(k_hist_vector)
#define BOUNDED 0
#define CAPS 4
#elif KIND == 1
#define KHIST KS(k_hist_static_vector)
#define BOUNDED 1
#define CAPS 4
#elif KIND == 2
#define KHIST KS(k_hist_small_vector_stl)
#define BOUNDED 0
#define CAPS 3
#else
#define KHIST KS(k_hist_small_vector_utl)
#define BOUNDED 0
#define CAPS 3
#endif
#define RMAX (CAPS + 2)
#ifndef NOPS
#define NOPS 7
#endif
#ifdef OP0
#ifndef OP1
#define OP1 0
#endif
#ifndef OP2
#define OP2 0
#endif
#ifndef OP3
#define OP3 0
#endif
#ifndef OP4
#define OP4 0
#endif
#ifndef OP5
#define OP5 0
#endif
#endif

typedef struct { u64 n; u32 d[OUTCAP]; u64 hw; } mv_t;      /* hw: high-water mark of the size (only used to describe the region of a pending finding) */
static void m_resize(mv_t* m, u64 n){           /* std::vector::resize: new elements are value-initialised; bounded kind: refused beyond capacity */
  if (BOUNDED && n > CAPS) return;
  for (u64 i = 0; i < OUTCAP; i++) if (i >= m->n && i < n) m->d[i] = 0;
  m->n = n; if (n > m->hw) m->hw = n;
}
static void m_push(mv_t* m, u32 v){ if (BOUNDED && m->n + 1 > CAPS) return; if (m->n < OUTCAP) m->d[m->n] = v; m->n++; if (m->n > m->hw) m->hw = m->n; }
static void m_assign(mv_t* m, const mv_t* o){ u64 hw = m->hw > o->n ? m->hw : o->n; mv_t c = *o; *m = c; m->hw = hw; }

/* concrete prefixes PRE0 / PRE1 (per-query constants, see the kernel): the objects start the symbolic steps in a chosen reachable state */
#ifndef PRE0
#define PRE0 0
#endif
#ifndef PRE1
#define PRE1 0
#endif
static void m_prefix(mv_t* m, int code, const u32* pv){
  switch (code){
    case 1: m_push(m, pv[0]); m_push(m, pv[1]); break;
    case 2: for (int i = 0; i < 4; i++) m_push(m, pv[i]); break;
    case 3: for (int i = 0; i < 5; i++) m_push(m, pv[i]); break;
    case 4: m_resize(m, 6); break;
    case 5: m_resize(m, 6); m_resize(m, 1); break;
    case 6: for (int i = 0; i < 3; i++) m_push(m, pv[i]); m_resize(m, 0); break;
    default: break;
  }
}
void h_hist(void){
  u8 ops[K], tgt[K]; u64 n[K]; u32 v[K], pv0[5], pv1[5];
  mv_t m[2]; m[0].n = 0; m[1].n = 0; m[0].hw = 0; m[1].hw = 0;
  for (int i = 0; i < OUTCAP; i++){ m[0].d[i] = 0; m[1].d[i] = 0; }
  for (int i = 0; i < 5; i++){ pv0[i] = in_any32(); pv1[i] = in_any32(); }
  m_prefix(&m[0], PRE0, pv0); m_prefix(&m[1], PRE1, pv1);
  for (int s = 0; s < K; s++){
    ops[s] = in_u8(0, NOPS - 1); tgt[s] = in_u8(0, 1); n[s] = in_u64(0, RMAX); v[s] = in_any32();
#ifdef OP0          /* the operation sequence as per-query constants (enumerated over the whole alphabet by the spec); targets and arguments stay symbolic */
    { static const u8 fixed_ops[6] = { OP0, OP1, OP2, OP3, OP4, OP5 }; ASSUME(ops[s] == fixed_ops[s]); ops[s] = fixed_ops[s]; }
#endif
    mv_t* me = &m[tgt[s]]; mv_t* other = &m[tgt[s] ^ 1];
#ifdef KF_C19_STATIC_RESIZE_STALE
    ASSUME(!(ops[s] == 1 && n[s] > me->n && me->n < me->hw && me->n < CAPS));   /* a growing resize of the in-place (bounded) buffer after the object has been longer: the exposed cells keep their old values */
#endif
#if KIND == 0
#ifdef KF_C19_VECTOR_SIZED_CTOR_UNINIT
    ASSUME(!(ops[s] == 6 && n[s] > 0));     /* utl::vector(N), N > 0: the N cells are never initialised */
#endif
#ifdef KF_C19_VECTOR_ZERO_LEAK
    ASSUME(!(ops[s] == 6 && n[s] == 0));    /* utl::vector(0): the malloc(0) block is never freed */
#endif
#endif
    switch (ops[s]){
      case 0: m_push(me, v[s]); break;
      case 1: m_resize(me, n[s]); break;
      case 2: ASSUME(n[s] < me->n); me->d[n[s]] = v[s]; break;       /* writes address existing elements only */
      case 3: m_assign(me, other); break;
      case 4: break;                                                 /* self-assignment is harmless */
      case 5: m_assign(me, other); break;                            /* copy-construct, then assign the copy */
      default:
        ASSUME(!BOUNDED || n[s] <= CAPS);                            /* a bounded vector cannot be constructed beyond its capacity (see h_ctor) */
        { mv_t c; c.hw = 0; for (int i = 0; i < OUTCAP; i++) c.d[i] = 0; c.n = n[s]; m_assign(me, &c); } break;
    }
  }
  u32 o0[OUTCAP], o1[OUTCAP]; u64 n0 = 99, n1 = 99;
  for (int i = 0; i < OUTCAP; i++){ o0[i] = 0xdeadbeef; o1[i] = 0xdeadbeef; }
  pool_begin();
  KHIST(PRE0, PRE1, pv0, pv1, ops, tgt, n, v, K, o0, &n0, o1, &n1, OUTCAP);
  pool_end();
  OBS(n0); OBS(n1);
  ASSERT(n0 == m[0].n && n1 == m[1].n, "size() of both objects equals the std::vector model");
  for (u64 i = 0; i < OUTCAP; i++){
    if (i < m[0].n){ OBS(o0[i]); ASSERT(o0[i] == m[0].d[i], "elements of object 0 equal the std::vector model"); }
    if (i < m[1].n){ OBS(o1[i]); ASSERT(o1[i] == m[1].d[i], "elements of object 1 equal the std::vector model"); }
  }
  REACHED();
}

/* constructors observed directly */
void h_ctor(void){
  u32 out[OUTCAP]; for (int i = 0; i < OUTCAP; i++) out[i] = 0xdeadbeef;
  u64 n = in_u64(0, 6); u64 r;
  pool_begin();
#if defined(KF_C19_VECTOR_SIZED_CTOR_UNINIT) && defined(KF_C19_VECTOR_ZERO_LEAK)
  /* every N lies inside one of the two pending findings (N > 0: uninitialised cells, N == 0: leaked block): only the variadic constructor is left */
#else
#ifdef KF_C19_VECTOR_SIZED_CTOR_UNINIT
  ASSUME(n == 0);      /* vector(N), N > 0, exposes N uninitialised cells */
#endif
#ifdef KF_C19_VECTOR_ZERO_LEAK
  ASSUME(n > 0);       /* vector(0) never frees its malloc(0) block */
#endif
  r = KS(k_vector_sized)(n, out, OUTCAP); OBS(r);
  ASSERT(r == n, "vector(N).size() == N");
  for (u64 i = 0; i < OUTCAP; i++) if (i < n){ ASSERT(out[i] == 0, "vector(N): elements are value-initialised like std::vector(N)"); }
#endif
  u32 a = in_any32(), b = in_any32(), c = in_any32();
  r = KS(k_vector_variadic)(a, b, c, out, OUTCAP); OBS(r);
  ASSERT(r == 3 && out[0] == a && out[1] == b && out[2] == c, "vector(a,b,c) holds a,b,c");
  pool_end();
  REACHED();
}
void h_ctor_static(void){
  u32 out[OUTCAP]; for (int i = 0; i < OUTCAP; i++) out[i] = 0xdeadbeef;
  u64 n = in_u64(0, 6);
#ifdef KF_C19_STATIC_SIZED_CTOR_OVER_CAPACITY
  ASSUME(n <= 4);
#endif
  u64 r = KS(k_static_vector_sized)(n, out, OUTCAP); OBS(r);
  ASSERT(r <= 4, "static_vector<int,4>(N).size() never exceeds the capacity");
  ASSERT(n > 4 || r == n, "static_vector(N).size() == N within capacity");
  for (u64 i = 0; i < OUTCAP; i++) if (i < r && i < 4){ ASSERT(out[i] == 0, "static_vector(N): elements are value-initialised"); }
  REACHED();
}
void h_copy_independent(void){
  u32 src[8], oc[OUTCAP], os[OUTCAP]; u64 n = in_u64(1, 6), wi = in_u64(0, 5); u32 wv = in_any32();
  for (int i = 0; i < 8; i++) src[i] = in_any32();
  ASSUME(wi < n);
  for (int i = 0; i < OUTCAP; i++){ oc[i] = 0xdeadbeef; os[i] = 0xdeadbeef; }
  pool_begin();
  u64 r = KS(k_vector_copy)(src, n, wi, wv, oc, os, OUTCAP); OBS(r);
  pool_end();
  ASSERT(r == n, "copy has the size of its source");
  for (u64 i = 0; i < 8; i++) if (i < n){ ASSERT(oc[i] == src[i], "copy is independent of later writes to its source"); ASSERT(os[i] == (i == wi ? wv : src[i]), "source after the write"); }
  REACHED();
}

/* copy-construct, then grow the COPY: sizes/contents of both objects as std::vector, every access inside the copy's own heap block, nothing leaked */
void h_copy_then_grow(void){
#ifdef NSRC      /* sizes as per-query constants (symbolic sizes 0..5 / 0..3 exhaust 8.8 GB: every reallocation pattern in one formula) */
  u32 src[8], more[4], oc[OUTCAP], os[OUTCAP]; u64 n = in_u64(NSRC, NSRC), m = in_u64(NPUSH, NPUSH);
#else
  u32 src[8], more[4], oc[OUTCAP], os[OUTCAP]; u64 n = in_u64(0, 5), m = in_u64(0, 3);
#endif
  for (int i = 0; i < 8; i++) src[i] = in_any32(); for (int i = 0; i < 4; i++) more[i] = in_any32();
  for (int i = 0; i < OUTCAP; i++){ oc[i] = 0xdeadbeef; os[i] = 0xdeadbeef; }
  pool_begin();
  u64 r = KS(k_vector_copy_grow)(src, n, more, m, oc, os, OUTCAP); OBS(r);
  pool_end();
  ASSERT(r == n + m, "size of the grown copy");
  for (u64 i = 0; i < 8; i++) if (i < n + m) ASSERT(oc[i] == (i < n ? src[i] : more[i - n]), "grown copy holds the source's elements followed by the pushed ones");
  for (u64 i = 0; i < 8; i++) if (i < n) ASSERT(os[i] == src[i], "the source is untouched by pushes into its copy");
  REACHED();
}

/* utl::array<int,4> */
void h_array(void){
  u8 ops[K], tgt[K]; u64 n[K]; u32 v[K], m[2][4], o0[4] = {0}, o1[4] = {0};
  for (int i = 0; i < 4; i++){ m[0][i] = in_any32(); m[1][i] = in_any32(); }
  u32 i0[4], i1[4]; for (int i = 0; i < 4; i++){ i0[i] = m[0][i]; i1[i] = m[1][i]; }
  for (int s = 0; s < K; s++){
    ops[s] = in_u8(0, 4); tgt[s] = in_u8(0, 1); n[s] = in_u64(0, 3); v[s] = in_any32();
    u32* me = m[tgt[s]]; u32* other = m[tgt[s] ^ 1];
    switch (ops[s]){
      case 0: case 4: me[n[s]] = v[s]; break;
      case 1: case 3: for (int i = 0; i < 4; i++) me[i] = other[i]; break;
      default: break;
    }
  }
  k_hist_array(ops, tgt, n, v, K, i0, i1, o0, o1);
  for (int i = 0; i < 4; i++){ OBS(o0[i]); OBS(o1[i]); ASSERT(o0[i] == m[0][i] && o1[i] == m[1][i], "utl::array contents equal the std::array model"); }
  REACHED();
}

/* utl::tuple / utl::tuplev2 <int, unsigned char, size_t> */
#ifndef TUPLEV
#define TUPLEV 1
#endif
void h_tuple(void){
  u8 ops[K], tgt[K]; u64 v[K], m[2][3], init[6], out[6] = {0};
  for (int i = 0; i < 6; i++) init[i] = in_bits();
  for (int t = 0; t < 2; t++){ m[t][0] = (u64)(i64)(i32)init[3*t]; m[t][1] = (u8)init[3*t+1]; m[t][2] = init[3*t+2]; }
  for (int s = 0; s < K; s++){
    ops[s] = in_u8(0, 5); tgt[s] = in_u8(0, 1); v[s] = in_bits();
    u64* me = m[tgt[s]]; u64* other = m[tgt[s] ^ 1];
    switch (ops[s]){
      case 0: me[0] = (u64)(i64)(i32)v[s]; break;
      case 1: me[1] = (u8)v[s]; break;
      case 2: me[2] = v[s]; break;
      case 3: case 5: for (int i = 0; i < 3; i++) me[i] = other[i]; break;
      default: break;
    }
  }
#if TUPLEV == 1
  k_hist_tuple(ops, tgt, v, K, init, out);
#else
  k_hist_tuplev2(ops, tgt, v, K, init, out);
#endif
  for (int i = 0; i < 6; i++){ OBS(out[i]); ASSERT(out[i] == m[i / 3][i % 3], "tuple members equal the std::tuple model"); }
  REACHED();
}

/* utl::maybe<int> / utl::maybe<double> against std::optional */
void h_maybe(void){
  u8 ops[K], tgt[K]; u32 v[K], has[2] = {9, 9}, val[2] = {0, 0}; int mh[2] = {0, 0}; u32 mvv[2] = {0, 0};
  for (int s = 0; s < K; s++){
    ops[s] = in_u8(0, 6); tgt[s] = in_u8(0, 1); v[s] = in_any32();
    int t = tgt[s], o = t ^ 1;
    switch (ops[s]){
      case 0: case 5: mh[t] = 1; mvv[t] = v[s]; break;
      case 1: mh[t] = 0; break;
      case 2: case 4: mh[t] = mh[o]; mvv[t] = mvv[o]; break;
      case 3: break;
      default: ASSUME(mh[t]); mvv[t] = v[s]; break;     /* writing through * needs a value */
    }
  }
  k_hist_maybe_int(ops, tgt, v, K, has, val);
  for (int t = 0; t < 2; t++){ OBS(has[t]); ASSERT(has[t] == (u32)mh[t], "has_value() equals the std::optional model"); if (mh[t]){ OBS(val[t]); ASSERT(val[t] == mvv[t], "value() equals the std::optional model"); } }
  REACHED();
}
void h_maybe_f64(void){
  u8 ops[K], tgt[K]; double v[K], val[2] = {0, 0}; u32 has[2] = {9, 9}; int mh[2] = {0, 0}; u64 mvv[2] = {0, 0};
  for (int s = 0; s < K; s++){
    ops[s] = in_u8(0, 6); tgt[s] = in_u8(0, 1); v[s] = in_f64();
    int t = tgt[s], o = t ^ 1;
    switch (ops[s]){
      case 0: case 5: mh[t] = 1; mvv[t] = f64_bits(v[s]); break;
      case 1: mh[t] = 0; break;
      case 2: case 4: mh[t] = mh[o]; mvv[t] = mvv[o]; break;
      case 3: break;
      default: ASSUME(mh[t]); mvv[t] = f64_bits(v[s]); break;
    }
  }
  k_hist_maybe_f64(ops, tgt, v, K, has, val);
  for (int t = 0; t < 2; t++){ OBS(has[t]); ASSERT(has[t] == (u32)mh[t], "has_value()"); if (mh[t]){ OBS(f64_bits(val[t])); ASSERT(f64_bits(val[t]) == mvv[t], "value() bit-identical to the stored double"); } }
  REACHED();
}

/* utl::either<int,unsigned char> against std::variant */
void h_either(void){
  u8 ops[K], tgt[K]; u32 v[K], idx[2] = {99, 99}, val[2] = {0, 0}; int mi[2] = {0, 0}; u32 mvv[2] = {0, 0};   /* default: left alternative, value-initialised */
  for (int s = 0; s < K; s++){
    ops[s] = in_u8(0, 6); tgt[s] = in_u8(0, 1); v[s] = in_any32();
    int t = tgt[s], o = t ^ 1;
    switch (ops[s]){
      case 0: case 5: mi[t] = 0; mvv[t] = v[s]; break;
      case 1: case 6: mi[t] = 1; mvv[t] = (u8)v[s]; break;
      case 2: case 4: mi[t] = mi[o]; mvv[t] = mvv[o]; break;
      default: break;
    }
  }
  k_hist_either(ops, tgt, v, K, idx, val);
  for (int t = 0; t < 2; t++){
    OBS(idx[t]); OBS(val[t]);
    ASSERT(idx[t] == (u32)(mi[t] + 10 * (mi[t] == 0 ? 1 : 2)), "index() and get_if<> report exactly the active alternative");
    ASSERT(val[t] == mvv[t], "active alternative holds the std::variant model's value");
  }
  REACHED();
}

/* non-trivial alternative (heap-owning utl::vector<int>) */
void h_either_heap(void){
  u8 ops[K], tgt[K]; u32 v[K], idx[2] = {99, 99}, val[2] = {0, 0}; u64 len[2] = {9, 9}; int mi[2] = {0, 0}; u32 mvv[2] = {0, 0};
  for (int s = 0; s < K; s++){
    ops[s] = in_u8(0, 4); tgt[s] = in_u8(0, 1); v[s] = in_any32();
    int t = tgt[s], o = t ^ 1;
#ifdef KF_C19_EITHER_NONTRIVIAL
    ASSUME(ops[s] == 0 || ops[s] == 3);   /* any step that stores, copies or assigns the vector alternative */
#endif
    switch (ops[s]){
      case 0: mi[t] = 0; mvv[t] = v[s]; break;
      case 1: mi[t] = 1; mvv[t] = v[s]; break;
      case 2: case 4: mi[t] = mi[o]; mvv[t] = mvv[o]; break;
      default: break;
    }
  }
  pool_begin();
  KS(k_hist_either_heap)(ops, tgt, v, K, idx, val, len);
  pool_end();
  for (int t = 0; t < 2; t++){
    OBS(idx[t]); OBS(val[t]); OBS(len[t]);
    ASSERT(idx[t] == (u32)mi[t], "active alternative");
    ASSERT(val[t] == mvv[t] && len[t] == (mi[t] ? 2 : 0), "alternative's value (first element / length of the vector)");
  }
  REACHED();
}
void h_maybe_heap(void){
  u8 ops[K], tgt[K]; u32 v[K], has[2] = {9, 9}, val[2] = {0, 0}; u64 len[2] = {9, 9}; int mh[2] = {0, 0}; u32 mvv[2] = {0, 0};
  for (int s = 0; s < K; s++){
    ops[s] = in_u8(0, 4); tgt[s] = in_u8(0, 1); v[s] = in_any32();
    int t = tgt[s], o = t ^ 1;
#ifdef KF_C19_MAYBE_NONTRIVIAL
    ASSUME(ops[s] == 1 || ops[s] == 3);
#endif
    switch (ops[s]){
      case 0: mh[t] = 1; mvv[t] = v[s]; break;
      case 1: mh[t] = 0; break;
      case 2: case 4: mh[t] = mh[o]; mvv[t] = mvv[o]; break;
      default: break;
    }
  }
  pool_begin();
  KS(k_hist_maybe_heap)(ops, tgt, v, K, has, val, len);
  pool_end();
  for (int t = 0; t < 2; t++){
    OBS(has[t]); ASSERT(has[t] == (u32)mh[t], "has_value()");
    if (mh[t]){ OBS(val[t]); ASSERT(val[t] == mvv[t] && len[t] == 2, "stored vector"); }
  }
  REACHED();
}
