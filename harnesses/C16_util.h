/* shared reference helpers of the C16 harnesses (NumPy shape rules) */
#ifndef C16_UTIL_H
#define C16_UTIL_H
#define CAT2(a,b) a##b
#define CAT(a,b) CAT2(a,b)
#ifndef A2
#define A2 1
#endif
#ifndef A1
#define A1 1
#endif
#ifndef B2
#define B2 1
#endif
#ifndef B1
#define B1 1
#endif
/* DBITS (optional per-query constant): operand data restricted to DBITS-bit values - positions and index ranges stay fully visible, the multiplier circuits shrink (stated in the bounds of the queries that use it) */
#ifdef DBITS
static void in_data8(u8* d, int n){ for (int i = 0; i < n; i++) d[i] = (u8)in_u64(0, (1u << DBITS) - 1); }
#else
static void in_data8(u8* d, int n){ for (int i = 0; i < n; i++) d[i] = in_any8(); }
#endif
static u64 numel(const u64* s, u64 n){ u64 p = 1; for (u64 i = 0; i < 4; i++) if (i < n) p *= s[i]; return p; }
static int np_broadcast(const u64* a, u64 na, const u64* b, u64 nb, u64* e, u64* ne){
  u64 nr = na > nb ? na : nb; int ok = 1;
  for (u64 k = 0; k < 4; k++) if (k < nr){ u64 x = k < na ? a[na-1-k] : 1, y = k < nb ? b[nb-1-k] : 1; if (x != y && x != 1 && y != 1) ok = 0; e[nr-1-k] = x == 1 ? y : x; }
  *ne = nr; return ok;
}
/* np.matmul: 1-d operands are promoted (prepend / append a 1) and the added axis removed afterwards; batch axes broadcast */
static int np_matmul_shape(const u64* a, u64 na, const u64* b, u64 nb, u64* e, u64* ne){
  if (na == 0 || nb == 0) return 0;
  u64 ar = na == 1 ? 1 : a[na-2], ac = a[na-1];
  u64 br = nb == 1 ? b[0] : b[nb-2], bc = nb == 1 ? 1 : b[nb-1];
  u64 nba = na >= 2 ? na - 2 : 0, nbb = nb >= 2 ? nb - 2 : 0, bs[4] = {0}, nbs = 0;
  int ok = np_broadcast(a, nba, b, nbb, bs, &nbs) && ac == br;
  u64 k = 0;
  for (u64 i = 0; i < 4; i++) if (i < nbs) e[k++] = bs[i];
  if (na >= 2) e[k++] = ar;
  if (nb >= 2) e[k++] = bc;
  *ne = k; return ok;
}
#endif
