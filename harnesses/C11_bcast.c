/* C11, broadcasting view types: a compile-time constant operand shape CS (with an extent 1 that the run-time operand may stretch) combined with
 * a hybrid run-time operand of symbolic shape. PROG (per-query constant) selects the view type. Whenever a trait is reported it must agree with
 * the run-time object; the run-time shape must be NumPy's broadcast shape (so nothing was clipped on the way). */
#include "harness.h"
#include "C11_bcast.h"
#define NA ((u64)-1)
#define CAT2_(a,b) a##b
#define CAT2(a,b) CAT2_(a,b)
#ifndef PROG
#define PROG add_c31_h2
#endif
/* per program: constant operand shape (CD dims, right aligned), dim of the hybrid operand HD */
#define P_add_c31_h2 1
#define P_add_h2_c31 2
#define P_add_c13_h2 3
#define P_add_h2_c13 4
#define P_add_c13_h1 5
#define P_add_c131_h2 6
#define P_where_c13_s_h2 7
#define P_where_c13_c1_h2 8
#define P_where_h2_s_c13 9
#define P_bcast3_0 10
#define P_bcast3_1 11
#define P_bcast3_2 12
#define P_bcast3h_0 13
#define P_add_h2_h2 14
#define PV CAT2(P_, PROG)
static void in_data(u32* d, int n){ for (int i = 0; i < n; i++) d[i] = in_any32(); }
void h_btraits(void){
  u64 shape[2] = {1, 1}, shape2[2] = {1, 1}, t[9] = {NA, NA, NA, NA, NA, NA, NA, NA, NA}, rt[6] = {0}; u32 data[16], cdata[4];
  u64 cs[3] = {1, 1, 1}, hs[3] = {1, 1, 1};    /* right-aligned 3-d shapes of the constant and the hybrid operand */
#if PV == 1 || PV == 2
  cs[1] = 3; cs[2] = 1;
#elif PV == 6
  cs[0] = 1; cs[1] = 3; cs[2] = 1;
#elif PV == 14
  /* second hybrid operand (capacity 4) instead of a constant */
#else
  cs[1] = 1; cs[2] = 3;
#endif
#if PV == 5
  shape[0] = in_u64(1, MAXE); hs[2] = shape[0];
#else
  shape[0] = in_u64(1, MAXE); shape[1] = in_u64(1, MAXE); ASSUME(shape[0] * shape[1] <= 16); hs[1] = shape[0]; hs[2] = shape[1];
#endif
#if PV == 14
  shape2[0] = in_u64(1, 4); shape2[1] = in_u64(1, 4); ASSUME(shape2[0] * shape2[1] <= 4); cs[1] = shape2[0]; cs[2] = shape2[1];
#endif
  in_data(data, 16); in_data(cdata, 4);
  /* NumPy: broadcastable iff per axis equal or 1; result = per-axis maximum; dim = max of the operand dims */
  int ok = 1; u64 ex[3];
  for (int i = 0; i < 3; i++){ if (!(cs[i] == hs[i] || cs[i] == 1 || hs[i] == 1)) ok = 0; ex[i] = cs[i] > hs[i] ? cs[i] : hs[i]; }
  ASSUME(ok);
#if PV == 6
  u64 nd = 3;
#else
  u64 nd = 2;
#endif
#if PV == 14
  int r = k_trb_add_h2_h2(shape, data, cdata, t, rt, shape2);
#else
  int r = CAT2(k_trb_, PROG)(shape, data, cdata, t, rt);
#endif
  ASSERT(r == 1, "broadcastable operands: the view exists");
  u64 rdim = rt[0], rsize = rt[1], prod = 1;
  for (u64 i = 0; i < 4; i++) if (i < rdim) prod *= rt[2 + i];
  ASSERT(rdim == nd, "run-time dim == NumPy dim");
  for (u64 i = 0; i < 3; i++) if (i < nd) ASSERT(rt[2 + i] == ex[3 - nd + i], "run-time shape == NumPy broadcast shape (nothing clipped)");
  ASSERT(rsize == prod, "run-time size == product of the run-time shape");
  if (t[0] != NA) ASSERT(t[0] == rdim, "fixed_dim == run-time dim");
  if (t[1] != NA) ASSERT(t[1] == rsize, "fixed_size == run-time size");
  if (t[2] != NA) ASSERT(rdim <= t[2], "run-time dim <= bounded_dim");
  if (t[3] != NA) ASSERT(rsize <= t[3], "run-time size <= bounded_size");
  if (t[4] != NA){ ASSERT(t[4] == rdim, "len(fixed_shape) == run-time dim"); for (u64 i = 0; i < 4; i++) if (i < rdim) ASSERT(t[5 + i] == rt[2 + i], "fixed_shape == run-time shape"); }
  u32 mask = (t[0] != NA) | (t[1] != NA) << 1 | (t[2] != NA) << 2 | (t[3] != NA) << 3 | (t[4] != NA) << 4;
  OBS(r); OBS(mask); OBS(rdim); OBS(rsize); OBS(t[3]); OBS(t[1]);
  REACHED();
}
