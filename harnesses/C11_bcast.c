/* C11, broadcasting view types: a compile-time constant operand shape CS (with an extent 1 that the run-time operand may stretch) combined with
 * a hybrid run-time operand of symbolic shape. PROG (per-query constant) selects the view type. Whenever a trait is reported it must agree with
 * the run-time object; the run-time shape must be NumPy's broadcast shape (so nothing was clipped on the way). */
#include "harness.h"
#include "C11_bcast.h"
#define NA ((u64)-1)
#define CAT2_(a,b) a##b
#define CAT2(a,b) CAT2_(a,b)
#ifndef PROG
#define PROG add_c31_h2
#endif
/* per program: constant operand shape (CD dims, right aligned), dim of the hybrid operand HD */
#define P_add_c31_h2 1
#define P_add_h2_c31 2
#define P_add_c13_h2 3
#define P_add_h2_c13 4
#define P_add_c13_h1 5
#define P_add_c131_h2 6
#define P_where_c13_s_h2 7
#define P_where_c13_c1_h2 8
#define P_where_h2_s_c13 9
#define P_bcast3_0 10
#define P_bcast3_1 11
#define P_bcast3_2 12
#define P_bcast3h_0 13
#define P_add_h2_h2 14
#define PV CAT2(P_, PROG)
static void in_data(u32* d, int n){ for (int i = 0; i < n; i++) d[i] = in_any32(); }
void h_btraits(void){
  u64 shape[2] = {1, 1}, shape2[2] = {1, 1}, t[9] = {NA, NA, NA, NA, NA, NA, NA, NA, NA}, rt[6] = {0}; u32 data[16], cdata[4];
  u64 cs[3] = {1, 1, 1}, hs[3] = {1, 1, 1};    /* right-aligned 3-d shapes of the constant and the hybrid operand */
#if PV == 1 || PV == 2
  cs[1] = 3; cs[2] = 1;
#elif PV == 6
  cs[0] = 1; cs[1] = 3; cs[2] = 1;
#elif PV == 14
  /* second hybrid operand (capacity 4) instead of a constant */
#else
  cs[1] = 1; cs[2] = 3;
#endif
#if PV == 5
  shape[0] = in_u64(1, MAXE); hs[2] = shape[0];
#else
  shape[0] = in_u64(1, MAXE); shape[1] = in_u64(1, MAXE); ASSUME(shape[0] * shape[1] <= 16); hs[1] = shape[0]; hs[2] = shape[1];
#endif
#if PV == 14
  shape2[0] = in_u64(1, 4); shape2[1] = in_u64(1, 4); ASSUME(shape2[0] * shape2[1] <= 4); cs[1] = shape2[0]; cs[2] = shape2[1];
#endif
  in_data(data, 16); in_data(cdata, 4);
  /* NumPy: broadcastable iff per axis equal or 1; result = per-axis maximum; dim = max of the operand dims */
  int ok = 1; u64 ex[3];
  for (int i = 0; i < 3; i++){ if (!(cs[i] == hs[i] || cs[i] == 1 || hs[i] == 1)) ok = 0; ex[i] = cs[i] > hs[i] ? cs[i] : hs[i]; }
  ASSUME(ok);
#if PV == 6
  u64 nd = 3;
#else
  u64 nd = 2;
#endif
#if PV == 14
  int r = k_trb_add_h2_h2(shape, data, cdata, t, rt, shape2);
#else
  int r = CAT2(k_trb_, PROG)(shape, data, cdata, t, rt);
#endif
  ASSERT(r == 1, "broadcastable operands: the view exists");
  u64 rdim = rt[0], rsize = rt[1], prod = 1;
  for (u64 i = 0; i < 4; i++) if (i < rdim) prod *= rt[2 + i];
  ASSERT(rdim == nd, "run-time dim == NumPy dim");
  for (u64 i = 0; i < 3; i++) if (i < nd) ASSERT(rt[2 + i] == ex[3 - nd + i], "run-time shape == NumPy broadcast shape (nothing clipped)");
  ASSERT(rsize == prod, "run-time size == product of the run-time shape");
  if (t[0] != NA) ASSERT(t[0] == rdim, "fixed_dim == run-time dim");
  if (t[1] != NA) ASSERT(t[1] == rsize, "fixed_size == run-time size");
  if (t[2] != NA) ASSERT(rdim <= t[2], "run-time dim <= bounded_dim");
  if (t[3] != NA) ASSERT(rsize <= t[3], "run-time size <= bounded_size");
  if (t[4] != NA){ ASSERT(t[4] == rdim, "len(fixed_shape) == run-time dim"); for (u64 i = 0; i < 4; i++) if (i < rdim) ASSERT(t[5 + i] == rt[2 + i], "fixed_shape == run-time shape"); }
  u32 mask = (t[0] != NA) | (t[1] != NA) << 1 | (t[2] != NA) << 2 | (t[3] != NA) << 3 | (t[4] != NA) << 4;
  OBS(r); OBS(mask); OBS(rdim); OBS(rsize); OBS(t[3]); OBS(t[1]);
  REACHED();
}

/* tile: NumPy pads the shorter of (shape, reps) with leading ones; result dim = max(dim, len(reps)), extent = shape * reps. TILEK: 0 bounded-dim operand (dim 1..3) with 4 fixed reps
 * (longer than the dim bound), 1 the same with 3 reps, 2 hybrid 2-d operand with a bounded-length reps list of 1..4 entries */
#ifndef TILEK
#define TILEK 0
#endif
void h_tile_traits(void){
  u64 shape[3] = {1, 1, 1}, reps[4] = {1, 1, 1, 1}, dim, nreps, t[9] = {NA, NA, NA, NA, NA, NA, NA, NA, NA}, rt[6] = {0}; u32 data[16];
#if TILEK == 2
  dim = 2; nreps = in_u64(1, 4); shape[0] = in_u64(1, MAXE); shape[1] = in_u64(1, MAXE); ASSUME(shape[0] * shape[1] <= 16);
#else
  dim = in_u64(1, 3); nreps = TILEK == 0 ? 4 : 3; for (int i = 0; i < 3; i++){ shape[i] = in_u64(1, MAXE); if ((u64)i >= dim) shape[i] = 1; } ASSUME(shape[0] * shape[1] * shape[2] <= 16);
#endif
  for (int i = 0; i < 4; i++){ reps[i] = in_u64(1, 2); if ((u64)i >= nreps) reps[i] = 1; }
  in_data(data, 16);
  u64 nd = dim > nreps ? dim : nreps, ex[4];
  for (u64 i = 0; i < 4; i++) if (i < nd){ u64 si = i + dim >= nd ? shape[i + dim - nd] : 1, ri = i + nreps >= nd ? reps[i + nreps - nd] : 1; ex[i] = si * ri; }
  int r = TILEK == 0 ? k_trt_tile4_b3(shape, dim, data, reps, t, rt) : TILEK == 1 ? k_trt_tile3_b3(shape, dim, data, reps, t, rt) : k_trt_tile_sv_h2(shape, nreps, data, reps, t, rt);
  ASSERT(r == 1, "the tile view exists");
  u64 rdim = rt[0], rsize = rt[1], prod = 1;
  ASSERT(rdim == nd, "run-time dim == max(dim, len(reps)) (NumPy)");
  for (u64 i = 0; i < 4; i++) if (i < nd){ ASSERT(rt[2 + i] == ex[i], "run-time shape == NumPy tile shape (nothing clipped)"); prod *= rt[2 + i]; }
  ASSERT(rsize == prod, "run-time size == product of the run-time shape");
  if (t[0] != NA) ASSERT(t[0] == rdim, "fixed_dim == run-time dim");
  if (t[1] != NA) ASSERT(t[1] == rsize, "fixed_size == run-time size");
  if (t[2] != NA) ASSERT(rdim <= t[2], "run-time dim <= bounded_dim");
  if (t[3] != NA) ASSERT(rsize <= t[3], "run-time size <= bounded_size");
  OBS(r); OBS(rdim); OBS(rsize); OBS(t[2]); OBS(t[3]); REACHED();
}

/* outer: shape(a) + shape(b), size = size(a) * size(b). OUTK 0: a capacity 4, b capacity 16; 1: swapped */
#ifndef OUTK
#define OUTK 0
#endif
void h_outer_traits(void){
  u64 sa[2], sb[2], t[9] = {NA, NA, NA, NA, NA, NA, NA, NA, NA}, rt[6] = {0}; u32 da[16], db[16];
  u64 capa = OUTK == 0 ? 4 : 16, capb = OUTK == 0 ? 16 : 4;
  sa[0] = in_u64(1, MAXE); sa[1] = in_u64(1, MAXE); sb[0] = in_u64(1, MAXE); sb[1] = in_u64(1, MAXE); ASSUME(sa[0] * sa[1] <= capa && sb[0] * sb[1] <= capb);
  in_data(da, 16); in_data(db, 16);
  int r = OUTK == 0 ? k_trt_outer_h4_h16(sa, da, sb, db, t, rt) : k_trt_outer_h16_h4(sa, da, sb, db, t, rt);
  ASSERT(r == 1, "the outer view exists");
  ASSERT(rt[0] == 4 && rt[2] == sa[0] && rt[3] == sa[1] && rt[4] == sb[0] && rt[5] == sb[1], "run-time shape == shape(a) + shape(b)");
  ASSERT(rt[1] == sa[0] * sa[1] * sb[0] * sb[1], "run-time size == size(a) * size(b) (nothing clipped)");
  if (t[0] != NA) ASSERT(t[0] == rt[0], "fixed_dim == run-time dim");
  if (t[1] != NA) ASSERT(t[1] == rt[1], "fixed_size == run-time size");
  if (t[2] != NA) ASSERT(rt[0] <= t[2], "run-time dim <= bounded_dim");
  if (t[3] != NA) ASSERT(rt[1] <= t[3], "run-time size <= bounded_size");
  OBS(r); OBS(rt[1]); OBS(t[3]); OBS(t[1]); REACHED();
}

/* dimension-changing views of a bounded-dim operand (dim 1..3 symbolic, i.e. up to its bound). DCK: 0 expand_dims(a, scalar axis in [-(dim+1), dim]); 1 atleast_nd(a, 1); 2 atleast_2d(a); 3 atleast_nd(a, 4) */
#ifndef DCK
#define DCK 0
#endif
void h_dimchange_traits(void){
  u64 shape[3] = {1, 1, 1}, dim = in_u64(1, 3), t[9] = {NA, NA, NA, NA, NA, NA, NA, NA, NA}, rt[6] = {0}, ex[4] = {0}, nd; u32 data[16];
  for (int i = 0; i < 3; i++){ shape[i] = in_u64(1, MAXE); if ((u64)i >= dim) shape[i] = 1; } ASSUME(shape[0] * shape[1] * shape[2] <= 16);
  in_data(data, 16); i32 ax = in_i32(-4, 3);
#if DCK == 0
  ASSUME(ax >= -(i32)(dim + 1) && ax <= (i32)dim); nd = dim + 1; { u64 an = ax < 0 ? (u64)(ax + (i32)nd) : (u64)ax; for (u64 i = 0, j = 0; i < 4; i++) if (i < nd) ex[i] = (i == an) ? 1 : shape[j++]; }
  int r = k_trt_expand_b3(shape, dim, data, (u32)ax, t, rt);
#else
  u64 want = DCK == 1 ? 1 : DCK == 2 ? 2 : 4; nd = dim > want ? dim : want; for (u64 i = 0; i < 4; i++) if (i < nd) ex[i] = i + dim >= nd ? shape[i + dim - nd] : 1;
  int r = DCK == 1 ? k_trt_atleast1_b3(shape, dim, data, 0, t, rt) : DCK == 2 ? k_trt_atleast2_b3(shape, dim, data, 0, t, rt) : k_trt_atleast4_b3(shape, dim, data, 0, t, rt);
#endif
  ASSERT(r == 1, "the view exists");
  u64 rdim = rt[0], rsize = rt[1], prod = 1;
  ASSERT(rdim == nd, "run-time dim == NumPy dim");
  for (u64 i = 0; i < 4; i++) if (i < nd){ ASSERT(rt[2 + i] == ex[i], "run-time shape == NumPy shape (nothing clipped)"); prod *= rt[2 + i]; }
  ASSERT(rsize == prod, "run-time size == product of the run-time shape");
  if (t[0] != NA) ASSERT(t[0] == rdim, "fixed_dim == run-time dim");
  if (t[1] != NA) ASSERT(t[1] == rsize, "fixed_size == run-time size");
  if (t[2] != NA) ASSERT(rdim <= t[2], "run-time dim <= bounded_dim");
  if (t[3] != NA) ASSERT(rsize <= t[3], "run-time size <= bounded_size");
  OBS(r); OBS(rdim); OBS(rsize); OBS(t[2]); OBS(t[3]); REACHED();
}
