/* C13: one thread of the device kernel body. For ANY thread id / block id / block size the thread with global id
 * g = block*block_size + thread writes host[g] into out[g] when g < size(output) and leaves every other cell (all cells
 * when g >= size) at its prior, symbolic, value. The value written does not depend on `out` or on other threads, so this
 * single symbolic step covers every execution order, interleaving, duplicated execution and over-provisioned grid (induction
 * over the sequence of thread executions). host[g] is the NumPy element of the view at flat position g (reference model below). */
#include "harness.h"
#include "C13_thread.h"
#ifndef MAXE
#define MAXE 3
#endif
#define CELLS 16
static void in_shape(u64* s, int n){ for (int i = 0; i < n; i++) s[i] = in_u64(1, MAXE); }
static void in_data(u32* d, int n){ for (int i = 0; i < n; i++) d[i] = in_any32(); }
static void in_prior(u32* out, u32* out0){ for (int i = 0; i < CELLS; i++) out[i] = out0[i] = in_any32(); }   /* prior content of the whole output buffer */
static u64 norm(i32 v, u64 n){ return v < 0 ? (u64)(v + (i32)n) : (u64)v; }
#define LOCALS u64 shape[2], os[4] = {0}; u32 data[CELLS], out[CELLS], out0[CELLS]; in_shape(shape, 2); in_data(data, MAXE*MAXE); \
  in_prior(out, out0); \
  u64 n0 = shape[0], n1 = shape[1], size = n0 * n1; \
  u64 bsz = in_u64(1, 33), tid = in_u64(0, 32), bid = in_u64(0, 32); ASSUME(tid < bsz); u64 g = bid * bsz + tid;
#define GEOM tid, bid, bsz
/* exactly cell g (if inside) is written with `host`, everything else keeps its prior value */
static void step_ok(int r, const u32* out, const u32* out0, u64 g, u64 size, u32 host){
  ASSERT(r == 1, "the step ran");
  for (u64 i = 0; i < CELLS; i++){
    if (i == g && g < size) ASSERT(out[i] == host, "thread g writes the host value at flat position g");
    else ASSERT(out[i] == out0[i], "no other cell is written (none at all when g >= size)");
    OBS(out[i]);
  }
}
void h_th_write_side(void){ LOCALS; (void)os;
  int r = k_th_write_side(shape, data, out, GEOM);
  step_ok(r, out, out0, g, size, data[g < CELLS ? g : 0]); REACHED(); }
void h_th_transpose(void){ LOCALS; u32 ax[2]; i32 a = in_i32(0, 1); ax[0] = (u32)a; ax[1] = (u32)(1 - a);
  int r = k_th_transpose(shape, data, ax, out, os, GEOM);
  u64 e0 = shape[ax[0]], e1 = shape[ax[1]], i = (g < size ? g : 0) / e1, j = (g < size ? g : 0) % e1, src[2]; src[ax[0]] = i; src[ax[1]] = j;
  ASSERT(r != 1 || (os[0] == e0 && os[1] == e1), "output shape == view shape");
  step_ok(r, out, out0, g, size, data[src[0]*n1 + src[1]]); REACHED(); }
void h_th_reshape(void){ LOCALS; u32 dst[2];
  i32 d0 = in_i32(-1, MAXE*MAXE), d1 = in_i32(-1, MAXE*MAXE); ASSUME(d0 != 0 && d1 != 0 && !(d0 == -1 && d1 == -1));
  dst[0] = (u32)d0; dst[1] = (u32)d1;
  u64 e0 = d0 == -1 ? size / (u64)d1 : (u64)d0, e1 = d1 == -1 ? size / (u64)d0 : (u64)d1; ASSUME(e0 * e1 == size);
  int r = k_th_reshape(shape, data, dst, out, os, GEOM);
  ASSERT(r != 1 || (os[0] == e0 && os[1] == e1), "output shape == view shape");
  step_ok(r, out, out0, g, size, data[g < size ? g : 0]); REACHED(); }
void h_th_flatten(void){ LOCALS;
  int r = k_th_flatten(shape, data, out, os, GEOM);
  ASSERT(r != 1 || os[0] == size, "output shape == view shape");
  step_ok(r, out, out0, g, size, data[g < size ? g : 0]); REACHED(); }
void h_th_flip(void){ LOCALS; i32 ax = in_i32(-2, 1); u64 an = norm(ax, 2);
  int r = k_th_flip(shape, data, (u32)ax, out, os, GEOM);
  u64 i = (g < size ? g : 0) / n1, j = (g < size ? g : 0) % n1; if (an == 0) i = n0 - 1 - i; else j = n1 - 1 - j;
  ASSERT(r != 1 || (os[0] == n0 && os[1] == n1), "output shape == view shape");
  step_ok(r, out, out0, g, size, data[i*n1 + j]); REACHED(); }
void h_th_invert(void){ LOCALS;
  int r = k_th_invert(shape, data, out, os, GEOM);
  ASSERT(r != 1 || (os[0] == n0 && os[1] == n1), "output shape == view shape");
  step_ok(r, out, out0, g, size, ~data[g < size ? g : 0]); REACHED(); }
void h_th_add(void){ LOCALS; u32 db[CELLS]; in_data(db, MAXE*MAXE);
  int r = k_th_add(shape, data, db, out, os, GEOM);
  ASSERT(r != 1 || (os[0] == n0 && os[1] == n1), "output shape == view shape");
  step_ok(r, out, out0, g, size, data[g < size ? g : 0] + db[g < size ? g : 0]); REACHED(); }
/* depth 2 / 3 over one leaf */
static u32 ref_flip_transpose(const u32* data, const u32* p, i32 ax, const u64* shape, u64 g){
  u64 e0 = shape[p[0]], e1 = shape[p[1]], i = g / e1, j = g % e1, src[2];
  if (norm(ax, 2) == 0) i = e0 - 1 - i; else j = e1 - 1 - j;
  src[p[0]] = i; src[p[1]] = j; return data[src[0]*shape[1] + src[1]]; }
void h_th_flip_transpose(void){ LOCALS; u32 p[3]; i32 a = in_i32(0, 1), ax = in_i32(-2, 1); p[0] = (u32)a; p[1] = (u32)(1 - a); p[2] = (u32)ax;
  int r = k_th_flip_transpose(shape, data, p, out, os, GEOM);
  ASSERT(r != 1 || (os[0] == shape[p[0]] && os[1] == shape[p[1]]), "output shape == view shape");
  step_ok(r, out, out0, g, size, ref_flip_transpose(data, p, ax, shape, g < size ? g : 0)); REACHED(); }
void h_th_invert_flip(void){ LOCALS; u32 p[1]; i32 ax = in_i32(-2, 1); p[0] = (u32)ax; u64 an = norm(ax, 2);
  int r = k_th_invert_flip(shape, data, p, out, os, GEOM);
  u64 i = (g < size ? g : 0) / n1, j = (g < size ? g : 0) % n1; if (an == 0) i = n0 - 1 - i; else j = n1 - 1 - j;
  ASSERT(r != 1 || (os[0] == n0 && os[1] == n1), "output shape == view shape");
  step_ok(r, out, out0, g, size, ~data[i*n1 + j]); REACHED(); }
void h_th_invert_flip_transpose(void){ LOCALS; u32 p[3]; i32 a = in_i32(0, 1), ax = in_i32(-2, 1); p[0] = (u32)a; p[1] = (u32)(1 - a); p[2] = (u32)ax;
  int r = k_th_invert_flip_transpose(shape, data, p, out, os, GEOM);
  ASSERT(r != 1 || (os[0] == shape[p[0]] && os[1] == shape[p[1]]), "output shape == view shape");
  step_ok(r, out, out0, g, size, ~ref_flip_transpose(data, p, ax, shape, g < size ? g : 0)); REACHED(); }
/* non-commuting depth-3 chain: flip(transpose(flip(a, ax0), perm), ax) */
void h_th_flip_transpose_flip(void){ LOCALS; u32 p[4]; i32 a = in_i32(0, 1), ax = in_i32(-2, 1), ax0 = in_i32(-2, 1); p[0] = (u32)a; p[1] = (u32)(1 - a); p[2] = (u32)ax; p[3] = (u32)ax0;
  int r = k_th_flip_transpose_flip(shape, data, p, out, os, GEOM);
  ASSERT(r != 1 || (os[0] == shape[p[0]] && os[1] == shape[p[1]]), "output shape == view shape");
  u64 gg = g < size ? g : 0, e0 = shape[p[0]], e1 = shape[p[1]], i = gg / e1, j = gg % e1, src[2];
  if (norm(ax, 2) == 0) i = e0 - 1 - i; else j = e1 - 1 - j;      /* outer flip on the transposed array */
  src[p[0]] = i; src[p[1]] = j;                                  /* transpose */
  if (norm(ax0, 2) == 0) src[0] = n0 - 1 - src[0]; else src[1] = n1 - 1 - src[1];   /* inner flip on the source */
  step_ok(r, out, out0, g, size, data[src[0]*n1 + src[1]]); REACHED(); }
/* reduction: the output has shape[1-axis] elements, so most threads are beyond the output */
void h_th_sum(void){ LOCALS; u32 p[1]; i32 ax = in_i32(-2, 1); p[0] = (u32)ax; u64 an = norm(ax, 2), osize = an == 0 ? n1 : n0, gg = g < osize ? g : 0;
  int r = k_th_sum(shape, data, p, out, os, GEOM);
  u32 acc = 0; for (u64 k = 0; k < MAXE; k++) if (k < shape[an]) acc += an == 0 ? data[k*n1 + gg] : data[gg*n1 + k];
  ASSERT(r != 1 || os[0] == osize, "output shape == view shape");
  step_ok(r, out, out0, g, osize, acc); REACHED(); }
/* CUDA-faithful operand kind (device_array with static_vector<size_t,8> shape, out_static_dim 0) */
void h_thd_transpose(void){ LOCALS; u32 ax[2]; i32 a = in_i32(0, 1); ax[0] = (u32)a; ax[1] = (u32)(1 - a);
  int r = k_thd_transpose(shape, data, ax, out, os, GEOM);
  u64 e0 = shape[ax[0]], e1 = shape[ax[1]], i = (g < size ? g : 0) / e1, j = (g < size ? g : 0) % e1, src[2]; src[ax[0]] = i; src[ax[1]] = j;
  ASSERT(r != 1 || (os[0] == e0 && os[1] == e1), "output shape == view shape");
  step_ok(r, out, out0, g, size, data[src[0]*n1 + src[1]]); REACHED(); }
void h_thd_add(void){ LOCALS; u32 db[CELLS]; in_data(db, MAXE*MAXE);
  int r = k_thd_add(shape, data, db, out, os, GEOM);
  ASSERT(r != 1 || (os[0] == n0 && os[1] == n1), "output shape == view shape");
  step_ok(r, out, out0, g, size, data[g < size ? g : 0] + db[g < size ? g : 0]); REACHED(); }
/* launch-size arithmetic (TRANSCRIBED expression, see the kernel): thread_size = size_t(ceil(float(n)/local))*local.
 * CUDA/HIP launch <<<thread_size, 32>>> (thread_size BLOCKS of 32 threads): 32*thread_size threads.
 * SYCL nd_range<1>(thread_size, 32) and OpenCL global_size = thread_size: thread_size work items in total, so thread_size >= n is needed. */
#ifndef MAXN
#define MAXN 0x7fffffffull
#endif
void h_launch_size(void){
  u64 n = in_u64(1, MAXN); u32 local = in_u32(1, 1024);
#ifdef LOCAL
  ASSUME(local == LOCAL);
#endif
#ifdef KF_C13_LAUNCH_SIZE_FLOAT
  ASSUME(!(n > 16777216));        /* beyond 2^24 float(n) is not exact */
#endif
  u64 t = k_launch_thread_size(n, local);
  ASSERT(t % local == 0, "a whole number of work groups");
  ASSERT(t * 32 >= n, "CUDA/HIP: 32*thread_size threads cover the output");
  ASSERT(t >= n, "SYCL/OpenCL: thread_size work items cover the output");
  ASSERT(t < n + local, "not more than one partial group over-provisioned");
  OBS(t); REACHED(); }
