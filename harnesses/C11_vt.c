/* C11, family "vt": ONE view function (VIEW, per-query constant) over ONE operand kind (KIND, per-query constant); the run-time shape admitted by the
 * operand type, the data and the view's arguments are symbolic. For every admitted shape and every valid argument: the view exists, run-time dim/shape are
 * NumPy's (rule written out below per view), size() == product(shape), and every trait the view TYPE reports agrees with the object:
 * fixed_dim == dim, fixed_size == size, fixed_shape == shape, dim <= bounded_dim, size <= bounded_size. Capacity / index hooks are obligations (harness.h).
 *   KIND B bounded dim: static_vector<size_t,3> shape, dim 1..3 (up to the bound), <= 16 cells     KIND H hybrid fixed dim 2, <= 16 cells
 *   KIND L clipped shape clipped_size_t<4> x 2: extents 1..4                                        KIND F unsigned[2][3]
 * Argument layout in p[] is the one kernels/C11_vt.cpp reads. MASK (optional per-query constant) = recorded set of reported traits, asserted when given. */
#include "harness.h"
#define NA ((u64)-1)
#define CAT2_(a,b) a##b
#define CAT2(a,b) CAT2_(a,b)
#define CAT4_(a,b,c,d) a##b##c##d
#define CAT4(a,b,c,d) CAT4_(a,b,c,d)
#ifndef VIEW
#define VIEW swapaxes
#endif
#ifndef KIND
#define KIND B
#endif
#ifndef MAXE
#define MAXE 16
#endif
#define KIND_B 1
#define KIND_H 2
#define KIND_L 3
#define KIND_F 4
#define KINDV CAT2(KIND_, KIND)
#if KINDV == KIND_B
#include "C11_vt_B.h"
#elif KINDV == KIND_H
#include "C11_vt_H.h"
#elif KINDV == KIND_L
#include "C11_vt_L.h"
#else
#include "C11_vt_F.h"
#endif
#define V_reshape_a2 1
#define V_reshape_sv 2
#define V_moveaxis 3
#define V_swapaxes 4
#define V_squeeze 5
#define V_repeat 6
#define V_repeat_each 7
#define V_roll 8
#define V_take 9
#define V_concatenate 10
#define V_stack 11
#define V_hstack 12
#define V_vstack 13
#define V_pad 14
#define V_slice 15
#define V_broadcast_to 16
#define V_sliding_window 17
#define V_diagonal 18
#define V_tril 19
#define V_triu 20
#define V_where 21
#define V_sum_keep 22
#define V_sum_nokeep 23
#define V_cumsum 24
#define V_trace 25
#define V_flip_list 26
#define V_transpose_axes 27
#define V_matmul 28
#define V_outer_add 29
#define V_kron 30
#define V_expand_dims 31
#define V_expand_dims_list 32
#define V_atleast_nd1 33
#define V_atleast_nd3 34
#define V_tile_sv 35
#define V_expand 36
#define V_resize 37
#define V_compress 38
#define V_diagflat 39
#define V_dstack 40
#define V_column_stack 41
#define V_cumprod 42
#define V_prod_keep 43
#define V_prod_nokeep 44
#define V_mean_keep 45
#define V_mean_nokeep 46
#define VV CAT2(V_, VIEW)
#ifndef MAXD
#define MAXD 4   /* largest result dim of the view (per-query constant; 6 for the outer of two 3-d operands) */
#endif
static void in_data(u32* d, int n){ for (int i = 0; i < n; i++) d[i] = in_any32(); }
static u64 nrm(i32 ax, u64 n){ return ax < 0 ? (u64)(ax + (i32)n) : (u64)ax; }
/* len(range(*slice(start, stop, step).indices(n))) (CPython PySlice_AdjustIndices) */
static u64 py_slice_len(i32 n, i32 start, i32 stop, i32 step){   /* |step| <= 3: division by constants only (cheaper for the solver) */
  i32 d, s;
  if (step > 0){
    if (start < 0){ start += n; if (start < 0) start = 0; } else if (start > n) start = n;
    if (stop < 0){ stop += n; if (stop < 0) stop = 0; } else if (stop > n) stop = n;
    d = stop - start; s = step;
  } else {
    if (start < 0){ start += n; if (start < 0) start = -1; } else if (start >= n) start = n - 1;
    if (stop < 0){ stop += n; if (stop < 0) stop = -1; } else if (stop >= n) stop = n - 1;
    d = start - stop; s = -step;
  }
  if (d <= 0) return 0;
  return (u64)(s == 1 ? d : s == 2 ? (d + 1) / 2 : (d + 2) / 3);    /* ceil(d / s) */
}
/* reshape target of n entries p[0..n): entries >= 1, at most one -1 (inferred). The harness draws the RESOLVED extents ex[] (product == size) and a hole position
 * (-1: none); the argument is ex[] with -1 at the hole. Covers exactly the valid NumPy targets with entries <= 16 and avoids a symbolic division. */
static void reshape_args(i32* p, u64 n, u32 size, u64* ex){
  u32 prod = 1; i32 hole = in_i32(-1, 3); ASSUME(hole < (i32)n);
  for (u64 i = 0; i < 4; i++){ u32 e = in_u32(1, 16); if (i < n){ ex[i] = e; prod *= e; p[i] = ((i32)i == hole) ? -1 : (i32)e; } }
  ASSUME(prod == size);
}
void h_vt(void){
  u64 shape[3] = {1, 1, 1}, dim = 2, t[13] = {NA, NA, NA, NA, NA, NA, NA, NA, NA, NA, NA, NA, NA}, rt[10] = {0}, ex[8] = {0}, nd = 0, size; u32 data[16]; i32 p[16] = {0};
#if KINDV == KIND_B
#ifdef BDIM
  dim = in_u64(BDIM, BDIM);   /* expensive views: the run-time dim is enumerated (one query per dim 1, 2, 3) */
#else
  dim = in_u64(1, 3);
#endif
  for (int i = 0; i < 3; i++){ shape[i] = in_u64(1, MAXE); if ((u64)i >= dim) shape[i] = 1; }
  ASSUME((u32)shape[0] * (u32)shape[1] * (u32)shape[2] <= 16);
#elif KINDV == KIND_H
  shape[0] = in_u64(1, MAXE); shape[1] = in_u64(1, MAXE); ASSUME((u32)shape[0] * (u32)shape[1] <= 16);
#elif KINDV == KIND_L
  shape[0] = in_u64(1, 4); shape[1] = in_u64(1, 4);
#else
  shape[0] = 2; shape[1] = 3;
#endif
  size = (u32)shape[0] * (u32)shape[1] * (u32)shape[2];
  in_data(data, 16);
  /* ---------------- per view: arguments (symbolic, valid) and the NumPy shape rule ---------------- */
#if VV == V_reshape_a2          /* np.reshape(a, (p0, p1)); one entry may be -1 */
  nd = 2; reshape_args(p, 2, (u32)size, ex);
#elif VV == V_reshape_sv        /* np.reshape(a, p[1..n]), n = 1..4 entries */
  p[0] = (i32)in_u64(1, 4); nd = (u64)p[0]; reshape_args(p + 1, nd, (u32)size, ex);
#elif VV == V_moveaxis          /* np.moveaxis(a, src, dst): remove src, insert it at dst */
  p[0] = in_i32(-3, 2); p[1] = in_i32(-3, 2); ASSUME(p[0] >= -(i32)dim && p[0] < (i32)dim && p[1] >= -(i32)dim && p[1] < (i32)dim);
  { u64 s = nrm(p[0], dim), d = nrm(p[1], dim), j = 0; nd = dim; for (u64 i = 0; i < 3; i++) if (i < dim){ if (i == d) ex[i] = shape[s]; else { if (j == s) j++; ex[i] = shape[j++]; } } }
#elif VV == V_swapaxes
  p[0] = in_i32(-3, 2); p[1] = in_i32(-3, 2); ASSUME(p[0] >= -(i32)dim && p[0] < (i32)dim && p[1] >= -(i32)dim && p[1] < (i32)dim);
  { u64 s = nrm(p[0], dim), d = nrm(p[1], dim); nd = dim; for (u64 i = 0; i < 3; i++) ex[i] = shape[i]; ex[s] = shape[d]; ex[d] = shape[s]; }
#elif VV == V_squeeze           /* np.squeeze(a): every extent-1 axis removed */
  for (u64 i = 0; i < 3; i++) if (i < dim && shape[i] != 1) ex[nd++] = shape[i];
#if defined(KF_C11_VT_SQUEEZE_CLIPPED) && KINDV == KIND_L
  ASSUME(!(shape[0] == 1 || shape[1] == 1));   /* finding: squeeze of a clipped-shape operand never removes an axis (result type computed from the clip bounds) */
#endif
#elif VV == V_repeat            /* np.repeat(a, r, axis) */
  p[0] = (i32)in_u64(0, 3); p[1] = in_i32(-3, 2); ASSUME(p[1] >= -(i32)dim && p[1] < (i32)dim);
  nd = dim; for (u64 i = 0; i < 3; i++) ex[i] = shape[i]; ex[nrm(p[1], dim)] *= (u64)p[0];
#elif VV == V_repeat_each       /* np.repeat(a, [r_0..r_{n-1}], axis), n == shape[axis] (bounded list: n <= 4) */
  p[5] = in_i32(-3, 2); ASSUME(p[5] >= -(i32)dim && p[5] < (i32)dim);
  { u64 an = nrm(p[5], dim), s = 0; ASSUME(shape[an] <= 4); p[0] = (i32)shape[an]; for (u64 i = 0; i < 4; i++){ p[1 + i] = (i32)in_u64(0, 2); if (i < shape[an]) s += (u64)p[1 + i]; }
    nd = dim; for (u64 i = 0; i < 3; i++) ex[i] = shape[i]; ex[an] = s; }
#elif VV == V_roll
  p[0] = in_i32(-20, 20); p[1] = in_i32(-3, 2); ASSUME(p[1] >= -(i32)dim && p[1] < (i32)dim); nd = dim; for (u64 i = 0; i < 3; i++) ex[i] = shape[i];
#elif VV == V_take              /* np.take(a, [i_0..], axis): indices in [-n, n) */
  p[0] = (i32)in_u64(1, 4); p[5] = in_i32(-3, 2); ASSUME(p[5] >= -(i32)dim && p[5] < (i32)dim);
  { u64 an = nrm(p[5], dim); for (u64 i = 0; i < 4; i++){ p[1 + i] = in_i32(-16, 15); ASSUME(p[1 + i] >= -(i32)shape[an] && p[1 + i] < (i32)shape[an]); }
    nd = dim; for (u64 i = 0; i < 3; i++) ex[i] = shape[i]; ex[an] = (u64)p[0]; }
#elif VV == V_concatenate       /* np.concatenate((a, a), axis), axis >= 0 (negative axis: open finding C04-concatenate-negative-axis) */
  p[0] = (i32)in_u64(0, 2); ASSUME((u64)p[0] < dim); nd = dim; for (u64 i = 0; i < 3; i++) ex[i] = shape[i]; ex[p[0]] *= 2;
#elif VV == V_stack             /* np.stack((a, a), axis), axis in [0, dim] */
  p[0] = (i32)in_u64(0, 3); ASSUME((u64)p[0] <= dim); nd = dim + 1; { u64 j = 0; for (u64 i = 0; i < 4; i++) if (i < nd) ex[i] = (i == (u64)p[0]) ? 2 : shape[j++]; }
#elif VV == V_hstack            /* np.hstack: axis 0 for 1-d, else axis 1 */
  nd = dim; for (u64 i = 0; i < 3; i++) ex[i] = shape[i]; ex[dim == 1 ? 0 : 1] *= 2;
#elif VV == V_vstack            /* np.vstack: atleast_2d then axis 0 */
  if (dim == 1){ nd = 2; ex[0] = 2; ex[1] = shape[0]; } else { nd = dim; for (u64 i = 0; i < 3; i++) ex[i] = shape[i]; ex[0] *= 2; }
#elif VV == V_pad               /* np.pad(a, [(before_k, after_k)], constant): p = before_0..before_{dim-1}, after_0.. */
  for (int i = 0; i < 6; i++) p[i] = (i32)in_u64(0, 2); p[6] = (i32)in_any32();
  nd = dim; for (u64 i = 0; i < 3; i++) if (i < dim) ex[i] = shape[i] + (u64)p[i] + (u64)p[dim + i];
#elif VV == V_slice             /* a[..., start:stop:step] */
  p[0] = in_i32(-18, 18); p[1] = in_i32(-18, 18); p[2] = in_i32(-3, 3); ASSUME(p[2] != 0);
  nd = dim; for (u64 i = 0; i < 3; i++) ex[i] = shape[i]; ex[dim - 1] = py_slice_len((i32)shape[dim - 1], p[0], p[1], p[2]);
#elif VV == V_broadcast_to      /* np.broadcast_to(a, target of n = 2..3 entries) */
  p[0] = (i32)in_u64(2, 3); for (int i = 0; i < 3; i++) p[1 + i] = (i32)in_u64(1, 4);
  nd = (u64)p[0]; ASSUME(nd >= dim);
  for (u64 i = 0; i < 3; i++) if (i < nd){ ex[i] = (u64)p[1 + i]; if (i + dim >= nd){ u64 s = shape[i + dim - nd]; ASSUME(s == ex[i] || s == 1); } }
#elif VV == V_sliding_window    /* sliding_window_view(a, w, axis): extent n-w+1 at axis, w appended */
  p[0] = (i32)in_u64(1, 16); p[1] = in_i32(-3, 2); ASSUME(p[1] >= -(i32)dim && p[1] < (i32)dim);
  { u64 an = nrm(p[1], dim); ASSUME((u64)p[0] <= shape[an]); nd = dim + 1; for (u64 i = 0; i < 3; i++) if (i < dim) ex[i] = shape[i]; ex[an] = shape[an] - (u64)p[0] + 1; ex[dim] = (u64)p[0]; }
#elif VV == V_diagonal || VV == V_trace   /* np.diagonal / np.trace(a, offset >= 0, axis1, axis2): both axes removed; diagonal appends max(0, min(n1, n2 - offset)) */
  ASSUME(dim >= 2); p[0] = (i32)in_u64(0, 17); p[1] = in_i32(-3, 2); p[2] = in_i32(-3, 2);
  ASSUME(p[1] >= -(i32)dim && p[1] < (i32)dim && p[2] >= -(i32)dim && p[2] < (i32)dim);
  { u64 a1 = nrm(p[1], dim), a2 = nrm(p[2], dim); ASSUME(a1 != a2);
    for (u64 i = 0; i < 3; i++) if (i < dim && i != a1 && i != a2) ex[nd++] = shape[i];
#if VV == V_diagonal
    { u64 n1 = shape[a1], n2 = shape[a2], off = (u64)p[0], m = n2 > off ? n2 - off : 0; ex[nd++] = n1 < m ? n1 : m; }
#endif
  }
#elif VV == V_tril || VV == V_triu
  ASSUME(dim >= 2); p[0] = in_i32(-17, 17); nd = dim; for (u64 i = 0; i < 3; i++) ex[i] = shape[i];
#elif VV == V_where             /* np.where(a, a, a): the common shape */
  nd = dim; for (u64 i = 0; i < 3; i++) ex[i] = shape[i];
#elif VV == V_sum_keep || VV == V_prod_keep || VV == V_mean_keep          /* np.sum(a, axis, keepdims=True) */
  p[0] = in_i32(-3, 2); ASSUME(p[0] >= -(i32)dim && p[0] < (i32)dim); nd = dim; for (u64 i = 0; i < 3; i++) ex[i] = shape[i]; ex[nrm(p[0], dim)] = 1;
#elif VV == V_sum_nokeep || VV == V_prod_nokeep || VV == V_mean_nokeep        /* np.sum(a, axis) */
  p[0] = in_i32(-3, 2); ASSUME(p[0] >= -(i32)dim && p[0] < (i32)dim); { u64 an = nrm(p[0], dim); for (u64 i = 0; i < 3; i++) if (i < dim && i != an) ex[nd++] = shape[i]; }
#elif VV == V_cumsum || VV == V_cumprod
  p[0] = in_i32(-3, 2); ASSUME(p[0] >= -(i32)dim && p[0] < (i32)dim); nd = dim; for (u64 i = 0; i < 3; i++) ex[i] = shape[i];
#elif VV == V_flip_list         /* np.flip(a, (ax_0..ax_{n-1})): distinct axes */
  p[0] = (i32)in_u64(1, 3); ASSUME((u64)p[0] <= dim);
  for (int i = 0; i < 3; i++){ p[1 + i] = in_i32(-3, 2); if (i < p[0]) ASSUME(p[1 + i] >= -(i32)dim && p[1 + i] < (i32)dim); }
  for (int i = 0; i < 3; i++) for (int j = 0; j < 3; j++) if (i < j && j < p[0]) ASSUME(nrm(p[1 + i], dim) != nrm(p[1 + j], dim));
  nd = dim; for (u64 i = 0; i < 3; i++) ex[i] = shape[i];
#elif VV == V_transpose_axes    /* np.transpose(a, axes): a permutation (negative entries count from the end) */
  for (int i = 0; i < 3; i++){ p[i] = in_i32(-3, 2); if ((u64)i < dim) ASSUME(p[i] >= -(i32)dim && p[i] < (i32)dim); }
  for (int i = 0; i < 3; i++) for (int j = 0; j < 3; j++) if (i < j && (u64)j < dim) ASSUME(nrm(p[i], dim) != nrm(p[j], dim));
  nd = dim; for (u64 i = 0; i < 3; i++) if (i < dim) ex[i] = shape[nrm(p[i], dim)];
#elif VV == V_matmul            /* a @ swapaxes(a, -1, -2): (..., m, n) x (..., n, m) -> (..., m, m) */
  ASSUME(dim >= 2); nd = dim; for (u64 i = 0; i < 3; i++) ex[i] = shape[i]; ex[dim - 1] = shape[dim - 2];
#elif VV == V_outer_add         /* np.add.outer(a, a): shape + shape */
  nd = 2 * dim; for (u64 i = 0; i < 3; i++) if (i < dim){ ex[i] = shape[i]; ex[dim + i] = shape[i]; }
#elif VV == V_kron              /* np.kron(a, a): extents multiply */
  nd = dim; for (u64 i = 0; i < 3; i++) ex[i] = shape[i] * shape[i];
#elif VV == V_expand_dims       /* np.expand_dims(a, axis): axis in [-(dim+1), dim] */
  p[0] = in_i32(-4, 3); ASSUME(p[0] >= -(i32)(dim + 1) && p[0] <= (i32)dim); nd = dim + 1;
  { u64 an = nrm(p[0], nd), j = 0; for (u64 i = 0; i < 4; i++) if (i < nd) ex[i] = (i == an) ? 1 : shape[j++]; }
#elif VV == V_expand_dims_list  /* np.expand_dims(a, (ax_0[, ax_1])): axes refer to the RESULT (dim + n axes), distinct */
  p[0] = (i32)in_u64(1, 2); p[1] = in_i32(-5, 4); p[2] = in_i32(-5, 4); nd = dim + (u64)p[0];
  ASSUME(p[1] >= -(i32)nd && p[1] < (i32)nd); if (p[0] == 2){ ASSUME(p[2] >= -(i32)nd && p[2] < (i32)nd); ASSUME(nrm(p[1], nd) != nrm(p[2], nd)); }
  { u64 a0 = nrm(p[1], nd), a1 = p[0] == 2 ? nrm(p[2], nd) : a0, j = 0; for (u64 i = 0; i < 5; i++) if (i < nd) ex[i] = (i == a0 || i == a1) ? 1 : shape[j++]; }
#elif VV == V_atleast_nd1 || VV == V_atleast_nd3   /* view::atleast_nd(a, nd): ones are prepended up to nd axes */
  { u64 want = VV == V_atleast_nd1 ? 1 : 3; nd = dim > want ? dim : want; for (u64 i = 0; i < 3; i++) if (i < nd) ex[i] = i + dim >= nd ? shape[i + dim - nd] : 1; }
#elif VV == V_tile_sv           /* np.tile(a, reps of 1..3 entries): the shorter of (shape, reps) is padded with leading ones */
  p[0] = (i32)in_u64(1, 3); for (int i = 0; i < 3; i++) p[1 + i] = (i32)in_u64(1, 2);
  { u64 nr = (u64)p[0]; nd = dim > nr ? dim : nr; for (u64 i = 0; i < 3; i++) if (i < nd){ u64 si = i + dim >= nd ? shape[i + dim - nd] : 1, ri = i + nr >= nd ? (u64)p[1 + i + nr - nd] : 1; ex[i] = si * ri; } }
#elif VV == V_expand            /* view::expand(a, axis, spacing): n + (n-1)*spacing along axis */
  p[0] = in_i32(-3, 2); ASSUME(p[0] >= -(i32)dim && p[0] < (i32)dim); p[1] = (i32)in_u64(0, 2);
  { u64 an = nrm(p[0], dim); nd = dim; for (u64 i = 0; i < 3; i++) ex[i] = shape[i]; ex[an] = shape[an] + (shape[an] - 1) * (u64)p[1]; }
#elif VV == V_resize            /* view::resize(a, dst): shape == dst (one extent per axis) */
  for (int i = 0; i < 3; i++) p[i] = (i32)in_u64(1, 4); nd = dim; for (u64 i = 0; i < 3; i++) if (i < dim) ex[i] = (u64)p[i];
#elif VV == V_compress          /* np.compress(cond of n <= shape[axis] entries, a, axis): extent = number of true entries */
  p[0] = (i32)in_u64(1, 4); p[5] = in_i32(-3, 2); ASSUME(p[5] >= -(i32)dim && p[5] < (i32)dim);
  { u64 an = nrm(p[5], dim), cnt = 0; ASSUME((u64)p[0] <= shape[an]); for (int i = 0; i < 4; i++){ p[1 + i] = (i32)in_u64(0, 1); if (i < p[0] && p[1 + i]) cnt++; }
    nd = dim; for (u64 i = 0; i < 3; i++) ex[i] = shape[i]; ex[an] = cnt; }
#elif VV == V_diagflat          /* np.diagflat(a, k): (n + |k|) squared, n = a.size */
  p[0] = in_i32(-3, 3); nd = 2; ex[0] = ex[1] = size + (u64)(p[0] < 0 ? -p[0] : p[0]);
#elif VV == V_dstack            /* np.dstack((a, a)): atleast_3d ((N,) -> (1,N,1); (M,N) -> (M,N,1)) then axis 2 */
  nd = 3; if (dim == 1){ ex[0] = 1; ex[1] = shape[0]; ex[2] = 2; } else if (dim == 2){ ex[0] = shape[0]; ex[1] = shape[1]; ex[2] = 2; } else { ex[0] = shape[0]; ex[1] = shape[1]; ex[2] = 2 * shape[2]; }
#elif VV == V_column_stack      /* np.column_stack((a, a)): 1-d operands become columns, otherwise hstack */
  if (dim == 1){ nd = 2; ex[0] = shape[0]; ex[1] = 2; } else { nd = dim; for (u64 i = 0; i < 3; i++) ex[i] = shape[i]; ex[1] *= 2; }
#else
#error unknown VIEW
#endif
  int r = CAT4(k_vt_, VIEW, _, KIND)(shape, dim, data, (u32*)p, t, rt);
  ASSERT(r == 1, "valid arguments: the view exists");
  u64 rdim = rt[0], rsize = rt[1]; u32 prod = 1;   /* every NumPy extent here is < 2^8 and nd <= 6: 32-bit products are exact (max 20^3, 16^2) */
  ASSERT(rdim == nd, "run-time dim == NumPy dim");
  for (u64 i = 0; i < MAXD; i++) if (i < nd){ ASSERT(rt[2 + i] == ex[i], "run-time shape == NumPy shape (nothing clipped)"); prod *= (u32)ex[i]; }
  if (rsize == NA) rsize = prod;     /* 0-d result of a fixed-dim operand: the view has no shape to take the product of */
  ASSERT(rsize == prod, "run-time size == product of the run-time shape");
  if (t[0] != NA) ASSERT(t[0] == rdim, "fixed_dim == run-time dim");
  if (t[1] != NA) ASSERT(t[1] == rsize, "fixed_size == run-time size");
  if (t[2] != NA) ASSERT(rdim <= t[2], "run-time dim <= bounded_dim");
  if (t[3] != NA) ASSERT(rsize <= t[3], "run-time size <= bounded_size");
  if (t[4] != NA){ ASSERT(t[4] == rdim, "len(fixed_shape) == run-time dim"); for (u64 i = 0; i < MAXD; i++) if (i < nd) ASSERT(t[5 + i] == rt[2 + i], "fixed_shape == run-time shape"); }
  u32 mask = (t[0] != NA) | (t[1] != NA) << 1 | (t[2] != NA) << 2 | (t[3] != NA) << 3 | (t[4] != NA) << 4;
#ifdef MASK
  ASSERT(mask == MASK, "the set of reported traits is the recorded one");
#endif
  OBS(r); OBS(mask); OBS(rdim); OBS(rsize); OBS(t[0]); OBS(t[1]); OBS(t[2]); OBS(t[3]);
  REACHED();
}
