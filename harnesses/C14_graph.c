/* C14, compute graph sub-claim: one uniquely identified node per operand (leaf alias id) and per operation (view id), edges exactly from each operation's inputs.
 * The graph is computed from TYPES: there is no symbolic variable here. What the query decides is that the real nmtools code (translated IR) produces exactly the
 * expected node and edge SETS for the enumerated view types - including leaves that are shared by several operations (diamonds). Stated as structural in props/C14.py. */
#include "harness.h"
#include "C14_graph.h"
#define CAT2_(a,b) a##b
#define CAT2(a,b) CAT2_(a,b)
#ifndef PROG
#define PROG chain
#endif
#define P_chain 1
#define P_diamond 2
#define P_shared 3
#define P_shared2 4
#define P_two 5
#define P_two_diamond 6
#define PV CAT2(P_, PROG)
static int has_edge(const i64* e, u64 ne, i64 a, i64 b){ int f = 0; for (u64 k = 0; k < 8; k++) if (k < ne && e[2*k] == a && e[2*k+1] == b) f++; return f; }
static int has_node(const i64* n, u64 nn, i64 a){ int f = 0; for (u64 k = 0; k < 8; k++) if (k < nn && n[k] == a) f++; return f; }
void h_graph(void){
  i64 nodes[8] = {0}, edges[16] = {0}, ids[4] = {0}; u64 nn = 0, ne = 0;
  u64 salt = in_u64(0, 0); (void)salt;     /* the harness convention wants at least one drawn input; it is the constant 0 */
  int r = CAT2(k_g_, PROG)(nodes, &nn, edges, &ne, ids);
  ASSERT(r == 1, "the compute graph exists");
  i64 en[8]; u64 enn = 0; i64 ee[16]; u64 ene = 0;
#define NODE(x) en[enn++] = (x)
#define EDGE(a,b) do { ee[2*ene] = (a); ee[2*ene+1] = (b); ene++; } while (0)
#if PV == 1
  NODE(0); NODE(ids[0]); NODE(ids[1]); EDGE(0, ids[0]); EDGE(ids[0], ids[1]);
#elif PV == 2
  NODE(0); NODE(ids[0]); NODE(ids[1]); NODE(ids[2]); EDGE(0, ids[0]); EDGE(0, ids[1]); EDGE(ids[0], ids[2]); EDGE(ids[1], ids[2]);
#elif PV == 3 || PV == 4
  NODE(0); NODE(ids[0]); NODE(ids[1]); EDGE(0, ids[0]); EDGE(ids[0], ids[1]); EDGE(0, ids[1]);
#elif PV == 5
  NODE(0); NODE(1); NODE(ids[0]); NODE(ids[1]); EDGE(0, ids[0]); EDGE(1, ids[0]); EDGE(ids[0], ids[1]); EDGE(1, ids[1]);
#else
  NODE(0); NODE(1); NODE(ids[0]); NODE(ids[1]); NODE(ids[2]); EDGE(0, ids[0]); EDGE(1, ids[0]); EDGE(0, ids[1]); EDGE(1, ids[1]); EDGE(ids[0], ids[2]); EDGE(ids[1], ids[2]);
#endif
  for (u64 i = 0; i < 8; i++) for (u64 j = 0; j < 8; j++) if (i < enn && j < enn && i != j) ASSERT(en[i] != en[j], "node ids are unique (operations and leaves all distinct)");
  ASSERT(nn == enn, "one node per operand occurrence and per operation");
  for (u64 i = 0; i < 8; i++) if (i < enn) ASSERT(has_node(nodes, nn, en[i]) == 1, "every expected node is present exactly once");
  ASSERT(ne == ene, "number of edges == number of operation inputs");
  for (u64 i = 0; i < 8; i++) if (i < ene) ASSERT(has_edge(edges, ne, ee[2*i], ee[2*i+1]) == 1, "every edge from an operation's input to the operation is present exactly once");
  OBS(nn); OBS(ne); REACHED();
}
