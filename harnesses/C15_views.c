/* C15 (view level): a failing stage makes the whole pipeline Nothing, a valid one gives NumPy's shape and element; no stage
 * dereferences an empty optional (CBMC pointer/bounds obligations, "LL:" throw/abort obligations and the NMV-HOOK index obligation). */
#include "harness.h"
#include "C15_views.h"
#ifndef MAXE
#define MAXE 3
#endif
#ifndef LO
#define LO (-2)
#endif
#ifndef HI
#define HI 9
#endif
#define CELLS 16
#ifdef S0    /* source shape as per-query constants */
static void in_shape2(u64* s){ s[0] = in_u64(S0, S0); s[1] = in_u64(S1, S1); }
#else
static void in_shape2(u64* s){ for (int i = 0; i < 2; i++) s[i] = in_u64(1, MAXE); }
#endif
static void in_data(u32* d, int n){ for (int i = 0; i < n; i++) d[i] = in_any32(); }
static u64 horner(const u64* idx, const u64* shape, u64 n){ u64 o = 0; for (u64 i = 0; i < 4; i++) if (i < n) o = o * shape[i] + idx[i]; return o; }
static i32 norm_axis(i32 a, i32 n){ return a < 0 ? a + n : a; }
static int axis_ok(i32 a, i32 n){ return -n <= a && a < n; }
/* index of length n inside e when ok; every cell is drawn unconditionally */
static void in_index(u64* idx, const u64* e, u64 n, int ok){ for (u64 i = 0; i < 4; i++){ idx[i] = in_u64(0, MAXE*MAXE - 1); if (ok) ASSUME(i < n ? idx[i] < e[i] : idx[i] == 0); } }
static int np_reshape(u64 numel, const u32* d, u64 nd, u64* e){
  int nneg = 0, bad = 0; u64 p = 1;
  for (int i = 0; i < 4; i++) if ((u64)i < nd){ i32 v = (i32)d[i]; if (v == -1) nneg++; else if (v <= 0) bad = 1; else p *= (u64)v; }
  int ok = !bad && ((nneg == 0 && p == numel) || (nneg == 1 && numel % p == 0));
  if (ok) for (int i = 0; i < 4; i++) if ((u64)i < nd) e[i] = ((i32)d[i] == -1) ? numel / p : (u64)(i32)d[i];
  return ok;
}
#ifdef ND   /* target length as a per-query constant */
#define IN_ND() (in_u64(ND, ND))
#else
#define IN_ND() (in_u64(0, 4))
#endif
static u64 in_target(u32* d){ u64 nd = IN_ND(); for (int i = 0; i < 4; i++) d[i] = (u32)in_i32(LO, HI); return nd; }
static void rev(const u64* a, u64 n, u64* r){ for (u64 i = 0; i < 4; i++) if (i < n) r[i] = a[n-1-i]; }
#ifdef KF_C15_RESHAPE_SCALAR_TARGET
#define EXCL_SCALAR_TARGET(nd, numel) ASSUME(!((nd) == 0 && (numel) == 1))
#else
#define EXCL_SCALAR_TARGET(nd, numel)
#endif

void h_v_reshape(void){
  u64 s[2], idx[4], os[4] = {0}, od = 0, e[4] = {0}; u32 data[CELLS], d[4], out = 0;
  in_shape2(s); in_data(data, MAXE*MAXE); u64 nd = in_target(d), numel = s[0]*s[1];
  EXCL_SCALAR_TARGET(nd, numel);
  int ok = np_reshape(numel, d, nd, e); in_index(idx, e, nd, ok);
  int r = k_v_reshape(s, data, d, nd, idx, nd, os, &od, &out);
  ASSERT(r == (ok ? 1 : 0), "view::reshape is Nothing iff NumPy rejects the target");
  if (r && ok){ ASSERT(od == nd, "dim"); for (u64 i = 0; i < 4; i++) if (i < nd) ASSERT(os[i] == e[i], "shape"); ASSERT(out == data[horner(idx, e, nd)], "element"); }
  OBS(r); OBS(out);
  REACHED();
}
void h_v_reshape_transpose(void){
  u64 s[2], idx[4], os[4] = {0}, od = 0, e[4] = {0}, t[4] = {0}, si[4] = {0}; u32 data[CELLS], d[4], out = 0;
  in_shape2(s); in_data(data, MAXE*MAXE); u64 nd = in_target(d), numel = s[0]*s[1];
  EXCL_SCALAR_TARGET(nd, numel);
  int ok = np_reshape(numel, d, nd, e); rev(e, nd, t); in_index(idx, t, nd, ok);
#ifdef EVAL
  int r = k_v_reshape_transpose_eval(s, data, d, nd, idx, nd, os, &od, &out);
#else
  int r = k_v_reshape_transpose(s, data, d, nd, idx, nd, os, &od, &out);
#endif
  ASSERT(r == (ok ? 1 : 0), "transpose(reshape(a, s)) [evaluated when EVAL] is Nothing iff the reshape is rejected");
  if (r && ok){ ASSERT(od == nd, "dim"); for (u64 i = 0; i < 4; i++) if (i < nd) ASSERT(os[i] == t[i], "shape reversed"); rev(idx, nd, si); ASSERT(out == data[horner(si, e, nd)], "element"); }
  OBS(r); OBS(out);
  REACHED();
}
void h_v_reshape_transpose_flatten(void){
  u64 s[2], idx[4] = {0}, os[4] = {0}, od = 0, e[4] = {0}, t[4] = {0}, ti[4] = {0}, si[4] = {0}; u32 data[CELLS], d[4], out = 0;
  in_shape2(s); in_data(data, MAXE*MAXE); u64 nd = in_target(d), numel = s[0]*s[1];
  EXCL_SCALAR_TARGET(nd, numel);
  int ok = np_reshape(numel, d, nd, e); rev(e, nd, t);
  idx[0] = in_u64(0, MAXE*MAXE - 1); if (ok) ASSUME(idx[0] < numel);
  int r = k_v_reshape_transpose_flatten(s, data, d, nd, idx, 1, os, &od, &out);
  ASSERT(r == (ok ? 1 : 0), "flatten(transpose(reshape(a, s))) is Nothing iff the reshape is rejected");
  if (r && ok){ ASSERT(od == 1 && os[0] == numel, "shape (numel,)");
    u64 k = idx[0]; for (u64 i = 4; i-- > 0; ) if (i < nd){ ti[i] = k % t[i]; k /= t[i]; }   /* unravel in the transposed shape */
    rev(ti, nd, si); ASSERT(out == data[horner(si, e, nd)], "element"); }
  OBS(r); OBS(out);
  REACHED();
}
/* NumPy broadcasting of two shapes */
static int np_broadcast(const u64* a, u64 na, const u64* b, u64 nb, u64* e, u64* ne){
  u64 nr = na > nb ? na : nb; int ok = 1;
  for (u64 k = 0; k < 4; k++) if (k < nr){ u64 x = k < na ? a[na-1-k] : 1, y = k < nb ? b[nb-1-k] : 1; if (x != y && x != 1 && y != 1) ok = 0; e[nr-1-k] = x == 1 ? y : x; }
  *ne = nr; return ok;
}
/* flat position in an operand of shape a (dim na) of the broadcast result index idx (dim nr) */
static u64 bpos(const u64* idx, u64 nr, const u64* a, u64 na){ u64 o = 0; for (u64 j = 0; j < 4; j++) if (j < na) o = o * a[j] + (a[j] == 1 ? 0 : idx[j + nr - na]); return o; }
void h_v_reshape_add(void){
  u64 s[2], bs[2], idx[4], os[4] = {0}, od = 0, e[4] = {0}, re[4] = {0}, nr = 0; u32 data[CELLS], bdata[CELLS], d[4], out = 0;
  in_shape2(s); in_data(data, MAXE*MAXE); in_shape2(bs); in_data(bdata, MAXE*MAXE); u64 nd = in_target(d), numel = s[0]*s[1];
  EXCL_SCALAR_TARGET(nd, numel);
  int ok = np_reshape(numel, d, nd, e); if (ok) ok = np_broadcast(e, nd, bs, 2, re, &nr);
  in_index(idx, re, nr, ok);
  int r = k_v_reshape_add(s, data, d, nd, bs, bdata, idx, nr, os, &od, &out);
  ASSERT(r == (ok ? 1 : 0), "add(reshape(a, s), b) is Nothing iff the reshape is rejected or the operands do not broadcast");
  if (r && ok){ ASSERT(od == nr, "dim"); for (u64 i = 0; i < 4; i++) if (i < nr) ASSERT(os[i] == re[i], "broadcast shape");
    ASSERT(out == data[bpos(idx, nr, e, nd)] + bdata[bpos(idx, nr, bs, 2)], "element"); }
  OBS(r); OBS(out);
  REACHED();
}
void h_v_broadcast_transpose_sum(void){
  u64 s[2], t[4], idx[4], os[4] = {0}, od = 0, rs[4] = {0}, m[4] = {0}; u32 data[CELLS], out = 0;
  in_shape2(s); in_data(data, MAXE*MAXE);
  u64 nt = in_u64(3, 3); for (int i = 0; i < 4; i++) t[i] = in_u64(1, MAXE);     /* fixed-length target (array<size_t,3>) */
  int ok = nt >= 2; if (ok) for (u64 k = 0; k < 2; k++){ u64 x = s[1-k], y = t[nt-1-k]; if (x != y && x != 1) ok = 0; }
  /* result: S[i1..i_{nt-1}] = sum_k B[i_{nt-1},..,i1,k]; shape (t[nt-2],..,t[0]) */
  u64 rd = ok ? nt - 1 : 0; for (u64 i = 0; i < 4; i++) if (i < rd) rs[i] = t[nt-2-i];
  in_index(idx, rs, rd, ok);
  int r = k_v_broadcast_transpose_sum(s, data, t, nt, idx, rd, os, &od, &out);
  ASSERT(r == (ok ? 1 : 0), "sum(transpose(broadcast_to(a, t)), 0) is Nothing iff a does not broadcast to t");
  if (r && ok){ ASSERT(od == rd, "dim"); for (u64 i = 0; i < 4; i++) if (i < rd) ASSERT(os[i] == rs[i], "shape");
    u32 acc = 0; for (u64 i = 0; i < 4; i++) if (i < rd) m[nt-2-i] = idx[i];
    for (u64 k = 0; k < MAXE; k++) if (k < t[nt-1]){ m[nt-1] = k; acc += data[bpos(m, nt, s, 2)]; }
    ASSERT(out == acc, "element == sum over the last broadcast axis"); }
  OBS(r); OBS(out);
  REACHED();
}
void h_v_matmul_transpose(void){
  u64 s[2], bs[2], idx[4] = {0}, os[4] = {0}, od = 0; u32 data[CELLS], bdata[CELLS], out = 0;
  in_shape2(s); in_data(data, MAXE*MAXE); in_shape2(bs); in_data(bdata, MAXE*MAXE);
  int ok = s[1] == bs[0];
#ifdef KF_C15_MATMUL_VIEW
  ASSUME(ok);                             /* excluded region: contracted extents differ */
#endif
  int r = k_v_matmul_transpose(s, data, bs, bdata, idx, 0, os, &od, &out);    /* index of length 0: shape only (elements: C16) */
  ASSERT(r == (ok ? 2 : 0), "transpose(matmul(a, b)) is Nothing iff the contracted extents differ");
  if (r && ok) ASSERT(od == 2 && os[0] == bs[1] && os[1] == s[0], "shape (b1, a0)");
  OBS(r); OBS(os[0]);
  REACHED();
}
void h_v_moveaxis(void){
  u64 s[2], idx[4], os[4] = {0}, od = 0, e[4] = {0}, si[2]; u32 data[CELLS], out = 0;
  in_shape2(s); in_data(data, MAXE*MAXE);
  i32 a = in_i32(-4, 3), b = in_i32(-4, 3);
  int ok = axis_ok(a, 2) && axis_ok(b, 2);
  int sw = ok && norm_axis(a, 2) != norm_axis(b, 2);
  e[0] = sw ? s[1] : s[0]; e[1] = sw ? s[0] : s[1]; in_index(idx, e, 2, ok);
  int r = k_v_moveaxis(s, data, (u32)a, (u32)b, idx, 2, os, &od, &out);
  ASSERT(r == (ok ? 1 : 0), "moveaxis is Nothing iff an axis is outside [-ndim, ndim)");
  if (r && ok){ ASSERT(od == 2 && os[0] == e[0] && os[1] == e[1], "shape"); si[0] = sw ? idx[1] : idx[0]; si[1] = sw ? idx[0] : idx[1]; ASSERT(out == data[horner(si, s, 2)], "element"); }
  OBS(r); OBS(out);
  REACHED();
}
void h_v_transpose_axes(void){
  u64 s[2], idx[4], os[4] = {0}, od = 0, e[4] = {0}, si[2] = {0}; u32 data[CELLS], ax[2], out = 0;
  in_shape2(s); in_data(data, MAXE*MAXE);
  i32 a = in_i32(-4, 3), b = in_i32(-4, 3); ax[0] = (u32)a; ax[1] = (u32)b;
  int ok = axis_ok(a, 2) && axis_ok(b, 2) && norm_axis(a, 2) != norm_axis(b, 2);
#ifdef KF_C15_TRANSPOSE_AXES
  ASSUME(!(!ok));                         /* excluded region: axes that are not a permutation (out of range or repeated) */
#endif
  u64 an = ok ? (u64)norm_axis(a, 2) : 0, bn = ok ? (u64)norm_axis(b, 2) : 0;
  e[0] = s[an]; e[1] = s[bn]; in_index(idx, e, 2, ok);
  int r = k_v_transpose_axes(s, data, ax, idx, 2, os, &od, &out);
  ASSERT(r == (ok ? 1 : 0), "transpose(a, axes) is Nothing iff the axes are not a permutation (np.transpose: out of range or repeated axis)");
  if (r && ok){ ASSERT(od == 2 && os[0] == e[0] && os[1] == e[1], "shape"); si[an] = idx[0]; si[bn] = idx[1]; ASSERT(out == data[horner(si, s, 2)], "element"); }
  OBS(r); OBS(out);
  REACHED();
}
void h_v_swapaxes(void){
  u64 s[2], idx[4], os[4] = {0}, od = 0, e[4] = {0}, si[2]; u32 data[CELLS], out = 0;
  in_shape2(s); in_data(data, MAXE*MAXE);
  i32 a = in_i32(-4, 3), b = in_i32(-4, 3);
  int ok = axis_ok(a, 2) && axis_ok(b, 2);
#ifdef KF_C15_SWAPAXES_AXIS
  ASSUME(ok);                             /* excluded region: an axis outside [-ndim, ndim) */
#endif
  int sw = ok && norm_axis(a, 2) != norm_axis(b, 2);
  e[0] = sw ? s[1] : s[0]; e[1] = sw ? s[0] : s[1]; in_index(idx, e, 2, ok);
  int r = k_v_swapaxes(s, data, (u32)a, (u32)b, idx, 2, os, &od, &out);
  ASSERT(r == (ok ? 1 : 0), "swapaxes is Nothing iff an axis is outside [-ndim, ndim)");
  if (r && ok){ ASSERT(od == 2 && os[0] == e[0] && os[1] == e[1], "shape"); si[0] = sw ? idx[1] : idx[0]; si[1] = sw ? idx[0] : idx[1]; ASSERT(out == data[horner(si, s, 2)], "element"); }
  OBS(r); OBS(out);
  REACHED();
}
void h_v_expand_dims(void){
  u64 s[2], idx[4], os[4] = {0}, od = 0, e[4] = {0}, si[2] = {0}; u32 data[CELLS], out = 0;
  in_shape2(s); in_data(data, MAXE*MAXE);
  i32 a = in_i32(-5, 4);
  int ok = axis_ok(a, 3);
#ifdef KF_C15_EXPAND_DIMS_AXIS
  ASSUME(ok);                             /* excluded region: axis outside [-(ndim+1), ndim+1) */
#endif
  u64 an = ok ? (u64)norm_axis(a, 3) : 0;
  { int j = 0; for (u64 k = 0; k < 3; k++) e[k] = (k == an) ? 1 : s[j++]; } in_index(idx, e, 3, ok);
  int r = k_v_expand_dims(s, data, (u32)a, idx, 3, os, &od, &out);
  ASSERT(r == (ok ? 1 : 0), "expand_dims is Nothing iff the axis is outside [-(ndim+1), ndim+1)");
  if (r && ok){ ASSERT(od == 3, "dim"); { int j = 0; for (u64 k = 0; k < 3; k++){ ASSERT(os[k] == e[k], "shape"); if (k != an) si[j++] = idx[k]; } } ASSERT(out == data[horner(si, s, 2)], "element"); }
  OBS(r); OBS(out);
  REACHED();
}
void h_v_flip(void){
  u64 s[2], idx[4], os[4] = {0}, od = 0, e[4] = {0}, si[2]; u32 data[CELLS], out = 0;
  in_shape2(s); in_data(data, MAXE*MAXE);
  i32 a = in_i32(-4, 3);
  int ok = axis_ok(a, 2);
#ifdef KF_C15_FLIP_AXIS
  ASSUME(ok);                             /* excluded region: axis outside [-ndim, ndim) */
#endif
  u64 an = ok ? (u64)norm_axis(a, 2) : 0;
  e[0] = s[0]; e[1] = s[1]; in_index(idx, e, 2, ok);
  int r = k_v_flip(s, data, (u32)a, idx, 2, os, &od, &out);
  ASSERT(r == (ok ? 1 : 0), "flip is Nothing iff the axis is outside [-ndim, ndim)");
  if (r && ok){ ASSERT(od == 2 && os[0] == s[0] && os[1] == s[1], "shape"); for (u64 i = 0; i < 2; i++) si[i] = i == an ? s[i] - 1 - idx[i] : idx[i]; ASSERT(out == data[horner(si, s, 2)], "element"); }
  OBS(r); OBS(out);
  REACHED();
}
void h_v_sum(void){
  u64 s[2], idx[4], os[4] = {0}, od = 0, e[4] = {0}, si[2]; u32 data[CELLS], out = 0;
  in_shape2(s); in_data(data, MAXE*MAXE);
  i32 a = in_i32(-4, 3);
  int ok = axis_ok(a, 2);
#ifdef KF_C15_REDUCE_AXIS
  ASSUME(ok);                             /* excluded region: axis outside [-ndim, ndim) */
#endif
  u64 an = ok ? (u64)norm_axis(a, 2) : 0;
  e[0] = s[1-an]; in_index(idx, e, 1, ok);
  int r = k_v_sum(s, data, (u32)a, idx, 1, os, &od, &out);
  ASSERT(r == (ok ? 1 : 0), "sum(a, axis) is Nothing iff the axis is outside [-ndim, ndim)");
  if (r && ok){ ASSERT(od == 1 && os[0] == e[0], "shape"); u32 acc = 0; for (u64 k = 0; k < MAXE; k++) if (k < s[an]){ si[an] = k; si[1-an] = idx[0]; acc += data[horner(si, s, 2)]; } ASSERT(out == acc, "element"); }
  OBS(r); OBS(out);
  REACHED();
}
void h_v_concatenate(void){
  u64 s[2], bs[2], idx[4], os[4] = {0}, od = 0, e[4] = {0}; u32 data[CELLS], bdata[CELLS], out = 0;
  in_shape2(s); in_data(data, MAXE*MAXE); in_shape2(bs); in_data(bdata, MAXE*MAXE);
  i32 a = in_i32(-4, 3);
  int ok = axis_ok(a, 2);
  u64 an = ok ? (u64)norm_axis(a, 2) : 0;
  if (ok && s[1-an] != bs[1-an]) ok = 0;
#ifdef KF_C15_CONCATENATE_VIEW
  ASSUME(ok && a >= 0);                   /* excluded region: mismatching operand shapes, negative or out-of-range axis */
#endif
  e[an] = s[an] + bs[an]; e[1-an] = s[1-an]; in_index(idx, e, 2, ok);
  int r = k_v_concatenate(s, data, bs, bdata, (u32)a, idx, 2, os, &od, &out);
  ASSERT(r == (ok ? 1 : 0), "concatenate is Nothing iff np.concatenate rejects (axis out of range or off-axis extents differ)");
  if (r && ok){ ASSERT(od == 2 && os[0] == e[0] && os[1] == e[1], "shape");
    if (idx[an] < s[an]) ASSERT(out == data[horner(idx, s, 2)], "element from a");
    else { u64 bi[2]; bi[an] = idx[an] - s[an]; bi[1-an] = idx[1-an]; ASSERT(out == bdata[horner(bi, bs, 2)], "element from b"); } }
  OBS(r); OBS(out);
  REACHED();
}
void h_v_broadcast_to(void){
  u64 s[2], t[4], idx[4], os[4] = {0}, od = 0; u32 data[CELLS], out = 0;
  in_shape2(s); in_data(data, MAXE*MAXE);
  u64 nt = in_u64(0, 4); for (int i = 0; i < 4; i++) t[i] = in_u64(1, MAXE);
  int ok = nt >= 2; if (ok) for (u64 k = 0; k < 2; k++){ u64 x = s[1-k], y = t[nt-1-k]; if (x != y && x != 1) ok = 0; }
  in_index(idx, t, nt, ok);
  int r = k_v_broadcast_to(s, data, t, nt, idx, nt, os, &od, &out);
  ASSERT(r == (ok ? 1 : 0), "broadcast_to is Nothing iff np.broadcast_to rejects the target");
  if (r && ok){ ASSERT(od == nt, "dim"); for (u64 i = 0; i < 4; i++) if (i < nt) ASSERT(os[i] == t[i], "shape"); ASSERT(out == data[bpos(idx, nt, s, 2)], "element"); }
  OBS(r); OBS(out);
  REACHED();
}
void h_v_roll(void){
  u64 s[2], idx[4], os[4] = {0}, od = 0, e[4] = {0}, si[2]; u32 data[CELLS], out = 0;
  in_shape2(s); in_data(data, MAXE*MAXE);
  i32 sh = in_i32(-4, 4), a = in_i32(-4, 3);
  int ok = axis_ok(a, 2);
  u64 an = ok ? (u64)norm_axis(a, 2) : 0;
#ifdef KF_C15_ROLL_LARGE_SHIFT
  ASSUME(!(ok && (sh > (i32)s[an] || sh < -(i32)s[an])));   /* excluded region: |shift| larger than the extent of the rolled axis */
#endif
  e[0] = s[0]; e[1] = s[1]; in_index(idx, e, 2, ok);
  int r = k_v_roll(s, data, (u32)sh, (u32)a, idx, 2, os, &od, &out);
  ASSERT(r == (ok ? 1 : 0), "roll is Nothing iff the axis is outside [-ndim, ndim)");
  if (r && ok){ ASSERT(od == 2 && os[0] == s[0] && os[1] == s[1], "shape");
    for (u64 i = 0; i < 2; i++){ i64 n = (i64)s[i], v = (i64)idx[i] - (i == an ? sh : 0); v %= n; if (v < 0) v += n; si[i] = (u64)v; }
    ASSERT(out == data[horner(si, s, 2)], "element == np.roll element"); }
  OBS(r); OBS(out);
  REACHED();
}
void h_v_pad_transpose(void){
  u64 s[2], pw[8], idx[4], os[4] = {0}, od = 0, e[4] = {0}, t[4] = {0}; u32 data[CELLS], out = 0;
  in_shape2(s); in_data(data, MAXE*MAXE);
  u64 npw = in_u64(0, 8); for (int i = 0; i < 8; i++) pw[i] = in_u64(0, 2);
  u32 value = in_any32();
  int ok = npw == 4;
  e[0] = s[0] + pw[0] + pw[2]; e[1] = s[1] + pw[1] + pw[3]; t[0] = e[1]; t[1] = e[0];
  for (u64 i = 0; i < 4; i++){ idx[i] = in_u64(0, MAXE + 3); if (ok) ASSUME(i < 2 ? idx[i] < t[i] : idx[i] == 0); }
  int r = k_v_pad_transpose(s, data, pw, npw, value, idx, 2, os, &od, &out);
  ASSERT(r == (ok ? 1 : 0), "transpose(pad(a, widths)) is Nothing iff there is not one (begin,end) pair per axis");
  if (r && ok){ ASSERT(od == 2 && os[0] == t[0] && os[1] == t[1], "shape");
    u64 y = idx[1], x = idx[0];                         /* position in the padded array */
    int inside = y >= pw[0] && y < pw[0] + s[0] && x >= pw[1] && x < pw[1] + s[1];
    ASSERT(out == (inside ? data[(y - pw[0])*s[1] + (x - pw[1])] : value), "element: source cell inside, pad value outside"); }
  OBS(r); OBS(out);
  REACHED();
}
