/* C17: pooling = PyTorch (output size formula incl. the ceil-mode rule "the last window must start inside the input", window
 * contents truncated at the input border). index level: every parameter symbolic. element level: (N,C,H,W,kernel,stride,ceil_mode)
 * are per-query constants, uint8 data and the output index symbolic. */
#include "harness.h"
#include "C17_pool.h"
/* PyTorch pooling_output_shape with pad = 0, dilation = 1 */
static u64 pool_out(u64 n, u64 k, u64 s, int ceil){
  u64 o = (n - k + (ceil ? s - 1 : 0)) / s + 1;
  if (ceil && (o - 1) * s >= n) o -= 1;
  return o;
}
#ifndef MAXN
#define MAXN 7
#endif
/* index::shape_pool2d: all of (N,C,H,W), kernel, stride, ceil_mode symbolic; kernel <= input (PyTorch rejects larger kernels) */
void h_shape_pool2d(void){
  u64 s[4], k[2], st[2], o[4] = {0};
  s[0] = in_u64(1, 2); s[1] = in_u64(1, 2); s[2] = in_u64(1, MAXN); s[3] = in_u64(1, MAXN);
  for (int i = 0; i < 2; i++){ k[i] = in_u64(1, 3); st[i] = in_u64(1, 3); }
  u32 ceil = in_u32(0, 1);
  ASSUME(k[0] <= s[2] && k[1] <= s[3]);
  k_shape_pool2d(s, k, st, ceil, o);
  ASSERT(o[0] == s[0] && o[1] == s[1], "batch and channel extents kept");
  ASSERT(o[2] == pool_out(s[2], k[0], st[0], ceil), "output height == PyTorch formula");
  ASSERT(o[3] == pool_out(s[3], k[1], st[1], ceil), "output width == PyTorch formula");
  /* every window starts inside the input */
  ASSERT(o[2] >= 1 && (o[2]-1)*st[0] < s[2] && o[3] >= 1 && (o[3]-1)*st[1] < s[3], "last window starts inside the input");
  /* slices of a symbolic output index */
  u64 idx[4], sl[12] = {0};
  for (int i = 0; i < 4; i++){ idx[i] = in_u64(0, MAXN-1); ASSUME(idx[i] < o[i]); }
  k_slice_pool2d(idx, s, k, st, ceil, sl);
  for (int i = 0; i < 2; i++) ASSERT(sl[3*i] == idx[i] && sl[3*i+1] == idx[i] + 1 && sl[3*i+2] == 1, "batch/channel axis: exactly this element");
  for (int i = 0; i < 2; i++) ASSERT(sl[3*(i+2)] == idx[i+2]*st[i] && sl[3*(i+2)+1] == idx[i+2]*st[i] + k[i] && sl[3*(i+2)+2] == 1, "spatial axis: window [i*stride, i*stride + kernel)");
  OBS(o[2]); OBS(o[3]); OBS(sl[6]); OBS(sl[10]);
  REACHED();
}

#ifdef H
#ifndef N
#define N 1
#endif
#ifndef C
#define C 1
#endif
#ifndef KW
#define KW KH
#endif
#ifndef SW
#define SW SH
#endif
#define CELLS 32
static u64 sh[4] = {N, C, H, W}, ks[2] = {KH, KW}, st[2] = {SH, SW};
static void draw(u8* d, u64* idx, const u64* e){ for (int i = 0; i < CELLS; i++) d[i] = in_any8(); for (int i = 0; i < 4; i++){ idx[i] = in_u64(0, 7); ASSUME(idx[i] < e[i]); } }
void h_max_pool2d(void){
  u64 e[4] = {N, C, pool_out(H, KH, SH, CEIL), pool_out(W, KW, SW, CEIL)}, idx[4], os[4] = {0}; u8 d[CELLS], out = 0;
  draw(d, idx, e);
#ifdef VIA_FN   /* through the extracted function composition (what the device kernels evaluate) */
  int r = k_max_pool2d_fn(sh, d, ks, st, CEIL, idx, os, &out);
#else
  int r = k_max_pool2d(sh, d, ks, st, CEIL, idx, os, &out);
#endif
  ASSERT(r == 1, "ok");
  for (int i = 0; i < 4; i++) ASSERT(os[i] == e[i], "shape == PyTorch output shape");
  u8 m = 0; int any = 0;
  for (u64 p = 0; p < KH; p++) for (u64 q = 0; q < KW; q++){ u64 y = idx[2]*SH + p, x = idx[3]*SW + q;
    if (y < H && x < W){ u8 v = d[((idx[0]*C + idx[1])*H + y)*W + x]; if (!any || v > m) m = v; any = 1; } }
  ASSERT(any, "window not empty");
  ASSERT(out == m, "element == max over the window truncated at the input border");
  OBS(out); REACHED();
}
/* signed int8 data: the maximum of a window of negative values is negative */
void h_max_pool2d_i8(void){
  u64 e[4] = {N, C, pool_out(H, KH, SH, CEIL), pool_out(W, KW, SW, CEIL)}, idx[4], os[4] = {0}; u8 d[CELLS]; u32 out = 0;
  draw(d, idx, e);
  int r = k_max_pool2d_i8(sh, d, ks, st, CEIL, idx, os, &out);
  ASSERT(r == 1, "ok");
  for (int i = 0; i < 4; i++) ASSERT(os[i] == e[i], "shape == PyTorch output shape");
  i32 m = 0; int any = 0;
  for (u64 p = 0; p < KH; p++) for (u64 q = 0; q < KW; q++){ u64 y = idx[2]*SH + p, x = idx[3]*SW + q;
    if (y < H && x < W){ i32 v = (i32)(i8)d[((idx[0]*C + idx[1])*H + y)*W + x]; if (!any || v > m) m = v; any = 1; } }
  ASSERT(any, "window not empty");
  ASSERT((i32)out == m, "element == max over the window truncated at the input border (signed data)");
  OBS(out); REACHED();
}
void h_avg_pool2d(void){
  u64 e[4] = {N, C, pool_out(H, KH, SH, CEIL), pool_out(W, KW, SW, CEIL)}, idx[4], os[4] = {0}; u8 d[CELLS]; float out = 0;
  draw(d, idx, e);
#ifdef VIA_FN
  int r = k_avg_pool2d_fn(sh, d, ks, st, CEIL, idx, os, &out);
#else
  int r = k_avg_pool2d(sh, d, ks, st, CEIL, idx, os, &out);
#endif
  ASSERT(r == 1, "ok");
  for (int i = 0; i < 4; i++) ASSERT(os[i] == e[i], "shape == PyTorch output shape");
  float acc = 0.0f; u32 cnt = 0;   /* the nested-loop definition in float32, row-major over the window truncated at the border */
  for (u64 p = 0; p < KH; p++) for (u64 q = 0; q < KW; q++){ u64 y = idx[2]*SH + p, x = idx[3]*SW + q;
    if (y < H && x < W){ float v = (float)d[((idx[0]*C + idx[1])*H + y)*W + x]; acc = cnt ? acc + v : v; cnt++; } }
  ASSERT(cnt > 0, "window not empty");
  /* uint8 data: every partial sum is an integer < 2^24, hence exact; divisor = number of in-bounds cells (PyTorch with pad 0) */
  ASSERT(f32_bits(out) == f32_bits(acc / (float)cnt), "element == (float32 sum over the truncated window) / (cells in it)");
  OBS(f32_bits(out)); REACHED();
}
#endif
