/* C04: take / concatenate / stack / hstack / vstack / dstack / column_stack equal NumPy's result */
#include "C04_util.h"
#include "C04_join.h"

/* np.take(a, ind, axis): ind a list of 1..4 entries in [-n, n) (negative entries count from the end), axis in [-DIM, DIM) */
void h_take(void){
  u64 shape[4] = {1,1,1,1}, idx[4], os[4] = {0}, od = 0, ex[4] = {0}, src[4] = {0,0,0,0}; u32 data[CELLS], ind[4], out = 0;
  in_shape(shape, DIM); in_data(data, NCELL);
  u64 ni = in_u64(1, 4); i32 ax = in_i32(-DIM, DIM - 1); u64 an = norm_axis(ax, DIM);
  for (int i = 0; i < 4; i++){ i32 v = in_i32(-MAXE, MAXE - 1); ASSUME(v >= -(i32)shape[an] && v < (i32)shape[an]); ind[i] = (u32)v; }
#ifdef KF_C04_TAKE_NEGAXIS
  ASSUME(!(ax < 0));
#endif
#ifdef KF_C04_TAKE_NEGINDEX
  for (int i = 0; i < 4; i++) ASSUME(!((u64)i < ni && (i32)ind[i] < 0));
#endif
  for (u64 k = 0; k < DIM; k++) ex[k] = (k == an) ? ni : shape[k];
  in_index(idx, ex, DIM, MAXE > 4 ? MAXE - 1 : 3);
  int r = CAT(k_take, DIM)(shape, data, ind, ni, (u32)ax, idx, DIM, os, &od, &out);
  ASSERT(r == 1, "take accepted");
  ASSERT(od == DIM, "dim kept (1-d index list)");
  for (u64 k = 0; k < DIM; k++){ ASSERT(os[k] == ex[k], "shape[axis] == len(indices)");
    src[k] = (k == an) ? (u64)pymod((i32)ind[idx[k]], (i64)shape[k]) : idx[k]; }
  ASSERT(out == data[horner(src, shape, DIM)], "element == a[..., ind[j], ...]");
  OBS(out);
  REACHED();
}
/* np.take(a, ind) (axis=None): flat indices in [-numel, numel) */
void h_take_flat(void){
  u64 shape[4] = {1,1,1,1}, idx[4] = {0}, os[4] = {0}, od = 0; u32 data[CELLS], ind[4], out = 0;
  in_shape(shape, DIM); in_data(data, NCELL);
  u64 ni = in_u64(1, 4), numel = prod(shape, DIM);
  for (int i = 0; i < 4; i++){ i32 v = in_i32(-NCELL, NCELL - 1); ASSUME(v >= -(i32)numel && v < (i32)numel); ind[i] = (u32)v; }
#ifdef KF_C04_TAKE_NEGINDEX
  for (int i = 0; i < 4; i++) ASSUME(!((u64)i < ni && (i32)ind[i] < 0));
#endif
  idx[0] = in_u64(0, 3); ASSUME(idx[0] < ni);
  int r = CAT(k_take_flat, DIM)(shape, data, ind, ni, idx, 1, os, &od, &out);
  ASSERT(r == 1, "take accepted");
  ASSERT(od == 1 && os[0] == ni, "shape == (len(indices),)");
  ASSERT(out == data[pymod((i32)ind[idx[0]], (i64)numel)], "element == a.flat[ind[j]]");
  OBS(out);
  REACHED();
}

/* two sources: b has a's shape except along `an` (an >= DIM: identical shapes) */
static void in_pair(u64* sa, u64* sb, u32* da, u32* db, u64 an){
  in_shape(sa, DIM); u64 e = in_u64(1, MAXE);
  for (u64 k = 0; k < DIM; k++) sb[k] = (k == an) ? e : sa[k];
  in_data(da, NCELL); in_data(db, NCELL);
}
/* np.concatenate((a,b), axis), axis in [-DIM, DIM) */
void h_concatenate(void){
  u64 sa[4] = {1,1,1,1}, sb[4] = {1,1,1,1}, idx[4], os[4] = {0}, od = 0, ex[4] = {0}, src[4] = {0,0,0,0}; u32 da[CELLS], db[CELLS], out = 0;
  i32 ax = in_i32(-DIM, DIM - 1); u64 an = norm_axis(ax, DIM);
  in_pair(sa, sb, da, db, an);
#ifdef KF_C04_CONCATENATE_NEGAXIS
  ASSUME(!(ax < 0));
#endif
  for (u64 k = 0; k < DIM; k++) ex[k] = (k == an) ? sa[k] + sb[k] : sa[k];
  in_index(idx, ex, DIM, 2*MAXE - 1);
  int r = CAT(k_concatenate, DIM)(sa, da, sb, db, (u32)ax, idx, DIM, os, &od, &out);
  ASSERT(r == 1, "concatenate accepted");
  ASSERT(od == DIM, "dim kept");
  for (u64 k = 0; k < DIM; k++){ ASSERT(os[k] == ex[k], "shape[axis] == a.shape[axis] + b.shape[axis]"); src[k] = idx[k]; }
  if (idx[an] < sa[an]) ASSERT(out == da[horner(src, sa, DIM)], "element of a");
  else { src[an] = idx[an] - sa[an]; ASSERT(out == db[horner(src, sb, DIM)], "element of b at index - a.shape[axis]"); }
  OBS(out);
  REACHED();
}
/* np.concatenate((a,b), axis=None): both flattened; shapes independent */
void h_concatenate_flat(void){
  u64 sa[4] = {1,1,1,1}, sb[4] = {1,1,1,1}, idx[4] = {0}, os[4] = {0}, od = 0; u32 da[CELLS], db[CELLS], out = 0;
  in_shape(sa, DIM); in_shape(sb, DIM); in_data(da, NCELL); in_data(db, NCELL);
  u64 na = prod(sa, DIM), nb = prod(sb, DIM);
  idx[0] = in_u64(0, 2*NCELL - 1); ASSUME(idx[0] < na + nb);
  int r = CAT(k_concatenate_flat, DIM)(sa, da, sb, db, idx, 1, os, &od, &out);
  ASSERT(r == 1, "concatenate accepted");
  ASSERT(od == 1 && os[0] == na + nb, "shape == (a.size + b.size,)");
  ASSERT(out == (idx[0] < na ? da[idx[0]] : db[idx[0] - na]), "element of a.flat then b.flat");
  OBS(out);
  REACHED();
}
/* np.stack((a,b), axis): identical shapes, axis in [-(DIM+1), DIM] */
static void stack_check(int dflt){
  u64 sa[4] = {1,1,1,1}, sb[4] = {1,1,1,1}, idx[4], os[4] = {0}, od = 0, ex[4] = {0}, src[4] = {0,0,0,0}; u32 da[CELLS], db[CELLS], out = 0;
  i32 ax = dflt ? 0 : in_i32(-(DIM + 1), DIM); u64 an = norm_axis(ax, DIM + 1);
  in_pair(sa, sb, da, db, 99);
#ifdef KF_C04_STACK_NEGAXIS
  ASSUME(!(ax < 0));
#endif
  { u64 j = 0; for (u64 k = 0; k < DIM + 1; k++) ex[k] = (k == an) ? 2 : sa[j++]; }
  in_index(idx, ex, DIM + 1, MAXE > 2 ? MAXE - 1 : 1);
  int r = dflt ? CAT(k_stack_default, DIM)(sa, da, sb, db, idx, DIM + 1, os, &od, &out) : CAT(k_stack, DIM)(sa, da, sb, db, (u32)ax, idx, DIM + 1, os, &od, &out);
  ASSERT(r == 1, "stack accepted");
  ASSERT(od == DIM + 1, "dim + 1");
  { u64 j = 0; for (u64 k = 0; k < DIM + 1; k++){ ASSERT(os[k] == ex[k], "shape with a 2 inserted at axis"); if (k != an) src[j++] = idx[k]; } }
  ASSERT(out == (idx[an] == 0 ? da : db)[horner(src, sa, DIM)], "element of the idx[axis]-th operand");
  OBS(out);
  REACHED();
}
void h_stack(void){ stack_check(0); }
void h_stack_default(void){ stack_check(1); }

/* joins that promote both operands to a common dim PD with shape pa/pb (a row-major reshape) and concatenate along JAX */
static void promoted_join(int which){
  u64 sa[4] = {1,1,1,1}, sb[4] = {1,1,1,1}, pa[4] = {1,1,1,1}, pb[4] = {1,1,1,1}, idx[4], os[4] = {0}, od = 0, ex[4] = {0}, src[4] = {0,0,0,0}; u32 da[CELLS], db[CELLS], out = 0;
  u64 pd, jax, vax;   /* vax: source axis allowed to differ between a and b */
  if (which == 0){ pd = DIM; jax = DIM == 1 ? 0 : 1; vax = jax; }                     /* hstack */
  else if (which == 1){ pd = DIM == 1 ? 2 : DIM; jax = 0; vax = DIM == 1 ? 99 : 0; }  /* vstack: (N,) -> (1,N) */
  else if (which == 2){ pd = DIM < 3 ? 3 : DIM; jax = 2; vax = DIM >= 3 ? 2 : 99; }                   /* dstack: (N,) -> (1,N,1); (M,N) -> (M,N,1) */
  else { pd = DIM == 1 ? 2 : DIM; jax = 1; vax = DIM == 1 ? 99 : 1; }                 /* column_stack: (N,) -> (N,1) */
  in_pair(sa, sb, da, db, vax);
  for (u64 k = 0; k < DIM; k++){
    u64 t = k;
    if (DIM == 1 && (which == 1 || which == 2)) t = 1;
    pa[t] = sa[k]; pb[t] = sb[k];
  }
  for (u64 k = 0; k < 4; k++) ex[k] = k < pd ? ((k == jax) ? pa[k] + pb[k] : pa[k]) : 0;
  in_index(idx, ex, pd, 2*MAXE - 1);
  int r = which == 0 ? CAT(k_hstack, DIM)(sa, da, sb, db, idx, pd, os, &od, &out)
        : which == 1 ? CAT(k_vstack, DIM)(sa, da, sb, db, idx, pd, os, &od, &out)
        : which == 2 ? CAT(k_dstack, DIM)(sa, da, sb, db, idx, pd, os, &od, &out)
        :              CAT(k_column_stack, DIM)(sa, da, sb, db, idx, pd, os, &od, &out);
  ASSERT(r == 1, "join accepted");
  ASSERT(od == pd, "dim of the promoted operands");
  for (u64 k = 0; k < 4; k++) if (k < pd){ ASSERT(os[k] == ex[k], "shape"); src[k] = idx[k]; }
  if (idx[jax] < pa[jax]) ASSERT(out == da[horner(src, pa, pd)], "element of a");
  else { src[jax] = idx[jax] - pa[jax]; ASSERT(out == db[horner(src, pb, pd)], "element of b"); }
  OBS(out);
  REACHED();
}
void h_hstack(void){ promoted_join(0); }
void h_vstack(void){ promoted_join(1); }
void h_dstack(void){ promoted_join(2); }
void h_column_stack(void){ promoted_join(3); }
