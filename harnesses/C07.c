/* C07 (a): element-wise views apply the scalar operation to the operands' elements under NumPy broadcasting (wiring per arity) */
#include "harness.h"
#include "C07_wiring.h"
#ifndef MAXE
#define MAXE 3
#endif
static void in_shape(u64* s, int n){ for (int i = 0; i < n; i++) s[i] = in_u64(1, MAXE); }
static void in_data(u32* d, int n){ for (int i = 0; i < n; i++) d[i] = in_any32(); }
/* NumPy broadcast of two shapes (right aligned): returns 1 iff broadcastable, ex[0..*nd) is the broadcast shape */
static int bcast2(const u64* sa, u64 da, const u64* sb, u64 db, u64* ex, u64* nd){
  u64 n = da > db ? da : db; int ok = 1; *nd = n;
  for (u64 k = 0; k < 4; k++){ ex[k] = 0; if (k < n){
    u64 ea = (k + da >= n) ? sa[k + da - n] : 1, eb = (k + db >= n) ? sb[k + db - n] : 1;
    if (ea != eb && ea != 1 && eb != 1) ok = 0;
    ex[k] = ea == 1 ? eb : ea; } }
  return ok;
}
/* flat (row-major) offset inside an operand of shape s (dim d) that feeds result index idx (dim n >= d): stretched axes read position 0 */
static u64 bsrc(const u64* s, u64 d, const u64* idx, u64 n){
  u64 o = 0; for (u64 k = 0; k < 4; k++) if (k < d){ u64 i = idx[k + n - d]; o = o * s[k] + (s[k] == 1 ? 0 : i); } return o;
}
/* index of length n inside ex, drawn unconditionally; constrained only when `on` */
static void in_index(u64* idx, const u64* ex, u64 n, int on){ for (u64 i = 0; i < 4; i++){ idx[i] = in_u64(0, MAXE - 1); ASSUME(!on || i >= n || idx[i] < ex[i]); } }

/* ---- unary ---- */
void h_negative3(void){
  u64 shape[3], idx[4], os[4] = {0}, od = 0; u32 data[64], out = 0;
  in_shape(shape, 3); in_data(data, MAXE*MAXE*MAXE); in_index(idx, shape, 3, 1);
  int r = k_negative3(shape, data, idx, 3, os, &od, &out);
  ASSERT(r == 1 && od == 3, "unary view has the operand's dim");
  for (int i = 0; i < 3; i++) ASSERT(os[i] == shape[i], "unary view has the operand's shape");
  ASSERT(out == (u32)(0u - data[(idx[0]*shape[1] + idx[1])*shape[2] + idx[2]]), "element i == -a[i] (unsigned: modulo 2^32)");
  OBS(out); REACHED();
}
void h_invert3(void){
  u64 shape[3], idx[4], os[4] = {0}, od = 0; u32 data[64], out = 0;
  in_shape(shape, 3); in_data(data, MAXE*MAXE*MAXE); in_index(idx, shape, 3, 1);
  int r = k_invert3(shape, data, idx, 3, os, &od, &out);
  ASSERT(r == 1 && od == 3, "unary view has the operand's dim");
  for (int i = 0; i < 3; i++) ASSERT(os[i] == shape[i], "unary view has the operand's shape");
  ASSERT(out == ~data[(idx[0]*shape[1] + idx[1])*shape[2] + idx[2]], "element i == ~a[i]");
  OBS(out); REACHED();
}

/* ---- binary, non-commutative, broadcasting ---- */
#define BIN(NAME, KFN, DA, DB, CA, CB) \
void NAME(void){ \
  u64 sa[3], sb[3], idx[4], os[4] = {0}, od = 0, ex[4], nd; u32 da[64], db[64], out = 0; \
  in_shape(sa, DA); in_shape(sb, DB); in_data(da, CA); in_data(db, CB); \
  int ok = bcast2(sa, DA, sb, DB, ex, &nd); \
  in_index(idx, ex, nd, ok); \
  int r = KFN(sa, da, sb, db, idx, nd, os, &od, &out); \
  ASSERT(r == 0 || r == 1, "Nothing or a view"); \
  ASSERT((r == 1) == ok, "accepted iff the shapes are broadcastable (NumPy rule)"); \
  if (r == 1){ ASSERT(od == nd, "dim == max(dim a, dim b)"); \
    for (u64 k = 0; k < 4; k++) if (k < nd) ASSERT(os[k] == ex[k], "shape == NumPy broadcast shape"); \
    ASSERT(out == (u32)(da[bsrc(sa, DA, idx, nd)] - db[bsrc(sb, DB, idx, nd)]), "element i == a[bcast i] - b[bcast i] (operand order kept)"); } \
  OBS(r); OBS(out); REACHED(); }
BIN(h_sub_21, k_sub_21, 2, 1, MAXE*MAXE, MAXE)
BIN(h_sub_12, k_sub_12, 1, 2, MAXE, MAXE*MAXE)
BIN(h_sub_22, k_sub_22, 2, 2, MAXE*MAXE, MAXE*MAXE)

BIN(h_sub_32, k_sub_32, 3, 2, MAXE*MAXE*MAXE, MAXE*MAXE)
/* a view as operand: transpose(a) has shape (c,r) and element (i,j) = a[j][i] */
void h_sub_t21(void){
  u64 sa[2], st[2], sb[1], idx[4], os[4] = {0}, od = 0, ex[4], nd; u32 da[16], db[4], out = 0;
  in_shape(sa, 2); in_shape(sb, 1); in_data(da, MAXE*MAXE); in_data(db, MAXE); st[0] = sa[1]; st[1] = sa[0];
  int ok = bcast2(st, 2, sb, 1, ex, &nd); in_index(idx, ex, nd, ok);
  int r = k_sub_t21(sa, da, sb, db, idx, nd, os, &od, &out);
  ASSERT((r == 1) == ok && (r == 0 || r == 1), "accepted iff transpose(a) and b are broadcastable");
  if (r == 1){ ASSERT(od == 2 && os[0] == ex[0] && os[1] == ex[1], "shape == broadcast(shape(a) reversed, shape(b))");
    u64 ti = st[0] == 1 ? 0 : idx[0], tj = st[1] == 1 ? 0 : idx[1];
    ASSERT(out == (u32)(da[tj*sa[1] + ti] - db[bsrc(sb, 1, idx, 2)]), "element == transpose(a)[bcast i] - b[bcast i]"); }
  OBS(r); OBS(out); REACHED();
}
void h_neg_t2(void){
  u64 sa[2], st[2], idx[4], os[4] = {0}, od = 0; u32 da[16], out = 0;
  in_shape(sa, 2); in_data(da, MAXE*MAXE); st[0] = sa[1]; st[1] = sa[0]; in_index(idx, st, 2, 1);
  int r = k_neg_t2(sa, da, idx, 2, os, &od, &out);
  ASSERT(r == 1 && od == 2 && os[0] == st[0] && os[1] == st[1], "unary view over a view operand keeps the operand's shape");
  ASSERT(out == (u32)(0u - da[idx[1]*sa[1] + idx[0]]), "element == -transpose(a)[i]");
  OBS(out); REACHED();
}
void h_sub_u8_21(void){
  u64 sa[2], sb[1], idx[4], os[4] = {0}, od = 0, ex[4], nd; u8 da[16]; u32 db[4], out = 0;
  in_shape(sa, 2); in_shape(sb, 1); for (int i = 0; i < MAXE*MAXE; i++) da[i] = in_any8(); in_data(db, MAXE);
  int ok = bcast2(sa, 2, sb, 1, ex, &nd); in_index(idx, ex, nd, ok);
  int r = k_sub_u8_21(sa, da, sb, db, idx, nd, os, &od, &out);
  ASSERT((r == 1) == ok && (r == 0 || r == 1), "accepted iff broadcastable");
  if (r == 1){ ASSERT(od == 2 && os[0] == ex[0] && os[1] == ex[1], "broadcast shape");
    ASSERT(out == (u32)((u32)da[bsrc(sa, 2, idx, 2)] - db[bsrc(sb, 1, idx, 2)]), "uint8 (op) unsigned: element == (unsigned)a[bcast i] - b[bcast i]"); }
  OBS(r); OBS(out); REACHED();
}
void h_sub_2s(void){
  u64 sa[2], idx[4], os[4] = {0}, od = 0; u32 da[16], out = 0;
  in_shape(sa, 2); in_data(da, MAXE*MAXE); u32 s = in_any32(); in_index(idx, sa, 2, 1);
  int r = k_sub_2s(sa, da, s, idx, 2, os, &od, &out);
  ASSERT(r == 1 && od == 2 && os[0] == sa[0] && os[1] == sa[1], "array (op) scalar has the array's shape");
  ASSERT(out == (u32)(da[idx[0]*sa[1] + idx[1]] - s), "element i == a[i] - s");
  OBS(out); REACHED();
}
void h_sub_s2(void){
  u64 sa[2], idx[4], os[4] = {0}, od = 0; u32 da[16], out = 0;
  in_shape(sa, 2); in_data(da, MAXE*MAXE); u32 s = in_any32(); in_index(idx, sa, 2, 1);
  int r = k_sub_s2(s, sa, da, idx, 2, os, &od, &out);
  ASSERT(r == 1 && od == 2 && os[0] == sa[0] && os[1] == sa[1], "scalar (op) array has the array's shape");
  ASSERT(out == (u32)(s - da[idx[0]*sa[1] + idx[1]]), "element i == s - a[i]");
  OBS(out); REACHED();
}
void h_sub_ss(void){
  u32 s = in_any32(), t = in_any32();
  u32 r = k_sub_ss(s, t);
  ASSERT(r == (u32)(s - t), "scalar (op) scalar == s - t");
  OBS(r); REACHED();
}

/* ---- ternary ---- */
void h_where_21s(void){
  u64 sc[2], sx[1], idx[4], os[4] = {0}, od = 0, ex[4], nd; u32 dc[16], dx[4], out = 0;
  in_shape(sc, 2); in_shape(sx, 1); in_data(dc, MAXE*MAXE); in_data(dx, MAXE); u32 y = in_any32();
  int ok = bcast2(sc, 2, sx, 1, ex, &nd);
  in_index(idx, ex, nd, ok);
  int r = k_where_21s(sc, dc, sx, dx, y, idx, nd, os, &od, &out);
  ASSERT(r == 0 || r == 1, "Nothing or a view");
  ASSERT((r == 1) == ok, "accepted iff condition, x (and scalar y) are broadcastable");
  if (r == 1){ ASSERT(od == 2 && os[0] == ex[0] && os[1] == ex[1], "shape == NumPy broadcast shape");
    ASSERT(out == (dc[bsrc(sc, 2, idx, 2)] ? dx[bsrc(sx, 1, idx, 2)] : y), "element i == c[bcast i] ? x[bcast i] : y"); }
  OBS(r); OBS(out); REACHED();
}
void h_where_122(void){
  u64 sc[1], sx[2], sy[2], idx[4], os[4] = {0}, od = 0, e1[4], ex[4], n1, nd; u32 dc[4], dx[16], dy[16], out = 0;
  in_shape(sc, 1); in_shape(sx, 2); in_shape(sy, 2); in_data(dc, MAXE); in_data(dx, MAXE*MAXE); in_data(dy, MAXE*MAXE);
  int ok = bcast2(sc, 1, sx, 2, e1, &n1); ok = bcast2(e1, n1, sy, 2, ex, &nd) && ok;
  in_index(idx, ex, nd, ok);
  int r = k_where_122(sc, dc, sx, dx, sy, dy, idx, nd, os, &od, &out);
  ASSERT(r == 0 || r == 1, "Nothing or a view");
  ASSERT((r == 1) == ok, "accepted iff the three operands are mutually broadcastable");
  if (r == 1){ ASSERT(od == 2 && os[0] == ex[0] && os[1] == ex[1], "shape == NumPy broadcast shape of the three operands");
    ASSERT(out == (dc[bsrc(sc, 1, idx, 2)] ? dx[bsrc(sx, 2, idx, 2)] : dy[bsrc(sy, 2, idx, 2)]), "element i == c[bcast i] ? x[bcast i] : y[bcast i]"); }
  OBS(r); OBS(out); REACHED();
}
void h_where_mixed(void){
  u64 sc[1], idx[4], os[4] = {0}, od = 0, out = 0; u32 dc[4], dx[4];
  in_shape(sc, 1); in_data(dc, MAXE); in_data(dx, MAXE); i64 y = (i64)in_bits(); in_index(idx, sc, 1, 1);
#ifdef KF_C07_WHERE_SCALAR
  /* known finding (props/C07.py PENDING_FINDINGS): a scalar operand of where is converted to the other branch's element type (here long -> int) */
  ASSUME(y == (i64)(i32)y);
#endif
  int r = k_where_mixed(sc, dc, dx, (u64)y, idx, 1, os, &od, &out);
  ASSERT(r == 1 && od == 1 && os[0] == sc[0], "where(c[n], x[n], scalar) has shape (n,)");
  ASSERT((i64)out == (dc[idx[0]] ? (i64)(i32)dx[idx[0]] : y), "element i == c[i] ? (long)x[i] : y   (element type long = common type of int and long)");
  OBS(out); REACHED();
}
/* three ARRAY operands of different element types: int and long branches; the element type is long whichever branch holds the long array */
void h_where_mixed_xy(void){
  u64 sc[1], idx[4], os[4] = {0}, od = 0, out = 0; u32 dc[4], dx[4]; u64 dy[4];
  in_shape(sc, 1); in_data(dc, MAXE); in_data(dx, MAXE); for (int i = 0; i < 4; i++) dy[i] = i < MAXE ? in_bits() : 0; in_index(idx, sc, 1, 1);
  int r = k_where_mixed_xy(sc, dc, dx, dy, idx, 1, os, &od, &out);
  ASSERT(r == 18, "where(c[n], int x[n], long y[n]) is accepted and its declared element type is 8 bytes wide (long)");
  ASSERT(od == 1 && os[0] == sc[0], "shape (n,)");
  ASSERT((i64)out == (dc[idx[0]] ? (i64)(i32)dx[idx[0]] : (i64)dy[idx[0]]), "element i == c[i] ? (long)x[i] : y[i]");
  OBS(out); REACHED();
}
void h_where_mixed_yx(void){
  u64 sc[1], idx[4], os[4] = {0}, od = 0, out = 0; u32 dc[4], dy[4]; u64 dx[4];
  in_shape(sc, 1); in_data(dc, MAXE); in_data(dy, MAXE); for (int i = 0; i < 4; i++) dx[i] = i < MAXE ? in_bits() : 0; in_index(idx, sc, 1, 1);
  int r = k_where_mixed_yx(sc, dc, dx, dy, idx, 1, os, &od, &out);
  ASSERT(r == 18, "where(c[n], long x[n], int y[n]) is accepted and its declared element type is 8 bytes wide (long)");
  ASSERT(od == 1 && os[0] == sc[0], "shape (n,)");
  ASSERT((i64)out == (dc[idx[0]] ? (i64)dx[idx[0]] : (i64)(i32)dy[idx[0]]), "element i == c[i] ? x[i] : (long)y[i]");
  OBS(out); REACHED();
}
void h_clip_sss(void){
  u32 t = in_any32(), lo = in_any32(), hi = in_any32();
  u32 r = k_clip_sss(t, lo, hi);
  u32 m = t < lo ? lo : t; m = m > hi ? hi : m;       /* NumPy: minimum(maximum(t, lo), hi) */
  ASSERT(r == m, "clip(t, lo, hi) == min(max(t, lo), hi), also when lo > hi");
  OBS(r); REACHED();
}

/* ---- outer ---- */
#define OUTER(NAME, KFN, DA, DB, CA, CB) \
void NAME(void){ \
  u64 sa[3], sb[3], idx[4], os[4] = {0}, od = 0, ex[4] = {0}; u32 da[64], db[64], out = 0; \
  in_shape(sa, DA); in_shape(sb, DB); in_data(da, CA); in_data(db, CB); \
  for (int k = 0; k < DA; k++) ex[k] = sa[k]; for (int k = 0; k < DB; k++) ex[DA + k] = sb[k]; \
  in_index(idx, ex, DA + DB, 1); \
  int r = KFN(sa, da, sb, db, idx, DA + DB, os, &od, &out); \
  ASSERT(r == 1 && od == DA + DB, "outer: dim == dim(a) + dim(b)"); \
  for (int k = 0; k < DA + DB; k++) ASSERT(os[k] == ex[k], "outer: shape == shape(a) + shape(b)"); \
  u64 oa = 0, ob = 0; for (int k = 0; k < DA; k++) oa = oa * sa[k] + idx[k]; for (int k = 0; k < DB; k++) ob = ob * sb[k] + idx[DA + k]; \
  ASSERT(out == (u32)(da[oa] - db[ob]), "outer: element (i,j) == a[i] - b[j]"); \
  OBS(out); REACHED(); }
OUTER(h_outer_sub_21, k_outer_sub_21, 2, 1, MAXE*MAXE, MAXE)
OUTER(h_outer_sub_12, k_outer_sub_12, 1, 2, MAXE, MAXE*MAXE)
