/* C11: every compile-time trait the library reports for a view type agrees with every run-time object of that type.
 * PROG (program, see C10_dom.h) and KIND (operand static-knowledge kind) are per-query constants (types cannot be symbolic);
 * the run-time shape admitted by the operand type, the data and the program's arguments are symbolic.
 *   KIND H hybrid: every 2-d shape with <= 16 elements       KIND F / C fixed shape (2,3): std::array of std::array / C array
 *   KIND B bounded dim: dim 1..3, <= 16 elements               KIND L clipped shape: extents <= 4, <= 16 elements
 * MASK (per-query constant) records which of the five traits the type reports: bit0 fixed_dim, bit1 fixed_size, bit2 bounded_dim,
 * bit3 bounded_size, bit4 fixed_shape. It is asserted, so the evidence lists per view type what was actually checked; a type with
 * MASK 0 reports nothing and counts as not covered. No capacity hook may fire (obligation from harness.h). */
#include "harness.h"
#include "C10_dom.h"
#define CELLS 16
#define NA ((u64)-1)
#ifndef PROG
#define PROG transpose
#endif
#ifndef KIND
#define KIND H
#endif
#ifndef MASK
#define MASK 0
#endif
#define CAT4_(a,b,c,d) a##b##c##d
#define CAT4(a,b,c,d) CAT4_(a,b,c,d)
#define CAT2_(a,b) a##b
#define CAT2(a,b) CAT2_(a,b)
#define KIND_H 1
#define KIND_F 2
#define KIND_C 3
#define KIND_B 4
#define KIND_L 5
#define KINDV CAT2(KIND_, KIND)
#if KINDV == KIND_H
#include "C11_traits_H.h"
#elif KINDV == KIND_F
#include "C11_traits_F.h"
#elif KINDV == KIND_C
#include "C11_traits_C.h"
#elif KINDV == KIND_B
#include "C11_traits_B.h"
#else
#include "C11_traits_L.h"
#endif
static void in_data(u32* d, int n){ for (int i = 0; i < n; i++) d[i] = in_any32(); }
void h_traits(void){
  u64 shape[3] = {1, 1, 1}, dim = 2, t[9] = {NA, NA, NA, NA, NA, NA, NA, NA, NA}, rt[6] = {0}, ex[4] = {0}, maxidx = 0; u32 data[CELLS], p[16] = {0};
#if KINDV == KIND_H
  shape[0] = in_u64(1, MAXE); shape[1] = in_u64(1, MAXE); ASSUME(shape[0] * shape[1] <= CELLS);   /* MAXE = 16: every shape the type admits */
#elif KINDV == KIND_L
  shape[0] = in_u64(1, 4); shape[1] = in_u64(1, 4);                 /* everything the clipped type admits: extents <= 4 */
#elif KINDV == KIND_B
  dim = in_u64(1, 3); for (int i = 0; i < 3; i++){ shape[i] = in_u64(1, MAXE); if ((u64)i >= dim) shape[i] = 1; }
  ASSUME(shape[0] * shape[1] * shape[2] <= CELLS);
#else
  shape[0] = 2; shape[1] = 3;                                        /* the type fixes the shape */
#endif
  in_data(data, CELLS);
#if KINDV == KIND_B
  (void)ex; (void)maxidx;                                            /* programs of the bounded-dim kind take no arguments */
#else
  u64 nd = CAT2(dom_, PROG)(p, ex, shape[0], shape[1], &maxidx);
#endif
  int r = CAT4(k_tr_, PROG, _, KIND)(shape, dim, data, p, t, rt);
  ASSERT(r == 1, "the view exists");
  u64 rdim = rt[0], rsize = rt[1], prod = 1;
  for (u64 i = 0; i < 4; i++) if (i < rdim) prod *= rt[2 + i];
  ASSERT(rdim <= 4 && rsize == prod, "run-time size == product of the run-time shape");
#if KINDV != KIND_B
  ASSERT(rdim == nd, "run-time dim == NumPy dim");
  for (u64 i = 0; i < 4; i++) if (i < nd) ASSERT(rt[2 + i] == ex[i], "run-time shape == NumPy shape");
#endif
  u32 mask = (t[0] != NA) | (t[1] != NA) << 1 | (t[2] != NA) << 2 | (t[3] != NA) << 3 | (t[4] != NA) << 4;
  ASSERT(mask == MASK, "the set of reported traits is the recorded one");
  if (t[0] != NA) ASSERT(t[0] == rdim, "fixed_dim == run-time dim");
  if (t[1] != NA) ASSERT(t[1] == rsize, "fixed_size == run-time size");
  if (t[2] != NA) ASSERT(rdim <= t[2], "run-time dim <= bounded_dim");
  if (t[3] != NA) ASSERT(rsize <= t[3], "run-time size <= bounded_size");
  if (t[4] != NA){ ASSERT(t[4] == rdim, "len(fixed_shape) == run-time dim"); for (u64 i = 0; i < 4; i++) if (i < rdim) ASSERT(t[5 + i] == rt[2 + i], "fixed_shape == run-time shape"); }
  OBS(r); OBS(mask); OBS(rdim); OBS(rsize);
  REACHED();
}
