/* C07 "dtype" family: "... in the element type the scalar operation yields for the operand element types (or the explicitly requested dtype)",
 * and the same theme for the C04 generators (full / zeros / ones / eye / identity / arange / *_like with and without dtype).
 * Every kernel reports tc[0] = code of the view's DECLARED element type, tc[1] = code of the type operator() returns, and the element at a symbolic
 * index widened to long (outl) or double (outd). The reference is the C expression evaluated in the EXPECTED type R:
 *   no dtype:  R = the type C's usual arithmetic conversions give  a[i] op b[j]   (bool for comparisons)
 *   dtype=T :  R = T, value (T)(a[i] op b[j]). For the 8/16-bit operands used with a dtype the C expression is evaluated exactly in int, so this is also
 *              NumPy's np.<op>(a, b, dtype=T) (operands converted to T, combined in T, modulo 2^bits) */
#include "harness.h"
#include "C07_dtype.def"
/* the kernel source is built once per part; a configuration names its part: -DPART_OUTER / PART_BIN / PART_CMP / PART_MIX / PART_GEN */
#if defined(PART_OUTER)
#include "C07_dtype_outer.h"
#elif defined(PART_BIN)
#include "C07_dtype_bin.h"
#elif defined(PART_CMP)
#include "C07_dtype_cmp.h"
#elif defined(PART_MIX)
#include "C07_dtype_mix.h"
#elif defined(PART_GEN)
#include "C07_dtype_gen.h"
#endif
#ifndef MAXE
#define MAXE 3
#endif
typedef float f32; typedef double f64;
/* storage type of the generated prototypes / C element type / input draw per type name */
#define ST_i8 u8
#define ST_u8 u8
#define ST_i16 u16
#define ST_i32 u32
#define ST_u32 u32
#define ST_i64 u64
#define ST_f32 float
#define ST_f64 double
#define IN_i8() in_any8()
#define IN_u8() in_any8()
#define IN_i16() ((u16)in_bits())
#define IN_i32() in_any32()
#define IN_u32() in_any32()
#define IN_i64() in_bits()
#define IN_f32() in_f32()
#define IN_f64() in_f64()
/* expected result type R for a dtype name; `none` = the type of the C expression */
#define RT_none(e) __typeof__(e)
#define RT_i8(e)  i8
#define RT_u8(e)  u8
#define RT_i16(e) i16
#define RT_i32(e) i32
#define RT_u32(e) u32
#define RT_i64(e) i64
#define RT_f32(e) f32
#define RT_f64(e) f64
#define SGN(e) ((__typeof__(e))-1 < 0)
#define ISFLT(e) ((__typeof__(e))0.5 != 0)
#define CCODE(e) (u32)(ISFLT(e) ? 1000 + (int)sizeof(e) : (SGN(e) ? 100 : 0) + (int)sizeof(e))
#define BOOLCODE 2001u
static inline int eqd(double a, double b){ return (a != a && b != b) || f64_bits(a) == f64_bits(b); }   /* bit for bit, any NaN == any NaN */
/* kernel value == e converted to R (integers: compared as 64-bit patterns of the widened value; floating: widened exactly to double) */
#define EQV(R, e) (ISFLT((R)0) ? eqd(outd, (double)(R)(e)) : ((i64)outl == (i64)(R)(e)))
/* floating results: the single IEEE operation is taken from k_dt_ref_<op>_f32/f64 (bare C++ operator through the same pipeline); the operands are converted to the
 * result type R first, as C's usual arithmetic conversions do. Under -DLL_UF_FLOAT both sides use the same uninterpreted + / - (decides precision, operands, order, conversions). */
#define FREF(op, R, x, y) (sizeof(R) == 4 ? (double)k_dt_ref_##op##_f32((float)(x), (float)(y)) : k_dt_ref_##op##_f64((double)(x), (double)(y)))
#define OP_add(x, y) ((x) + (y))
#define OP_subtract(x, y) ((x) - (y))
#define OP_multiply(x, y) ((x) * (y))
#define OP_bitwise_and(x, y) ((x) & (y))
#define OP_bitwise_or(x, y) ((x) | (y))
#define OP_bitwise_xor(x, y) ((x) ^ (y))
#define OP_left_shift(x, y) ((x) << (y))
#define OP_right_shift(x, y) ((x) >> (y))
#define OP_less(x, y) ((x) < (y))
#define OP_less_equal(x, y) ((x) <= (y))
#define OP_greater(x, y) ((x) > (y))
#define OP_greater_equal(x, y) ((x) >= (y))
#define OP_equal(x, y) ((x) == (y))
#define OP_not_equal(x, y) ((x) != (y))
/* input domain the C++ expression itself requires (undefined otherwise): shifts by 0 <= s < width of the promoted left type; a left shift only of a non-negative value
 * whose result fits: for a left operand narrower than its promoted type s < the number of spare bits, for a 64-bit left operand value < 2^(62-s) */
#define PRE_add(x, y)
#define PRE_subtract(x, y)
#ifndef MULBITS
#define MULBITS 7
#endif
/* multiplication: operands wider than 8 bits hold values of magnitude < 2^MULBITS only (a stated bound: wide symbolic multipliers give no verdict) */
#define PRE_multiply(x, y) ASSUME(sizeof(x) == 1 || ((i64)(x) > -(1ll << MULBITS) && (i64)(x) < (1ll << MULBITS))); ASSUME(sizeof(y) == 1 || ((i64)(y) > -(1ll << MULBITS) && (i64)(y) < (1ll << MULBITS)));
#define PRE_bitwise_and(x, y)
#define PRE_bitwise_or(x, y)
#define PRE_bitwise_xor(x, y)
#define PRE_left_shift(x, y) ASSUME((x) >= 0 && (y) >= 0 && (sizeof(x) < sizeof((x) << (y)) ? (i64)(y) < (i64)(8 * (sizeof((x) << (y)) - sizeof(x))) : ((i64)(y) < 62 && (u64)(x) < (1ull << (62 - ((u64)(y) & 63)))))); 
#define PRE_right_shift(x, y) ASSUME((y) >= 0 && (i64)(y) < (i64)(8 * sizeof((x) >> (y))));
/* -DONLY_DT=<k> restricts a per-dtype harness to one dtype (k = position in DT_LIST: none i8 u8 i16 i32 u32 i64 f32 f64) */
#ifdef ONLY_DT
#define SEL(k) (ONLY_DT == (k))
#else
#define SEL(k) 1
#endif
#define SEL_none SEL(0)
#define SEL_i8 SEL(1)
#define SEL_u8 SEL(2)
#define SEL_i16 SEL(3)
#define SEL_i32 SEL(4)
#define SEL_u32 SEL(5)
#define SEL_i64 SEL(6)
#define SEL_f32 SEL(7)
#define SEL_f64 SEL(8)
#define OUTDECL u64 idx[4] = {0}, os[4] = {0}, od = 0, outl = 0; u32 tc[2] = {0, 0}; double outd = 0
#define RESET() do { os[0] = os[1] = os[2] = os[3] = od = 0; tc[0] = tc[1] = 0; outl = 0; outd = 0; } while (0)
#define OBSALL() do { OBS(tc[0]); OBS(tc[1]); OBS(outl); OBS(f64_bits(outd)); } while (0)
/* NumPy broadcast of two shapes (right aligned) and the operand offset feeding a result index (as in harnesses/C07.c) */
static int bcast2(const u64* sa, u64 da, const u64* sb, u64 db, u64* ex, u64* nd){
  u64 n = da > db ? da : db; int ok = 1; *nd = n;
  for (u64 k = 0; k < 4; k++){ ex[k] = 0; if (k < n){
    u64 ea = (k + da >= n) ? sa[k + da - n] : 1, eb = (k + db >= n) ? sb[k + db - n] : 1;
    if (ea != eb && ea != 1 && eb != 1) ok = 0;
    ex[k] = ea == 1 ? eb : ea; } }
  return ok;
}
static u64 bsrc(const u64* s, u64 d, const u64* idx, u64 n){
  u64 o = 0; for (u64 k = 0; k < 4; k++) if (k < d){ u64 i = idx[k + n - d]; o = o * s[k] + (s[k] == 1 ? 0 : i); } return o;
}
#define TYCHK(R, what) do { ASSERT(tc[0] == CCODE((R)0), "declared element type of " what); ASSERT(tc[1] == CCODE((R)0), "type returned by operator() of " what); } while (0)

#ifdef PART_OUTER
/* ---------------- (3) outer_<op>(a[n], b[m], dtype): shape (n, m), element (i,j) = (dtype)(a[i] op b[j]) ---------------- */
#define OUTER_IN(TA, TB) \
  u64 sa[1], sb[1]; ST_##TA da[4] = {0}; ST_##TB db[4] = {0}; OUTDECL; \
  sa[0] = in_u64(1, MAXE); sb[0] = in_u64(1, MAXE); for (int i = 0; i < MAXE; i++) da[i] = IN_##TA(); for (int i = 0; i < MAXE; i++) db[i] = IN_##TB(); \
  idx[0] = in_u64(0, MAXE - 1); idx[1] = in_u64(0, MAXE - 1); ASSUME(idx[0] < sa[0] && idx[1] < sb[0]); \
  TA x = (TA)da[idx[0]]; TB y = (TB)db[idx[1]];
#define OUTER_ONE(op, TA, TB, DT) if (SEL_##DT){ typedef RT_##DT(OP_##op(x, y)) R; RESET(); \
  u32 r = k_dt_outer_##op##_##TA##_##TB##_##DT(sa, da, sb, db, idx, 2, os, &od, tc, &outl, &outd); \
  ASSERT(r == 1 && od == 2 && os[0] == sa[0] && os[1] == sb[0], "outer_" #op ": shape == shape(a) + shape(b)"); \
  TYCHK(R, "outer_" #op "(" #TA "[n], " #TB "[m], dtype=" #DT ") == the requested dtype (none: C result type)"); \
  ASSERT(EQV(R, OP_##op(x, y)), "outer_" #op "(" #TA ", " #TB ", dtype=" #DT "): element (i,j) == (dtype)(a[i] op b[j])"); OBSALL(); }
#define H_OUTER(op, TA, TB) void h_dtype_outer_##op##_##TA##_##TB(void){ OUTER_IN(TA, TB) DT_LIST(OUTER_ONE, op, TA, TB) REACHED(); }
DT_OUTER_GROUPS(H_OUTER)
#define H_OUTER_S(op, TA, TB) void h_dtype_outer_##op##_##TA##_##TB(void){ OUTER_IN(TA, TB) PRE_##op(x, y) DT_LIST_S(OUTER_ONE, op, TA, TB) REACHED(); }
DT_OUTER_SHIFT_GROUPS(H_OUTER_S)
/* float operands where the requested dtype is the C result type (single IEEE operation, identical C expression) */
#define OUTER_FLT(op, TA, TB, DT, CT) { typedef RT_##DT(0) R; RESET(); \
  u32 r = k_dt_outer_##op##_##TA##_##TB##_##DT(sa, da, sb, db, idx, 2, os, &od, tc, &outl, &outd); \
  ASSERT(r == 1 && od == 2 && os[0] == sa[0] && os[1] == sb[0], "outer_" #op ": shape == shape(a) + shape(b)"); \
  TYCHK(R, "outer_" #op "(" #TA "[n], " #TB "[m], dtype=" #DT ") == the requested dtype"); \
  ASSERT(eqd(outd, (double)(R)FREF(op, CT, x, y)), "outer_" #op "(" #TA ", " #TB ", dtype=" #DT "): element (i,j) == (dtype)(a[i] op b[j]), one IEEE operation in the operands' common type " #CT); OBSALL(); }
void h_dtype_outer_flt_a(void){ OUTER_IN(f32, i16) OUTER_FLT(add, f32, i16, f32, f32) REACHED(); }
void h_dtype_outer_flt_b(void){ OUTER_IN(f64, f32) OUTER_FLT(subtract, f64, f32, f64, f64) REACHED(); }
/* uint8 + float with dtype float64: nmtools evaluates (double)((float)a + b) (NumPy would add in double): the reference is that documented form static_cast<dtype>(a op b);
 * the harness claims the element type and that the value is the float sum widened exactly */
void h_dtype_outer_flt_c(void){ OUTER_IN(u8, f32) OUTER_FLT(add, u8, f32, f64, f32) REACHED(); }
/* 32-bit unsigned operands with a WIDER dtype: NumPy (np.add.outer(a, b, dtype=int64)) converts the operands to the dtype and combines them there */
#define WIDE_ONE(op, DT, REF) { typedef RT_##DT(0) R; RESET(); \
  u32 r = k_dt_outer_##op##_u32_u32_##DT(sa, da, sb, db, idx, 2, os, &od, tc, &outl, &outd); \
  ASSERT(r == 1 && od == 2 && os[0] == sa[0] && os[1] == sb[0], "outer_" #op ": shape == shape(a) + shape(b)"); \
  TYCHK(R, "outer_" #op "(u32[n], u32[m], dtype=" #DT ") == the requested dtype"); \
  ASSERT(EQV(R, REF), "outer_" #op "(u32, u32, dtype=" #DT "): element (i,j) == (dtype)a[i] op (dtype)b[j]  (NumPy: combined IN the requested dtype)"); OBSALL(); }
#ifdef KF_C07_DTYPE_WIDE
#define WIDE_EXCL(c) ASSUME(c)
#else
#define WIDE_EXCL(c)
#endif
void h_dtype_outer_wide(void){ OUTER_IN(u32, u32)
  /* pending finding: the functor computes a op b in the OPERANDS' common type (unsigned: modulo 2^32) and converts afterwards */
  WIDE_EXCL((u64)x + (u64)y <= 0xffffffffull && x >= y);
  WIDE_ONE(add, i64, (i64)x + (i64)y) WIDE_ONE(subtract, i64, (i64)x - (i64)y) WIDE_ONE(add, f64, FREF(add, f64, x, y)) REACHED(); }

#endif
/* ---------------- binary views over broadcast 2-d (op) 1-d operands ---------------- */
/* operand shapes are per-query constants here (-DSA0 -DSA1: the 2-d operand, 1-d operands use SA1; -DSB0: the 1-d right operand): the broadcasting wiring with symbolic
 * shapes is proved once per arity in harnesses/C07.c; the data and the result index are symbolic */
#ifndef SA0
#define SA0 2
#endif
#ifndef SA1
#define SA1 3
#endif
#ifndef SB0
#define SB0 3
#endif
#define NOOVF_G(op, x, y) do { /* the C expression must be defined: a signed integer result of a[i] op b[i] has to fit its (promoted) type */ \
  if (!ISFLT(OP_##op(x, y)) && SGN(OP_##op(x, y)) && !(sizeof(x) < sizeof(OP_##op(x, y)) && sizeof(y) < sizeof(OP_##op(x, y)))){ __int128 w_ = OP_##op((__int128)(x), (__int128)(y)), m_ = (__int128)1 << (8 * sizeof(OP_##op(x, y)) - 1); ASSUME(w_ >= -m_ && w_ < m_); } } while (0)
#define NOOVF_add(x, y) NOOVF_G(add, x, y)
#define NOOVF_subtract(x, y) NOOVF_G(subtract, x, y)
#define NOOVF_left_shift(x, y) NOOVF_G(left_shift, x, y)
#define NOOVF_right_shift(x, y)
#define NOOVF_multiply(x, y)        /* PRE_multiply bounds wide operands to 2^MULBITS: the product fits */
#define NOOVF_bitwise_and(x, y)
#define NOOVF_bitwise_or(x, y)
#define NOOVF_bitwise_xor(x, y)
#define NOOVF(op, x, y) NOOVF_##op(x, y)
#define BIN_IN(TA, TB, DA, DB) \
  u64 sa[2] = {DA == 2 ? SA0 : SA1, SA1}, sb[2] = {SB0, 0}, ex[4], nd; ST_##TA da[16] = {0}; ST_##TB db[16] = {0}; OUTDECL; \
  for (int i = 0; i < (DA == 2 ? SA0*SA1 : SA1); i++) da[i] = IN_##TA(); for (int i = 0; i < SB0; i++) db[i] = IN_##TB(); \
  int ok = bcast2(sa, DA, sb, DB, ex, &nd); \
  for (u64 i = 0; i < 2; i++){ idx[i] = in_u64(0, MAXE - 1); ASSUME(!ok || i >= nd || idx[i] < ex[i]); } \
  TA x = (TA)da[bsrc(sa, DA, idx, nd)]; TB y = (TB)db[bsrc(sb, DB, idx, nd)];
#define BIN_SHAPE(what) \
  ASSERT((r == 1) == ok && (r == 0 || r == 1), what ": accepted iff the operand shapes are broadcastable"); \
  if (r == 1){ ASSERT(od == nd, what ": dim"); for (u64 k = 0; k < 2; k++) if (k < nd) ASSERT(os[k] == ex[k], what ": NumPy broadcast shape"); }
#ifdef PART_BIN
/* (1) functor with the requested result type */
#define BIN_ONE(op, TA, TB, DT) if (SEL_##DT){ typedef RT_##DT(OP_##op(x, y)) R; RESET(); \
  u32 r = k_dt_bin_##op##_##TA##_##TB##_##DT(sa, da, sb, db, idx, nd, os, &od, tc, &outl, &outd); BIN_SHAPE(#op) \
  if (r == 1){ TYCHK(R, #op "_t<none,none," #DT ">(" #TA " 2-d, " #TB " 1-d) == the requested result type (none: C result type)"); \
    ASSERT(EQV(R, OP_##op(x, y)), #op "(" #TA ", " #TB ") with result type " #DT ": element == (dtype)(a[bcast i] op b[bcast i])"); } OBS(r); OBSALL(); }
#define H_BIN(op, TA, TB) void h_dtype_bin_##op##_##TA##_##TB(void){ BIN_IN(TA, TB, 2, 1) NOOVF(op, x, y); DT_LIST(BIN_ONE, op, TA, TB) REACHED(); }
DT_BIN_GROUPS(H_BIN)
/* casting::SAME_KIND: the result keeps the operands' (common) element type, i.e. NumPy's result type for equal dtypes (uint8 + uint8 -> uint8, modulo 256) */
#define SK_ONE(op, T) { typedef T R; RESET(); \
  u32 r = k_dt_sk_##op##_##T(sa, da, sb, db, idx, nd, os, &od, tc, &outl, &outd); BIN_SHAPE(#op " SAME_KIND") \
  if (r == 1){ TYCHK(R, #op "(" #T ", " #T ", casting::SAME_KIND) == the operands' element type"); \
    ASSERT(EQV(R, OP_##op(x, y)), #op "(" #T ", " #T ", SAME_KIND): element == (T)(a[bcast i] op b[bcast i])"); } OBS(r); OBSALL(); }
#define H_SK(op, T) void h_dtype_samekind_##op##_##T(void){ BIN_IN(T, T, 2, 1) NOOVF(op, x, y); SK_ONE(op, T) REACHED(); }
DT_SK_LIST(H_SK)
#endif
#ifdef PART_MIX
/* (5) mixed element types without dtype: the C common type */
#define MIX_ONE(op, TA, TB) { typedef __typeof__(OP_##op(x, y)) R; RESET(); \
  u32 r = k_dt_mix_##op##_##TA##_##TB(sa, da, sb, db, idx, nd, os, &od, tc, &outl, &outd); BIN_SHAPE(#op) \
  if (r == 1){ TYCHK(R, #op "(" #TA " 2-d, " #TB " 1-d) == C result type of " #TA " op " #TB); \
    ASSERT(EQV(R, OP_##op(x, y)), #op "(" #TA ", " #TB "): element == a[bcast i] op b[bcast i] evaluated in the C common type"); } OBS(r); OBSALL(); }
#define H_MIX(op, TA, TB) void h_dtype_mix_##op##_##TA##_##TB(void){ BIN_IN(TA, TB, 2, 1) PRE_##op(x, y) NOOVF(op, x, y); MIX_ONE(op, TA, TB) REACHED(); }
DT_MIX_LIST(H_MIX)
#define MIXF_ONE(op, TA, TB) { typedef __typeof__(OP_##op(x, y)) R; RESET(); \
  u32 r = k_dt_mix_##op##_##TA##_##TB(sa, da, sb, db, idx, nd, os, &od, tc, &outl, &outd); BIN_SHAPE(#op) \
  if (r == 1){ TYCHK(R, #op "(" #TA " 2-d, " #TB " 1-d) == C result type of " #TA " op " #TB); \
    ASSERT(eqd(outd, FREF(op, R, x, y)), #op "(" #TA ", " #TB "): element == (R)a[bcast i] op (R)b[bcast i], one IEEE operation in the C common type R"); } OBS(r); OBSALL(); }
#define H_MIXF(op, TA, TB) void h_dtype_mix_##op##_##TA##_##TB(void){ BIN_IN(TA, TB, 2, 1) MIXF_ONE(op, TA, TB) REACHED(); }
DT_MIXF_LIST(H_MIXF)
#endif
#ifdef PART_CMP
/* (4) comparisons on mixed signed / unsigned operands: element type bool, value = the C comparison after the usual arithmetic conversions
 * (int vs unsigned: the int is converted to unsigned, so -1 < 1u is FALSE; int8/int16 vs unsigned likewise after promotion to int;
 *  long vs unsigned: both converted to long, so -1L < 1u is TRUE; uint8 vs int8: both promoted to int; long vs float: the long is converted to float) */
#define CMP_ONE(op, TA, TB) { RESET(); \
  u32 r = k_dt_cmp_##op##_##TA##_##TB(sa, da, sb, db, idx, nd, os, &od, tc, &outl, &outd); BIN_SHAPE(#op) \
  if (r == 1){ ASSERT(tc[0] == BOOLCODE, "declared element type of " #op "(" #TA ", " #TB ") is bool"); ASSERT(tc[1] == BOOLCODE, "operator() of " #op "(" #TA ", " #TB ") returns bool"); \
    ASSERT((i64)outl == (i64)(OP_##op(x, y)), #op "(" #TA ", " #TB "): element == (a[bcast i] op b[bcast i]) under C's usual arithmetic conversions"); } OBS(r); OBSALL(); }
#define H_CMP(TA, TB) void h_dtype_cmp_##TA##_##TB(void){ BIN_IN(TA, TB, 1, 1) DT_CMP_OPS(CMP_ONE, TA, TB) REACHED(); }
DT_CMP_GROUPS(H_CMP)
#endif

#ifdef PART_GEN
/* ---------------- (6) generators ---------------- */
#define SHAPE2_IN() u64 shape[2]; OUTDECL; shape[0] = in_u64(1, MAXE); shape[1] = in_u64(1, MAXE); \
  idx[0] = in_u64(0, MAXE - 1); idx[1] = in_u64(0, MAXE - 1); ASSUME(idx[0] < shape[0] && idx[1] < shape[1]);
#define SHAPE2_CHK(what) ASSERT(r == 1 && od == 2 && os[0] == shape[0] && os[1] == shape[1], what ": the requested shape")
/* view::full(shape, value): element type = the type of the fill value, every element == value */
#define FULL_ONE(T) { typedef T R; RESET(); ST_##T v = IN_##T(); u32 r = k_dt_full_##T(shape, 2, v, idx, 2, os, &od, tc, &outl, &outd); SHAPE2_CHK("full"); \
  TYCHK(R, "full(shape, " #T " value) == the fill value's type"); ASSERT(EQV(R, (T)v), "full(shape, " #T " value): element == value"); OBSALL(); }
void h_dtype_full(void){ SHAPE2_IN() DT_TYPES(FULL_ONE) REACHED(); }
#define ZO_ONE(T) { typedef T R; RESET(); u32 r = k_dt_zeros_##T(shape, 2, idx, 2, os, &od, tc, &outl, &outd); SHAPE2_CHK("zeros"); \
  TYCHK(R, "zeros(shape, dtype=" #T ") == dtype"); ASSERT(EQV(R, 0), "zeros(shape, " #T "): element == 0"); OBSALL(); \
  RESET(); r = k_dt_ones_##T(shape, 2, idx, 2, os, &od, tc, &outl, &outd); SHAPE2_CHK("ones"); \
  TYCHK(R, "ones(shape, dtype=" #T ") == dtype"); ASSERT(EQV(R, 1), "ones(shape, " #T "): element == 1"); OBSALL(); }
void h_dtype_zeros_ones(void){ SHAPE2_IN() DT_TYPES(ZO_ONE) REACHED(); }
/* eye(n, m, k, dtype): shape (n, m), element (i,j) == (j == i + k) in the requested dtype; identity(n, dtype) = eye(n, n, 0, dtype) */
#define EYE_ONE(T) if (SEL_##T){ typedef T R; RESET(); u32 r = k_dt_eye_##T(n, m, (u32)k, idx, 2, os, &od, tc, &outl, &outd); \
  ASSERT(r == 1 && od == 2 && os[0] == n && os[1] == m, "eye: shape (n, m)"); \
  TYCHK(R, "eye(n, m, k, dtype=" #T ") == dtype"); ASSERT(EQV(R, (i64)idx[1] == (i64)idx[0] + k ? 1 : 0), "eye(..., " #T "): element (i,j) == (j == i + k)"); OBSALL(); }
void h_dtype_eye(void){ OUTDECL; u64 n = in_u64(1, MAXE), m = in_u64(1, MAXE); i32 k = in_i32(-MAXE, MAXE);
  idx[0] = in_u64(0, MAXE - 1); idx[1] = in_u64(0, MAXE - 1); ASSUME(idx[0] < n && idx[1] < m);
  DT_TYPES(EYE_ONE) REACHED(); }
#define IDENT_ONE(T) if (SEL_##T){ typedef T R; RESET(); u32 r = k_dt_identity_##T(n, idx, 2, os, &od, tc, &outl, &outd); \
  ASSERT(r == 1 && od == 2 && os[0] == n && os[1] == n, "identity: shape (n, n)"); \
  TYCHK(R, "identity(n, dtype=" #T ") == dtype"); ASSERT(EQV(R, idx[1] == idx[0] ? 1 : 0), "identity(n, " #T "): element (i,j) == (i == j)"); OBSALL(); }
void h_dtype_identity(void){ OUTDECL; u64 n = in_u64(1, MAXE);
  idx[0] = in_u64(0, MAXE - 1); idx[1] = in_u64(0, MAXE - 1); ASSUME(idx[0] < n && idx[1] < n);
  DT_TYPES(IDENT_ONE) REACHED(); }
/* arange(start, stop, step, dtype) on a non-empty integer grid (empty / very long grids: C04 findings): NumPy computes the elements IN the dtype:
 * element i == (dtype)(start + i*step) (modulo 2^bits for the narrow dtypes; start + i*step is exact in 64 bits here) */
#ifndef RNG
#define RNG 1000
#endif
#ifndef MAXSTEP
#define MAXSTEP 3
#endif
#ifndef MAXLEN
#define MAXLEN 16
#endif
#define ARANGE_IN() OUTDECL; i32 start = in_i32(-RNG, RNG), stop = in_i32(-RNG, RNG), step = in_i32(-MAXSTEP, MAXSTEP); u64 i = in_u64(0, MAXLEN - 1); \
  ASSUME(step != 0); ASSUME(step > 0 ? stop > start : stop < start); \
  i64 span = step > 0 ? (i64)stop - start : (i64)start - stop, as = step > 0 ? step : -(i64)step; u64 len = (u64)((span + as - 1) / as); \
  ASSUME(len <= MAXLEN && i < len);
#define ARANGE_ONE(T) if (SEL_##T){ typedef T R; RESET(); u32 r = k_dt_arange_##T((u32)start, (u32)stop, (u32)step, i, os, &od, tc, &outl, &outd); \
  ASSERT(r == 1 && od == 1 && os[0] == len, "arange: shape (ceil((stop - start) / step),)"); \
  ASSERT(tc[0] == CCODE((R)0), "declared element type of arange(start, stop, step, dtype=" #T ") == dtype"); \
  ARANGE_RET(T) \
  ASSERT((i64)(R)(i64)outl == (i64)(R)((i64)start + (i64)i * step), "arange(..., " #T "): element i converted to the dtype == (dtype)(start + i*step)"); OBSALL(); }
#ifdef KF_C04_ARANGE_RETTYPE
#define ARANGE_RET(T)
#else
#define ARANGE_RET(T) ASSERT(tc[1] == CCODE((R)0), "operator() of arange(..., dtype=" #T ") returns the dtype"); \
  ASSERT((i64)outl == (i64)(R)((i64)start + (i64)i * step), "arange(..., " #T "): element i as returned == (dtype)(start + i*step)");
#endif
void h_dtype_arange_int(void){ ARANGE_IN() DT_ARANGE_TYPES(ARANGE_ONE) REACHED(); }
/* float dtypes (and the default dtype float32): start, step, i are small integers, so start + i*step is exact in float and double */
#define ARANGE_F(T, KFN, what) { typedef T R; RESET(); u32 r = KFN((u32)start, (u32)stop, (u32)step, i, os, &od, tc, &outl, &outd); \
  ASSERT(r == 1 && od == 1 && os[0] == len, "arange: shape"); TYCHK(R, what); \
  ASSERT(EQV(R, (i64)start + (i64)i * step), what ": element i == start + i*step (exact)"); OBSALL(); }
void h_dtype_arange_flt(void){ ARANGE_IN()
#ifdef KF_C04_ARANGE_FLOAT_NEGSTEP
  ASSUME(step > 0);
#endif
  ARANGE_F(f32, k_dt_arange_f32, "arange(start, stop, step, float32)") ARANGE_F(f64, k_dt_arange_f64, "arange(start, stop, step, float64)")
  ARANGE_F(f32, k_dt_arange_default, "arange(start, stop, step) (default dtype float32)") REACHED(); }
/* *_like over a 2-d prototype of element type TA */
#define LIKE_IN(TA) u64 shape[2]; ST_##TA da[16] = {0}; OUTDECL; shape[0] = in_u64(1, MAXE); shape[1] = in_u64(1, MAXE); for (int i = 0; i < MAXE*MAXE; i++) da[i] = IN_##TA(); \
  idx[0] = in_u64(0, MAXE - 1); idx[1] = in_u64(0, MAXE - 1); ASSUME(idx[0] < shape[0] && idx[1] < shape[1]);
#define LRT_none(TA) TA
#define LRT_i8(TA) i8
#define LRT_u8(TA) u8
#define LRT_i16(TA) i16
#define LRT_i32(TA) i32
#define LRT_u32(TA) u32
#define LRT_i64(TA) i64
#define LRT_f32(TA) f32
#define LRT_f64(TA) f64
/* full_like(a, value[, dtype]): element type = dtype, else the prototype's; the fill value is CONVERTED to it (np.full_like(a, v) == np.full(a.shape, v, a.dtype)).
 * integer fill values: conversion to a narrower integer is modulo 2^bits, to float/double rounds to nearest */
#define FULL_LIKE_ONE(TA, TV, DT) void h_dtype_full_like_##TA##_##TV##_##DT(void){ LIKE_IN(TA) typedef LRT_##DT(TA) R; ST_##TV v = IN_##TV(); \
  u32 r = k_dt_full_like_##TA##_##TV##_##DT(shape, da, v, idx, 2, os, &od, tc, &outl, &outd); SHAPE2_CHK("full_like"); \
  TYCHK(R, "full_like(" #TA " a, " #TV " value, dtype=" #DT ") == dtype (none: a's element type)"); \
  ASSERT(EQV(R, (TV)v), "full_like(" #TA ", " #TV ", " #DT "): element == the fill value converted to the result element type"); OBSALL(); REACHED(); }
DT_FULL_LIKE_LIST(FULL_LIKE_ONE)
#define LIKE_ONE(TA, DT) void h_dtype_zeros_ones_like_##TA##_##DT(void){ LIKE_IN(TA) typedef LRT_##DT(TA) R; \
  u32 r = k_dt_zeros_like_##TA##_##DT(shape, da, idx, 2, os, &od, tc, &outl, &outd); SHAPE2_CHK("zeros_like"); \
  TYCHK(R, "zeros_like(" #TA " a, dtype=" #DT ") == dtype (none: a's element type)"); ASSERT(EQV(R, 0), "zeros_like: element == 0"); OBSALL(); RESET(); \
  r = k_dt_ones_like_##TA##_##DT(shape, da, idx, 2, os, &od, tc, &outl, &outd); SHAPE2_CHK("ones_like"); \
  TYCHK(R, "ones_like(" #TA " a, dtype=" #DT ") == dtype (none: a's element type)"); ASSERT(EQV(R, 1), "ones_like: element == 1"); OBSALL(); REACHED(); }
DT_LIKE_LIST(LIKE_ONE)
/* the forms with the dtype parameter defaulted */
void h_dtype_like_default(void){ LIKE_IN(i16) u64 v = in_bits(); float fa[16] = {0}; for (int i = 0; i < MAXE*MAXE; i++) fa[i] = in_f32();
  { typedef i16 R; u32 r = k_dt_full_like_i16_i64_default(shape, da, v, idx, 2, os, &od, tc, &outl, &outd); SHAPE2_CHK("full_like"); TYCHK(R, "full_like(int16 a, long v)"); ASSERT(EQV(R, (i64)v), "full_like(int16 a, long v): element == (int16)v"); OBSALL(); RESET();
    r = k_dt_zeros_like_i16_default(shape, da, idx, 2, os, &od, tc, &outl, &outd); SHAPE2_CHK("zeros_like"); TYCHK(R, "zeros_like(int16 a)"); ASSERT(EQV(R, 0), "zeros_like(int16 a): 0"); OBSALL(); RESET(); }
  { typedef f32 R; u32 r = k_dt_ones_like_f32_default(shape, fa, idx, 2, os, &od, tc, &outl, &outd); SHAPE2_CHK("ones_like"); TYCHK(R, "ones_like(float a)"); ASSERT(EQV(R, 1), "ones_like(float a): 1.0f"); OBSALL(); }
  REACHED(); }
#endif
