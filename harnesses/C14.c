/* C14: functor[attrs](operands) == every curry split == extracted composition(operands) == fn::apply(composition, extracted operands)
 * == the direct view; compositions f*g; extracted operands are the addresses of the original leaves.
 * Every kernel observes NV variants of the same array expression at the same symbolic index; variant 0 is the direct view, which is
 * additionally pinned to the NumPy shape/element so that the index ranges over the whole result. */
#include "harness.h"
#include "C14_functor.h"
#ifndef MAXE
#define MAXE 3
#endif
#define CELLS 16
#define MAXV 8
static void in_shape(u64* s, int n){ for (int i = 0; i < n; i++) s[i] = in_u64(1, MAXE); }
static void in_data(u32* d, int n){ for (int i = 0; i < n; i++) d[i] = in_any32(); }
static void in_index(u64* idx, const u64* ex, u64 nd, u64 maxidx){ for (u64 i = 0; i < 4; i++){ idx[i] = i < nd ? in_u64(0, maxidx) : 0; ASSUME(i < nd ? idx[i] < ex[i] : 1); } }
static u64 norm(i32 v, u64 n){ return v < 0 ? (u64)(v + (i32)n) : (u64)v; }
#define LOCALS u64 shape[2], idx[4] = {0}, ex[4] = {0}, dims[MAXV] = {0}, shapes[4*MAXV] = {0}; u32 data[CELLS], p[8] = {0}, rc[MAXV] = {0}, vals[MAXV] = {0}, same[4] = {0}; \
  in_shape(shape, 2); in_data(data, MAXE*MAXE); u64 n0 = shape[0], n1 = shape[1], numel = n0 * n1; (void)numel;
#define OUTS idx, nd, rc, dims, shapes, vals
/* all nv variants exist, have the expected dim/shape, and give the same element as the direct view (variant 0) */
static void agree(int r, int nv, const u64* ex, u64 nd, const u32* rc, const u64* dims, const u64* shapes, const u32* vals){
  ASSERT(r == nv, "all variants were built");
  for (int k = 0; k < MAXV; k++) if (k < nv){
    ASSERT(rc[k] == 1, "variant exists and the index is inside its shape");
    ASSERT(dims[k] == nd, "variant dim == NumPy dim");
    for (u64 i = 0; i < 4; i++) if (i < nd) ASSERT(shapes[4*k + i] == ex[i], "variant shape == NumPy shape");
    ASSERT(vals[k] == vals[0], "variant element == direct view element");
    OBS(vals[k]);
  }
}
static void in_perm2(u32* p){ i32 a = in_i32(0, 1); p[0] = (u32)a; p[1] = (u32)(1 - a); }

void h_fn_transpose(void){ LOCALS; u64 nd = 2; in_perm2(p);
  ex[0] = shape[p[0]]; ex[1] = shape[p[1]]; in_index(idx, ex, nd, MAXE - 1);
  int r = k_fn_transpose(shape, data, p, OUTS, same); agree(r, 4, ex, nd, rc, dims, shapes, vals);
  u64 src[2]; src[p[0]] = idx[0]; src[p[1]] = idx[1];
  ASSERT(vals[0] == data[src[0]*n1 + src[1]], "NumPy transpose element");
  ASSERT(same[0] == 1, "extracted operand is the address of the leaf array"); REACHED(); }
void h_fn_reshape(void){ LOCALS; u64 nd = 2;
  i32 d0 = in_i32(-1, MAXE*MAXE), d1 = in_i32(-1, MAXE*MAXE); ASSUME(d0 != 0 && d1 != 0 && !(d0 == -1 && d1 == -1));
  p[0] = (u32)d0; p[1] = (u32)d1;
  ex[0] = d0 == -1 ? numel / (u64)d1 : (u64)d0; ex[1] = d1 == -1 ? numel / (u64)d0 : (u64)d1; ASSUME(ex[0] * ex[1] == numel);
  in_index(idx, ex, nd, MAXE*MAXE - 1);
  int r = k_fn_reshape(shape, data, p, OUTS, same); agree(r, 4, ex, nd, rc, dims, shapes, vals);
  ASSERT(vals[0] == data[idx[0]*ex[1] + idx[1]], "NumPy reshape element");
  ASSERT(same[0] == 1, "extracted operand is the address of the leaf array"); REACHED(); }
void h_fn_flip(void){ LOCALS; u64 nd = 2; i32 ax = in_i32(-2, 1); p[0] = (u32)ax;
  ex[0] = n0; ex[1] = n1; in_index(idx, ex, nd, MAXE - 1);
  int r = k_fn_flip(shape, data, p, OUTS, same); agree(r, 4, ex, nd, rc, dims, shapes, vals);
  u64 i = norm(ax, 2) == 0 ? n0 - 1 - idx[0] : idx[0], j = norm(ax, 2) == 1 ? n1 - 1 - idx[1] : idx[1];
  ASSERT(vals[0] == data[i*n1 + j], "NumPy flip element");
  ASSERT(same[0] == 1, "extracted operand is the address of the leaf array"); REACHED(); }
void h_fn_slice(void){ LOCALS; u64 nd = 2;
  i32 b0 = in_i32(0, MAXE - 1), e0 = in_i32(1, MAXE), s0 = in_i32(1, 2), b1 = in_i32(0, MAXE - 1), e1 = in_i32(1, MAXE);
  ASSUME(b0 < e0 && (u64)e0 <= n0 && b1 < e1 && (u64)e1 <= n1);    /* non-empty selections (empty ones: open finding of C05) */
  p[0] = (u32)b0; p[1] = (u32)e0; p[2] = (u32)s0; p[3] = (u32)b1; p[4] = (u32)e1;
  ex[0] = (u64)((e0 - b0 + s0 - 1) / s0); ex[1] = (u64)(e1 - b1); in_index(idx, ex, nd, MAXE - 1);
  int r = k_fn_slice(shape, data, p, OUTS, same); agree(r, 4, ex, nd, rc, dims, shapes, vals);
  ASSERT(vals[0] == data[((u64)b0 + idx[0]*(u64)s0)*n1 + (u64)b1 + idx[1]], "Python slice element");
  ASSERT(same[0] == 1, "extracted operand is the address of the leaf array"); REACHED(); }
void h_fn_invert(void){ LOCALS; u64 nd = 2;
  ex[0] = n0; ex[1] = n1; in_index(idx, ex, nd, MAXE - 1);
  int r = k_fn_invert(shape, data, p, OUTS, same); agree(r, 4, ex, nd, rc, dims, shapes, vals);
  ASSERT(vals[0] == ~data[idx[0]*n1 + idx[1]], "invert element");
  ASSERT(same[0] == 1, "extracted operand is the address of the leaf array"); REACHED(); }
#ifndef VAR
#define VAR 1
#endif
#define CAT3_(a,b,c) a##b##_##c
#define CAT3(a,b,c) CAT3_(a,b,c)
/* VAR (per-query constant) selects the variant compared with the direct view: 1 fn(a,b), 2 fn(a)(b), 3 extracted f(a,b), 4 extracted f(a)(b), 5 fn::apply(f, extracted operands) */
#define BIN(NAME, OP) void h_fn_##NAME(void){ LOCALS; u32 db[CELLS]; in_data(db, MAXE*MAXE); u64 nd = 2; \
  ex[0] = n0; ex[1] = n1; in_index(idx, ex, nd, MAXE - 1); \
  int r = CAT3(k_fn_, NAME, VAR)(shape, data, db, OUTS, same); agree(r, 2, ex, nd, rc, dims, shapes, vals); \
  u64 g = idx[0]*n1 + idx[1]; ASSERT(vals[0] == (u32)(data[g] OP db[g]), "element == a " #OP " b (operand order)"); \
  ASSERT(same[0] == 1 && same[1] == 1, "extracted operands are the addresses of the leaves, in order"); REACHED(); }
BIN(add, +)
BIN(subtract, -)
/* reduction: VAR 1 fn::sum[axis](a), 2 fn::reduce_add[axis](a), 3 extracted composition(a), 4 fn::apply(composition, extracted operands) */
void h_fn_sum(void){ LOCALS; u64 nd = 1; i32 ax = in_i32(-2, 1); p[0] = (u32)ax; u64 an = norm(ax, 2);
  ex[0] = an == 0 ? n1 : n0; in_index(idx, ex, nd, MAXE - 1);
  int r = CAT3(k_fn_, sum, VAR)(shape, data, p, OUTS, same); agree(r, 2, ex, nd, rc, dims, shapes, vals);
  u32 acc = 0; for (u64 k = 0; k < MAXE; k++) if (k < shape[an]) acc += an == 0 ? data[k*n1 + idx[0]] : data[idx[0]*n1 + k];
  ASSERT(vals[0] == acc, "NumPy sum over axis");
  ASSERT(same[0] == 1, "extracted operand is the address of the leaf array"); REACHED(); }
/* (f*g)(a) == f(g(a)) == flip(transpose(a)) == extracted composition; f = flip[axis], g = transpose[axes] */
static void ref_flip_transpose(const u32* p, i32 ax, const u64* shape, const u64* idx, u64* src){
  u64 e0 = shape[p[0]], e1 = shape[p[1]], i = idx[0], j = idx[1];
  if (norm(ax, 2) == 0) i = e0 - 1 - i; else j = e1 - 1 - j;
  src[p[0]] = i; src[p[1]] = j; }
void h_comp2(void){ LOCALS; u64 nd = 2, src[2]; in_perm2(p); i32 ax = in_i32(-2, 1); p[2] = (u32)ax;
  ex[0] = shape[p[0]]; ex[1] = shape[p[1]]; in_index(idx, ex, nd, MAXE - 1);
  int r = k_comp2(shape, data, p, OUTS, same); agree(r, 5, ex, nd, rc, dims, shapes, vals);
  ref_flip_transpose(p, ax, shape, idx, src);
  ASSERT(vals[0] == data[src[0]*n1 + src[1]], "NumPy flip(transpose(a)) element");
  ASSERT(same[0] == 1, "extracted operand is the address of the leaf array"); REACHED(); }
/* f*(g*h) == (f*g)*h == f*g*h == f(g(h(a))) == invert(flip(transpose(a))) */
void h_comp3(void){ LOCALS; u64 nd = 2, src[2]; in_perm2(p); i32 ax = in_i32(-2, 1); p[2] = (u32)ax;
  ex[0] = shape[p[0]]; ex[1] = shape[p[1]]; in_index(idx, ex, nd, MAXE - 1);
  int r = k_comp3(shape, data, p, OUTS, same); agree(r, 6, ex, nd, rc, dims, shapes, vals);
  ref_flip_transpose(p, ax, shape, idx, src);
  ASSERT(vals[0] == ~data[src[0]*n1 + src[1]], "NumPy invert(flip(transpose(a))) element");
  ASSERT(same[0] == 1, "extracted operand is the address of the leaf array"); REACHED(); }
/* 4-functor chain, every parenthesisation incl. (f*g)*(h*k): invert(flip(transpose(flip(a, ax2)), ax)) */
void h_comp4(void){ LOCALS; u64 nd = 2, src[2]; in_perm2(p); i32 ax = in_i32(-2, 1); p[2] = (u32)ax; i32 ax2 = in_i32(-2, 1); p[3] = (u32)ax2;
  ex[0] = shape[p[0]]; ex[1] = shape[p[1]]; in_index(idx, ex, nd, MAXE - 1);
  int r = k_comp4(shape, data, p, OUTS, same); agree(r, 7, ex, nd, rc, dims, shapes, vals);
  ref_flip_transpose(p, ax, shape, idx, src);                     /* index into flip(a, ax2) */
  if (norm(ax2, 2) == 0) src[0] = n0 - 1 - src[0]; else src[1] = n1 - 1 - src[1];
  ASSERT(vals[0] == ~data[src[0]*n1 + src[1]], "NumPy invert(flip(transpose(flip(a)))) element"); REACHED(); }
void h_comp_sum(void){ LOCALS; u64 nd = 1; i32 ax = in_i32(-2, 1); p[0] = (u32)ax; u64 an = norm(ax, 2);
  ex[0] = an == 0 ? n1 : n0; in_index(idx, ex, nd, MAXE - 1);
  int r = k_comp_sum(shape, data, p, OUTS, same); agree(r, 2, ex, nd, rc, dims, shapes, vals);
  u32 acc = 0; for (u64 k = 0; k < MAXE; k++) if (k < shape[an]) acc += ~(an == 0 ? data[k*n1 + idx[0]] : data[idx[0]*n1 + k]);
  ASSERT(vals[0] == acc, "NumPy sum(invert(a), axis)");
  ASSERT(same[0] == 1, "extracted operand is the address of the leaf array"); REACHED(); }
/* binary functor inside a composition */
#define COMPB(NAME, REF) void h_compb_##NAME(void){ LOCALS; u32 db[CELLS]; in_data(db, MAXE*MAXE); u64 nd = 2; \
  ex[0] = n0; ex[1] = n1; in_index(idx, ex, nd, MAXE - 1); \
  int r = k_compb_##NAME(shape, data, db, OUTS, same); agree(r, 2, ex, nd, rc, dims, shapes, vals); \
  u64 g = idx[0]*n1 + idx[1]; u32 x = data[g], y = db[g]; ASSERT(vals[0] == (u32)(REF), "element == " #REF); \
  ASSERT(same[0] == 1 && same[1] == 1, "extracted operands are the addresses of the leaves, in order"); REACHED(); }
COMPB(inner, ~(x - y))
COMPB(inner_curry, ~(x - y))
COMPB(outer, ~x - y)
COMPB(extract, ~x - y)
COMPB(extract_apply, ~x - y)
/* first operand a non-ufunc view: flip(a, 1) - b */
void h_compb_extract_apply_flip(void){ LOCALS; u32 db[CELLS]; in_data(db, MAXE*MAXE); u64 nd = 2;
  ex[0] = n0; ex[1] = n1; in_index(idx, ex, nd, MAXE - 1);
  int r = k_compb_extract_apply_flip(shape, data, db, OUTS, same); agree(r, 2, ex, nd, rc, dims, shapes, vals);
  u32 x = data[idx[0]*n1 + (n1 - 1 - idx[1])], y = db[idx[0]*n1 + idx[1]]; ASSERT(vals[0] == (u32)(x - y), "element == flip(a,1)[i] - b[i]");
  ASSERT(same[0] == 1 && same[1] == 1, "extracted operands are the addresses of the leaves, in order"); REACHED(); }
/* the sub-view is the SECOND operand: b - ~a. Known finding (props/C14.py): a function composition is a linear chain whose intermediate result always becomes the
 * FIRST operand of the next functor, so the extracted composition subtract*invert applied to the extracted operands (b, a) computes ~b - a. */
void h_compb_extract_second(void){ LOCALS; u32 db[CELLS]; in_data(db, MAXE*MAXE); u64 nd = 2;
  ex[0] = n0; ex[1] = n1; in_index(idx, ex, nd, MAXE - 1);
  u64 g = idx[0]*n1 + idx[1]; u32 x = data[g], y = db[g];
#ifdef KF_C14_NESTED_SECOND_OPERAND
  ASSUME((u32)(~y - x) == (u32)(y - ~x));      /* region of the finding: wherever the mis-associated value differs from the view's */
#endif
  int r = k_compb_extract_second(shape, data, db, OUTS, same); agree(r, 2, ex, nd, rc, dims, shapes, vals);
  ASSERT(vals[0] == (u32)(y - ~x), "element == b[i] - ~a[i]");
  ASSERT(same[0] == 2, "two extracted operands"); REACHED(); }
void h_extract_repeated(void){ u64 shape[2]; u32 da[CELLS], db[CELLS], same[4] = {0}; in_shape(shape, 2); in_data(da, MAXE*MAXE); in_data(db, MAXE*MAXE);
  int r = k_extract_repeated(shape, da, db, same);
  ASSERT(r == 1, "view exists"); ASSERT(same[0] == 3, "one extracted operand per leaf occurrence");
  ASSERT(same[1] == 1 && same[2] == 1 && same[3] == 1, "operands of (a+b)-a are &a, &b, &a"); OBS(r); REACHED(); }
