/* C05: slicing follows Python/NumPy basic-indexing semantics.
 * Reference model: CPython's PySlice_AdjustIndices (Objects/sliceobject.c) + the None defaults of PySlice_Unpack:
 *   step None -> 1; start None -> 0 (step>0) / n-1 (step<0); stop None -> n (step>0) / -1 (step<0, i.e. "before the first");
 *   negative bounds += n, then clamped to [0,n] (step>0) or [-1,n-1] (step<0);
 *   len = step>0 ? (stop>start ? (stop-start-1)/step+1 : 0) : (start>stop ? (start-stop-1)/(-step)+1 : 0);
 *   element k of the selection is source element start' + k*step.
 */
#include "harness.h"
#if defined(H_VIEW1) || defined(H_VIEWFAM)
#include "C05_view.h"
#elif defined(H_FAM) || defined(H_DYN) || defined(H_FAMSAME)
#include "C05_fam.h"
#else
#include "C05_slice.h"
#endif
/* every harness function is compiled only when its H_<NAME> macro is set (props/C05.py adds it to every configuration), so that the native
   builds only reference the kernels of the selected instantiation */
#ifndef MAXN
#define MAXN 6
#endif
#define CAT2(a,b) a##b
#define CAT(a,b) CAT2(a,b)
#define STR2(a) #a
#define STR(a) STR2(a)

typedef struct { i64 len, first, step, stop; } pys_t;   /* first/stop: the adjusted (normalised, clamped) bounds */
static pys_t py_slice(i64 n, int hs, i64 st, int hp, i64 sp, int he, i64 se){
  pys_t r; if (!he) se = 1;
  i64 lo, hi; if (se > 0){ lo = 0; hi = n; } else { lo = -1; hi = n - 1; }
  if (!hs) st = se > 0 ? 0 : n - 1; else if (st < 0){ st += n; if (st < lo) st = lo; } else if (st > hi) st = hi;
  if (!hp) sp = se > 0 ? n : -1;    else if (sp < 0){ sp += n; if (sp < lo) sp = lo; } else if (sp > hi) sp = hi;
  r.first = st; r.step = se; r.stop = sp;
  if (se > 0) r.len = sp > st ? (sp - st - 1) / se + 1 : 0; else r.len = st > sp ? (st - sp - 1) / (-se) + 1 : 0;
  return r;
}
/* Regions of the open findings (see props/C05.py PENDING_FINDINGS). Each is a predicate over the slice as written by the user. */
/* (1) the selection is empty in Python because the adjusted stop lies strictly before the adjusted start in walking direction
 *     (empty selections with adjusted start == stop come out right) */
static int kf_empty(pys_t py){ return py.len == 0 && py.first != py.stop; }
/* (2) a bound that Python clamps: start < -n, start > n (start == n too when walking backwards), stop < -n */
static int kf_clamp(i64 n, int hs, i64 st, int hp, i64 sp, int he, i64 se){ return (hs && (st < -n || st > n || (he && se < 0 && st == n))) || (hp && sp < -n); }
/* (3) negative step together with an explicit stop (only "non-negative start, stop == 0" is handled) */
static int kf_negstep(int hs, i64 st, int hp, i64 sp, int he, i64 se){ return he && se < 0 && hp && !(hs && st >= 0 && sp == 0); }
/* (4) negative start together with no stop or with a stop in 1..n-1 */
static int kf_negstart(i64 n, int hs, i64 st, int hp, i64 sp){ return hs && st < 0 && (!hp || (sp > 0 && sp < n)); }
static void kf_exclude(i64 n, int hs, i64 st, int hp, i64 sp, int he, i64 se, pys_t py){
#ifdef KF_C05_EMPTY
  ASSUME(!kf_empty(py));
#endif
#ifdef KF_C05_CLAMP
  ASSUME(!kf_clamp(n, hs, st, hp, sp, he, se));
#endif
#ifdef KF_C05_NEGSTEP
  ASSUME(!kf_negstep(hs, st, hp, sp, he, se));
#endif
#ifdef KF_C05_NEGSTART
  ASSUME(!kf_negstart(n, hs, st, hp, sp));
#endif
}

/* ---- one axis, one (start,stop,step) None/int pattern per query: PAT names the instantiation, HS/HP/HE say which parts are integers ---- */
#ifndef PAT
#define PAT iii
#define HS 1
#define HP 1
#define HE 1
#endif
#ifndef PFXS           /* kernel family: k_shape1_/k_index1_ (packed), k_dshape1_/k_dindex1_ (list of tuples) */
#define PFXS k_shape1_
#define PFXI k_index1_
#endif
static void in_slice1(u64* n, i32* st, i32* sp, i32* se){
  *n = in_u64(1, MAXN);
  *st = in_i32(-(MAXN+2), MAXN+2); *sp = in_i32(-(MAXN+2), MAXN+2); *se = in_i32(-3, 3);
  ASSUME(*se != 0);
#ifdef FIXSP      /* the stop is a constant of the instantiation (Last = -1) */
  ASSUME(*sp == FIXSP);
#endif
#ifdef UNSIGNED   /* unsigned (size_t) parts */
  ASSUME(*st >= 0 && *sp >= 0 && *se > 0);
#endif
  ASSUME(*st >= -(i64)*n - 2 && *st <= (i64)*n + 2 && *sp >= -(i64)*n - 2 && *sp <= (i64)*n + 2);
}
#ifdef H_PACKED1
void h_packed1(void){
  u64 n; i32 st, sp, se; in_slice1(&n, &st, &sp, &se);
  u64 k = in_u64(0, MAXN-1);
  pys_t py = py_slice((i64)n, HS, st, HP, sp, HE, se);
  kf_exclude((i64)n, HS, st, HP, sp, HE, se, py);
  u64 got = CAT(PFXS,PAT)(n, (u32)st, (u32)sp, (u32)se);
  ASSERT(got == (u64)py.len, "extent == Python slice length");
  OBS(got);
  if (k < (u64)py.len){
    u64 src = CAT(PFXI,PAT)(n, (u32)st, (u32)sp, (u32)se, k);
    ASSERT(src == (u64)(py.first + (i64)k * py.step), "element k is source element start' + k*step");
    OBS(src);
  }
  REACHED();
}
#endif

/* ---- differential: two encodings of the same slice give the same extent and the same source index, on the WHOLE domain
 *      (no finding region is excluded here: both sides share compute_range/compute_index) ---- */
#ifndef DAS
#define DAS k_shape1_iii
#define DAI k_index1_iii
#define DBS k_dshape1_a3
#define DBI k_dindex1_a3
#endif
#ifdef H_SAME1
void h_same1(void){
  u64 n; i32 st, sp, se; in_slice1(&n, &st, &sp, &se);
  u64 k = in_u64(0, 2*MAXN+4);
  u64 a = DAS(n, (u32)st, (u32)sp, (u32)se), b = DBS(n, (u32)st, (u32)sp, (u32)se);
  ASSERT(a == b, "both encodings give the same extent");
  OBS(a);
  if (k < a){
    u64 x = DAI(n, (u32)st, (u32)sp, (u32)se, k), y = DBI(n, (u32)st, (u32)sp, (u32)se, k);
    ASSERT(x == y, "both encodings give the same source index");
    OBS(x);
  }
  REACHED();
}
#endif

/* ---- 2 and 3 axes: families of integers (i), slices (s, all three parts integers) and at most one ellipsis (e) ----
 * FAM names the packed instantiation (per-query constant); the dynamic encoding takes the kinds as run-time values. */
#ifndef FAM
#define FAM ss
#define DIM 2
#endif
#ifndef MAXF
#define MAXF 4
#endif
#define MAXI 4   /* items */
typedef struct { u64 od; u64 ex[3]; i64 first[3], stp[3]; int kept[3]; int ok; } ref_t;
/* NumPy reference for a basic index on a DIM-axis shape: kinds[j] 0 int, 1 slice, 2 ellipsis; p = one triple per item.
 * Also applies the input domain (ASSUME) of every item and the open-finding exclusions of every slice item. */
static ref_t np_index(const u64* shape, const int* kinds, int ni, const i32* p){
  ref_t r; r.od = 0; r.ok = 1; int ax = 0;
  for (int a = 0; a < 3; a++){ r.ex[a] = 0; r.first[a] = 0; r.stp[a] = 0; r.kept[a] = -1; }
  int ne = 0; for (int j = 0; j < MAXI; j++) if (j < ni && kinds[j] == 2) ne++;
  for (int j = 0; j < MAXI; j++) if (j < ni){
    if (kinds[j] == 2){
      int fill = DIM - (ni - 1);
      for (int f = 0; f < 3; f++) if (f < fill){ r.ex[r.od] = shape[ax]; r.first[ax] = 0; r.stp[ax] = 1; r.kept[ax] = (int)r.od; r.od++; ax++; }
    } else if (kinds[j] == 0){
      i64 n = (i64)shape[ax], v = p[3*j];
      ASSUME(v >= -n && v < n);                 /* NumPy raises IndexError outside; not part of the property */
      r.first[ax] = v < 0 ? v + n : v; r.stp[ax] = 0; r.kept[ax] = -1; ax++;
    } else {
      i64 n = (i64)shape[ax]; i64 st = p[3*j], sp = p[3*j+1], se = p[3*j+2];
      ASSUME(se != 0 && st >= -n - 2 && st <= n + 2 && sp >= -n - 2 && sp <= n + 2);
      pys_t py = py_slice(n, 1, st, 1, sp, 1, se);
      kf_exclude(n, 1, st, 1, sp, 1, se, py);
      r.ex[r.od] = (u64)py.len; r.first[ax] = py.first; r.stp[ax] = py.step; r.kept[ax] = (int)r.od; r.od++; ax++;
    }
  }
  /* NumPy: axes not addressed by any item are taken whole (a[1:2] on a 2-d array is a[1:2, :]) */
  for (int f = 0; f < 3; f++) if (ax < DIM){ r.ex[r.od] = shape[ax]; r.first[ax] = 0; r.stp[ax] = 1; r.kept[ax] = (int)r.od; r.od++; ax++; r.ok = 0; }
#ifdef KF_C05_SHORT
  ASSUME(r.ok);        /* open finding: fewer items than axes and no ellipsis */
#endif
  (void)ne;
  return r;
}
static void in_parts(i32* p){ for (int j = 0; j < MAXI; j++){ p[3*j] = in_i32(-(MAXF+2), MAXF+2); p[3*j+1] = in_i32(-(MAXF+2), MAXF+2); p[3*j+2] = in_i32(-3, 3); } }
static int fam_kinds(int* kinds){ const char* d = STR(FAM); int ni = (int)sizeof(STR(FAM)) - 1; for (int j = 0; j < MAXI; j++) kinds[j] = j < ni ? (d[j] == 'i' ? 0 : d[j] == 's' ? 1 : 2) : 0; return ni; }
#define FSHAPE CAT(CAT(CAT(k_fshape,DIM),_),FAM)
#define FINDEX CAT(CAT(CAT(k_findex,DIM),_),FAM)
#ifndef LISTK
#define LISTK
#endif
#define DSHAPE CAT(CAT(k_dynshape,DIM),LISTK)
#define DINDEX CAT(CAT(k_dynindex,DIM),LISTK)

#ifdef H_FAM
void h_fam(void){
  u64 shape[3] = {1,1,1}, idx[3] = {0,0,0}, os[3] = {0,0,0}, src[3] = {0,0,0}; i32 p[3*MAXI]; int kinds[MAXI];
  for (int a = 0; a < DIM; a++) shape[a] = in_u64(1, MAXF);
  in_parts(p);
  for (int a = 0; a < 3; a++) idx[a] = in_u64(0, MAXF-1);
  int ni = fam_kinds(kinds);
  ref_t r = np_index(shape, kinds, ni, p);
  u64 od = FSHAPE(shape, (u32*)p, os);
  ASSERT(od == r.od, "result dim: integers drop their axis, the ellipsis expands to the missing axes");
  for (int a = 0; a < 3; a++) if ((u64)a < r.od){ ASSERT(os[a] == r.ex[a], "extent of every kept axis == Python slice length"); OBS(os[a]); }
#ifndef NOIDX
  int valid = 1; for (int a = 0; a < 3; a++) if ((u64)a < r.od && idx[a] >= r.ex[a]) valid = 0;
  if (valid){
    u64 sd = FINDEX(shape, (u32*)p, idx, src);
    ASSERT(sd == DIM, "source index has the source dim");
    for (int a = 0; a < DIM; a++){ ASSERT(src[a] == (u64)(r.first[a] + (r.kept[a] >= 0 ? (i64)idx[r.kept[a]] * r.stp[a] : 0)), "source index: start' + k*step per kept axis, the integer on dropped axes"); OBS(src[a]); }
  }
#endif
  REACHED();
}
#endif

/* dynamic encoding (list of either<int, either<array<int,3>, ellipsis>>): the item kinds are run-time values of ONE instantiation;
 * CONSTK: they are the per-query constant FAM (all families are enumerated by props/C05.py); otherwise symbolic */
static int in_kinds(int* kinds){
  int ni = (int)in_u64(1, DIM+1), ne = 0, nn = 0;
  for (int j = 0; j < MAXI; j++){ kinds[j] = (int)in_u64(0, 2); if (j < ni){ if (kinds[j] == 2) ne++; else nn++; } }
  ASSUME(ne <= 1 && nn <= DIM && (ne == 1 || nn == DIM));     /* at most one ellipsis; without one, one item per axis */
  return ni;
}
#ifdef H_DYN
static void dyn_check(const u64* shape, const int* kinds, const i32* p, const u64* idx, int ni){
  u64 os[4] = {0,0,0,0}, src[4] = {0,0,0,0};
  ref_t r = np_index(shape, kinds, ni, p);
  u64 od = DSHAPE(shape, (u32*)kinds, (u32*)p, (u64)ni, os);
  ASSERT(od == r.od, "result dim");
  for (int a = 0; a < 3; a++) if ((u64)a < r.od){ ASSERT(os[a] == r.ex[a], "extent of every kept axis == Python slice length"); OBS(os[a]); }
  int valid = r.od >= 1; for (int a = 0; a < 3; a++) if ((u64)a < r.od && idx[a] >= r.ex[a]) valid = 0;
  if (valid){
    u64 sd = DINDEX(shape, (u32*)kinds, (u32*)p, (u64)ni, idx, r.od, src);
    ASSERT(sd == DIM, "source index has the source dim");
    for (int a = 0; a < DIM; a++){ ASSERT(src[a] == (u64)(r.first[a] + (r.kept[a] >= 0 ? (i64)idx[r.kept[a]] * r.stp[a] : 0)), "source index"); OBS(src[a]); }
  }
}
void h_dyn(void){
  u64 shape[3] = {1,1,1}, idx[3] = {0,0,0}; i32 p[3*MAXI]; int kinds[MAXI];
  for (int a = 0; a < DIM; a++) shape[a] = in_u64(1, MAXF);
  in_parts(p);
  for (int a = 0; a < 3; a++) idx[a] = in_u64(0, MAXF-1);
#ifdef CONSTK
  int ni = fam_kinds(kinds);        /* item kinds are the per-query constant FAM */
#ifdef SHORTNS
  /* FAM has one item per axis; a symbolic choice drops the last item (fewer items than axes: NumPy takes the last axis whole).
     Two calls with constant item counts (a symbolic count runs into a CBMC imprecision, see props/C05.py) */
  if (in_u64(0, 1)) dyn_check(shape, kinds, p, idx, (int)sizeof(STR(FAM)) - 2); else dyn_check(shape, kinds, p, idx, (int)sizeof(STR(FAM)) - 1);
#else
  dyn_check(shape, kinds, p, idx, ni);
#endif
#else
  int ni = in_kinds(kinds);
  dyn_check(shape, kinds, p, idx, ni);
#endif
  REACHED();
}
#endif

/* ---- view level: shape and ELEMENTS of view::apply_slice / view::slice over a hybrid array with symbolic data ---- */
static void in_cells(u32* d, int n){ for (int i = 0; i < n; i++) d[i] = in_any32(); }
#define VS1 CAT(k_vslice1_,PAT)
#ifdef H_VIEW1
void h_view1(void){
  u64 n; i32 st, sp, se; in_slice1(&n, &st, &sp, &se);
  u64 k = in_u64(0, MAXN-1), os[2] = {0,0}, od = 0; u32 data[8], out = 0;
  in_cells(data, MAXN);
  pys_t py = py_slice((i64)n, HS, st, HP, sp, HE, se);
  kf_exclude((i64)n, HS, st, HP, sp, HE, se, py);
  int inside = k < (u64)py.len;
  int r = VS1(&n, data, (u32)st, (u32)sp, (u32)se, &k, inside ? 1 : 0, os, &od, &out);
  ASSERT(r == (inside ? 1 : 2), "slice view exists");
  ASSERT(od == 1 && os[0] == (u64)py.len, "view shape == (Python slice length,)");
  if (inside){ ASSERT(out == data[py.first + (i64)k * py.step], "view element k == source element start' + k*step"); OBS(out); }
  OBS(os[0]);
  REACHED();
}
#endif
#if DIM == 2
#define VCELLS 16
#else
#define VCELLS 27
#endif
#define VSF CAT(CAT(CAT(k_vslice,DIM),_),FAM)
#define VAP CAT(k_vapply,DIM)
#ifdef H_VIEWFAM
static void h_viewcommon(int dyn){
  u64 shape[3] = {1,1,1}, idx[3] = {0,0,0}, os[4] = {0,0,0,0}, od = 0; i32 p[3*MAXI]; int kinds[MAXI]; u32 data[VCELLS], out = 0;
  for (int a = 0; a < DIM; a++) shape[a] = in_u64(1, MAXF);
  in_parts(p);
  for (int a = 0; a < 3; a++) idx[a] = in_u64(0, MAXF-1);
  in_cells(data, VCELLS);
  int ni = fam_kinds(kinds);
  ref_t r = np_index(shape, kinds, ni, p);
  int valid = r.od >= 1; for (int a = 0; a < 3; a++) if ((u64)a < r.od && idx[a] >= r.ex[a]) valid = 0;
  int rc;
#ifdef CONSTK
  rc = VAP(shape, data, (u32*)kinds, (u32*)p, (u64)ni, idx, valid ? r.od : 7, os, &od, &out);
#else
  rc = VSF(shape, data, (u32*)p, idx, valid ? r.od : 7, os, &od, &out);
#endif
  (void)dyn;
  ASSERT(rc == (valid ? 1 : 2), "slice view exists");
  ASSERT(od == r.od, "view dim");
  for (int a = 0; a < 3; a++) if ((u64)a < r.od){ ASSERT(os[a] == r.ex[a], "view shape == Python slice lengths of the kept axes"); OBS(os[a]); }
  if (valid){
    u64 off = 0; for (int a = 0; a < DIM; a++) off = off * shape[a] + (u64)(r.first[a] + (r.kept[a] >= 0 ? (i64)idx[r.kept[a]] * r.stp[a] : 0));
    ASSERT(out == data[off], "view element == source element at start' + k*step per kept axis, the integer on dropped axes");
    OBS(out);
  }
  REACHED();
}
void h_viewfam(void){ h_viewcommon(0); }
#endif

/* ---- large extents: n up to 2^31-3 (so that n+2 fits the int parts), start/stop symbolic over [-(n+2), n+2], the step is the per-query constant STEP.
 *      Decides the slice-length arithmetic (ceiling division, the former float rounding beyond 2^24) and the index arithmetic at a symbolic position. ---- */
#ifdef H_BIG1
#ifndef BIGN
#define BIGN 2147483645
#endif
#ifndef STEP
#define STEP 1
#endif
void h_big1(void){
  u64 n = in_u64(1, BIGN);
  i32 st = in_i32(-(i64)BIGN - 2, (i64)BIGN + 2), sp = in_i32(-(i64)BIGN - 2, (i64)BIGN + 2), se = STEP;
  ASSUME(st >= -(i64)n - 2 && st <= (i64)n + 2 && sp >= -(i64)n - 2 && sp <= (i64)n + 2);
  u64 k = in_u64(0, BIGN);
  pys_t py = py_slice((i64)n, HS, st, HP, sp, HE, se);
  kf_exclude((i64)n, HS, st, HP, sp, HE, se, py);
  u64 got = CAT(PFXS,PAT)(n, (u32)st, (u32)sp, (u32)se);
  ASSERT(got == (u64)py.len, "extent == Python slice length");
  OBS(got);
  if (k < (u64)py.len){
    u64 src = CAT(PFXI,PAT)(n, (u32)st, (u32)sp, (u32)se, k);
    ASSERT(src == (u64)(py.first + (i64)k * py.step), "element k is source element start' + k*step");
    OBS(src);
  }
  REACHED();
}
#endif

/* ---- differential on 2-3 axes, NO finding region excluded: the packed instantiation FAM and the dynamic encoding with the same item kinds agree ---- */
#ifdef H_FAMSAME
void h_famsame(void){
  u64 shape[3] = {1,1,1}, idx[3] = {0,0,0}, osa[4] = {0,0,0,0}, osb[4] = {0,0,0,0}, sa[4] = {0,0,0,0}, sb[4] = {0,0,0,0}; i32 p[3*MAXI]; int kinds[MAXI];
  for (int a = 0; a < DIM; a++) shape[a] = in_u64(1, MAXF);
  in_parts(p);
  for (int j = 0; j < MAXI; j++) ASSUME(p[3*j+2] != 0);
  for (int a = 0; a < 3; a++) idx[a] = in_u64(0, 2*MAXF+4);
  int ni = fam_kinds(kinds);
  u64 oda = FSHAPE(shape, (u32*)p, osa), odb = DSHAPE(shape, (u32*)kinds, (u32*)p, (u64)ni, osb);
  ASSERT(oda == odb, "same result dim");
  int valid = oda >= 1 && oda <= 3;
  for (int a = 0; a < 3; a++) if ((u64)a < oda){ ASSERT(osa[a] == osb[a], "same extents"); OBS(osa[a]); if (idx[a] >= osa[a]) valid = 0; }
  if (valid){
    u64 da = FINDEX(shape, (u32*)p, idx, sa), db = DINDEX(shape, (u32*)kinds, (u32*)p, (u64)ni, idx, oda, sb);
    ASSERT(da == db, "same source dim");
    for (int a = 0; a < DIM; a++){ ASSERT(sa[a] == sb[a], "same source index"); OBS(sa[a]); }
  }
  REACHED();
}
#endif
