/* C08 index level: index::remove_dims and index::reduction_slices against their definitions; dim 1..4, extents any 64-bit value, axes positive or negative */
#include "harness.h"
#include "C08_index.h"
static i64 norm(i32 a, u64 n){ return a < 0 ? (i64)a + (i64)n : (i64)a; }
static void in_shape(u64* s){ for (int i = 0; i < 4; i++) s[i] = in_bits(); }
/* definition: drop (or, with keepdims, set to 1) the extents of the axes in mask */
static u64 ref_remove(const u64* shape, u64 n, u32 mask, int keep, u64* ex){
  u64 m = 0; for (int k = 0; k < 4; k++) ex[k] = 0;
  for (u64 k = 0; k < 4; k++) if (k < n){ if ((mask >> k) & 1){ if (keep) ex[m++] = 1; } else ex[m++] = shape[k]; }
  return m;
}
#define RD1(NAME, CALL, KEEP) void NAME(void){ u64 shape[4], out[4] = {0}, ex[4]; in_shape(shape); u64 n = in_u64(1, 4); i32 ax = in_i32(-4, 3); \
  ASSUME((i64)ax >= -(i64)n && (i64)ax < (i64)n); u32 m = 1u << norm(ax, n); \
  u64 r = CALL; u64 e = ref_remove(shape, n, m, KEEP, ex); \
  ASSERT(r == e, "remove_dims: result dim"); for (u64 k = 0; k < 4; k++) if (k < e) ASSERT(out[k] == ex[k], "remove_dims: reduced axis dropped (or 1 with keepdims), others kept in order"); \
  OBS(r); REACHED(); }
RD1(h_rd_axis_f, k_rd_axis_f(shape, n, (u32)ax, out), 0)
RD1(h_rd_axis_t, k_rd_axis_t(shape, n, (u32)ax, out), 1)
#define RD4(NAME, CALL, KEEP) void NAME(void){ u64 shape[4], out[4] = {0}, ex[4]; in_shape(shape); u64 n = 4; i32 ax = in_i32(-4, 3); u32 m = 1u << norm(ax, n); \
  u64 r = CALL; u64 e = ref_remove(shape, n, m, KEEP, ex); \
  ASSERT(r == e, "remove_dims: result dim"); for (u64 k = 0; k < 4; k++) if (k < e) ASSERT(out[k] == ex[k], "remove_dims on a fixed-dim shape"); OBS(r); REACHED(); }
void h_rd_axis_rt(void){ u64 shape[4], out[4] = {0}, ex[4]; in_shape(shape); u64 n = in_u64(1, 4); i32 ax = in_i32(-4, 3); int keep = (int)in_u32(0, 1);
  ASSUME((i64)ax >= -(i64)n && (i64)ax < (i64)n); u32 m = 1u << norm(ax, n);
#ifdef KF_C08_REMOVE_DIMS_RT_KEEPDIMS
  /* known finding (props/C08.py PENDING_FINDINGS): with keepdims a run-time bool the result type is sized for keepdims == false (bound - 1 entries);
   * keepdims == true on a shape that uses the whole bound needs one entry more: refused resize + write past the buffer */
  ASSUME(!(keep && n == 4));
#endif
  u64 r = k_rd_axis_rt(shape, n, (u32)ax, (u32)keep, out); u64 e = ref_remove(shape, n, m, keep, ex);
  ASSERT(r == e, "remove_dims (run-time keepdims): result dim"); for (u64 k = 0; k < 4; k++) if (k < e) ASSERT(out[k] == ex[k], "remove_dims (run-time keepdims): shape");
  OBS(r); REACHED(); }
RD4(h_rd_arr4_axis_f, k_rd_arr4_axis_f(shape, (u32)ax, out), 0)
RD4(h_rd_arr4_axis_t, k_rd_arr4_axis_t(shape, (u32)ax, out), 1)
#define RD2(NAME, CALL, KEEP) void NAME(void){ u64 shape[4], out[4] = {0}, ex[4]; u32 axes[2]; in_shape(shape); u64 n = in_u64(2, 4); i32 a0 = in_i32(-4, 3), a1 = in_i32(-4, 3); \
  ASSUME((i64)a0 >= -(i64)n && (i64)a0 < (i64)n && (i64)a1 >= -(i64)n && (i64)a1 < (i64)n && norm(a0, n) != norm(a1, n)); axes[0] = (u32)a0; axes[1] = (u32)a1; \
  u32 m = (1u << norm(a0, n)) | (1u << norm(a1, n)); u64 r = CALL; u64 e = ref_remove(shape, n, m, KEEP, ex); \
  ASSERT(r == e, "remove_dims (two axes): result dim"); for (u64 k = 0; k < 4; k++) if (k < e) ASSERT(out[k] == ex[k], "remove_dims (two axes, any order / sign)"); OBS(r); REACHED(); }
RD2(h_rd_axes2_f, k_rd_axes2_f(shape, n, axes, out), 0)
RD2(h_rd_axes2_t, k_rd_axes2_t(shape, n, axes, out), 1)
void h_rd_none_t(void){ u64 shape[4], out[4] = {0}; in_shape(shape); u64 n = in_u64(1, 4);
  u64 r = k_rd_none_t(shape, n, out);
  ASSERT(r == n, "remove_dims(None, keepdims): dim kept"); for (u64 k = 0; k < 4; k++) if (k < n) ASSERT(out[k] == 1, "every extent becomes 1"); OBS(r); REACHED(); }

/* reduction_slices definition: reduced axes take the whole extent [0, shape[k]); the others the single position of the result index.
 * The result index has one entry per non-reduced axis (and, with keepdims, an ignored entry at each reduced axis). */
#define RS(NAME, CALL, NAXES, KEEP) void NAME(void){ u64 shape[4], idx[4], out[8] = {0}, rs[4]; u32 axes[2] = {0, 0}; in_shape(shape); u64 n = in_u64(NAXES, 4); \
  i32 a0 = in_i32(-4, 3), a1 = in_i32(-4, 3); ASSUME((i64)a0 >= -(i64)n && (i64)a0 < (i64)n); u32 m = 1u << norm(a0, n); \
  if (NAXES == 2){ ASSUME((i64)a1 >= -(i64)n && (i64)a1 < (i64)n && norm(a0, n) != norm(a1, n)); m |= 1u << norm(a1, n); } axes[0] = (u32)a0; axes[1] = (u32)a1; \
  u64 nr = ref_remove(shape, n, m, KEEP, rs); \
  for (u64 k = 0; k < 4; k++){ idx[k] = in_bits(); ASSUME(k >= nr || idx[k] < rs[k]); } \
  u64 r = CALL; ASSERT(r == n, "reduction_slices: one slice per source axis"); \
  u64 j = 0; for (u64 k = 0; k < 4; k++) if (k < n){ \
    if ((m >> k) & 1){ ASSERT(out[2*k] == 0 && out[2*k+1] == shape[k], "reduced axis: whole extent"); if (KEEP) j++; } \
    else { ASSERT(out[2*k] == idx[j] && out[2*k+1] == idx[j] + 1, "kept axis: exactly the position of the result index"); j++; } } \
  OBS(r); REACHED(); }
RS(h_rs_axis_f, k_rs_axis_f(idx, nr, shape, n, axes[0], out), 1, 0)
RS(h_rs_axis_t, k_rs_axis_t(idx, nr, shape, n, axes[0], out), 1, 1)
RS(h_rs_axes2_f, k_rs_axes2_f(idx, nr, shape, n, axes, out), 2, 0)
RS(h_rs_axes2_t, k_rs_axes2_t(idx, nr, shape, n, axes, out), 2, 1)
