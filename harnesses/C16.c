/* C16: linear-algebra routines equal their mathematical definitions.
 * Shapes: index::shape_matmul fully symbolic against NumPy's matmul shape rule.
 * Elements: operand SHAPES are per-query constants (macros NA,A0..A2 / NB,B0..B2), the uint8 data of both operands and the
 * output index are symbolic. With 8-bit wrap-around arithmetic two different multilinear forms with 0/1 coefficients differ on
 * some 0/1 assignment, so equality for all data pins down exactly which products are summed. */
#include "harness.h"
#include "C16_util.h"
#ifdef V2
#include "C16_matmulv2.h"
#define KMM(a,b) CAT(CAT(k_matmulv2_,a),b)
#else
#include "C16_matmul.h"
#define KMM(a,b) CAT(CAT(k_matmul_,a),b)
#endif

#ifndef V2
#ifndef MAXE
#define MAXE 4
#endif
#ifndef MIND
#define MIND 1
#endif
void h_shape_matmul(void){
  u64 a[4], b[4], o[4] = {0}, no = 0, e[5] = {0}, ne = 0;
  u64 na = in_u64(MIND, 4); for (int i = 0; i < 4; i++) a[i] = in_u64(1, MAXE);
  u64 nb = in_u64(MIND, 4); for (int i = 0; i < 4; i++) b[i] = in_u64(1, MAXE);
  int ok = np_matmul_shape(a, na, b, nb, e, &ne);
  int r = k_shape_matmul(a, na, b, nb, o, &no);
  ASSERT((r != 0) == ok, "shape_matmul accepts iff contracted extents agree and batch axes broadcast");
  if (r){ ASSERT(no == ne, "dim of np.matmul"); for (u64 i = 0; i < 4; i++) if (i < ne) ASSERT(o[i] == e[i], "extent of np.matmul (batch broadcast, 1-d promotion removed)"); }
  OBS(r); OBS(no); OBS(o[0]); OBS(o[3]);
  REACHED();
}
#endif

#ifdef NA
void h_matmul_el(void){
  u64 sa[3] = {A0, A1, A2}, sb[3] = {B0, B1, B2}, e[5] = {0}, ne = 0, idx[4], os[4] = {0}, od = 0; u8 da[16], db[16], out = 0;
  u64 ca = numel(sa, NA), cb = numel(sb, NB);
  in_data8(da, 16); in_data8(db, 16);
  int ok = np_matmul_shape(sa, NA, sb, NB, e, &ne);
  ASSERT(ok, "query shapes are compatible");
  for (u64 i = 0; i < 4; i++){ idx[i] = in_u64(0, 3); ASSUME(i < ne ? idx[i] < e[i] : idx[i] == 0); }
  int r = KMM(NA,NB)(sa, da, sb, db, idx, ne, os, &od, &out);
  ASSERT(r == 1, "matmul of compatible operands has a value");
  ASSERT(od == ne, "dim"); for (u64 i = 0; i < 4; i++) if (i < ne) ASSERT(os[i] == e[i], "shape of np.matmul");
  /* definition: out[batch.., i, j] = sum_k a[batch_a.., i, k] * b[batch_b.., k, j]; 1-d operands promoted */
  u64 nbat = ne - (NA >= 2 ? 1 : 0) - (NB >= 2 ? 1 : 0);
  u64 i_ = NA >= 2 ? idx[nbat] : 0, j_ = NB >= 2 ? idx[ne-1] : 0;
  u64 K_ = sa[NA-1];
  u64 pa = 0, pb = 0;                         /* batch offsets (row-major), size-1 batch axes broadcast */
  for (u64 t = 0; t + 2 < NA; t++){ u64 ri = t + nbat - (NA - 2); pa = pa * sa[t] + (sa[t] == 1 ? 0 : idx[ri]); }
  for (u64 t = 0; t + 2 < NB; t++){ u64 ri = t + nbat - (NB - 2); pb = pb * sb[t] + (sb[t] == 1 ? 0 : idx[ri]); }
  u64 arow = NA >= 2 ? sa[NA-2] : 1, bcol = NB >= 2 ? sb[NB-1] : 1;
  u8 acc = 0;
  for (u64 k = 0; k < 4; k++) if (k < K_) acc = (u8)(acc + (u8)(da[(pa*arow + i_)*K_ + k] * db[(pb*K_ + k)*bcol + j_]));
  ASSERT(out == acc, "element == sum_k a[..,i,k]*b[..,k,j] (mod 256) over exactly the contracted range");
  (void)ca; (void)cb;
  OBS(out); OBS(os[0]);
  REACHED();
}
#ifndef V2   /* the mixed-type kernels exist in the view::matmul (v1) translation unit only */
/* mixed element types: uint8 @ uint16 (WIDE=1: uint16 @ uint8); uint16 values are 256 + byte. The result element type is the common type uint16 (NumPy: uint8 @ uint16 -> uint16), the element the sum of products mod 2^16 */
void h_matmul_mixed(void){
  u64 sa[3] = {A0, A1, 1}, sb[3] = {B0, B1, 1}, idx[4] = {0}, os[4] = {0}, od = 0, esz = 0; u8 da[16], db[16]; u32 out = 0;
  in_data8(da, 16); in_data8(db, 16);
  idx[0] = in_u64(0, 3); idx[1] = in_u64(0, 3); ASSUME(idx[0] < A0 && idx[1] < B1);
#if WIDE
  int r = k_matmul_mixed_wn(sa, da, sb, db, idx, 2, os, &od, &out, &esz);
#else
  int r = k_matmul_mixed_nw(sa, da, sb, db, idx, 2, os, &od, &out, &esz);
#endif
  ASSERT(r == 1 && od == 2 && os[0] == A0 && os[1] == B1, "shape of np.matmul");
  ASSERT(esz == 2, "the element type of the product is the common type of both operands' element types (uint16, as NumPy: not the narrower operand's)");
  u32 acc = 0;
  for (u64 k = 0; k < 4; k++) if (k < A1){ u32 x = da[idx[0]*A1 + k], y = db[k*B1 + idx[1]];
#if WIDE
    x += 256;
#else
    y += 256;
#endif
    acc += x * y; }
  ASSERT(out == (u32)(u16)acc, "element == sum_k a[i,k]*b[k,j] in the common type uint16 (mod 2^16, as NumPy)");
  OBS(out); OBS(esz); REACHED();
}
#endif
#endif
