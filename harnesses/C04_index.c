/* C04, index level: shape functions and destination->source index maps on bounded run-time shapes whose dimension (1..4) is itself symbolic */
#include "harness.h"
#include "C04_index.h"
#ifndef MAXE
#define MAXE 6
#endif
#ifndef MAXR
#define MAXR 3
#endif
#ifndef MAXW
#define MAXW 2
#endif
static u64 in_dim(void){ return in_u64(1, 4); }
static void in_shape4(u64* s, u64 hi){ for (int i = 0; i < 4; i++) s[i] = in_u64(1, hi); }
static void in_idx4(u64* idx, const u64* shape, u64 n, u64 hi){ for (u64 i = 0; i < 4; i++){ u64 v = in_u64(0, hi); idx[i] = i < n ? v : 0; ASSUME(i < n ? v < shape[i] : 1); } }
static i64 pymod(i64 a, i64 n){ i64 r = a % n; return r < 0 ? r + n : r; }

void h_ix_tile(void){
  u64 shape[4], reps[4], ex[4] = {0}, idx[4], os[4] = {0}, src[4] = {0};
  u64 d = in_dim(), nr = in_dim(); in_shape4(shape, MAXE); in_shape4(reps, MAXR);
  u64 rd = d > nr ? d : nr;
  for (u64 k = 0; k < 4; k++) if (k < rd){ i64 ai = (i64)k - (i64)(rd - d), bi = (i64)k - (i64)(rd - nr); ex[k] = (ai >= 0 ? shape[ai] : 1) * (bi >= 0 ? reps[bi] : 1); }
  ASSERT(k_ix_shape_tile(shape, d, reps, nr, os) == rd, "dim == max(ndim, len(reps))");
  for (u64 k = 0; k < 4; k++) if (k < rd) ASSERT(os[k] == ex[k], "shape == padded shape * padded reps");
  in_idx4(idx, ex, rd, MAXE*MAXR - 1);
  ASSERT(k_ix_tile(shape, d, reps, nr, idx, rd, src) == d, "source index has the source dimension");
  for (u64 k = 0; k < 4; k++) if (k < rd){ i64 ai = (i64)k - (i64)(rd - d); if (ai >= 0) ASSERT(src[ai] == idx[k] % shape[ai], "source index == index mod source extent (right aligned)"); }
  OBS(os[0]); OBS(src[0]);
  REACHED();
}
void h_ix_repeat(void){
  u64 shape[4], ex[4], idx[4], os[4] = {0}, src[4] = {0};
  u64 d = in_dim(); in_shape4(shape, MAXE); u64 rep = in_u64(1, MAXR), ax = in_u64(0, 3); ASSUME(ax < d);
  for (u64 k = 0; k < 4; k++) ex[k] = shape[k] * (k == ax ? rep : 1);
  ASSERT(k_ix_shape_repeat(shape, d, rep, ax, os) == d, "dim kept");
  for (u64 k = 0; k < 4; k++) if (k < d) ASSERT(os[k] == ex[k], "shape[axis] *= repeats");
  in_idx4(idx, ex, d, MAXE*MAXR - 1);
  ASSERT(k_ix_repeat(shape, d, idx, rep, ax, src) == d, "dim");
  for (u64 k = 0; k < 4; k++) if (k < d) ASSERT(src[k] == (k == ax ? idx[k] / rep : idx[k]), "source index == index / repeats along axis");
  OBS(os[0]); OBS(src[0]);
  REACHED();
}
void h_ix_roll(void){
  u64 shape[4], idx[4], os[4] = {0}, src[4] = {0}, no = 0;
  u64 d = in_dim(); in_shape4(shape, MAXE); u64 ax = in_u64(0, 3); ASSUME(ax < d);
  i32 sh = in_i32(-2*MAXE, 2*MAXE); ASSUME(sh >= -2*(i32)shape[ax] && sh <= 2*(i32)shape[ax]);
  ASSERT(k_ix_shape_roll(shape, d, (u32)sh, (u32)ax, os, &no) == 1 && no == d, "valid axis accepted, dim kept");
  for (u64 k = 0; k < 4; k++) if (k < d) ASSERT(os[k] == shape[k], "shape kept");
  in_idx4(idx, shape, d, MAXE - 1);
#ifdef KF_C04_ROLL_BIGSHIFT
  ASSUME(!((i64)idx[ax] - sh < -(i64)shape[ax] || (i64)idx[ax] - sh >= 2*(i64)shape[ax]));
#endif
  ASSERT(k_ix_roll(shape, d, idx, (u32)sh, ax, src) == d, "dim");
  for (u64 k = 0; k < 4; k++) if (k < d) ASSERT(src[k] == (k == ax ? (u64)pymod((i64)idx[k] - sh, (i64)shape[k]) : idx[k]), "source index == (index - shift) mod n along axis");
  OBS(src[0]);
  REACHED();
}
void h_ix_pad(void){
  u64 shape[4], w[8], ex[4], idx[4], os[4] = {0}, src[4] = {0}, no = 0;
  u64 d = in_dim(), nw = in_u64(1, 8); in_shape4(shape, MAXE);
  for (int i = 0; i < 8; i++) w[i] = in_u64(0, MAXW);
  int r = k_ix_shape_pad(shape, d, w, nw, os, &no);
  ASSERT((r == 1) == (nw == 2*d), "widths accepted iff there are 2*dim of them");
  if (nw == 2*d){
    ASSERT(no == d, "dim kept");
    for (u64 k = 0; k < 4; k++){ ex[k] = k < d ? shape[k] + w[k] + w[d + k] : 1; if (k < d) ASSERT(os[k] == ex[k], "shape[k] == before + n + after"); }
  } else for (u64 k = 0; k < 4; k++) ex[k] = 1;
  in_idx4(idx, ex, d, MAXE + 2*MAXW - 1);
  if (nw == 2*d){
    int inside = 1;
    for (u64 k = 0; k < 4; k++) if (k < d && (idx[k] < w[k] || idx[k] >= w[k] + shape[k])) inside = 0;
    no = 0;
    int q = k_ix_pad(idx, shape, ex, d, w, src, &no);
    ASSERT(q == inside, "Nothing exactly on the border");
    if (inside){ ASSERT(no == d, "dim"); for (u64 k = 0; k < 4; k++) if (k < d) ASSERT(src[k] == idx[k] - w[k], "source index == index - before"); }
  }
  OBS(r); OBS(src[0]);
  REACHED();
}
void h_ix_take(void){
  u64 shape[4], ind[4], ex[4], idx[4], os[4] = {0}, src[4] = {0};
  u64 d = in_dim(), ni = in_dim(); in_shape4(shape, MAXE); u64 ax = in_u64(0, 3); ASSUME(ax < d);
  for (int i = 0; i < 4; i++){ ind[i] = in_u64(0, MAXE - 1); ASSUME(ind[i] < shape[ax]); }
  for (u64 k = 0; k < 4; k++) ex[k] = (k == ax) ? ni : shape[k];
  ASSERT(k_ix_shape_take(shape, d, ind, ni, ax, os) == d, "dim kept");
  for (u64 k = 0; k < 4; k++) if (k < d) ASSERT(os[k] == ex[k], "shape[axis] == len(indices)");
  in_idx4(idx, ex, d, MAXE > 4 ? MAXE - 1 : 3);
  ASSERT(k_ix_take(idx, shape, d, ind, ni, ax, src) == d, "dim");
  for (u64 k = 0; k < 4; k++) if (k < d) ASSERT(src[k] == (k == ax ? ind[idx[k]] : idx[k]), "source index == indices[j] along axis");
  OBS(src[0]);
  REACHED();
}
void h_ix_concatenate(void){
  u64 a[4], b[4], ex[4], idx[4], os[4] = {0}, ai[4] = {0}, bi[4] = {0}, no = 0;
  u64 d = in_dim(); in_shape4(a, MAXE); in_shape4(b, MAXE); u64 ax = in_u64(0, 3); ASSUME(ax < d);
  int same = 1; for (u64 k = 0; k < 4; k++) if (k < d && k != ax && a[k] != b[k]) same = 0;
  int r = k_ix_shape_concatenate(a, b, d, ax, os, &no);
  ASSERT((r != 0) == same, "accepted iff the shapes agree off the axis");
  ASSUME(same);
  ASSERT(no == d, "dim kept");
  for (u64 k = 0; k < 4; k++){ ex[k] = (k == ax) ? a[k] + b[k] : a[k]; if (k < d) ASSERT(os[k] == ex[k], "shape[axis] == a + b"); }
  in_idx4(idx, ex, d, 2*MAXE - 1);
  int f = k_ix_concatenate(a, b, d, idx, ax, ai, bi);
  ASSERT(f == (idx[ax] < a[ax] ? 1 : 2), "exactly the operand holding the element is flagged");
  for (u64 k = 0; k < 4; k++) if (k < d){
    if (f == 1) ASSERT(ai[k] == idx[k], "index into a unchanged");
    else ASSERT(bi[k] == (k == ax ? idx[k] - a[k] : idx[k]), "index into b shifted by a's extent along axis");
  }
  OBS(f); OBS(ai[0]); OBS(bi[0]);
  REACHED();
}
void h_ix_resize(void){
  u64 shape[4], dst[4], idx[4], os[4] = {0}, src[4] = {0}, no = 0;
  u64 d = in_dim(), nd = in_dim(); in_shape4(shape, MAXE);
  for (int i = 0; i < 4; i++) dst[i] = in_u64(0, MAXE + 2);
  int pos = 1; for (u64 k = 0; k < 4; k++) if (k < nd && dst[k] == 0) pos = 0;
  int r = k_ix_shape_resize(shape, d, dst, nd, os, &no);
  ASSERT((r == 1) == (nd == d && pos), "accepted iff same dimension and positive extents");
  ASSUME(nd == d && pos);
  ASSERT(no == d, "dim");
  for (u64 k = 0; k < 4; k++) if (k < d) ASSERT(os[k] == dst[k], "shape == dst_shape");
  in_idx4(idx, dst, d, MAXE + 1);
  ASSERT(k_ix_resize(idx, shape, dst, d, src) == d, "dim");
  for (u64 k = 0; k < 4; k++) if (k < d){ ASSERT(src[k] == idx[k] * shape[k] / dst[k], "source index == floor(i*src/dst)"); ASSERT(src[k] < shape[k], "inside the source"); }
  OBS(r); OBS(src[0]);
  REACHED();
}
