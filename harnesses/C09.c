/* C09: results are independent of container kind and of the STL / STL-free build configuration.
 * Differential: the same nmtools call on kind A vs kind B (and std:: build vs utl:: build), same symbolic inputs. */
#include "harness.h"
#include "C09_std.h"
#include "C09_utl.h"
#ifndef MAXE
#define MAXE 4
#endif
/* container kinds and the build are PER-QUERY CONSTANTS (enumerated exhaustively by the spec); shapes, data, indices are symbolic */
#ifndef KA
#define KA 1
#endif
#ifndef KB
#define KB 1
#endif
#ifndef BUILD
#define BUILD 0
#endif

/* index functions: kinds 0 fixed array, 1 static vector, 2 list, 3 tuple, 4 raw array; both builds */
void h_index_kinds(void){
  u64 shape[3], total = 1, ref[3], rs[3];
  for (int i = 0; i < 3; i++){ shape[i] = in_u64(1, MAXE); total *= shape[i]; }
  u64 off = in_u64(0, MAXE*MAXE*MAXE - 1); ASSUME(off < total);
  u32 kind = KA;
  k_c9_indices(0, off, shape, ref); k_c9_strides(0, shape, rs);
  ASSERT((ref[0]*shape[1]+ref[1])*shape[2]+ref[2] == off, "reference kind (fixed array) is the row-major decomposition");
  u64 o[3] = {0,0,0}, s[3] = {0,0,0}, ou[3] = {0,0,0}, su[3] = {0,0,0};
  k_c9_indices(kind, off, shape, o); k_c9_strides(kind, shape, s);
  u32 kindu = KB;
  k_c9_indices_utl(kindu, off, shape, ou); k_c9_strides_utl(kindu, shape, su);
  for (int i = 0; i < 3; i++){
    ASSERT(o[i] == ref[i] && s[i] == rs[i], "std build: every container kind gives the fixed-array result");
    ASSERT(ou[i] == ref[i] && su[i] == rs[i], "utl (NMTOOLS_DISABLE_STL) build: every container kind gives the std fixed-array result");
    OBS(o[i]); OBS(ou[i]);
  }
  REACHED();
}

/* broadcast_shape over all 9 kind pairings x 2 builds, incl. incompatible shapes */
void h_bshape_kinds(void){
  u64 a[3], b[2], ref[3] = {0,0,0}, nref = 0;
  for (int i = 0; i < 3; i++) a[i] = in_u64(1, MAXE);
  for (int i = 0; i < 2; i++) b[i] = in_u64(1, MAXE);
  int r0 = k_c9_bshape(0, 0, a, b, ref, &nref);
  int ok = (a[2]==b[1] || a[2]==1 || b[1]==1) && (a[1]==b[0] || a[1]==1 || b[0]==1);
  ASSERT((r0 != 0) == ok, "reference pairing accepts iff NumPy-compatible");
  u32 ka = KA, kb = KB, build = BUILD;
  u64 o[3] = {0,0,0}, n = 0;
  int r = build ? k_c9_bshape_utl(ka, kb, a, b, o, &n) : k_c9_bshape(ka, kb, a, b, o, &n);
  ASSERT(r == r0, "success/failure independent of container kind and build");
  if (r0){ ASSERT(n == nref && n == 3, "dim"); for (int i = 0; i < 3; i++) ASSERT(o[i] == ref[i], "shape independent of container kind and build"); }
  OBS(r); OBS(n);
  REACHED();
}

void h_reshape_kinds(void){
  u64 s[3], ref[2] = {0,0}, nref = 0; u32 d[2];
  for (int i = 0; i < 3; i++) s[i] = in_u64(1, MAXE);
  for (int i = 0; i < 2; i++) d[i] = (u32)in_i32(-2, MAXE*MAXE*MAXE);
  int r0 = k_c9_reshape(0, 0, s, d, ref, &nref);
  u32 ks = KA, kd = KB, build = BUILD;
  u64 o[2] = {0,0}, n = 0;
  int r = build ? k_c9_reshape_utl(ks, kd, s, d, o, &n) : k_c9_reshape(ks, kd, s, d, o, &n);
  ASSERT(r == r0, "acceptance independent of container kind and build");
  if (r0){ ASSERT(n == nref, "dim"); for (int i = 0; i < 2; i++) ASSERT(o[i] == ref[i], "shape independent of container kind and build"); }
  OBS(r);
  REACHED();
}

/* array kinds: fixed / hybrid / dynamic ndarray, both builds: transpose element and sum-over-axis element */
void h_array_kinds(void){
  u32 d[6], out0 = 0, out = 0; u64 os0[2] = {0,0}, os[2] = {0,0};
  for (int i = 0; i < 6; i++) d[i] = in_any32();
  u64 i = in_u64(0, 2), j = in_u64(0, 1);
  int r0 = k_c9_transpose23(0, d, i, j, os0, &out0);
  ASSERT(r0 == 1 && os0[0] == 3 && os0[1] == 2 && out0 == d[j*3+i], "reference kind (fixed ndarray, std build)");
  u32 kind = KA, build = BUILD;
  int r = build ? k_c9_transpose23_utl(kind, d, i, j, os, &out) : k_c9_transpose23(kind, d, i, j, os, &out);
  ASSERT(r == 1 && os[0] == os0[0] && os[1] == os0[1] && out == out0, "transpose: shape and element independent of array kind and build");
  OBS(out);
  REACHED();
}
void h_array_kinds_sum(void){
  u32 d[6], out0 = 0, out = 0; u64 os0[1] = {0}, os[1] = {0};
  for (int i = 0; i < 6; i++) d[i] = in_any32();
  u32 axis = (u32)in_i32(-2, 1); u64 an = (i32)axis < 0 ? (u64)((i32)axis + 2) : axis;
  u64 i = in_u64(0, 2); ASSUME(i < (an == 0 ? 3 : 2));
  int r0 = k_c9_sum23(0, d, axis, i, os0, &out0);
  u32 ex = an == 0 ? d[i] + d[3+i] : d[i*3] + d[i*3+1] + d[i*3+2];
  ASSERT(r0 == 1 && os0[0] == (an == 0 ? 3 : 2) && out0 == ex, "reference kind (fixed ndarray, std build)");
  u32 kind = KA, build = BUILD;
  int r = build ? k_c9_sum23_utl(kind, d, axis, i, os, &out) : k_c9_sum23(kind, d, axis, i, os, &out);
  ASSERT(r == 1 && os[0] == os0[0] && out == out0, "sum: shape and element independent of array kind and build");
  OBS(out);
  REACHED();
}

/* compile-time constants vs run-time values: the constant side is a TYPE (enumerated: shapes (2,3,4), (2,1,4)x(3,1)),
 * the run-time side is called on the same values; mixed constant x run-time operand has a symbolic run-time part */
void h_constants(void){
  u64 c[3], r[3], sh[3] = {2,3,4};
  k_c9_const_strides234(c); k_c9_strides(0, sh, r);
  for (int i = 0; i < 3; i++) ASSERT(c[i] == r[i], "constant-shape strides == run-time strides");
  k_c9_const_strides234_utl(c);
  for (int i = 0; i < 3; i++) ASSERT(c[i] == r[i], "constant-shape strides (utl build) == run-time strides");
  u64 o[3] = {0,0,0}, n = 0, a[3] = {2,1,4}, b[2] = {3,1}, o2[3] = {0,0,0}, n2 = 0;
  int rc = k_c9_const_bshape(o, &n), rr = k_c9_bshape(0, 0, a, b, o2, &n2);
  ASSERT(rc == 1 && rr == 1 && n == n2, "constant broadcast == run-time broadcast (success, dim)");
  for (int i = 0; i < 3; i++) ASSERT(o[i] == o2[i], "constant broadcast == run-time broadcast (shape)");
  /* mixed: constant (2,1,4) with a symbolic run-time 2-d shape */
  u64 bb[2]; for (int i = 0; i < 2; i++) bb[i] = in_u64(1, MAXE);
  u64 m[3] = {0,0,0}, nm_ = 0, m2[3] = {0,0,0}, nm2 = 0; u32 build = BUILD;
  int r1 = build ? k_c9_mixed_bshape_utl(bb, m, &nm_) : k_c9_mixed_bshape(bb, m, &nm_);
  int r2 = k_c9_bshape(0, 0, a, bb, m2, &nm2);
  ASSERT(r1 == r2, "constant x run-time operand: same acceptance as all-run-time");
  if (r2){ ASSERT(nm_ == nm2, "dim"); for (int i = 0; i < 3; i++) ASSERT(m[i] == m2[i], "constant x run-time operand: same shape as all-run-time"); }
  OBS(r1);
  REACHED();
}

/* reshape to a compile-time CONSTANT target (2,3) from a symbolic run-time source shape: same acceptance and result as the all-run-time call with target {2,3} */
void h_reshape_ctdst(void){
  u64 s[3], ref[2] = {0,0}, nref = 0, o[2] = {0,0}, n = 0; u32 d[2] = {2, 3};
  for (int i = 0; i < 3; i++) s[i] = in_u64(1, MAXE);
  int r0 = k_c9_reshape(0, 0, s, d, ref, &nref);
  u32 ks = KA, build = BUILD;
  int r = build ? k_c9_reshape_ctdst_utl(ks, s, o, &n) : k_c9_reshape_ctdst(ks, s, o, &n);
  ASSERT(r0 == (s[0]*s[1]*s[2] == 6), "all-run-time reshape accepts exactly the sources with 6 elements (NumPy)");
  ASSERT(r == r0, "constant target: acceptance equals the all-run-time call");
  if (r0){ ASSERT(n == 2 && o[0] == 2 && o[1] == 3, "constant target: result shape (2,3)"); }
  u64 c[2] = {0,0}, nc = 0; int rc = build ? k_c9_reshape_ctct_utl(c, &nc) : k_c9_reshape_ctct(c, &nc);
  ASSERT(rc == 1 && nc == 2 && c[0] == 2 && c[1] == 3, "all-constant reshape (1,3,2) -> (2,3) folded in the type system gives the run-time result");
  OBS(r); REACHED();
}

/* clipped VALUES: per-element repeats (each 1..3) as std::array / static_vector / tuple of clipped_size_t<3> with the same run-time values: same shape, same element, equal to np.repeat(a, reps, axis=0);
 * index::cumsum of the three values in the three kinds equals the prefix sums */
void h_repeat_clipped(void){
  u32 d[6], out = 0, ref = 0; u64 reps[3], os[2] = {0,0}, rs[2] = {0,0}, cs[3] = {0,0,0};
  for (int i = 0; i < 6; i++) d[i] = in_any32(); for (int i = 0; i < 3; i++) reps[i] = in_u64(1, 3);
  u64 total = reps[0] + reps[1] + reps[2], i = in_u64(0, 8), j = in_u64(0, 1); ASSUME(i < total);
  u32 kind = KA, build = BUILD;
  int r0 = k_c9_repeat3(0, d, reps, i, j, rs, &ref);
  int r = build ? k_c9_repeat3_utl(kind, d, reps, i, j, os, &out) : k_c9_repeat3(kind, d, reps, i, j, os, &out);
  u64 row = i < reps[0] ? 0 : i < reps[0] + reps[1] ? 1 : 2;
  ASSERT(r0 == 1 && rs[0] == total && rs[1] == 2 && ref == d[row*2 + j], "array repeats: np.repeat(a, reps, axis=0)");
  ASSERT(r == 1 && os[0] == total && os[1] == 2, "shape independent of the container kind of repeats (incl. clipped values)");
  ASSERT(out == ref, "element independent of the container kind of repeats (incl. clipped values)");
  if (build) k_c9_cumsum3_utl(kind, reps, cs); else k_c9_cumsum3(kind, reps, cs);
  ASSERT(cs[0] == reps[0] && cs[1] == reps[0] + reps[1] && cs[2] == total, "index::cumsum == prefix sums in every kind");
  OBS(out); REACHED();
}
