/* C20: array objects keep their invariants under resize / write / copy / assign / cast; mutable views write through.
 * The harness draws a history of K steps on two live objects, keeps a reference model of (dim, shape, buffer cells) for both, and checks after
 * the history: prod(shape) == buffer length, strides == products of the trailing (row-major) / leading (column-major) extents,
 * offset() == the layout's Horner form (hence distinct in-shape indices -> distinct positions), a refused resize returned false and changed
 * nothing, known cells hold the model's values. */
#include "harness.h"
#include "C20_arrays.h"
#ifndef K
#define K 3
#endif
#ifndef MAXE
#define MAXE 4
#endif
#ifndef MINE
#define MINE 1
#endif
#define CAPN 8
/* KIND: 0 A_row (bounded buffer 8, fixed dim 2)  1 A_col  2 B_row (bounded buffer 8, bounded dim <= 3)  3 B_col  4 C_row (std::vector buffer/shape)  5 C_col  6 A3_row (fixed dim 3) */
#ifndef KIND
#define KIND 0
#endif
#if KIND == 0
#define KH k_hist_A_row
#define FIXED_DIM 2
#define COLMAJOR 0
#elif KIND == 1
#define KH k_hist_A_col
#define FIXED_DIM 2
#define COLMAJOR 1
#elif KIND == 2
#define KH k_hist_B_row
#define FIXED_DIM 0
#define COLMAJOR 0
#elif KIND == 3
#define KH k_hist_B_col
#define FIXED_DIM 0
#define COLMAJOR 1
#elif KIND == 4
#define KH k_hist_C_row
#define FIXED_DIM 0
#define COLMAJOR 0
#define UNBOUNDED 1
#elif KIND == 5
#define KH k_hist_C_col
#define FIXED_DIM 0
#define COLMAJOR 1
#define UNBOUNDED 1
#elif KIND == 6
#define KH k_hist_A3_row
#define FIXED_DIM 3
#define COLMAJOR 0
#elif KIND == 7      /* bounded buffer of capacity 4, bounded dim <= 3 */
#define KH k_hist_B4_row
#define FIXED_DIM 0
#define COLMAJOR 0
#define CAPK 4
#elif KIND == 8
#define KH k_hist_B4_col
#define FIXED_DIM 0
#define COLMAJOR 1
#define CAPK 4
#elif KIND == 9      /* FIXED buffer of 4 cells (std::array), bounded dim <= 3: a resize is accepted iff the request has exactly 4 elements */
#define KH k_hist_F_row
#define FIXED_DIM 0
#define COLMAJOR 0
#define FIXEDBUF 1
#define CAPK 4
#else
#define KH k_hist_F_col
#define FIXED_DIM 0
#define COLMAJOR 1
#define FIXEDBUF 1
#define CAPK 4
#endif
#ifndef FIXEDBUF
#define FIXEDBUF 0
#endif
#ifndef CAPK
#define CAPK CAPN
#endif
#ifndef UNBOUNDED
#define UNBOUNDED 0
#endif
#ifndef CAPU
#define CAPU CAPK
#endif
#ifndef MAXD
#define MAXD 4      /* requested dims 1..MAXD (4 exceeds every bounded shape kind) */
#endif

/* HCAP: number of buffer cells the model tracks (>= capacity of the kind / cell bound of the query); CAPN (8) is the kernels' output stride */
#ifndef HCAP
#define HCAP CAPK
#endif
typedef struct { u64 dim; u64 shape[3]; u64 n; u32 d[HCAP]; u8 known[HCAP]; } ma_t;
static u64 prodn(const u64* s, u64 n){ u64 p = 1; for (u64 i = 0; i < 4; i++) if (i < n) p *= s[i]; return p; }
/* position of an in-shape index in the buffer: row-major = Horner from the left, column-major = Horner from the right */
static u64 m_offset(const ma_t* m, const u64* idx){
  u64 o = 0;
  if (!COLMAJOR){ for (u64 i = 0; i < 3; i++) if (i < m->dim) o = o * m->shape[i] + idx[i]; }
  else { for (u64 i = 3; i > 0; i--) if (i - 1 < m->dim) o = o * m->shape[i-1] + idx[i-1]; }
  return o;
}
static u64 m_stride(const ma_t* m, u64 ax){
  u64 p = 1;
  if (!COLMAJOR){ for (u64 i = 0; i < 3; i++) if (i > ax && i < m->dim) p *= m->shape[i]; }
  else { for (u64 i = 0; i < 3; i++) if (i < ax && i < m->dim) p *= m->shape[i]; }
  return p;
}
static void m_init(ma_t* m){
  m->dim = FIXED_DIM ? FIXED_DIM : 1; for (int i = 0; i < 3; i++) m->shape[i] = 1; m->n = 1;
  for (int i = 0; i < HCAP; i++){ m->d[i] = 0; m->known[i] = 0; } m->known[0] = 1;     /* default-constructed: one element, value 0 */
  if (FIXEDBUF){ m->dim = 1; m->shape[0] = CAPK; m->n = CAPK; m->known[0] = 0; }          /* fixed buffer: default shape (capacity), contents unspecified */
}
/* returns 1 if the resize is accepted (model changed), 0 if it must be refused (model untouched) */
static int m_resize(ma_t* m, const u64* sh, u64 sdim){
  u64 p = prodn(sh, sdim);
  if (FIXED_DIM){ if (sdim != FIXED_DIM) return 0; } else if (!UNBOUNDED && sdim > 3) return 0;
  if (!UNBOUNDED && p > CAPK) return 0;
  if (FIXEDBUF && p != CAPK) return 0;                                             /* the buffer cannot change its length */
  m->dim = sdim; for (u64 i = 0; i < 3; i++) m->shape[i] = i < sdim ? sh[i] : 1;
  for (u64 i = 0; i < HCAP; i++) if (i >= m->n || i >= p) m->known[i] = 0;       /* cells kept by the buffer stay; newly exposed cells are unspecified */
  m->n = p;
  return 1;
}

void h_hist(void){
  u8 ops[K], tgt[K]; u64 sdim[K], sh[4*K], widx[3*K]; u32 v[K], rets[K]; int mret[K];
  ma_t m[2]; m_init(&m[0]); m_init(&m[1]);
  for (int s = 0; s < K; s++){
    ops[s] = in_u8(0, 4); tgt[s] = in_u8(0, 1); sdim[s] = in_u64(1, MAXD); v[s] = in_any32(); rets[s] = 77; mret[s] = 77;
    for (int i = 0; i < 4; i++) sh[4*s+i] = in_u64(MINE, MAXE);
    for (int i = 0; i < 3; i++) widx[3*s+i] = in_u64(0, MAXE - 1);
#ifdef PRE   /* the first steps of the history as per-query constants: both objects are resized to a chosen shape (concrete state before the symbolic steps) */
    { static const u64 pre_tab[4][2][4] = {            /* PRE -> { step0: object 0 , step1: object 1 } as (dim, e0, e1, e2) */
        { {2, 2, 3, 1}, {2, 3, 2, 1} }, { {2, 2, 2, 1}, {2, 1, 4, 1} }, { {3, 2, 2, 2}, {1, 4, 1, 1} }, { {1, 4, 1, 1}, {3, 1, 2, 3} } };
      if (s < 2){ const u64* e = pre_tab[PRE][s];
        /* the drawn values of these steps are overridden by the constants (no ASSUME: the differential gate samples natively and would never hit them) */
        ops[s] = 0; tgt[s] = (u8)s; sdim[s] = e[0]; sh[4*s] = e[1]; sh[4*s+1] = e[2]; sh[4*s+2] = e[3]; } }
#endif
    ma_t* me = &m[tgt[s]]; ma_t* other = &m[tgt[s] ^ 1];
    if (UNBOUNDED) ASSUME(ops[s] != 0 || (sdim[s] <= 3 && prodn(&sh[4*s], sdim[s]) <= CAPU));   /* bound of this harness for the unbounded kind: at most CAPU cells, dim <= 3 */
    switch (ops[s]){
      case 0: mret[s] = m_resize(me, &sh[4*s], sdim[s]); break;
      case 1: for (u64 i = 0; i < 3; i++) ASSUME(i < me->dim ? widx[3*s+i] < me->shape[i] : 1);   /* writes address in-shape indices only */
              { u64 o = m_offset(me, &widx[3*s]); me->d[o] = v[s]; me->known[o] = 1; } break;
      case 2: case 3: { ma_t c = *other; *me = c; } break;
      default: break;
    }
  }
  /* two probe indices inside the final shape of object 0 */
  u64 p1[3], p2[3];
  for (int i = 0; i < 3; i++){ p1[i] = in_u64(0, MAXE - 1); p2[i] = in_u64(0, MAXE - 1); ASSUME((u64)i < m[0].dim ? (p1[i] < m[0].shape[i] && p2[i] < m[0].shape[i]) : (p1[i] == 0 && p2[i] == 0)); }
  ASSUME(m[0].n > 0);
  u64 odim[2] = {9, 9}, oshape[6] = {0}, ostr[6] = {0}, olen[2] = {99, 99}, ooff[2] = {99, 99}; u32 odata[2*CAPN], oval[2] = {0, 0};
  for (int t = 0; t < 2; t++) for (int i = 0; i < HCAP; i++) odata[CAPN*t+i] = 0xdeadbeef;
  KH(ops, tgt, sdim, sh, widx, v, K, rets, odim, oshape, ostr, olen, odata, p1, p2, ooff, oval);
  for (int s = 0; s < K; s++) if (ops[s] == 0){ OBS(rets[s]); ASSERT((int)rets[s] == mret[s], "resize returns true iff the request fits the dimension and capacity bounds"); }
  for (int t = 0; t < 2; t++){
    OBS(odim[t]); OBS(olen[t]);
    ASSERT(odim[t] == m[t].dim, "dim equals the model (a refused resize leaves it unchanged)");
    for (u64 i = 0; i < 3; i++) if (i < m[t].dim){
      OBS(oshape[3*t+i]); OBS(ostr[3*t+i]);
      ASSERT(oshape[3*t+i] == m[t].shape[i], "shape equals the model (a refused resize leaves it unchanged)");
#ifdef KF_C20_COLMAJOR_STRIDES
      if (!COLMAJOR)
#endif
      ASSERT(ostr[3*t+i] == m_stride(&m[t], i), "strides() match the shape and the layout");
    }
    ASSERT(olen[t] == m[t].n, "buffer length == product of the shape");
    for (u64 i = 0; i < HCAP; i++) if (i < m[t].n && m[t].known[i]){ OBS(odata[CAPN*t+i]); ASSERT(odata[CAPN*t+i] == m[t].d[i], "buffer cell holds the last value written to it (refused resizes, copies and assignments included)"); }
  }
  OBS(ooff[0]); OBS(ooff[1]);
  ASSERT(ooff[0] == m_offset(&m[0], p1) && ooff[1] == m_offset(&m[0], p2), "offset() is the layout's Horner form");
  ASSERT(ooff[0] < m[0].n && ooff[1] < m[0].n, "offsets lie inside the buffer");
  int same = 1; for (u64 i = 0; i < 3; i++) if (p1[i] != p2[i]) same = 0;
  ASSERT(same || ooff[0] != ooff[1], "distinct indices address distinct buffer positions");
  if (m[0].known[m_offset(&m[0], p1)]) ASSERT(oval[0] == m[0].d[m_offset(&m[0], p1)], "operator() reads the addressed element");
  REACHED();
}

/* ------------------------------------------------------------------ legacy hybrid_ndarray<unsigned,8,2> */
void h_hybrid2(void){
  u8 ops[K], tgt[K]; u64 sh[4*K], widx[3*K]; u32 v[K], rets[K]; int mret[K];
  u64 ms[2][2] = {{CAPN, 1}, {CAPN, 1}}; u32 me_[2][16]; u8 kn[2][16];     /* default-constructed: shape (max_elements, 1), buffer zero-initialised */
  for (int t = 0; t < 2; t++) for (int h = 0; h < 2; h++) for (int i = 0; i < 8; i++){ me_[t][8*h+i] = 0; kn[t][8*h+i] = ((8*h+i) % 4 == 0); }
  for (int s = 0; s < K; s++){
    ops[s] = in_u8(0, 4); tgt[s] = in_u8(0, 1); v[s] = in_any32(); rets[s] = 77; mret[s] = 77;
    for (int i = 0; i < 4; i++) sh[4*s+i] = in_u64(MINE, MAXE);
    for (int i = 0; i < 3; i++) widx[3*s+i] = in_u64(0, MAXE - 1);
    int t = tgt[s], o = t ^ 1;
    switch (ops[s]){
      case 0: if (sh[4*s] * sh[4*s+1] <= CAPN){ mret[s] = 1; ms[t][0] = sh[4*s]; ms[t][1] = sh[4*s+1]; for (int h = 0; h < 2; h++) for (int i = 0; i < 8; i++) kn[t][8*h+i] = 0; } else mret[s] = 0; break;   /* element positions after a reshape are not specified: forget */
      case 1: ASSUME(widx[3*s] < ms[t][0] && widx[3*s+1] < ms[t][1]); me_[t][4*widx[3*s] + widx[3*s+1]] = v[s]; kn[t][4*widx[3*s] + widx[3*s+1]] = 1; break;
      case 2: case 3: ms[t][0] = ms[o][0]; ms[t][1] = ms[o][1]; for (int h = 0; h < 2; h++) for (int i = 0; i < 8; i++){ me_[t][8*h+i] = me_[o][8*h+i]; kn[t][8*h+i] = kn[o][8*h+i]; } break;
      default: break;
    }
  }
  u64 oshape[4] = {0}, ostr[4] = {0}; u32 oel[32]; for (int t = 0; t < 4; t++) for (int i = 0; i < 8; i++) oel[8*t+i] = 0xdeadbeef;
  k_hist_hybrid2(ops, tgt, sh, widx, v, K, rets, oshape, ostr, oel, 4);
  for (int s = 0; s < K; s++) if (ops[s] == 0){ OBS(rets[s]); ASSERT((int)rets[s] == mret[s], "hybrid resize accepted iff the element count fits the capacity"); }
  for (int t = 0; t < 2; t++){
    OBS(oshape[2*t]); OBS(oshape[2*t+1]);
    ASSERT(oshape[2*t] == ms[t][0] && oshape[2*t+1] == ms[t][1], "shape (a refused resize leaves it unchanged)");
    ASSERT(ostr[2*t] == ms[t][1] && ostr[2*t+1] == 1, "strides are the trailing products");
    for (u64 i = 0; i < 4; i++) for (u64 j = 0; j < 4; j++) if (i < ms[t][0] && j < ms[t][1] && kn[t][4*i+j]){ OBS(oel[16*t+4*i+j]); ASSERT(oel[16*t+4*i+j] == me_[t][4*i+j], "element (i,j) holds the last value written to it"); }
  }
  REACHED();
}

/* ------------------------------------------------------------------ legacy dynamic_ndarray<unsigned> (writes address buffer positions) */
void h_dynamic(void){
  u8 ops[K], tgt[K]; u64 sdim[K], sh[4*K], wpos[K]; u32 v[K];
  typedef struct { u64 dim; u64 shape[3]; u64 n; u32 d[CAPN]; u8 known[CAPN]; } md_t;
  md_t m[2]; for (int t = 0; t < 2; t++){ m[t].dim = 0; m[t].n = 0; for (int i = 0; i < 3; i++) m[t].shape[i] = 1; for (int i = 0; i < CAPN; i++){ m[t].d[i] = 0; m[t].known[i] = 0; } }
  for (int s = 0; s < K; s++){
    ops[s] = in_u8(0, 4); tgt[s] = in_u8(0, 1); sdim[s] = in_u64(1, 3); v[s] = in_any32(); wpos[s] = in_u64(0, CAPN - 1);
    for (int i = 0; i < 4; i++) sh[4*s+i] = in_u64(MINE, MAXE);
    md_t* me = &m[tgt[s]]; md_t* other = &m[tgt[s] ^ 1];
    switch (ops[s]){
      case 0: { u64 p = prodn(&sh[4*s], sdim[s]); ASSUME(p <= CAPN);
                me->dim = sdim[s]; for (u64 i = 0; i < 3; i++) me->shape[i] = i < sdim[s] ? sh[4*s+i] : 1;
                for (u64 i = 0; i < CAPN; i++){ if (i >= me->n && i < p){ me->d[i] = 0; me->known[i] = 1; } if (i >= p) me->known[i] = 0; }   /* std::vector buffer: kept cells stay, new cells are zero */
                me->n = p; } break;
      case 1: ASSUME(wpos[s] < me->n); me->d[wpos[s]] = v[s]; me->known[wpos[s]] = 1; break;
      case 2: case 3: { md_t c = *other; *me = c; } break;
      default: break;
    }
  }
  u64 odim[2] = {9, 9}, oshape[6] = {0}, ostr[6] = {0}, olen[2] = {99, 99}; u32 odata[2*CAPN]; for (int t = 0; t < 2; t++) for (int i = 0; i < CAPN; i++) odata[CAPN*t+i] = 0xdeadbeef;
  k_hist_dynamic(ops, tgt, sdim, sh, wpos, v, K, odim, oshape, ostr, olen, odata);
  for (int t = 0; t < 2; t++){
    OBS(odim[t]); OBS(olen[t]);
    ASSERT(odim[t] == m[t].dim, "dim");
    u64 p = 1;
    for (u64 i = 3; i > 0; i--) if (i - 1 < m[t].dim){ ASSERT(oshape[3*t+i-1] == m[t].shape[i-1], "shape"); ASSERT(ostr[3*t+i-1] == p, "strides are the trailing products"); p *= m[t].shape[i-1]; }
    ASSERT(olen[t] == m[t].n && (m[t].dim == 0 || m[t].n == p), "buffer length == product of the shape");
    for (u64 i = 0; i < CAPN; i++) if (i < m[t].n && m[t].known[i]) ASSERT(odata[CAPN*t+i] == m[t].d[i], "buffer cell");
  }
  REACHED();
}
void h_dynamic_assign_from(void){   /* dynamic_ndarray = hybrid array: afterwards the destination equals the source */
  u64 ds[2], ss[2], odim = 9, oshape[3] = {0}, olen = 99; u32 sd[CAPN], od[CAPN];
  for (int i = 0; i < 2; i++){ ds[i] = in_u64(MINE, MAXE); ss[i] = in_u64(MINE, MAXE); }
  for (int i = 0; i < CAPN; i++){ sd[i] = in_any32(); od[i] = 0xdeadbeef; }
  ASSUME(ds[0] * ds[1] <= CAPN && ss[0] * ss[1] <= CAPN);
#ifdef KF_C20_DYNAMIC_ASSIGN_SHAPE_MISMATCH
  ASSUME(ds[0] == ss[0] && ds[1] == ss[1]);
#endif
#ifndef RSZ
#define RSZ 0
#endif
  /* RSZ (per-query constant): which resize overload prepares the destination - 0 variadic integers, 1 std::array, 2 static_vector (generic index-array overload), 3 std::vector */
  int r = RSZ == 0 ? k_dynamic_assign_from(ds, ss, sd, &odim, oshape, &olen, od) : RSZ == 1 ? k_dynamic_assign_from_arr(ds, ss, sd, &odim, oshape, &olen, od)
        : RSZ == 2 ? k_dynamic_assign_from_sv(ds, ss, sd, &odim, oshape, &olen, od) : k_dynamic_assign_from_vec(ds, ss, sd, &odim, oshape, &olen, od); OBS(r);
  ASSERT(r == 1, "source built");
  ASSERT(odim == 2 && oshape[0] == ss[0] && oshape[1] == ss[1], "after assignment the destination has the source's shape");
  ASSERT(olen == ss[0] * ss[1], "buffer length == product of the shape");
  for (u64 i = 0; i < CAPN; i++) if (i < ss[0] * ss[1]) ASSERT(od[i] == sd[i], "after assignment the destination holds the source's elements");
  REACHED();
}

/* ------------------------------------------------------------------ fixed_ndarray<unsigned,2,3> */
void h_fixed23(void){
  u8 ops[K], tgt[K]; u64 widx[3*K], oshape[2] = {0}, ostr[2] = {0}; u32 v[K], init[12], m[2][6], oel[12] = {0};
  for (int t = 0; t < 2; t++) for (int i = 0; i < 6; i++){ init[6*t+i] = in_any32(); m[t][i] = init[6*t+i]; }
  for (int s = 0; s < K; s++){
    ops[s] = in_u8(0, 3); tgt[s] = in_u8(0, 1); v[s] = in_any32(); widx[3*s] = in_u64(0, 1); widx[3*s+1] = in_u64(0, 2); widx[3*s+2] = 0;
    int t = tgt[s], o = t ^ 1;
    switch (ops[s]){
      case 0: m[t][3*widx[3*s] + widx[3*s+1]] = v[s]; break;
      case 1: case 2: for (int i = 0; i < 6; i++) m[t][i] = m[o][i]; break;
      default: break;
    }
  }
  k_hist_fixed23(ops, tgt, widx, v, K, init, oshape, ostr, oel);
  ASSERT(oshape[0] == 2 && oshape[1] == 3 && ostr[0] == 3 && ostr[1] == 1, "fixed shape and strides");
  for (int t = 0; t < 2; t++) for (int i = 0; i < 6; i++){ OBS(oel[6*t+i]); ASSERT(oel[6*t+i] == m[t][i], "element"); }
  REACHED();
}

/* ------------------------------------------------------------------ cast */
#ifndef CASTK
#define CASTK 0
#endif
void h_cast(void){
  u64 shape[2], odim = 9, oshape[3] = {0}; u32 data[CAPN];
  shape[0] = in_u64(MINE, MAXE); shape[1] = in_u64(MINE, MAXE); ASSUME(shape[0] * shape[1] <= CAPN);
#ifdef SH0     /* shape as a per-query constant (destinations backed by std::vector: sizes stay concrete in the solver); data stays symbolic */
  ASSUME(shape[0] == SH0 && shape[1] == SH1); shape[0] = SH0; shape[1] = SH1;
#endif
  for (int i = 0; i < CAPN; i++) data[i] = in_any32();
  u64 n = shape[0] * shape[1]; int r = 0;
#if CASTK == 0
  u8 o[CAPN] = {0}; r = k_cast_u8(shape, data, &odim, oshape, o);
  for (u64 i = 0; i < CAPN; i++) if (i < n){ OBS(o[i]); ASSERT(o[i] == (u8)data[i], "cast<unsigned char>: value converted like static_cast"); }
#elif CASTK == 1
  u64 o[CAPN] = {0}; r = k_cast_i64(shape, data, &odim, oshape, o);
  for (u64 i = 0; i < CAPN; i++) if (i < n){ OBS(o[i]); ASSERT(o[i] == (u64)(i64)(i32)data[i], "cast<long> of int: sign-extended"); }
#elif CASTK == 2
  float o[CAPN] = {0}; r = k_cast_f32(shape, data, &odim, oshape, o);
  for (u64 i = 0; i < CAPN; i++) if (i < n){ OBS(f32_bits(o[i])); ASSERT(f32_bits(o[i]) == f32_bits((float)data[i]), "cast<float> of unsigned: value converted like static_cast"); }
#elif CASTK == 3
  u32 o[CAPN] = {0}; r = k_cast_kind_dynamic(shape, data, &odim, oshape, o);
  for (u64 i = 0; i < CAPN; i++) if (i < n){ OBS(o[i]); ASSERT(o[i] == data[i], "cast to kind::dynamic keeps the values"); }
#else
  u32 o[CAPN] = {0}; r = k_cast_to_B(shape, data, &odim, oshape, o);
  for (u64 i = 0; i < CAPN; i++) if (i < n){ OBS(o[i]); ASSERT(o[i] == data[i], "cast to a bounded-dim ndarray keeps the values"); }
#endif
  ASSERT(r == 1 && odim == 2 && oshape[0] == shape[0] && oshape[1] == shape[1], "cast preserves dim and shape");
  REACHED();
}
void h_cast_fixed(void){
  u64 odim = 9, oshape[3] = {0}; u32 data[6], o[6] = {0};
  for (int i = 0; i < 6; i++) data[i] = in_any32();
  int r = k_cast_fixed_to_hybrid(data, &odim, oshape, o);
  ASSERT(r == 1 && odim == 2 && oshape[0] == 2 && oshape[1] == 3, "fixed -> hybrid preserves the shape");
  for (int i = 0; i < 6; i++){ OBS(o[i]); ASSERT(o[i] == data[i], "fixed -> hybrid keeps the values"); }
  REACHED();
}
void h_cast_fixed_dyn(void){
  u64 odim = 9, oshape[3] = {0}; u32 data[6], o[6] = {0};
  for (int i = 0; i < 6; i++) data[i] = in_any32();
  int r = k_cast_fixed_to_dynamic(data, &odim, oshape, o);
  ASSERT(r == 1 && odim == 2 && oshape[0] == 2 && oshape[1] == 3, "fixed -> dynamic preserves the shape");
  for (int i = 0; i < 6; i++){ OBS(o[i]); ASSERT(o[i] == data[i], "fixed -> dynamic keeps the values"); }
  REACHED();
}

/* ------------------------------------------------------------------ mutable views: exactly src[ref(i)] changes */
#define MCAP 12
static void in_shape3(u64* s){ for (int i = 0; i < 3; i++) s[i] = in_u64(1, MAXE); }
static void check_exactly(const u32* before, const u32* after, u64 n, u64 pos, u32 val, u32 readback, const char* what){
  for (u64 i = 0; i < MCAP; i++) if (i < n){ OBS(after[i]); ASSERT(after[i] == (i == pos ? val : before[i]), "write through the mutable view changes exactly the addressed source element"); }
  ASSERT(readback == val, "the view reads back the written value");
}
void h_mut_flatten(void){
  u64 shape[3], vlen = 0; u32 before[MCAP], data[MCAP], rb = 0; in_shape3(shape);
  u64 n = shape[0] * shape[1] * shape[2]; ASSUME(n <= MCAP);
  for (int i = 0; i < MCAP; i++){ before[i] = in_any32(); data[i] = before[i]; }
  u64 g = in_u64(0, MCAP - 1); ASSUME(g < n); u32 val = in_any32();
  int r = k_mut_flatten(shape, data, g, val, &rb, &vlen);
  ASSERT(r == 1 && vlen == n, "flatten view length");
  check_exactly(before, data, n, g, val, rb, "flatten");
  REACHED();
}
void h_mut_reshape(void){
  u64 shape[3], ns[2], idx[2], os[2] = {0}; u32 before[MCAP], data[MCAP], rb = 0; in_shape3(shape);
  u64 n = shape[0] * shape[1] * shape[2]; ASSUME(n <= MCAP);
  for (int i = 0; i < MCAP; i++){ before[i] = in_any32(); data[i] = before[i]; }
  ns[0] = in_u64(1, MCAP); ns[1] = in_u64(1, MCAP); ASSUME(ns[0] * ns[1] == n);
  idx[0] = in_u64(0, MCAP - 1); idx[1] = in_u64(0, MCAP - 1); ASSUME(idx[0] < ns[0] && idx[1] < ns[1]); u32 val = in_any32();
  int r = k_mut_reshape(shape, data, ns, idx, val, &rb, os);
  ASSERT(r == 1 && os[0] == ns[0] && os[1] == ns[1], "reshape accepted with the requested shape");
  check_exactly(before, data, n, idx[0] * ns[1] + idx[1], val, rb, "reshape");
  REACHED();
}
void h_mut_ref(void){
  u64 shape[3], idx[3]; u32 before[MCAP], data[MCAP], rb = 0; in_shape3(shape);
  u64 n = shape[0] * shape[1] * shape[2]; ASSUME(n <= MCAP);
  for (int i = 0; i < MCAP; i++){ before[i] = in_any32(); data[i] = before[i]; }
  for (int i = 0; i < 3; i++){ idx[i] = in_u64(0, MAXE - 1); ASSUME(idx[i] < shape[i]); } u32 val = in_any32();
  int r = k_mut_ref(shape, data, idx, val, &rb);
  ASSERT(r == 1, "ok");
  check_exactly(before, data, n, (idx[0] * shape[1] + idx[1]) * shape[2] + idx[2], val, rb, "ref");
  REACHED();
}
void h_mut_slice(void){   /* slices with 0 <= start < stop <= extent and step >= 1 (Python semantics of general slices: see C05) */
  u64 shape[2], idx[2], os[2] = {0}, len[2]; u32 before[MCAP], data[MCAP], rb = 0, sl[2][3];
  shape[0] = in_u64(1, MAXE); shape[1] = in_u64(1, MAXE); u64 n = shape[0] * shape[1]; ASSUME(n <= MCAP);
  for (int i = 0; i < MCAP; i++){ before[i] = in_any32(); data[i] = before[i]; }
  for (int a = 0; a < 2; a++){
    u64 st = in_u64(0, MAXE - 1), sp = in_u64(1, MAXE), se = in_u64(1, 3);
    ASSUME(st < sp && sp <= shape[a]);
    sl[a][0] = (u32)st; sl[a][1] = (u32)sp; sl[a][2] = (u32)se; len[a] = (sp - st + se - 1) / se;
    idx[a] = in_u64(0, MAXE - 1); ASSUME(idx[a] < len[a]);
  }
  u32 val = in_any32();
  int r = k_mut_slice(shape, data, sl[0], sl[1], idx, val, &rb, os);
  ASSERT(r == 1 && os[0] == len[0] && os[1] == len[1], "slice shape");
  check_exactly(before, data, n, (sl[0][0] + idx[0] * sl[0][2]) * shape[1] + (sl[1][0] + idx[1] * sl[1][2]), val, rb, "slice");
  REACHED();
}
void h_mut_flatten_dyn(void){
  u64 shape[2]; u32 before[MCAP], data[MCAP], rb = 0; shape[0] = in_u64(1, MAXE); shape[1] = in_u64(1, MAXE);
#ifdef SH0
  ASSUME(shape[0] == SH0 && shape[1] == SH1); shape[0] = SH0; shape[1] = SH1;
#endif
  u64 n = shape[0] * shape[1]; ASSUME(n <= MCAP);
  for (int i = 0; i < MCAP; i++){ before[i] = in_any32(); data[i] = before[i]; }
  u64 g = in_u64(0, MCAP - 1); ASSUME(g < n); u32 val = in_any32();
  int r = k_mut_flatten_dyn(shape, data, g, val, &rb);
  ASSERT(r == 1, "ok");
  check_exactly(before, data, n, g, val, rb, "flatten of a dynamic array");
  REACHED();
}
