/* C12: SIMD evaluation == default scalar evaluation of the same nmtools call (differential; both sides are the real code).
 * Per-query constants (enumerated): CTX (SIMD context), TY (0 float / 1 double), OP, element counts / shapes.
 * Symbolic: every element of every operand buffer (all bit patterns, incl. NaN/inf/denormals/-0 unless stated) and the op parameters.
 * Memory safety of packed loads/stores and scalar tails: CBMC's pointer/bounds obligations on the translated evaluator. */
#include "harness.h"
#ifndef CTX
#define CTX 1
#endif
#ifndef PART
#define PART 1
#endif
#if CTX == 1
#define CTXNAME avx
#define BITS 256
#elif CTX == 2
#define CTXNAME sse
#define BITS 128
#elif CTX == 3
#define CTXNAME v128
#define BITS 128
#elif CTX == 4
#define CTXNAME v256
#define BITS 256
#elif CTX == 5
#define CTXNAME v512
#define BITS 512
#elif CTX == 6
#define CTXNAME simde
#define BITS 512
#endif
#if PART == 1
#define PARTNAME ew
#elif PART == 2
#define PARTNAME outer
#elif PART == 3
#define PARTNAME red
#elif PART == 4
#define PARTNAME tight
#endif
#define XSTR_(x) #x
#define XSTR(x) XSTR_(x)
#define MKHDR_(c,p) XSTR(C12_##c##_##p.h)
#define MKHDR(c,p) MKHDR_(c,p)
#include MKHDR(CTXNAME,PARTNAME)
#define MKSFX_(c) _##c
#define MKSFX(c) MKSFX_(c)
#define SFX MKSFX(CTXNAME)
#ifndef TY
#define TY 0
#endif
#if TY == 0
typedef float T; typedef u32 TB;
#define TN f
#define in_T() in_f32()
#define bits_T(x) f32_bits(x)
#define LANES (BITS/32)
#else
typedef double T; typedef u64 TB;
#define TN d
#define in_T() in_f64()
#define bits_T(x) f64_bits(x)
#define LANES (BITS/64)
#endif
#define KS_(op,tn,sfx) k_##op##_##tn##_simd##sfx
#define KR_(op,tn,sfx) k_##op##_##tn##_ref##sfx
#define KS__(op,tn,sfx) KS_(op,tn,sfx)
#define KR__(op,tn,sfx) KR_(op,tn,sfx)
#define KS(op) KS__(op,TN,SFX)
#define KR(op) KR__(op,TN,SFX)

/* equality of results: identical bit pattern (so -0.0 != +0.0), except that any NaN equals any NaN
 * (NaN payload/sign propagation is not modelled by the solver's float theory; see ASSUMPTIONS) */
static int same(T a, T b){ return bits_T(a) == bits_T(b) || (a != a && b != b); }
static int isnan_T(T a){ return a != a; }
/* gate digest: NaNs are canonicalised (compilers may commute a+b, which changes the propagated payload) */
#define OBSV(x) OBS(isnan_T(x) ? (TB)0x7ff : bits_T(x))

/* element counts: NLIST is a per-query list of constants; every count is run in the same query */
#ifndef NLIST
#define NLIST 1, LANES-1, LANES, LANES+1, 2*LANES+3, 4*LANES+1
#endif
#define MAXN 72
static const int c12_ns[] = { NLIST };
#define NCOUNTS ((int)(sizeof(c12_ns)/sizeof(c12_ns[0])))

/* op selection: OP is a per-query constant */
#define OP_relu 1
#define OP_relu6 2
#define OP_sqrt 3
#define OP_ceil 4
#define OP_floor 5
#define OP_softsign 6
#define OP_hardswish 7
#define OP_leaky_relu 8
#define OP_prelu 9
#define OP_softshrink 10
#define OP_hardshrink 11
#define OP_hardtanh 12
#define OP_add 20
#define OP_subtract 21
#define OP_multiply 22
#define OP_divide 23
#ifndef OP
#define OP 1
#endif

#if PART == 1
static u64 call_unary(int simd, const T* in, u64 n, T p0, T p1, T* out, u64* os, u64* od){
#if OP == OP_relu
  return simd ? KS(relu)(in, n, out, os, od) : KR(relu)(in, n, out, os, od);
#elif OP == OP_relu6
  return simd ? KS(relu6)(in, n, out, os, od) : KR(relu6)(in, n, out, os, od);
#elif OP == OP_sqrt
  return simd ? KS(sqrt)(in, n, out, os, od) : KR(sqrt)(in, n, out, os, od);
#elif OP == OP_ceil
  return simd ? KS(ceil)(in, n, out, os, od) : KR(ceil)(in, n, out, os, od);
#elif OP == OP_floor
  return simd ? KS(floor)(in, n, out, os, od) : KR(floor)(in, n, out, os, od);
#elif OP == OP_softsign
  return simd ? KS(softsign)(in, n, out, os, od) : KR(softsign)(in, n, out, os, od);
#elif OP == OP_hardswish
  return simd ? KS(hardswish)(in, n, out, os, od) : KR(hardswish)(in, n, out, os, od);
#elif OP == OP_leaky_relu
  return simd ? KS(leaky_relu)(in, n, p0, out, os, od) : KR(leaky_relu)(in, n, p0, out, os, od);
#elif OP == OP_prelu
  return simd ? KS(prelu)(in, n, p0, out, os, od) : KR(prelu)(in, n, p0, out, os, od);
#elif OP == OP_softshrink
  return simd ? KS(softshrink)(in, n, p0, out, os, od) : KR(softshrink)(in, n, p0, out, os, od);
#elif OP == OP_hardshrink
  return simd ? KS(hardshrink)(in, n, p0, out, os, od) : KR(hardshrink)(in, n, p0, out, os, od);
#elif OP == OP_hardtanh
  return simd ? KS(hardtanh)(in, n, p0, p1, out, os, od) : KR(hardtanh)(in, n, p0, p1, out, os, od);
#else
  return (u64)-9;
#endif
}

/* unary element-wise op over a 1-d array of each listed element count; all elements and the op parameters symbolic */
void h_unary(void){
  T p0 = in_T(), p1 = in_T();
#if OP == OP_hardtanh
  ASSUME(p0 < p1);                     /* hardtanh(min_val, max_val) is defined for min_val < max_val (PyTorch rejects anything else); excludes NaN parameters */
#endif
#if OP == OP_softshrink
  ASSUME(p0 >= 0);                     /* softshrink(lambda) is defined for lambda >= 0 (PyTorch rejects negative lambda); excludes a NaN lambda */
#endif
  for (int k = 0; k < NCOUNTS; k++){
    const int n = c12_ns[k];
    T in[MAXN], o1[MAXN], o2[MAXN]; u64 s1[2] = {0,0}, s2[2] = {0,0}, d1 = 0, d2 = 0;
    for (int i = 0; i < n; i++){ in[i] = in_T(); o1[i] = 0; o2[i] = 0;
#ifdef NAN_FREE                        /* stated assumption for the max/min based ops relu6 and hardtanh: see ASSUMPTIONS */
      ASSUME(!isnan_T(in[i]));
#endif
#ifdef KF_C12_SOFTSHRINK_NAN           /* finding: softshrink(NaN) is 0 in the scalar functor and NaN in every SIMD formulation */
      ASSUME(!isnan_T(in[i]));
#endif
#ifdef KF_C12_RELU6_NEGZERO            /* finding: relu6(-0.0) is -0.0 in the scalar functor and +0.0 in the SIMD formulation max(min(x,6),0) */
      ASSUME(!(bits_T(in[i]) == ((TB)1 << (sizeof(T)*8-1))));
#endif
#ifdef KF_C12_RELU_NEGZERO             /* finding (vector-extension contexts): relu(-0.0) is +0.0 in the scalar functor and -0.0 = fmax(-0.0, 0.0) in the SIMD path */
      ASSUME(!(bits_T(in[i]) == ((TB)1 << (sizeof(T)*8-1))));
#endif
#ifdef KF_C12_HARDTANH_ZERO            /* finding: a zero input clamped against a zero bound of the other sign: the scalar functor returns the input, SIMD the bound */
      ASSUME(!(in[i] == 0 && ((p0 == 0 && bits_T(in[i]) != bits_T(p0)) || (p1 == 0 && bits_T(in[i]) != bits_T(p1)))));
#endif
    }
    u64 m1 = call_unary(1, in, n, p0, p1, o1, s1, &d1);
    u64 m2 = call_unary(0, in, n, p0, p1, o2, s2, &d2);
    ASSERT(m2 == (u64)n && d2 == 1 && s2[0] == (u64)n, "scalar evaluation returns the input's shape");
    ASSERT(m1 == m2 && d1 == d2 && s1[0] == s2[0], "SIMD result has the shape of the scalar result");
    for (int i = 0; i < n; i++){ ASSERT(same(o1[i], o2[i]), "SIMD element is bit-identical to the scalar element"); OBSV(o1[i]); }
  }
  REACHED();
}

static u64 call_binary(int simd, const T* x, const T* y, u64 n, T* out, u64* os, u64* od){
#if OP == OP_add
  return simd ? KS(add)(x, y, n, out, os, od) : KR(add)(x, y, n, out, os, od);
#elif OP == OP_subtract
  return simd ? KS(subtract)(x, y, n, out, os, od) : KR(subtract)(x, y, n, out, os, od);
#elif OP == OP_multiply
  return simd ? KS(multiply)(x, y, n, out, os, od) : KR(multiply)(x, y, n, out, os, od);
#elif OP == OP_divide
  return simd ? KS(divide)(x, y, n, out, os, od) : KR(divide)(x, y, n, out, os, od);
#else
  return (u64)-9;
#endif
}

/* binary element-wise op over two same-shape 1-d arrays of each listed element count */
void h_binary(void){
  for (int k = 0; k < NCOUNTS; k++){
    const int n = c12_ns[k];
    T x[MAXN], y[MAXN], o1[MAXN], o2[MAXN]; u64 s1[2] = {0,0}, s2[2] = {0,0}, d1 = 0, d2 = 0;
    for (int i = 0; i < n; i++){ x[i] = in_T(); y[i] = in_T(); o1[i] = 0; o2[i] = 0; }
    u64 m1 = call_binary(1, x, y, n, o1, s1, &d1);
    u64 m2 = call_binary(0, x, y, n, o2, s2, &d2);
    ASSERT(m2 == (u64)n && d2 == 1 && s2[0] == (u64)n, "scalar evaluation returns the operands' shape");
    ASSERT(m1 == m2 && d1 == d2 && s1[0] == s2[0], "SIMD result has the shape of the scalar result");
    for (int i = 0; i < n; i++){ ASSERT(same(o1[i], o2[i]), "SIMD element is bit-identical to the scalar element"); OBSV(o1[i]); }
  }
  REACHED();
}

static u64 call_binary2(int simd, const u64* xs, const T* x, const u64* ys, const T* y, T* out, u64* os, u64* od){
#if OP == OP_add
  return simd ? KS(add2)(xs, x, ys, y, out, os, od) : KR(add2)(xs, x, ys, y, out, os, od);
#elif OP == OP_subtract
  return simd ? KS(subtract2)(xs, x, ys, y, out, os, od) : KR(subtract2)(xs, x, ys, y, out, os, od);
#elif OP == OP_multiply
  return simd ? KS(multiply2)(xs, x, ys, y, out, os, od) : KR(multiply2)(xs, x, ys, y, out, os, od);
#elif OP == OP_divide
  return simd ? KS(divide2)(xs, x, ys, y, out, os, od) : KR(divide2)(xs, x, ys, y, out, os, od);
#else
  return (u64)-9;
#endif
}

/* binary op on 2-d operands; shapes are per-query constants: lhs (LR,LC), rhs (RR,RC) (same shape or NumPy-broadcastable) */
#ifndef LR
#define LR 2
#endif
#ifndef LC
#define LC 9
#endif
#ifndef RR
#define RR 2
#endif
#ifndef RC
#define RC 1
#endif
#define MX(a,b) ((a) > (b) ? (a) : (b))
#define MAXC2 160
void h_binary2(void){
  T x[LR*LC], y[RR*RC], o1[MAXC2], o2[MAXC2]; u64 xs[2] = {LR, LC}, ys[2] = {RR, RC}, s1[2] = {0,0}, s2[2] = {0,0}, d1 = 0, d2 = 0;
  const int rows = MX(LR,RR), cols = MX(LC,RC);
  for (int i = 0; i < LR*LC; i++) x[i] = in_T();
  for (int i = 0; i < RR*RC; i++) y[i] = in_T();
#ifdef KF_C12_BCAST_11                  /* finding: an operand of shape (1,1) against (r,c), r > 1: the SIMD enumerator reads operand[row], i.e. the */
  if (LR*LC == 1 && RR > 1) ASSUME(bits_T(x[0]) == 0);   /* value-initialised (+0.0) buffer cells behind the single element; the results differ    */
  if (RR*RC == 1 && LR > 1) ASSUME(bits_T(y[0]) == 0);   /* unless that element is itself +0.0                                                       */
#endif
  for (int i = 0; i < rows*cols; i++){ o1[i] = 0; o2[i] = 0; }
  u64 m2 = call_binary2(0, xs, x, ys, y, o2, s2, &d2);
  u64 m1 = call_binary2(1, xs, x, ys, y, o1, s1, &d1);
  ASSERT(m2 == (u64)(rows*cols) && d2 == 2 && s2[0] == (u64)rows && s2[1] == (u64)cols, "scalar evaluation returns the broadcast shape");
  ASSERT(m1 == m2 && d1 == d2 && s1[0] == s2[0] && s1[1] == s2[1], "SIMD result has the shape of the scalar result");
  for (int i = 0; i < rows*cols; i++){ ASSERT(same(o1[i], o2[i]), "SIMD element is bit-identical to the scalar element"); OBSV(o1[i]); }
  REACHED();
}
#endif /* PART 1 */

#if PART == 2
#ifndef ON
#define ON 3
#endif
#ifndef OM
#define OM 9
#endif
static u64 call_outer(int simd, const T* x, u64 n, const T* y, u64 m, T* out, u64* os, u64* od){
#if OP == OP_add
  return simd ? KS(outer_add)(x, n, y, m, out, os, od) : KR(outer_add)(x, n, y, m, out, os, od);
#elif OP == OP_subtract
  return simd ? KS(outer_subtract)(x, n, y, m, out, os, od) : KR(outer_subtract)(x, n, y, m, out, os, od);
#elif OP == OP_multiply
  return simd ? KS(outer_multiply)(x, n, y, m, out, os, od) : KR(outer_multiply)(x, n, y, m, out, os, od);
#else
  return (u64)-9;
#endif
}
/* outer op of a 1-d (ON,) with a 1-d (OM,) array: result (ON,OM); ON, OM per-query constants, all elements symbolic */
void h_outer(void){
  T x[ON], y[OM], o1[ON*OM], o2[ON*OM]; u64 s1[3] = {0,0,0}, s2[3] = {0,0,0}, d1 = 0, d2 = 0;
  for (int i = 0; i < ON; i++) x[i] = in_T();
  for (int i = 0; i < OM; i++) y[i] = in_T();
  for (int i = 0; i < ON*OM; i++){ o1[i] = 0; o2[i] = 0; }
  u64 m2 = call_outer(0, x, ON, y, OM, o2, s2, &d2);
  u64 m1 = call_outer(1, x, ON, y, OM, o1, s1, &d1);
  ASSERT(m2 == (u64)(ON*OM) && d2 == 2 && s2[0] == ON && s2[1] == OM, "scalar outer returns shape (n,m)");
  ASSERT(m1 == m2 && d1 == d2 && s1[0] == s2[0] && s1[1] == s2[1], "SIMD result has the shape of the scalar result");
  for (int i = 0; i < ON*OM; i++){ ASSERT(same(o1[i], o2[i]), "SIMD element is bit-identical to the scalar element"); OBSV(o1[i]); }
  REACHED();
}
#ifndef OR
#define OR 2
#endif
#ifndef OC
#define OC 3
#endif
static u64 call_outer2(int simd, const u64* xs, const T* x, const T* y, u64 m, T* out, u64* os, u64* od){
#if OP == OP_add
  return simd ? KS(outer2_add)(xs, x, y, m, out, os, od) : KR(outer2_add)(xs, x, y, m, out, os, od);
#elif OP == OP_subtract
  return simd ? KS(outer2_subtract)(xs, x, y, m, out, os, od) : KR(outer2_subtract)(xs, x, y, m, out, os, od);
#elif OP == OP_multiply
  return simd ? KS(outer2_multiply)(xs, x, y, m, out, os, od) : KR(outer2_multiply)(xs, x, y, m, out, os, od);
#else
  return (u64)-9;
#endif
}
/* outer op of a 2-d (OR,OC) with a 1-d (OM,) array: result (OR,OC,OM) */
void h_outer2(void){
  T x[OR*OC], y[OM], o1[OR*OC*OM], o2[OR*OC*OM]; u64 xs[2] = {OR, OC}, s1[3] = {0,0,0}, s2[3] = {0,0,0}, d1 = 0, d2 = 0;
  for (int i = 0; i < OR*OC; i++) x[i] = in_T();
  for (int i = 0; i < OM; i++) y[i] = in_T();
  for (int i = 0; i < OR*OC*OM; i++){ o1[i] = 0; o2[i] = 0; }
  u64 m2 = call_outer2(0, xs, x, y, OM, o2, s2, &d2);
  u64 m1 = call_outer2(1, xs, x, y, OM, o1, s1, &d1);
  ASSERT(m2 == (u64)(OR*OC*OM) && d2 == 3 && s2[0] == OR && s2[1] == OC && s2[2] == OM, "scalar outer returns shape (r,c,m)");
  ASSERT(m1 == m2 && d1 == d2 && s1[0] == s2[0] && s1[1] == s2[1] && s1[2] == s2[2], "SIMD result has the shape of the scalar result");
  for (int i = 0; i < OR*OC*OM; i++){ ASSERT(same(o1[i], o2[i]), "SIMD element is bit-identical to the scalar element"); OBSV(o1[i]); }
  REACHED();
}
#endif /* PART 2 */

#if PART == 3
/* Reductions. Floats are not associative and the SIMD evaluator re-associates (lane-wise partial results), so the inputs are restricted to
 * small integer-valued floats (0..VMAX): every partial sum/product is an integer below 2^24 (2^53) and therefore exact in any association
 * order; under that stated restriction the SIMD result must be bit-identical to the scalar result. */
#ifndef VMAX
#define VMAX 15
#endif
#ifndef S0
#define S0 3
#endif
#ifndef S1
#define S1 9
#endif
#ifndef S2
#define S2 1
#endif
#ifndef KD
#define KD 1
#endif
static T in_small(void){ return (T)in_u8(0, VMAX); }
#if RK == 2
static u64 call_reduce2(int simd, const u64* xs, const T* x, u32 axis, T* out, u64* os, u64* od){
#if OP == OP_add && KD
  return simd ? KS(reduce2_add_kd)(xs, x, axis, out, os, od) : KR(reduce2_add_kd)(xs, x, axis, out, os, od);
#elif OP == OP_add
  return simd ? KS(reduce2_add_nk)(xs, x, axis, out, os, od) : KR(reduce2_add_nk)(xs, x, axis, out, os, od);
#elif OP == OP_multiply && KD && TY == 0
  return simd ? KS(reduce2_multiply_kd)(xs, x, axis, out, os, od) : KR(reduce2_multiply_kd)(xs, x, axis, out, os, od);
#elif OP == OP_multiply && TY == 0
  return simd ? KS(reduce2_multiply_nk)(xs, x, axis, out, os, od) : KR(reduce2_multiply_nk)(xs, x, axis, out, os, od);
#else
  return (u64)-9;
#endif
}
/* reduction of a 2-d (S0,S1) array over AXIS (per-query constant, may be negative) with keepdims KD */
void h_reduce2(void){
  T x[S0*S1], o1[S0*S1], o2[S0*S1]; u64 xs[2] = {S0, S1}, s1[2] = {0,0}, s2[2] = {0,0}, d1 = 0, d2 = 0, ex[2];
  const int ax = (AXIS) < 0 ? (AXIS) + 2 : (AXIS);
  for (int i = 0; i < S0*S1; i++){ x[i] = in_small(); o1[i] = 0; o2[i] = 0; }
  int nd = 0; u64 numel = 1;
  for (int i = 0; i < 2; i++){ if (i == ax){ if (KD) ex[nd++] = 1; } else { ex[nd++] = xs[i]; numel *= xs[i]; } }
#if defined(KF_C12_MULREDUCE_FULL) && OP == OP_multiply   /* finding: a multiply reduction down to ONE element starts from set1(0): the SIMD product is 0 */
  if (numel == 1){ int z = 0; for (int i = 0; i < S0*S1; i++) z |= (x[i] == 0); ASSUME(z); }
#endif
  u64 m2 = call_reduce2(0, xs, x, (u32)(AXIS), o2, s2, &d2);
  u64 m1 = call_reduce2(1, xs, x, (u32)(AXIS), o1, s1, &d1);
  ASSERT(m2 == numel && d2 == (u64)nd, "scalar reduction returns NumPy's shape");
  for (int i = 0; i < 2; i++) if (i < nd) ASSERT(s2[i] == ex[i], "scalar reduction returns NumPy's shape (extent)");
  ASSERT(m1 == m2 && d1 == d2 && s1[0] == s2[0] && s1[1] == s2[1], "SIMD result has the shape of the scalar result");
  for (int i = 0; i < S0*S1; i++) if ((u64)i < numel){ ASSERT(same(o1[i], o2[i]), "SIMD reduction element equals the scalar one (exact-integer inputs)"); OBSV(o1[i]); }
  REACHED();
}
#elif RK == 3
static u64 call_reduce3(int simd, const u64* xs, const T* x, u32 axis, T* out, u64* os, u64* od){
#if OP == OP_add && KD
  return simd ? KS(reduce3_add_kd)(xs, x, axis, out, os, od) : KR(reduce3_add_kd)(xs, x, axis, out, os, od);
#elif OP == OP_add
  return simd ? KS(reduce3_add_nk)(xs, x, axis, out, os, od) : KR(reduce3_add_nk)(xs, x, axis, out, os, od);
#elif OP == OP_multiply && KD && TY == 0
  return simd ? KS(reduce3_multiply_kd)(xs, x, axis, out, os, od) : KR(reduce3_multiply_kd)(xs, x, axis, out, os, od);
#elif OP == OP_multiply && TY == 0
  return simd ? KS(reduce3_multiply_nk)(xs, x, axis, out, os, od) : KR(reduce3_multiply_nk)(xs, x, axis, out, os, od);
#else
  return (u64)-9;
#endif
}
/* reduction of a 3-d (S0,S1,S2) array over AXIS with keepdims KD */
void h_reduce3(void){
  T x[S0*S1*S2], o1[S0*S1*S2], o2[S0*S1*S2]; u64 xs[3] = {S0, S1, S2}, s1[3] = {0,0,0}, s2[3] = {0,0,0}, d1 = 0, d2 = 0, ex[3];
  const int ax = (AXIS) < 0 ? (AXIS) + 3 : (AXIS);
  for (int i = 0; i < S0*S1*S2; i++){ x[i] = in_small(); o1[i] = 0; o2[i] = 0; }
  int nd = 0; u64 numel = 1;
  for (int i = 0; i < 3; i++){ if (i == ax){ if (KD) ex[nd++] = 1; } else { ex[nd++] = xs[i]; numel *= xs[i]; } }
  u64 m2 = call_reduce3(0, xs, x, (u32)(AXIS), o2, s2, &d2);
  u64 m1 = call_reduce3(1, xs, x, (u32)(AXIS), o1, s1, &d1);
  ASSERT(m2 == numel && d2 == (u64)nd, "scalar reduction returns NumPy's shape");
  for (int i = 0; i < 3; i++) if (i < nd) ASSERT(s2[i] == ex[i], "scalar reduction returns NumPy's shape (extent)");
  ASSERT(m1 == m2 && d1 == d2 && s1[0] == s2[0] && s1[1] == s2[1] && s1[2] == s2[2], "SIMD result has the shape of the scalar result");
  for (int i = 0; i < S0*S1*S2; i++) if ((u64)i < numel){ ASSERT(same(o1[i], o2[i]), "SIMD reduction element equals the scalar one (exact-integer inputs)"); OBSV(o1[i]); }
  REACHED();
}
#else
/* axis = None over a 2-d (S0,S1) array: keepdims KD=1 -> shape (1,1); KD=0 -> scalar */
void h_reduceall(void){
  T x[S0*S1], o1[2] = {0,0}, o2[2] = {0,0}; u64 xs[2] = {S0, S1}, s1[2] = {0,0}, s2[2] = {0,0}, d1 = 0, d2 = 0;
  for (int i = 0; i < S0*S1; i++) x[i] = in_small();
#if defined(KF_C12_MULREDUCE_FULL) && OP == OP_multiply   /* finding: a multiply reduction down to ONE element starts from set1(0): the SIMD product is 0 */
  { int z = 0; for (int i = 0; i < S0*S1; i++) z |= (x[i] == 0); ASSUME(z); }
#endif
#if OP == OP_add && KD
  u64 m2 = KR(reduceall_add_kd)(xs, x, o2, s2, &d2), m1 = KS(reduceall_add_kd)(xs, x, o1, s1, &d1);
#elif OP == OP_add
  u64 m2 = KR(reduceall_add_nk)(xs, x, o2), m1 = KS(reduceall_add_nk)(xs, x, o1);
#elif OP == OP_multiply && KD
  u64 m2 = KR(reduceall_multiply_kd)(xs, x, o2, s2, &d2), m1 = KS(reduceall_multiply_kd)(xs, x, o1, s1, &d1);
#else
  u64 m2 = KR(reduceall_multiply_nk)(xs, x, o2), m1 = KS(reduceall_multiply_nk)(xs, x, o1);
#endif
#if KD
  ASSERT(m2 == 1 && d2 == 2 && s2[0] == 1 && s2[1] == 1, "scalar reduction with axis=None, keepdims returns shape (1,1)");
#else
  ASSERT(m2 == 1, "scalar reduction with axis=None returns a number");
#endif
  ASSERT(m1 == m2 && d1 == d2 && s1[0] == s2[0] && s1[1] == s2[1], "SIMD result has the shape of the scalar result");
  ASSERT(same(o1[0], o2[0]), "SIMD full reduction equals the scalar one (exact-integer inputs)"); OBSV(o1[0]);
  REACHED();
}
#endif
#endif /* PART 3 */

#if PART == 4
#ifndef TIGHTN
#define TIGHTN 5
#endif
/* tight buffers: operands are std::array objects of exactly TIGHTN cells (per-query constant selecting the kernel instance); any packed
 * load/store or tail access outside [0,TIGHTN) is a CBMC object-bounds violation of the translated evaluator */
#define KT_(op,n,w,sfx) k_tight_##op##_##n##_f_##w##sfx
#define KT__(op,n,w,sfx) KT_(op,n,w,sfx)
#define KT(op,w) KT__(op,TIGHTN,w,SFX)
void h_tight(void){
  T x[TIGHTN], y[TIGHTN], o1[TIGHTN], o2[TIGHTN]; u64 s1[2] = {0,0}, s2[2] = {0,0}, d1 = 0, d2 = 0;
  for (int i = 0; i < TIGHTN; i++){ x[i] = in_T(); y[i] = in_T(); o1[i] = 0; o2[i] = 0;
#if defined(KF_C12_RELU_NEGZERO) && OP == OP_relu   /* finding (vector-extension contexts): relu(-0.0) is +0.0 scalar, -0.0 = fmax(-0.0, 0.0) SIMD */
    ASSUME(!(bits_T(x[i]) == ((TB)1 << (sizeof(T)*8-1))));
#endif
  }
#if OP == OP_relu
  u64 m1 = KT(relu,simd)(x, o1, s1, &d1), m2 = KT(relu,ref)(x, o2, s2, &d2);
#else
  u64 m1 = KT(add,simd)(x, y, o1, s1, &d1), m2 = KT(add,ref)(x, y, o2, s2, &d2);
#endif
  ASSERT(m2 == TIGHTN && d2 == 1 && s2[0] == TIGHTN, "scalar evaluation returns the operands' shape");
  ASSERT(m1 == m2 && d1 == d2 && s1[0] == s2[0], "SIMD result has the shape of the scalar result");
  for (int i = 0; i < TIGHTN; i++){ ASSERT(same(o1[i], o2[i]), "SIMD element is bit-identical to the scalar element"); OBSV(o1[i]); }
  REACHED();
}
#endif /* PART 4 */

