/* C12: SIMD evaluation == default scalar evaluation of the same nmtools call (differential; both sides are the real code).
 * Per-query constants (enumerated): CTX (SIMD context), TY (0 float / 1 double), OP, element counts / shapes.
 * Symbolic: every element of every operand buffer (all bit patterns, incl. NaN/inf/denormals/-0 unless stated) and the op parameters.
 * Memory safety of packed loads/stores and scalar tails: CBMC's pointer/bounds obligations on the translated evaluator. */
#include "harness.h"
#ifndef CTX
#define CTX 1
#endif
#if CTX == 1
#include "C12_avx.h"
#define SFX _avx
#define BITS 256
#elif CTX == 2
#include "C12_sse.h"
#define SFX _sse
#define BITS 128
#elif CTX == 3
#include "C12_v128.h"
#define SFX _v128
#define BITS 128
#elif CTX == 4
#include "C12_v256.h"
#define SFX _v256
#define BITS 256
#elif CTX == 5
#include "C12_v512.h"
#define SFX _v512
#define BITS 512
#elif CTX == 6
#include "C12_simde.h"
#define SFX _simde
#define BITS 512
#endif
#ifndef TY
#define TY 0
#endif
#if TY == 0
typedef float T; typedef u32 TB;
#define TN f
#define in_T() in_f32()
#define bits_T(x) f32_bits(x)
#define LANES (BITS/32)
#else
typedef double T; typedef u64 TB;
#define TN d
#define in_T() in_f64()
#define bits_T(x) f64_bits(x)
#define LANES (BITS/64)
#endif
#define KS_(op,tn,sfx) k_##op##_##tn##_simd##sfx
#define KR_(op,tn,sfx) k_##op##_##tn##_ref##sfx
#define KS__(op,tn,sfx) KS_(op,tn,sfx)
#define KR__(op,tn,sfx) KR_(op,tn,sfx)
#define KS(op) KS__(op,TN,SFX)
#define KR(op) KR__(op,TN,SFX)

/* equality of results: identical bit pattern (so -0.0 != +0.0), except that any NaN equals any NaN
 * (NaN payload/sign propagation is not modelled by the solver's float theory; see ASSUMPTIONS) */
static int same(T a, T b){ return bits_T(a) == bits_T(b) || (a != a && b != b); }
static int isnan_T(T a){ return a != a; }
/* gate digest: NaNs are canonicalised (compilers may commute a+b, which changes the propagated payload) */
#define OBSV(x) OBS(isnan_T(x) ? (TB)0x7ff : bits_T(x))

/* element counts: NLIST is a per-query list of constants; every count is run in the same query */
#ifndef NLIST
#define NLIST 1, LANES-1, LANES, LANES+1, 2*LANES+3, 4*LANES+1
#endif
#define MAXN 72
static const int c12_ns[] = { NLIST };
#define NCOUNTS ((int)(sizeof(c12_ns)/sizeof(c12_ns[0])))

/* op selection: OP is a per-query constant */
#define OP_relu 1
#define OP_relu6 2
#define OP_sqrt 3
#define OP_ceil 4
#define OP_floor 5
#define OP_softsign 6
#define OP_hardswish 7
#define OP_leaky_relu 8
#define OP_prelu 9
#define OP_softshrink 10
#define OP_hardshrink 11
#define OP_hardtanh 12
#define OP_add 20
#define OP_subtract 21
#define OP_multiply 22
#define OP_divide 23
#ifndef OP
#define OP 1
#endif

static u64 call_unary(int simd, const T* in, u64 n, T p0, T p1, T* out, u64* os, u64* od){
#if OP == OP_relu
  return simd ? KS(relu)(in, n, out, os, od) : KR(relu)(in, n, out, os, od);
#elif OP == OP_relu6
  return simd ? KS(relu6)(in, n, out, os, od) : KR(relu6)(in, n, out, os, od);
#elif OP == OP_sqrt
  return simd ? KS(sqrt)(in, n, out, os, od) : KR(sqrt)(in, n, out, os, od);
#elif OP == OP_ceil
  return simd ? KS(ceil)(in, n, out, os, od) : KR(ceil)(in, n, out, os, od);
#elif OP == OP_floor
  return simd ? KS(floor)(in, n, out, os, od) : KR(floor)(in, n, out, os, od);
#elif OP == OP_softsign
  return simd ? KS(softsign)(in, n, out, os, od) : KR(softsign)(in, n, out, os, od);
#elif OP == OP_hardswish
  return simd ? KS(hardswish)(in, n, out, os, od) : KR(hardswish)(in, n, out, os, od);
#elif OP == OP_leaky_relu
  return simd ? KS(leaky_relu)(in, n, p0, out, os, od) : KR(leaky_relu)(in, n, p0, out, os, od);
#elif OP == OP_prelu
  return simd ? KS(prelu)(in, n, p0, out, os, od) : KR(prelu)(in, n, p0, out, os, od);
#elif OP == OP_softshrink
  return simd ? KS(softshrink)(in, n, p0, out, os, od) : KR(softshrink)(in, n, p0, out, os, od);
#elif OP == OP_hardshrink
  return simd ? KS(hardshrink)(in, n, p0, out, os, od) : KR(hardshrink)(in, n, p0, out, os, od);
#elif OP == OP_hardtanh
  return simd ? KS(hardtanh)(in, n, p0, p1, out, os, od) : KR(hardtanh)(in, n, p0, p1, out, os, od);
#else
  return (u64)-9;
#endif
}

/* unary element-wise op over a 1-d array of each listed element count; all elements and the op parameters symbolic */
void h_unary(void){
  T p0 = in_T(), p1 = in_T();
#ifdef NAN_FREE_PARAMS
  ASSUME(!isnan_T(p0) && !isnan_T(p1));
#endif
#if OP == OP_hardtanh
  ASSUME(p0 <= p1);                    /* hardtanh is only meaningful for min_val <= max_val (also excludes NaN parameters) */
#endif
  for (int k = 0; k < NCOUNTS; k++){
    const int n = c12_ns[k];
    T in[MAXN], o1[MAXN], o2[MAXN]; u64 s1[2] = {0,0}, s2[2] = {0,0}, d1 = 0, d2 = 0;
    for (int i = 0; i < n; i++){ in[i] = in_T(); o1[i] = 0; o2[i] = 0;
#ifdef NAN_FREE
      ASSUME(!isnan_T(in[i]));
#endif
#ifdef KF_C12_NEGZERO
      ASSUME(bits_T(in[i]) != ((TB)1 << (sizeof(T)*8-1)));
#endif
    }
    u64 m1 = call_unary(1, in, n, p0, p1, o1, s1, &d1);
    u64 m2 = call_unary(0, in, n, p0, p1, o2, s2, &d2);
    ASSERT(m2 == (u64)n && d2 == 1 && s2[0] == (u64)n, "scalar evaluation returns the input's shape");
    ASSERT(m1 == m2 && d1 == d2 && s1[0] == s2[0], "SIMD result has the shape of the scalar result");
    for (int i = 0; i < n; i++){ ASSERT(same(o1[i], o2[i]), "SIMD element is bit-identical to the scalar element"); OBSV(o1[i]); }
  }
  REACHED();
}

static u64 call_binary(int simd, const T* x, const T* y, u64 n, T* out, u64* os, u64* od){
#if OP == OP_add
  return simd ? KS(add)(x, y, n, out, os, od) : KR(add)(x, y, n, out, os, od);
#elif OP == OP_subtract
  return simd ? KS(subtract)(x, y, n, out, os, od) : KR(subtract)(x, y, n, out, os, od);
#elif OP == OP_multiply
  return simd ? KS(multiply)(x, y, n, out, os, od) : KR(multiply)(x, y, n, out, os, od);
#elif OP == OP_divide
  return simd ? KS(divide)(x, y, n, out, os, od) : KR(divide)(x, y, n, out, os, od);
#else
  return (u64)-9;
#endif
}

/* binary element-wise op over two same-shape 1-d arrays of each listed element count */
void h_binary(void){
  for (int k = 0; k < NCOUNTS; k++){
    const int n = c12_ns[k];
    T x[MAXN], y[MAXN], o1[MAXN], o2[MAXN]; u64 s1[2] = {0,0}, s2[2] = {0,0}, d1 = 0, d2 = 0;
    for (int i = 0; i < n; i++){ x[i] = in_T(); y[i] = in_T(); o1[i] = 0; o2[i] = 0; }
    u64 m1 = call_binary(1, x, y, n, o1, s1, &d1);
    u64 m2 = call_binary(0, x, y, n, o2, s2, &d2);
    ASSERT(m2 == (u64)n && d2 == 1 && s2[0] == (u64)n, "scalar evaluation returns the operands' shape");
    ASSERT(m1 == m2 && d1 == d2 && s1[0] == s2[0], "SIMD result has the shape of the scalar result");
    for (int i = 0; i < n; i++){ ASSERT(same(o1[i], o2[i]), "SIMD element is bit-identical to the scalar element"); OBSV(o1[i]); }
  }
  REACHED();
}

static u64 call_binary2(int simd, const u64* xs, const T* x, const u64* ys, const T* y, T* out, u64* os, u64* od){
#if OP == OP_add
  return simd ? KS(add2)(xs, x, ys, y, out, os, od) : KR(add2)(xs, x, ys, y, out, os, od);
#elif OP == OP_subtract
  return simd ? KS(subtract2)(xs, x, ys, y, out, os, od) : KR(subtract2)(xs, x, ys, y, out, os, od);
#elif OP == OP_multiply
  return simd ? KS(multiply2)(xs, x, ys, y, out, os, od) : KR(multiply2)(xs, x, ys, y, out, os, od);
#elif OP == OP_divide
  return simd ? KS(divide2)(xs, x, ys, y, out, os, od) : KR(divide2)(xs, x, ys, y, out, os, od);
#else
  return (u64)-9;
#endif
}

/* binary op on 2-d operands; shapes are per-query constants: lhs (LR,LC), rhs (RR,RC) (same shape or NumPy-broadcastable) */
#ifndef LR
#define LR 2
#define LC 9
#define RR 2
#define RC 1
#endif
#define MX(a,b) ((a) > (b) ? (a) : (b))
#define MAXC2 160
void h_binary2(void){
  T x[LR*LC], y[RR*RC], o1[MAXC2], o2[MAXC2]; u64 xs[2] = {LR, LC}, ys[2] = {RR, RC}, s1[2] = {0,0}, s2[2] = {0,0}, d1 = 0, d2 = 0;
  const int rows = MX(LR,RR), cols = MX(LC,RC);
  for (int i = 0; i < LR*LC; i++) x[i] = in_T();
  for (int i = 0; i < RR*RC; i++) y[i] = in_T();
  for (int i = 0; i < rows*cols; i++){ o1[i] = 0; o2[i] = 0; }
  u64 m2 = call_binary2(0, xs, x, ys, y, o2, s2, &d2);
  u64 m1 = call_binary2(1, xs, x, ys, y, o1, s1, &d1);
  ASSERT(m2 == (u64)(rows*cols) && d2 == 2 && s2[0] == (u64)rows && s2[1] == (u64)cols, "scalar evaluation returns the broadcast shape");
  ASSERT(m1 == m2 && d1 == d2 && s1[0] == s2[0] && s1[1] == s2[1], "SIMD result has the shape of the scalar result");
  for (int i = 0; i < rows*cols; i++){ ASSERT(same(o1[i], o2[i]), "SIMD element is bit-identical to the scalar element"); OBSV(o1[i]); }
  REACHED();
}
