/* C10, element type: the evaluated array holds the VIEW's elements (in the view's element type), not values narrowed to the operand's element type.
 * Operand uint8, scalar unsigned: view element (unsigned)a[i] + s (32-bit wrap-around). KIND / RES / shape constants are per-query constants. */
#include "harness.h"
#ifndef RES
#define RES 0
#endif
#if RES == 0
#include "C10_etype_old.h"
#elif RES == 1
#include "C10_etype_row.h"
#else
#include "C10_etype_col.h"
#endif
#ifndef PROG
#define PROG adds_h
#endif
#define CAT3_(a,b,c) a##b##c
#define CAT3(a,b,c) CAT3_(a,b,c)
#define CAT2_(a,b) a##b
#define CAT2(a,b) CAT2_(a,b)
#define P_adds_h 1
#define P_adds_flip_h 2
#define P_adds_f 3
#define P_adds_d 4
#define P_adds_transpose_d 5
#define P_adds_u 6
#define P_add_fu 7
#define PV CAT2(P_, PROG)
void h_etype(void){
  u64 shape[2], idx[4] = {0}, ls[4] = {0}, es[4] = {0}, ld = 0, ed = 0, esz = 0; u8 data[16] = {0}; u32 lv = 0, ev = 0;
#ifdef SH0
  shape[0] = SH0; shape[1] = SH1;
#elif PV == 3
  shape[0] = 2; shape[1] = 3;
#else
  shape[0] = in_u64(1, MAXE); shape[1] = in_u64(1, MAXE);
#endif
  for (int i = 0; i < MAXE*MAXE; i++) data[i] = in_any8();
  u32 s = in_any32();
  u64 o0 = shape[0], o1 = shape[1];
#if PV == 5
  o0 = shape[1]; o1 = shape[0];
#endif
  idx[0] = in_u64(0, MAXE - 1); idx[1] = in_u64(0, MAXE - 1); ASSUME(idx[0] < o0 && idx[1] < o1);
  int r = CAT2(k_et_, PROG)(shape, data, s, idx, 2, ls, &ld, &lv, es, &ed, &ev, &esz);
  ASSERT(r == 1, "view and evaluated array exist, index accepted");
  ASSERT(ld == 2 && ed == 2 && ls[0] == o0 && ls[1] == o1 && es[0] == o0 && es[1] == o1, "lazy and eager shapes == NumPy shape");
  u64 si = idx[0], sj = idx[1];
#if PV == 2
  sj = shape[1] - 1 - idx[1];
#elif PV == 5
  si = idx[1]; sj = idx[0];
#endif
  u32 want = (u32)data[si*shape[1] + sj] + s;
  ASSERT(lv == want, "view element == (unsigned)a[i] + s");
  ASSERT(ev == lv, "evaluated element == view element (not narrowed to the operand's element type)");
  ASSERT(esz == 4, "the evaluated array's element type is the view's element type (4 bytes)");
  OBS(ev); OBS(esz); REACHED();
}
