/* C04: list-valued arguments: repeat with per-element repeats, roll / sliding_window / expand over two axes (NumPy / documented semantics) */
#include "C04_util.h"
#include "C04_multi.h"
#ifndef MAXR
#define MAXR 3
#endif
#ifndef MAXS
#define MAXS 2
#endif
static void in_index8(u64* idx, const u64* oshape, u64 n, u64 hi){ for (u64 i = 0; i < 6; i++){ u64 v = in_u64(0, hi); idx[i] = i < n ? v : 0; ASSUME(i < n ? v < oshape[i] : 1); } }

/* np.repeat(a, [r_0..r_{n-1}], axis): one count 0..MAXR per element along axis (not all zero), axis in [-DIM, DIM) */
void h_repeat_each(void){
  u64 shape[4] = {1,1,1,1}, reps[4], idx[4], os[4] = {0}, od = 0, ex[4] = {0}, src[4] = {0,0,0,0}, total = 0; u32 data[CELLS], out = 0;
  in_shape(shape, DIM); in_data(data, NCELL);
  i32 ax = in_i32(-DIM, DIM - 1); u64 an = norm_axis(ax, DIM);
  for (u64 i = 0; i < 4; i++){ reps[i] = in_u64(0, MAXR); if (i < shape[an]) total += reps[i]; }
  ASSUME(total >= 1);
#ifdef KF_C04_REPEAT_NEGAXIS
  ASSUME(!(ax < 0));
#endif
  for (u64 k = 0; k < DIM; k++) ex[k] = (k == an) ? total : shape[k];
  in_index(idx, ex, DIM, 4*MAXR - 1);
  int r = CAT(k_repeat_each, DIM)(shape, data, reps, shape[an], (u32)ax, idx, DIM, os, &od, &out);
  ASSERT(r == 1, "repeat accepted");
  ASSERT(od == DIM, "dim kept");
  for (u64 k = 0; k < DIM; k++){ ASSERT(os[k] == ex[k], "shape[axis] == sum(repeats)"); src[k] = idx[k]; }
  { u64 c = 0, e = 0, found = 0; for (u64 i = 0; i < 4; i++) if (i < shape[an]){ c += reps[i]; if (!found && idx[an] < c){ e = i; found = 1; } } src[an] = e; }
  ASSERT(out == data[horner(src, shape, DIM)], "element j along axis == source element e with cumsum(repeats)[e-1] <= j < cumsum(repeats)[e]");
  OBS(out);
  REACHED();
}

#if DIM >= 2
static void in_axes2(i32* ax, u64* n, int distinct){ for (int i = 0; i < 2; i++){ ax[i] = in_i32(-DIM, DIM - 1); n[i] = norm_axis(ax[i], DIM); } ASSUME(!distinct || n[0] != n[1]); }
/* np.roll(a, (s0,s1) | s, (a0,a1)): two axes in [-DIM, DIM) (a repeated axis accumulates its shifts), shifts in [-2n, 2n] */
static void roll_axes(int scalar){
  u64 shape[4] = {1,1,1,1}, idx[4], os[4] = {0}, od = 0, src[4] = {0,0,0,0}, n[2]; u32 data[CELLS], sh[2], axs[2], out = 0; i32 ax[2], s[2];
  in_shape(shape, DIM); in_data(data, NCELL);
  in_axes2(ax, n, 0);
#ifdef KF_C04_ROLL_REPEATED_AXIS
  ASSUME(!(n[0] == n[1]));   /* finding: on a repeated axis the last shift wins instead of the sum */
#endif
  for (int i = 0; i < 2; i++){ s[i] = in_i32(-2*MAXE, 2*MAXE); }
  if (scalar) s[1] = s[0];
  for (int i = 0; i < 2; i++){ ASSUME(s[i] >= -2*(i32)shape[n[i]] && s[i] <= 2*(i32)shape[n[i]]); sh[i] = (u32)s[i]; axs[i] = (u32)ax[i]; }
  in_index(idx, shape, DIM, MAXE - 1);
#ifdef KF_C04_ROLL_BIGSHIFT
  for (int i = 0; i < 2; i++) ASSUME(!((i64)idx[n[i]] - s[i] < -(i64)shape[n[i]] || (i64)idx[n[i]] - s[i] >= 2*(i64)shape[n[i]]));
#endif
  int r = scalar ? CAT(k_roll_axes_scalar, DIM)(shape, data, sh[0], axs, idx, DIM, os, &od, &out) : CAT(k_roll_axes, DIM)(shape, data, sh, axs, idx, DIM, os, &od, &out);
  ASSERT(r == 1, "roll accepted");
  ASSERT(od == DIM, "dim kept");
  for (u64 k = 0; k < DIM; k++){ ASSERT(os[k] == shape[k], "shape kept"); src[k] = idx[k]; }
  for (int i = 0; i < 2; i++) src[n[i]] = (u64)pymod((i64)src[n[i]] - s[i], (i64)shape[n[i]]);   /* shifts on a repeated axis accumulate */
  ASSERT(out == data[horner(src, shape, DIM)], "result[i] == a[(i - shift_k) mod n_k] along every listed axis");
  OBS(out);
  REACHED();
}
void h_roll_axes(void){ roll_axes(0); }
void h_roll_axes_scalar(void){ roll_axes(1); }

/* sliding_window_view(a, (w0,w1), (a0,a1)): two distinct axes; result shape = a.shape with n_{a_i} - w_i + 1, followed by (w0, w1) */
void h_sliding_axes(void){
  u64 shape[4] = {1,1,1,1}, win[2], idx[6], os[8] = {0}, od = 0, ex[6] = {0}, src[4] = {0,0,0,0}, n[2]; u32 data[CELLS], axs[2], out = 0; i32 ax[2];
  in_shape(shape, DIM); in_data(data, NCELL);
  in_axes2(ax, n, 1);
  for (int i = 0; i < 2; i++){ win[i] = in_u64(1, MAXE); ASSUME(win[i] <= shape[n[i]]); axs[i] = (u32)ax[i]; }
  for (u64 k = 0; k < DIM; k++) ex[k] = shape[k];
  for (int i = 0; i < 2; i++){ ex[n[i]] -= win[i] - 1; ex[DIM + i] = win[i]; }
  in_index8(idx, ex, DIM + 2, MAXE - 1);
  int r = CAT(k_sliding_axes, DIM)(shape, data, win, axs, idx, DIM + 2, os, &od, &out);
  ASSERT(r == 1, "sliding_window accepted");
  ASSERT(od == DIM + 2, "dim + 2");
  for (u64 k = 0; k < DIM + 2; k++) ASSERT(os[k] == ex[k], "shape");
  for (u64 k = 0; k < DIM; k++) src[k] = idx[k];
  for (int i = 0; i < 2; i++) src[n[i]] += idx[DIM + i];
  ASSERT(out == data[horner(src, shape, DIM)], "element == a[..., i_k + j_k, ...]");
  OBS(out);
  REACHED();
}

/* expand(a, (a0,a1), (s0,s1) | s, fill): spacing insertion along two distinct axes */
static void expand_axes(int scalar){
  u64 shape[4] = {1,1,1,1}, sp[2], idx[4], os[4] = {0}, od = 0, ex[4] = {0}, src[4] = {0,0,0,0}, n[2]; u32 data[CELLS], axs[2], out = 0; i32 ax[2];
  in_shape(shape, DIM); in_data(data, NCELL);
  in_axes2(ax, n, 1);
  for (int i = 0; i < 2; i++){ sp[i] = in_u64(0, MAXS); axs[i] = (u32)ax[i]; }
  if (scalar) sp[1] = sp[0];
  u32 fill = in_any32();
  for (u64 k = 0; k < DIM; k++) ex[k] = shape[k];
  for (int i = 0; i < 2; i++) ex[n[i]] = shape[n[i]] + (shape[n[i]] - 1) * sp[i];
  in_index(idx, ex, DIM, MAXE + (MAXE - 1) * MAXS - 1);
  int r = scalar ? CAT(k_expand_axes_scalar, DIM)(shape, data, axs, sp[0], fill, idx, DIM, os, &od, &out) : CAT(k_expand_axes, DIM)(shape, data, axs, sp, fill, idx, DIM, os, &od, &out);
  ASSERT(r == 1, "expand accepted");
  ASSERT(od == DIM, "dim kept");
  int hit = 1;
  for (u64 k = 0; k < DIM; k++){ ASSERT(os[k] == ex[k], "shape"); src[k] = idx[k]; }
  for (int i = 0; i < 2; i++){ if (idx[n[i]] % (sp[i] + 1)) hit = 0; src[n[i]] = idx[n[i]] / (sp[i] + 1); }
  ASSERT(out == (hit ? data[horner(src, shape, DIM)] : fill), "source elements at multiples of spacing+1 on both axes, fill elsewhere");
  OBS(out);
  REACHED();
}
void h_expand_axes(void){ expand_axes(0); }
void h_expand_axes_scalar(void){ expand_axes(1); }
#endif
