/* C06: broadcasting follows NumPy's rules and is symmetric, associative, idempotent.
 * Reference (NumPy): align shapes at the trailing axis; per axis the extents must be equal or one of them 1; the result extent is the
 * maximum; missing leading axes count as 1. broadcast_to(a, s): a's shape must broadcast to exactly s (dim(a) <= dim(s));
 * element i of the result is a[i restricted to a's axes, with 0 on a's axes of extent 1].
 */
#include "harness.h"
/* every harness function is compiled only when its H_<NAME> macro is set (props/C06.py adds it to every configuration) */
#if defined(H_VBT) || defined(H_VBA) || defined(H_VBT0) || defined(H_VBA3)
#include "C06_view.h"
#else
#include "C06_broadcast.h"
#endif
#ifndef MAXD
#define MAXD 4
#endif
#ifndef MIND
#define MIND 0
#endif
#ifndef MAXE
#define MAXE 4
#endif
#ifndef CAP
#define CAP 4     /* capacity of the harness' shape arrays (8 for the static_vector<size_t,8> instantiations) */
#endif
#define CAT2(a,b) a##b
#define CAT(a,b) CAT2(a,b)

/* NumPy broadcast of two shapes; returns 1 on success and writes the result (dim *nr) */
static int np_bshape(const u64* a, u64 na, const u64* b, u64 nb, u64* e, u64* nr){
  u64 n = na > nb ? na : nb; int ok = 1; *nr = n;
  for (u64 k = 0; k < CAP; k++) if (k < n){
    u64 x = k < na ? a[na-1-k] : 1, y = k < nb ? b[nb-1-k] : 1;
    if (x != y && x != 1 && y != 1) ok = 0;
    e[n-1-k] = x > y ? x : y;
  }
  return ok;
}
static void in_shape4(u64* s){ for (int i = 0; i < CAP; i++) s[i] = in_u64(1, MAXE); }
static int same(const u64* x, u64 nx, const u64* y, u64 ny){ if (nx != ny) return 0; for (u64 i = 0; i < CAP; i++) if (i < nx && x[i] != y[i]) return 0; return 1; }

/* ---- pairs: success iff NumPy-compatible, result = per-axis max, symmetry; with IDEM also idempotence and absorption ---- */
#ifdef H_PAIR
#ifndef BS
#define BS k_bs_sv_sv
#define BSR k_bs_sv_sv
#define IDEM 1
#endif
void h_pair(void){
  u64 a[CAP], b[CAP], o[CAP] = {0}, o2[CAP] = {0}, e[CAP] = {0}, no = 0, no2 = 0, nr = 0;
#ifdef NA
  u64 na = NA;
#else
  u64 na = in_u64(MIND, MAXD);
#endif
#ifdef NB
  u64 nb = NB;
#else
  u64 nb = in_u64(MIND, MAXD);
#endif
  in_shape4(a); in_shape4(b);
#ifdef FIXA     /* operand a is a compile-time constant shape of the instantiation (per-query constant) */
  { u64 fa[CAP] = {FIXA}; for (int i = 0; i < CAP; i++) a[i] = (u64)i < na ? fa[i] : 1; }
#endif
#ifdef FIXB
  { u64 fb[CAP] = {FIXB}; for (int i = 0; i < CAP; i++) b[i] = (u64)i < nb ? fb[i] : 1; }
#endif
  int ok = np_bshape(a, na, b, nb, e, &nr);
  int r = BS(a, na, b, nb, o, &no);
  ASSERT((r != 0) == ok, "broadcast succeeds iff the right-aligned extents are equal or 1");
  if (r){ ASSERT(no == nr, "result dim == max dim"); ASSERT(same(o, no, e, nr), "result extent == per-axis maximum"); for (int i = 0; i < CAP; i++) OBS(o[i]); }
#ifndef NOSYM   /* NOSYM (std::vector kinds, to halve the formula): each argument order is its own query against the (symmetric) NumPy rule */
  int r2 = BSR(b, nb, a, na, o2, &no2);
  ASSERT((r != 0) == (r2 != 0), "symmetric: same success");
  if (r && r2) ASSERT(same(o, no, o2, no2), "symmetric: same result");
#endif
#ifdef IDEM
  { u64 t[CAP] = {0}, nt = 0;
    ASSERT(BS(a, na, a, na, t, &nt) != 0 && same(t, nt, a, na), "idempotent: a with itself is a");
    if (r){ u64 t2[CAP] = {0}, nt2 = 0;
      ASSERT(BS(a, na, o, no, t2, &nt2) != 0 && same(t2, nt2, o, no), "absorption: a with the result is the result"); } }
#endif
  OBS(r);
  REACHED();
}
#endif

/* ---- None (shape of a number) with a shape: always succeeds, result is the shape ---- */
#ifdef H_NONE
void h_none(void){
  u64 a[CAP], o[CAP] = {0}, o2[CAP] = {0}, no = 0, no2 = 0; u64 na = in_u64(0, MAXD);
  in_shape4(a);
  ASSERT(k_bs_none_sv(a, na, a, na, o, &no) != 0 && same(o, no, a, na), "None with a shape is the shape");
  ASSERT(k_bs_sv_none(a, na, a, na, o2, &no2) != 0 && same(o2, no2, a, na), "a shape with None is the shape");
  OBS(no);
  REACHED();
}
#endif

/* ---- triples: variadic fold == both groupings == NumPy, including agreement on failure ---- */
#ifdef H_TRIPLE
#ifndef B3
#define B3 sv
#endif
void h_triple(void){
  u64 a[CAP], b[CAP], c[CAP], e1[CAP] = {0}, e[CAP] = {0}, n1 = 0, nr = 0;
  u64 ov[CAP] = {0}, ol[CAP] = {0}, orr[CAP] = {0}, nv = 0, nl = 0, nrr = 0;
#ifdef NA
  u64 na = NA;
#else
  u64 na = in_u64(MIND, MAXD);
#endif
#ifdef NB
  u64 nb = NB;
#else
  u64 nb = in_u64(MIND, MAXD);
#endif
#ifdef NC
  u64 nc = NC;
#else
  u64 nc = in_u64(MIND, MAXD);
#endif
  in_shape4(a); in_shape4(b); in_shape4(c);
  int ok = np_bshape(a, na, b, nb, e1, &n1);
  if (ok) ok = np_bshape(e1, n1, c, nc, e, &nr);
#ifndef T3ONLY
#define T3ONLY 0      /* 0: all three calls in one query; 1/2/3: only the variadic / left-grouped / right-grouped call (std::vector kinds: one call per query, all against the same NumPy fold) */
#endif
  int rv = ok, rl = ok, rr = ok;
  if (T3ONLY == 0 || T3ONLY == 1){ rv = CAT(k_bs3_,B3)(a, na, b, nb, c, nc, ov, &nv);
    ASSERT((rv != 0) == ok, "three shapes broadcast iff NumPy accepts them"); if (rv) ASSERT(same(ov, nv, e, nr), "variadic result == NumPy"); }
  if (T3ONLY == 0 || T3ONLY == 2){ rl = CAT(k_bs3l_,B3)(a, na, b, nb, c, nc, ol, &nl);
    ASSERT((rl != 0) == ok, "(a,b),c accepted iff NumPy accepts"); if (rl) ASSERT(same(ol, nl, e, nr), "(a,b),c == NumPy"); }
  if (T3ONLY == 0 || T3ONLY == 3){ rr = CAT(k_bs3r_,B3)(a, na, b, nb, c, nc, orr, &nrr);
    ASSERT((rr != 0) == ok, "a,(b,c) accepted iff NumPy accepts"); if (rr) ASSERT(same(orr, nrr, e, nr), "a,(b,c) == NumPy"); }
  for (int i = 0; i < CAP; i++) OBS(ov[i] + ol[i] + orr[i]);
  OBS(rv);
  REACHED();
}
#endif
#ifdef H_QUAD
void h_quad(void){
  u64 a[CAP], b[CAP], c[CAP], d[CAP], e1[CAP] = {0}, e2[CAP] = {0}, e[CAP] = {0}, n1 = 0, n2 = 0, nr = 0, o[CAP] = {0}, no = 0;
  u64 na = in_u64(MIND, MAXD), nb = in_u64(MIND, MAXD), nc = in_u64(MIND, MAXD), nd = in_u64(MIND, MAXD);
  in_shape4(a); in_shape4(b); in_shape4(c); in_shape4(d);
  int ok = np_bshape(a, na, b, nb, e1, &n1);
  if (ok) ok = np_bshape(e1, n1, c, nc, e2, &n2);
  if (ok) ok = np_bshape(e2, n2, d, nd, e, &nr);
  int r = k_bs4_sv(a, na, b, nb, c, nc, d, nd, o, &no);
  ASSERT((r != 0) == ok, "four shapes broadcast iff NumPy accepts them");
  if (r) ASSERT(same(o, no, e, nr), "result == NumPy");
  OBS(r);
  REACHED();
}
#endif

/* ---- shape_broadcast_to(a, b): success iff a broadcasts to exactly b; result == b; free axes = prepended or stretched ---- */
#ifdef H_SBT
#ifndef SBT
#define SBT k_sbt_sv_sv
#endif
void h_sbt(void){
  u64 a[CAP], b[CAP], o[CAP] = {0}, no = 0; u8 fr[CAP] = {0};
#ifdef NA
  u64 na = NA;
#else
  u64 na = in_u64(MIND, MAXD);
#endif
#ifdef NB
  u64 nb = NB;
#else
  u64 nb = in_u64(MIND, MAXD);
#endif
  in_shape4(a); in_shape4(b);
  int ok = na <= nb;
  for (u64 k = 0; k < CAP; k++) if (ok && k < na){ u64 x = a[na-1-k], y = b[nb-1-k]; if (x != y && x != 1) ok = 0; }
  int r = SBT(a, na, b, nb, o, &no, fr);
  ASSERT((r != 0) == ok, "broadcast_to accepted iff dim(a) <= dim(b) and every aligned extent of a equals b's or is 1");
  if (r){
    ASSERT(r == 1, "free-axes flags have the dim of the result");
    ASSERT(same(o, no, b, nb), "result shape == target shape");
    for (u64 i = 0; i < CAP; i++) if (i < nb){
      int prepended = i < nb - na; u64 x = prepended ? 1 : a[i - (nb - na)];
      ASSERT((fr[i] != 0) == (prepended || x != b[i]), "free axis <=> prepended or stretched");
      OBS(fr[i]);
    }
  }
  OBS(r);
  REACHED();
}
#endif

/* ---- index::broadcast_to: destination index -> source index (stretched and prepended axes dropped) ---- */
#ifdef H_IBT
#ifndef IBT
#define IBT k_ibt_sv
#endif
void h_ibt(void){
  u64 a[CAP], b[CAP], idx[CAP], o[CAP] = {0}, no = 0;
#ifdef NA
  u64 na = NA;
#else
  u64 na = in_u64(MIND, MAXD);
#endif
#ifdef NB
  u64 nb = NB;
#else
  u64 nb = in_u64(MIND, MAXD);
#endif
  in_shape4(a); in_shape4(b);
  for (int i = 0; i < CAP; i++){ idx[i] = in_u64(0, MAXE-1); ASSUME((u64)i >= nb || idx[i] < b[i]); }
  int ok = na <= nb;
  for (u64 k = 0; k < CAP; k++) if (ok && k < na){ u64 x = a[na-1-k], y = b[nb-1-k]; if (x != y && x != 1) ok = 0; }
  ASSUME(ok);                       /* the failure side is h_sbt */
  int r = IBT(a, na, b, nb, idx, o, &no);
  ASSERT(r == 1 && no == na, "source index has the source dim");
  for (u64 j = 0; j < CAP; j++) if (j < na){ ASSERT(o[j] == (a[j] == 1 ? 0 : idx[j + (nb - na)]), "source index: the destination index on kept axes, 0 on stretched axes, prepended axes dropped"); OBS(o[j]); }
  REACHED();
}
#endif

/* ---- view level: shape and ELEMENTS of view::broadcast_to / view::broadcast_arrays over hybrid arrays with symbolic data ---- */
#if defined(H_VBT) || defined(H_VBA) || defined(H_VBT0) || defined(H_VBA3)
static void in_cells(u32* d, int n){ for (int i = 0; i < n; i++) d[i] = in_any32(); }
/* element of a (shape sa, dim sd) that NumPy's broadcast puts at index idx of a result of dim nd: right-aligned, 0 on axes of extent 1 */
static u64 src_off(const u64* sa, u64 sd, const u64* idx, u64 nd){ u64 off = 0; for (u64 j = 0; j < 3; j++) if (j < sd) off = off * sa[j] + (sa[j] == 1 ? 0 : idx[j + (nd - sd)]); return off; }
#endif
#ifdef H_VBT
#ifndef SD
#define SD 2
#define VBT k_vbt2_sv
#endif
void h_vbt(void){
  u64 sa[3] = {1,1,1}, dst[CAP], idx[CAP], os[CAP] = {0}, od = 0; u32 data[27], out = 0;
  for (int a = 0; a < SD; a++) sa[a] = in_u64(1, MAXE);
  in_cells(data, 27);
#ifdef NB
  u64 nd = NB;
#else
  u64 nd = in_u64(MIND, MAXD);
#endif
  in_shape4(dst);
  for (int i = 0; i < CAP; i++){ idx[i] = in_u64(0, MAXE-1); ASSUME((u64)i >= nd || idx[i] < dst[i]); }
  int ok = SD <= nd;
  for (u64 k = 0; k < 3; k++) if (ok && k < SD){ u64 x = sa[SD-1-k], y = dst[nd-1-k]; if (x != y && x != 1) ok = 0; }
  int r = VBT(sa, data, dst, nd, idx, nd, os, &od, &out);
  ASSERT((r != 0) == ok, "broadcast_to view exists iff NumPy broadcast_to accepts the target shape");
  if (r){
    ASSERT(r == 1 && od == nd && same(os, od, dst, nd), "view shape == target shape");
    ASSERT(out == data[src_off(sa, SD, idx, nd)], "element i == source element at i with stretched and prepended axes dropped");
    OBS(out);
  }
  OBS(r);
  REACHED();
}
#endif
#ifdef H_VBT0
void h_vbt0(void){
  u64 dst[CAP], idx[CAP], os[CAP] = {0}, od = 0; u32 v = in_any32(), out = 0; u64 nd = in_u64(1, MAXD);
  in_shape4(dst);
  for (int i = 0; i < CAP; i++){ idx[i] = in_u64(0, MAXE-1); ASSUME((u64)i >= nd || idx[i] < dst[i]); }
  int r = k_vbt0_sv(v, dst, nd, idx, nd, os, &od, &out);
  ASSERT(r == 1 && od == nd && same(os, od, dst, nd), "a number broadcasts to every shape");
  ASSERT(out == v, "every element is the number");
  OBS(out);
  REACHED();
}
#endif
#ifdef H_VBA
#ifndef DA
#define DA 2
#define DB 1
#endif
#define VBA CAT(CAT(CAT(k_vba_,DA),_),DB)
void h_vba(void){
  u64 sa[CAP] = {1,1,1,1}, sb[CAP] = {1,1,1,1}, e[CAP] = {0}, nr = 0, idx[CAP], os[CAP] = {0}, os2[CAP] = {0}, od = 0, od2 = 0; u32 da[27], db[27], out[2] = {0,0};
  for (int a = 0; a < DA; a++) sa[a] = in_u64(1, MAXE);
  for (int a = 0; a < DB; a++) sb[a] = in_u64(1, MAXE);
  in_cells(da, 27); in_cells(db, 27);
  int ok = np_bshape(sa, DA, sb, DB, e, &nr);
  for (int i = 0; i < CAP; i++){ idx[i] = in_u64(0, MAXE-1); ASSUME((u64)i >= nr || idx[i] < e[i]); }
  int r = VBA(sa, da, sb, db, idx, nr, os, &od, os2, &od2, out);
  ASSERT((r != 0) == ok, "broadcast_arrays exists iff the shapes are NumPy-compatible");
  if (r){
    ASSERT(r == 1 && od == nr && od2 == nr && same(os, od, e, nr) && same(os2, od2, e, nr), "both views have the common (per-axis max) shape");
    ASSERT(out[0] == da[src_off(sa, DA, idx, nr)], "first operand: element i == its element at i with stretched/prepended axes dropped");
    ASSERT(out[1] == db[src_off(sb, DB, idx, nr)], "second operand: element i == its element at i with stretched/prepended axes dropped");
    OBS(out[0]); OBS(out[1]);
  }
  OBS(r);
  REACHED();
}
#endif
#ifdef H_VBA3
void h_vba3(void){
  u64 sa[CAP] = {1,1,1,1}, sb[CAP] = {1,1,1,1}, sc[CAP] = {1,1,1,1}, e1[CAP] = {0}, e[CAP] = {0}, n1 = 0, nr = 0, idx[CAP], os[CAP] = {0}, od = 0; u32 da[27], db[27], dc[27], out[3] = {0,0,0};
  for (int a = 0; a < 2; a++) sa[a] = in_u64(1, MAXE);
  sb[0] = in_u64(1, MAXE);
  for (int a = 0; a < 3; a++) sc[a] = in_u64(1, MAXE);
  in_cells(da, 27); in_cells(db, 27); in_cells(dc, 27);
  int ok = np_bshape(sa, 2, sb, 1, e1, &n1);
  if (ok) ok = np_bshape(e1, n1, sc, 3, e, &nr);
  ASSUME(ok);             /* failure side: h_triple / h_vba */
  for (int i = 0; i < CAP; i++){ idx[i] = in_u64(0, MAXE-1); ASSUME((u64)i >= nr || idx[i] < e[i]); }
  int r = k_vba3_2_1_3(sa, da, sb, db, sc, dc, idx, nr, os, &od, out);
  ASSERT(r == 1 && od == nr && same(os, od, e, nr), "three operands: common shape");
  ASSERT(out[0] == da[src_off(sa, 2, idx, nr)] && out[1] == db[src_off(sb, 1, idx, nr)] && out[2] == dc[src_off(sc, 3, idx, nr)], "each operand's element");
  OBS(out[0]);
  REACHED();
}
#endif
