/* C06: broadcasting follows NumPy's rules and is symmetric, associative, idempotent.
 * Reference (NumPy): align shapes at the trailing axis; per axis the extents must be equal or one of them 1; the result extent is the
 * maximum; missing leading axes count as 1. broadcast_to(a, s): a's shape must broadcast to exactly s (dim(a) <= dim(s));
 * element i of the result is a[i restricted to a's axes, with 0 on a's axes of extent 1].
 */
#include "harness.h"
/* every harness function is compiled only when its H_<NAME> macro is set (props/C06.py adds it to every configuration) */
#if defined(H_VBT) || defined(H_VBA)
#include "C06_view.h"
#else
#include "C06_broadcast.h"
#endif
#ifndef MAXD
#define MAXD 4
#endif
#ifndef MIND
#define MIND 0
#endif
#ifndef MAXE
#define MAXE 4
#endif
#define CAT2(a,b) a##b
#define CAT(a,b) CAT2(a,b)

/* NumPy broadcast of two shapes; returns 1 on success and writes the result (dim *nr) */
static int np_bshape(const u64* a, u64 na, const u64* b, u64 nb, u64* e, u64* nr){
  u64 n = na > nb ? na : nb; int ok = 1; *nr = n;
  for (u64 k = 0; k < 4; k++) if (k < n){
    u64 x = k < na ? a[na-1-k] : 1, y = k < nb ? b[nb-1-k] : 1;
    if (x != y && x != 1 && y != 1) ok = 0;
    e[n-1-k] = x > y ? x : y;
  }
  return ok;
}
static void in_shape4(u64* s){ for (int i = 0; i < 4; i++) s[i] = in_u64(1, MAXE); }
static int same(const u64* x, u64 nx, const u64* y, u64 ny){ if (nx != ny) return 0; for (u64 i = 0; i < 4; i++) if (i < nx && x[i] != y[i]) return 0; return 1; }

/* ---- pairs: success iff NumPy-compatible, result = per-axis max, symmetry; with IDEM also idempotence and absorption ---- */
#ifdef H_PAIR
#ifndef BS
#define BS k_bs_sv_sv
#define BSR k_bs_sv_sv
#define IDEM 1
#endif
void h_pair(void){
  u64 a[4], b[4], o[4] = {0,0,0,0}, o2[4] = {0,0,0,0}, e[4] = {0,0,0,0}, no = 0, no2 = 0, nr = 0;
#ifdef NA
  u64 na = NA;
#else
  u64 na = in_u64(MIND, MAXD);
#endif
#ifdef NB
  u64 nb = NB;
#else
  u64 nb = in_u64(MIND, MAXD);
#endif
  in_shape4(a); in_shape4(b);
  int ok = np_bshape(a, na, b, nb, e, &nr);
  int r = BS(a, na, b, nb, o, &no);
  ASSERT((r != 0) == ok, "broadcast succeeds iff the right-aligned extents are equal or 1");
  if (r){ ASSERT(no == nr, "result dim == max dim"); ASSERT(same(o, no, e, nr), "result extent == per-axis maximum"); for (int i = 0; i < 4; i++) OBS(o[i]); }
#ifndef NOSYM   /* NOSYM (std::vector kinds, to halve the formula): each argument order is its own query against the (symmetric) NumPy rule */
  int r2 = BSR(b, nb, a, na, o2, &no2);
  ASSERT((r != 0) == (r2 != 0), "symmetric: same success");
  if (r && r2) ASSERT(same(o, no, o2, no2), "symmetric: same result");
#endif
#ifdef IDEM
  { u64 t[4] = {0,0,0,0}, nt = 0;
    ASSERT(BS(a, na, a, na, t, &nt) != 0 && same(t, nt, a, na), "idempotent: a with itself is a");
    if (r){ u64 t2[4] = {0,0,0,0}, nt2 = 0;
      ASSERT(BS(a, na, o, no, t2, &nt2) != 0 && same(t2, nt2, o, no), "absorption: a with the result is the result"); } }
#endif
  OBS(r);
  REACHED();
}
#endif

/* ---- None (shape of a number) with a shape: always succeeds, result is the shape ---- */
#ifdef H_NONE
void h_none(void){
  u64 a[4], o[4] = {0,0,0,0}, o2[4] = {0,0,0,0}, no = 0, no2 = 0; u64 na = in_u64(0, MAXD);
  in_shape4(a);
  ASSERT(k_bs_none_sv(a, na, a, na, o, &no) != 0 && same(o, no, a, na), "None with a shape is the shape");
  ASSERT(k_bs_sv_none(a, na, a, na, o2, &no2) != 0 && same(o2, no2, a, na), "a shape with None is the shape");
  OBS(no);
  REACHED();
}
#endif

/* ---- triples: variadic fold == both groupings == NumPy, including agreement on failure ---- */
#ifdef H_TRIPLE
#ifndef B3
#define B3 sv
#endif
void h_triple(void){
  u64 a[4], b[4], c[4], e1[4] = {0,0,0,0}, e[4] = {0,0,0,0}, n1 = 0, nr = 0;
  u64 ov[4] = {0,0,0,0}, ol[4] = {0,0,0,0}, orr[4] = {0,0,0,0}, nv = 0, nl = 0, nrr = 0;
#ifdef NA
  u64 na = NA;
#else
  u64 na = in_u64(MIND, MAXD);
#endif
#ifdef NB
  u64 nb = NB;
#else
  u64 nb = in_u64(MIND, MAXD);
#endif
#ifdef NC
  u64 nc = NC;
#else
  u64 nc = in_u64(MIND, MAXD);
#endif
  in_shape4(a); in_shape4(b); in_shape4(c);
  int ok = np_bshape(a, na, b, nb, e1, &n1);
  if (ok) ok = np_bshape(e1, n1, c, nc, e, &nr);
  int rv = CAT(k_bs3_,B3)(a, na, b, nb, c, nc, ov, &nv);
  int rl = CAT(k_bs3l_,B3)(a, na, b, nb, c, nc, ol, &nl);
  int rr = CAT(k_bs3r_,B3)(a, na, b, nb, c, nc, orr, &nrr);
  ASSERT((rv != 0) == ok, "three shapes broadcast iff NumPy accepts them");
  ASSERT((rl != 0) == ok && (rr != 0) == ok, "both groupings agree with the variadic call on success/failure");
  if (ok && rv && rl && rr){
    ASSERT(same(ov, nv, e, nr), "variadic result == NumPy");
    ASSERT(same(ol, nl, e, nr), "(a,b),c == NumPy");
    ASSERT(same(orr, nrr, e, nr), "a,(b,c) == NumPy");
    for (int i = 0; i < 4; i++) OBS(ov[i]);
  }
  OBS(rv);
  REACHED();
}
#endif
#ifdef H_QUAD
void h_quad(void){
  u64 a[4], b[4], c[4], d[4], e1[4] = {0,0,0,0}, e2[4] = {0,0,0,0}, e[4] = {0,0,0,0}, n1 = 0, n2 = 0, nr = 0, o[4] = {0,0,0,0}, no = 0;
  u64 na = in_u64(MIND, MAXD), nb = in_u64(MIND, MAXD), nc = in_u64(MIND, MAXD), nd = in_u64(MIND, MAXD);
  in_shape4(a); in_shape4(b); in_shape4(c); in_shape4(d);
  int ok = np_bshape(a, na, b, nb, e1, &n1);
  if (ok) ok = np_bshape(e1, n1, c, nc, e2, &n2);
  if (ok) ok = np_bshape(e2, n2, d, nd, e, &nr);
  int r = k_bs4_sv(a, na, b, nb, c, nc, d, nd, o, &no);
  ASSERT((r != 0) == ok, "four shapes broadcast iff NumPy accepts them");
  if (r) ASSERT(same(o, no, e, nr), "result == NumPy");
  OBS(r);
  REACHED();
}
#endif

/* ---- shape_broadcast_to(a, b): success iff a broadcasts to exactly b; result == b; free axes = prepended or stretched ---- */
#ifdef H_SBT
#ifndef SBT
#define SBT k_sbt_sv_sv
#endif
void h_sbt(void){
  u64 a[4], b[4], o[4] = {0,0,0,0}, no = 0; u8 fr[4] = {0,0,0,0};
#ifdef NA
  u64 na = NA;
#else
  u64 na = in_u64(MIND, MAXD);
#endif
#ifdef NB
  u64 nb = NB;
#else
  u64 nb = in_u64(MIND, MAXD);
#endif
  in_shape4(a); in_shape4(b);
  int ok = na <= nb;
  for (u64 k = 0; k < 4; k++) if (ok && k < na){ u64 x = a[na-1-k], y = b[nb-1-k]; if (x != y && x != 1) ok = 0; }
  int r = SBT(a, na, b, nb, o, &no, fr);
  ASSERT((r != 0) == ok, "broadcast_to accepted iff dim(a) <= dim(b) and every aligned extent of a equals b's or is 1");
  if (r){
    ASSERT(r == 1, "free-axes flags have the dim of the result");
    ASSERT(same(o, no, b, nb), "result shape == target shape");
    for (u64 i = 0; i < 4; i++) if (i < nb){
      int prepended = i < nb - na; u64 x = prepended ? 1 : a[i - (nb - na)];
      ASSERT((fr[i] != 0) == (prepended || x != b[i]), "free axis <=> prepended or stretched");
      OBS(fr[i]);
    }
  }
  OBS(r);
  REACHED();
}
#endif

/* ---- index::broadcast_to: destination index -> source index (stretched and prepended axes dropped) ---- */
#ifdef H_IBT
#ifndef IBT
#define IBT k_ibt_sv
#endif
void h_ibt(void){
  u64 a[4], b[4], idx[4], o[4] = {0,0,0,0}, no = 0;
#ifdef NA
  u64 na = NA;
#else
  u64 na = in_u64(MIND, MAXD);
#endif
#ifdef NB
  u64 nb = NB;
#else
  u64 nb = in_u64(MIND, MAXD);
#endif
  in_shape4(a); in_shape4(b);
  for (int i = 0; i < 4; i++){ idx[i] = in_u64(0, MAXE-1); ASSUME((u64)i >= nb || idx[i] < b[i]); }
  int ok = na <= nb;
  for (u64 k = 0; k < 4; k++) if (ok && k < na){ u64 x = a[na-1-k], y = b[nb-1-k]; if (x != y && x != 1) ok = 0; }
  ASSUME(ok);                       /* the failure side is h_sbt */
  int r = IBT(a, na, b, nb, idx, o, &no);
  ASSERT(r == 1 && no == na, "source index has the source dim");
  for (u64 j = 0; j < 4; j++) if (j < na){ ASSERT(o[j] == (a[j] == 1 ? 0 : idx[j + (nb - na)]), "source index: the destination index on kept axes, 0 on stretched axes, prepended axes dropped"); OBS(o[j]); }
  REACHED();
}
#endif
