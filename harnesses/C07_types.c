/* C07 (c): result element type of binary element-wise views == C's usual arithmetic conversions (bool for comparisons / logical ops).
 * TYPE-LEVEL: the kernels return compile-time constants describing the view's element type; there is no symbolic variable here. */
#include "harness.h"
#include "C07_leaf.def"
#include "C07_types.h"
typedef float f32; typedef double f64;
#define SGN(e) ((__typeof__(e))-1 < 0)
#define ISFLT(e) ((__typeof__(e))0.5 != 0)
#define CCODE(e) (u32)(ISFLT(e) ? 1000 + (int)sizeof(e) : (SGN(e) ? 100 : 0) + (int)sizeof(e))
#define BOOLCODE 2001u
#ifdef KF_C07_MINMAX_SCALAR
#define RET_S_maximum(c) 1      /* known finding: with a scalar operand operator() returns the ARRAY's element type (see props/C07.py) */
#else
#define RET_S_maximum(c) (c)
#endif
#define RET_S_add(c) (c)
#define RET_S_multiply(c) (c)
#define RET_S_divide(c) (c)
#define RET_S_less(c) (c)
#define RET_S_logical_and(c) (c)
#define RET_S_bitwise_and(c) (c)
#define RET_S_left_shift(c) (c)
#define TCHK(op, T, U, EXP) { u32 o[2] = {0, 0}; k_ty_##op##_##T##_##U(o); \
  ASSERT(o[0] == (EXP), "declared element type of " #op "(" #T "[1]," #U "[1]) == C result type"); ASSERT(o[1] == (EXP), "type returned by operator() of " #op "(" #T "[1]," #U "[1]) == C result type"); OBS(o[0]); OBS(o[1]); \
  o[0] = o[1] = 0; k_tys_##op##_##T##_##U(o); \
  ASSERT(o[0] == (EXP), "declared element type of " #op "(" #T "[1]," #U " scalar) == C result type"); ASSERT(RET_S_##op(o[1] == (EXP)), "type returned by operator() of " #op "(" #T "[1]," #U " scalar) == C result type"); OBS(o[0]); OBS(o[1]); }
#define T_add(op,T,U)         TCHK(op,T,U, CCODE((T)1 + (U)1))
#define T_multiply(op,T,U)    TCHK(op,T,U, CCODE((T)1 * (U)1))
#define T_divide(op,T,U)      TCHK(op,T,U, CCODE((T)1 / (U)1))
#define T_maximum(op,T,U)     TCHK(op,T,U, CCODE(1 ? (T)1 : (U)1))
#define T_less(op,T,U)        TCHK(op,T,U, BOOLCODE)
#define T_logical_and(op,T,U) TCHK(op,T,U, BOOLCODE)
#define T_bitwise_and(op,T,U) TCHK(op,T,U, CCODE((T)1 & (U)1))
#define T_left_shift(op,T,U)  TCHK(op,T,U, CCODE((T)1 << (U)1))
void h_ty_add(void){         C07_TY_PAIRS(T_add, add) REACHED(); }
void h_ty_multiply(void){    C07_TY_PAIRS(T_multiply, multiply) REACHED(); }
void h_ty_divide(void){      C07_TY_PAIRS(T_divide, divide) REACHED(); }
void h_ty_maximum(void){     C07_TY_PAIRS(T_maximum, maximum) REACHED(); }
void h_ty_less(void){        C07_TY_PAIRS(T_less, less) REACHED(); }
void h_ty_logical_and(void){ C07_TY_PAIRS(T_logical_and, logical_and) REACHED(); }
void h_ty_bitwise_and(void){ C07_TYI_PAIRS(T_bitwise_and, bitwise_and) REACHED(); }
void h_ty_left_shift(void){  C07_TYI_PAIRS(T_left_shift, left_shift) REACHED(); }
void h_ty_outer_dtype(void){
  u32 o[4] = {0}; k_ty_outer_dtype(o);
  ASSERT(o[0] == CCODE((i8)1 - (i32)1), "outer_subtract(int8, int32): C result type (int)");
  ASSERT(o[1] == 1004, "outer_subtract(..., dtype=float32) has element type float");
  ASSERT(o[2] == 108, "outer_subtract(..., dtype=int64) has element type int64");
  ASSERT(o[3] == 1, "outer_subtract(..., dtype=uint8) has element type uint8");
  OBS(o[0]); OBS(o[1]); OBS(o[2]); OBS(o[3]); REACHED();
}
