/* C17 (structural): result shapes of softmax/softmin, normalisations, linear/bilinear, distances with symbolic extents.
 * No float arithmetic is evaluated: only "has a value" and the shape of the constructed view are asserted. */
#include "harness.h"
#include "C17_shapes.h"
#ifndef MAXE
#define MAXE 3
#endif
static void in_sh(u64* s, int n){ for (int i = 0; i < n; i++) s[i] = in_u64(1, MAXE); }
static void same(int r, u64 od, const u64* os, const u64* e, u64 n){ ASSERT(r == 1, "has a value"); ASSERT(od == n, "dim"); for (u64 i = 0; i < 4; i++) if (i < n) ASSERT(os[i] == e[i], "extent"); }
void h_softmax_shape(void){ u64 s[2], os[4] = {0}, od = 0; in_sh(s, 2); i32 ax = in_i32(-2, 1);
  int r = k_softmax_shape(s, (u32)ax, os, &od); same(r, od, os, s, 2); OBS(od); REACHED(); }
void h_softmin_shape(void){ u64 s[2], os[4] = {0}, od = 0; in_sh(s, 2); i32 ax = in_i32(-2, 1);
  int r = k_softmin_shape(s, (u32)ax, os, &od); same(r, od, os, s, 2); OBS(od); REACHED(); }
void h_linear_shape(void){ u64 sx[2], sw[2], os[4] = {0}, od = 0, e[2]; in_sh(sx, 2); in_sh(sw, 2); sw[1] = sx[1];
  int r = k_linear_shape(sx, sw, os, &od); e[0] = sx[0]; e[1] = sw[0]; same(r, od, os, e, 2); OBS(od); REACHED(); }
void h_bilinear_shape(void){ u64 sl[2], sr[2], sw[3], os[4] = {0}, od = 0, e[2]; in_sh(sl, 2); in_sh(sr, 2); in_sh(sw, 3); sr[0] = sl[0]; sw[1] = sl[1]; sw[2] = sr[1];
  int r = k_bilinear_shape(sl, sr, sw, os, &od); e[0] = sl[0]; e[1] = sw[0]; same(r, od, os, e, 2); OBS(od); REACHED(); }
void h_pairwise_distance_shape(void){ u64 sl[2], sr[2], os[4] = {0}, od = 0; in_sh(sl, 2); sr[0] = sl[0]; sr[1] = sl[1];
  int r = k_pairwise_distance_shape(sl, sr, os, &od); same(r, od, os, sl, 1); OBS(od); REACHED(); }
void h_cosine_similarity_shape(void){ u64 sl[2], sr[2], os[4] = {0}, od = 0; in_sh(sl, 2); sr[0] = sl[0]; sr[1] = sl[1];
  int r = k_cosine_similarity_shape(sl, sr, os, &od); same(r, od, os, sl, 1); OBS(od); REACHED(); }
void h_batch_norm_shape(void){ u64 s[4], os[4] = {0}, od = 0; in_sh(s, 4); ASSUME(s[0]*s[1]*s[2]*s[3] <= 36);
  int r = k_batch_norm_shape(s, os, &od); same(r, od, os, s, 4); OBS(od); REACHED(); }
void h_instance_norm_shape(void){ u64 s[4], os[4] = {0}, od = 0; in_sh(s, 4); ASSUME(s[0]*s[1]*s[2]*s[3] <= 36);
  int r = k_instance_norm_shape(s, os, &od); same(r, od, os, s, 4); OBS(od); REACHED(); }
void h_group_norm_shape(void){ u64 s[4], os[4] = {0}, od = 0; in_sh(s, 4); ASSUME(s[0]*s[1]*s[2]*s[3] <= 36); u64 g = in_u64(1, MAXE); ASSUME(s[1] % g == 0);
  int r = k_group_norm_shape(s, g, os, &od); same(r, od, os, s, 4); OBS(od); REACHED(); }
void h_layer_norm_shape(void){ u64 s[4], os[4] = {0}, od = 0; in_sh(s, 4); ASSUME(s[0]*s[1]*s[2]*s[3] <= 36);
  int r = k_layer_norm_shape(s, os, &od); same(r, od, os, s, 4); OBS(od); REACHED(); }
