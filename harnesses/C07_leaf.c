/* C07 (b): per-op leaf checks. Every scalar functor, applied THROUGH its view (one-element array, scalar right operand), equals the
 * C expression on the same operand types (C's integer promotions / usual arithmetic conversions), on symbolic scalars.
 * One symbolic 64-bit pattern per operand is re-interpreted in every dtype (low bits), so each check is over the dtype's whole range
 * unless a domain guard says otherwise (guards = the inputs on which the C++ expression itself is undefined: signed overflow,
 * division by zero, out-of-range shifts; signed multiplication is additionally bounded in magnitude, see props/C07.py). */
#include "harness.h"
#include "C07_leaf.def"
typedef __int128 w128;
#define SGN(e) ((__typeof__(e))-1 < 0)                          /* is the (promoted) type of e signed? (e is not evaluated) */
#define FITS(w, e) ((w) == (w128)(__typeof__(e))(w))            /* does the exact value w fit the type of e? */
#define RMIN(e) (sizeof(e) == 4 ? (w128)INT32_MIN : (w128)INT64_MIN)
#define WIDTH(e) ((w128)(8 * sizeof(e)))
static inline float as_f32(u64 b){ union { u32 b; float f; } x; x.b = (u32)b; return x.f; }
static inline double as_f64(u64 b){ union { u64 b; double f; } x; x.b = b; return x.f; }
typedef float f32; typedef double f64;
#define V_i8(b)  ((i8)(b))
#define V_i32(b) ((i32)(b))
#define V_u32(b) ((u32)(b))
#define V_i64(b) ((i64)(b))
#define V_u64(b) ((u64)(b))
#define V_f32(b) as_f32(b)
#define V_f64(b) as_f64(b)
#define A_f32(x) (x)
#define A_f64(x) (x)
#define A_i8(x)  ((u32)(i32)(x))
#define A_i32(x) ((u32)(x))
#define A_u32(x) ((u32)(x))
#define A_i64(x) ((u64)(x))
#define A_u64(x) ((u64)(x))
/* optional per-query restriction to one dtype (pair): -DONLY_T=<id> [-DONLY_U=<id>] with ids i8=1 i32=2 u32=3 i64=4 u64=5 f32=6 f64=7 */
#define ID_i8 1
#define ID_i32 2
#define ID_u32 3
#define ID_i64 4
#define ID_u64 5
#define ID_f32 6
#define ID_f64 7
#ifndef ONLY_T
#define ONLY_T 0
#endif
#ifndef ONLY_U
#define ONLY_U 0
#endif
#define SEL1(T) (ONLY_T == 0 || ID_##T == ONLY_T)
#define SEL2(T,U) ((ONLY_T == 0 || ID_##T == ONLY_T) && (ONLY_U == 0 || ID_##U == ONLY_U))
#ifndef MULBITS
#define MULBITS 15
#endif
#define SMALL(v) ((i64)(v) > -((i64)1 << MULBITS) && (i64)(v) < ((i64)1 << MULBITS))   /* only used for signed operands */

#ifdef LEAF_INT
#include "C07_leaf_int.h"
#define UCHK(op, T, DOM, EXPR) if (SEL1(T)) { T x = V_##T(xb); if (DOM) { u64 out = 0; int r = k_##op##_##T(A_##T(x), &out); \
  ASSERT(r == 1, #op "(" #T "): view exists"); ASSERT((i64)out == (i64)(EXPR), #op "(" #T ") == " #EXPR " in C's result type"); OBS(out); } }
#define BCHK(op, T, U, DOM, EXPR) if (SEL2(T,U)) { T x = V_##T(xb); U y = V_##U(yb); if (DOM) { u64 out = 0; int r = k_##op##_##T##_##U(A_##T(x), A_##U(y), &out); \
  ASSERT(r == 1, #op "(" #T "," #U "): view exists"); ASSERT((i64)out == (i64)(EXPR), #op "(" #T "," #U ") == " #EXPR " in C's result type"); OBS(out); } }
#define NODIV0 ((w128)y != 0 && !(SGN(x / y) && (w128)x == RMIN(x / y) && (w128)y == -1))
#define SHIFT_OK ((w128)y >= 0 && (w128)y < WIDTH(x << y))
#define CHK_negative(op,T)     UCHK(op,T, !SGN(-x) || FITS(-(w128)x, -x), -x)
#define CHK_positive(op,T)     UCHK(op,T, 1, +x)
#define CHK_invert(op,T)       UCHK(op,T, 1, ~x)
#define CHK_logical_not(op,T)  UCHK(op,T, 1, !x)
#define CHK_square(op,T)       UCHK(op,T, !SGN(x * x) || SMALL(x), x * x)
#define CHK_reciprocal(op,T)   UCHK(op,T, x != 0, 1 / x)
#define CHK_add(op,T,U)        BCHK(op,T,U, !SGN(x + y) || FITS((w128)x + (w128)y, x + y), x + y)
#define CHK_subtract(op,T,U)   BCHK(op,T,U, !SGN(x - y) || FITS((w128)x - (w128)y, x - y), x - y)
#define CHK_multiply(op,T,U)   BCHK(op,T,U, !SGN(x * y) || (SMALL(x) && SMALL(y)), x * y)
#define CHK_divide(op,T,U)     BCHK(op,T,U, NODIV0, x / y)
#define CHK_mod(op,T,U)        BCHK(op,T,U, NODIV0, x % y)
#define CHK_bitwise_and(op,T,U) BCHK(op,T,U, 1, x & y)
#define CHK_bitwise_or(op,T,U)  BCHK(op,T,U, 1, x | y)
#define CHK_bitwise_xor(op,T,U) BCHK(op,T,U, 1, x ^ y)
#define CHK_left_shift(op,T,U)  BCHK(op,T,U, SHIFT_OK && (!SGN(x << y) || ((w128)x >= 0 && FITS((w128)x << y, x << y))), x << y)
#define CHK_right_shift(op,T,U) BCHK(op,T,U, SHIFT_OK, x >> y)
#define CHK_equal(op,T,U)         BCHK(op,T,U, 1, x == y)
#define CHK_not_equal(op,T,U)     BCHK(op,T,U, 1, x != y)
#define CHK_less(op,T,U)          BCHK(op,T,U, 1, x < y)
#define CHK_less_equal(op,T,U)    BCHK(op,T,U, 1, x <= y)
#define CHK_greater(op,T,U)       BCHK(op,T,U, 1, x > y)
#define CHK_greater_equal(op,T,U) BCHK(op,T,U, 1, x >= y)
#define CHK_logical_and(op,T,U)   BCHK(op,T,U, 1, x && y)
#define CHK_logical_or(op,T,U)    BCHK(op,T,U, 1, x || y)
#define CHK_logical_xor(op,T,U)   BCHK(op,T,U, 1, (x != 0) ^ (y != 0))
#ifdef KF_C07_MINMAX_SCALAR
/* known finding (props/C07.py PENDING_FINDINGS): with a SCALAR operand the conditional operator inside maximum_t/minimum_t converts the scalar
 * (which arrives as a num-view object) to the array's element type T; the excluded region is exactly where that changes the value */
#define MMI_OK(T, cmp) ((i64)(x cmp y ? x : y) == (i64)(T)(x cmp y ? x : (T)y))
#else
#define MMI_OK(T, cmp) 1
#endif
#define CHK_maximum(op,T,U)       BCHK(op,T,U, MMI_OK(T, >), x > y ? x : y)
#define CHK_minimum(op,T,U)       BCHK(op,T,U, MMI_OK(T, <), x < y ? x : y)
#define BCHK_AA(op, T, U, EXPR) if (SEL2(T,U)) { T x = V_##T(xb); U y = V_##U(yb); u64 out = 0; int r = k_##op##_aa_##T##_##U(A_##T(x), A_##U(y), &out); \
  ASSERT(r == 1, #op "(" #T "[1]," #U "[1]): view exists"); ASSERT((i64)out == (i64)(EXPR), #op "(" #T "[1]," #U "[1]) == " #EXPR " in C's result type"); OBS(out); }
#define CHK_maximum_aa(op,T,U)    BCHK_AA(op,T,U, x > y ? x : y)
#define CHK_minimum_aa(op,T,U)    BCHK_AA(op,T,U, x < y ? x : y)
#define U1(op) C07_INT_TYPES(CHK_##op, op)
#define B1(op) C07_INT_PAIRS(CHK_##op, op)
void h_li_unary(void){   u64 xb = in_bits(); U1(negative) U1(positive) U1(invert) U1(logical_not) REACHED(); }
void h_li_addsub(void){  u64 xb = in_bits(), yb = in_bits(); B1(add) B1(subtract) REACHED(); }
void h_li_mul(void){     u64 xb = in_bits(), yb = in_bits(); B1(multiply) REACHED(); }
void h_li_square(void){  u64 xb = in_bits(); U1(square) REACHED(); }
void h_li_divmod(void){  u64 xb = in_bits(), yb = in_bits(); B1(divide) B1(mod) U1(reciprocal) REACHED(); }
void h_li_bitwise(void){ u64 xb = in_bits(), yb = in_bits(); B1(bitwise_and) B1(bitwise_or) B1(bitwise_xor) REACHED(); }
void h_li_shift(void){   u64 xb = in_bits(), yb = in_bits(); B1(left_shift) B1(right_shift) REACHED(); }
void h_li_cmp(void){     u64 xb = in_bits(), yb = in_bits(); B1(equal) B1(not_equal) B1(less) B1(less_equal) B1(greater) B1(greater_equal) REACHED(); }
void h_li_logical(void){ u64 xb = in_bits(), yb = in_bits(); B1(logical_and) B1(logical_or) B1(logical_xor) REACHED(); }
void h_li_minmax(void){  u64 xb = in_bits(), yb = in_bits(); B1(maximum) B1(minimum) REACHED(); }
void h_li_minmax_aa(void){ u64 xb = in_bits(), yb = in_bits(); C07_INT_PAIRS(CHK_maximum_aa, maximum) C07_INT_PAIRS(CHK_minimum_aa, minimum) REACHED(); }
#endif

#ifdef LEAF_FLT
#include <math.h>
#include "C07_leaf_flt.h"
/* Transcendental functions are UNINTERPRETED for the solver (same symbol on the kernel side and on the reference side): what is decided for
 * them is only that the view calls the right library function, in the right precision, on the right argument(s). Natively (gate, replay) libm is used. */
#ifndef NMV_NATIVE
#define UF1(cd, cf) double __CPROVER_uninterpreted_##cd(double); double cd(double x){ return __CPROVER_uninterpreted_##cd(x); } \
                    float __CPROVER_uninterpreted_##cf(float); float cf(float x){ return __CPROVER_uninterpreted_##cf(x); }
#define UF2(cd, cf) double __CPROVER_uninterpreted_##cd(double, double); double cd(double x, double y){ return __CPROVER_uninterpreted_##cd(x, y); } \
                    float __CPROVER_uninterpreted_##cf(float, float); float cf(float x, float y){ return __CPROVER_uninterpreted_##cf(x, y); }
#define ZUF1(op, cd, cf) UF1(cd, cf)
C07_FLT_UNOPS_TRANS(ZUF1)
UF2(pow, powf) UF2(atan2, atan2f) UF2(hypot, hypotf)
UF2(fmod, fmodf)   /* CBMC's exact fmod model gives no verdict in 300 s; treated like the transcendental ones */
double __CPROVER_uninterpreted_ldexp(double, int); double ldexp(double x, int n){ return __CPROVER_uninterpreted_ldexp(x, n); }
float __CPROVER_uninterpreted_ldexpf(float, int); float ldexpf(float x, int n){ return __CPROVER_uninterpreted_ldexpf(x, n); }
#endif
static inline int same_d(double a, double b){ return (a != a && b != b) || f64_bits(a) == f64_bits(b); }   /* NaN == NaN, -0 != +0 */
static inline u64 canon_d(double a){ return a != a ? 0x7ff8000000000000ull : f64_bits(a); }
/* C library call in the precision C++'s <cmath> overloads select: float only when every argument is float, otherwise double */
#define M1_f32(cd, cf, x) cf(x)
#define M1_f64(cd, cf, x) cd(x)
#define M1_i32(cd, cf, x) cd((double)(x))
#define M2_f32_f32(cd, cf, x, y) cf(x, y)
#define M2_f64_f64(cd, cf, x, y) cd(x, y)
#define M2_i32_f32(cd, cf, x, y) cd((double)(x), (double)(y))
#define M2_f32_i32(cd, cf, x, y) cd((double)(x), (double)(y))
#define M2_f32_f64(cd, cf, x, y) cd((double)(x), (double)(y))
#define M2_i64_f32(cd, cf, x, y) cd((double)(x), (double)(y))
#define M2_u32_f64(cd, cf, x, y) cd((double)(x), (double)(y))
#define FUCHK(op, T, DOM, EXPR) if (SEL1(T)) { T x = V_##T(xb); if (DOM) { double out = 0; int r = k_##op##_##T(A_##T(x), &out); \
  ASSERT(r == 1, #op "(" #T "): view exists"); ASSERT(same_d(out, (double)(EXPR)), #op "(" #T ") == " #EXPR " (bit-exact, in C's result type)"); OBS(canon_d(out)); } }
#define PUCHK(op, T, EXPR) if (SEL1(T)) { T x = V_##T(xb); u64 out = 7; int r = k_##op##_##T(A_##T(x), &out); \
  ASSERT(r == 1, #op "(" #T "): view exists"); ASSERT((out == 1 || out == 0) && (out != 0) == ((EXPR) != 0), #op "(" #T ") == " #EXPR); OBS(out); }
#define FBCHK(K, op, T, U, DOM, EXPR) if (SEL2(T,U)) { T x = V_##T(xb); U y = V_##U(yb); if (DOM) { double out = 0; int r = K(A_##T(x), A_##U(y), &out); \
  ASSERT(r == 1, #op "(" #T "," #U "): view exists"); ASSERT(same_d(out, (double)(EXPR)), #op "(" #T "," #U ") == " #EXPR " (bit-exact, in C's result type)"); OBS(canon_d(out)); } }
#define PBCHK(op, T, U, EXPR) if (SEL2(T,U)) { T x = V_##T(xb); U y = V_##U(yb); u64 out = 7; int r = k_##op##_##T##_##U(A_##T(x), A_##U(y), &out); \
  ASSERT(r == 1, #op "(" #T "," #U "): view exists"); ASSERT((out == 1 || out == 0) && (out != 0) == ((EXPR) != 0), #op "(" #T "," #U ") == " #EXPR); OBS(out); }
#define FC_negative(op,T)   FUCHK(op,T, 1, -x)
#define FC_positive(op,T)   FUCHK(op,T, 1, +x)
#define FC_square(op,T)     FUCHK(op##_s,T, 1, FOPY(mul, R_##T, x, x))
#define FC_reciprocal(op,T) FUCHK(op##_s,T, 1, FOPY(div, R_##T, 1, x))
#define FC_square_a(op,T)     FUCHK(op,T, 1, FOPY(mul, R_##T, x, x))
#define FC_reciprocal_a(op,T) FUCHK(op,T, 1, FOPY(div, R_##T, 1, x))
#define FC_logical_not(op,T) PUCHK(op,T, !x)
#define FC_fabs(op,T)       FUCHK(op,T, 1, M1_##T(fabs, fabsf, x))
#define FC_ceil(op,T)       FUCHK(op,T, 1, M1_##T(ceil, ceilf, x))
#define FC_floor(op,T)      FUCHK(op,T, 1, M1_##T(floor, floorf, x))
#define FC_trunc(op,T)      FUCHK(op,T, 1, M1_##T(trunc, truncf, x))
#define FC_rint(op,T)       FUCHK(op,T, 1, M1_##T(rint, rintf, x))
#define FC_isnan(op,T)      PUCHK(op,T, isnan(M1_##T(+, +, x)))
#define FC_isinf(op,T)      PUCHK(op,T, isinf(M1_##T(+, +, x)))
#define FC_isfinite(op,T)   PUCHK(op,T, !isnan(M1_##T(+, +, x)) && !isinf(M1_##T(+, +, x)))   /* CBMC has no body for __builtin_isfinite */
#define FC_signbit(op,T)    PUCHK(op,T, signbit(M1_##T(+, +, x)))
#define KN(op,T,U) k_##op##_##T##_##U
#define KNAA(op,T,U) k_##op##_aa_##T##_##U
#ifdef KF_C07_MINMAX_SCALAR
/* known finding: with a SCALAR operand, maximum/minimum/where convert the scalar to the array's element type (see props/C07.py) */
#define MM_OK(T, cmp) same_d((double)(x cmp y ? x : y), (double)(T)(x cmp y ? x : (T)y))
#else
#define MM_OK(T, cmp) 1
#endif
/* IEEE + - * /: the reference operation is the plain C++ operator compiled through the same pipeline (k_ref_f* in kernels/C07_leaf_flt.cpp: no nmtools
 * code). Default: exact IEEE semantics on both sides. With -DLL_UF_FLOAT (set per query) engine/ll2c.py turns + - * / into uninterpreted symbols in
 * the kernels and in these reference functions alike: the query then decides that the view applies the IEEE operation of the right precision
 * to the right operands in the right order (sound: anything equal under the abstraction is equal for the real operations). */
#define FOP_add_f32(a,b) k_ref_fadd_f32(a,b)
#define FOP_add_f64(a,b) k_ref_fadd_f64(a,b)
#define FOP_mul_f32(a,b) k_ref_fmul_f32(a,b)
#define FOP_mul_f64(a,b) k_ref_fmul_f64(a,b)
#define FOP_sub_f32(a,b) k_ref_fsub_f32(a,b)
#define FOP_sub_f64(a,b) k_ref_fsub_f64(a,b)
#define FOP_div_f32(a,b) k_ref_fdiv_f32(a,b)
#define FOP_div_f64(a,b) k_ref_fdiv_f64(a,b)
/* C's usual arithmetic conversions for the listed pairs: float only when no operand is double (integers convert to the float operand's type) */
#define R_f32_f32 f32
#define R_f64_f64 f64
#define R_i32_f32 f32
#define R_f32_i32 f32
#define R_f32_f64 f64
#define R_i64_f32 f32
#define R_u32_f64 f64
#define R_f32 f32
#define R_f64 f64
#define FOPX(o, R, a, b) FOP_##o##_##R((R)(a), (R)(b))
#define FOPY(o, R, a, b) FOPX(o, R, a, b)
#define KNSS(op,T,U) k_##op##_ss_##T##_##U
#define FC_add(op,T,U)      FBCHK(KNSS(op,T,U), op,T,U, 1, FOPY(add, R_##T##_##U, x, y))
#define FC_subtract(op,T,U) FBCHK(KNSS(op,T,U), op,T,U, 1, FOPY(sub, R_##T##_##U, x, y))
#define FC_multiply(op,T,U) FBCHK(KNSS(op,T,U), op,T,U, 1, FOPY(mul, R_##T##_##U, x, y))
#define FC_divide(op,T,U)   FBCHK(KNSS(op,T,U), op,T,U, 1, FOPY(div, R_##T##_##U, x, y))
#define FC_add_as(op,T,U)      FBCHK(KN(op,T,U), op,T,U, 1, FOPY(add, R_##T##_##U, x, y))
#define FC_subtract_as(op,T,U) FBCHK(KN(op,T,U), op,T,U, 1, FOPY(sub, R_##T##_##U, x, y))
#define FC_multiply_as(op,T,U) FBCHK(KN(op,T,U), op,T,U, 1, FOPY(mul, R_##T##_##U, x, y))
#define FC_divide_as(op,T,U)   FBCHK(KN(op,T,U), op,T,U, 1, FOPY(div, R_##T##_##U, x, y))
#define FC_maximum(op,T,U)  FBCHK(KN(op,T,U), op,T,U, MM_OK(T, >), x > y ? x : y)
#define FC_minimum(op,T,U)  FBCHK(KN(op,T,U), op,T,U, MM_OK(T, <), x < y ? x : y)
#define FC_maximum_aa(op,T,U) FBCHK(KNAA(op,T,U), op,T,U, 1, x > y ? x : y)
#define FC_minimum_aa(op,T,U) FBCHK(KNAA(op,T,U), op,T,U, 1, x < y ? x : y)
#define FC_equal(op,T,U)         PBCHK(op,T,U, x == y)
#define FC_not_equal(op,T,U)     PBCHK(op,T,U, x != y)
#define FC_less(op,T,U)          PBCHK(op,T,U, x < y)
#define FC_less_equal(op,T,U)    PBCHK(op,T,U, x <= y)
#define FC_greater(op,T,U)       PBCHK(op,T,U, x > y)
#define FC_greater_equal(op,T,U) PBCHK(op,T,U, x >= y)
#define FC_logical_and(op,T,U)   PBCHK(op,T,U, x && y)
#define FC_logical_or(op,T,U)    PBCHK(op,T,U, x || y)
#define FC_logical_xor(op,T,U)   PBCHK(op,T,U, (x != 0) ^ (y != 0))
#define FU(op) C07_FLT_TYPES(FC_##op, op)
#define FM(op) C07_MATH_TYPES(FC_##op, op)
#define FB(op) C07_FLT_PAIRS(FC_##op, op)
void h_lf_arith1(void){ u64 xb = in_bits(); FU(negative) FU(positive) FU(logical_not) REACHED(); }
void h_lf_sqrec(void){  u64 xb = in_bits(); FU(square) FU(reciprocal) REACHED(); }            /* scalar operand (scalar_ufunc_t) */
void h_lf_sqrec_a(void){ u64 xb = in_bits(); C07_FLT_TYPES(FC_square_a, square) C07_FLT_TYPES(FC_reciprocal_a, reciprocal) REACHED(); }   /* one-element array operand */
void h_lf_round(void){  u64 xb = in_bits(); FM(fabs) FM(ceil) FM(floor) FM(trunc) FM(rint) REACHED(); }
void h_lf_pred(void){   u64 xb = in_bits(); FM(isnan) FM(isinf) FM(isfinite) FM(signbit) REACHED(); }
void h_lf_addsub(void){ u64 xb = in_bits(), yb = in_bits(); FB(add) FB(subtract) REACHED(); }
void h_lf_mul(void){    u64 xb = in_bits(), yb = in_bits(); FB(multiply) REACHED(); }
void h_lf_div(void){    u64 xb = in_bits(), yb = in_bits(); FB(divide) REACHED(); }
/* the same four ops with (one-element array, scalar) operands: broadcast + ufunc_t::operator() */
void h_lf_arith_as(void){ u64 xb = in_bits(), yb = in_bits(); C07_FLT_PAIRS(FC_add_as, add) C07_FLT_PAIRS(FC_subtract_as, subtract) C07_FLT_PAIRS(FC_multiply_as, multiply) C07_FLT_PAIRS(FC_divide_as, divide) REACHED(); }
void h_lf_minmax(void){ u64 xb = in_bits(), yb = in_bits(); FB(maximum) FB(minimum) C07_FLT_PAIRS(FC_maximum_aa, maximum) C07_FLT_PAIRS(FC_minimum_aa, minimum) REACHED(); }
void h_lf_cmp(void){    u64 xb = in_bits(), yb = in_bits(); FB(equal) FB(not_equal) FB(less) FB(less_equal) FB(greater) FB(greater_equal) REACHED(); }
void h_lf_logical(void){ u64 xb = in_bits(), yb = in_bits(); FB(logical_and) FB(logical_or) FB(logical_xor) REACHED(); }
/* library functions: fmax/fmin (exact in CBMC), fmod, and the uninterpreted ones */
#define ZT(op, cd, cf) C07_MATH_TYPES(FCT_##op, op)
#define FCLIB2(op, cd, cf, T, U) FBCHK(KNAA(op,T,U), op,T,U, 1, M2_##T##_##U(cd, cf, x, y))
#define FCX_fmax(op,T,U)  FCLIB2(op, fmax, fmaxf, T, U)
#define FCX_fmin(op,T,U)  FCLIB2(op, fmin, fminf, T, U)
#define FCX_fmod(op,T,U)  FCLIB2(op, fmod, fmodf, T, U)
#define FCX_power(op,T,U) FCLIB2(op, pow, powf, T, U)
#define FCX_arctan2(op,T,U) FCLIB2(op, atan2, atan2f, T, U)
#define FCX_hypot(op,T,U) FCLIB2(op, hypot, hypotf, T, U)
void h_lf_fminmax(void){ u64 xb = in_bits(), yb = in_bits(); C07_FLT_PAIRS(FCX_fmax, fmax) C07_FLT_PAIRS(FCX_fmin, fmin) REACHED(); }
void h_lf_fmod(void){    u64 xb = in_bits(), yb = in_bits(); C07_FLT_PAIRS(FCX_fmod, fmod) REACHED(); }
void h_lf_trans2(void){  u64 xb = in_bits(), yb = in_bits(); C07_FLT_PAIRS(FCX_power, power) C07_FLT_PAIRS(FCX_arctan2, arctan2) C07_FLT_PAIRS(FCX_hypot, hypot)
  if (SEL2(f32,i32)) { f32 x = V_f32(xb); i32 y = V_i32(yb); double out = 0; int r = k_ldexp_aa_f32_i32(x, (u32)y, &out); ASSERT(r == 1, "ldexp(f32,i32): view exists"); ASSERT(same_d(out, (double)ldexpf(x, y)), "ldexp(f32,i32) calls ldexpf(x, y)"); OBS(canon_d(out)); }
  if (SEL2(f64,i32)) { f64 x = V_f64(xb); i32 y = V_i32(yb); double out = 0; int r = k_ldexp_aa_f64_i32(x, (u32)y, &out); ASSERT(r == 1, "ldexp(f64,i32): view exists"); ASSERT(same_d(out, ldexp(x, y)), "ldexp(f64,i32) calls ldexp(x, y)"); OBS(canon_d(out)); }
  REACHED(); }
#define ZTR(op, cd, cf) if (SEL1(f32)) { f32 x = V_f32(xb); double out = 0; int r = k_##op##_f32(x, &out); ASSERT(r == 1, #op "(f32): view exists"); ASSERT(same_d(out, (double)cf(x)), #op "(f32) calls " #cf "(x) (float precision)"); OBS(canon_d(out)); } \
  if (SEL1(f64)) { f64 x = V_f64(xb); double out = 0; int r = k_##op##_f64(x, &out); ASSERT(r == 1, #op "(f64): view exists"); ASSERT(same_d(out, cd(x)), #op "(f64) calls " #cd "(x)"); OBS(canon_d(out)); } \
  if (SEL1(i32)) { i32 x = V_i32(xb); double out = 0; int r = k_##op##_i32((u32)x, &out); ASSERT(r == 1, #op "(i32): view exists"); ASSERT(same_d(out, cd((double)x)), #op "(i32) calls " #cd "((double)x)"); OBS(canon_d(out)); }
void h_lf_trans1(void){ u64 xb = in_bits(); C07_FLT_UNOPS_TRANS(ZTR) REACHED(); }
#endif

#ifdef LEAF_ACT
#include <math.h>
#include "C07_leaf_act.h"
#ifndef NMV_NATIVE
#define UF1(cd, cf) double __CPROVER_uninterpreted_##cd(double); double cd(double x){ return __CPROVER_uninterpreted_##cd(x); } \
                    float __CPROVER_uninterpreted_##cf(float); float cf(float x){ return __CPROVER_uninterpreted_##cf(x); }
UF1(exp, expf) UF1(log, logf) UF1(tanh, tanhf)
#endif
static inline int same_f(float a, float b){ return (a != a && b != b) || f32_bits(a) == f32_bits(b); }
static inline int same_d(double a, double b){ return (a != a && b != b) || f64_bits(a) == f64_bits(b); }
static inline u64 canon_f(float a){ return a != a ? 0x7fc00000u : f32_bits(a); }
static inline u64 canon_d(double a){ return a != a ? 0x7ff8000000000000ull : f64_bits(a); }
#define SAME_f32 same_f
#define SAME_f64 same_d
#define CANON_f32 canon_f
#define CANON_f64 canon_d
#define EXP_f32 expf
#define EXP_f64 exp
#define LOG_f32 logf
#define LOG_f64 log
#define TANH_f32 tanhf
#define TANH_f64 tanh
#define MAXF(a,b) ((a) < (b) ? (b) : (a))      /* std::max(a,b) */
#define MINF(a,b) ((b) < (a) ? (b) : (a))      /* std::min(a,b) */
#define NOTNAN(v) ((v) == (v))
#define ACHK(CALL, op, T, DOM, EXPR) if (SEL1(T)) { T x = V_##T(xb), p = V_##T(pb), q = V_##T(qb); (void)p; (void)q; if (DOM) { T out = 0; int r = CALL; \
  ASSERT(r == 1, #op "(" #T "): view exists"); ASSERT(SAME_##T(out, (T)(EXPR)), #op "(" #T ") == " #EXPR); OBS(CANON_##T(out)); } }
#define A0(op, T, DOM, EXPR) ACHK(k_##op##_##T(x, &out), op, T, DOM, EXPR)
#define A1(op, T, DOM, EXPR) ACHK(k_##op##_##T(x, p, &out), op, T, DOM, EXPR)
#define A2(op, T, DOM, EXPR) ACHK(k_##op##_##T(x, p, q, &out), op, T, DOM, EXPR)
#define AD(op, DOM, EXPR)    ACHK(k_##op##_def_f32(x, &out), op (default parameters), f32, DOM, EXPR)
#define FT(M, ...) M(__VA_ARGS__)
/* piecewise-linear / rational activations: decided bit-exactly against the documented formula (comparison form) */
#define X_relu(T)       A0(relu, T, 1, x > 0 ? x : 0)
#define X_relu6(T)      A0(relu6, T, 1, x < 0 ? 0 : x > 6 ? 6 : x)
#define X_hardtanh(T)   A2(hardtanh, T, NOTNAN(p) && NOTNAN(q) && p <= q, x < p ? p : x > q ? q : x)
/* + - * / of the formulas below go through k_ref_f* (bare C++ operators compiled by the same pipeline): exact IEEE by default, the shared
 * uninterpreted symbols under -DLL_UF_FLOAT (see the LEAF_FLT section). In the uninterpreted mode the formulas are written in the operation
 * structure clang -O1 emits, which differs from the source text only by exact IEEE identities: x - c == x + (-c), x * 1 == x, x / 1 == x. */
#define ADD(T, a, b) k_ref_fadd_##T((T)(a), (T)(b))
#define SUB(T, a, b) k_ref_fsub_##T((T)(a), (T)(b))
#define MUL(T, a, b) k_ref_fmul_##T((T)(a), (T)(b))
#define DIV(T, a, b) k_ref_fdiv_##T((T)(a), (T)(b))
/* x >= 0 ? x : p*x, in the form clang emits: (x >= 0 ? 1 : p) * x   (1 * x == x exactly) */
#define X_leaky_relu(T) A1(leaky_relu, T, 1, MUL(T, (x >= 0 ? (T)1 : p), x))
#define X_prelu(T)      A1(prelu, T, 1, MUL(T, (x >= 0 ? (T)1 : p), x))
#define X_hardshrink(T) A1(hardshrink, T, p >= 0, (x >= -p && x <= p) ? 0 : x)
#define X_softshrink(T) A1(softshrink, T, p >= 0, x > p ? x - p : x < -p ? x + p : 0)
#define X_hardswish(T)  A0(hardswish, T, 1, x < -3 ? 0 : x >= 3 ? x : DIV(T, MUL(T, ADD(T, x, 3), x), 6))
#define X_softsign(T)   A0(softsign, T, 1, DIV(T, x, ADD(T, 1, (x > 0 ? x : -x))))
void h_la_relu(void){ u64 xb = in_bits(), pb = 0, qb = 0; X_relu(f32) X_relu(f64) X_relu6(f32) X_relu6(f64)
  { i32 x = (i32)xb; u32 out = 0; int r = k_relu_i32((u32)x, &out); ASSERT(r == 1 && (i32)out == (x > 0 ? x : 0), "relu(i32) == x > 0 ? x : 0"); OBS(out);
    r = k_relu6_i32((u32)x, &out); ASSERT(r == 1 && (i32)out == (x < 0 ? 0 : x > 6 ? 6 : x), "relu6(i32) == min(max(x,0),6)"); OBS(out); }
  REACHED(); }
void h_la_clamp(void){ u64 xb = in_bits(), pb = in_bits(), qb = in_bits(); X_hardtanh(f32) X_hardtanh(f64) X_hardshrink(f32) X_hardshrink(f64) X_softshrink(f32) X_softshrink(f64)
  AD(hardtanh, 1, x < -1.0f ? -1.0f : x > 1.0f ? 1.0f : x) AD(hardshrink, 1, (x >= -0.5f && x <= 0.5f) ? 0 : x) AD(softshrink, 1, x > 0.5f ? x - 0.5f : x < -0.5f ? x + 0.5f : 0) REACHED(); }
void h_la_slope(void){ u64 xb = in_bits(), pb = in_bits(), qb = 0; X_leaky_relu(f32) X_leaky_relu(f64) X_prelu(f32) X_prelu(f64) REACHED(); }
/* default parameters (float 0.01 / 0.25): clang folds them into (x < 0 ? c : 1) * x, so this one is only meaningful with exact arithmetic */
void h_la_slope_def(void){ u64 xb = in_bits(), pb = 0, qb = 0; AD(leaky_relu, 1, x >= 0 ? x : 0.01f * x) AD(prelu, 1, x >= 0 ? x : 0.25f * x) REACHED(); }
void h_la_rational(void){ u64 xb = in_bits(), pb = 0, qb = 0; X_hardswish(f32) X_hardswish(f64) X_softsign(f32) X_softsign(f64) REACHED(); }
/* activations built on exp/log/tanh: those three are uninterpreted, the surrounding IEEE arithmetic is exact => structural check of the formula */
#define SP(T, x, b, th) (MUL(T, x, b) > (th) ? (x) : DIV(T, LOG_##T(ADD(T, EXP_##T(MUL(T, x, b)), 1)), b))
#define SP1(T, x) ((x) > 20 ? (x) : LOG_##T(ADD(T, EXP_##T(x), 1)))          /* softplus with beta = 1, threshold = 20 (x*1 and y/1 folded) */
#define SIG(T, x) DIV(T, 1, ADD(T, EXP_##T(-(x)), 1))
#define X_elu(T)         A1(elu, T, 1, x > 0 ? x : MUL(T, p, ADD(T, EXP_##T(x), -1)))
#define X_celu(T)        A1(celu, T, 1, ADD(T, MAXF((T)0, x), MINF((T)0, MUL(T, p, ADD(T, EXP_##T(DIV(T, x, p)), -1)))))
#define X_selu(T)        A0(selu, T, 1, MUL(T, (T)1.0507009873554804934193349852946, ADD(T, MAXF(x, (T)0), MINF(MUL(T, (T)1.6732632423543772848170429916717, ADD(T, EXP_##T(x), -1)), (T)0))))
#define X_sigmoid(T)     A0(sigmoid, T, 1, SIG(T, x))
#define X_silu(T)        A0(silu, T, 1, MUL(T, x, SIG(T, x)))
#define X_log_sigmoid(T) A0(log_sigmoid, T, 1, LOG_##T(SIG(T, x)))
#define X_softplus(T)    A2(softplus, T, 1, SP(T, x, p, q))
#define X_mish(T)        A0(mish, T, 1, MUL(T, x, TANH_##T(SP1(T, x))))
#define X_tanhshrink(T)  A0(tanhshrink, T, 1, SUB(T, x, TANH_##T(x)))
void h_la_exp1(void){ u64 xb = in_bits(), pb = in_bits(), qb = 0; X_elu(f32) X_elu(f64) X_celu(f32) X_celu(f64) X_selu(f32) X_selu(f64)
  AD(elu, 1, x > 0 ? x : ADD(f32, expf(x), -1)) AD(celu, 1, ADD(f32, MAXF(0.0f, x), MINF(0.0f, ADD(f32, expf(x), -1)))) REACHED(); }
void h_la_exp2(void){ u64 xb = in_bits(), pb = 0, qb = 0; X_sigmoid(f32) X_sigmoid(f64) X_silu(f32) X_silu(f64) X_log_sigmoid(f32) X_log_sigmoid(f64) X_tanhshrink(f32) X_tanhshrink(f64) REACHED(); }
void h_la_exp3(void){ u64 xb = in_bits(), pb = in_bits(), qb = in_bits(); X_softplus(f32) X_softplus(f64) X_mish(f32) X_mish(f64) AD(softplus, 1, SP1(f32, x)) REACHED(); }
#endif
