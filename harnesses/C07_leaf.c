/* C07 (b): per-op leaf checks. Every scalar functor, applied THROUGH its view (one-element array, scalar right operand), equals the
 * C expression on the same operand types (C's integer promotions / usual arithmetic conversions), on symbolic scalars.
 * One symbolic 64-bit pattern per operand is re-interpreted in every dtype (low bits), so each check is over the dtype's whole range
 * unless a domain guard says otherwise (guards = the inputs on which the C++ expression itself is undefined: signed overflow,
 * division by zero, out-of-range shifts; signed multiplication is additionally bounded in magnitude, see props/C07.py). */
#include "harness.h"
#include "C07_leaf.def"
typedef __int128 w128;
#define SGN(e) ((__typeof__(e))-1 < 0)                          /* is the (promoted) type of e signed? (e is not evaluated) */
#define FITS(w, e) ((w) == (w128)(__typeof__(e))(w))            /* does the exact value w fit the type of e? */
#define RMIN(e) (sizeof(e) == 4 ? (w128)INT32_MIN : (w128)INT64_MIN)
#define WIDTH(e) ((w128)(8 * sizeof(e)))
#define A_i8(x)  ((u32)(i32)(x))
#define A_i32(x) ((u32)(x))
#define A_u32(x) ((u32)(x))
#define A_i64(x) ((u64)(x))
#define A_u64(x) ((u64)(x))
/* optional per-query restriction to one dtype (pair): -DONLY_T=<id> [-DONLY_U=<id>] with ids i8=1 i32=2 u32=3 i64=4 u64=5 f32=6 f64=7 */
#define ID_i8 1
#define ID_i32 2
#define ID_u32 3
#define ID_i64 4
#define ID_u64 5
#define ID_f32 6
#define ID_f64 7
#ifndef ONLY_T
#define ONLY_T 0
#endif
#ifndef ONLY_U
#define ONLY_U 0
#endif
#define SEL1(T) (ONLY_T == 0 || ID_##T == ONLY_T)
#define SEL2(T,U) ((ONLY_T == 0 || ID_##T == ONLY_T) && (ONLY_U == 0 || ID_##U == ONLY_U))
#ifndef MULBITS
#define MULBITS 15
#endif
#define SMALL(v) ((i64)(v) > -((i64)1 << MULBITS) && (i64)(v) < ((i64)1 << MULBITS))   /* only used for signed operands */

#ifdef LEAF_INT
#include "C07_leaf_int.h"
#define UCHK(op, T, DOM, EXPR) if (SEL1(T)) { T x = (T)xb; if (DOM) { u64 out = 0; int r = k_##op##_##T(A_##T(x), &out); \
  ASSERT(r == 1, #op "(" #T "): view exists"); ASSERT((i64)out == (i64)(EXPR), #op "(" #T ") == " #EXPR " in C's result type"); OBS(out); } }
#define BCHK(op, T, U, DOM, EXPR) if (SEL2(T,U)) { T x = (T)xb; U y = (U)yb; if (DOM) { u64 out = 0; int r = k_##op##_##T##_##U(A_##T(x), A_##U(y), &out); \
  ASSERT(r == 1, #op "(" #T "," #U "): view exists"); ASSERT((i64)out == (i64)(EXPR), #op "(" #T "," #U ") == " #EXPR " in C's result type"); OBS(out); } }
#define NODIV0 ((w128)y != 0 && !(SGN(x / y) && (w128)x == RMIN(x / y) && (w128)y == -1))
#define SHIFT_OK ((w128)y >= 0 && (w128)y < WIDTH(x << y))
#define CHK_negative(op,T)     UCHK(op,T, !SGN(-x) || FITS(-(w128)x, -x), -x)
#define CHK_positive(op,T)     UCHK(op,T, 1, +x)
#define CHK_invert(op,T)       UCHK(op,T, 1, ~x)
#define CHK_logical_not(op,T)  UCHK(op,T, 1, !x)
#define CHK_square(op,T)       UCHK(op,T, !SGN(x * x) || SMALL(x), x * x)
#define CHK_reciprocal(op,T)   UCHK(op,T, x != 0, 1 / x)
#define CHK_add(op,T,U)        BCHK(op,T,U, !SGN(x + y) || FITS((w128)x + (w128)y, x + y), x + y)
#define CHK_subtract(op,T,U)   BCHK(op,T,U, !SGN(x - y) || FITS((w128)x - (w128)y, x - y), x - y)
#define CHK_multiply(op,T,U)   BCHK(op,T,U, !SGN(x * y) || (SMALL(x) && SMALL(y)), x * y)
#define CHK_divide(op,T,U)     BCHK(op,T,U, NODIV0, x / y)
#define CHK_mod(op,T,U)        BCHK(op,T,U, NODIV0, x % y)
#define CHK_bitwise_and(op,T,U) BCHK(op,T,U, 1, x & y)
#define CHK_bitwise_or(op,T,U)  BCHK(op,T,U, 1, x | y)
#define CHK_bitwise_xor(op,T,U) BCHK(op,T,U, 1, x ^ y)
#define CHK_left_shift(op,T,U)  BCHK(op,T,U, SHIFT_OK && (!SGN(x << y) || ((w128)x >= 0 && FITS((w128)x << y, x << y))), x << y)
#define CHK_right_shift(op,T,U) BCHK(op,T,U, SHIFT_OK, x >> y)
#define CHK_equal(op,T,U)         BCHK(op,T,U, 1, x == y)
#define CHK_not_equal(op,T,U)     BCHK(op,T,U, 1, x != y)
#define CHK_less(op,T,U)          BCHK(op,T,U, 1, x < y)
#define CHK_less_equal(op,T,U)    BCHK(op,T,U, 1, x <= y)
#define CHK_greater(op,T,U)       BCHK(op,T,U, 1, x > y)
#define CHK_greater_equal(op,T,U) BCHK(op,T,U, 1, x >= y)
#define CHK_logical_and(op,T,U)   BCHK(op,T,U, 1, x && y)
#define CHK_logical_or(op,T,U)    BCHK(op,T,U, 1, x || y)
#define CHK_logical_xor(op,T,U)   BCHK(op,T,U, 1, (x != 0) ^ (y != 0))
#define CHK_maximum(op,T,U)       BCHK(op,T,U, 1, x > y ? x : y)
#define CHK_minimum(op,T,U)       BCHK(op,T,U, 1, x < y ? x : y)
#define U1(op) C07_INT_TYPES(CHK_##op, op)
#define B1(op) C07_INT_PAIRS(CHK_##op, op)
void h_li_unary(void){   u64 xb = in_bits(); U1(negative) U1(positive) U1(invert) U1(logical_not) REACHED(); }
void h_li_addsub(void){  u64 xb = in_bits(), yb = in_bits(); B1(add) B1(subtract) REACHED(); }
void h_li_mul(void){     u64 xb = in_bits(), yb = in_bits(); B1(multiply) REACHED(); }
void h_li_square(void){  u64 xb = in_bits(); U1(square) REACHED(); }
void h_li_divmod(void){  u64 xb = in_bits(), yb = in_bits(); B1(divide) B1(mod) U1(reciprocal) REACHED(); }
void h_li_bitwise(void){ u64 xb = in_bits(), yb = in_bits(); B1(bitwise_and) B1(bitwise_or) B1(bitwise_xor) REACHED(); }
void h_li_shift(void){   u64 xb = in_bits(), yb = in_bits(); B1(left_shift) B1(right_shift) REACHED(); }
void h_li_cmp(void){     u64 xb = in_bits(), yb = in_bits(); B1(equal) B1(not_equal) B1(less) B1(less_equal) B1(greater) B1(greater_equal) REACHED(); }
void h_li_logical(void){ u64 xb = in_bits(), yb = in_bits(); B1(logical_and) B1(logical_or) B1(logical_xor) REACHED(); }
void h_li_minmax(void){  u64 xb = in_bits(), yb = in_bits(); B1(maximum) B1(minimum) REACHED(); }
#endif
