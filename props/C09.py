KERNELS = {
 'C09_std': dict(src='kernels/C09_kinds.cpp', flags=['-DNDEBUG']),
 'C09_utl': dict(src='kernels/C09_kinds.cpp', flags=['-DNDEBUG', '-DNMTOOLS_DISABLE_STL', '-DKSUFFIX=_utl']),
}
def _h(name, bounds, unwind=8, quick=None, thorough=None, **kw):
    return dict(name=name, src='harnesses/C09.c', func='h_' + name, kernels=['C09_std', 'C09_utl'], unwind=unwind, bounds=bounds,
                quick=quick or [{'MAXE': 3}], thorough=thorough or [{'MAXE': 4}], **kw)
def _cfgs(e, kas, kbs=(None,), builds=(0, 1)):
    out = []
    for ka in kas:
        for kb in kbs:
            for bd in builds:
                c = {'MAXE': e, 'KA': ka, 'BUILD': bd}
                if kb is not None: c['KB'] = kb
                if bd == 0 and (ka == 2 or kb == 2): c['_mem_gb'] = 10   # std::vector kinds: heap model costs 5-10 GB
                out.append(c)
    return out
ENUM = ' Container kinds and the build configuration are per-query constants, enumerated exhaustively; everything else is symbolic.'
HARNESSES = [
 _h('index_kinds', 'compute_indices/compute_strides on dim-3 shapes, extents 1..MAXE, offset symbolic; std-build kind KA in {static vector, list, tuple, raw C array} and utl-build kind KB in {fixed array, static vector, list, tuple, raw array} vs the std fixed-array result.' + ENUM,
    quick=_cfgs(3, (1, 2, 3, 4), (0, 1, 2, 3, 4), (0,))[::3], thorough=_cfgs(4, (1, 2, 3, 4), (0, 1, 2, 3, 4), (0,))),
 _h('bshape_kinds', 'broadcast_shape of a dim-3 and a dim-2 shape, extents 1..MAXE incl. incompatible ones; operand kinds KA,KB in {array, static vector, list} x build in {std, utl}.' + ENUM,
    quick=[c for c in _cfgs(3, (0, 1, 2), (0, 1, 2)) if not (c['KA'] == 2 and c['KB'] == 2 and c['BUILD'] == 0)],   # std::vector x std::vector: 250-370 s / 12 GB, thorough tier
    thorough=_cfgs(4, (0, 1, 2), (0, 1, 2)) + [dict(c, _timeout=1800, _mem_gb=14) for c in _cfgs(3, (2,), (2,), (0,))]),
 _h('reshape_kinds', 'shape_reshape dim-3 source, 2 signed target entries in -2..MAXE^3 incl. invalid ones; kinds KA,KB in {array, static vector, list} x build.' + ENUM,
    quick=_cfgs(3, (0, 1, 2), (0, 1, 2))[::2], thorough=_cfgs(4, (0, 1, 2), (0, 1, 2))),
 _h('reshape_ctdst', 'shape_reshape of a symbolic run-time dim-3 source (kind KA in {array, static vector, list} x build) to the compile-time CONSTANT target (2,3), and the all-constant (1,3,2)->(2,3), vs the all-run-time call.' + ENUM,
    quick=_cfgs(3, (0, 1, 2)), thorough=_cfgs(4, (0, 1, 2))),
 _h('array_kinds', 'view::transpose on a (2,3) array held as fixed / hybrid / dynamic ndarray_t (KA) x build, data and index symbolic.' + ENUM, quick=[c for c in _cfgs(3, (0, 1, 2)) if not (c['KA'] == 2 and c['BUILD'] == 0)], thorough=[c for c in _cfgs(3, (0, 1, 2)) if not (c['KA'] == 2 and c['BUILD'] == 0)]),
 _h('array_kinds_sum', 'view::sum over a symbolic (possibly negative) axis of a (2,3) fixed / hybrid / dynamic ndarray_t (KA) x build, data and index symbolic.' + ENUM, quick=_cfgs(3, (0, 1)), thorough=_cfgs(3, (0, 1))),
 _h('constants', 'compile-time constant shapes (types, ENUMERATED: (2,3,4); (2,1,4)x(3,1)) vs the run-time functions on the same values; constant x symbolic run-time operand', quick=_cfgs(3, (0,)), thorough=_cfgs(4, (0,))),
]
OUTSIDE = ['dynamic ndarray_t backed by std::vector (std build): transpose query killed at 11 GB, sum at 12.8 GB - not reached; the utl::vector-backed dynamic kind is covered for transpose; view::sum on the dynamic kind: out of memory at 16 GB (utl build) - not reached', 'gcc vs clang (only clang IR is encoded; g++ is reached by gate and replay)', 'Boost containers', 'clipped shapes', 'the 15 ndarray shape x buffer kinds via cast (3 kinds covered)',
           'constant kinds beyond the enumerated instantiations (types cannot be symbolic)', 'operations other than the listed ones (each C01-C08 harness fixes one kind)']
CLAIM = dict(
 text='Differential harnesses: the same nmtools call instantiated on different container kinds (fixed array, bounded static vector, dynamic list, tuple, raw array; '
      'fixed/hybrid/dynamic ndarray) and in two build configurations (std:: containers vs NMTOOLS_DISABLE_STL utl:: containers, same source compiled twice) is shown by the solver '
      'to give identical (success, dim, shape, element) for all symbolic inputs in scope; constant-shape instantiations (enumerated types) equal the run-time computation.',
 note='Bounded: dim-3 shapes, extents 1..3 (quick) / 1..4 (thorough), (2,3) arrays; kinds listed in the harness bounds; constants are an enumerated family. gcc/Boost configurations outside the claim.')
